(* C20: graph rewrites (remove_intermediate_node / eliminate_extra_unions_tees / merge_modules /
   handoff insertion) and the serde round trip, on the wiring level.  Definitions only.
   A wire is (source node, source port, destination node, destination port). *)
From Coq Require Import List String NArith Bool Arith.
From HV Require Import Partition.Base GraphAlg.Model Partition.Model.
Import ListNotations.
Open Scope N_scope.

Definition wire := (N * port * N * port)%type.
Definition wire_of (e : edge) : wire := (e_src e, e_sport e, e_dst e, e_dport e).
Definition wires (g : graph) : list wire := map wire_of (g_edges g).

Definition port_eqb (a b : port) : bool :=
  match a, b with
  | PElided, PElided => true
  | PInt s x, PInt t y => Bool.eqb s t && N.eqb x y
  | PPath x, PPath y => String.eqb x y
  | _, _ => false
  end.
Definition wire_eqb (a b : wire) : bool :=
  let '(s1, p1, d1, q1) := a in let '(s2, p2, d2, q2) := b in
  N.eqb s1 s2 && port_eqb p1 p2 && N.eqb d1 d2 && port_eqb q1 q2.

(* ---- DfirGraph::remove_intermediate_node on the edge list (edge ids are not observable
   wiring; the new edge gets the id the caller supplies).  None = the Rust code panics
   (degree assertions) or the node has a self loop. *)
Definition ins (es : list edge) (n : N) : list edge := filter (fun e => N.eqb (e_dst e) n) es.
Definition outs (es : list edge) (n : N) : list edge := filter (fun e => N.eqb (e_src e) n) es.
Definition others (es : list edge) (n : N) : list edge :=
  filter (fun e => negb (N.eqb (e_src e) n) && negb (N.eqb (e_dst e) n)) es.

Definition remove_mid (es : list edge) (n newid : N) : option (list edge) :=
  match ins es n, outs es n with
  | [i], [o] => if N.eqb (e_src i) n then None
                else Some (others es n ++ [mkEdge newid (e_src i) (e_dst o) (e_sport i) (e_dport o)])
  | _, _ => None
  end.

(* specification: contract node n -- every wire into n is joined with every wire out of n, keeping
   the far ports; all other wires unchanged *)
Definition contract (es : list edge) (n : N) : list wire :=
  map wire_of (others es n) ++
  flat_map (fun i => map (fun o => (e_src i, e_sport i, e_dst o, e_dport o)) (outs es n)) (ins es n).

(* ---- end-to-end wiring THROUGH a set R of pass-through nodes (removed unary unions/tees,
   module boundaries, inserted handoffs).  A module boundary forwards by port name (its input
   port q continues on its output port q); any other pass-through node has one way out. *)
Definition is_mod (g : graph) (id : N) : bool :=
  match node_of g id with Some n => match n_kind n with KMod => true | _ => false end | None => false end.

Fixpoint follow (fuel : nat) (g : graph) (R : list N) (d : N) (dp : port) : list (N * port) :=
  match fuel with
  | O => []
  | S f =>
      if memN d R then
        flat_map (fun o => if N.eqb (e_src o) d && (negb (is_mod g d) || port_eqb (e_sport o) dp)
                           then follow f g R (e_dst o) (e_dport o) else []) (g_edges g)
      else [(d, dp)]
  end.
Definition through (g : graph) (R : list N) : list wire :=
  flat_map (fun e => if memN (e_src e) R then []
                     else map (fun x => (e_src e, e_sport e, fst x, snd x))
                              (follow (S (List.length R)) g R (e_dst e) (e_dport e))) (g_edges g).

(* multiset equality of wire lists *)
Definition count_w (w : wire) (l : list wire) : nat := List.length (filter (wire_eqb w) l).
Definition same_wires_b (a b : list wire) : bool :=
  Nat.eqb (List.length a) (List.length b) &&
  forallb (fun w => Nat.eqb (count_w w a) (count_w w b)) (a ++ b).

(* operators / arguments / loop context / references of the surviving nodes are untouched *)
Definition ref_eqb (a b : ref) : bool :=
  optN_eqb (r_target a) (r_target b) && Bool.eqb (r_mut a) (r_mut b) && optN_eqb (r_group a) (r_group b).
Fixpoint refs_eqb (a b : list ref) : bool :=
  match a, b with
  | [], [] => true
  | x :: a', y :: b' => ref_eqb x y && refs_eqb a' b'
  | _, _ => false
  end.
Definition kind_eqb (a b : nkind) : bool :=
  match a, b with
  | KOp x, KOp y => String.eqb x y
  | KHoff HVec, KHoff HVec | KHoff HSingleton, KHoff HSingleton | KHoff HOptional, KHoff HOptional => true
  | KMod, KMod => true
  | _, _ => false
  end.
Definition node_same_b (a b : node) : bool :=
  N.eqb (n_id a) (n_id b) && kind_eqb (n_kind a) (n_kind b) && optN_eqb (n_loop a) (n_loop b) &&
  refs_eqb (n_refs a) (n_refs b).

(* `big` = graph containing the pass-through nodes R, `small` = graph without them *)
Definition same_dataflow_b (big : graph) (R : list N) (small : graph) : bool :=
  same_wires_b (through big R) (wires small) &&
  forallb (fun n => negb (memN (n_id n) R)) (g_nodes small) &&
  forallb (fun n => memN (n_id n) R ||
                    match node_of small (n_id n) with Some m => node_same_b n m | None => false end)
          (g_nodes big) &&
  Nat.eqb (List.length (g_nodes big)) (List.length (g_nodes small) + List.length R).

(* ---- serde round trip: the loaded graph equals the original on every field the model keeps *)
Definition optD_eqb' (a b : option delay) : bool :=
  match a, b with None, None => true | Some x, Some y => delay_eqb x y | _, _ => false end.
Fixpoint list_eqb {A} (f : A -> A -> bool) (a b : list A) : bool :=
  match a, b with
  | [], [] => true
  | x :: a', y :: b' => f x y && list_eqb f a' b'
  | _, _ => false
  end.
Definition node_eqb (a b : node) : bool :=
  node_same_b a b && optN_eqb (n_sg a) (n_sg b) && optD_eqb' (n_delay a) (n_delay b).
Definition edge_eqb (a b : edge) : bool :=
  N.eqb (e_id a) (e_id b) && wire_eqb (wire_of a) (wire_of b).
Definition loop_eqb (a b : loopd) : bool :=
  N.eqb (l_id a) (l_id b) && optN_eqb (l_parent a) (l_parent b) && list_eqb N.eqb (l_nodes a) (l_nodes b).
Definition sg_eqb (a b : sgd) : bool := N.eqb (s_id a) (s_id b) && list_eqb N.eqb (s_nodes a) (s_nodes b).
Definition graph_eqb (a b : graph) : bool :=
  list_eqb node_eqb (g_nodes a) (g_nodes b) && list_eqb edge_eqb (g_edges a) (g_edges b) &&
  list_eqb loop_eqb (g_loops a) (g_loops b) && list_eqb sg_eqb (g_sgs a) (g_sgs b) &&
  list_eqb N.eqb (g_topo a) (g_topo b).

(* verdict pieces for props/C20.py (each 0 = fine) *)
Definition c20_rewrite (big : graph) (R : list N) (small : graph) : N :=
  if same_dataflow_b big R small then 0 else 2.
Definition c20_roundtrip (orig loaded : graph) : N := if graph_eqb orig loaded then 0 else 2.

(* model vs implementation for one remove_intermediate_node call (bit 0) *)
Definition c20_rm_model (before : graph) (n : N) (after : graph) : N :=
  match remove_mid (g_edges before) n 0 with
  | Some es' => if same_wires_b (map wire_of es') (wires after) then 0 else 1
  | None => 1
  end.

(* ---- multi-step: eliminate_extra_unions_tees = remove_intermediate_node for every node of a list
   collected up front (unary unions first, then unary tees) *)
Fixpoint elim (es : list edge) (rs : list N) (k : N) : option (list edge) :=
  match rs with
  | [] => Some es
  | r :: rs' => match remove_mid es r k with
                | Some es1 => elim es1 rs' (k + 1)
                | None => None
                end
  end.

(* end-to-end connections through a set R of pass-through nodes: a route starts where an edge
   arrives (node x, input port q) and continues through out-edges while the node is in R *)
Inductive route (es : list edge) (R : list N) : N -> port -> N -> port -> Prop :=
| route_end x q : ~ In x R -> route es R x q x q
| route_step x q o t pt : In x R -> In o es -> e_src o = x ->
    route es R (e_dst o) (e_dport o) t pt -> route es R x q t pt.

Definition conn (es : list edge) (R : list N) (w : wire) : Prop :=
  let '(a, pa, t, pt) := w in
  ~ In a R /\ exists e, In e es /\ e_src e = a /\ e_sport e = pa /\ route es R (e_dst e) (e_dport e) t pt.

(* model vs implementation for eliminate_extra_unions_tees (bit 0): rs = the unary unions, then the
   unary tees, in node order, as the Rust code collects them before removing any *)
Definition c20_elim_model (before : graph) (rs : list N) (after : graph) : N :=
  match elim (g_edges before) rs 0 with
  | Some es' => if same_wires_b (map wire_of es') (wires after) then 0 else 1
  | None => 1
  end.

(* ---- DfirGraph::remove_module_boundary / merge_modules on the edge list.
   The Rust code keys the boundary's in-edges by their destination port and its out-edges by their
   source port (BTreeMaps), requires equal key sets (else Err diagnostic), joins per port and then
   `remove_vertex` asserts that no edge is left: two edges on one port (the later overwrites the
   earlier in the map) or a self loop leave an edge behind -> panic. *)
Inductive mbres := MbOk (es : list edge) | MbErr | MbPanic.

Fixpoint ports_nodup (l : list port) : bool :=
  match l with [] => true | p :: r => negb (existsb (port_eqb p) r) && ports_nodup r end.
Definition ports_subset (a b : list port) : bool := forallb (fun p => existsb (port_eqb p) b) a.

Definition remove_mb (es : list edge) (m k : N) : mbres :=
  let is := ins es m in
  let os := outs es m in
  if existsb (fun i => N.eqb (e_src i) m) is then MbPanic else
  if negb (ports_nodup (map e_dport is)) || negb (ports_nodup (map e_sport os)) then MbPanic else
  if negb (ports_subset (map e_dport is) (map e_sport os) && ports_subset (map e_sport os) (map e_dport is))
  then MbErr else
  MbOk (others es m ++
        flat_map (fun i => map (fun o => mkEdge k (e_src i) (e_dst o) (e_sport i) (e_dport o))
                               (filter (fun o => port_eqb (e_sport o) (e_dport i)) os)) is).

Fixpoint merge_mbs (es : list edge) (ms : list N) (k : N) : mbres :=
  match ms with
  | [] => MbOk es
  | m :: r => match remove_mb es m k with
              | MbOk es1 => merge_mbs es1 r (k + 1)
              | x => x
              end
  end.

(* end-to-end connections through ONE module boundary m: a wire that does not touch m, or an
   in-edge of m joined with the out-edge of m that leaves on the port the in-edge arrived on *)
Definition conn_mb (es : list edge) (m : N) (w : wire) : Prop :=
  (exists e, In e es /\ e_src e <> m /\ e_dst e <> m /\ wire_of e = w) \/
  (exists i o, In i es /\ In o es /\ e_dst i = m /\ e_src o = m /\ port_eqb (e_sport o) (e_dport i) = true /\
               w = (e_src i, e_sport i, e_dst o, e_dport o)).

(* model vs implementation for merge_modules (bit 0): ms = the module boundary nodes in node order *)
Definition c20_mb_model (before : graph) (ms : list N) (after : graph) : N :=
  match merge_mbs (g_edges before) ms 0 with
  | MbOk es' => if same_wires_b (map wire_of es') (wires after) then 0 else 1
  | _ => 1
  end.

(* end-to-end connections through a SET M of module boundaries: a route passes a boundary on the
   out-edge whose source port equals the port it arrived on *)
Inductive route_p (es : list edge) (M : list N) : N -> port -> N -> port -> Prop :=
| rp_end x q : ~ In x M -> route_p es M x q x q
| rp_step x q o t pt : In x M -> In o es -> e_src o = x -> port_eqb (e_sport o) q = true ->
    route_p es M (e_dst o) (e_dport o) t pt -> route_p es M x q t pt.

Definition conn_p (es : list edge) (M : list N) (w : wire) : Prop :=
  let '(a, pa, t, pt) := w in
  ~ In a M /\ exists e, In e es /\ e_src e = a /\ e_sport e = pa /\ route_p es M (e_dst e) (e_dport e) t pt.
