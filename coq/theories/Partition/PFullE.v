(* C18, all-graphs direction: classification of the edges after handoff insertion, and the edge half
   of clause W4 (no direct operator -> operator edge across subgraphs, no handoff -> handoff edge). *)
From Coq Require Import String List NArith Bool Arith Lia Permutation.
From HV Require Import Partition.Base GraphAlg.Model GraphAlg.PUf GraphAlg.PTopo GraphAlg.PSm GraphAlg.PSmMerge
                       Partition.Model Partition.PC19 Partition.WF Partition.PWF Partition.Rewrite
                       Partition.Full Partition.POracle Partition.PFull Partition.PFullW Partition.PFullI.
Import ListNotations.
Open Scope N_scope.
Notation length := List.length.

Lemma find_node_all_kind (P : node -> Prop) : forall ns y n, Forall P ns -> find_node ns y = Some n -> P n.
Proof.
  induction ns as [|a ns IH]; simpl; intros y n F H; [discriminate|].
  inversion F; subst. destruct (N.eqb (n_id a) y); [injection H as <-; assumption|eapply IH; eauto].
Qed.

Lemma edge_id_inj : forall (l : list edge) a b, NoDup (map e_id l) -> In a l -> In b l -> e_id a = e_id b -> a = b.
Proof.
  induction l as [|c l IH]; simpl; intros a b ND Ha Hb E; [contradiction|].
  inversion ND as [|? ? Hn ND']; subst.
  destruct Ha as [Ha|Ha]; destruct Hb as [Hb|Hb]; subst; auto.
  - exfalso. apply Hn. rewrite E. apply in_map. exact Hb.
  - exfalso. apply Hn. rewrite <- E. apply in_map. exact Ha.
Qed.

Section EdgeClass.
  Variable g : graph.
  Variable hedges : list N.

  Definition is_new_hoff (ist : istate) (h : N) : Prop := ~ In h (node_ids g) /\ is_hoff (is_g ist) h = true.

  (* every edge of the growing graph is an original edge (kept because it touches a handoff, was never
     in handoff_edges, or is still pending) or one half of a split original edge *)
  Definition edge_class (ist : istate) (pending : list N) (e' : edge) : Prop :=
    (In e' (g_edges g) /\ (hoff_adj g e' = true \/ ~ In (e_id e') hedges \/ In (e_id e') pending)) \/
    (exists e h, In e (g_edges g) /\ hoff_adj g e = false /\ is_new_hoff ist h /\
                 max_list (map e_id (g_edges g)) < e_id e' /\
                 ((e_src e' = e_src e /\ e_dst e' = h) \/ (e_src e' = h /\ e_dst e' = e_dst e))).

  Record EInv (ist : istate) (pending : list N) : Prop := {
    ei_nodes : exists extra, g_nodes (is_g ist) = g_nodes g ++ extra /\
                 Forall (fun n => (exists k, n_kind n = KHoff k) /\ ~ In (n_id n) (node_ids g)) extra;
    ei_next : max_list (node_ids g) < is_next_node ist /\ max_list (map e_id (g_edges g)) < is_next_edge ist;
    ei_fresh : forall n, In n (g_nodes (is_g ist)) -> n_id n < is_next_node ist;
    ei_edges : forall e', In e' (g_edges (is_g ist)) -> edge_class ist pending e'
  }.

  Hypothesis closed : forall e, In e (g_edges g) -> In (e_src e) (node_ids g) /\ In (e_dst e) (node_ids g).
  Hypothesis hedges_orig : forall x, In x hedges -> In x (map e_id (g_edges g)).

  Lemma old_hoff ist pending y : EInv ist pending -> In y (node_ids g) -> is_hoff (is_g ist) y = is_hoff g y.
  Proof.
    intros [(extra & En & _) _ _ _] Hy. unfold is_hoff, node_of. rewrite En, (find_node_app _ _ _ Hy). reflexivity.
  Qed.

  Lemma is_hoff_snoc ns n l s t y :
    is_hoff (mkGraph ns [] l s t) y = true -> forall es, is_hoff (mkGraph (ns ++ [n]) es l s t) y = true.
  Proof.
    unfold is_hoff, node_of. simpl. intros H es. rewrite find_node_snoc.
    destruct (find_node ns y) as [m|]; [exact H|discriminate].
  Qed.

  Lemma insert_one_einv ist x pending ist' :
    NoDup (map e_id (g_edges (is_g ist))) -> In x hedges ->
    EInv ist (x :: pending) -> insert_one ist x = ROk ist' -> EInv ist' pending.
  Proof.
    intros ND Hxh I H. unfold insert_one in H.
    destruct (find_edge (g_edges (is_g ist)) x) as [e|] eqn:Fe; [|discriminate].
    destruct (find_edge_some _ _ _ Fe) as [He Ex].
    pose proof I as [(extra & En & Fex) [Nn Ne] Fr Ed].
    assert (Uniq : forall e', In e' (g_edges (is_g ist)) -> e_id e' = x -> e' = e).
    { intros e' He' E'. apply (edge_id_inj _ _ _ ND He' He). congruence. }
    (* the found edge is an original edge: halves of split edges have ids above every original id *)
    assert (Horig : In e (g_edges g)).
    { destruct (Ed e He) as [(Ho & _)|(e2 & h & _ & _ & _ & Hlt & _)]; [exact Ho|].
      exfalso. pose proof (max_list_ge _ _ (hedges_orig x Hxh)). rewrite Ex in Hlt. lia. }
    destruct (closed e Horig) as [Cs Cd].
    destruct (is_hoff (is_g ist) (e_src e) || is_hoff (is_g ist) (e_dst e)) eqn:Ha.
    - injection H as <-. constructor; auto; [exists extra; auto|].
      intros e' He'. destruct (Ed e' He') as [(Ho & [A|[A|[A|A]]])|B]; [left; auto|left; auto| |left; auto|right; exact B].
      left. split; [exact Ho|]. left. assert (e' = e) by (apply Uniq; auto). subst e'.
      unfold hoff_adj. rewrite <- (old_hoff ist (x :: pending) _ I Cs), <- (old_hoff ist (x :: pending) _ I Cd). exact Ha.
    - injection H as <-.
      assert (Hag : hoff_adj g e = false).
      { unfold hoff_adj. rewrite <- (old_hoff ist (x :: pending) _ I Cs), <- (old_hoff ist (x :: pending) _ I Cd). exact Ha. }
      set (h := is_next_node ist). set (hn := mkNode h (KHoff HVec) None [] None None).
      assert (Hfresh : ~ In h (node_ids (is_g ist))).
      { intro Hin. apply in_map_iff in Hin. destruct Hin as (n & En' & Hn). pose proof (Fr n Hn). unfold h in En'. lia. }
      assert (Hng : ~ In h (node_ids g)).
      { intro Hin. pose proof (max_list_ge _ _ Hin). unfold h in H. lia. }
      assert (Hmono : forall y, is_hoff (is_g ist) y = true ->
                 is_hoff (mkGraph (g_nodes (is_g ist) ++ [hn])
                            (filter (fun y0 => negb (N.eqb (e_id y0) x)) (g_edges (is_g ist)) ++
                             [mkEdge (is_next_edge ist) (e_src e) h (e_sport e) PElided;
                              mkEdge (is_next_edge ist + 1) h (e_dst e) PElided (e_dport e)])
                            (g_loops (is_g ist)) (g_sgs (is_g ist)) (g_topo (is_g ist))) y = true).
      { intros y Hy. unfold is_hoff, node_of in *. cbn [g_nodes]. rewrite find_node_snoc.
        destruct (find_node (g_nodes (is_g ist)) y); [exact Hy|discriminate]. }
      assert (Hnewh : is_hoff (mkGraph (g_nodes (is_g ist) ++ [hn])
                            (filter (fun y0 => negb (N.eqb (e_id y0) x)) (g_edges (is_g ist)) ++
                             [mkEdge (is_next_edge ist) (e_src e) h (e_sport e) PElided;
                              mkEdge (is_next_edge ist + 1) h (e_dst e) PElided (e_dport e)])
                            (g_loops (is_g ist)) (g_sgs (is_g ist)) (g_topo (is_g ist))) h = true).
      { unfold is_hoff, node_of. cbn [g_nodes]. rewrite find_node_snoc, (find_node_none _ _ Hfresh).
        cbn [hn n_id]. rewrite N.eqb_refl. reflexivity. }
      constructor; cbn [is_g is_next_node is_next_edge g_nodes g_edges].
      + exists (extra ++ [hn]). rewrite En, <- app_assoc. split; [reflexivity|].
        apply Forall_app. split; [exact Fex|]. constructor; [|constructor]. split; [eexists; reflexivity|exact Hng].
      + split; lia.
      + intros n Hn. apply in_app_or in Hn. destruct Hn as [Hn|[<-|[]]]; [pose proof (Fr n Hn); lia|simpl; unfold h; lia].
      + intros e' He'. apply in_app_or in He'. destruct He' as [He'|[<-|[<-|[]]]].
        * apply filter_In in He'. destruct He' as [He' Hne]. apply negb_true_iff in Hne. apply N.eqb_neq in Hne.
          destruct (Ed e' He') as [(Ho & [A|[A|[A|A]]])|(e2 & h2 & B1 & B2 & [B3 B4] & B5 & B6)];
            [left; auto|left; auto|congruence|left; auto|].
          right. exists e2, h2. split; [exact B1|]. split; [exact B2|]. split; [split; [exact B3|apply Hmono; exact B4]|]. auto.
        * right. exists e, h. split; [exact Horig|]. split; [exact Hag|]. split; [split; [exact Hng|exact Hnewh]|].
          split; [simpl; lia|left; simpl; auto].
        * right. exists e, h. split; [exact Horig|]. split; [exact Hag|]. split; [split; [exact Hng|exact Hnewh]|].
          split; [simpl; lia|right; simpl; auto].
  Qed.
End EdgeClass.

Lemma insert_all_einv T g hedges :
  (forall e, In e (g_edges g) -> In (e_src e) (node_ids g) /\ In (e_dst e) (node_ids g)) ->
  (forall x, In x hedges -> In x (map e_id (g_edges g))) ->
  forall eids ist ist', incl eids hedges -> IInv T ist eids -> EInv g hedges ist eids ->
    insert_all ist eids = ROk ist' -> EInv g hedges ist' [].
Proof.
  intros Cl Ho. induction eids as [|x r IH]; intros ist ist' Hi I E H; simpl in H.
  - injection H as <-. exact E.
  - destruct (insert_one ist x) as [ist1| |] eqn:E1; simpl in H; try discriminate.
    apply (IH ist1 ist'); [intros y Hy; apply Hi; right; exact Hy| | |exact H].
    + eapply insert_one_inv; eauto.
    + eapply (insert_one_einv g hedges Cl Ho); eauto; [exact (ii_nodup _ _ _ I)|apply Hi; left; reflexivity].
Qed.

Section W4Edges.
  Variables (T : optable) (g p : graph).
  Hypothesis Hok : flat_ok_b T g = true.
  Hypothesis Hadj : flat_adj_ok_b g = true.
  Hypothesis Hp : partition_model T g = POk p.
  Let ks := sort_dedup (node_ids g).

  (* the edge half of clause W4 *)
  Theorem W4_edges_all : forall e, In e (g_edges p) -> edge_ok p e.
  Proof.
    destruct (model_core T g p Hok Hp) as (st & f & ist & groups & topo & P & Ei & Es & Cg & Fg & Em & Ep).
    destruct (ok_parts T g Hok) as (ND & NDe & Cl & _ & NoMod).
    assert (Cl' : forall e, In e (g_edges g) -> In (e_src e) (node_ids g) /\ In (e_dst e) (node_ids g)).
    { intros e He. destruct (Cl e He) as [A B]. split; apply In_sort_dedup'; assumption. }
    destruct (tick_edges_lookup T g (g_edges g) NDe) as [TL1 TL2].
    assert (I0 : IInv T (mkIs g (tick_edges T g) (max_list (node_ids g) + 1) (max_list (map e_id (g_edges g)) + 1))
                      (ps_hedges st)).
    { constructor; simpl.
      - exact NDe.
      - intros e He. pose proof (max_list_ge _ _ (in_map e_id _ _ He)). lia.
      - intros n Hn. pose proof (max_list_ge _ _ (in_map n_id _ _ Hn)) as HM. unfold node_ids. lia.
      - exact Cl'.
      - intros e He. apply TL1. exact He.
      - intros k d Hk. pose proof (max_list_ge _ _ (TL2 k d Hk)). lia.
      - intros e He Ht. destruct (hoff_adj g e) eqn:Ha.
        + left. unfold hoff_adj in Ha. apply orb_true_iff in Ha. destruct Ha as [Ha|Ha]; [exact Ha|].
          rewrite (tick_dst_op T g e Ht) in Ha. discriminate.
        + right. exact (pi_tick _ _ _ _ P e He Ha Ht). }
    assert (E0 : EInv g (ps_hedges st)
                   (mkIs g (tick_edges T g) (max_list (node_ids g) + 1) (max_list (map e_id (g_edges g)) + 1))
                   (ps_hedges st)).
    { constructor; simpl.
      - exists []. rewrite app_nil_r. split; [reflexivity|constructor].
      - split; lia.
      - intros n Hn. pose proof (max_list_ge _ _ (in_map n_id _ _ Hn)) as HM. unfold node_ids. lia.
      - intros e He. left. split; [exact He|].
        destruct (in_dec N.eq_dec (e_id e) (ps_hedges st)); [right; right; assumption|right; left; assumption]. }
    pose proof (insert_all_einv T g (ps_hedges st) Cl' (pi_hsub _ _ _ _ P) _ _ _ (incl_refl _) I0 E0 Ei) as E1.
    set (g1 := is_g ist) in *.
    set (F := fun n => mkNode (n_id n) (n_kind n) (n_loop n) (n_refs n)
                              (node_sg (register_sgs g1 groups) (n_id n)) (mark_node g1 (Full.is_tick ist) n)) in *.
    assert (Pn : forall x, node_of p x = option_map F (node_of g1 x)).
    { intro x. subst p. unfold node_of. simpl. apply find_node_map. intro n. reflexivity. }
    assert (Ph : forall x, is_hoff p x = is_hoff g1 x).
    { intro x. unfold is_hoff. rewrite Pn. destruct (node_of g1 x); reflexivity. }
    assert (Po : forall x, is_op p x = true -> is_hoff g1 x = false).
    { intros x Hx. rewrite <- Ph. apply is_op_not_hoff. exact Hx. }
    assert (Pe : g_edges p = g_edges g1) by (subst p; reflexivity).
    assert (Ps : g_sgs p = register_sgs g1 groups) by (subst p; reflexivity).
    assert (Hold : forall y, In y (node_ids g) -> is_hoff g1 y = is_hoff g y) by (intros y Hy; exact (old_hoff g (ps_hedges st) ist [] y E1 Hy)).
    pose proof (W1_all T g p Hok Hp) as (_ & NDs & Wn & Wd).
    (* two operators of one class are in one subgraph *)
    assert (Same : forall x y, In x (node_ids g) -> In y (node_ids g) -> is_op p x = true -> f x = f y ->
                     sg_of p x = sg_of p y).
    { intros x y Hx Hy Ox Fxy.
      destruct (find_node_In (g_nodes p) x) as (n & Fn & Hn & Nid).
      { subst p. unfold g1 in *. simpl. rewrite map_map. simpl.
        destruct (insert_all_nodes _ _ _ Ei) as (extra & En & _). simpl in En. rewrite En, map_app.
        apply in_or_app. left. exact Hx. }
      specialize (Wn n Hn). unfold member_node in Wn.
      assert (Kop : exists nm, n_kind n = KOp nm).
      { unfold is_op, node_of in Ox. rewrite Fn in Ox. destruct (n_kind n); try discriminate. eexists; reflexivity. }
      destruct Kop as [nm Kd]. rewrite Kd in Wn. destruct Wn as (s & Sn & Hin & _). rewrite Nid in Hin.
      unfold sg_nodes in Hin. destruct (find (fun d => N.eqb (s_id d) s) (g_sgs p)) as [d|] eqn:Fd; [|destruct Hin].
      pose proof (find_some _ _ Fd) as [Hd Eds]. apply N.eqb_eq in Eds.
      destruct (Wd d Hd) as (_ & _ & Hm).
      assert (Hd' : In d (register_sgs g1 groups)) by (rewrite <- Ps; exact Hd).
      destruct (register_In _ _ _ Hd') as (Hg & _ & _).
      rewrite Forall_forall in Fg. destruct (Fg _ Hg) as (_ & r & _ & _ & Hcl).
      destruct (proj1 (Hcl x) Hin) as [Kx Fx].
      assert (Hiny : In y (s_nodes d)) by (apply Hcl; split; [apply In_sort_dedup'; exact Hy|congruence]).
      rewrite (proj2 (Hm x Hin)), (proj2 (Hm y Hiny)). reflexivity. }
    intros e' He'. rewrite Pe in He'.
    destruct (ei_edges _ _ _ _ E1 e' He') as [(Ho & Hc)|(e & h & Hoe & Hag & [Hn1 Hn2] & _ & Hends)].
    - (* an original edge that was never split *)
      destruct (Cl' e' Ho) as [Cs Cd]. split.
      + intros Os Od.
        assert (Ha : hoff_adj g e' = false).
        { unfold hoff_adj. rewrite <- (Hold _ Cs), <- (Hold _ Cd), (Po _ Os), (Po _ Od). reflexivity. }
        destruct Hc as [Hc|[Hc|[]]]; [congruence|].
        apply Same; auto. exact (pi_merged _ _ _ _ P e' Ho Ha Hc).
      + intros [A B]. rewrite Ph, (Hold _ Cs) in A. rewrite Ph, (Hold _ Cd) in B.
        unfold flat_adj_ok_b in Hadj. rewrite forallb_forall in Hadj. specialize (Hadj e' Ho).
        rewrite A, B in Hadj. discriminate.
    - (* half of a split edge: one end is a fresh handoff, the other end is not a handoff *)
      destruct (Cl' e Hoe) as [Cs Cd].
      unfold hoff_adj in Hag. apply orb_false_iff in Hag. destruct Hag as [As Ad].
      destruct Hends as [[Es' Ed']|[Es' Ed']]; split.
      + intros _ Od. rewrite Ed' in Od. apply Po in Od. unfold g1 in Od. congruence.
      + intros [A _]. rewrite Es', Ph, (Hold _ Cs) in A. congruence.
      + intros Os _. rewrite Es' in Os. apply Po in Os. unfold g1 in Os. congruence.
      + intros [_ B]. rewrite Ed', Ph, (Hold _ Cd) in B. congruence.
  Qed.
End W4Edges.

(* ---------------------------------------------------------------- user-written handoffs separate
   subgraphs: if a -> h -> c with h a handoff of the flat graph and the edge h -> c is not delayed,
   the producer a and the consumer c end up in DIFFERENT subgraphs (otherwise the quotient graph
   would have the cycle  G -> {h} -> G, contradicting SMInv.inv_acyclic). *)
From Coq Require Import Relations.

Section UserHandoff.
  Variables (T : optable) (g p : graph).
  Hypothesis Hok : flat_ok_b T g = true.
  Hypothesis Hp : partition_model T g = POk p.
  Let ks := sort_dedup (node_ids g).

  Theorem user_handoff_separates : forall ein eout,
    In ein (g_edges g) -> In eout (g_edges g) ->
    e_dst ein = e_src eout -> is_hoff g (e_dst ein) = true ->
    is_hoff g (e_src ein) = false -> is_hoff g (e_dst eout) = false ->
    Model.is_tick T g eout = false ->
    sg_of p (e_src ein) <> sg_of p (e_dst eout) \/ sg_of p (e_src ein) = None.
  Proof.
    intros ein eout Hi Ho Eh Hh Ha Hc Ht.
    destruct (model_core T g p Hok Hp) as (st & f & ist & groups & topo & P & Ei & Es & Cg & Fg & Em & Ep).
    destruct (ok_parts T g Hok) as (ND & NDe & Cl & _ & NoMod).
    assert (Tin : Model.is_tick T g ein = false).
    { destruct (Model.is_tick T g ein) eqn:E; [|reflexivity]. rewrite (tick_dst_op T g ein E) in Hh. discriminate. }
    destruct (Cl ein Hi) as [Ka Kh]. destruct (Cl eout Ho) as [_ Kc].
    set (a := e_src ein) in *. set (h := e_dst ein) in *. set (c := e_dst eout) in *.
    pose proof (pi_sm _ _ _ _ P) as I.
    set (np := preds_from (pred_pairs T g (access_pairs_raw g))) in *.
    (* a is a predecessor of h, h is a predecessor of c *)
    assert (Pa : In a (np h)).
    { apply preds_from_In. unfold pred_pairs, base_pairs. apply in_or_app. left. apply in_or_app. left.
      unfold pipe_pairs. apply in_flat_map. exists ein. split; [exact Hi|]. rewrite Tin. left. reflexivity. }
    assert (Pc : In h (np c)).
    { apply preds_from_In. unfold pred_pairs, base_pairs. apply in_or_app. left. apply in_or_app. left.
      unfold pipe_pairs. apply in_flat_map. exists eout. split; [exact Ho|]. rewrite Ht. left. rewrite <- Eh. reflexivity. }
    assert (Nah : f a <> f h).
    { intro E. assert (a = h) by (apply (pi_hoff _ _ _ _ P h a Kh Ka Hh); exact E). rewrite H in Ha. congruence. }
    assert (Nch : f c <> f h).
    { intro E. assert (c = h) by (apply (pi_hoff _ _ _ _ P h c Kh Kc Hh); exact E). rewrite H in Hc. congruence. }
    assert (Nac : f a <> f c).
    { intro E. apply (inv_acyclic _ _ _ _ _ I (f a)).
      apply t_trans with (y := f h).
      - apply t_step. split; [exact Nah|]. exists h, a. auto.
      - apply t_step. split; [congruence|]. exists c, h. split; [exact Kc|]. split; [congruence|]. auto. }
    (* equal subgraphs would mean equal classes *)
    destruct (sg_of p a) as [s|] eqn:Sa; [|right; reflexivity]. left. intro Sc. symmetry in Sc.
    pose proof (W1_all T g p Hok Hp) as (_ & NDs & Wn & Wd).
    assert (Ps : g_sgs p = register_sgs (is_g ist) groups) by (subst p; reflexivity).
    assert (Cls : forall x, In x (node_ids g) -> sg_of p x = Some s -> exists d r,
               In d (g_sgs p) /\ s_id d = s /\ In x (s_nodes d) /\ forall y, In y (s_nodes d) -> f y = r).
    { intros x Hx Sx.
      destruct (old_node_of T g p Hp st ist groups topo Ei Ep x Hx) as (n & Gn & Pn & _).
      assert (Hn : In (mkNode (n_id n) (n_kind n) (n_loop n) (n_refs n)
                              (node_sg (register_sgs (is_g ist) groups) (n_id n))
                              (mark_node (is_g ist) (Full.is_tick ist) n)) (g_nodes p)).
      { unfold node_of in Pn. clear - Pn. induction (g_nodes p) as [|b l IH]; simpl in Pn; [discriminate|].
        destruct (N.eqb (n_id b) x); [injection Pn as ->; left; reflexivity|right; auto]. }
      specialize (Wn _ Hn). unfold member_node in Wn. cbn [n_kind n_sg n_id] in Wn.
      unfold sg_of in Sx. rewrite Pn in Sx. cbn [n_sg] in Sx.
      assert (Nid : n_id n = x).
      { unfold node_of in Gn. clear - Gn. induction (g_nodes g) as [|b l IH]; simpl in Gn; [discriminate|].
        destruct (N.eqb_spec (n_id b) x); [injection Gn as <-; assumption|auto]. }
      destruct (n_kind n) eqn:Kd.
      - destruct Wn as (s' & Sn & Hin & _). rewrite Sx in Sn. injection Sn as <-. rewrite Nid in Hin.
        unfold sg_nodes in Hin. destruct (find (fun d => N.eqb (s_id d) s) (g_sgs p)) as [d|] eqn:Fd; [|destruct Hin].
        pose proof (find_some _ _ Fd) as [Hd Eds]. apply N.eqb_eq in Eds.
        assert (Hd' : In d (register_sgs (is_g ist) groups)) by (rewrite <- Ps; exact Hd).
        destruct (register_In _ _ _ Hd') as (Hg & _ & _).
        rewrite Forall_forall in Fg. destruct (Fg _ Hg) as (_ & r & _ & _ & Hcl).
        exists d, r. split; [exact Hd|]. split; [exact Eds|]. split; [exact Hin|]. intros y Hy. exact (proj2 (proj1 (Hcl y) Hy)).
      - rewrite Wn in Sx. discriminate.
      - destruct Wn. }
    destruct (Cls a (proj1 (In_sort_dedup' _ _) Ka) Sa) as (d1 & r1 & Hd1 & E1 & In1 & C1).
    destruct (Cls c (proj1 (In_sort_dedup' _ _) Kc) Sc) as (d2 & r2 & Hd2 & E2 & In2 & C2).
    assert (d1 = d2).
    { rewrite <- E2 in E1. clear - NDs Hd1 Hd2 E1. induction (g_sgs p) as [|b l IH]; [contradiction|].
      simpl in NDs. inversion NDs as [|? ? Hn ND']; subst.
      destruct Hd1 as [->|H1]; destruct Hd2 as [->|H2]; auto.
      - exfalso. apply Hn. rewrite E1. apply in_map. exact H2.
      - exfalso. apply Hn. rewrite <- E1. apply in_map. exact H1. }
    subst d2. apply Nac. rewrite (C1 a In1), (C1 c In2). reflexivity.
  Qed.
End UserHandoff.
