(* C18: soundness of the executable well-formedness checker:
     WellFormed_b T p = true -> WellFormed T p. *)
From Coq Require Import List String NArith Bool Arith Lia.
From HV Require Import Partition.Base GraphAlg.Model Partition.Model Partition.PC19 Partition.WF.
Import ListNotations.
Open Scope N_scope.

Lemma optN_eqb_eq a b : optN_eqb a b = true -> a = b.
Proof.
  destruct a, b; simpl; intro H; try discriminate; try reflexivity.
  apply N.eqb_eq in H. subst. reflexivity.
Qed.

Lemma optD_eqb_eq a b : optD_eqb a b = true -> a = b.
Proof.
  destruct a, b; simpl; intro H; try discriminate; try reflexivity.
  apply delay_eqb_eq in H. subst. reflexivity.
Qed.

Lemma lt_opt_lt a b : lt_opt a b = true -> exists i j, a = Some i /\ b = Some j /\ (i < j)%nat.
Proof.
  destruct a as [i|], b as [j|]; simpl; intro H; try discriminate.
  exists i, j. repeat split. apply Nat.ltb_lt. exact H.
Qed.

Lemma all_false_spec (f : N -> bool) l : all_false (map f l) = true -> forall x, In x l -> f x = false.
Proof.
  induction l as [|a l IH]; simpl; intros H x Hx; [contradiction|].
  apply andb_true_iff in H. destruct H as [H1 H2]. destruct Hx as [Hx|Hx].
  - subst. destruct (f x); [discriminate|reflexivity].
  - apply IH; assumption.
Qed.

Lemma ttf_spec (f : N -> bool) l : trues_then_false (map f l) = true ->
  exists mid post, l = mid ++ post /\ (forall x, In x mid -> f x = true) /\
                   (forall x, In x post -> f x = false).
Proof.
  induction l as [|a l IH]; simpl; intro H.
  - exists [], []. repeat split; intros x [].
  - destruct (f a) eqn:E.
    + destruct (IH H) as (mid & post & Hl & Hm & Hp). exists (a :: mid), post. subst l.
      repeat split; auto. intros x [Hx|Hx]; [subst; exact E|apply Hm; exact Hx].
    + exists [], (a :: l). repeat split; [intros x []|].
      intros x [Hx|Hx]; [subst; exact E|]. eapply all_false_spec; eassumption.
Qed.

Lemma contiguous_flags_spec (f : N -> bool) l :
  contiguous_flags (map f l) = true -> contiguous f l.
Proof.
  induction l as [|a l IH]; simpl; intro H.
  - exists [], [], []. repeat split; intros x [].
  - destruct (f a) eqn:E.
    + destruct (ttf_spec f l H) as (mid & post & Hl & Hm & Hp).
      exists [], (a :: mid), post. subst l. repeat split; auto; [intros x []|].
      intros x [Hx|Hx]; [subst; exact E|apply Hm; exact Hx].
    + destruct (IH H) as (pre & mid & post & Hl & Hpre & Hm & Hp).
      exists (a :: pre), mid, post. subst l. repeat split; auto.
      intros x [Hx|Hx]; [subst; exact E|apply Hpre; exact Hx].
Qed.

Section Sound.
  Variable T : optable.
  Variable p : graph.

  Lemma is_op_not_hoff x : is_op p x = true -> is_hoff p x = false.
  Proof.
    unfold is_op, is_hoff. destruct (node_of p x) as [n|]; [|discriminate].
    destruct (n_kind n); intro; try discriminate; reflexivity.
  Qed.

  Lemma W1_sound : W1_b p = true -> W1 p.
  Proof.
    unfold W1_b, W1. intro H.
    repeat (apply andb_true_iff in H; destruct H as [H ?]).
    split; [|split; [|split]].
    - apply nodup_b_NoDup. assumption.
    - apply nodup_b_NoDup. assumption.
    - intros n Hn. rewrite forallb_forall in H1. specialize (H1 n Hn).
      unfold member_node_b in H1. unfold member_node.
      destruct (n_kind n).
      + destruct (n_sg n) as [s|]; [|discriminate].
        apply andb_true_iff in H1. destruct H1 as [A B].
        exists s. repeat split; apply memN_In'; assumption.
      + destruct (n_sg n); [discriminate|reflexivity].
      + discriminate.
    - intros d Hd. rewrite forallb_forall in H0. specialize (H0 d Hd).
      unfold member_sg_b in H0. unfold member_sg.
      apply andb_true_iff in H0. destruct H0 as [H0 Hall].
      apply andb_true_iff in H0. destruct H0 as [Hnd Hlen].
      split; [|split].
      + apply nodup_b_NoDup. assumption.
      + intro E. rewrite E in Hlen. discriminate.
      + intros m Hm. rewrite forallb_forall in Hall. specialize (Hall m Hm).
        apply andb_true_iff in Hall. destruct Hall as [A B]. split; [exact A|].
        apply optN_eqb_eq. exact B.
  Qed.

  Lemma W2_sound : W2_b p = true -> W2 p.
  Proof.
    unfold W2_b, W2. intros H d Hd a b Ha Hb.
    rewrite forallb_forall in H. specialize (H d Hd). rewrite forallb_forall in H.
    rewrite (optN_eqb_eq _ _ (H a Ha)), (optN_eqb_eq _ _ (H b Hb)). reflexivity.
  Qed.

  Lemma W3_sound : W3_b p = true -> W3 p.
  Proof.
    unfold W3_b, W3. intros H d Hd. rewrite forallb_forall in H. specialize (H d Hd).
    cbv zeta in H. repeat (apply andb_true_iff in H; destruct H as [H ?]).
    unfold pipeline. repeat split.
    - intros e He Hs Ht. unfold fwd_b in H. rewrite forallb_forall in H. specialize (H e He).
      apply memN_In' in Hs. apply memN_In' in Ht. rewrite Hs, Ht in H. simpl in H.
      destruct (lt_opt_lt _ _ H) as (i & j & A & B & C). exists i, j. auto.
    - intros n Hn. unfold deg_b in H3. apply andb_true_iff in H3. destruct H3 as [A _].
      rewrite forallb_forall in A. apply Nat.leb_le. apply A. exact Hn.
    - intros n Hn. unfold deg_b in H3. apply andb_true_iff in H3. destruct H3 as [_ B].
      rewrite forallb_forall in B. apply Nat.leb_le. apply B. exact Hn.
    - intros e He Hdst. unfold feed_b in H2. rewrite forallb_forall in H2. specialize (H2 e He).
      apply memN_In' in Hdst. rewrite Hdst in H2. apply memN_In'. exact H2.
    - intros e He Hsrc. unfold drain_b in H1. rewrite forallb_forall in H1. specialize (H1 e He).
      apply memN_In' in Hsrc. rewrite Hsrc in H1.
      apply orb_true_iff in H1. destruct H1 as [A|A].
      + left. apply memN_In'. exact A.
      + right. destruct (push_side p (s_nodes d)) as [|q r].
        * right. apply andb_true_iff in A. destruct A as [A1 A2].
          apply N.eqb_eq in A1. auto.
        * left. exists q, r. apply N.eqb_eq in A. auto.
    - exact H0.
  Qed.

  Lemma W4_sound : W4_b p = true -> W4 p.
  Proof.
    unfold W4_b, W4. intro H. apply andb_true_iff in H. destruct H as [HE HN]. split.
    - intros e He. rewrite forallb_forall in HE. specialize (HE e He).
      unfold edge_ok_b in HE. unfold edge_ok.
      destruct (is_op p (e_src e)) eqn:A; destruct (is_op p (e_dst e)) eqn:B; simpl in HE.
      + split; [intros _ _; apply optN_eqb_eq; exact HE|].
        intros [C _]. rewrite (is_op_not_hoff _ A) in C. discriminate.
      + split; [intros _ C; discriminate|].
        intros [C D]. rewrite C, D in HE. discriminate.
      + split; [intros C; discriminate|].
        intros [C D]. rewrite C, D in HE. discriminate.
      + split; [intros C; discriminate|].
        intros [C D]. rewrite C, D in HE. discriminate.
    - intros n Hn k Hk. rewrite forallb_forall in HN. specialize (HN n Hn).
      unfold hoff_ok_b in HN. rewrite Hk in HN.
      destruct (preds_pipe p (n_id n)) as [|a [|a' r]]; try discriminate.
      exists a. split; [reflexivity|].
      destruct (succs p (n_id n)) as [|c [|c' r']]; try discriminate.
      + split; [exact HN|left; reflexivity].
      + apply andb_true_iff in HN. destruct HN as [HN C]. apply andb_true_iff in HN.
        destruct HN as [A B]. split; [exact A|]. right. exists c. repeat split; auto.
        apply orb_true_iff in C. destruct C as [C|C].
        * left. intro E. rewrite E in C.
          assert (X : optN_eqb (sg_of p c) (sg_of p c) = true).
          { destruct (sg_of p c); simpl; [apply N.eqb_refl|reflexivity]. }
          rewrite X in C. discriminate.
        * right. destruct (n_delay n); [discriminate|discriminate].
  Qed.

  Lemma W5_sound : W5_b T p = true -> W5 T p.
  Proof.
    unfold W5_b, W5. intro H. apply andb_true_iff in H. destruct H as [HE HN]. split.
    - intros e d He Hd. rewrite forallb_forall in HE. specialize (HE e He).
      unfold is_tick in HE. rewrite Hd in HE. exact HE.
    - intros n Hn. rewrite forallb_forall in HN. specialize (HN n Hn).
      destruct (n_kind n); apply optD_eqb_eq; exact HN.
  Qed.

  Lemma node_before_sound a c : node_before_b p a c = true -> node_before p a c.
  Proof.
    unfold node_before_b, node_before. intro H. apply orb_true_iff in H. destruct H as [H|H].
    - left. exact H.
    - right. apply andb_true_iff in H. destruct H as [A B]. split; [apply optN_eqb_eq; exact A|].
      destruct (sg_of p a) as [s|]; [|discriminate]. exists s. auto.
  Qed.

  Lemma W6_sound : W6_b p = true -> W6 p.
  Proof.
    unfold W6_b, W6. intro H. apply andb_true_iff in H. destruct H as [HR HG]. split.
    - intros n r Hn Hr. rewrite forallb_forall in HR. specialize (HR n Hn).
      rewrite forallb_forall in HR. specialize (HR r Hr). unfold ref_ok_b in HR.
      destruct (r_target r) as [t|]; [|discriminate]. exists t. split; [reflexivity|].
      repeat (apply andb_true_iff in HR; destruct HR as [HR ?]).
      repeat split.
      + exact HR.
      + intros a Ha. rewrite forallb_forall in H0. apply H0. exact Ha.
      + intros c Hc. rewrite forallb_forall in H. apply node_before_sound. apply H. exact Hc.
    - intros x y Hx Hy E L. unfold groups_ok_b in HG. rewrite forallb_forall in HG.
      specialize (HG x Hx). rewrite forallb_forall in HG. specialize (HG y Hy).
      rewrite E, N.eqb_refl in HG. apply N.ltb_lt in L. rewrite L in HG. exact HG.
  Qed.

  Lemma W7_sound : W7_b p = true -> W7 p.
  Proof.
    unfold W7_b, W7. intro H.
    apply andb_true_iff in H. destruct H as [H HL].
    apply andb_true_iff in H. destruct H as [H HO].
    apply andb_true_iff in H. destruct H as [H HS].
    apply andb_true_iff in H. destruct H as [HN HT].
    split; [|split; [|split]].
    - apply nodup_b_NoDup. exact HN.
    - intro s. split.
      + intro Hs. rewrite forallb_forall in HT. apply memN_In'. apply HT. exact Hs.
      + intro Hs. apply in_map_iff in Hs. destruct Hs as (d & Hd & Hin). subst s.
        rewrite forallb_forall in HS. apply memN_In'. apply HS. exact Hin.
    - intros n k Hn Hk Hd a c Ha Hc. rewrite forallb_forall in HO. specialize (HO n Hn).
      unfold order_hoff_b in HO. rewrite Hk, Hd in HO.
      rewrite forallb_forall in HO. specialize (HO a Ha).
      rewrite forallb_forall in HO. apply HO. exact Hc.
    - intros l Hl. rewrite forallb_forall in HL. specialize (HL l Hl).
      apply contiguous_flags_spec. exact HL.
  Qed.

  Theorem WellFormed_b_sound : WellFormed_b T p = true -> WellFormed T p.
  Proof.
    unfold WellFormed_b, WellFormed. intro H.
    apply andb_true_iff in H. destruct H as [H H7].
    apply andb_true_iff in H. destruct H as [H H6].
    apply andb_true_iff in H. destruct H as [H H5].
    apply andb_true_iff in H. destruct H as [H H4].
    apply andb_true_iff in H. destruct H as [H H3].
    apply andb_true_iff in H. destruct H as [H1 H2].
    split; [|split; [|split; [|split; [|split; [|split]]]]].
    - apply W1_sound; assumption.
    - apply W2_sound; assumption.
    - apply W3_sound; assumption.
    - apply W4_sound; assumption.
    - apply W5_sound; assumption.
    - apply W6_sound; assumption.
    - apply W7_sound; assumption.
  Qed.
End Sound.
