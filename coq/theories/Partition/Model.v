(* Partition engine (E6; C18, C19, C20, C42): executable Gallina model of the front part of
     /repo/dfir_lang/src/graph/flat_to_partitioned.rs
   (find_edge_barriers, find_access_group_ordering, the `all_preds` / `enemies` construction of
   find_subgraph_unionfind and the SubgraphMerge::new call that detects same-tick cycles).
   Definitions only.  Graph algorithms (topo_sort, SubgraphMerge) come from GraphAlg.Model.

   Graph representation = the harness's canonical dump: ids are slotmap slot indices, and every
   list is in the iteration order the Rust code itself observes:
     g_nodes : `node_ids()` order (slot order)      g_edges : `edges()` order (slot order)
     g_loops : `loops()` order, l_nodes = `loop_nodes(loop)` (push order)
     n_refs  : `node_handoff_references(node)` (argument order) *)
From Coq Require Import List String NArith Bool Arith.
From HV Require Import Partition.Base GraphAlg.Model.
Import ListNotations.
Open Scope N_scope.

Inductive port := PElided | PInt (neg : bool) (v : N) | PPath (s : string).
Inductive nkind := KOp (name : string) | KHoff (k : hkind) | KMod.

Record ref := mkRef { r_target : option N; r_mut : bool; r_group : option N }.
Record node := mkNode {
  n_id : N; n_kind : nkind; n_loop : option N; n_refs : list ref;
  n_sg : option N;            (* node_subgraph, None in a flat graph *)
  n_delay : option delay      (* handoff_delay_type, None in a flat graph *)
}.
Record edge := mkEdge { e_id : N; e_src : N; e_dst : N; e_sport : port; e_dport : port }.
Record loopd := mkLoop { l_id : N; l_parent : option N; l_nodes : list N }.
Record sgd := mkSg { s_id : N; s_nodes : list N }.
Record graph := mkGraph {
  g_nodes : list node; g_edges : list edge; g_loops : list loopd;
  g_sgs : list sgd;           (* `subgraphs()` order; [] in a flat graph *)
  g_topo : list N             (* subgraph_toposort; [] in a flat graph *)
}.

Definition optN_eqb (a b : option N) : bool :=
  match a, b with
  | None, None => true
  | Some x, Some y => N.eqb x y
  | _, _ => false
  end.

Definition node_ids (g : graph) : list N := map n_id (g_nodes g).

Fixpoint find_node (ns : list node) (id : N) : option node :=
  match ns with
  | [] => None
  | n :: r => if N.eqb (n_id n) id then Some n else find_node r id
  end.
Definition node_of (g : graph) (id : N) : option node := find_node (g_nodes g) id.

Definition is_hoff (g : graph) (id : N) : bool :=
  match node_of g id with
  | Some n => match n_kind n with KHoff _ => true | _ => false end
  | None => false
  end.

Definition node_loop (g : graph) (id : N) : option N :=
  match node_of g id with Some n => n_loop n | None => None end.

Fixpoint find_loop (ls : list loopd) (id : N) : option loopd :=
  match ls with
  | [] => None
  | l :: r => if N.eqb (l_id l) id then Some l else find_loop r id
  end.
Definition loop_parent (g : graph) (l : N) : option N :=
  match find_loop (g_loops g) l with Some d => l_parent d | None => None end.
Definition loop_nodes (g : graph) (l : N) : list N :=
  match find_loop (g_loops g) l with Some d => l_nodes d | None => [] end.

(* node_successors(src): consumers over pipe edges *)
Definition succs (g : graph) (s : N) : list N :=
  map e_dst (filter (fun e => N.eqb (e_src e) s) (g_edges g)).
Definition preds_pipe (g : graph) (d : N) : list N :=
  map e_src (filter (fun e => N.eqb (e_dst e) d) (g_edges g)).

Section WithTable.
  Variable T : optable.

  (* (op_inst.op_constraints.input_delaytype_fn)(dst_port): port independent by table_ok *)
  Definition edge_delay (g : graph) (e : edge) : option delay :=
    match node_of g (e_dst e) with
    | Some n => match n_kind n with
                | KOp name => match find_op T name with Some d => od_delay d | None => None end
                | _ => None
                end
    | None => None
    end.

  Definition is_tick (g : graph) (e : edge) : bool :=
    match edge_delay g e with Some _ => true | None => false end.

  (* find_edge_barriers: (tick_edges, barrier_pairs) *)
  Definition tick_edges (g : graph) : list (N * delay) :=
    flat_map (fun e => match edge_delay g e with Some d => [(e_id e, d)] | None => [] end) (g_edges g).
  (* since /repo 155f525eb46: a delayed edge from a node to itself is not an enemy pair *)
  Definition barrier_pairs (g : graph) : list (N * N) :=
    flat_map (fun e => if is_tick g e && negb (N.eqb (e_src e) (e_dst e)) then [(e_src e, e_dst e)] else [])
             (g_edges g).

  (* ---- find_access_group_ordering.
     node_handoff_reference_groups: BTreeMap target -> BTreeMap (Option<u32>) -> Vec<(node,..)>.
     Group keys: None < Some n, encoded None -> 0, Some n -> n+1. *)
  Definition gkey (o : option N) : N := match o with None => 0 | Some n => n + 1 end.

  (* (target, group key, referencing node) in node order, then argument order; operators only *)
  Definition all_refs (g : graph) : list (N * N * N) :=
    flat_map (fun n =>
      match n_kind n with
      | KOp _ => flat_map (fun r => match r_target r with
                                     | Some t => [(t, gkey (r_group r), n_id n)]
                                     | None => [] end) (n_refs n)
      | _ => []
      end) (g_nodes g).

  Definition ref_targets (g : graph) : list N := sort_dedup (map (fun x => fst (fst x)) (all_refs g)).
  Definition groups_of (g : graph) (t : N) : list N :=
    sort_dedup (map (fun x => snd (fst x)) (filter (fun x => N.eqb (fst (fst x)) t) (all_refs g))).
  Definition members (g : graph) (t k : N) : list N :=
    map snd (filter (fun x => N.eqb (fst (fst x)) t && N.eqb (snd (fst x)) k) (all_refs g)).

  Fixpoint windows (l : list N) : list (N * N) :=
    match l with
    | a :: (b :: _) as r => (a, b) :: windows r
    | _ => []
    end.

  (* all (node_a, node_b) the nested loops visit, in order *)
  Definition access_pairs_raw (g : graph) : list (N * N) :=
    flat_map (fun t =>
      flat_map (fun '(ka, kb) =>
        flat_map (fun a => map (fun b => (a, b)) (members g t kb)) (members g t ka))
        (windows (groups_of g t)))
      (ref_targets g).

  (* assert_ne!(node_a, node_b, "encounted conflicted or cyclical handoff references") *)
  Definition access_pairs (g : graph) : res (list (N * N)) :=
    if existsb (fun p => N.eqb (fst p) (snd p)) (access_pairs_raw g) then RPanic
    else ROk (access_pairs_raw g).

  (* ---- all_preds of find_subgraph_unionfind, as (dst, pred) pairs in push order *)
  Definition pipe_pairs (g : graph) : list (N * N) :=
    flat_map (fun e => if is_tick g e then [] else [(e_dst e, e_src e)]) (g_edges g).

  Definition ref_dep_pairs (g : graph) : list (N * N) :=
    flat_map (fun n =>
      flat_map (fun r =>
        match r_target r with
        | Some s => (n_id n, s) ::
                    (if is_hoff g s then map (fun c => (c, n_id n)) (succs g s) else [])
        | None => []
        end) (n_refs n)) (g_nodes g).

  Definition access_dep_pairs (ap : list (N * N)) : list (N * N) :=
    map (fun p => (snd p, fst p)) ap.

  (* loop-ingress constraints (issue 3048) *)
  Definition ingress_pairs (g : graph) : list (N * N) :=
    flat_map (fun e =>
      if is_tick g e then [] else
      match node_loop g (e_dst e) with
      | Some dl => if optN_eqb (node_loop g (e_src e)) (loop_parent g dl)
                   then map (fun i => (i, e_src e)) (loop_nodes g dl) else []
      | None => []
      end) (g_edges g).

  Definition preds_from (pairs : list (N * N)) (n : N) : list N :=
    map snd (filter (fun p => N.eqb (fst p) n) pairs).

  Definition base_pairs (g : graph) (ap : list (N * N)) : list (N * N) :=
    pipe_pairs g ++ ref_dep_pairs g ++ access_dep_pairs ap ++ ingress_pairs g.

  (* loop-ingress ordering for ALL dependencies (since /repo 0840b054cc8).
     `all_preds.iter()` of the SecondaryMap: keys in slot order, each with its Vec in push order;
     keys that are not nodes of the graph (stale loop_nodes entries) are skipped. *)
  Definition snapshot (pairs : list (N * N)) : list (N * N) :=
    flat_map (fun d => map (fun s => (d, s)) (preds_from pairs d)) (sort_dedup (map fst pairs)).

  (* does loop l (transitively) contain a node whose loop is sl? *)
  Fixpoint loop_contains (fuel : nat) (g : graph) (sl : option N) (l : N) : bool :=
    match fuel, sl with
    | S f, Some x => N.eqb x l || loop_contains f g (loop_parent g x) l
    | _, _ => false
    end.
  (* the loops of dst, innermost first, up to (excluding) the first one that contains src *)
  Fixpoint climb (fuel : nat) (g : graph) (cur : option N) (src : N) : list N :=
    match fuel, cur with
    | S f, Some l => if loop_contains (S (List.length (g_loops g))) g (node_loop g src) l then []
                     else l :: climb f g (loop_parent g l) src
    | _, _ => []
    end.
  Definition gen_ingress_pairs (g : graph) (pairs : list (N * N)) : list (N * N) :=
    flat_map (fun p =>
      if memN (fst p) (node_ids g)
      then flat_map (fun l => map (fun i => (i, snd p)) (loop_nodes g l))
                    (climb (S (List.length (g_loops g))) g (node_loop g (fst p)) (snd p))
      else []) (snapshot pairs).

  Definition pred_pairs (g : graph) (ap : list (N * N)) : list (N * N) :=
    base_pairs g ap ++ gen_ingress_pairs g (base_pairs g ap).

  (* The dependency graph the partitioner actually sorts ("same-tick dependencies"):
     non-delayed pipe edges, reference edges (+ borrower-before-consumer), access-group order,
     loop-ingress constraints (for pipe edges, and -- generalised -- for every dependency).  Uses the raw access pairs, so that it is defined (with a
     self-loop) also where the Rust code panics. *)
  Definition same_tick_deps (g : graph) : N -> list N :=
    preds_from (pred_pairs g (access_pairs_raw g)).

  (* ---- enemies *)
  Definition ref_enemy_pairs (g : graph) : list (N * N) :=
    flat_map (fun n => flat_map (fun r => match r_target r with
                                          | Some s => [(s, n_id n)] | None => [] end) (n_refs n))
             (g_nodes g).
  Definition enemy_pairs (g : graph) (ap : list (N * N)) : list (N * N) :=
    barrier_pairs g ++ ap ++ ref_enemy_pairs g.

  (* ---- partition_graph up to and including SubgraphMerge::new *)
  Inductive front :=
  | FOk (s : sm) (ap : list (N * N))
  | FCycle (c : list N)          (* Err(diagnostic "Cyclical dataflow within a tick ...") *)
  | FPanicAccess                 (* assert_ne! in find_access_group_ordering *)
  | FPanicEnemy                  (* assert_ne! in SubgraphMerge::new *)
  | FFuel.

  Definition partition_front (g : graph) : front :=
    match access_pairs g with
    | RPanic => FPanicAccess
    | RFuel => FFuel
    | ROk ap =>
        match sm_new (node_ids g) (preds_from (pred_pairs g ap)) (enemy_pairs g ap) with
        | NewOk s => FOk s ap
        | NewCycle c => FCycle c
        | NewPanic => FPanicEnemy
        | NewFuel => FFuel
        end
    end.

  (* The verdict of partition_graph as far as C19 is concerned.  Everything after
     SubgraphMerge::new has no recoverable failure (`?` is only applied to that call); that the
     later phases do not panic is checked by correspondence (and by the C17 theorems for
     try_merge), not stated here. *)
  Inductive verdict := Accepted | Rejected (c : list N) | Panicked | OutOfFuel.
  Definition partition_verdict (g : graph) : verdict :=
    match partition_front g with
    | FOk _ _ => Accepted
    | FCycle c => Rejected c
    | FPanicAccess | FPanicEnemy => Panicked
    | FFuel => OutOfFuel
    end.

  (* the two input classes on which the Rust code panics (known findings for C19) *)
  Definition access_conflict (g : graph) : bool :=
    existsb (fun p => N.eqb (fst p) (snd p)) (access_pairs_raw g).
  Definition enemy_self_pair (g : graph) : bool :=
    existsb (fun p => N.eqb (fst p) (snd p)) (enemy_pairs g (access_pairs_raw g)).

  (* decidable closure precondition of the C19 theorems: every predecessor named by a dependency
     is a node of the graph.  (The dependent side need not be: after eliminate_extra_unions_tees
     the `loop_nodes` lists keep the ids of removed nodes, and the loop-ingress constraints are
     pushed for those stale ids too; they are never looked up.)
     Evaluated on every real flat graph by the check (c19_check bit 0). *)
  Definition deps_closed_b (g : graph) : bool :=
    forallb (fun p => memN (snd p) (node_ids g)) (pred_pairs g (access_pairs_raw g)).

  (* every id mentioned anywhere is a node (true for every graph the front end builds) *)
  Definition closed_b (g : graph) : bool :=
    let ids := node_ids g in
    forallb (fun e => memN (e_src e) ids && memN (e_dst e) ids) (g_edges g) &&
    forallb (fun n => forallb (fun r => match r_target r with Some t => memN t ids | None => true end)
                              (n_refs n)) (g_nodes g) &&
    forallb (fun l => forallb (fun i => memN i ids) (l_nodes l)) (g_loops g).
End WithTable.

(* ------------------------------------------------------------------ executable checks used by
   the correspondence (props/C19.py): an independent cycle oracle and a cycle validator *)

Definition nodup_b (l : list N) : bool :=
  (fix go (l : list N) : bool :=
     match l with [] => true | x :: r => negb (memN x r) && go r end) l.

Fixpoint chain_b (preds : N -> list N) (c : list N) : bool :=
  match c with
  | a :: (b :: _) as r => memN a (preds b) && chain_b preds r
  | _ => true
  end.

Definition is_cycle_b (preds : N -> list N) (c : list N) : bool :=
  match c with
  | [] => false
  | _ => nodup_b c && chain_b preds c && memN (last c 0) (preds (hd 0 c))
  end.

(* Kahn-style elimination, independent of the DFS in topo_sort: repeatedly drop every node all of
   whose predecessors are already dropped; a cycle exists among `nodes` iff something remains. *)
Fixpoint kahn (fuel : nat) (preds : N -> list N) (remaining : list N) : list N :=
  match fuel with
  | O => remaining
  | S f =>
      let keep := filter (fun n => existsb (fun p => memN p remaining) (preds n)) remaining in
      if Nat.eqb (List.length keep) (List.length remaining) then remaining else kahn f preds keep
  end.
Definition has_cycle_b (preds : N -> list N) (nodes : list N) : bool :=
  match kahn (S (List.length nodes)) preds nodes with [] => false | _ => true end.

(* does some id-cycle carry exactly these node names?  (the diagnostic prints names, which need
   not be unique: backtracking search over the candidates of every position) *)
Section MatchCycle.
  Variable preds : N -> list N.
  Variable names : list (N * string).      (* id -> to_pretty_string *)
  Definition cands (s : string) : list N :=
    map fst (filter (fun p => String.eqb (snd p) s) names).
  (* rev_acc: chosen ids so far, most recent first *)
  Fixpoint match_from (ws : list string) (first : N) (prev : N) (used : list N) : bool :=
    match ws with
    | [] => memN prev (preds first)
    | w :: r => existsb (fun x => negb (memN x used) && memN prev (preds x) &&
                                  match_from r first x (x :: used)) (cands w)
    end.
  Definition match_cycle (ws : list string) : bool :=
    match ws with
    | [] => false
    | w :: r => existsb (fun x => match_from r x x [x]) (cands w)
    end.
  Definition names_of (c : list N) : list string :=
    map (fun x => match alookup x names with Some s => s | None => EmptyString end) c.
End MatchCycle.

Fixpoint strs_eqb (a b : list string) : bool :=
  match a, b with
  | [], [] => true
  | x :: a', y :: b' => String.eqb x y && strs_eqb a' b'
  | _, _ => false
  end.

(* what the harness observed *)
Inductive impl_res := IOk | ICycle (names : list string) | IPanicAccess | IPanicEnemy | IPanicOther.

(* verdict code: bit 0 = implementation differs from the model,
                 bit 1 = C19 is false on the implementation's own output (independent oracle) *)
Definition c19_check (T : optable) (g : graph) (names : list (N * string)) (r : impl_res) : N :=
  let deps := same_tick_deps T g in
  let cyc := has_cycle_b deps (node_ids g) in
  let agree :=
    deps_closed_b T g && table_ok T &&
    match partition_front T g, r with
    | FOk _ _, IOk => true
    | FCycle c, ICycle ws => strs_eqb (names_of names c) ws
    | FPanicAccess, IPanicAccess => true
    | FPanicEnemy, IPanicEnemy => true
    | _, _ => false
    end in
  let holds :=
    match r with
    | IOk => negb cyc
    | ICycle ws => cyc && match_cycle deps names ws
    | _ => false            (* a panic is neither an acceptance nor a reported cycle *)
    end in
  (if agree then 0 else 1) + (if holds then 0 else 2).
