(* The independent cycle oracle of the C19 check is correct:
     has_cycle_b preds nodes = true  <->  exists c, is_cycle preds c /\ incl c nodes
   for closed graphs (every predecessor of a node is a node).  [has_cycle_b] is the Kahn-style
   elimination of Partition/Model.v; the cycle is obtained through GraphAlg's topo_sort theorems. *)
From Coq Require Import List NArith Bool Arith Lia.
From HV Require Import GraphAlg.Model GraphAlg.PTopo Partition.Base Partition.Model Partition.PC19.
Import ListNotations.
Open Scope N_scope.

(* ---------------------------------------------------------------- list facts *)
Lemma filter_length_le {A} (f : A -> bool) l : (length (filter f l) <= length l)%nat.
Proof. induction l as [|a l IH]; simpl; [lia|]. destruct (f a); simpl; lia. Qed.

Lemma filter_length_eq_all {A} (f : A -> bool) l :
  length (filter f l) = length l -> forall x, In x l -> f x = true.
Proof.
  induction l as [|a l IH]; simpl; intros H x Hx; [contradiction|].
  destruct (f a) eqn:E; simpl in H.
  - destruct Hx as [Hx|Hx]; [subst; exact E|apply IH; [lia|exact Hx]].
  - pose proof (filter_length_le f l). lia.
Qed.

(* ---------------------------------------------------------------- kahn *)
Definition supported (preds : N -> list N) (R : list N) : Prop :=
  forall n, In n R -> exists p, In p (preds n) /\ In p R.

Lemma kahn_incl preds : forall fuel remaining x, In x (kahn fuel preds remaining) -> In x remaining.
Proof.
  induction fuel as [|f IH]; intros remaining x H; simpl in H; [exact H|].
  destruct (Nat.eqb _ _); [exact H|].
  apply IH in H. apply filter_In in H. tauto.
Qed.

Lemma kahn_supported preds : forall fuel remaining,
  (length remaining < fuel)%nat -> supported preds (kahn fuel preds remaining).
Proof.
  induction fuel as [|f IH]; intros remaining Hf; [lia|]. simpl.
  destruct (Nat.eqb _ _) eqn:E.
  - apply Nat.eqb_eq in E. intros n Hn.
    pose proof (filter_length_eq_all _ _ E n Hn) as H. apply existsb_exists in H.
    destruct H as (p & Hp & Hm). exists p. split; [exact Hp|apply memN_In'; exact Hm].
  - apply Nat.eqb_neq in E. apply IH.
    pose proof (filter_length_le (fun n => existsb (fun p => memN p remaining) (preds n)) remaining). lia.
Qed.

Lemma kahn_keeps preds c : (forall x, In x c -> exists p, In p (preds x) /\ In p c) ->
  forall fuel remaining, incl c remaining -> incl c (kahn fuel preds remaining).
Proof.
  intros Hc. induction fuel as [|f IH]; intros remaining Hi; simpl; [exact Hi|].
  destruct (Nat.eqb _ _); [exact Hi|]. apply IH. intros x Hx. apply filter_In. split; [apply Hi; exact Hx|].
  destruct (Hc x Hx) as (p & Hp & Hpc). apply existsb_exists. exists p. split; [exact Hp|].
  apply memN_In'. apply Hi. exact Hpc.
Qed.

(* ---------------------------------------------------------------- cycles are self-supporting *)
Lemma chain_elem_pred_in p : forall c a, In a c -> a <> hd 0 c -> chain p c ->
  exists b, In b c /\ In b (p a).
Proof.
  induction c as [|x [|y r] IH]; intros a Ha Hn Hc; simpl in *.
  - contradiction.
  - destruct Ha as [Ha|[]]. congruence.
  - destruct Hc as [H1 H2]. destruct Ha as [Ha|Ha]; [congruence|].
    destruct (N.eq_dec a y) as [E|E].
    + subst. exists x. split; [left; reflexivity|exact H1].
    + destruct (IH a Ha) as (b & Hb & Hab); [simpl; exact E|exact H2|].
      exists b. split; [right; exact Hb|exact Hab].
Qed.

Lemma cycle_supported p c : is_cycle p c -> supported p c.
Proof.
  intros (Hne & Hnd & Hch & Hl) a Ha.
  destruct (N.eq_dec a (hd 0 c)) as [E|E].
  - subst. exists (last c 0). split; [exact Hl|apply last_In; exact Hne].
  - destruct (chain_elem_pred_in p c a Ha E Hch) as (b & Hb & Hab). exists b. tauto.
Qed.

(* ---------------------------------------------------------------- a topologically sorted list
   contains no element of a non-empty self-supporting set *)
Lemma tsorted_no_supported preds o R : tsorted preds o -> supported preds R ->
  forall n l1 s l2, length l1 = n -> o = l1 ++ s :: l2 -> ~ In s R.
Proof.
  intros T S n. induction n as [n IH] using lt_wf_ind. intros l1 s l2 Hl Ho Hs.
  destruct (S s Hs) as (y & Hy & HyR).
  pose proof (T l1 s l2 Ho y Hy) as Hin. apply in_split in Hin. destruct Hin as (a & b & Hab).
  subst l1. rewrite <- app_assoc in Ho. simpl in Ho.
  assert (Hlt : (length a < n)%nat) by (subst n; rewrite app_length; simpl; lia).
  exact (IH (length a) Hlt a y (b ++ s :: l2) eq_refl Ho HyR).
Qed.

(* ---------------------------------------------------------------- the equivalence *)
Theorem has_cycle_b_correct (preds : N -> list N) (nodes : list N) :
  (forall x p, In x nodes -> In p (preds x) -> In p nodes) ->
  (has_cycle_b preds nodes = true <-> exists c, is_cycle preds c /\ incl c nodes).
Proof.
  intro Cl. unfold has_cycle_b. split.
  - intro H.
    set (R := kahn (S (length nodes)) preds nodes) in *.
    assert (HS : supported preds R) by (apply kahn_supported; lia).
    assert (HR : incl R nodes) by (intros x Hx; eapply kahn_incl; exact Hx).
    destruct R as [|r R'] eqn:ER; [discriminate|].
    destruct (topo_sort nodes preds) as [o|c|] eqn:TS.
    + exfalso. unfold topo_sort in TS.
      destruct (topo_sort_ok _ _ _ _ TS) as (_ & Hin & T & _).
      assert (Hr : In r o) by (apply Hin; apply HR; left; reflexivity).
      apply in_split in Hr. destruct Hr as (l1 & l2 & Ho).
      apply (tsorted_no_supported preds o (r :: R') T HS (length l1) l1 r l2 eq_refl Ho).
      left. reflexivity.
    + exists c. unfold topo_sort in TS. destruct (topo_sort_cycle _ _ _ _ TS) as (Hc & HU).
      split; [exact Hc|]. intros x Hx.
      apply (HU (fun y => In y nodes)); auto.
    + exfalso. exact (topo_sort_closed_no_fuel nodes preds Cl TS).
  - intros (c & Hc & Hi).
    pose proof (kahn_keeps preds c (cycle_supported preds c Hc) (S (length nodes)) nodes Hi) as K.
    destruct Hc as (Hne & _). destruct c as [|x c]; [congruence|].
    destruct (kahn (S (length nodes)) preds nodes) as [|y l] eqn:E; [|reflexivity].
    exfalso. apply (K x). left. reflexivity.
Qed.

(* specialised to the C19 check: the oracle decides exactly the theorem's right-hand side *)
Corollary c19_oracle_correct (T : optable) (g : graph) :
  deps_closed_b T g = true ->
  (has_cycle_b (same_tick_deps T g) (node_ids g) = true <->
   exists c, is_cycle (same_tick_deps T g) c).
Proof.
  intro Hc.
  rewrite (has_cycle_b_correct (same_tick_deps T g) (node_ids g)).
  - split.
    + intros (c & H & _). exists c. exact H.
    + intros (c & H). exists c. split; [exact H|]. intros x Hx. exact (cycle_in_nodes T g c Hc H x Hx).
  - intros x p _ Hp. exact (deps_closed T g Hc x p Hp).
Qed.

(* ---------------------------------------------------------------- cycles and self-supporting sets *)
(* on a closed graph a non-empty self-supporting set of nodes yields a cycle (the converse is
   [cycle_supported]) *)
Lemma supported_cycle (preds : N -> list N) (nodes R : list N) :
  (forall x p, In x nodes -> In p (preds x) -> In p nodes) ->
  R <> [] -> incl R nodes -> supported preds R ->
  exists c, is_cycle preds c /\ incl c nodes.
Proof.
  intros Cl Hne HR HS. destruct R as [|r R']; [congruence|].
  destruct (topo_sort nodes preds) as [o|c|] eqn:TS.
  - exfalso. unfold topo_sort in TS.
    destruct (topo_sort_ok _ _ _ _ TS) as (_ & Hin & T & _).
    assert (Hr : In r o) by (apply Hin; apply HR; left; reflexivity).
    apply in_split in Hr. destruct Hr as (l1 & l2 & Ho).
    apply (tsorted_no_supported preds o (r :: R') T HS (length l1) l1 r l2 eq_refl Ho). left. reflexivity.
  - exists c. unfold topo_sort in TS. destruct (topo_sort_cycle _ _ _ _ TS) as (Hc & HU).
    split; [exact Hc|]. intros x Hx. apply (HU (fun y => In y nodes)); auto.
  - exfalso. exact (topo_sort_closed_no_fuel nodes preds Cl TS).
Qed.

(* ---------------------------------------------------------------- interface lemma (used by C22):
   subdividing a dependency edge u -> v by a fresh pass-through node w (u -> w -> v) preserves the
   existence of a cycle, both ways.  [np] / [np'] are the predecessor functions before / after
   (e.g. [same_tick_deps T g] and [same_tick_deps T g']); the hypotheses say exactly "np' is np with
   (some or all parallel copies of) the edge u -> v rerouted through the fresh node w":
     w is not a node and nobody's predecessor before;  np' w = [u];  nodes other than v, w keep
     their predecessors;  v gains w, keeps every predecessor other than u, and gets nothing else. *)
Theorem subdivide_edge_cycle_iff (np np' : N -> list N) (nodes : list N) (u v w : N) :
  (forall x p, In x nodes -> In p (np x) -> In p nodes) ->
  In u nodes -> In v nodes -> ~ In w nodes -> (forall x, ~ In w (np x)) -> np w = [] ->
  In u (np v) ->
  np' w = [u] ->
  (forall x, x <> v -> x <> w -> np' x = np x) ->
  In w (np' v) ->
  (forall p, In p (np v) -> p <> u -> In p (np' v)) ->
  (forall p, In p (np' v) -> p = w \/ In p (np v)) ->
  ((exists c, is_cycle np c /\ incl c nodes) <-> (exists c, is_cycle np' c /\ incl c (w :: nodes))).
Proof.
  intros Cl Ku Kv Kw Wf Wn Huv W1 Wo Wv Wk Wb.
  assert (Hwv : w <> v) by (intro E; subst; contradiction).
  assert (Hwu : w <> u) by (intro E; subst; contradiction).
  assert (Cl' : forall x p, In x (w :: nodes) -> In p (np' x) -> In p (w :: nodes)).
  { intros x p [<-|Hx] Hp.
    - rewrite W1 in Hp. destruct Hp as [<-|[]]. right. exact Ku.
    - destruct (N.eq_dec x v) as [->|Nv].
      + destruct (Wb p Hp) as [->|Hp']; [left; reflexivity|right; eapply Cl; eauto].
      + assert (Nw : x <> w) by (intro E; subst; contradiction).
        rewrite (Wo x Nv Nw) in Hp. right. eapply Cl; eauto. }
  split.
  - intros (c & Hc & Hi).
    pose proof (cycle_supported np c Hc) as HS.
    assert (Hne : c <> []) by (destruct Hc; assumption).
    destruct (in_dec N.eq_dec v c) as [Hv|Hv]; [destruct (in_dec N.eq_dec u c) as [Hu|Hu]|].
    + (* both ends on the set: add w *)
      apply (supported_cycle np' (w :: nodes) (w :: c) Cl'); [discriminate| |].
      * intros x [<-|Hx]; [left; reflexivity|right; apply Hi; exact Hx].
      * intros x [<-|Hx].
        -- exists u. rewrite W1. split; [left; reflexivity|right; exact Hu].
        -- destruct (HS x Hx) as (p & Hp & Hpc).
           destruct (N.eq_dec x v) as [->|Nv].
           ++ destruct (N.eq_dec p u) as [->|Nu]; [exists w; split; [exact Wv|left; reflexivity]|].
              exists p. split; [apply Wk; assumption|right; exact Hpc].
           ++ assert (Nw : x <> w) by (intro E; subst; apply Kw; apply Hi; exact Hx).
              exists p. rewrite (Wo x Nv Nw). split; [exact Hp|right; exact Hpc].
    + (* v on the set but not u: the supporting predecessor of v is not u *)
      apply (supported_cycle np' (w :: nodes) c Cl' Hne); [intros x Hx; right; apply Hi; exact Hx|].
      intros x Hx. destruct (HS x Hx) as (p & Hp & Hpc).
      destruct (N.eq_dec x v) as [->|Nv].
      * exists p. split; [apply Wk; [exact Hp|intro E; subst; contradiction]|exact Hpc].
      * assert (Nw : x <> w) by (intro E; subst; apply Kw; apply Hi; exact Hx).
        exists p. rewrite (Wo x Nv Nw). auto.
    + apply (supported_cycle np' (w :: nodes) c Cl' Hne); [intros x Hx; right; apply Hi; exact Hx|].
      intros x Hx. destruct (HS x Hx) as (p & Hp & Hpc).
      assert (Nv : x <> v) by (intro E; subst; contradiction).
      assert (Nw : x <> w) by (intro E; subst; apply Kw; apply Hi; exact Hx).
      exists p. rewrite (Wo x Nv Nw). auto.
  - intros (c & Hc & Hi).
    pose proof (cycle_supported np' c Hc) as HS.
    set (R := filter (fun x => negb (N.eqb x w)) c).
    assert (HR : forall x, In x R <-> In x c /\ x <> w).
    { intro x. unfold R. rewrite filter_In, negb_true_iff, N.eqb_neq. tauto. }
    apply (supported_cycle np nodes R Cl).
    + (* some element other than w *)
      destruct Hc as (Hne & _). destruct c as [|a c']; [congruence|].
      destruct (N.eq_dec a w) as [->|Na].
      * destruct (HS w (or_introl eq_refl)) as (p & Hp & Hpc). rewrite W1 in Hp. destruct Hp as [<-|[]].
        intro E. assert (In u R) by (apply HR; split; [exact Hpc|auto]). rewrite E in H. exact H.
      * intro E. assert (In a R) by (apply HR; split; [left; reflexivity|exact Na]). rewrite E in H. exact H.
    + intros x Hx. apply HR in Hx. destruct Hx as [Hx Nw]. destruct (Hi x Hx) as [E|H]; [congruence|exact H].
    + intros x Hx. apply HR in Hx. destruct Hx as [Hx Nw].
      destruct (HS x Hx) as (p & Hp & Hpc).
      destruct (N.eq_dec x v) as [->|Nv].
      * destruct (Wb p Hp) as [->|Hp'].
        -- destruct (HS w Hpc) as (q & Hq & Hqc). rewrite W1 in Hq. destruct Hq as [<-|[]].
           exists u. split; [exact Huv|apply HR; auto].
        -- exists p. split; [exact Hp'|apply HR; split; [exact Hpc|intro E; subst; exact (Wf v Hp')]].
      * rewrite (Wo x Nv Nw) in Hp. exists p. split; [exact Hp|apply HR; split; [exact Hpc|intro E; subst; exact (Wf x Hp)]].
Qed.
