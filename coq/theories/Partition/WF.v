(* C18: well-formedness of a partitioned graph.  [WellFormed T p] is the Prop-level statement
   (it reads like the property); [WellFormed_b T p] is the executable checker that the check
   evaluates on every partitioned graph the real partition_graph returns; soundness
   [WellFormed_b T p = true -> WellFormed T p] is proved in PWF.v.
   Definitions only.  The graph is the harness dump of the PARTITIONED DfirGraph:
   n_sg = node_subgraph, n_delay = handoff_delay_type, g_sgs = subgraphs (s_nodes in the order
   stored, which as_code uses as the operator order), g_topo = subgraph_toposort. *)
From Coq Require Import List String NArith Bool Arith.
From HV Require Import Partition.Base GraphAlg.Model Partition.Model.
Import ListNotations.
Open Scope N_scope.

Inductive color := CPull | CPush | CComp | CHoff.

Section WF.
  Variable T : optable.
  Variable p : graph.

  Definition is_op (id : N) : bool :=
    match node_of p id with
    | Some n => match n_kind n with KOp _ => true | _ => false end
    | None => false
    end.
  Definition sg_of (id : N) : option N :=
    match node_of p id with Some n => n_sg n | None => None end.
  Definition delay_mark (id : N) : option delay :=
    match node_of p id with Some n => n_delay n | None => None end.
  Definition in_deg (id : N) : nat := List.length (preds_pipe p id).
  Definition out_deg (id : N) : nat := List.length (succs p id).

  (* DfirGraph::node_color *)
  Definition color_of (id : N) : option color :=
    match node_of p id with
    | None => None
    | Some n =>
        match n_kind n with
        | KHoff _ => Some CHoff
        | KMod => None
        | KOp nm =>
            if String.eqb nm "resolve_futures_blocking" || String.eqb nm "resolve_futures_blocking_ordered"
            then Some CPush
            else match in_deg id, out_deg id with
                 | O, O => None
                 | O, S O => Some CPull
                 | S O, O => Some CPush
                 | S O, S O => None
                 | _, O => Some CPull
                 | _, S O => Some CPull
                 | O, _ => Some CPush
                 | S O, _ => Some CPush
                 | _, _ => Some CComp
                 end
        end
    end.

  (* DfirGraph::find_pull_to_push_idx: the pull side is everything before the first node whose
     colour is known and is not Pull *)
  Definition non_pull (id : N) : bool :=
    match color_of id with Some CPull | None => false | Some _ => true end.
  Fixpoint pull_idx (ns : list N) : nat :=
    match ns with
    | [] => O
    | n :: r => if non_pull n then O else S (pull_idx r)
    end.
  Definition pull_side (ns : list N) : list N := firstn (pull_idx ns) ns.
  Definition push_side (ns : list N) : list N := skipn (pull_idx ns) ns.

  Definition posn (l : list N) (x : N) : option nat := position x l.
  Definition lt_opt (a b : option nat) : bool :=
    match a, b with Some x, Some y => Nat.ltb x y | _, _ => false end.

  (* position of a node's subgraph in the emitted subgraph order *)
  Definition sgpos (id : N) : option nat :=
    match sg_of id with Some s => posn (g_topo p) s | None => None end.

  Definition sg_nodes (s : N) : list N :=
    match find (fun d => N.eqb (s_id d) s) (g_sgs p) with Some d => s_nodes d | None => [] end.

  (* ---------------------------------------------------------------- clause 1: membership.
     Every operator is in exactly one subgraph, handoffs in none; subgraphs are non-empty,
     duplicate-free lists of operators that point back to them. *)
  Definition member_node_b (n : node) : bool :=
    match n_kind n with
    | KOp _ => match n_sg n with
               | Some s => memN (n_id n) (sg_nodes s) && memN s (map s_id (g_sgs p))
               | None => false
               end
    | KHoff _ => match n_sg n with None => true | Some _ => false end
    | KMod => false                                (* module boundaries do not survive *)
    end.
  Definition member_sg_b (d : sgd) : bool :=
    nodup_b (s_nodes d) && negb (Nat.eqb (List.length (s_nodes d)) 0) &&
    forallb (fun m => is_op m && optN_eqb (sg_of m) (Some (s_id d))) (s_nodes d).
  Definition W1_b : bool :=
    nodup_b (node_ids p) && nodup_b (map s_id (g_sgs p)) &&
    forallb member_node_b (g_nodes p) && forallb member_sg_b (g_sgs p).

  Definition member_node (n : node) : Prop :=
    match n_kind n with
    | KOp _ => exists s, n_sg n = Some s /\ In (n_id n) (sg_nodes s) /\ In s (map s_id (g_sgs p))
    | KHoff _ => n_sg n = None
    | KMod => False
    end.
  Definition member_sg (d : sgd) : Prop :=
    NoDup (s_nodes d) /\ s_nodes d <> [] /\
    forall m, In m (s_nodes d) -> is_op m = true /\ sg_of m = Some (s_id d).
  Definition W1 : Prop :=
    NoDup (node_ids p) /\ NoDup (map s_id (g_sgs p)) /\
    (forall n, In n (g_nodes p) -> member_node n) /\ (forall d, In d (g_sgs p) -> member_sg d).

  (* ---------------------------------------------------------------- clause 2: one loop context *)
  Definition W2_b : bool :=
    forallb (fun d => forallb (fun m => optN_eqb (node_loop p m) (node_loop p (hd 0 (s_nodes d))))
                              (s_nodes d)) (g_sgs p).
  Definition W2 : Prop :=
    forall d, In d (g_sgs p) -> forall a b, In a (s_nodes d) -> In b (s_nodes d) ->
      node_loop p a = node_loop p b.

  (* ---------------------------------------------------------------- clause 3: each subgraph is a
     single pull-then-push pipeline.  With P = pull_side, Q = push_side, pivot = first of Q:
       a. edges between two members go forward in the stored operator order;
       b. a pull-side operator has at most one output, a push-side operator other than the
          pivot at most one input;
       c. the push side is fed only through the pivot: every edge into a non-pivot push
          operator comes from a push-side member;
       d. the pull side drains only into the pivot: every edge out of a pull-side operator goes
          to a pull-side member or to the pivot -- or, when there is no push side, the last
          operator may send into a handoff;
       e. the members are weakly connected through internal edges (ONE pipeline). *)
  Definition idx_in (ns : list N) (x : N) : option nat := position x ns.

  Definition fwd_b (ns : list N) : bool :=
    forallb (fun e => if memN (e_src e) ns && memN (e_dst e) ns
                      then lt_opt (idx_in ns (e_src e)) (idx_in ns (e_dst e)) else true) (g_edges p).
  Definition deg_b (ns : list N) : bool :=
    forallb (fun n => Nat.leb (out_deg n) 1) (pull_side ns) &&
    forallb (fun n => Nat.leb (in_deg n) 1) (tl (push_side ns)).
  Definition feed_b (ns : list N) : bool :=
    forallb (fun e => if memN (e_dst e) (tl (push_side ns)) then memN (e_src e) (push_side ns) else true)
            (g_edges p).
  Definition drain_b (ns : list N) : bool :=
    forallb (fun e =>
      if memN (e_src e) (pull_side ns) then
        memN (e_dst e) (pull_side ns) ||
        match push_side ns with
        | q :: _ => N.eqb (e_dst e) q
        | [] => N.eqb (e_src e) (last ns 0) && is_hoff p (e_dst e)
        end
      else true) (g_edges p).
  (* weak connectivity: grow the component of the first member along internal edges *)
  Fixpoint grow (fuel : nat) (ns comp : list N) : list N :=
    match fuel with
    | O => comp
    | S f =>
        let comp' := filter (fun n => memN n comp ||
                       existsb (fun e => (N.eqb (e_src e) n && memN (e_dst e) comp && memN (e_dst e) ns) ||
                                         (N.eqb (e_dst e) n && memN (e_src e) comp && memN (e_src e) ns))
                               (g_edges p)) ns in
        grow f ns comp'
    end.
  Definition connected_b (ns : list N) : bool :=
    match ns with
    | [] => true
    | n :: _ => Nat.eqb (List.length (grow (List.length ns) ns [n])) (List.length ns)
    end.
  Definition W3_b : bool :=
    forallb (fun d => let ns := s_nodes d in
                      fwd_b ns && deg_b ns && feed_b ns && drain_b ns && connected_b ns) (g_sgs p).

  Definition pipeline (ns : list N) : Prop :=
    (forall e, In e (g_edges p) -> In (e_src e) ns -> In (e_dst e) ns ->
       exists i j, idx_in ns (e_src e) = Some i /\ idx_in ns (e_dst e) = Some j /\ (i < j)%nat) /\
    (forall n, In n (pull_side ns) -> (out_deg n <= 1)%nat) /\
    (forall n, In n (tl (push_side ns)) -> (in_deg n <= 1)%nat) /\
    (forall e, In e (g_edges p) -> In (e_dst e) (tl (push_side ns)) -> In (e_src e) (push_side ns)) /\
    (forall e, In e (g_edges p) -> In (e_src e) (pull_side ns) ->
       In (e_dst e) (pull_side ns) \/
       (exists q r, push_side ns = q :: r /\ e_dst e = q) \/
       (push_side ns = [] /\ e_src e = last ns 0 /\ is_hoff p (e_dst e) = true)) /\
    connected_b ns = true.
  Definition W3 : Prop := forall d, In d (g_sgs p) -> pipeline (s_nodes d).

  (* ---------------------------------------------------------------- clause 4: handoffs sit exactly
     on the edges that cross subgraphs: an edge never joins two operators of different
     subgraphs directly, never joins two handoffs, and a handoff has one producer, at most one
     consumer, and they are in different subgraphs (no handoff inside a subgraph) -- except a
     handoff that carries a delay mark: a double-buffered tick/loop back edge may return into
     the subgraph it left (user-written `u = union() -> optional() -> defer_tick() -> u`). *)
  Definition edge_ok_b (e : edge) : bool :=
    if is_op (e_src e) && is_op (e_dst e) then optN_eqb (sg_of (e_src e)) (sg_of (e_dst e))
    else negb (is_hoff p (e_src e) && is_hoff p (e_dst e)).
  Definition hoff_ok_b (n : node) : bool :=
    match n_kind n with
    | KHoff _ =>
        match preds_pipe p (n_id n), succs p (n_id n) with
        | [a], [] => is_op a
        | [a], [c] => is_op a && is_op c &&
                      (negb (optN_eqb (sg_of a) (sg_of c)) ||
                       match n_delay n with Some _ => true | None => false end)
        | _, _ => false
        end
    | _ => true
    end.
  Definition W4_b : bool := forallb edge_ok_b (g_edges p) && forallb hoff_ok_b (g_nodes p).

  Definition edge_ok (e : edge) : Prop :=
    (is_op (e_src e) = true -> is_op (e_dst e) = true -> sg_of (e_src e) = sg_of (e_dst e)) /\
    ~ (is_hoff p (e_src e) = true /\ is_hoff p (e_dst e) = true).
  Definition hoff_ok (n : node) : Prop :=
    forall k, n_kind n = KHoff k ->
      exists a, preds_pipe p (n_id n) = [a] /\ is_op a = true /\
        (succs p (n_id n) = [] \/
         exists c, succs p (n_id n) = [c] /\ is_op c = true /\
                   (sg_of a <> sg_of c \/ n_delay n <> None)).
  Definition W4 : Prop :=
    (forall e, In e (g_edges p) -> edge_ok e) /\ (forall n, In n (g_nodes p) -> hoff_ok n).

  (* ---------------------------------------------------------------- clause 5: delays.
     Every input that must be delayed comes out of a handoff, and every handoff carries exactly
     the delay type of its consumer's input port (Tick/TickLazy remapped to Loop/LoopLazy when
     the consumer is in a nested loop), none otherwise. *)
  Definition remap (consumer : N) (d : delay) : delay :=
    match node_loop p consumer with
    | Some l => match loop_parent p l with
                | Some _ => match d with DTick => DLoop | DTickLazy => DLoopLazy | x => x end
                | None => d
                end
    | None => d
    end.
  Definition expected_mark (h : N) : option delay :=
    match filter (fun e => N.eqb (e_src e) h) (g_edges p) with
    | e :: _ => match edge_delay T p e with Some d => Some (remap (e_dst e) d) | None => None end
    | [] => None
    end.
  Definition optD_eqb (a b : option delay) : bool :=
    match a, b with
    | None, None => true
    | Some x, Some y => delay_eqb x y
    | _, _ => false
    end.
  Definition W5_b : bool :=
    forallb (fun e => if is_tick T p e then is_hoff p (e_src e) else true) (g_edges p) &&
    forallb (fun n => match n_kind n with
                      | KHoff _ => optD_eqb (n_delay n) (expected_mark (n_id n))
                      | _ => optD_eqb (n_delay n) None
                      end) (g_nodes p).
  Definition W5 : Prop :=
    (forall e d, In e (g_edges p) -> edge_delay T p e = Some d -> is_hoff p (e_src e) = true) /\
    (forall n, In n (g_nodes p) ->
       match n_kind n with
       | KHoff _ => n_delay n = expected_mark (n_id n)
       | _ => n_delay n = None
       end).

  (* ---------------------------------------------------------------- clause 6: references.
     A referenced node is a handoff; its producer runs in an EARLIER subgraph than the
     borrower; the borrower runs no later than the handoff's pipe consumer (and before it inside
     a shared subgraph); lower access groups run in earlier subgraphs than higher ones. *)
  Definition node_before_b (a c : N) : bool :=
    lt_opt (sgpos a) (sgpos c) ||
    (optN_eqb (sg_of a) (sg_of c) &&
     match sg_of a with Some s => lt_opt (idx_in (sg_nodes s) a) (idx_in (sg_nodes s) c) | None => false end).
  Definition ref_ok_b (n : node) (r : ref) : bool :=
    match r_target r with
    | None => false
    | Some t =>
        is_hoff p t &&
        forallb (fun a => lt_opt (sgpos a) (sgpos (n_id n))) (preds_pipe p t) &&
        forallb (fun c => node_before_b (n_id n) c) (succs p t)
    end.
  Definition groups_ok_b : bool :=
    forallb (fun x => forallb (fun y =>
      if N.eqb (fst (fst x)) (fst (fst y)) && N.ltb (snd (fst x)) (snd (fst y))
      then lt_opt (sgpos (snd x)) (sgpos (snd y)) else true) (all_refs p)) (all_refs p).
  Definition W6_b : bool :=
    forallb (fun n => forallb (ref_ok_b n) (n_refs n)) (g_nodes p) && groups_ok_b.

  Definition node_before (a c : N) : Prop :=
    lt_opt (sgpos a) (sgpos c) = true \/
    (sg_of a = sg_of c /\ exists s, sg_of a = Some s /\
       lt_opt (idx_in (sg_nodes s) a) (idx_in (sg_nodes s) c) = true).
  Definition W6 : Prop :=
    (forall n r, In n (g_nodes p) -> In r (n_refs n) ->
       exists t, r_target r = Some t /\ is_hoff p t = true /\
         (forall a, In a (preds_pipe p t) -> lt_opt (sgpos a) (sgpos (n_id n)) = true) /\
         (forall c, In c (succs p t) -> node_before (n_id n) c)) /\
    (forall x y, In x (all_refs p) -> In y (all_refs p) ->
       fst (fst x) = fst (fst y) -> snd (fst x) < snd (fst y) ->
       lt_opt (sgpos (snd x)) (sgpos (snd y)) = true).

  (* ---------------------------------------------------------------- clause 7: the emitted order.
     subgraph_toposort lists every subgraph exactly once; across every non-delayed handoff the
     producer's subgraph comes first; the subgraphs of every loop (with its nested loops) are
     contiguous. *)
  Fixpoint in_loop_fuel (fuel : nat) (l : option N) (target : N) : bool :=
    match fuel, l with
    | _, None => false
    | O, _ => false
    | S f, Some x => N.eqb x target || in_loop_fuel f (loop_parent p x) target
    end.
  Definition sg_in_loop (target s : N) : bool :=
    in_loop_fuel (S (List.length (g_loops p))) (node_loop p (hd 0 (sg_nodes s))) target.

  (* false* true* false* *)
  Fixpoint all_false (l : list bool) : bool :=
    match l with [] => true | b :: r => negb b && all_false r end.
  Fixpoint trues_then_false (l : list bool) : bool :=
    match l with [] => true | true :: r => trues_then_false r | false :: r => all_false r end.
  Fixpoint contiguous_flags (l : list bool) : bool :=
    match l with [] => true | false :: r => contiguous_flags r | true :: r => trues_then_false r end.

  Definition order_hoff_b (n : node) : bool :=
    match n_kind n, n_delay n with
    | KHoff _, None =>
        forallb (fun a => forallb (fun c => lt_opt (sgpos a) (sgpos c)) (succs p (n_id n)))
                (preds_pipe p (n_id n))
    | _, _ => true
    end.
  Definition W7_b : bool :=
    nodup_b (g_topo p) &&
    forallb (fun s => memN s (map s_id (g_sgs p))) (g_topo p) &&
    forallb (fun d => memN (s_id d) (g_topo p)) (g_sgs p) &&
    forallb order_hoff_b (g_nodes p) &&
    forallb (fun l => contiguous_flags (map (sg_in_loop (l_id l)) (g_topo p))) (g_loops p).

  Definition contiguous (f : N -> bool) (l : list N) : Prop :=
    exists pre mid post, l = pre ++ mid ++ post /\
      (forall x, In x pre -> f x = false) /\ (forall x, In x mid -> f x = true) /\
      (forall x, In x post -> f x = false).
  Definition W7 : Prop :=
    NoDup (g_topo p) /\
    (forall s, In s (g_topo p) <-> In s (map s_id (g_sgs p))) /\
    (forall n k, In n (g_nodes p) -> n_kind n = KHoff k -> n_delay n = None ->
       forall a c, In a (preds_pipe p (n_id n)) -> In c (succs p (n_id n)) ->
         lt_opt (sgpos a) (sgpos c) = true) /\
    (forall l, In l (g_loops p) -> contiguous (sg_in_loop (l_id l)) (g_topo p)).

  Definition WellFormed : Prop := W1 /\ W2 /\ W3 /\ W4 /\ W5 /\ W6 /\ W7.
  Definition WellFormed_b : bool := W1_b && W2_b && W3_b && W4_b && W5_b && W6_b && W7_b.

  (* which clauses fail (bit i = clause i+1), for diagnostics in replay files *)
  Definition wf_code : N :=
    (if W1_b then 0 else 1) + (if W2_b then 0 else 2) + (if W3_b then 0 else 4) +
    (if W4_b then 0 else 8) + (if W5_b then 0 else 16) + (if W6_b then 0 else 32) +
    (if W7_b then 0 else 64).
End WF.

(* verdict code for props/C18.py: bit 1 = the implementation's partitioned graph is not well formed
   (bit 0 is computed by the plug-in from the flat/partitioned correspondence checks). *)
Definition c18_check (T : optable) (p : graph) : N :=
  if WellFormed_b T p then 0 else 2 + 4 * wf_code T p.   (* bits >= 2: which clauses failed *)
