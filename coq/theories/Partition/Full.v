(* Partition engine: executable model of the WHOLE of partition_graph
   (/repo/dfir_lang/src/graph/flat_to_partitioned.rs) on top of GraphAlg.Model's SubgraphMerge:
   find_subgraph_unionfind's colour/merge progress loop, handoff insertion, subgraph
   registration, make_loops_contiguous, the defensive validate_topo_sort, and
   mark_tick_boundary_handoffs.  Definitions only.

   Fresh ids: the Rust slotmaps reuse freed slots (LIFO), which the flat dump does not record, so
   the model numbers inserted handoff nodes / edges from max id + 1 upwards and the comparison
   with the implementation ([part_agree_b]) is modulo the names of INSERTED handoffs and of
   edges: everything else (operators, user handoffs, subgraph ids and member order, toposort,
   delay marks, which wire got a handoff) is compared exactly. *)
From Coq Require Import List String NArith Bool Arith.
From HV Require Import Partition.Base GraphAlg.Model Partition.Model Partition.WF Partition.Rewrite.
Import ListNotations.
Open Scope N_scope.

(* ------------------------------------------------------------------ colours *)
Definition colors0 (g : graph) : list (N * color) :=
  flat_map (fun n => match color_of g (n_id n) with Some c => [(n_id n, c)] | None => [] end) (g_nodes g).

(* can_connect_colorize *)
Definition can_connect (cm : list (N * color)) (src dst : N) : list (N * color) * bool :=
  match alookup src cm, alookup dst cm with
  | None, None => (cm, false)
  | None, Some CPull | None, Some CComp => (aset src CPull cm, true)
  | None, Some CPush | None, Some CHoff => (aset src CPush cm, true)
  | Some CPull, None | Some CHoff, None => (aset dst CPull cm, true)
  | Some CComp, None | Some CPush, None => (aset dst CPush cm, true)
  | Some CPull, Some CPull | Some CPull, Some CComp | Some CPull, Some CPush => (cm, true)
  | Some CComp, Some CPush | Some CPush, Some CPush => (cm, true)
  | _, _ => (cm, false)
  end.

(* ------------------------------------------------------------------ the progress loop *)
Record pstate := mkPs { ps_sm : sm; ps_colors : list (N * color); ps_hedges : list N }.

Fixpoint pass (g : graph) (es : list edge) (st : pstate) (progress : bool) : res (pstate * bool) :=
  match es with
  | [] => ROk (st, progress)
  | e :: r =>
      let src := e_src e in
      let dst := e_dst e in
      if is_hoff g src || is_hoff g dst
      then pass g r (mkPs (ps_sm st) (ps_colors st) (sremove (e_id e) (ps_hedges st))) progress
      else
        let '(s1, same) := sm_same_set (ps_sm st) src dst in
        if (same : bool) then pass g r (mkPs s1 (ps_colors st) (ps_hedges st)) progress
        else if negb (optN_eqb (node_loop g src) (node_loop g dst))
        then pass g r (mkPs s1 (ps_colors st) (ps_hedges st)) progress
        else
          let '(cm, can) := can_connect (ps_colors st) src dst in
          if (can : bool) then
            '(s2, ok) <- sm_try_merge s1 src dst ;;
            if (ok : bool) then
              if memN (e_id e) (ps_hedges st)                  (* assert!(handoff_edges.remove(..)) *)
              then pass g r (mkPs s2 cm (sremove (e_id e) (ps_hedges st))) true
              else RPanic
            else pass g r (mkPs s2 cm (ps_hedges st)) progress
          else pass g r (mkPs s1 cm (ps_hedges st)) progress
  end.

(* every pass that reports progress removes an edge from handoff_edges: at most |edges|+1 passes *)
Fixpoint ploop (fuel : nat) (g : graph) (st : pstate) : res pstate :=
  match fuel with
  | O => RFuel
  | S f => '(st', prog) <- pass g (g_edges g) st false ;;
           if (prog : bool) then ploop f g st' else ROk st'
  end.

(* ------------------------------------------------------------------ handoff insertion *)
Definition max_list (l : list N) : N := fold_left N.max l 0.

Fixpoint find_edge (es : list edge) (id : N) : option edge :=
  match es with
  | [] => None
  | e :: r => if N.eqb (e_id e) id then Some e else find_edge r id
  end.

Record istate := mkIs { is_g : graph; is_tick : list (N * delay); is_next_node : N; is_next_edge : N }.

Definition insert_one (st : istate) (eid : N) : res istate :=
  let g := is_g st in
  match find_edge (g_edges g) eid with
  | None => RPanic                                          (* partitioned_graph.edge(edge_id) *)
  | Some e =>
      if is_hoff g (e_src e) || is_hoff g (e_dst e) then ROk st else
      let h := is_next_node st in
      let e0 := is_next_edge st in
      let e1 := is_next_edge st + 1 in
      let nodes' := g_nodes g ++ [mkNode h (KHoff HVec) None [] None None] in
      let edges' := filter (fun x => negb (N.eqb (e_id x) eid)) (g_edges g) ++
                    [mkEdge e0 (e_src e) h (e_sport e) PElided; mkEdge e1 h (e_dst e) PElided (e_dport e)] in
      let tick' := match alookup eid (is_tick st) with
                   | Some d => aset e1 d (aremove eid (is_tick st))
                   | None => is_tick st
                   end in
      ROk (mkIs (mkGraph nodes' edges' (g_loops g) (g_sgs g) (g_topo g)) tick' (h + 1) (e1 + 1))
  end.

Fixpoint insert_all (st : istate) (eids : list N) : res istate :=
  match eids with
  | [] => ROk st
  | x :: r => st' <- insert_one st x ;; insert_all st' r
  end.

(* ------------------------------------------------------------------ subgraphs, loop contiguity *)
Fixpoint number_from (i : N) (l : list (list N)) : list sgd :=
  match l with [] => [] | x :: r => mkSg i x :: number_from (i + 1) r end.

Definition register_sgs (g : graph) (groups : list (list N)) : list sgd :=
  number_from 1 (filter (fun ns => negb (Nat.eqb (List.length ns) 0) && negb (existsb (is_hoff g) ns)) groups).

Definition sgs_nodes (sgs : list sgd) (s : N) : list N :=
  match find (fun d => N.eqb (s_id d) s) sgs with Some d => s_nodes d | None => [] end.
(* DfirGraph::subgraph_loop: the loop of the first member *)
Definition sg_loop (g : graph) (sgs : list sgd) (s : N) : option N := node_loop g (hd 0 (sgs_nodes sgs s)).

Fixpoint ancestors (fuel : nat) (g : graph) (l : option N) : list N :=
  match fuel, l with
  | S f, Some x => x :: ancestors f g (loop_parent g x)
  | _, _ => []
  end.

Definition apush (k v : N) (m : list (N * list N)) : list (N * list N) :=
  aset k (match alookup k m with Some l => l ++ [v] | None => [v] end) m.

Definition loop_descendants (g : graph) (sgs : list sgd) (flat : list N) : list (N * list N) :=
  fold_left (fun m s => fold_left (fun m' a => apush a s m')
                                  (ancestors (S (List.length (g_loops g))) g (sg_loop g sgs s)) m) flat [].

Fixpoint contig (fuel : nat) (g : graph) (sgs : list sgd) (cur : option N) (order : list N)
         (ld : list (N * list N)) (out : list N) {struct fuel} : res (list (N * list N) * list N) :=
  match fuel with
  | O => RFuel
  | S f =>
      (fix go (order : list N) (ld : list (N * list N)) (out : list N) {struct order}
         : res (list (N * list N) * list N) :=
         match order with
         | [] => ROk (ld, out)
         | s :: r =>
             let sl := sg_loop g sgs s in
             if optN_eqb cur sl then go r ld (out ++ [s]) else
             match sl with
             | None => RPanic            (* expect("root-level subgraph cannot be within a loop") *)
             | Some l =>
                 if optN_eqb cur (loop_parent g l) then
                   match alookup l ld with
                   | Some inner =>
                       '(ld2, out2) <- contig f g sgs (Some l) inner (aremove l ld) out ;;
                       go r ld2 out2
                   | None => go r ld out
                   end
                 else go r ld out
             end
         end) order ld out
  end.

Definition make_loops_contiguous (g : graph) (sgs : list sgd) (flat : list N) : res (list N) :=
  '(_, out) <- contig (S (S (List.length (g_loops g)))) g sgs None flat (loop_descendants g sgs flat) [] ;;
  ROk out.

(* ------------------------------------------------------------------ the defensive validation *)
Definition valid_preds (g : graph) (tick : list (N * delay)) (succ : N) : list N :=
  flat_map (fun e =>
    if N.eqb (e_dst e) succ && match alookup (e_id e) tick with Some _ => false | None => true end
    then [if is_hoff g (e_src e) then hd 0 (preds_pipe g (e_src e)) else e_src e]
    else []) (g_edges g).

(* ------------------------------------------------------------------ mark_tick_boundary_handoffs *)
Definition mark_node (g : graph) (tick : list (N * delay)) (n : node) : option delay :=
  match n_kind n with
  | KHoff _ =>
      match filter (fun e => N.eqb (e_src e) (n_id n)) (g_edges g) with
      | e :: _ => match alookup (e_id e) tick with
                  | Some d => Some (remap g (e_dst e) d)
                  | None => n_delay n
                  end
      | [] => n_delay n
      end
  | _ => n_delay n
  end.

Definition node_sg (sgs : list sgd) (id : N) : option N :=
  match find (fun d => memN id (s_nodes d)) sgs with Some d => Some (s_id d) | None => None end.

(* ------------------------------------------------------------------ partition_graph *)
Inductive pres := POk (p : graph) | PCycle (c : list N) | PPanic | PFuel.

Definition of_res {A} (r : res A) (k : A -> pres) : pres :=
  match r with ROk a => k a | RPanic => PPanic | RFuel => PFuel end.

Definition partition_model (T : optable) (g : graph) : pres :=
  match partition_front T g with
  | FCycle c => PCycle c
  | FPanicAccess | FPanicEnemy => PPanic
  | FFuel => PFuel
  | FOk s0 _ =>
      let st0 := mkPs s0 (colors0 g) (sort_dedup (map e_id (g_edges g))) in
      of_res (ploop (S (S (List.length (g_edges g)))) g st0) (fun st =>
      let ist0 := mkIs g (tick_edges T g) (max_list (node_ids g) + 1) (max_list (map e_id (g_edges g)) + 1) in
      of_res (insert_all ist0 (ps_hedges st)) (fun ist =>
      let g1 := is_g ist in
      of_res (sm_subgraphs (ps_sm st)) (fun groups =>
      let sgs := register_sgs g1 groups in
      let flat := map s_id sgs in
      of_res (make_loops_contiguous g1 sgs flat) (fun topo =>
      match validate_topo_sort (flat_map (sgs_nodes sgs) topo) (valid_preds g1 (is_tick ist)) with
      | VOk =>
          let nodes' := map (fun n => mkNode (n_id n) (n_kind n) (n_loop n) (n_refs n)
                                             (node_sg sgs (n_id n)) (mark_node g1 (is_tick ist) n))
                            (g_nodes g1) in
          POk (mkGraph nodes' (g_edges g1) (g_loops g1) sgs topo)
      | _ => PPanic                                   (* "bug: toposort is invalid after ..." *)
      end))))
  end.

(* ------------------------------------------------------------------ comparison with the
   implementation's partitioned graph, modulo the ids of inserted handoffs and of edges *)
Definition is_new (flat : graph) (id : N) : bool := negb (memN id (node_ids flat)).

Definition delay_code (d : option delay) : N :=
  match d with None => 0 | Some DTick => 1 | Some DTickLazy => 2 | Some DLoop => 3 | Some DLoopLazy => 4 end.

(* every wire that does not start at an inserted handoff, with the inserted handoff (if any)
   contracted: (src, src port, dst, dst port, 0 = direct | 1 + delay code of the handoff) *)
Definition hwires (flat p : graph) : list (wire * N) :=
  flat_map (fun e =>
    if is_new flat (e_src e) then [] else
    if is_new flat (e_dst e) then
      map (fun o => ((e_src e, e_sport e, e_dst o, e_dport o),
                     1 + delay_code (match node_of p (e_dst e) with Some n => n_delay n | None => None end)))
          (filter (fun o => N.eqb (e_src o) (e_dst e)) (g_edges p))
    else [(wire_of e, 0)]) (g_edges p).

Definition hwire_eqb (a b : wire * N) : bool := wire_eqb (fst a) (fst b) && N.eqb (snd a) (snd b).
Definition count_hw (w : wire * N) (l : list (wire * N)) : nat := List.length (filter (hwire_eqb w) l).
Definition same_hwires_b (a b : list (wire * N)) : bool :=
  Nat.eqb (List.length a) (List.length b) &&
  forallb (fun w => Nat.eqb (count_hw w a) (count_hw w b)) (a ++ b).

Definition old_nodes (flat p : graph) : list node := filter (fun n => negb (is_new flat (n_id n))) (g_nodes p).
Definition new_count (flat p : graph) : nat := List.length (filter (fun n => is_new flat (n_id n)) (g_nodes p)).

Definition part_agree_b (flat m i : graph) : bool :=
  list_eqb node_eqb (old_nodes flat m) (old_nodes flat i) &&
  Nat.eqb (new_count flat m) (new_count flat i) &&
  forallb (fun n => match n_kind n with KHoff HVec => true | _ => false end)
          (filter (fun n => is_new flat (n_id n)) (g_nodes i)) &&
  same_hwires_b (hwires flat m) (hwires flat i) &&
  list_eqb sg_eqb (g_sgs m) (g_sgs i) && list_eqb N.eqb (g_topo m) (g_topo i) &&
  list_eqb loop_eqb (g_loops m) (g_loops i).

(* [flat_ok_b]: what FlatGraphBuilder guarantees about a flat graph and the model needs; decidable,
   and evaluated on every real flat graph by the C18 check (bit 0). *)
Definition flat_ok_b (T : optable) (g : graph) : bool :=
  nodup_b (node_ids g) && nodup_b (map e_id (g_edges g)) &&
  forallb (fun e => memN (e_src e) (node_ids g) && memN (e_dst e) (node_ids g)) (g_edges g) &&
  deps_closed_b T g &&
  forallb (fun n => match n_kind n with KMod => false | _ => true end) (g_nodes g).


(* a flat graph carries no delay marks yet (handoff_delay_type is empty before partitioning) *)
Definition flat_marks_ok_b (g : graph) : bool :=
  forallb (fun n => match n_delay n with None => true | Some _ => false end) (g_nodes g).

(* front-end fact: no edge joins two handoffs (build_dfir_code rejects adjacent handoffs) *)
Definition flat_adj_ok_b (g : graph) : bool :=
  forallb (fun e => negb (is_hoff g (e_src e) && is_hoff g (e_dst e))) (g_edges g).

(* verdict code for the checks: 0 = the front-end guarantees hold and the model predicts the implementation's whole output *)
Definition full_check (T : optable) (flat : graph) (impl : option graph) : N :=
  if negb (flat_ok_b T flat && flat_marks_ok_b flat && flat_adj_ok_b flat) then 1 else
  match partition_model T flat, impl with
  | POk m, Some i => if part_agree_b flat m i then 0 else 1
  | POk _, None => 1
  | _, Some _ => 1
  | _, None => 0
  end.
