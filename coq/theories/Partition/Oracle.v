(* C42, mechanism part: the hash-ordered containers the partitioner touches.

   Source scan (tools/partition.py: scan_hash_iteration, re-run on every check and compared with
   corpus/C42/hash_iteration_sites.json) finds std HashMap/HashSet in dfir_lang/src/graph at:
     topo_sort            marked : HashMap<Id,bool>         get / insert            (keyed)
     SubgraphMerge        enemies : SecondaryMap<K,HashSet> contains/insert/remove  (keyed)
                          ... and ONE iteration: `for w in self.enemies.remove(v).into_iter().flatten()`
     try_merge            visited : HashSet                 insert                  (keyed)
     make_loops_contiguous loop_descendants : HashMap       entry / remove          (keyed)
     as_code              loop_swap_code : HashMap          entry / get             (keyed)
   Keyed access to a hash container is a function of the key set only.  The iteration is the one
   place where the hash order (seed dependent) reaches the algorithm.  This file models that
   loop with the iteration order supplied by an arbitrary oracle and proves that the resulting
   enemy relation does not depend on the oracle.

   Model: the enemy map is its membership relation  en k x = "x in enemies[k]"  (a HashSet is
   observed by the code only through contains/insert/remove and this iteration); an oracle is
   any list enumerating enemies[v] (duplicates allowed: a stronger adversary than a real hash set). *)
From Coq Require Import List NArith Bool.
Import ListNotations.
Open Scope N_scope.

Definition emap := N -> N -> bool.

Definition e_insert (en : emap) (k x : N) : emap :=
  fun k' x' => if (k' =? k) && (x' =? x) then true else en k' x'.
Definition e_remove (en : emap) (k x : N) : emap :=
  fun k' x' => if (k' =? k) && (x' =? x) then false else en k' x'.
Definition e_remove_key (en : emap) (k : N) : emap :=
  fun k' x' => if k' =? k then false else en k' x'.

(* one iteration of the loop body, graph_algorithms.rs try_merge step "Merge enemies":
     self.enemies.entry(u).or_default().insert(w);
     let w_enemies = self.enemies.get_mut(w).unwrap();
     w_enemies.remove(&v); w_enemies.insert(u);                                      *)
Definition merge_step (u v : N) (en : emap) (w : N) : emap :=
  e_insert (e_remove (e_insert en u w) w v) w u.

(* `for w in self.enemies.remove(v)...` with the iteration order `order` chosen by the oracle *)
Definition merge_enemies (order : list N) (u v : N) (en : emap) : emap :=
  fold_left (merge_step u v) order (e_remove_key en v).

(* the oracle enumerates exactly enemies[v] *)
Definition enumerates (order : list N) (en : emap) (v : N) : Prop :=
  forall x, In x order <-> en v x = true.

(* closed form of the loop's effect, independent of the order *)
Definition merged (u v : N) (en : emap) : emap :=
  fun k x =>
    if k =? v then false
    else if k =? u then en u x || en v x
    else if en v k then (x =? u) || (en k x && negb (x =? v))
    else en k x.

Section Closed.
  Variables (u v : N) (en : emap).
  Hypothesis u_ne_v : u <> v.
  (* invariants of SubgraphMerge at this program point: no node is its own enemy, and the
     `enemies[u].contains(v)` guard just failed (with symmetry: u is not in enemies[v]) *)
  Hypothesis irrefl_v : en v v = false.
  Hypothesis guard : en v u = false.

  Definition partial (done : list N) : emap :=
    fun k x =>
      if k =? v then false
      else if k =? u then en u x || existsb (N.eqb x) done
      else if existsb (N.eqb k) done then (x =? u) || (en k x && negb (x =? v))
      else en k x.

  Lemma existsb_eqb_In : forall x l, existsb (N.eqb x) l = true <-> In x l.
  Proof.
    intros x l. rewrite existsb_exists. split.
    - intros [y [Hy He]]. apply N.eqb_eq in He. subst. exact Hy.
    - intro H. exists x. split; [exact H | apply N.eqb_refl].
  Qed.

  Lemma existsb_app1 : forall x l w,
    existsb (N.eqb x) (l ++ [w]) = existsb (N.eqb x) l || (x =? w).
  Proof. intros. rewrite existsb_app. simpl. rewrite orb_false_r. reflexivity. Qed.

  Lemma step_partial : forall done w,
    (forall y, In y (done ++ [w]) -> en v y = true) ->
    forall k x, merge_step u v (partial done) w k x = partial (done ++ [w]) k x.
  Proof.
    intros done w Hin k x.
    assert (Hw : en v w = true) by (apply Hin; apply in_or_app; right; left; reflexivity).
    assert (Hwv : w <> v) by (intro E; subst; rewrite irrefl_v in Hw; discriminate).
    assert (Hwu : w <> u) by (intro E; subst; rewrite guard in Hw; discriminate).
    unfold merge_step, e_insert, e_remove, partial.
    rewrite !existsb_app1.
    destruct (N.eqb_spec k v) as [Ekv|Ekv]; destruct (N.eqb_spec k u) as [Eku|Eku];
    destruct (N.eqb_spec k w) as [Ekw|Ekw]; destruct (N.eqb_spec x w) as [Exw|Exw];
    destruct (N.eqb_spec x u) as [Exu|Exu]; destruct (N.eqb_spec x v) as [Exv|Exv];
    subst; try congruence; cbn [andb orb negb];
    rewrite ?orb_true_r, ?orb_false_r, ?andb_true_r, ?andb_false_r; try reflexivity;
    try (destruct (existsb (N.eqb w) done); reflexivity);
    try (destruct (existsb (N.eqb k) done); reflexivity).
  Qed.

  Lemma fold_partial : forall order done,
    (forall y, In y (done ++ order) -> en v y = true) ->
    forall k x, fold_left (merge_step u v) order (partial done) k x = partial (done ++ order) k x.
  Proof.
    induction order as [|w order IH]; intros done Hin k x.
    - rewrite app_nil_r. reflexivity.
    - cbn [fold_left].
      assert (E : forall k x, fold_left (merge_step u v) order (merge_step u v (partial done) w) k x
                           = fold_left (merge_step u v) order (partial (done ++ [w])) k x).
      { clear k x.
        assert (G : forall (f g : emap), (forall k x, f k x = g k x) ->
                     forall l k x, fold_left (merge_step u v) l f k x = fold_left (merge_step u v) l g k x).
        { intros f g Hfg l. revert f g Hfg. induction l as [|a l IHl]; intros f g Hfg k x.
          - apply Hfg.
          - cbn [fold_left]. apply IHl. intros k' x'.
            unfold merge_step, e_insert, e_remove. rewrite Hfg. reflexivity. }
        intros k x. apply G. intros k' x'. apply step_partial.
        intros y Hy. apply Hin. rewrite in_app_iff in *. cbn [In] in *. tauto. }
      rewrite E. rewrite IH.
      + rewrite <- app_assoc. reflexivity.
      + intros y Hy. apply Hin. rewrite <- app_assoc in Hy. exact Hy.
  Qed.

  Lemma partial_nil : forall k x, e_remove_key en v k x = partial [] k x.
  Proof.
    intros k x. unfold e_remove_key, partial. cbn [existsb].
    destruct (k =? v); [reflexivity|]. rewrite orb_false_r.
    destruct (N.eqb_spec k u); subst; reflexivity.
  Qed.

  Theorem merge_enemies_closed_form : forall order,
    enumerates order en v ->
    forall k x, merge_enemies order u v en k x = merged u v en k x.
  Proof.
    intros order Hen k x. unfold merge_enemies.
    assert (G : forall (f g : emap), (forall k x, f k x = g k x) ->
                 forall l k x, fold_left (merge_step u v) l f k x = fold_left (merge_step u v) l g k x).
    { intros f g Hfg l. revert f g Hfg. induction l as [|a l IHl]; intros f g Hfg k' x'.
      - apply Hfg.
      - cbn [fold_left]. apply IHl. intros k'' x''.
        unfold merge_step, e_insert, e_remove. rewrite Hfg. reflexivity. }
    rewrite (G _ _ partial_nil). rewrite fold_partial.
    - cbn [app]. unfold partial, merged.
      destruct (k =? v); [reflexivity|].
      destruct (k =? u).
      + f_equal. destruct (en v x) eqn:E.
        * apply existsb_eqb_In. apply Hen. exact E.
        * destruct (existsb (N.eqb x) order) eqn:E2; [|reflexivity].
          apply existsb_eqb_In in E2. apply Hen in E2. congruence.
      + destruct (en v k) eqn:E.
        * assert (H : existsb (N.eqb k) order = true) by (apply existsb_eqb_In; apply Hen; exact E).
          rewrite H. reflexivity.
        * destruct (existsb (N.eqb k) order) eqn:E2; [|reflexivity].
          apply existsb_eqb_In in E2. apply Hen in E2. congruence.
    - cbn [app]. intros y Hy. apply Hen. exact Hy.
  Qed.
End Closed.

(* The statement used by Props/C42.v: two arbitrary iteration orders of the same hash set give
   the same enemy relation (hence every later `contains` answers the same). *)
Theorem merge_enemies_oracle_independent :
  forall (u v : N) (en : emap) (o1 o2 : list N),
    u <> v -> en v v = false -> en v u = false ->
    enumerates o1 en v -> enumerates o2 en v ->
    forall k x, merge_enemies o1 u v en k x = merge_enemies o2 u v en k x.
Proof.
  intros u v en o1 o2 Huv Hirr Hg H1 H2 k x.
  rewrite (merge_enemies_closed_form u v en Huv Hirr Hg o1 H1).
  rewrite (merge_enemies_closed_form u v en Huv Hirr Hg o2 H2).
  reflexivity.
Qed.

(* non-vacuity: a concrete enemy map, two different orders, hypotheses hold *)
Definition ex_en : emap := fun k x =>
  match k, x with
  | 2, 5 | 5, 2 | 2, 7 | 7, 2 | 1, 9 | 9, 1 => true
  | _, _ => false
  end.
Example oracle_hyps_satisfiable :
  1 <> 2 /\ ex_en 2 2 = false /\ ex_en 2 1 = false /\
  enumerates [5; 7] ex_en 2 /\ enumerates [7; 5; 7] ex_en 2 /\
  merge_enemies [5; 7] 1 2 ex_en 1 7 = true /\ merge_enemies [7; 5; 7] 1 2 ex_en 7 1 = true
  /\ merge_enemies [5; 7] 1 2 ex_en 7 2 = false.
Proof.
  repeat split; try discriminate; try reflexivity.
  - intros [H|[H|[]]]; subst; reflexivity.
  - unfold ex_en. intro H.
    destruct x as [|p]; [discriminate|].
    destruct p as [[[|[]|]|[[]|[]|]|]|[[]|[]|]|]; try discriminate; cbn; tauto.
  - intros [H|[H|[H|[]]]]; subst; reflexivity.
  - unfold ex_en. intro H.
    destruct x as [|p]; [discriminate|].
    destruct p as [[[|[]|]|[[]|[]|]|]|[[]|[]|]|]; try discriminate; cbn; tauto.
Qed.
