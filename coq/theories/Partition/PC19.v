(* C19 proofs: the partitioner model rejects exactly the graphs whose same-tick dependency graph
   has a cycle; built on the topo_sort theorems of GraphAlg/PTopo.v. *)
From Coq Require Import List String NArith Bool Arith Lia.
From HV Require Import Partition.Base GraphAlg.Model GraphAlg.PTopo Partition.Model.
Import ListNotations.
Open Scope N_scope.

(* ---------------------------------------------------------------- small list facts *)
Lemma memN_In' x l : memN x l = true <-> In x l.
Proof.
  unfold memN. rewrite existsb_exists. split.
  - intros [y [Hy He]]. apply N.eqb_eq in He. subst. exact Hy.
  - intro H. exists x. split; [exact H|apply N.eqb_refl].
Qed.

Lemma In_sinsert' x y l : In y (sinsert x l) <-> y = x \/ In y l.
Proof.
  induction l as [|z l IH]; simpl.
  - intuition.
  - destruct (N.compare_spec x z) as [E|E|E]; simpl.
    + subst. intuition.
    + intuition.
    + rewrite IH. intuition.
Qed.

Lemma In_sort_dedup' y l : In y (sort_dedup l) <-> In y l.
Proof.
  unfold sort_dedup. induction l as [|x l IH]; simpl; [tauto|].
  rewrite In_sinsert', IH. intuition.
Qed.

Lemma alookup_map_fn (f : N -> list N) ks k :
  alookup k (map (fun k => (k, f k)) ks) = if memN k ks then Some (f k) else None.
Proof.
  induction ks as [|a ks IH]; simpl; [reflexivity|].
  destruct (N.eqb_spec k a) as [E|E].
  - subst. reflexivity.
  - simpl. exact IH.
Qed.

Lemma preds_of_map_fn f ks k :
  preds_of (map (fun k => (k, f k)) ks) k = if memN k ks then f k else [].
Proof. unfold preds_of. rewrite alookup_map_fn. destruct (memN k ks); reflexivity. Qed.

(* ---------------------------------------------------------------- is_cycle is monotone / local *)
Lemma chain_mono (p q : N -> list N) c :
  (forall a b, In b c -> In a (p b) -> In a (q b)) -> chain p c -> chain q c.
Proof.
  induction c as [|a [|b r] IH]; intros H Hc; simpl in *; auto.
  destruct Hc as [H1 H2]. split.
  - apply H; [right; left; reflexivity|exact H1].
  - apply IH; [|exact H2]. intros x y Hy. apply H. right. exact Hy.
Qed.

Lemma hd_In (c : list N) : c <> [] -> In (hd 0 c) c.
Proof. destruct c; [congruence|left; reflexivity]. Qed.

Lemma is_cycle_mono (p q : N -> list N) c :
  (forall a b, In b c -> In a (p b) -> In a (q b)) -> is_cycle p c -> is_cycle q c.
Proof.
  intros H (Hne & Hnd & Hch & Hl). repeat split; auto.
  - eapply chain_mono; eassumption.
  - apply H; [apply hd_In; exact Hne|exact Hl].
Qed.

(* every element of a cycle has a predecessor in the cycle's graph and is a predecessor *)
Lemma chain_elem_has_pred p : forall c a, In a c -> a <> hd 0 c -> chain p c ->
  exists b, In b (p a).
Proof.
  induction c as [|x [|y r] IH]; intros a Ha Hn Hc; simpl in *.
  - contradiction.
  - destruct Ha as [Ha|[]]. congruence.
  - destruct Hc as [H1 H2]. destruct Ha as [Ha|Ha]; [congruence|].
    destruct (N.eq_dec a y) as [E|E].
    + subst. exists x. exact H1.
    + apply (IH a Ha); [simpl; exact E|exact H2].
Qed.

Lemma cycle_elem_has_pred p c a : is_cycle p c -> In a c -> exists b, In b (p a).
Proof.
  intros (Hne & _ & Hch & Hl) Ha.
  destruct (N.eq_dec a (hd 0 c)) as [E|E].
  - subst. eexists. exact Hl.
  - eapply chain_elem_has_pred; eassumption.
Qed.

(* ... and is itself a predecessor of an element of the cycle *)
Lemma chain_elem_is_pred p : forall c a, In a c -> a <> last c 0 -> chain p c ->
  exists b, In b c /\ In a (p b).
Proof.
  induction c as [|x [|y r] IH]; intros a Ha Hn Hc.
  - contradiction.
  - simpl in *. destruct Ha as [Ha|[]]. congruence.
  - destruct Hc as [H1 H2].
    destruct (N.eq_dec a x) as [E|E].
    + subst. exists y. split; [right; left; reflexivity|exact H1].
    + destruct Ha as [Ha|Ha]; [congruence|].
      change (last (x :: y :: r) 0) with (last (y :: r) 0) in Hn.
      destruct (IH a Ha Hn H2) as (b & Hb & Hab). exists b. split; [right; exact Hb|exact Hab].
Qed.

Lemma last_In (c : list N) : c <> [] -> In (last c 0) c.
Proof.
  induction c as [|x [|y r] IH]; intro H; [congruence|left; reflexivity|].
  right. apply IH. discriminate.
Qed.

Lemma cycle_elem_is_pred p c a : is_cycle p c -> In a c -> exists b, In b c /\ In a (p b).
Proof.
  intros (Hne & _ & Hch & Hl) Ha.
  destruct (N.eq_dec a (last c 0)) as [E|E].
  - subst. exists (hd 0 c). split; [apply hd_In; exact Hne|exact Hl].
  - eapply chain_elem_is_pred; eassumption.
Qed.

(* ---------------------------------------------------------------- the model's pieces *)
Section Proofs.
  Variable T : optable.

  Lemma preds_from_In pairs n a : In a (preds_from pairs n) <-> In (n, a) pairs.
  Proof.
    unfold preds_from. rewrite in_map_iff. split.
    - intros [[d s] [Hs Hf]]. simpl in Hs. subst. apply filter_In in Hf. destruct Hf as [Hi He].
      simpl in He. apply N.eqb_eq in He. subst. exact Hi.
    - intro H. exists (n, a). split; [reflexivity|]. apply filter_In. split; [exact H|].
      simpl. apply N.eqb_refl.
  Qed.

  Lemma deps_closed g : deps_closed_b T g = true ->
    forall n a, In a (same_tick_deps T g n) -> In a (node_ids g).
  Proof.
    intros H n a Ha. unfold same_tick_deps in Ha. apply preds_from_In in Ha.
    unfold deps_closed_b in H. rewrite forallb_forall in H. specialize (H _ Ha). simpl in H.
    apply memN_In'. exact H.
  Qed.

  (* every element of a cycle of the dependency graph is a node *)
  Lemma cycle_in_nodes g c : deps_closed_b T g = true -> is_cycle (same_tick_deps T g) c ->
    forall x, In x c -> In x (node_ids g).
  Proof.
    intros Hc Hcy x Hx. destruct (cycle_elem_is_pred _ _ _ Hcy Hx) as (b & _ & Hb).
    exact (deps_closed g Hc b x Hb).
  Qed.

  Lemma access_pairs_cases g :
    (access_conflict g = true /\ access_pairs g = RPanic) \/
    (access_conflict g = false /\ access_pairs g = ROk (access_pairs_raw g)).
  Proof.
    unfold access_pairs, access_conflict.
    destruct (existsb _ _); [left|right]; split; reflexivity.
  Qed.

  Lemma enemies_new_res ps : forall e,
    (existsb (fun p => N.eqb (fst p) (snd p)) ps = true /\ enemies_new ps e = RPanic) \/
    (existsb (fun p => N.eqb (fst p) (snd p)) ps = false /\ exists e', enemies_new ps e = ROk e').
  Proof.
    induction ps as [|[a b] ps IH]; intro e; simpl.
    - right. split; [reflexivity|]. eexists; reflexivity.
    - destruct (N.eqb a b) eqn:E; simpl.
      + left. split; reflexivity.
      + apply IH.
  Qed.

  (* the keys and predecessor function SubgraphMerge::new hands to topo_sort *)
  Definition ks (g : graph) : list N := sort_dedup (node_ids g).
  Definition sp_preds (g : graph) : N -> list N :=
    preds_of (map (fun k => (k, same_tick_deps T g k)) (ks g)).

  Lemma sp_preds_eq g k : sp_preds g k = if memN k (ks g) then same_tick_deps T g k else [].
  Proof. unfold sp_preds. apply preds_of_map_fn. Qed.

  Lemma sp_preds_sub g a b : In a (sp_preds g b) -> In a (same_tick_deps T g b).
  Proof. rewrite sp_preds_eq. destruct (memN b (ks g)); [auto|intros []]. Qed.

  Lemma sp_preds_sup g a b : In b (node_ids g) ->
    In a (same_tick_deps T g b) -> In a (sp_preds g b).
  Proof.
    intros Hb H. rewrite sp_preds_eq.
    assert (Hm : memN b (ks g) = true) by (apply memN_In'; apply In_sort_dedup'; exact Hb).
    rewrite Hm. exact H.
  Qed.

  Lemma sp_closed g : deps_closed_b T g = true ->
    forall x p, In x (ks g) -> In p (sp_preds g x) -> In p (ks g).
  Proof.
    intros Hc x p _ Hp. apply sp_preds_sub in Hp.
    apply In_sort_dedup'. exact (deps_closed g Hc x p Hp).
  Qed.

  (* partition_front unfolded for the conflict-free case *)
  Lemma front_no_conflict g : access_conflict g = false ->
    partition_front T g =
      match topo_sort (ks g) (sp_preds g) with
      | TErr c => FCycle c
      | TFuel => FFuel
      | TOk o =>
          match enemies_new (enemy_pairs T g (access_pairs_raw g)) [] with
          | ROk e => FOk (mkSm (map (fun k => (k, same_tick_deps T g k)) (ks g)) o
                               (enumerate_from 0 o) (map (fun k => (k, 1%nat)) o) [] e)
                         (access_pairs_raw g)
          | RPanic => FPanicEnemy
          | RFuel => FFuel
          end
      end.
  Proof.
    intro H. unfold partition_front.
    destruct (access_pairs_cases g) as [[H1 _]|[_ H2]]; [congruence|].
    rewrite H2. unfold sm_new, sp_preds, ks, same_tick_deps.
    destruct (topo_sort _ _); try reflexivity.
    destruct (enemies_new _ _); reflexivity.
  Qed.

  (* ------------------------------------------------------------ theorems *)
  Theorem reported_cycle_is_real g c :
    partition_verdict T g = Rejected c -> is_cycle (same_tick_deps T g) c.
  Proof.
    unfold partition_verdict. intro H.
    destruct (access_pairs_cases g) as [[_ H1]|[H1 _]].
    - unfold partition_front in H. rewrite H1 in H. discriminate.
    - rewrite (front_no_conflict g H1) in H.
      destruct (topo_sort (ks g) (sp_preds g)) as [o|c'|] eqn:R.
      + destruct (enemies_new _ _); discriminate.
      + injection H as ->. unfold topo_sort in R.
        destruct (topo_sort_cycle _ _ _ _ R) as [Hc _].
        eapply is_cycle_mono; [|exact Hc]. intros a b _. apply sp_preds_sub.
      + discriminate.
  Qed.

  Theorem verdict_trichotomy g :
    deps_closed_b T g = true -> access_conflict g = false -> enemy_self_pair T g = false ->
    (partition_verdict T g = Accepted /\ ~ exists c, is_cycle (same_tick_deps T g) c) \/
    (exists c, partition_verdict T g = Rejected c /\ is_cycle (same_tick_deps T g) c).
  Proof.
    intros Hc Ha He.
    destruct (partition_verdict T g) as [|c| |] eqn:V.
    - left. split; [reflexivity|]. intros (c & Hcy).
      unfold partition_verdict in V. rewrite (front_no_conflict g Ha) in V.
      destruct (topo_sort (ks g) (sp_preds g)) as [o|c'|] eqn:R; try discriminate.
      unfold topo_sort in R.
      apply (topo_sort_ok_acyclic _ _ _ _ R). exists c. split.
      + eapply is_cycle_mono; [|exact Hcy]. intros a b Hb. apply sp_preds_sup.
        exact (cycle_in_nodes g c Hc Hcy b Hb).
      + intros x Hx. apply reach_node. apply In_sort_dedup'.
        exact (cycle_in_nodes g c Hc Hcy x Hx).
    - right. exists c. split; [reflexivity|]. apply reported_cycle_is_real. exact V.
    - exfalso. unfold partition_verdict in V. rewrite (front_no_conflict g Ha) in V.
      destruct (topo_sort (ks g) (sp_preds g)); try discriminate.
      unfold enemy_self_pair in He.
      destruct (enemies_new_res (enemy_pairs T g (access_pairs_raw g)) []) as [[H1 _]|[_ [e' H2]]].
      + congruence.
      + rewrite H2 in V. discriminate.
    - exfalso. unfold partition_verdict in V. rewrite (front_no_conflict g Ha) in V.
      destruct (topo_sort (ks g) (sp_preds g)) as [o|c'|] eqn:R; try discriminate.
      + destruct (enemies_new_res (enemy_pairs T g (access_pairs_raw g)) []) as [[_ H1]|[_ [e' H2]]].
        * rewrite H1 in V. discriminate.
        * rewrite H2 in V. discriminate.
      + exact (topo_sort_closed_no_fuel (ks g) (sp_preds g) (sp_closed g Hc) R).
  Qed.

  Theorem rejects_iff_cycle g :
    deps_closed_b T g = true -> access_conflict g = false -> enemy_self_pair T g = false ->
    ((exists c, partition_verdict T g = Rejected c) <-> exists c, is_cycle (same_tick_deps T g) c).
  Proof.
    intros Hc Ha He. destruct (verdict_trichotomy g Hc Ha He) as [[V Hn]|(c & V & Hcy)].
    - split; [intros (c & Hr); congruence|intro H; contradiction].
    - split; intros _; exists c; assumption.
  Qed.

  Theorem acyclic_accepted g :
    deps_closed_b T g = true -> access_conflict g = false -> enemy_self_pair T g = false ->
    (~ exists c, is_cycle (same_tick_deps T g) c) -> partition_verdict T g = Accepted.
  Proof.
    intros Hc Ha He Hn. destruct (verdict_trichotomy g Hc Ha He) as [[V _]|(c & _ & Hcy)].
    - exact V.
    - exfalso. apply Hn. exists c. exact Hcy.
  Qed.
End Proofs.

(* ---------------------------------------------------------------- executable forms are sound *)
Lemma nodup_b_NoDup l : nodup_b l = true -> NoDup l.
Proof.
  induction l as [|x l IH]; simpl; intro H; [constructor|].
  apply andb_true_iff in H. destruct H as [H1 H2]. constructor.
  - intro Hin. apply memN_In' in Hin. rewrite Hin in H1. discriminate.
  - apply IH. exact H2.
Qed.

Lemma chain_b_chain p c : chain_b p c = true -> chain p c.
Proof.
  induction c as [|a [|b r] IH]; simpl; intro H; auto.
  apply andb_true_iff in H. destruct H as [H1 H2]. split.
  - apply memN_In'. exact H1.
  - apply IH. exact H2.
Qed.

Lemma is_cycle_b_sound p c : is_cycle_b p c = true -> is_cycle p c.
Proof.
  unfold is_cycle_b, is_cycle. destruct c as [|x c]; [discriminate|].
  intro H. apply andb_true_iff in H. destruct H as [H H3].
  apply andb_true_iff in H. destruct H as [H1 H2].
  repeat split.
  - discriminate.
  - apply nodup_b_NoDup. exact H1.
  - apply chain_b_chain. exact H2.
  - apply memN_In'. exact H3.
Qed.
