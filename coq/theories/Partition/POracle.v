(* C42, whole model: the partition model does not depend on the order oracle.
     forall pi, (forall l, Permutation (pi l) l) -> partition_model_o pi T g = partition_model T g *)
From Coq Require Import List String NArith Bool Arith Lia Permutation.
From HV Require Import Partition.Base GraphAlg.Model Partition.Model Partition.WF Partition.Rewrite
                       Partition.Full Partition.FullO.
Import ListNotations.
Open Scope N_scope.

(* ---------------------------------------------------------------- association lists *)
Section Alist.
  Context {A : Type}.
  Implicit Types m : list (N * A).

  Lemma alookup_aset_same k (v : A) m : alookup k (aset k v m) = Some v.
  Proof.
    induction m as [|[k' v'] m IH]; simpl.
    - rewrite N.eqb_refl. reflexivity.
    - destruct (N.eqb k k') eqn:E; simpl; rewrite ?E, ?N.eqb_refl; auto.
  Qed.

  Lemma alookup_aset_other k k' (v : A) m : k <> k' -> alookup k (aset k' v m) = alookup k m.
  Proof.
    intro H. induction m as [|[k2 v2] m IH]; simpl.
    - apply N.eqb_neq in H. rewrite H. reflexivity.
    - destruct (N.eqb k' k2) eqn:E; simpl.
      + apply N.eqb_eq in E. subst k2. apply N.eqb_neq in H. rewrite H. reflexivity.
      + destruct (N.eqb k k2); auto.
  Qed.

  Lemma aset_aset_same k (x y : A) m : aset k x (aset k y m) = aset k x m.
  Proof.
    induction m as [|[k' v'] m IH]; simpl.
    - rewrite N.eqb_refl. reflexivity.
    - destruct (N.eqb k k') eqn:E; simpl; rewrite ?E, ?N.eqb_refl; [reflexivity|]. rewrite IH. reflexivity.
  Qed.

  Lemma aset_comm_present a b (x y : A) m :
    a <> b -> alookup a m <> None -> alookup b m <> None ->
    aset a x (aset b y m) = aset b y (aset a x m).
  Proof.
    intros Hab. induction m as [|[k v] m IH]; simpl; intros Ha Hb; [congruence|].
    destruct (N.eqb_spec a k) as [Ea|Ea]; destruct (N.eqb_spec b k) as [Eb|Eb]; subst; try congruence; simpl.
    - rewrite N.eqb_refl. destruct (N.eqb_spec b k); [congruence|]. reflexivity.
    - rewrite N.eqb_refl. destruct (N.eqb_spec a k); [congruence|]. reflexivity.
    - destruct (N.eqb_spec a k); [congruence|]. destruct (N.eqb_spec b k); [congruence|].
      rewrite IH; auto.
  Qed.

  Lemma alookup_aset_present k k' (v : A) m : alookup k m <> None -> alookup k (aset k' v m) <> None.
  Proof.
    intro H. destruct (N.eq_dec k k') as [E|E].
    - subst. rewrite alookup_aset_same. discriminate.
    - rewrite alookup_aset_other; auto.
  Qed.
End Alist.

(* ---------------------------------------------------------------- sorted insertion commutes
   (unconditionally: no sortedness invariant is needed) *)
Lemma sinsert_comm a b : forall l, sinsert a (sinsert b l) = sinsert b (sinsert a l).
Proof.
  induction l as [|y r IH]; simpl.
  - destruct (N.compare_spec a b) as [E|E|E]; destruct (N.compare_spec b a) as [F|F|F];
      subst; try reflexivity; try lia.
  - destruct (N.compare_spec b y) as [Eb|Eb|Eb]; destruct (N.compare_spec a y) as [Ea|Ea|Ea]; subst; simpl;
      repeat (match goal with
              | |- context [N.compare ?x ?z] => destruct (N.compare_spec x z); subst; try lia; simpl
              end); try reflexivity; try lia.
    rewrite IH. reflexivity.
Qed.

(* ---------------------------------------------------------------- one iteration of the loop *)
Definition getU (u : N) (e : emap') : list N := match alookup u e with Some l => l | None => [] end.
Definition Fw (u v : N) (we : list N) : list N := sinsert u (sremove v we).

Definition estep (u v w : N) (e : emap') : res emap' :=
  if N.eqb w u then RPanic else
  let e1 := eadd u w e in
  we <- aget w e1 ;;
  if negb (memN v we) then RPanic else ROk (aset w (Fw u v we) e1).

Lemma merge_enemies_cons u v w r e :
  merge_enemies u v (w :: r) e = (x <- estep u v w e ;; merge_enemies u v r x).
Proof.
  unfold estep. simpl. destruct (N.eqb w u); [reflexivity|].
  unfold aget. destruct (alookup w (eadd u w e)); simpl; [|reflexivity].
  destruct (negb (memN v l)); reflexivity.
Qed.

Lemma estep_spec u v w e :
  estep u v w e =
  if N.eqb w u then RPanic else
  match alookup w e with
  | None => RPanic
  | Some we => if memN v we then ROk (aset w (Fw u v we) (aset u (sinsert w (getU u e)) e)) else RPanic
  end.
Proof.
  unfold estep. destruct (N.eqb_spec w u) as [E|E]; [reflexivity|].
  unfold eadd, aget, getU. rewrite alookup_aset_other by exact E.
  destruct (alookup w e) as [we|]; simpl; [|reflexivity].
  destruct (memN v we); reflexivity.
Qed.

Lemma estep_comm u v w1 w2 e :
  (x <- estep u v w1 e ;; estep u v w2 x) = (x <- estep u v w2 e ;; estep u v w1 x).
Proof.
  destruct (N.eq_dec w1 w2) as [E12|E12]; [subst; reflexivity|].
  rewrite (estep_spec u v w1 e), (estep_spec u v w2 e).
  destruct (N.eqb_spec w1 u) as [E1|E1]; destruct (N.eqb_spec w2 u) as [E2|E2]; simpl.
  - reflexivity.
  - (* w1 = u: left panics at once; right panics in its second step *)
    destruct (alookup w2 e) as [we2|]; [|reflexivity]. destruct (memN v we2); [|reflexivity].
    simpl. rewrite estep_spec. subst. rewrite N.eqb_refl. reflexivity.
  - destruct (alookup w1 e) as [we1|]; [|reflexivity]. destruct (memN v we1); [|reflexivity].
    simpl. rewrite estep_spec. subst. rewrite N.eqb_refl. reflexivity.
  - destruct (alookup w1 e) as [we1|] eqn:L1; destruct (alookup w2 e) as [we2|] eqn:L2; simpl.
    + destruct (memN v we1) eqn:M1; destruct (memN v we2) eqn:M2; simpl.
      * (* both succeed *)
        rewrite !estep_spec.
        apply N.eqb_neq in E1 as E1b. apply N.eqb_neq in E2 as E2b. rewrite E1b, E2b.
        rewrite (alookup_aset_other w2 w1) by auto. rewrite (alookup_aset_other w2 u) by auto. rewrite L2, M2.
        rewrite (alookup_aset_other w1 w2) by auto. rewrite (alookup_aset_other w1 u) by auto. rewrite L1, M1.
        f_equal. unfold getU.
        rewrite (alookup_aset_other u w1) by auto. rewrite alookup_aset_same.
        rewrite (alookup_aset_other u w2) by auto. rewrite alookup_aset_same.
        set (U := match alookup u e with Some l => l | None => [] end).
        (* left:  aset w2 F2 (aset u X21 (aset w1 F1 (aset u X1 e))) *)
        assert (Pu : forall X, alookup u (aset u X e) <> None) by (intro X; rewrite alookup_aset_same; discriminate).
        assert (P1 : forall X, alookup w1 (aset u X e) <> None)
          by (intro X; rewrite alookup_aset_other by auto; rewrite L1; discriminate).
        assert (P2 : forall X, alookup w2 (aset u X e) <> None)
          by (intro X; rewrite alookup_aset_other by auto; rewrite L2; discriminate).
        rewrite (aset_comm_present u w1) by auto. rewrite aset_aset_same.
        rewrite (aset_comm_present u w2 (sinsert w1 (sinsert w2 U))) by auto. rewrite aset_aset_same.
        rewrite (sinsert_comm w2 w1 U).
        apply aset_comm_present; auto.
      * rewrite estep_spec. apply N.eqb_neq in E2 as E2b. rewrite E2b.
        rewrite (alookup_aset_other w2 w1) by auto. rewrite (alookup_aset_other w2 u) by auto. rewrite L2, M2.
        reflexivity.
      * rewrite estep_spec. apply N.eqb_neq in E1 as E1b. rewrite E1b.
        rewrite (alookup_aset_other w1 w2) by auto. rewrite (alookup_aset_other w1 u) by auto. rewrite L1, M1.
        reflexivity.
      * reflexivity.
    + destruct (memN v we1) eqn:M1; simpl; [|reflexivity].
      rewrite estep_spec. apply N.eqb_neq in E2 as E2b. rewrite E2b.
      rewrite (alookup_aset_other w2 w1) by auto. rewrite (alookup_aset_other w2 u) by auto. rewrite L2.
      reflexivity.
    + destruct (memN v we2) eqn:M2; simpl; [|reflexivity].
      rewrite estep_spec. apply N.eqb_neq in E1 as E1b. rewrite E1b.
      rewrite (alookup_aset_other w1 w2) by auto. rewrite (alookup_aset_other w1 u) by auto. rewrite L1.
      reflexivity.
    + reflexivity.
Qed.

(* the hash-set iteration may be visited in any order *)
Theorem merge_enemies_perm u v : forall ws ws', Permutation ws ws' ->
  forall e, merge_enemies u v ws e = merge_enemies u v ws' e.
Proof.
  induction 1 as [|x l l' _ IH|x y l|l l' l'' _ IH1 _ IH2]; intro e.
  - reflexivity.
  - rewrite !merge_enemies_cons. destruct (estep u v x e); cbn [rbind]; auto.
  - rewrite (merge_enemies_cons u v y), (merge_enemies_cons u v x).
    assert (L : forall w1 w2 e0, (a <- estep u v w1 e0 ;; merge_enemies u v (w2 :: l) a) =
                                 (z <- (a <- estep u v w1 e0 ;; estep u v w2 a) ;; merge_enemies u v l z)).
    { intros w1 w2 e0. destruct (estep u v w1 e0); cbn [rbind]; try reflexivity. apply merge_enemies_cons. }
    rewrite !L. rewrite estep_comm. reflexivity.
  - rewrite IH1. apply IH2.
Qed.

(* ---------------------------------------------------------------- the generic copies *)
Lemma sm_merge_phase_g_id s u v lo hi un vn uf :
  sm_merge_phase_g merge_enemies s u v lo hi un vn uf = sm_merge_phase s u v lo hi un vn uf.
Proof. reflexivity. Qed.
Lemma sm_try_merge_g_id s a b : sm_try_merge_g merge_enemies s a b = sm_try_merge s a b.
Proof. reflexivity. Qed.

Section Congruence.
  Variables me1 me2 : merge_fn.
  Hypothesis Hme : forall u v ws e, me1 u v ws e = me2 u v ws e.

  Lemma sm_merge_phase_g_ext s u v lo hi un vn uf :
    sm_merge_phase_g me1 s u v lo hi un vn uf = sm_merge_phase_g me2 s u v lo hi un vn uf.
  Proof.
    unfold sm_merge_phase_g. destruct (alookup v (sm_enemies s)) as [ws|]; [|reflexivity].
    rewrite Hme. reflexivity.
  Qed.

  Lemma sm_try_merge_g_ext s a b : sm_try_merge_g me1 s a b = sm_try_merge_g me2 s a b.
  Proof.
    unfold sm_try_merge_g, sm_try_merge_ordered_g.
    destruct (uf_find (sm_uf s) a) as [uf1 u1]. destruct (uf_find uf1 b) as [uf2 v1].
    destruct (N.eqb u1 v1); [reflexivity|].
    destruct (match alookup u1 (sm_enemies s) with Some es => memN v1 es | None => false end); [reflexivity|].
    destruct (aget u1 (sm_idx s)) as [iu| |]; cbn [rbind]; try reflexivity.
    destruct (aget v1 (sm_idx s)) as [iv| |]; cbn [rbind]; try reflexivity.
    destruct (if Nat.ltb iu iv then (u1, v1) else (v1, u1)) as [u v].
    destruct (aget u (sm_idx s)) as [ui| |]; cbn [rbind]; try reflexivity.
    destruct (aget u (sm_len s)) as [ul| |]; cbn [rbind]; try reflexivity.
    destruct (aget v (sm_idx s)) as [vi| |]; cbn [rbind]; try reflexivity.
    destruct (aget v (sm_len s)) as [vl| |]; cbn [rbind]; try reflexivity.
    destruct (_ || _); [reflexivity|].
    match goal with
    | |- context [cyc_loop ?a1 ?a2 ?a3 ?a4 ?a5 ?a6 ?a7 ?a8 ?a9] =>
        destruct (cyc_loop a1 a2 a3 a4 a5 a6 a7 a8 a9) as [[found uf3]| |]
    end; cbn [rbind]; try reflexivity.
    destruct found; [reflexivity|]. apply sm_merge_phase_g_ext.
  Qed.

  Lemma pass_g_ext g : forall es st pr, pass_g me1 g es st pr = pass_g me2 g es st pr.
  Proof.
    induction es as [|e r IH]; intros st pr; cbn [pass_g pass]; [reflexivity|].
    destruct (_ || _); [apply IH|].
    destruct (sm_same_set (ps_sm st) (e_src e) (e_dst e)) as [s1 same].
    destruct same; [apply IH|].
    destruct (negb _); [apply IH|].
    destruct (can_connect (ps_colors st) (e_src e) (e_dst e)) as [cm can].
    destruct can; [|apply IH].
    rewrite sm_try_merge_g_ext.
    destruct (sm_try_merge_g me2 s1 (e_src e) (e_dst e)) as [[s2 ok]| |]; cbn [rbind]; [|reflexivity|reflexivity].
    destruct ok; [|apply IH]. destruct (memN _ _); [apply IH|reflexivity].
  Qed.

  Lemma ploop_g_ext g : forall fuel st, ploop_g me1 fuel g st = ploop_g me2 fuel g st.
  Proof.
    induction fuel as [|f IH]; intro st; cbn [ploop_g ploop]; [reflexivity|].
    rewrite pass_g_ext. destruct (pass_g me2 g (g_edges g) st false) as [[st' prog]| |]; cbn [rbind]; [|reflexivity|reflexivity].
    destruct prog; [apply IH|reflexivity].
  Qed.

  Lemma partition_model_g_ext T g : partition_model_g me1 T g = partition_model_g me2 T g.
  Proof.
    unfold partition_model_g. destruct (partition_front T g) as [s0 ap|c| | |];
      [|reflexivity|reflexivity|reflexivity|reflexivity].
    rewrite ploop_g_ext. reflexivity.
  Qed.
End Congruence.

Lemma pass_g_id g : forall es st pr, pass_g merge_enemies g es st pr = pass g es st pr.
Proof.
  induction es as [|e r IH]; intros st pr; cbn [pass_g pass]; [reflexivity|].
  destruct (_ || _); [apply IH|].
  destruct (sm_same_set (ps_sm st) (e_src e) (e_dst e)) as [s1 same].
  destruct same; [apply IH|].
  destruct (negb _); [apply IH|].
  destruct (can_connect (ps_colors st) (e_src e) (e_dst e)) as [cm can].
  destruct can; [|apply IH].
  rewrite sm_try_merge_g_id.
  destruct (sm_try_merge s1 (e_src e) (e_dst e)) as [[s2 ok]| |]; cbn [rbind]; [|reflexivity|reflexivity].
  destruct ok; [|apply IH]. destruct (memN _ _); [apply IH|reflexivity].
Qed.

Lemma ploop_g_id g : forall fuel st, ploop_g merge_enemies fuel g st = ploop fuel g st.
Proof.
  induction fuel as [|f IH]; intro st; cbn [ploop_g ploop]; [reflexivity|].
  rewrite pass_g_id. destruct (pass g (g_edges g) st false) as [[st' prog]| |]; cbn [rbind]; [|reflexivity|reflexivity].
  destruct prog; [apply IH|reflexivity].
Qed.

Lemma partition_model_g_id T g : partition_model_g merge_enemies T g = partition_model T g.
Proof.
  unfold partition_model_g, partition_model. destruct (partition_front T g) as [s0 ap|c| | |];
    [|reflexivity|reflexivity|reflexivity|reflexivity].
  rewrite ploop_g_id. reflexivity.
Qed.

(* ---------------------------------------------------------------- the theorem *)
Theorem partition_model_oracle_independent :
  forall (pi : list N -> list N), (forall l, Permutation (pi l) l) ->
  forall (T : optable) (g : graph), partition_model_o pi T g = partition_model T g.
Proof.
  intros pi Hpi T g. unfold partition_model_o.
  transitivity (partition_model_g merge_enemies T g); [|exact (partition_model_g_id T g)].
  apply (partition_model_g_ext (merge_enemies_o pi) merge_enemies).
  intros u v ws e. unfold merge_enemies_o. apply merge_enemies_perm. apply Hpi.
Qed.
