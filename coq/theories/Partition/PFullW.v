(* C18, all-graphs direction: clauses of WellFormed proved for partition_model's output.
   Each clause is its own theorem:  flat_ok_b T g = true -> partition_model T g = POk p -> Wk p. *)
From Coq Require Import String List NArith Bool Arith Lia Permutation.
From HV Require Import Partition.Base GraphAlg.Model GraphAlg.PUf GraphAlg.PTopo GraphAlg.PSm
                       Partition.Model Partition.PC19 Partition.WF Partition.PWF Partition.Rewrite
                       Partition.Full Partition.PFull.
Import ListNotations.
Open Scope N_scope.
Notation length := List.length.

(* ---------------------------------------------------------------- small facts *)
Lemma number_from_In : forall l i d, In d (number_from i l) -> In (s_nodes d) l.
Proof.
  induction l as [|x l IH]; intros i d H; simpl in H; [contradiction|].
  destruct H as [<-|H]; [left; reflexivity|right; eapply IH; exact H].
Qed.

Lemma number_from_ids : forall l i d, In d (number_from i l) -> i <= s_id d.
Proof.
  induction l as [|x l IH]; intros i d H; simpl in H; [contradiction|].
  destruct H as [<-|H]; [simpl; lia|]. apply IH in H. lia.
Qed.

Lemma number_from_nodup : forall l i, NoDup (map s_id (number_from i l)).
Proof.
  induction l as [|x l IH]; intro i; simpl; constructor; [|apply IH].
  intro H. apply in_map_iff in H. destruct H as (d & E & Hd). apply number_from_ids in Hd. lia.
Qed.

Lemma register_In g1 groups d : In d (register_sgs g1 groups) ->
  In (s_nodes d) groups /\ s_nodes d <> [] /\ existsb (is_hoff g1) (s_nodes d) = false.
Proof.
  unfold register_sgs. intro H. apply number_from_In in H. apply filter_In in H. destruct H as [H1 H2].
  apply andb_true_iff in H2. destruct H2 as [A B]. apply negb_true_iff in A. apply negb_true_iff in B.
  split; [exact H1|]. split; [|exact B]. intro E. rewrite E in A. discriminate.
Qed.

Section MapNodes.
  Variable F : node -> node.
  Hypothesis F_id : forall n, n_id (F n) = n_id n.

  Lemma find_node_map_app : forall ns extra a, In a (map n_id ns) ->
    find_node (map F (ns ++ extra)) a = option_map F (find_node ns a).
  Proof.
    induction ns as [|n ns IH]; intros extra a H; simpl in *; [contradiction|].
    rewrite F_id. destruct (N.eqb_spec (n_id n) a) as [E|E]; [reflexivity|].
    destruct H as [H|H]; [congruence|]. apply IH. exact H.
  Qed.
End MapNodes.

Lemma find_node_app : forall ns extra a, In a (map n_id ns) -> find_node (ns ++ extra) a = find_node ns a.
Proof.
  induction ns as [|n ns IH]; intros extra a H; simpl in *; [contradiction|].
  destruct (N.eqb_spec (n_id n) a) as [E|E]; [reflexivity|].
  destruct H as [H|H]; [congruence|]. apply IH. exact H.
Qed.

Lemma find_node_In ns a : In a (map n_id ns) -> exists n, find_node ns a = Some n /\ In n ns /\ n_id n = a.
Proof.
  induction ns as [|n ns IH]; simpl; intro H; [contradiction|].
  destruct (N.eqb_spec (n_id n) a) as [E|E]; [exists n; auto|].
  destruct H as [H|H]; [congruence|]. destruct (IH H) as (m & A & B & C). exists m. auto.
Qed.

Lemma number_from_surj : forall l i x, In x l -> exists d, In d (number_from i l) /\ s_nodes d = x.
Proof.
  induction l as [|y l IH]; intros i x H; simpl in *; [contradiction|].
  destruct H as [<-|H]; [eexists; split; [left; reflexivity|reflexivity]|].
  destruct (IH (i + 1) x H) as (d & Hd & E). exists d. auto.
Qed.

Lemma NoDup_app_parts {A} (a b : list A) : NoDup (a ++ b) -> NoDup a /\ NoDup b /\ (forall x, In x a -> In x b -> False).
Proof.
  induction a as [|x a IH]; simpl; intro H; [split; [constructor|split; [exact H|intros ? []]]|].
  inversion H as [|? ? Hn Hnd]; subst. destruct (IH Hnd) as (Ha & Hb & Hd).
  split; [constructor; [intro Hi; apply Hn; apply in_or_app; left; exact Hi|exact Ha]|].
  split; [exact Hb|]. intros y [->|Hy] Hyb; [apply Hn; apply in_or_app; right; exact Hyb|eapply Hd; eauto].
Qed.

Lemma NoDup_app_intro {A} (a b : list A) :
  NoDup a -> NoDup b -> (forall x, In x a -> In x b -> False) -> NoDup (a ++ b).
Proof.
  induction a as [|x a IH]; simpl; intros Ha Hb Hd; [exact Hb|].
  inversion Ha as [|? ? Hn Ha']; subst. constructor.
  - intro Hi. apply in_app_or in Hi. destruct Hi as [Hi|Hi]; [exact (Hn Hi)|exact (Hd x (or_introl eq_refl) Hi)].
  - apply IH; auto. intros y Hy. apply Hd. right. exact Hy.
Qed.

Lemma concat_filter_sub {A} (P : list A -> bool) l y : In y (concat (filter P l)) -> In y (concat l).
Proof.
  intro Hy. apply in_concat in Hy. destruct Hy as (z & Hz & Hyz). apply filter_In in Hz.
  apply in_concat. exists z. tauto.
Qed.

Lemma NoDup_concat_filter {A} (P : list A -> bool) : forall l, NoDup (concat l) -> NoDup (concat (filter P l)).
Proof.
  induction l as [|x l IH]; simpl; intro H; [constructor|].
  destruct (NoDup_app_parts _ _ H) as (Hx & Hl & Hd). destruct (P x); [|apply IH; exact Hl].
  simpl. apply NoDup_app_intro; [exact Hx|apply IH; exact Hl|].
  intros y Hy Hc. apply (Hd y Hy). eapply concat_filter_sub. exact Hc.
Qed.

Lemma NoDup_concat_elem {A} : forall (l : list (list A)) x, NoDup (concat l) -> In x l -> NoDup x.
Proof.
  induction l as [|y l IH]; simpl; intros x H Hx; [contradiction|].
  destruct (NoDup_app_parts _ _ H) as (Hy & Hl & _). destruct Hx as [<-|Hx]; [exact Hy|eapply IH; eauto].
Qed.

(* subgraphs numbered from a duplicate-free tiling are pairwise disjoint *)
Lemma number_from_disjoint : forall l i d d' m, NoDup (concat l) ->
  In d (number_from i l) -> In d' (number_from i l) -> In m (s_nodes d) -> In m (s_nodes d') -> d = d'.
Proof.
  induction l as [|x l IH]; intros i d d' m H Hd Hd' Hm Hm'; simpl in *; [contradiction|].
  destruct (NoDup_app_parts _ _ H) as (Hx & Hl & Hdis).
  destruct Hd as [<-|Hd]; destruct Hd' as [<-|Hd'].
  - reflexivity.
  - exfalso. simpl in Hm. apply (Hdis m Hm). apply in_concat. exists (s_nodes d'). split; [eapply number_from_In; exact Hd'|exact Hm'].
  - exfalso. simpl in Hm'. apply (Hdis m Hm'). apply in_concat. exists (s_nodes d). split; [eapply number_from_In; exact Hd|exact Hm].
  - eapply IH; eauto.
Qed.

Lemma max_list_ge : forall l x, In x l -> x <= max_list l.
Proof.
  unfold max_list. intros l x. assert (G : forall l a, (a <= fold_left N.max l a) /\ (In x l -> x <= fold_left N.max l a)).
  { induction l0 as [|y l0 IH]; intro a; simpl; [split; [lia|intros []]|].
    destruct (IH (N.max a y)) as [H1 H2]. split; [lia|]. intros [->|H]; [lia|auto]. }
  apply (G l 0).
Qed.

Lemma find_some_first {A} (P : A -> bool) l x : In x l -> P x = true -> exists y, find P l = Some y.
Proof.
  induction l as [|a l IH]; simpl; intros H Hp; [contradiction|].
  destruct (P a) eqn:E; [eexists; reflexivity|]. destruct H as [->|H]; [congruence|auto].
Qed.

Lemma find_by_id_unique sgs d : NoDup (map s_id sgs) -> In d sgs ->
  find (fun d' => N.eqb (s_id d') (s_id d)) sgs = Some d.
Proof.
  induction sgs as [|a l IH]; simpl; intros ND H; [contradiction|].
  inversion ND as [|? ? Hn ND']; subst.
  destruct H as [->|H]; [rewrite N.eqb_refl; reflexivity|].
  destruct (N.eqb_spec (s_id a) (s_id d)) as [E|E]; [|auto].
  exfalso. apply Hn. rewrite E. apply in_map. exact H.
Qed.

(* ---------------------------------------------------------------- the clauses *)
Section Clauses.
  Variables (T : optable) (g p : graph).
  Hypothesis Hok : flat_ok_b T g = true.
  Hypothesis Hp : partition_model T g = POk p.
  Let ks := sort_dedup (node_ids g).

  (* old nodes keep kind, loop and references in the output, and are found under their id *)
  Lemma old_node_of : forall (st : pstate) ist groups topo,
    insert_all (mkIs g (tick_edges T g) (max_list (node_ids g) + 1) (max_list (map e_id (g_edges g)) + 1))
               (ps_hedges st) = ROk ist ->
    p = mkGraph (map (fun n => mkNode (n_id n) (n_kind n) (n_loop n) (n_refs n)
                                      (node_sg (register_sgs (is_g ist) groups) (n_id n))
                                      (mark_node (is_g ist) (Full.is_tick ist) n)) (g_nodes (is_g ist)))
                (g_edges (is_g ist)) (g_loops (is_g ist)) (register_sgs (is_g ist) groups) topo ->
    forall a, In a (node_ids g) ->
      exists n, node_of g a = Some n /\
        node_of p a = Some (mkNode (n_id n) (n_kind n) (n_loop n) (n_refs n)
                                   (node_sg (register_sgs (is_g ist) groups) (n_id n))
                                   (mark_node (is_g ist) (Full.is_tick ist) n)) /\
        node_of (is_g ist) a = Some n.
  Proof.
    intros st ist groups topo Ei Ep a Ha.
    destruct (insert_all_nodes _ _ _ Ei) as (extra & En & _). simpl in En.
    destruct (find_node_In (g_nodes g) a Ha) as (n & Fn & _ & _).
    exists n. split; [exact Fn|]. split.
    - subst p. unfold node_of. simpl. rewrite En.
      rewrite (find_node_map_app
                 (fun n => mkNode (n_id n) (n_kind n) (n_loop n) (n_refs n)
                                  (node_sg (register_sgs (is_g ist) groups) (n_id n))
                                  (mark_node (is_g ist) (Full.is_tick ist) n))
                 (fun n => eq_refl) (g_nodes g) extra a Ha).
      rewrite Fn. reflexivity.
    - unfold node_of. rewrite En. rewrite (find_node_app (g_nodes g) extra a Ha). exact Fn.
  Qed.

  (* W2: one loop context per subgraph *)
  Theorem W2_all : W2 p.
  Proof.
    destruct (model_core T g p Hok Hp) as (st & f & ist & groups & topo & P & Ei & Es & Cg & Fg & Em & Ep).
    intros d Hd a b Ha Hb.
    assert (Hd' : In d (register_sgs (is_g ist) groups)) by (subst p; exact Hd).
    destruct (register_In _ _ _ Hd') as (Hg & _ & _).
    rewrite Forall_forall in Fg. destruct (Fg _ Hg) as (_ & r & Kr & Fr & Hm).
    destruct (proj1 (Hm a) Ha) as [Ka Fa]. destruct (proj1 (Hm b) Hb) as [Kb Fb].
    assert (La : In a (node_ids g)) by (apply In_sort_dedup'; exact Ka).
    assert (Lb : In b (node_ids g)) by (apply In_sort_dedup'; exact Kb).
    destruct (old_node_of st ist groups topo Ei Ep a La) as (na & Ga & Pa & _).
    destruct (old_node_of st ist groups topo Ei Ep b Lb) as (nb & Gb & Pb & _).
    unfold node_loop. rewrite Pa, Pb. simpl.
    pose proof (pi_loop _ _ _ _ P a b Ka Kb ltac:(congruence)) as HL.
    unfold node_loop in HL. rewrite Ga, Gb in HL. exact HL.
  Qed.

  (* W1: every operator in exactly one subgraph, handoffs in none; subgraphs are non-empty
     duplicate-free lists of operators that point back to them *)
  Theorem W1_all : W1 p.
  Proof.
    destruct (model_core T g p Hok Hp) as (st & f & ist & groups & topo & P & Ei & Es & Cg & Fg & Em & Ep).
    destruct (ok_parts T g Hok) as (ND & _ & _ & _ & NoMod).
    destruct (insert_all_nodes _ _ _ Ei) as (extra & En & _ & Fex & _ & NDex). simpl in En, Fex.
    set (sgs := register_sgs (is_g ist) groups) in *.
    assert (I := pi_sm _ _ _ _ P).
    assert (NDo : NoDup (concat groups)) by (rewrite Cg; exact (inv_nodup _ _ _ _ _ I)).
    assert (NDs : NoDup (map s_id sgs)) by (unfold sgs, register_sgs; apply number_from_nodup).
    assert (Pn : g_nodes p = map (fun n => mkNode (n_id n) (n_kind n) (n_loop n) (n_refs n)
                                      (node_sg sgs (n_id n)) (mark_node (is_g ist) (Full.is_tick ist) n))
                                 (g_nodes g ++ extra)) by (subst p; simpl; rewrite En; reflexivity).
    assert (Ps : g_sgs p = sgs) by (subst p; reflexivity).
    assert (Pids : node_ids p = node_ids g ++ map n_id extra).
    { unfold node_ids. rewrite Pn, map_map, map_app. reflexivity. }
    (* members of registered subgraphs are old nodes of one class and are not handoffs *)
    assert (Hsg : forall d, In d sgs -> exists r, In r ks /\ f r = r /\
                    (forall x, In x (s_nodes d) <-> (In x ks /\ f x = r)) /\
                    existsb (is_hoff (is_g ist)) (s_nodes d) = false /\ s_nodes d <> []).
    { intros d Hd. destruct (register_In _ _ _ Hd) as (Hg & Hne & Hh).
      rewrite Forall_forall in Fg. destruct (Fg _ Hg) as (_ & r & Kr & Fr & Hm). exists r. auto. }
    assert (Hold : forall a, In a (node_ids g) -> is_hoff (is_g ist) a = is_hoff g a).
    { intros a Ha. destruct (old_node_of st ist groups topo Ei Ep a Ha) as (n & Ga & _ & G1).
      unfold is_hoff. rewrite Ga, G1. reflexivity. }
    assert (Fresh : forall n, In n extra -> ~ In (n_id n) (node_ids g)).
    { intros n Hn Hin. rewrite Forall_forall in Fex. destruct (Fex n Hn) as [_ [Hlo _]].
      pose proof (max_list_ge _ _ Hin). lia. }
    split; [|split; [|split]].
    - rewrite Pids. apply NoDup_app_intro; [exact ND|exact NDex|].
      intros x Hx Hx'. apply in_map_iff in Hx'. destruct Hx' as (n & <- & Hn). exact (Fresh n Hn Hx).
    - rewrite Ps. exact NDs.
    - intros n' Hn'. rewrite Pn in Hn'. apply in_map_iff in Hn'. destruct Hn' as (n & <- & Hn).
      unfold member_node. cbn [n_kind n_sg n_id]. apply in_app_or in Hn. destruct Hn as [Hn|Hn].
      + assert (Hid : In (n_id n) (node_ids g)) by (apply in_map; exact Hn).
        assert (Kn : In (n_id n) ks) by (apply In_sort_dedup'; exact Hid).
        assert (Gn : node_of g (n_id n) = Some n).
        { destruct (find_node_In (g_nodes g) (n_id n) Hid) as (m & Fm & Hm & Em').
          unfold node_of. rewrite Fm. f_equal.
          (* ids are unique *)
          clear - ND Hn Hm Em'. unfold node_ids in ND. induction (g_nodes g) as [|a l IH]; [contradiction|].
          simpl in ND. inversion ND as [|? ? Hni ND']; subst.
          destruct Hn as [->|Hn]; destruct Hm as [->|Hm]; auto.
          - exfalso. apply Hni. rewrite <- Em'. apply in_map. exact Hm.
          - exfalso. apply Hni. rewrite Em'. apply in_map. exact Hn. }
        destruct (n_kind n) eqn:Kd.
        * (* operator: its class is registered *)
          assert (Ho : In (n_id n) (concat groups)).
          { rewrite Cg. eapply Permutation_in; [apply Permutation_sym; exact (inv_perm _ _ _ _ _ I)|exact Kn]. }
          apply in_concat in Ho. destruct Ho as (grp & Hg & Hin).
          rewrite Forall_forall in Fg. destruct (Fg _ Hg) as (Hne & r & Kr & Fr & Hm).
          assert (Hnh : existsb (is_hoff (is_g ist)) grp = false).
          { destruct (existsb (is_hoff (is_g ist)) grp) eqn:Ex; [|reflexivity]. exfalso.
            apply existsb_exists in Ex. destruct Ex as (y & Hy & Hyh).
            destruct (proj1 (Hm y) Hy) as [Ky Fy]. destruct (proj1 (Hm _) Hin) as [_ Fn'].
            rewrite (Hold y) in Hyh by (apply In_sort_dedup'; exact Ky).
            assert (n_id n = y) by (apply (pi_hoff _ _ _ _ P y (n_id n) Ky Kn Hyh); congruence).
            subst y. unfold is_hoff in Hyh. rewrite Gn, Kd in Hyh. discriminate. }
          assert (Hf : In grp (filter (fun ns => negb (Nat.eqb (length ns) 0) && negb (existsb (is_hoff (is_g ist)) ns)) groups)).
          { apply filter_In. split; [exact Hg|]. rewrite Hnh. destruct grp; [congruence|reflexivity]. }
          destruct (number_from_surj _ 1 grp Hf) as (d & Hd & Ed).
          assert (Hd' : In d sgs) by exact Hd.
          destruct (find_some_first (fun d' => memN (n_id n) (s_nodes d')) sgs d Hd'
                      ltac:(apply memN_In'; rewrite Ed; exact Hin)) as (d1 & F1).
          pose proof (find_some _ _ F1) as [Hd1 Hm1]. apply memN_In' in Hm1.
          exists (s_id d1). unfold node_sg. rewrite F1. split; [reflexivity|]. split.
          -- unfold sg_nodes. rewrite Ps. rewrite (find_by_id_unique sgs d1 NDs Hd1). exact Hm1.
          -- rewrite Ps. apply in_map. exact Hd1.
        * (* user handoff: in no subgraph *)
          unfold node_sg. destruct (find (fun d => memN (n_id n) (s_nodes d)) sgs) as [d|] eqn:Fd; [|reflexivity].
          exfalso. pose proof (find_some _ _ Fd) as [Hd Hm]. apply memN_In' in Hm.
          destruct (Hsg d Hd) as (r & _ & _ & _ & Hh & _).
          assert (existsb (is_hoff (is_g ist)) (s_nodes d) = true).
          { apply existsb_exists. exists (n_id n). split; [exact Hm|]. rewrite (Hold _ Hid).
            unfold is_hoff. rewrite Gn, Kd. reflexivity. }
          congruence.
        * exfalso. exact (NoMod n Hn Kd).
      + (* inserted handoff *)
        rewrite Forall_forall in Fex. destruct (Fex n Hn) as [(Kh & _) _]. rewrite Kh.
        unfold node_sg. destruct (find (fun d => memN (n_id n) (s_nodes d)) sgs) as [d|] eqn:Fd; [|reflexivity].
        exfalso. pose proof (find_some _ _ Fd) as [Hd Hm]. apply memN_In' in Hm.
        destruct (Hsg d Hd) as (r & _ & _ & Hmem & _ & _).
        destruct (proj1 (Hmem _) Hm) as [Kx _]. apply (Fresh n Hn). apply In_sort_dedup'. exact Kx.
    - intros d Hd. rewrite Ps in Hd. destruct (Hsg d Hd) as (r & Kr & Fr & Hmem & Hh & Hne).
      destruct (register_In _ _ _ Hd) as (Hg & _ & _).
      unfold member_sg. split; [eapply NoDup_concat_elem; eauto|]. split; [exact Hne|].
      intros m Hm. destruct (proj1 (Hmem m) Hm) as [Km Fm].
      assert (Hid : In m (node_ids g)) by (apply In_sort_dedup'; exact Km).
      destruct (old_node_of st ist groups topo Ei Ep m Hid) as (n & Gm & Pm & G1).
      assert (Kop : exists nm, n_kind n = KOp nm).
      { destruct (n_kind n) eqn:Kd; [eexists; reflexivity| |].
        - exfalso. assert (existsb (is_hoff (is_g ist)) (s_nodes d) = true).
          { apply existsb_exists. exists m. split; [exact Hm|]. unfold is_hoff. rewrite G1, Kd. reflexivity. }
          congruence.
        - exfalso. unfold node_of in Gm.
          assert (In n (g_nodes g)).
          { clear - Gm. induction (g_nodes g) as [|a l IH]; simpl in Gm; [discriminate|].
            destruct (N.eqb (n_id a) m); [injection Gm as <-; left; reflexivity|right; auto]. }
          exact (NoMod n H Kd). }
      destruct Kop as [nm Kd]. split.
      + unfold is_op. rewrite Pm. cbn [n_kind]. rewrite Kd. reflexivity.
      + assert (Nid : n_id n = m).
        { unfold node_of in Gm. clear - Gm. induction (g_nodes g) as [|a l IH]; simpl in Gm; [discriminate|].
          destruct (N.eqb_spec (n_id a) m); [injection Gm as <-; assumption|auto]. }
        assert (Hns : node_sg sgs m = Some (s_id d)).
        { unfold node_sg.
          destruct (find_some_first (fun d' => memN m (s_nodes d')) sgs d Hd ltac:(apply memN_In'; exact Hm)) as (d1 & F1).
          rewrite F1. f_equal. pose proof (find_some _ _ F1) as [Hd1 Hm1]. apply memN_In' in Hm1.
          assert (d1 = d).
          { unfold sgs, register_sgs in Hd, Hd1. eapply number_from_disjoint; [|exact Hd1|exact Hd|exact Hm1|exact Hm].
            apply NoDup_concat_filter. exact NDo. }
          congruence. }
        unfold sg_of. rewrite Pm. cbn [n_sg n_id]. rewrite Nid. exact Hns.
  Qed.
End Clauses.
