(* C18, all-graphs direction: clauses of WellFormed proved for partition_model's output.
   Each clause is its own theorem:  flat_ok_b T g = true -> partition_model T g = POk p -> Wk p. *)
From Coq Require Import String List NArith Bool Arith Lia Permutation.
From HV Require Import Partition.Base GraphAlg.Model GraphAlg.PUf GraphAlg.PTopo GraphAlg.PSm
                       Partition.Model Partition.PC19 Partition.WF Partition.PWF Partition.Rewrite
                       Partition.Full Partition.PFull.
Import ListNotations.
Open Scope N_scope.
Notation length := List.length.

(* ---------------------------------------------------------------- small facts *)
Lemma number_from_In : forall l i d, In d (number_from i l) -> In (s_nodes d) l.
Proof.
  induction l as [|x l IH]; intros i d H; simpl in H; [contradiction|].
  destruct H as [<-|H]; [left; reflexivity|right; eapply IH; exact H].
Qed.

Lemma number_from_ids : forall l i d, In d (number_from i l) -> i <= s_id d.
Proof.
  induction l as [|x l IH]; intros i d H; simpl in H; [contradiction|].
  destruct H as [<-|H]; [simpl; lia|]. apply IH in H. lia.
Qed.

Lemma number_from_nodup : forall l i, NoDup (map s_id (number_from i l)).
Proof.
  induction l as [|x l IH]; intro i; simpl; constructor; [|apply IH].
  intro H. apply in_map_iff in H. destruct H as (d & E & Hd). apply number_from_ids in Hd. lia.
Qed.

Lemma register_In g1 groups d : In d (register_sgs g1 groups) ->
  In (s_nodes d) groups /\ s_nodes d <> [] /\ existsb (is_hoff g1) (s_nodes d) = false.
Proof.
  unfold register_sgs. intro H. apply number_from_In in H. apply filter_In in H. destruct H as [H1 H2].
  apply andb_true_iff in H2. destruct H2 as [A B]. apply negb_true_iff in A. apply negb_true_iff in B.
  split; [exact H1|]. split; [|exact B]. intro E. rewrite E in A. discriminate.
Qed.

Section MapNodes.
  Variable F : node -> node.
  Hypothesis F_id : forall n, n_id (F n) = n_id n.

  Lemma find_node_map_app : forall ns extra a, In a (map n_id ns) ->
    find_node (map F (ns ++ extra)) a = option_map F (find_node ns a).
  Proof.
    induction ns as [|n ns IH]; intros extra a H; simpl in *; [contradiction|].
    rewrite F_id. destruct (N.eqb_spec (n_id n) a) as [E|E]; [reflexivity|].
    destruct H as [H|H]; [congruence|]. apply IH. exact H.
  Qed.
End MapNodes.

Lemma find_node_app : forall ns extra a, In a (map n_id ns) -> find_node (ns ++ extra) a = find_node ns a.
Proof.
  induction ns as [|n ns IH]; intros extra a H; simpl in *; [contradiction|].
  destruct (N.eqb_spec (n_id n) a) as [E|E]; [reflexivity|].
  destruct H as [H|H]; [congruence|]. apply IH. exact H.
Qed.

Lemma find_node_In ns a : In a (map n_id ns) -> exists n, find_node ns a = Some n /\ In n ns /\ n_id n = a.
Proof.
  induction ns as [|n ns IH]; simpl; intro H; [contradiction|].
  destruct (N.eqb_spec (n_id n) a) as [E|E]; [exists n; auto|].
  destruct H as [H|H]; [congruence|]. destruct (IH H) as (m & A & B & C). exists m. auto.
Qed.

(* ---------------------------------------------------------------- the clauses *)
Section Clauses.
  Variables (T : optable) (g p : graph).
  Hypothesis Hok : flat_ok_b T g = true.
  Hypothesis Hp : partition_model T g = POk p.
  Let ks := sort_dedup (node_ids g).

  (* old nodes keep kind, loop and references in the output, and are found under their id *)
  Lemma old_node_of : forall (st : pstate) ist groups topo,
    insert_all (mkIs g (tick_edges T g) (max_list (node_ids g) + 1) (max_list (map e_id (g_edges g)) + 1))
               (ps_hedges st) = ROk ist ->
    p = mkGraph (map (fun n => mkNode (n_id n) (n_kind n) (n_loop n) (n_refs n)
                                      (node_sg (register_sgs (is_g ist) groups) (n_id n))
                                      (mark_node (is_g ist) (Full.is_tick ist) n)) (g_nodes (is_g ist)))
                (g_edges (is_g ist)) (g_loops (is_g ist)) (register_sgs (is_g ist) groups) topo ->
    forall a, In a (node_ids g) ->
      exists n, node_of g a = Some n /\
        node_of p a = Some (mkNode (n_id n) (n_kind n) (n_loop n) (n_refs n)
                                   (node_sg (register_sgs (is_g ist) groups) (n_id n))
                                   (mark_node (is_g ist) (Full.is_tick ist) n)) /\
        node_of (is_g ist) a = Some n.
  Proof.
    intros st ist groups topo Ei Ep a Ha.
    destruct (insert_all_nodes _ _ _ Ei) as (extra & En & _). simpl in En.
    destruct (find_node_In (g_nodes g) a Ha) as (n & Fn & _ & _).
    exists n. split; [exact Fn|]. split.
    - subst p. unfold node_of. simpl. rewrite En.
      rewrite (find_node_map_app
                 (fun n => mkNode (n_id n) (n_kind n) (n_loop n) (n_refs n)
                                  (node_sg (register_sgs (is_g ist) groups) (n_id n))
                                  (mark_node (is_g ist) (Full.is_tick ist) n))
                 (fun n => eq_refl) (g_nodes g) extra a Ha).
      rewrite Fn. reflexivity.
    - unfold node_of. rewrite En. rewrite (find_node_app (g_nodes g) extra a Ha). exact Fn.
  Qed.

  (* W2: one loop context per subgraph *)
  Theorem W2_all : W2 p.
  Proof.
    destruct (model_core T g p Hok Hp) as (st & f & ist & groups & topo & P & Ei & Es & Cg & Fg & Em & Ep).
    intros d Hd a b Ha Hb.
    assert (Hd' : In d (register_sgs (is_g ist) groups)) by (subst p; exact Hd).
    destruct (register_In _ _ _ Hd') as (Hg & _ & _).
    rewrite Forall_forall in Fg. destruct (Fg _ Hg) as (_ & r & Kr & Fr & Hm).
    destruct (proj1 (Hm a) Ha) as [Ka Fa]. destruct (proj1 (Hm b) Hb) as [Kb Fb].
    assert (La : In a (node_ids g)) by (apply In_sort_dedup'; exact Ka).
    assert (Lb : In b (node_ids g)) by (apply In_sort_dedup'; exact Kb).
    destruct (old_node_of st ist groups topo Ei Ep a La) as (na & Ga & Pa & _).
    destruct (old_node_of st ist groups topo Ei Ep b Lb) as (nb & Gb & Pb & _).
    unfold node_loop. rewrite Pa, Pb. simpl.
    pose proof (pi_loop _ _ _ _ P a b Ka Kb ltac:(congruence)) as HL.
    unfold node_loop in HL. rewrite Ga, Gb in HL. exact HL.
  Qed.
End Clauses.
