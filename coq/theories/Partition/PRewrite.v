(* C20 proofs: remove_intermediate_node is the contraction of the removed node. *)
From Coq Require Import List String NArith Bool Arith.
From HV Require Import Partition.Base GraphAlg.Model Partition.Model Partition.Rewrite.
Import ListNotations.
Open Scope N_scope.

Theorem remove_mid_contracts : forall es n k es',
  remove_mid es n k = Some es' -> map wire_of es' = contract es n.
Proof.
  intros es n k es' H. unfold remove_mid in H. unfold contract.
  destruct (ins es n) as [|i [|i' ri]]; try discriminate.
  destruct (outs es n) as [|o [|o' ro]]; try discriminate.
  destruct (N.eqb (e_src i) n); [discriminate|].
  injection H as <-. rewrite map_app. simpl. reflexivity.
Qed.

(* the surviving wires are exactly the wires that do not touch n, and the new wire joins the
   unique producer's output port with the unique consumer's input port *)
Theorem remove_mid_spec : forall es n k es',
  remove_mid es n k = Some es' ->
  exists i o, ins es n = [i] /\ outs es n = [o] /\ e_src i <> n /\
    map wire_of es' = map wire_of (others es n) ++ [(e_src i, e_sport i, e_dst o, e_dport o)].
Proof.
  intros es n k es' H. unfold remove_mid in H.
  destruct (ins es n) as [|i [|i' ri]]; try discriminate.
  destruct (outs es n) as [|o [|o' ro]]; try discriminate.
  destruct (N.eqb_spec (e_src i) n) as [E|E]; [discriminate|].
  injection H as <-. exists i, o. repeat split; auto. rewrite map_app. reflexivity.
Qed.

(* no pass-through nodes: the end-to-end wiring is the wiring *)
Lemma through_nil g : through g [] = wires g.
Proof.
  unfold through, wires. induction (g_edges g) as [|e es IH]; [reflexivity|].
  cbn [flat_map map]. rewrite IH. reflexivity.
Qed.

Lemma port_eqb_refl p : port_eqb p p = true.
Proof.
  destruct p; simpl; auto.
  - rewrite Bool.eqb_reflx, N.eqb_refl. reflexivity.
  - apply String.eqb_refl.
Qed.
