(* C20 proofs: remove_intermediate_node is the contraction of the removed node. *)
From Coq Require Import List String NArith Bool Arith.
From HV Require Import Partition.Base GraphAlg.Model Partition.Model Partition.Rewrite.
Import ListNotations.
Open Scope N_scope.

Theorem remove_mid_contracts : forall es n k es',
  remove_mid es n k = Some es' -> map wire_of es' = contract es n.
Proof.
  intros es n k es' H. unfold remove_mid in H. unfold contract.
  destruct (ins es n) as [|i [|i' ri]]; try discriminate.
  destruct (outs es n) as [|o [|o' ro]]; try discriminate.
  destruct (N.eqb (e_src i) n); [discriminate|].
  injection H as <-. rewrite map_app. simpl. reflexivity.
Qed.

(* the surviving wires are exactly the wires that do not touch n, and the new wire joins the
   unique producer's output port with the unique consumer's input port *)
Theorem remove_mid_spec : forall es n k es',
  remove_mid es n k = Some es' ->
  exists i o, ins es n = [i] /\ outs es n = [o] /\ e_src i <> n /\
    map wire_of es' = map wire_of (others es n) ++ [(e_src i, e_sport i, e_dst o, e_dport o)].
Proof.
  intros es n k es' H. unfold remove_mid in H.
  destruct (ins es n) as [|i [|i' ri]]; try discriminate.
  destruct (outs es n) as [|o [|o' ro]]; try discriminate.
  destruct (N.eqb_spec (e_src i) n) as [E|E]; [discriminate|].
  injection H as <-. exists i, o. repeat split; auto. rewrite map_app. reflexivity.
Qed.

(* no pass-through nodes: the end-to-end wiring is the wiring *)
Lemma through_nil g : through g [] = wires g.
Proof.
  unfold through, wires. induction (g_edges g) as [|e es IH]; [reflexivity|].
  cbn [flat_map map]. rewrite IH. reflexivity.
Qed.

Lemma port_eqb_refl p : port_eqb p p = true.
Proof.
  destruct p; simpl; auto.
  - rewrite Bool.eqb_reflx, N.eqb_refl. reflexivity.
  - apply String.eqb_refl.
Qed.

(* ---------------------------------------------------------------- multi-step statement:
   eliminating a list of single-input single-output nodes one after the other preserves the set of
   end-to-end (source port -> sink port) connections through those nodes. *)
Section Step.
  Variables (es es' : list edge) (n k : N) (R : list N).
  Hypothesis Hrm : remove_mid es n k = Some es'.
  Hypothesis HnR : ~ In n R.

  Lemma step_facts : exists i o,
    ins es n = [i] /\ outs es n = [o] /\ e_src i <> n /\ e_dst o <> n /\
    es' = others es n ++ [mkEdge k (e_src i) (e_dst o) (e_sport i) (e_dport o)].
  Proof.
    unfold remove_mid in Hrm.
    destruct (ins es n) as [|i [|i' ri]] eqn:Ei; try discriminate.
    destruct (outs es n) as [|o [|o' ro]] eqn:Eo; try discriminate.
    destruct (N.eqb_spec (e_src i) n) as [E|E]; [discriminate|].
    injection Hrm as <-. exists i, o. repeat split; auto.
    intro Hd.
    assert (Ho : In o (ins es n)).
    { unfold ins. apply filter_In. split.
      - assert (In o (outs es n)) by (rewrite Eo; left; reflexivity).
        unfold outs in H. apply filter_In in H. tauto.
      - apply N.eqb_eq. exact Hd. }
    rewrite Ei in Ho. destruct Ho as [Ho|[]]. subst o.
    assert (Hi : In i (outs es n)) by (rewrite Eo; left; reflexivity).
    unfold outs in Hi. apply filter_In in Hi. destruct Hi as [_ Hi]. apply N.eqb_eq in Hi. congruence.
  Qed.

  Lemma in_ins_unique i : ins es n = [i] -> forall e, In e es -> e_dst e = n -> e = i.
  Proof.
    intros Ei e He Hd. assert (In e (ins es n)) by (apply filter_In; split; [exact He|apply N.eqb_eq; exact Hd]).
    rewrite Ei in H. destruct H as [H|[]]. congruence.
  Qed.
  Lemma in_outs_unique o : outs es n = [o] -> forall e, In e es -> e_src e = n -> e = o.
  Proof.
    intros Eo e He Hs. assert (In e (outs es n)) by (apply filter_In; split; [exact He|apply N.eqb_eq; exact Hs]).
    rewrite Eo in H. destruct H as [H|[]]. congruence.
  Qed.
  Lemma in_others e : In e (others es n) <-> In e es /\ e_src e <> n /\ e_dst e <> n.
  Proof.
    unfold others. rewrite filter_In. rewrite andb_true_iff, !negb_true_iff, !N.eqb_neq. tauto.
  Qed.

  Lemma route_fwd : forall x q t pt, route es (n :: R) x q t pt ->
    forall i o, ins es n = [i] -> outs es n = [o] -> e_src i <> n -> e_dst o <> n ->
      es' = others es n ++ [mkEdge k (e_src i) (e_dst o) (e_sport i) (e_dport o)] ->
      (x <> n -> route es' R x q t pt) /\ (x = n -> route es' R (e_dst o) (e_dport o) t pt).
  Proof.
    induction 1 as [x q Hx|x q o1 t pt Hx Ho1 Hs Hr IH]; intros i o Ei Eo Hin Hon Hes.
    - split; [intro Hxn; apply route_end; intro H; apply Hx; right; exact H|].
      intro E. exfalso. apply Hx. left. auto.
    - destruct (IH i o Ei Eo Hin Hon Hes) as [IH1 IH2]. split.
      + intro Hxn. assert (HxR : In x R) by (destruct Hx as [Hx|Hx]; [congruence|exact Hx]).
        destruct (N.eq_dec (e_dst o1) n) as [Ed|Ed].
        * assert (o1 = i) by (eapply in_ins_unique; eauto). subst o1.
          apply route_step with (o := mkEdge k (e_src i) (e_dst o) (e_sport i) (e_dport o));
            [exact HxR
            |rewrite Hes; apply in_or_app; right; left; reflexivity
            |simpl; exact Hs
            |simpl; apply IH2; exact Ed].
        * apply route_step with (o := o1);
            [exact HxR
            |rewrite Hes; apply in_or_app; left; apply in_others; repeat split; auto; congruence
            |exact Hs
            |apply IH1; exact Ed].
      + intro E. subst x. assert (o1 = o) by (eapply in_outs_unique; eauto). subst o1.
        apply IH1. exact Hon.
  Qed.

  Lemma route_bwd : forall x q t pt, route es' R x q t pt ->
    forall i o, ins es n = [i] -> outs es n = [o] -> e_src i <> n -> e_dst o <> n ->
      es' = others es n ++ [mkEdge k (e_src i) (e_dst o) (e_sport i) (e_dport o)] ->
      x <> n -> route es (n :: R) x q t pt.
  Proof.
    induction 1 as [x q Hx|x q o1 t pt Hx Ho1 Hs Hr IH]; intros i o Ei Eo Hin Hon Hes Hxn.
    - apply route_end. intros [H|H]; [congruence|contradiction].
    - rewrite Hes in Ho1. apply in_app_or in Ho1. destruct Ho1 as [Ho1|[Ho1|[]]].
      + apply in_others in Ho1. destruct Ho1 as (He & Hsn & Hdn).
        apply route_step with (o := o1); [right; exact Hx|exact He|exact Hs|].
        apply (IH i o); auto.
      + subst o1. simpl in *.
        assert (Hi : In i es).
        { assert (In i (ins es n)) by (rewrite Ei; left; reflexivity). unfold ins in H. apply filter_In in H. tauto. }
        assert (Hid : e_dst i = n).
        { assert (In i (ins es n)) by (rewrite Ei; left; reflexivity). unfold ins in H. apply filter_In in H.
          destruct H as [_ H]. apply N.eqb_eq. exact H. }
        assert (Hoo : In o es /\ e_src o = n).
        { assert (In o (outs es n)) by (rewrite Eo; left; reflexivity). unfold outs in H. apply filter_In in H.
          destruct H as [H1 H2]. apply N.eqb_eq in H2. tauto. }
        destruct Hoo as [Hoe Hos].
        apply route_step with (o := i); [right; exact Hx|exact Hi|exact Hs|].
        rewrite Hid. apply route_step with (o := o); [left; reflexivity|exact Hoe|exact Hos|].
        apply (IH i o); auto.
  Qed.

  Theorem remove_mid_preserves_conn : forall w, conn es (n :: R) w <-> conn es' R w.
  Proof.
    destruct step_facts as (i & o & Ei & Eo & Hin & Hon & Hes).
    intros [[[a pa] t] pt]. unfold conn. split.
    - intros (Ha & e & He & Hs & Hp & Hr).
      assert (Han : a <> n) by (intro E; apply Ha; left; auto).
      split; [intro H; apply Ha; right; exact H|].
      destruct (route_fwd _ _ _ _ Hr i o Ei Eo Hin Hon Hes) as [F1 F2].
      destruct (N.eq_dec (e_dst e) n) as [Ed|Ed].
      + assert (e = i) by (eapply in_ins_unique; eauto). subst e.
        exists (mkEdge k (e_src i) (e_dst o) (e_sport i) (e_dport o)). simpl.
        repeat split; auto. rewrite Hes. apply in_or_app. right. left. reflexivity.
      + exists e. repeat split; auto.
        rewrite Hes. apply in_or_app. left. apply in_others. repeat split; auto. congruence.
    - intros (Ha & e & He & Hs & Hp & Hr).
      rewrite Hes in He. apply in_app_or in He. destruct He as [He|[He|[]]].
      + apply in_others in He. destruct He as (He & Hsn & Hdn).
        split; [intros [H|H]; [congruence|contradiction]|].
        exists e. repeat split; auto. apply (route_bwd _ _ _ _ Hr i o); auto.
      + subst e. simpl in *. subst a pa.
        split; [intros [H|H]; [congruence|contradiction]|].
        assert (Hi : In i es /\ e_dst i = n).
        { assert (In i (ins es n)) by (rewrite Ei; left; reflexivity). unfold ins in H. apply filter_In in H.
          destruct H as [H1 H2]. apply N.eqb_eq in H2. tauto. }
        assert (Hoo : In o es /\ e_src o = n).
        { assert (In o (outs es n)) by (rewrite Eo; left; reflexivity). unfold outs in H. apply filter_In in H.
          destruct H as [H1 H2]. apply N.eqb_eq in H2. tauto. }
        destruct Hi as [Hie Hid]. destruct Hoo as [Hoe Hos].
        exists i. repeat split; auto. rewrite Hid.
        apply route_step with (o := o); [left; reflexivity|exact Hoe|exact Hos|].
        apply (route_bwd _ _ _ _ Hr i o); auto.
  Qed.
End Step.

Lemma conn_nil es w : conn es [] w <-> In w (map wire_of es).
Proof.
  destruct w as [[[a pa] t] pt]. unfold conn. split.
  - intros (_ & e & He & Hs & Hp & Hr). inversion Hr; subst.
    + apply in_map_iff. exists e. split; [|exact He]. unfold wire_of. reflexivity.
    + match goal with H : In _ [] |- _ => destruct H end.
  - intro H. apply in_map_iff in H. destruct H as (e & Hw & He). unfold wire_of in Hw.
    injection Hw as <- <- <- <-. split; [intros []|].
    exists e. repeat split; auto. apply route_end. intros [].
Qed.

(* eliminate_extra_unions_tees (any list of distinct single-in single-out nodes, removed one after
   the other): the wires of the result are exactly the end-to-end connections of the original
   graph through the removed nodes, ports kept at both ends. *)
Theorem elim_preserves_wiring : forall rs es k es',
  NoDup rs -> elim es rs k = Some es' ->
  forall w, In w (map wire_of es') <-> conn es rs w.
Proof.
  induction rs as [|r rs IH]; intros es k es' Hnd He w; simpl in He.
  - injection He as <-. symmetry. apply conn_nil.
  - destruct (remove_mid es r k) as [es1|] eqn:E1; [|discriminate].
    inversion Hnd as [|? ? Hr Hnd']; subst.
    rewrite (IH es1 (k + 1) es' Hnd' He w).
    symmetry. apply (remove_mid_preserves_conn es es1 r k rs E1 Hr).
Qed.

(* ---------------------------------------------------------------- merge_modules, one boundary *)
Theorem remove_mb_preserves_conn : forall es m k es',
  remove_mb es m k = MbOk es' ->
  forall w, In w (map wire_of es') <-> conn_mb es m w.
Proof.
  intros es m k es' H w. unfold remove_mb in H.
  destruct (existsb (fun i => N.eqb (e_src i) m) (ins es m)) eqn:Hself; [discriminate|].
  destruct (_ || _); [discriminate|]. destruct (negb _); [discriminate|].
  injection H as <-. rewrite map_app, in_app_iff. unfold conn_mb. split.
  - intros [Hw|Hw].
    + left. apply in_map_iff in Hw. destruct Hw as (e & Hwe & He).
      unfold others in He. apply filter_In in He. destruct He as [He Hc].
      apply andb_true_iff in Hc. destruct Hc as [H1 H2].
      apply negb_true_iff in H1. apply negb_true_iff in H2. apply N.eqb_neq in H1. apply N.eqb_neq in H2.
      exists e. auto.
    + right. apply in_map_iff in Hw. destruct Hw as (e & Hwe & He).
      apply in_flat_map in He. destruct He as (i & Hi & He).
      apply in_map_iff in He. destruct He as (o & Heo & Ho).
      apply filter_In in Ho. destruct Ho as [Ho Hp].
      unfold ins in Hi. apply filter_In in Hi. destruct Hi as [Hi Hd]. apply N.eqb_eq in Hd.
      unfold outs in Ho. apply filter_In in Ho. destruct Ho as [Ho Hs]. apply N.eqb_eq in Hs.
      exists i, o. repeat split; auto. subst e. unfold wire_of in Hwe. simpl in Hwe. congruence.
  - intros [(e & He & Hs & Hd & Hw)|(i & o & Hi & Ho & Hd & Hs & Hp & Hw)].
    + left. apply in_map_iff. exists e. split; [exact Hw|]. unfold others. apply filter_In. split; [exact He|].
      apply andb_true_iff. split; apply negb_true_iff; apply N.eqb_neq; assumption.
    + right. apply in_map_iff.
      exists (mkEdge k (e_src i) (e_dst o) (e_sport i) (e_dport o)). split; [subst w; reflexivity|].
      apply in_flat_map. exists i. split.
      * unfold ins. apply filter_In. split; [exact Hi|apply N.eqb_eq; exact Hd].
      * apply in_map_iff. exists o. split; [reflexivity|]. apply filter_In. split; [|exact Hp].
        unfold outs. apply filter_In. split; [exact Ho|apply N.eqb_eq; exact Hs].
Qed.

(* the joined wires never touch the boundary: after the removal no edge mentions m *)
Lemma remove_mb_no_m : forall es m k es', remove_mb es m k = MbOk es' ->
  forall e, In e es' -> e_src e <> m /\ e_dst e <> m.
Proof.
  intros es m k es' H e He. unfold remove_mb in H.
  destruct (existsb (fun i => N.eqb (e_src i) m) (ins es m)) eqn:Hself; [discriminate|].
  destruct (_ || _); [discriminate|]. destruct (negb _); [discriminate|].
  injection H as <-. apply in_app_or in He. destruct He as [He|He].
  - unfold others in He. apply filter_In in He. destruct He as [_ Hc].
    apply andb_true_iff in Hc. destruct Hc as [H1 H2].
    apply negb_true_iff in H1. apply negb_true_iff in H2. apply N.eqb_neq in H1. apply N.eqb_neq in H2. auto.
  - apply in_flat_map in He. destruct He as (i & Hi & He).
    apply in_map_iff in He. destruct He as (o & <- & Ho). simpl.
    apply filter_In in Ho. destruct Ho as [Ho _].
    split.
    + intro E. assert (existsb (fun i => N.eqb (e_src i) m) (ins es m) = true).
      { apply existsb_exists. exists i. split; [exact Hi|apply N.eqb_eq; exact E]. }
      congruence.
    + intro E. (* then o is also an in-edge of m whose source is m: a self loop *)
      unfold outs in Ho. apply filter_In in Ho. destruct Ho as [Ho Hs]. apply N.eqb_eq in Hs.
      assert (existsb (fun i => N.eqb (e_src i) m) (ins es m) = true).
      { apply existsb_exists. exists o. split; [|apply N.eqb_eq; exact Hs].
        unfold ins. apply filter_In. split; [exact Ho|apply N.eqb_eq; exact E]. }
      congruence.
Qed.

(* ---------------------------------------------------------------- merge_modules, several boundaries *)
Section MbStep.
  Variables (es es' : list edge) (m k : N) (M : list N).
  Hypothesis Hrm : remove_mb es m k = MbOk es'.
  Hypothesis HmM : ~ In m M.

  Lemma mb_facts :
    (forall i, In i es -> e_dst i = m -> e_src i <> m) /\
    (forall o, In o es -> e_src o = m -> e_dst o <> m) /\
    (forall e, In e es' <->
       (In e es /\ e_src e <> m /\ e_dst e <> m) \/
       (exists i o, In i es /\ In o es /\ e_dst i = m /\ e_src o = m /\ port_eqb (e_sport o) (e_dport i) = true /\
                    e = mkEdge k (e_src i) (e_dst o) (e_sport i) (e_dport o))).
  Proof.
    unfold remove_mb in Hrm.
    destruct (existsb (fun i => N.eqb (e_src i) m) (ins es m)) eqn:Hself; [discriminate|].
    destruct (_ || _); [discriminate|]. destruct (negb _); [discriminate|].
    injection Hrm as <-.
    assert (S1 : forall i, In i es -> e_dst i = m -> e_src i <> m).
    { intros i Hi Hd E. assert (existsb (fun i => N.eqb (e_src i) m) (ins es m) = true).
      { apply existsb_exists. exists i. split; [apply filter_In; split; [exact Hi|apply N.eqb_eq; exact Hd]|apply N.eqb_eq; exact E]. }
      congruence. }
    split; [exact S1|]. split.
    - intros o Ho Hs E. exact (S1 o Ho E Hs).
    - intro e. rewrite in_app_iff. split.
      + intros [H|H].
        * left. unfold others in H. apply filter_In in H. destruct H as [H Hc].
          apply andb_true_iff in Hc. destruct Hc as [A B]. apply negb_true_iff in A. apply negb_true_iff in B.
          apply N.eqb_neq in A. apply N.eqb_neq in B. auto.
        * right. apply in_flat_map in H. destruct H as (i & Hi & H). apply in_map_iff in H. destruct H as (o & <- & Ho).
          apply filter_In in Ho. destruct Ho as [Ho Hp].
          apply filter_In in Hi. destruct Hi as [Hi Hd]. apply N.eqb_eq in Hd.
          apply filter_In in Ho. destruct Ho as [Ho Hs]. apply N.eqb_eq in Hs.
          exists i, o. auto 8.
      + intros [(H & A & B)|(i & o & Hi & Ho & Hd & Hs & Hp & ->)].
        * left. apply filter_In. split; [exact H|]. apply andb_true_iff. split; apply negb_true_iff; apply N.eqb_neq; assumption.
        * right. apply in_flat_map. exists i. split; [apply filter_In; split; [exact Hi|apply N.eqb_eq; exact Hd]|].
          apply in_map_iff. exists o. split; [reflexivity|]. apply filter_In. split; [|exact Hp].
          apply filter_In. split; [exact Ho|apply N.eqb_eq; exact Hs].
  Qed.

  Lemma route_p_fwd : forall x q t pt, route_p es (m :: M) x q t pt ->
    (x <> m -> route_p es' M x q t pt) /\
    (x = m -> forall i, In i es -> e_dst i = m -> e_dport i = q ->
       exists o', In o' es' /\ e_src o' = e_src i /\ e_sport o' = e_sport i /\
                  route_p es' M (e_dst o') (e_dport o') t pt).
  Proof.
    destruct mb_facts as (S1 & S2 & Hes').
    induction 1 as [x q Hx|x q o1 t pt Hx Ho1 Hs Hp Hr IH].
    - split; [intro Hn; apply rp_end; intro H; apply Hx; right; exact H|].
      intro E. exfalso. apply Hx. left. auto.
    - destruct IH as [IH1 IH2]. split.
      + intro Hn. assert (HxM : In x M) by (destruct Hx as [Hx|Hx]; [congruence|exact Hx]).
        destruct (N.eq_dec (e_dst o1) m) as [Ed|Ed].
        * destruct (IH2 Ed o1 Ho1 Ed eq_refl) as (o' & Ho' & A & B & R).
          apply rp_step with (o := o'); [exact HxM|exact Ho'|congruence|rewrite B; exact Hp|exact R].
        * apply rp_step with (o := o1); [exact HxM| |exact Hs|exact Hp|apply IH1; exact Ed].
          apply Hes'. left. split; [exact Ho1|]. split; [congruence|exact Ed].
      + intros E i Hi Hd Hq. subst x.
        assert (Ed : e_dst o1 <> m) by (apply S2; auto).
        exists (mkEdge k (e_src i) (e_dst o1) (e_sport i) (e_dport o1)). simpl. split.
        * apply Hes'. right. exists i, o1. repeat split; auto. rewrite Hq. exact Hp.
        * split; [reflexivity|]. split; [reflexivity|]. apply IH1. exact Ed.
  Qed.

  Lemma route_p_bwd : forall x q t pt, route_p es' M x q t pt -> x <> m -> route_p es (m :: M) x q t pt.
  Proof.
    destruct mb_facts as (S1 & S2 & Hes').
    induction 1 as [x q Hx|x q o1 t pt Hx Ho1 Hs Hp Hr IH]; intro Hn.
    - apply rp_end. intros [H|H]; [congruence|contradiction].
    - apply Hes' in Ho1. destruct Ho1 as [(Ho & A & B)|(i & o & Hi & Ho & Hd & Hso & Hpo & ->)].
      + apply rp_step with (o := o1); [right; exact Hx|exact Ho|exact Hs|exact Hp|].
        apply IH. exact B.
      + simpl in *. apply rp_step with (o := i); [right; exact Hx|exact Hi|exact Hs|exact Hp|].
        rewrite Hd. apply rp_step with (o := o); [left; reflexivity|exact Ho|exact Hso|exact Hpo|].
        apply IH. apply S2; auto.
  Qed.

  Theorem remove_mb_preserves_conn_p : forall w, conn_p es (m :: M) w <-> conn_p es' M w.
  Proof.
    destruct mb_facts as (S1 & S2 & Hes').
    intros [[[a pa] t] pt]. unfold conn_p. split.
    - intros (Ha & e & He & Hs & Hp & Hr).
      assert (Han : a <> m) by (intro E; apply Ha; left; auto).
      split; [intro H; apply Ha; right; exact H|].
      destruct (route_p_fwd _ _ _ _ Hr) as [F1 F2].
      destruct (N.eq_dec (e_dst e) m) as [Ed|Ed].
      + destruct (F2 Ed e He Ed eq_refl) as (o' & Ho' & A & B & R). exists o'. repeat split; auto; congruence.
      + exists e. repeat split; auto. apply Hes'. left. split; [exact He|]. split; [congruence|exact Ed].
    - intros (Ha & e & He & Hs & Hp & Hr).
      apply Hes' in He. destruct He as [(He & A & B)|(i & o & Hi & Ho & Hd & Hso & Hpo & ->)].
      + split; [intros [H|H]; [congruence|contradiction]|].
        exists e. repeat split; auto. apply route_p_bwd; auto.
      + simpl in *. subst a pa. split; [intros [H|H]; [exact (S1 i Hi Hd (eq_sym H))|contradiction]|].
        exists i. repeat split; auto. rewrite Hd.
        apply rp_step with (o := o); [left; reflexivity|exact Ho|exact Hso|exact Hpo|].
        apply route_p_bwd; [exact Hr|]. apply S2; auto.
  Qed.
End MbStep.

Lemma conn_p_nil es w : conn_p es [] w <-> In w (map wire_of es).
Proof.
  destruct w as [[[a pa] t] pt]. unfold conn_p. split.
  - intros (_ & e & He & Hs & Hp & Hr). inversion Hr; subst.
    + apply in_map_iff. exists e. split; [|exact He]. unfold wire_of. reflexivity.
    + match goal with H : In _ [] |- _ => destruct H end.
  - intro H. apply in_map_iff in H. destruct H as (e & Hw & He). unfold wire_of in Hw.
    injection Hw as <- <- <- <-. split; [intros []|].
    exists e. repeat split; auto. apply rp_end. intros [].
Qed.

(* merge_modules over any list of distinct module boundaries: the wires of the result are exactly
   the end-to-end connections of the original graph through the boundaries, matched port by port *)
Theorem merge_mbs_preserves_wiring : forall ms es k es',
  NoDup ms -> merge_mbs es ms k = MbOk es' ->
  forall w, In w (map wire_of es') <-> conn_p es ms w.
Proof.
  induction ms as [|m ms IH]; intros es k es' Hnd He w; simpl in He.
  - injection He as <-. symmetry. apply conn_p_nil.
  - destruct (remove_mb es m k) as [es1| |] eqn:E1; try discriminate.
    inversion Hnd as [|? ? Hm Hnd']; subst.
    rewrite (IH es1 (k + 1) es' Hnd' He w).
    symmetry. apply (remove_mb_preserves_conn_p es es1 m k ms E1 Hm).
Qed.
