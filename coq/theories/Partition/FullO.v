(* C42, whole model: the partition model with the iteration order of the one hash-ordered
   container that is ITERATED (SubgraphMerge::try_merge, `for w in self.enemies.remove(v)...`)
   supplied by an arbitrary ORDER ORACLE.  Definitions only; the independence theorem is in
   POracle.v.  The functions below are copies of GraphAlg.Model.{sm_merge_phase,
   sm_try_merge_ordered, sm_try_merge} and of Partition.Full.{pass, ploop, partition_model}
   in which the enemy-merge loop is a parameter [me]; [me := merge_enemies] gives back the
   originals definitionally (POracle.v: *_g_id lemmas are proved by reflexivity). *)
From Coq Require Import List String NArith Bool Arith.
From HV Require Import Partition.Base GraphAlg.Model Partition.Model Partition.WF Partition.Rewrite Partition.Full.
Import ListNotations.
Open Scope N_scope.

Definition emap' := list (N * list N).
Definition merge_fn := N -> N -> list N -> emap' -> res emap'.

Section Generic.
  Variable me : merge_fn.

  Definition sm_merge_phase_g (s : sm) (u v : N) (lo hi : nat) (u_nodes v_nodes : list N) (uf3 : links)
    : res (sm * bool) :=
    let order := sm_order s in
    let '(uf4, new_root) := uf_union uf3 u v in
    if negb (N.eqb u new_root) then RPanic else
    v_preds <- aget v (sm_preds s) ;;
    let preds1 := aremove v (sm_preds s) in
    u_preds <- aget u preds1 ;;
    let '(retained, uf5) := retain_find u (u_preds ++ v_preds) uf4 in
    let preds2 := aset u (sort_dedup retained) preds1 in
    _vi <- aget v (sm_idx s) ;;
    let idx1 := aremove v (sm_idx s) in
    v_len' <- aget v (sm_len s) ;;
    let len1 := aremove v (sm_len s) in
    u_len' <- aget u len1 ;;
    let len2 := aset u (u_len' + v_len')%nat len1 in
    enemies2 <- match alookup v (sm_enemies s) with
                | None => ROk (sm_enemies s)
                | Some ws => me u v ws (aremove v (sm_enemies s))
                end ;;
    if Nat.ltb (List.length order) hi then RPanic else
    let '(reps, uf6) := find_all (slice order lo (hi - lo)) uf5 in
    let reps_in_window := sort_dedup reps in
    if negb (window_preds_defined preds2 idx1 uf6 reps_in_window) then RPanic else
    match topo_sort_fuel (window_preds preds2 idx1 uf6 lo hi) (S (List.length reps_in_window)) reps_in_window with
    | TFuel => RFuel
    | TErr _ => RPanic
    | TOk sorted_groups =>
        buf <- rebuild sorted_groups u u_nodes v_nodes order idx1 len2 ;;
        if negb (Nat.eqb (List.length buf) (hi - lo)) then RPanic else
        let order' := firstn lo order ++ buf ++ skipn hi order in
        '(idx2, pos) <- reindex sorted_groups lo idx1 len2 ;;
        if negb (Nat.eqb hi pos) then RPanic else
        ROk (mkSm preds2 order' idx2 len2 uf6 enemies2, true)
    end.

  Definition sm_try_merge_ordered_g (s : sm) (u v : N) (uf2 : links) : res (sm * bool) :=
    u_idx <- aget u (sm_idx s) ;; u_len <- aget u (sm_len s) ;;
    v_idx <- aget v (sm_idx s) ;; v_len <- aget v (sm_len s) ;;
    let order := sm_order s in
    if Nat.ltb (List.length order) (u_idx + u_len) || Nat.ltb (List.length order) (v_idx + v_len)
    then RPanic else
    let u_nodes := slice order u_idx u_len in
    let v_nodes := slice order v_idx v_len in
    let lo := u_idx in
    let hi := (v_idx + v_len)%nat in
    '(found, uf3) <- cyc_loop s u v lo hi (S (List.length (sm_idx s))) [v] [v] uf2 ;;
    if (found : bool) then ROk (with_uf s uf3, false) else
    sm_merge_phase_g s u v lo hi u_nodes v_nodes uf3.

  Definition sm_try_merge_g (s : sm) (u0 v0 : N) : res (sm * bool) :=
    let '(uf1, u1) := uf_find (sm_uf s) u0 in
    let '(uf2, v1) := uf_find uf1 v0 in
    if N.eqb u1 v1 then ROk (with_uf s uf2, true) else
    if match alookup u1 (sm_enemies s) with Some es => memN v1 es | None => false end
    then ROk (with_uf s uf2, false) else
    iu <- aget u1 (sm_idx s) ;;
    iv <- aget v1 (sm_idx s) ;;
    let '(u, v) := if Nat.ltb iu iv then (u1, v1) else (v1, u1) in
    sm_try_merge_ordered_g s u v uf2.

  Fixpoint pass_g (g : graph) (es : list edge) (st : pstate) (progress : bool) : res (pstate * bool) :=
    match es with
    | [] => ROk (st, progress)
    | e :: r =>
        let src := e_src e in
        let dst := e_dst e in
        if is_hoff g src || is_hoff g dst
        then pass_g g r (mkPs (ps_sm st) (ps_colors st) (sremove (e_id e) (ps_hedges st))) progress
        else
          let '(s1, same) := sm_same_set (ps_sm st) src dst in
          if (same : bool) then pass_g g r (mkPs s1 (ps_colors st) (ps_hedges st)) progress
          else if negb (optN_eqb (node_loop g src) (node_loop g dst))
          then pass_g g r (mkPs s1 (ps_colors st) (ps_hedges st)) progress
          else
            let '(cm, can) := can_connect (ps_colors st) src dst in
            if (can : bool) then
              '(s2, ok) <- sm_try_merge_g s1 src dst ;;
              if (ok : bool) then
                if memN (e_id e) (ps_hedges st)
                then pass_g g r (mkPs s2 cm (sremove (e_id e) (ps_hedges st))) true
                else RPanic
              else pass_g g r (mkPs s2 cm (ps_hedges st)) progress
            else pass_g g r (mkPs s1 cm (ps_hedges st)) progress
    end.

  Fixpoint ploop_g (fuel : nat) (g : graph) (st : pstate) : res pstate :=
    match fuel with
    | O => RFuel
    | S f => '(st', prog) <- pass_g g (g_edges g) st false ;;
             if (prog : bool) then ploop_g f g st' else ROk st'
    end.

  Definition partition_model_g (T : optable) (g : graph) : pres :=
    match partition_front T g with
    | FCycle c => PCycle c
    | FPanicAccess | FPanicEnemy => PPanic
    | FFuel => PFuel
    | FOk s0 _ =>
        let st0 := mkPs s0 (colors0 g) (sort_dedup (map e_id (g_edges g))) in
        of_res (ploop_g (S (S (List.length (g_edges g)))) g st0) (fun st =>
        let ist0 := mkIs g (tick_edges T g) (max_list (node_ids g) + 1) (max_list (map e_id (g_edges g)) + 1) in
        of_res (insert_all ist0 (ps_hedges st)) (fun ist =>
        let g1 := is_g ist in
        of_res (sm_subgraphs (ps_sm st)) (fun groups =>
        let sgs := register_sgs g1 groups in
        let flat := map s_id sgs in
        of_res (make_loops_contiguous g1 sgs flat) (fun topo =>
        match validate_topo_sort (flat_map (sgs_nodes sgs) topo) (valid_preds g1 (is_tick ist)) with
        | VOk =>
            let nodes' := map (fun n => mkNode (n_id n) (n_kind n) (n_loop n) (n_refs n)
                                               (node_sg sgs (n_id n)) (mark_node g1 (is_tick ist) n))
                              (g_nodes g1) in
            POk (mkGraph nodes' (g_edges g1) (g_loops g1) sgs topo)
        | _ => PPanic
        end))))
    end.
End Generic.

(* The model with an order oracle: [pi] is consulted for the order in which the HashSet
   enemies[v] is iterated.  An adversarial oracle may return any permutation. *)
Definition merge_enemies_o (pi : list N -> list N) : merge_fn :=
  fun u v ws e => merge_enemies u v (pi ws) e.
Definition partition_model_o (pi : list N -> list N) : optable -> graph -> pres :=
  partition_model_g (merge_enemies_o pi).
