(* C18, all-graphs direction: handoff insertion (insert_all) keeps the tick map in step with the
   graph and puts a handoff in front of every delayed input; clause W5 for every model output. *)
From Coq Require Import String List NArith Bool Arith Lia Permutation.
From HV Require Import Partition.Base GraphAlg.Model GraphAlg.PUf GraphAlg.PTopo GraphAlg.PSm GraphAlg.PSmMerge
                       Partition.Model Partition.PC19 Partition.WF Partition.PWF Partition.Rewrite
                       Partition.Full Partition.POracle Partition.PFull Partition.PFullW.
Import ListNotations.
Open Scope N_scope.
Notation length := List.length.

(* ---------------------------------------------------------------- lookups in grown graphs *)
Lemma find_node_snoc ns n y :
  find_node (ns ++ [n]) y =
  match find_node ns y with Some m => Some m | None => if N.eqb (n_id n) y then Some n else None end.
Proof.
  induction ns as [|a ns IH]; simpl; [reflexivity|].
  destruct (N.eqb (n_id a) y); [reflexivity|exact IH].
Qed.

Lemma find_node_none ns y : ~ In y (map n_id ns) -> find_node ns y = None.
Proof.
  induction ns as [|a ns IH]; simpl; intro H; [reflexivity|].
  destruct (N.eqb_spec (n_id a) y) as [E|E]; [exfalso; apply H; left; exact E|]. apply IH. tauto.
Qed.

Lemma find_edge_some es x e : find_edge es x = Some e -> In e es /\ e_id e = x.
Proof.
  induction es as [|a es IH]; simpl; [discriminate|].
  destruct (N.eqb_spec (e_id a) x) as [E|E]; [intro H; injection H as <-; auto|].
  intro H. destruct (IH H). auto.
Qed.

Lemma find_node_map (F : node -> node) : (forall n, n_id (F n) = n_id n) ->
  forall ns a, find_node (map F ns) a = option_map F (find_node ns a).
Proof.
  intros Fid. induction ns as [|n ns IH]; intro a; simpl; [reflexivity|].
  rewrite Fid. destruct (N.eqb (n_id n) a); [reflexivity|apply IH].
Qed.

Section Insert.
  Variable T : optable.

  Definition kind_of (g : graph) (x : N) : option nkind :=
    match node_of g x with Some n => Some (n_kind n) | None => None end.

  (* edge_delay / is_hoff only look at the kind of a node *)
  Lemma edge_delay_kind g g' e : kind_of g' (e_dst e) = kind_of g (e_dst e) -> edge_delay T g' e = edge_delay T g e.
  Proof.
    unfold kind_of, edge_delay. destruct (node_of g' (e_dst e)), (node_of g (e_dst e)); intro H;
      try discriminate; try reflexivity. injection H as ->. reflexivity.
  Qed.
  Lemma is_hoff_kind g g' x : kind_of g' x = kind_of g x -> is_hoff g' x = is_hoff g x.
  Proof.
    unfold kind_of, is_hoff. destruct (node_of g' x), (node_of g x); intro H; try discriminate; try reflexivity.
    injection H as ->. reflexivity.
  Qed.

  Record IInv (ist : istate) (pending : list N) : Prop := {
    ii_nodup : NoDup (map e_id (g_edges (is_g ist)));
    ii_elt : forall e, In e (g_edges (is_g ist)) -> e_id e < is_next_edge ist;
    ii_nlt : forall n, In n (g_nodes (is_g ist)) -> n_id n < is_next_node ist;
    ii_closed : forall e, In e (g_edges (is_g ist)) ->
                  In (e_src e) (node_ids (is_g ist)) /\ In (e_dst e) (node_ids (is_g ist));
    ii_tick : forall e, In e (g_edges (is_g ist)) ->
                alookup (e_id e) (Full.is_tick ist) = edge_delay T (is_g ist) e;
    ii_keys : forall k d, alookup k (Full.is_tick ist) = Some d -> k < is_next_edge ist;
    ii_src : forall e, In e (g_edges (is_g ist)) -> Model.is_tick T (is_g ist) e = true ->
               is_hoff (is_g ist) (e_src e) = true \/ In (e_id e) pending
  }.

  Lemma edge_unique ist pending e e' : IInv ist pending ->
    In e (g_edges (is_g ist)) -> In e' (g_edges (is_g ist)) -> e_id e = e_id e' -> e = e'.
  Proof.
    intros I H H' E. pose proof (ii_nodup _ _ I) as ND. revert ND H H' E. generalize (g_edges (is_g ist)) as l.
    induction l as [|a l IH]; simpl; intros ND H H' E; [contradiction|].
    inversion ND as [|? ? Hn ND']; subst.
    destruct H as [H|H]; destruct H' as [H'|H']; subst; auto.
    - exfalso. apply Hn. rewrite E. apply in_map. exact H'.
    - exfalso. apply Hn. rewrite <- E. apply in_map. exact H.
  Qed.

  Lemma tick_dst_op g e : Model.is_tick T g e = true -> is_hoff g (e_dst e) = false.
  Proof.
    unfold Model.is_tick, edge_delay, is_hoff. destruct (node_of g (e_dst e)) as [n|]; [|discriminate].
    destruct (n_kind n); try discriminate. reflexivity.
  Qed.

  Lemma insert_one_inv ist x pending ist' :
    IInv ist (x :: pending) -> insert_one ist x = ROk ist' -> IInv ist' pending.
  Proof.
    intros I H. unfold insert_one in H.
    destruct (find_edge (g_edges (is_g ist)) x) as [e|] eqn:Fe; [|discriminate].
    destruct (find_edge_some _ _ _ Fe) as [He Ex].
    destruct (is_hoff (is_g ist) (e_src e) || is_hoff (is_g ist) (e_dst e)) eqn:Ha.
    - injection H as <-. destruct I as [ND EL NL CL TK KY SR]. constructor; auto.
      intros e' He' Ht. destruct (SR e' He' Ht) as [Hs|[Hx|Hp]]; auto.
      left. assert (e' = e).
      { eapply (edge_unique ist (x :: pending)); eauto. constructor; auto. congruence. }
      subst e'. apply orb_true_iff in Ha. destruct Ha as [Ha|Ha]; [exact Ha|].
      rewrite (tick_dst_op _ _ Ht) in Ha. discriminate.
    - injection H as <-. apply orb_false_iff in Ha. destruct Ha as [Hs Hd].
      pose proof I as [ND EL NL CL TK KY SR].
      set (h := is_next_node ist). set (e0 := is_next_edge ist). set (e1 := is_next_edge ist + 1).
      set (hn := mkNode h (KHoff HVec) None [] None None).
      set (g' := mkGraph (g_nodes (is_g ist) ++ [hn])
                   (filter (fun y => negb (N.eqb (e_id y) x)) (g_edges (is_g ist)) ++
                    [mkEdge e0 (e_src e) h (e_sport e) PElided; mkEdge e1 h (e_dst e) PElided (e_dport e)])
                   (g_loops (is_g ist)) (g_sgs (is_g ist)) (g_topo (is_g ist))).
      assert (Hfresh : ~ In h (node_ids (is_g ist))).
      { intro Hin. apply in_map_iff in Hin. destruct Hin as (n & En & Hn). pose proof (NL n Hn). unfold h in En. lia. }
      (* kinds of old nodes are unchanged, the new node is a handoff *)
      assert (Kold : forall y, In y (node_ids (is_g ist)) -> kind_of g' y = kind_of (is_g ist) y).
      { intros y Hy. unfold kind_of, node_of. cbn [g_nodes g']. rewrite find_node_snoc.
        destruct (find_node_In _ _ Hy) as (m & Fm & _ & _). rewrite Fm. reflexivity. }
      assert (Knew : kind_of g' h = Some (KHoff HVec)).
      { unfold kind_of, node_of. cbn [g_nodes g']. rewrite find_node_snoc.
        rewrite (find_node_none _ _ Hfresh). cbn [hn n_id]. rewrite N.eqb_refl. reflexivity. }
      assert (Hh : is_hoff g' h = true) by (unfold is_hoff; unfold kind_of in Knew; destruct (node_of g' h) as [n|]; [injection Knew as ->; reflexivity|discriminate]).
      assert (Dnew : forall y sp dp k, edge_delay T g' (mkEdge k y h sp dp) = None).
      { intros. unfold edge_delay. cbn [e_dst]. unfold kind_of in Knew. destruct (node_of g' h) as [n|]; [|reflexivity].
        injection Knew as ->. reflexivity. }
      destruct (CL e He) as [Cs Cd].
      assert (Eids : forall y, In y (filter (fun y => negb (N.eqb (e_id y) x)) (g_edges (is_g ist))) ->
                       In y (g_edges (is_g ist)) /\ e_id y <> x).
      { intros y Hy. apply filter_In in Hy. destruct Hy as [A B]. apply negb_true_iff in B. apply N.eqb_neq in B. auto. }
      constructor; cbn [is_g Full.is_tick is_next_node is_next_edge g_edges g_nodes]; fold g'.
      + (* NoDup edge ids *)
        cbn [g_edges g']. rewrite map_app. apply NoDup_app_intro.
        * clear - ND. induction (g_edges (is_g ist)) as [|a l IH]; simpl; [constructor|].
          simpl in ND. inversion ND as [|? ? Hn ND']; subst.
          destruct (negb (N.eqb (e_id a) x)); simpl; [constructor; [|auto]|auto].
          intro Hin. apply Hn. apply in_map_iff in Hin. destruct Hin as (y & Ey & Hy). apply filter_In in Hy.
          rewrite <- Ey. apply in_map. tauto.
        * simpl. constructor; [intros [E|[]]; unfold e0, e1 in E; lia|constructor; [intros []|constructor]].
        * intros k Hk Hk'. apply in_map_iff in Hk. destruct Hk as (y & Ey & Hy). destruct (Eids y Hy) as [Hy' _].
          pose proof (EL y Hy'). simpl in Hk'. unfold e0, e1 in Hk'. destruct Hk' as [E|[E|[]]]; lia.
      + intros y Hy. cbn [g_edges g'] in Hy. apply in_app_or in Hy. destruct Hy as [Hy|[<-|[<-|[]]]].
        * destruct (Eids y Hy) as [Hy' _]. pose proof (EL y Hy'). lia.
        * simpl. unfold e0. lia.
        * simpl. unfold e1. lia.
      + intros n Hn. cbn [g_nodes g'] in Hn. apply in_app_or in Hn. destruct Hn as [Hn|[<-|[]]].
        * pose proof (NL n Hn). lia.
        * simpl. unfold h. lia.
      + intros y Hy. unfold node_ids. cbn [g_nodes g']. rewrite map_app. cbn [g_edges g'] in Hy.
        apply in_app_or in Hy. destruct Hy as [Hy|[<-|[<-|[]]]].
        * destruct (Eids y Hy) as [Hy' _]. destruct (CL y Hy'). split; apply in_or_app; left; assumption.
        * simpl. split; apply in_or_app; [left; exact Cs|right; left; reflexivity].
        * simpl. split; apply in_or_app; [right; left; reflexivity|left; exact Cd].
      + (* the tick map follows the graph *)
        intros y Hy. cbn [g_edges g'] in Hy. apply in_app_or in Hy.
        assert (Tk : forall k, k <> x -> k <> e1 ->
                  alookup k (match alookup x (Full.is_tick ist) with
                             | Some d => aset e1 d (aremove x (Full.is_tick ist))
                             | None => Full.is_tick ist end) = alookup k (Full.is_tick ist)).
        { intros k Hkx Hk1. destruct (alookup x (Full.is_tick ist)); [|reflexivity].
          rewrite alookup_aset_other by exact Hk1. apply alookup_aremove_neq. exact Hkx. }
        destruct Hy as [Hy|[<-|[<-|[]]]].
        * destruct (Eids y Hy) as [Hy' Hne]. pose proof (EL y Hy').
          rewrite Tk by (auto; unfold e1; lia). rewrite (TK y Hy'). symmetry. apply edge_delay_kind.
          apply Kold. exact (proj2 (CL y Hy')).
        * cbn [e_id]. rewrite Dnew. pose proof (EL e He).
          rewrite Tk by (unfold e0, e1; lia).
          destruct (alookup e0 (Full.is_tick ist)) as [d|] eqn:A; [|reflexivity].
          pose proof (KY _ _ A) as HA. unfold e0 in HA. lia.
        * cbn [e_id].
          assert (Ed : edge_delay T g' (mkEdge e1 h (e_dst e) PElided (e_dport e)) = edge_delay T (is_g ist) e).
          { unfold edge_delay. cbn [e_dst]. pose proof (Kold _ Cd) as K. unfold kind_of in K.
            destruct (node_of g' (e_dst e)), (node_of (is_g ist) (e_dst e)); try discriminate; try reflexivity.
            injection K as ->. reflexivity. }
          transitivity (edge_delay T (is_g ist) e); [|symmetry; exact Ed].
          rewrite <- (TK e He), Ex.
          destruct (alookup x (Full.is_tick ist)) as [d|] eqn:A.
          -- apply alookup_aset_same.
          -- destruct (alookup e1 (Full.is_tick ist)) as [d|] eqn:B; [|exact B].
             pose proof (KY _ _ B) as HB. unfold e1 in HB. lia.
      + intros k d Hk. destruct (alookup x (Full.is_tick ist)) as [d0|] eqn:A.
        * destruct (N.eq_dec k e1) as [->|Ne]; [unfold e1; lia|].
          rewrite alookup_aset_other in Hk by exact Ne.
          destruct (N.eq_dec k x) as [->|Nx].
          -- pose proof (KY _ _ A). lia.
          -- rewrite alookup_aremove_neq in Hk by exact Nx. pose proof (KY _ _ Hk). lia.
        * pose proof (KY _ _ Hk). lia.
      + (* every delayed input comes out of a handoff, or is still pending *)
        intros y Hy Ht. cbn [g_edges g'] in Hy. apply in_app_or in Hy. destruct Hy as [Hy|[<-|[<-|[]]]].
        * destruct (Eids y Hy) as [Hy' Hne]. destruct (CL y Hy') as [Ys Yd].
          assert (Ht' : Model.is_tick T (is_g ist) y = true).
          { unfold Model.is_tick in *. rewrite <- (edge_delay_kind (is_g ist) g' y (Kold _ Yd)). exact Ht. }
          destruct (SR y Hy' Ht') as [A|[A|A]].
          -- left. transitivity (is_hoff (is_g ist) (e_src y)); [|exact A].
             apply (is_hoff_kind (is_g ist) g'). apply Kold. exact Ys.
          -- congruence.
          -- right. exact A.
        * exfalso. unfold Model.is_tick in Ht. rewrite Dnew in Ht. discriminate.
        * left. exact Hh.
  Qed.

  Lemma insert_all_inv : forall eids ist ist', IInv ist eids -> insert_all ist eids = ROk ist' -> IInv ist' [].
  Proof.
    induction eids as [|x r IH]; intros ist ist' I H; simpl in H.
    - injection H as <-. exact I.
    - destruct (insert_one ist x) as [ist1| |] eqn:E1; simpl in H; try discriminate.
      apply (IH ist1 ist'); [|exact H]. eapply insert_one_inv; eauto.
  Qed.
End Insert.

(* ---------------------------------------------------------------- the initial tick map *)
Lemma tick_edges_lookup T g : forall es, NoDup (map e_id es) ->
  (forall e, In e es ->
     alookup (e_id e) (flat_map (fun e => match edge_delay T g e with Some d => [(e_id e, d)] | None => [] end) es)
     = edge_delay T g e) /\
  (forall k d, alookup k (flat_map (fun e => match edge_delay T g e with Some d => [(e_id e, d)] | None => [] end) es) = Some d ->
     In k (map e_id es)).
Proof.
  induction es as [|a es IH]; intro ND; simpl; [split; [intros e []|intros k d H; discriminate]|].
  inversion ND as [|? ? Hn ND']; subst. destruct (IH ND') as [IH1 IH2]. split.
  - intros e [<-|He].
    + destruct (edge_delay T g a) as [d|] eqn:E; simpl.
      * rewrite N.eqb_refl. reflexivity.
      * destruct (alookup (e_id a) _) as [d|] eqn:A; [|reflexivity]. exfalso. apply Hn. eapply IH2. exact A.
    + destruct (edge_delay T g a) as [d|] eqn:E; simpl; [|apply IH1; exact He].
      destruct (N.eqb_spec (e_id e) (e_id a)) as [Q|Q]; [|apply IH1; exact He].
      exfalso. apply Hn. rewrite <- Q. apply in_map. exact He.
  - intros k d H. destruct (edge_delay T g a) as [d0|]; simpl in H.
    + destruct (N.eqb_spec k (e_id a)) as [Q|Q]; [left; auto|right; eapply IH2; exact H].
    + right. eapply IH2. exact H.
Qed.

Section W5.
  Variables (T : optable) (g p : graph).
  Hypothesis Hok : flat_ok_b T g = true.
  Hypothesis Hmk : flat_marks_ok_b g = true.
  Hypothesis Hp : partition_model T g = POk p.

  Theorem W5_all : W5 T p.
  Proof.
    destruct (model_core T g p Hok Hp) as (st & f & ist & groups & topo & P & Ei & Es & Cg & Fg & Em & Ep).
    destruct (ok_parts T g Hok) as (ND & NDe & Cl & _ & _).
    destruct (insert_all_nodes _ _ _ Ei) as (extra & En & El & Fex & _ & _). simpl in En, El, Fex.
    destruct (tick_edges_lookup T g (g_edges g) NDe) as [TL1 TL2].
    (* the invariant holds initially, with the final handoff_edges pending *)
    assert (I0 : IInv T (mkIs g (tick_edges T g) (max_list (node_ids g) + 1) (max_list (map e_id (g_edges g)) + 1))
                      (ps_hedges st)).
    { constructor; simpl.
      - exact NDe.
      - intros e He. pose proof (max_list_ge _ _ (in_map e_id _ _ He)). lia.
      - intros n Hn. pose proof (max_list_ge _ _ (in_map n_id _ _ Hn)) as HM. unfold node_ids. lia.
      - intros e He. destruct (Cl e He) as [A B]. split; apply In_sort_dedup'; assumption.
      - intros e He. apply TL1. exact He.
      - intros k d Hk. pose proof (max_list_ge _ _ (TL2 k d Hk)). lia.
      - intros e He Ht. destruct (hoff_adj g e) eqn:Ha.
        + left. unfold hoff_adj in Ha. apply orb_true_iff in Ha. destruct Ha as [Ha|Ha]; [exact Ha|].
          rewrite (tick_dst_op T g e Ht) in Ha. discriminate.
        + right. exact (pi_tick _ _ _ _ P e He Ha Ht). }
    pose proof (insert_all_inv T _ _ _ I0 Ei) as I1.
    set (g1 := is_g ist) in *.
    set (F := fun n => mkNode (n_id n) (n_kind n) (n_loop n) (n_refs n)
                              (node_sg (register_sgs g1 groups) (n_id n)) (mark_node g1 (Full.is_tick ist) n)) in *.
    assert (Pn : forall x, node_of p x = option_map F (node_of g1 x)).
    { intro x. subst p. unfold node_of. simpl. apply find_node_map. intro n. reflexivity. }
    assert (Pk : forall x, kind_of p x = kind_of g1 x).
    { intro x. unfold kind_of. rewrite Pn. destruct (node_of g1 x); reflexivity. }
    assert (Pe : g_edges p = g_edges g1) by (subst p; reflexivity).
    assert (Pl : forall x, node_loop p x = node_loop g1 x).
    { intro x. unfold node_loop. rewrite Pn. destruct (node_of g1 x); reflexivity. }
    assert (Pp : forall l, loop_parent p l = loop_parent g1 l) by (intro l; subst p; reflexivity).
    assert (Pr : forall c d, remap p c d = remap g1 c d).
    { intros c d. unfold remap. rewrite Pl. destruct (node_loop g1 c); [rewrite Pp|]; reflexivity. }
    split.
    - intros e d He Hd. rewrite Pe in He.
      rewrite (is_hoff_kind g1 p _ (Pk _)).
      assert (Ht : Model.is_tick T g1 e = true).
      { unfold Model.is_tick. rewrite (edge_delay_kind T p g1 e); [rewrite Hd; reflexivity|]. symmetry. apply Pk. }
      destruct (ii_src _ _ _ I1 e He Ht) as [A|[]]. exact A.
    - intros n' Hn'.
      assert (Hn : exists n, In n (g_nodes g1) /\ n' = F n).
      { subst p. simpl in Hn'. apply in_map_iff in Hn'. destruct Hn' as (n & <- & Hn). exists n. auto. }
      destruct Hn as (n & Hn & ->). cbn [F n_kind n_delay n_id].
      assert (Dn : n_delay n = None).
      { rewrite En in Hn. apply in_app_or in Hn. destruct Hn as [Hn|Hn].
        - unfold flat_marks_ok_b in Hmk. rewrite forallb_forall in Hmk. specialize (Hmk n Hn).
          destruct (n_delay n); [discriminate|reflexivity].
        - rewrite Forall_forall in Fex. destruct (Fex n Hn) as [(_ & _ & _ & _ & D) _]. exact D. }
      unfold mark_node. destruct (n_kind n) eqn:Kd; try exact Dn.
      unfold expected_mark. rewrite Pe.
      destruct (filter (fun e => N.eqb (e_src e) (n_id n)) (g_edges g1)) as [|e r] eqn:Fl; [exact Dn|].
      assert (He : In e (g_edges g1)).
      { assert (In e (filter (fun e => N.eqb (e_src e) (n_id n)) (g_edges g1))) by (rewrite Fl; left; reflexivity).
        apply filter_In in H. tauto. }
      rewrite (ii_tick _ _ _ I1 e He). fold g1.
      rewrite (edge_delay_kind T g1 p e (Pk _)).
      destruct (edge_delay T g1 e); [rewrite Pr; reflexivity|exact Dn].
  Qed.
End W5.
