(* Partition engine: basic types shared with the regenerated operator table (Gen/OpsTable.v).
   Definitions only. *)
From Coq Require Import List String NArith Bool.
Import ListNotations.
Open Scope N_scope.

(* dfir_lang::graph::ops::DelayType *)
Inductive delay := DTick | DTickLazy | DLoop | DLoopLazy.
(* dfir_lang::graph::ops::FloType *)
Inductive flo := FSource | FWindowing | FWindowingLazy | FUnwindowing.
(* dfir_lang::graph::HandoffKind *)
Inductive hkind := HVec | HSingleton | HOptional.

Definition delay_eqb (a b : delay) : bool :=
  match a, b with
  | DTick, DTick | DTickLazy, DTickLazy | DLoop, DLoop | DLoopLazy, DLoopLazy => true
  | _, _ => false
  end.

Lemma delay_eqb_eq : forall a b, delay_eqb a b = true <-> a = b.
Proof. destruct a, b; simpl; split; intro H; try reflexivity; try discriminate. Qed.

(* One row of `OPERATORS` as observed through the public table:
   od_delay   = input_delaytype_fn on the sampled ports (elided, 0..7, a few names)
   od_uniform = all sampled ports gave the same answer (the model only expresses port-independent
                delay functions; a non-uniform operator makes the table unusable: table_ok = false) *)
Record op_desc := mkOp {
  od_name : string;
  od_delay : option delay;
  od_uniform : bool;
  od_hard_inn : N * option N;
  od_hard_out : N * option N;
  od_num_args : N;
  od_flo : option flo;
  od_external : bool
}.

Definition optable := list op_desc.

Fixpoint find_op (T : optable) (name : string) : option op_desc :=
  match T with
  | [] => None
  | d :: T' => if String.eqb (od_name d) name then Some d else find_op T' name
  end.

(* Every operator's delay function is port independent (as sampled) *)
Definition table_ok (T : optable) : bool := forallb od_uniform T.

(* the only operators with a delayed input are listed here; re-checked on the regenerated table *)
Definition delayed_ops (T : optable) : list (string * delay) :=
  flat_map (fun d => match od_delay d with Some x => [(od_name d, x)] | None => [] end) T.

(* tools/vlib.py coq_eval: indices and values of the non-zero verdict codes *)
Fixpoint bad_from (n : N) (l : list N) : list (N * N) :=
  match l with
  | [] => []
  | v :: r => if N.eqb v 0 then bad_from (n + 1) r else (n, v) :: bad_from (n + 1) r
  end.
Definition bad (l : list N) : list (N * N) := bad_from 0 l.
