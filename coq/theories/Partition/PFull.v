(* C18, all-graphs direction: invariants of the executable partition model (Partition/Full.v)
   on top of GraphAlg's SMInv / C17 theorems. *)
From Coq Require Import String List NArith Bool Arith Lia Permutation.
From HV Require Import Partition.Base GraphAlg.Model GraphAlg.PUf GraphAlg.PTopo GraphAlg.PSm GraphAlg.PSmCyc
                       GraphAlg.PSmMerge GraphAlg.PSmRefine
                       Partition.Model Partition.PC19 Partition.WF Partition.Rewrite Partition.Full.
Import ListNotations.
Open Scope N_scope.
Notation length := List.length.

(* ---------------------------------------------------------------- try_merge, with the new partition
   named (the published C17_sm_try_merge_preserves hides f'; same proof, stronger conclusion) *)
Theorem sm_try_merge_strong ks np en s f u0 v0 :
  SMInv ks np en s f -> In u0 ks -> In v0 ks ->
  exists s' b f', sm_try_merge s u0 v0 = ROk (s', b) /\ SMInv ks np en s' f' /\
    ((f' = f /\ (b = true -> f u0 = f v0)) \/
     (b = true /\ f u0 <> f v0 /\
      exists u v, ((u = f u0 /\ v = f v0) \/ (u = f v0 /\ v = f u0)) /\ f u = u /\ f v = v /\
                  f' = relabel f u v)).
Proof.
  intros I Ku Kv.
  destruct (N.eq_dec (f u0) (f v0)) as [E|Ne].
  { destruct (sm_try_merge_same_group ks np en s f u0 v0 I E) as (s' & H & I'). exists s', true, f.
    split; [exact H|]. split; [exact I'|]. left. auto. }
  destruct (enemy_test s (f u0) (f v0)) eqn:Et.
  { apply (enemy_test_conflict ks np en s f I) in Et.
    destruct (sm_try_merge_enemy_refused ks np en s f u0 v0 I Et) as (s' & H & I'). exists s', false, f.
    split; [exact H|]. split; [exact I'|]. left. split; [reflexivity|discriminate]. }
  destruct (try_merge_front ks np en s f I u0 v0 Ku Kv Ne Et)
    as (uf2 & u & v & HU2 & -> & Huv & Fu & Fv & Ku' & Kv' & Nuv & Lt).
  destruct (ordered_unfold ks np en s f I u v uf2 Fu Fv Ku' Kv' Nuv Lt)
    as (lo & lu & iv & lv & Iu & Lu & Iv & Lv & ? & ? & ? & ? & ->).
  destruct (cyc_check_exact ks np en s f I u v lo (iv + lv) Nuv Fu Fv Kv' iv Iu Iv ltac:(lia) ltac:(lia) uf2 HU2)
    as (found & uf3 & -> & HU3 & Hf).
  cbn [rbind]. destruct found.
  - exists (with_uf s uf3), false, f. split; [reflexivity|]. split; [apply SMInv_with_uf; assumption|].
    left. split; [reflexivity|discriminate].
  - assert (NoE : ~ enemy_rel (sm_enemies s) u v).
    { intro Er. assert (Er' : enemy_rel (sm_enemies s) (f u0) (f v0)).
      { destruct Huv as [(-> & ->)|(-> & ->)]; [exact Er|eapply SMInv_enemies_sym; eassumption]. }
      apply (enemy_test_spec s) in Er'. congruence. }
    assert (NoC : ~ would_cycle f np ks u v) by (intro W; apply Hf in W; discriminate).
    destruct (merge_phase_refines_proved ks np en s f u v lo lu iv lv uf3 I Fu Fv Ku' Kv' Nuv Iu Lu Iv Lv ltac:(lia) HU3 NoE NoC)
      as (s' & -> & I').
    exists s', true, (relabel f u v). split; [reflexivity|]. split; [exact I'|].
    right. split; [reflexivity|]. split; [exact Ne|]. exists u, v. auto.
Qed.

(* ---------------------------------------------------------------- list facts *)
Lemma sremove_In x y l : In y (sremove x l) <-> In y l /\ y <> x.
Proof.
  unfold sremove. rewrite filter_In. rewrite negb_true_iff, N.eqb_neq. intuition congruence.
Qed.
Lemma sremove_length_le x l : (length (sremove x l) <= length l)%nat.
Proof. unfold sremove. induction l as [|a l IH]; simpl; [lia|]. destruct (negb _); simpl; lia. Qed.
Lemma sremove_length_lt x l : In x l -> (length (sremove x l) < length l)%nat.
Proof.
  unfold sremove. induction l as [|a l IH]; simpl; intro H; [contradiction|].
  destruct (N.eqb_spec x a) as [E|E]; simpl.
  - pose proof (sremove_length_le x l). unfold sremove in H0. lia.
  - destruct H as [H|H]; [congruence|]. specialize (IH H). lia.
Qed.

(* ---------------------------------------------------------------- the invariant of the progress loop *)
Section Inv.
  Variables (T : optable) (g : graph).
  Let ks := sort_dedup (node_ids g).
  Let np := preds_from (pred_pairs T g (access_pairs_raw g)).
  Let en := enemy_pairs T g (access_pairs_raw g).

  Definition hoff_adj (e : edge) : bool := is_hoff g (e_src e) || is_hoff g (e_dst e).

  (* front-end facts used by the loop *)
  Hypothesis edge_ids_nodup : NoDup (map e_id (g_edges g)).
  Hypothesis edges_closed : forall e, In e (g_edges g) -> In (e_src e) ks /\ In (e_dst e) ks.

  Record PInv (st : pstate) (f : N -> N) : Prop := {
    pi_sm : SMInv ks np en (ps_sm st) f;
    (* an edge that left handoff_edges joins two members of one subgraph *)
    pi_merged : forall e, In e (g_edges g) -> hoff_adj e = false ->
                  ~ In (e_id e) (ps_hedges st) -> f (e_src e) = f (e_dst e);
    (* one loop context per subgraph *)
    pi_loop : forall x y, In x ks -> In y ks -> f x = f y -> node_loop g x = node_loop g y;
    (* a handoff is alone in its group *)
    pi_hoff : forall h y, In h ks -> In y ks -> is_hoff g h = true -> f y = f h -> y = h;
    (* delayed edges keep their place in handoff_edges *)
    pi_tick : forall e, In e (g_edges g) -> hoff_adj e = false -> Model.is_tick T g e = true ->
                In (e_id e) (ps_hedges st);
    (* handoff_edges only ever holds ids of edges of the graph *)
    pi_hsub : forall x, In x (ps_hedges st) -> In x (map e_id (g_edges g))
  }.

  Lemma edge_by_id e e' : In e (g_edges g) -> In e' (g_edges g) -> e_id e = e_id e' -> e = e'.
  Proof.
    intros H H' E. revert edge_ids_nodup H H' E. generalize (g_edges g) as l.
    induction l as [|a l IH]; simpl; intros ND H H' E; [contradiction|].
    inversion ND as [|? ? Hn ND']; subst.
    destruct H as [H|H]; destruct H' as [H'|H']; subst; auto.
    - exfalso. apply Hn. rewrite E. apply in_map. exact H'.
    - exfalso. apply Hn. rewrite <- E. apply in_map. exact H.
  Qed.

  Lemma tick_is_enemy e : In e (g_edges g) -> Model.is_tick T g e = true -> e_src e <> e_dst e ->
    In (e_src e, e_dst e) en.
  Proof.
    intros He Ht Hn. unfold en, enemy_pairs. apply in_or_app. left.
    unfold barrier_pairs. apply in_flat_map. exists e. split; [exact He|].
    rewrite Ht. simpl. apply N.eqb_neq in Hn. rewrite Hn. simpl. left. reflexivity.
  Qed.

  (* removing the id of a handoff-adjacent edge, or nothing at all, keeps the invariant *)
  Lemma PInv_drop_hoff_edge st f e s' :
    PInv st f -> In e (g_edges g) -> hoff_adj e = true -> SMInv ks np en s' f ->
    PInv (mkPs s' (ps_colors st) (sremove (e_id e) (ps_hedges st))) f.
  Proof.
    intros [I M L H K S] He Ha I'. constructor; simpl; auto.
    - intros e' He' Ha' Hn. apply M; auto. intro Hin. apply Hn. apply sremove_In. split; [exact Hin|].
      intro E. assert (e' = e) by (apply edge_by_id; auto). subst. congruence.
    - intros e' He' Ha' Ht. apply sremove_In. split; [apply K; auto|].
      intro E. assert (e' = e) by (apply edge_by_id; auto). subst. congruence.
    - intros y Hy. apply sremove_In in Hy. apply S. tauto.
  Qed.

  Lemma PInv_same_hedges st f s' cm :
    PInv st f -> SMInv ks np en s' f -> PInv (mkPs s' cm (ps_hedges st)) f.
  Proof. intros [I M L H K S] I'. constructor; simpl; auto. Qed.

  Lemma relabel_rep f u v x : f v = v -> relabel f u v x = if N.eqb (f x) v then f u else f x.
  Proof. intro Fv. unfold relabel. rewrite Fv. reflexivity. Qed.

  (* a successful merge of the groups of src and dst *)
  Lemma PInv_merge st f e s' cm u v :
    PInv st f -> In e (g_edges g) -> hoff_adj e = false ->
    f (e_src e) <> f (e_dst e) -> node_loop g (e_src e) = node_loop g (e_dst e) ->
    ((u = f (e_src e) /\ v = f (e_dst e)) \/ (u = f (e_dst e) /\ v = f (e_src e))) ->
    f u = u -> f v = v ->
    SMInv ks np en s' (relabel f u v) ->
    PInv (mkPs s' cm (sremove (e_id e) (ps_hedges st))) (relabel f u v).
  Proof.
    intros [I M L H K S] He Ha Ne Hl Huv Fu Fv I'.
    destruct (edges_closed e He) as [Ks Kd].
    assert (R : forall x, relabel f u v x = if N.eqb (f x) v then u else f x).
    { intro x. rewrite relabel_rep by exact Fv. rewrite Fu. reflexivity. }
    assert (Rs : relabel f u v (e_src e) = u /\ relabel f u v (e_dst e) = u).
    { rewrite !R. destruct Huv as [[-> ->]|[-> ->]].
      - rewrite N.eqb_refl. destruct (N.eqb_spec (f (e_src e)) (f (e_dst e))); [congruence|]. auto.
      - rewrite N.eqb_refl. destruct (N.eqb_spec (f (e_dst e)) (f (e_src e))); [congruence|]. auto. }
    assert (Hs : is_hoff g (e_src e) = false /\ is_hoff g (e_dst e) = false).
    { unfold hoff_adj in Ha. apply orb_false_iff in Ha. exact Ha. }
    (* members of the two merged classes share the loop of src / dst *)
    assert (Lu : forall x, In x ks -> f x = u -> node_loop g x = node_loop g (e_src e)).
    { intros x Kx Fx. destruct Huv as [[-> _]|[-> _]]; [apply L; auto|rewrite Hl; apply L; auto]. }
    assert (Lv : forall x, In x ks -> f x = v -> node_loop g x = node_loop g (e_src e)).
    { intros x Kx Fx. destruct Huv as [[_ ->]|[_ ->]]; [rewrite Hl; apply L; auto|apply L; auto]. }
    constructor; simpl; auto.
    - intros e' He' Ha' Hn. destruct (N.eq_dec (e_id e') (e_id e)) as [E|E].
      + assert (e' = e) by (apply edge_by_id; auto). subst. destruct Rs as [-> ->]. reflexivity.
      + assert (f (e_src e') = f (e_dst e')).
        { apply M; auto. intro Hin. apply Hn. apply sremove_In. auto. }
        rewrite !R. rewrite H0. reflexivity.
    - intros x y Kx Ky E. rewrite !R in E.
      destruct (N.eqb_spec (f x) v) as [Ex|Ex]; destruct (N.eqb_spec (f y) v) as [Ey|Ey].
      + rewrite (Lv x Kx Ex), (Lv y Ky Ey). reflexivity.
      + rewrite (Lv x Kx Ex). symmetry. apply Lu; auto.
      + rewrite (Lu x Kx E). symmetry. apply Lv; auto.
      + apply L; auto.
    - intros h y Kh Ky Hh E.
      assert (Nh : f h <> u /\ f h <> v).
      { split; intro Eh.
        - destruct Huv as [[-> _]|[-> _]].
          + assert (e_src e = h) by (apply H; auto). subst. destruct Hs. congruence.
          + assert (e_dst e = h) by (apply H; auto). subst. destruct Hs. congruence.
        - destruct Huv as [[_ ->]|[_ ->]].
          + assert (e_dst e = h) by (apply H; auto). subst. destruct Hs. congruence.
          + assert (e_src e = h) by (apply H; auto). subst. destruct Hs. congruence. }
      destruct Nh as [Nu Nv]. rewrite !R in E.
      destruct (N.eqb_spec (f h) v) as [Q|Q]; [congruence|].
      destruct (N.eqb_spec (f y) v) as [Q'|Q']; [exfalso; apply Nu; symmetry; exact E|]. apply H; auto.
    - intros e' He' Ha' Ht. apply sremove_In. split; [apply K; auto|].
      intro E. assert (e' = e) by (apply edge_by_id; auto). subst.
      assert (Hne : e_src e <> e_dst e) by (intro Q; rewrite Q in Ne; congruence).
      pose proof (tick_is_enemy e He Ht Hne) as Hen.
      apply (inv_no_enemy_inside _ _ _ _ _ I' _ _ Hen). destruct Rs as [-> ->]. reflexivity.
    - intros y Hy. apply sremove_In in Hy. apply S. tauto.
  Qed.

  (* one pass over the edges: never panics, keeps the invariant, only shrinks handoff_edges, and
     reports progress only if it shrank them *)
  Lemma pass_inv : forall es st f pr,
    incl es (g_edges g) -> PInv st f ->
    exists st' pr' f', pass g es st pr = ROk (st', pr') /\ PInv st' f' /\
      (length (ps_hedges st') <= length (ps_hedges st))%nat /\
      (pr' = true -> pr = true \/ (length (ps_hedges st') < length (ps_hedges st))%nat).
  Proof.
    induction es as [|e r IH]; intros st f pr Hin P.
    - exists st, pr, f. simpl. split; [reflexivity|]. split; [exact P|]. split; [lia|auto].
    - assert (He : In e (g_edges g)) by (apply Hin; left; reflexivity).
      assert (Hr : incl r (g_edges g)) by (intros x Hx; apply Hin; right; exact Hx).
      destruct (edges_closed e He) as [Ks Kd].
      cbn [pass]. fold (hoff_adj e). destruct (hoff_adj e) eqn:Ha.
      + destruct (IH _ f pr Hr (PInv_drop_hoff_edge st f e (ps_sm st) P He Ha (pi_sm _ _ P)))
          as (st' & pr' & f' & E & P' & L1 & L2).
        exists st', pr', f'. split; [exact E|]. split; [exact P'|]. simpl in L1, L2.
        pose proof (sremove_length_le (e_id e) (ps_hedges st)). split; [lia|]. intro Q. destruct (L2 Q); [auto|right; lia].
      + pose proof (uf_same_correct (sm_uf (ps_sm st)) f (e_src e) (e_dst e) (inv_uf _ _ _ _ _ (pi_sm _ _ P))) as [HU Es].
        unfold sm_same_set. destruct (uf_same (sm_uf (ps_sm st)) (e_src e) (e_dst e)) as [uf1 same]. simpl in HU, Es.
        assert (I1 : SMInv ks np en (with_uf (ps_sm st) uf1) f) by (apply SMInv_with_uf; [exact (pi_sm _ _ P)|exact HU]).
        destruct same.
        * destruct (IH _ f pr Hr (PInv_same_hedges st f _ (ps_colors st) P I1)) as (st' & pr' & f' & E & P' & L1 & L2).
          exists st', pr', f'. auto.
        * symmetry in Es. apply N.eqb_neq in Es.
          destruct (negb (optN_eqb (node_loop g (e_src e)) (node_loop g (e_dst e)))) eqn:Hl.
          -- destruct (IH _ f pr Hr (PInv_same_hedges st f _ (ps_colors st) P I1)) as (st' & pr' & f' & E & P' & L1 & L2).
             exists st', pr', f'. auto.
          -- apply negb_false_iff in Hl.
             assert (Hl' : node_loop g (e_src e) = node_loop g (e_dst e)).
             { destruct (node_loop g (e_src e)), (node_loop g (e_dst e)); simpl in Hl; try discriminate; auto.
               apply N.eqb_eq in Hl. congruence. }
             destruct (can_connect (ps_colors st) (e_src e) (e_dst e)) as [cm can]. destruct can.
             ++ destruct (sm_try_merge_strong ks np en _ f (e_src e) (e_dst e) I1 Ks Kd)
                  as (s2 & ok & f2 & Em & I2 & Hcase).
                rewrite Em. cbn [rbind].
                destruct Hcase as [[-> Hok]|(-> & _ & u & v & Huv & Fu & Fv & ->)].
                ** destruct ok; [exfalso; apply Es; apply Hok; reflexivity|].
                   destruct (IH _ f pr Hr (PInv_same_hedges st f s2 cm P I2)) as (st' & pr' & f' & E & P' & L1 & L2).
                   exists st', pr', f'. auto.
                ** assert (Hmem : In (e_id e) (ps_hedges st)).
                   { destruct (in_dec N.eq_dec (e_id e) (ps_hedges st)) as [i|n]; [exact i|].
                     exfalso. apply Es. apply (pi_merged _ _ P e He Ha n). }
                   apply memN_In' in Hmem as Hm. rewrite Hm.
                   pose proof (PInv_merge st f e s2 cm u v P He Ha Es Hl' Huv Fu Fv I2) as P2.
                   destruct (IH _ _ true Hr P2) as (st' & pr' & f' & E & P' & L1 & L2).
                   exists st', pr', f'. split; [exact E|]. split; [exact P'|]. simpl in L1, L2.
                   pose proof (sremove_length_lt (e_id e) (ps_hedges st) Hmem). split; [lia|]. intros _. right. lia.
             ++ destruct (IH _ f pr Hr (PInv_same_hedges st f _ cm P I1)) as (st' & pr' & f' & E & P' & L1 & L2).
                exists st', pr', f'. auto.
  Qed.

  Lemma ploop_inv : forall fuel st f,
    (length (ps_hedges st) < fuel)%nat -> PInv st f ->
    exists st' f', ploop fuel g st = ROk st' /\ PInv st' f'.
  Proof.
    induction fuel as [|fu IH]; intros st f Hf P; [lia|].
    cbn [ploop].
    destruct (pass_inv (g_edges g) st f false (incl_refl _) P) as (st1 & pr1 & f1 & E & P1 & L1 & L2).
    rewrite E. cbn [rbind]. destruct pr1.
    - destruct (L2 eq_refl) as [Q|Q]; [discriminate|]. apply (IH st1 f1); [lia|exact P1].
    - exists st1, f1. auto.
  Qed.
End Inv.

(* ---------------------------------------------------------------- subgraphs(): the groups tile the
   global order, each is exactly one class of the partition *)
Lemma In_firstn_nth {A} (x : A) : forall l o, In x (firstn l o) <-> exists k, (k < l)%nat /\ nth_error o k = Some x.
Proof.
  induction l as [|l IH]; intro o; simpl.
  - split; [intros []|intros (k & H & _); lia].
  - destruct o as [|a o]; simpl.
    + split; [intros []|intros (k & _ & H); destruct k; discriminate].
    + rewrite IH. split.
      * intros [->|(k & Hk & Hn)]; [exists O; split; [lia|reflexivity]|exists (S k); split; [lia|exact Hn]].
      * intros (k & Hk & Hn). destruct k as [|k]; simpl in Hn; [left; congruence|right; exists k; split; [lia|exact Hn]].
Qed.

Lemma nth_error_skipn' {A} : forall i (o : list A) k, nth_error (skipn i o) k = nth_error o (i + k).
Proof.
  induction i as [|i IH]; intros o k; simpl; [reflexivity|].
  destruct o as [|a o]; simpl; [destruct k; reflexivity|apply IH].
Qed.

Lemma In_slice_nth {A} (x : A) o i l :
  In x (slice o i l) <-> exists j, (i <= j < i + l)%nat /\ nth_error o j = Some x.
Proof.
  unfold slice. rewrite In_firstn_nth. split.
  - intros (k & Hk & Hn). rewrite nth_error_skipn' in Hn. exists (i + k)%nat. split; [lia|exact Hn].
  - intros (j & Hj & Hn). exists (j - i)%nat. split; [lia|]. rewrite nth_error_skipn'.
    replace (i + (j - i))%nat with j by lia. exact Hn.
Qed.

Lemma skipn_add {A} : forall i l (o : list A), skipn l (skipn i o) = skipn (i + l) o.
Proof.
  induction i as [|i IH]; intros l o; simpl; [reflexivity|].
  destruct o as [|a o]; simpl; [destruct l; reflexivity|apply IH].
Qed.

Section Subgraphs.
  Variables (ks : list N) (np : N -> list N) (en : list (N * N)) (s : sm) (f : N -> N).
  Hypothesis I : SMInv ks np en s f.

  Definition is_class (grp : list N) : Prop :=
    grp <> [] /\ exists r, In r ks /\ f r = r /\ forall x, In x grp <-> (In x ks /\ f x = r).

  Definition start (i : nat) : Prop :=
    i = length (sm_order s) \/ exists r, alookup r (sm_idx s) = Some i.

  Lemma order_in_ks x : In x (sm_order s) -> In x ks.
  Proof. intro H. eapply Permutation_in; [exact (inv_perm _ _ _ _ _ I)|exact H]. Qed.

  Lemma start_next r i l :
    alookup r (sm_idx s) = Some i -> alookup r (sm_len s) = Some l ->
    start (i + l).
  Proof.
    intros Hi Hl.
    destruct (inv_group _ _ _ _ _ I r i Hi) as (Fr & Kr & l0 & Hl0 & L1 & L2 & Hn & Hm).
    rewrite Hl in Hl0. injection Hl0 as <-.
    destruct (Nat.eq_dec (i + l) (length (sm_order s))) as [E|E]; [left; exact E|]. right.
    assert (Hlt : (i + l < length (sm_order s))%nat) by lia.
    destruct (nth_error (sm_order s) (i + l)) as [n'|] eqn:Hn'; [|apply nth_error_None in Hn'; lia].
    assert (Kn : In n' ks) by (apply order_in_ks; eapply nth_error_In; exact Hn').
    set (r' := f n').
    assert (Kr' : In r' ks) by (apply (inv_f_keys _ _ _ _ _ I); exact Kn).
    assert (Fr' : f r' = r') by (unfold r'; eapply UFInv_idem; exact (inv_uf _ _ _ _ _ I)).
    destruct (alookup r' (sm_idx s)) as [i'|] eqn:Hi'; [|exfalso; exact (inv_group_total _ _ _ _ _ I r' Kr' Fr' Hi')].
    destruct (inv_group _ _ _ _ _ I r' i' Hi') as (_ & _ & l' & Hl' & L1' & L2' & Hnr' & Hm').
    assert (Hin : In n' (slice (sm_order s) i' l')) by (apply Hm'; split; [exact Kn|reflexivity]).
    apply In_slice_nth in Hin. destruct Hin as (j & Hj & Hnj).
    assert (j = (i + l)%nat).
    { apply (proj1 (NoDup_nth_error (sm_order s)) (inv_nodup _ _ _ _ _ I) j (i + l)%nat);
        [apply nth_error_Some; congruence|congruence]. }
    subst j. exists r'.
    destruct (Nat.eq_dec i' (i + l)) as [E'|E']; [rewrite <- E'; exact Hi'|]. exfalso.
    (* then position i+l-1 lies in both ranges *)
    assert (Hp : (i' <= i + l - 1 < i' + l')%nat) by lia.
    destruct (nth_error (sm_order s) (i + l - 1)) as [m|] eqn:Hm1; [|apply nth_error_None in Hm1; lia].
    assert (M1 : In m (slice (sm_order s) i l)) by (apply In_slice_nth; exists (i + l - 1)%nat; split; [lia|exact Hm1]).
    assert (M2 : In m (slice (sm_order s) i' l')) by (apply In_slice_nth; exists (i + l - 1)%nat; split; [lia|exact Hm1]).
    apply Hm in M1. apply Hm' in M2. destruct M1 as [_ M1]. destruct M2 as [_ M2].
    assert (r = r') by congruence. subst r'. rewrite <- H in Hi'. rewrite Hi in Hi'. injection Hi' as <-.
    rewrite <- H in Hl'. rewrite Hl in Hl'. injection Hl' as <-. lia.
  Qed.

  Lemma subgraphs_from_spec : forall fuel i,
    (length (sm_order s) - i < fuel)%nat -> (i <= length (sm_order s))%nat -> start i ->
    exists groups, sm_subgraphs_from fuel s i = ROk groups /\
      concat groups = skipn i (sm_order s) /\ Forall is_class groups.
  Proof.
    induction fuel as [|fu IH]; intros i Hf Hi St; [lia|]. cbn [sm_subgraphs_from].
    destruct St as [E|(r & Hr)].
    - subst i. assert (Hn : nth_error (sm_order s) (length (sm_order s)) = None) by (apply nth_error_None; lia).
      rewrite Hn, Nat.eqb_refl. exists []. split; [reflexivity|]. split; [|constructor].
      simpl. symmetry. apply skipn_all.
    - destruct (inv_group _ _ _ _ _ I r i Hr) as (Fr & Kr & l & Hl & L1 & L2 & Hn & Hm).
      rewrite Hn. unfold aget. rewrite Hr. cbn [rbind]. rewrite Nat.eqb_refl. cbn [negb].
      rewrite Hl. cbn [rbind].
      assert (Hlt : Nat.ltb (length (sm_order s)) (i + l) = false) by (apply Nat.ltb_ge; lia).
      rewrite Hlt.
      destruct (IH (i + l)%nat ltac:(lia) ltac:(lia) (start_next r i l Hr Hl)) as (gs & Eg & Cg & Fg).
      rewrite Eg. cbn [rbind]. exists (slice (sm_order s) i l :: gs). split; [reflexivity|]. split.
      + simpl. rewrite Cg. unfold slice. rewrite <- skipn_add. apply firstn_skipn.
      + constructor; [|exact Fg]. split.
        * intro E. assert (In r (slice (sm_order s) i l)) by (apply Hm; auto). rewrite E in H. exact H.
        * exists r. auto.
  Qed.

  Theorem sm_subgraphs_spec :
    exists groups, sm_subgraphs s = ROk groups /\ concat groups = sm_order s /\ Forall is_class groups.
  Proof.
    unfold sm_subgraphs.
    assert (St : start 0).
    { destruct (sm_order s) as [|n o] eqn:Eo; [left; rewrite Eo; reflexivity|].
      right. assert (Kn : In n ks) by (apply order_in_ks; rewrite Eo; left; reflexivity).
      set (r := f n).
      assert (Kr : In r ks) by (apply (inv_f_keys _ _ _ _ _ I); exact Kn).
      assert (Fr : f r = r) by (unfold r; eapply UFInv_idem; exact (inv_uf _ _ _ _ _ I)).
      destruct (alookup r (sm_idx s)) as [i|] eqn:Hi; [|exfalso; exact (inv_group_total _ _ _ _ _ I r Kr Fr Hi)].
      destruct (inv_group _ _ _ _ _ I r i Hi) as (_ & _ & l & Hl & L1 & L2 & Hnr & Hm).
      assert (Hin : In n (slice (sm_order s) i l)) by (apply Hm; split; [exact Kn|reflexivity]).
      apply In_slice_nth in Hin. destruct Hin as (j & Hj & Hnj).
      assert (j = O).
      { apply (proj1 (NoDup_nth_error (sm_order s)) (inv_nodup _ _ _ _ _ I) j O);
          [apply nth_error_Some; congruence|rewrite Hnj, Eo; reflexivity]. }
      subst j. assert (i = O) by lia. subst i. exists r. exact Hi. }
    destruct (subgraphs_from_spec (S (length (sm_order s))) O ltac:(lia) ltac:(lia) St) as (gs & E & C & F).
    exists gs. split; [exact E|]. split; [exact C|exact F].
  Qed.
End Subgraphs.

(* ---------------------------------------------------------------- handoff insertion: what happens
   to the node list *)
Definition new_hoff_node (n : node) : Prop :=
  n_kind n = KHoff HVec /\ n_loop n = None /\ n_refs n = [] /\ n_sg n = None /\ n_delay n = None.

Lemma insert_one_nodes st eid st' : insert_one st eid = ROk st' ->
  (g_nodes (is_g st') = g_nodes (is_g st) /\ is_next_node st' = is_next_node st) \/
  (exists n, g_nodes (is_g st') = g_nodes (is_g st) ++ [n] /\ n_id n = is_next_node st /\
             new_hoff_node n /\ is_next_node st' = is_next_node st + 1).
Proof.
  unfold insert_one. destruct (find_edge (g_edges (is_g st)) eid) as [e|]; [|discriminate].
  destruct (_ || _).
  - intro H. injection H as <-. left. auto.
  - intro H. injection H as <-. right. simpl. eexists. split; [reflexivity|].
    simpl. repeat split; reflexivity.
Qed.

Lemma insert_one_static st eid st' : insert_one st eid = ROk st' ->
  g_loops (is_g st') = g_loops (is_g st).
Proof.
  unfold insert_one. destruct (find_edge (g_edges (is_g st)) eid) as [e|]; [|discriminate].
  destruct (_ || _); intro H; injection H as <-; reflexivity.
Qed.

Lemma insert_all_nodes : forall eids st st', insert_all st eids = ROk st' ->
  exists extra, g_nodes (is_g st') = g_nodes (is_g st) ++ extra /\
    g_loops (is_g st') = g_loops (is_g st) /\
    Forall (fun n => new_hoff_node n /\ is_next_node st <= n_id n < is_next_node st') extra /\
    is_next_node st <= is_next_node st' /\
    NoDup (map n_id extra).
Proof.
  induction eids as [|x r IH]; intros st st' H; simpl in H.
  - injection H as <-. exists []. rewrite app_nil_r. repeat split; auto; try lia; constructor.
  - destruct (insert_one st x) as [st1| |] eqn:E1; simpl in H; try discriminate.
    destruct (IH st1 st' H) as (ex & Hn & Hl & Hf & Hle & Hnd).
    pose proof (insert_one_static st x st1 E1) as Hl1.
    destruct (insert_one_nodes st x st1 E1) as [[En Ex]|(n & En & Eid & Hnew & Ex)].
    + exists ex. rewrite Hn, En, Hl, Hl1, <- Ex. repeat split; auto.
    + exists (n :: ex). rewrite Hn, En, <- app_assoc, Hl, Hl1. simpl. repeat split; auto; try lia.
      * constructor; [split; [exact Hnew|lia]|].
        eapply Forall_impl; [|exact Hf]. intros a [Ha Hb]. split; [exact Ha|lia].
      * constructor; [|exact Hnd]. intro Hin. apply in_map_iff in Hin. destruct Hin as (a & Ea & Ha).
        rewrite Forall_forall in Hf. destruct (Hf a Ha) as [_ Hr]. lia.
Qed.

(* ---------------------------------------------------------------- inversion of partition_model *)
Lemma partition_model_inv T g p : partition_model T g = POk p ->
  exists s0 ap st ist groups topo,
    partition_front T g = FOk s0 ap /\
    ploop (S (S (length (g_edges g)))) g (mkPs s0 (colors0 g) (sort_dedup (map e_id (g_edges g)))) = ROk st /\
    insert_all (mkIs g (tick_edges T g) (max_list (node_ids g) + 1) (max_list (map e_id (g_edges g)) + 1))
               (ps_hedges st) = ROk ist /\
    sm_subgraphs (ps_sm st) = ROk groups /\
    make_loops_contiguous (is_g ist) (register_sgs (is_g ist) groups) (map s_id (register_sgs (is_g ist) groups)) = ROk topo /\
    p = mkGraph (map (fun n => mkNode (n_id n) (n_kind n) (n_loop n) (n_refs n)
                                      (node_sg (register_sgs (is_g ist) groups) (n_id n))
                                      (mark_node (is_g ist) (Full.is_tick ist) n)) (g_nodes (is_g ist)))
                (g_edges (is_g ist)) (g_loops (is_g ist)) (register_sgs (is_g ist) groups) topo.
Proof.
  unfold partition_model. destruct (partition_front T g) as [s0 ap|c| | |]; try discriminate.
  unfold of_res.
  destruct (ploop _ g _) as [st| |] eqn:E1; try discriminate.
  destruct (insert_all _ (ps_hedges st)) as [ist| |] eqn:E2; try discriminate.
  destruct (sm_subgraphs (ps_sm st)) as [groups| |] eqn:E3; try discriminate.
  destruct (make_loops_contiguous _ _ _) as [topo| |] eqn:E4; try discriminate.
  destruct (validate_topo_sort _ _); try discriminate.
  intro H. injection H as <-. exists s0, ap, st, ist, groups, topo.
  split; [reflexivity|]. split; [exact E1|]. split; [exact E2|]. split; [exact E3|]. split; [exact E4|reflexivity].
Qed.

(* ---------------------------------------------------------------- the front end's guarantees *)
Lemma sinsert_length x l : (length (sinsert x l) <= S (length l))%nat.
Proof. induction l as [|y r IH]; simpl; [lia|]. destruct (N.compare x y); simpl; lia. Qed.
Lemma sort_dedup_length l : (length (sort_dedup l) <= length l)%nat.
Proof.
  unfold sort_dedup. induction l as [|x l IH]; simpl; [lia|].
  pose proof (sinsert_length x (fold_right sinsert [] l)). lia.
Qed.

Lemma front_ok_inv T g s0 ap : partition_front T g = FOk s0 ap ->
  ap = access_pairs_raw g /\
  sm_new (node_ids g) (preds_from (pred_pairs T g (access_pairs_raw g))) (enemy_pairs T g (access_pairs_raw g)) = NewOk s0.
Proof.
  unfold partition_front, access_pairs. destruct (existsb _ (access_pairs_raw g)); [discriminate|].
  destruct (sm_new _ _ _) as [s| | |] eqn:E; try discriminate. intro H. injection H as <- <-. auto.
Qed.

Section AllGraphs.
  Variables (T : optable) (g : graph) (p : graph).
  Hypothesis Hok : flat_ok_b T g = true.
  Hypothesis Hp : partition_model T g = POk p.

  Let ks := sort_dedup (node_ids g).

  Lemma ok_parts :
    NoDup (node_ids g) /\ NoDup (map e_id (g_edges g)) /\
    (forall e, In e (g_edges g) -> In (e_src e) ks /\ In (e_dst e) ks) /\
    deps_closed_b T g = true /\
    (forall n, In n (g_nodes g) -> n_kind n <> KMod).
  Proof.
    unfold flat_ok_b in Hok.
    apply andb_true_iff in Hok. destruct Hok as [H H5].
    apply andb_true_iff in H. destruct H as [H H4].
    apply andb_true_iff in H. destruct H as [H H3].
    apply andb_true_iff in H. destruct H as [H1 H2].
    split; [apply nodup_b_NoDup; exact H1|]. split; [apply nodup_b_NoDup; exact H2|].
    split; [|split; [exact H4|]].
    - intros e He. rewrite forallb_forall in H3. specialize (H3 e He). apply andb_true_iff in H3.
      destruct H3 as [A B]. unfold ks. split; apply In_sort_dedup'; apply memN_In'; assumption.
    - intros n Hn E. rewrite forallb_forall in H5. specialize (H5 n Hn). rewrite E in H5. discriminate.
  Qed.

  (* the state after the progress loop, with its invariant, and the remaining pipeline *)
  Theorem model_core :
    exists st f ist groups topo,
      PInv T g st f /\
      insert_all (mkIs g (tick_edges T g) (max_list (node_ids g) + 1) (max_list (map e_id (g_edges g)) + 1))
                 (ps_hedges st) = ROk ist /\
      sm_subgraphs (ps_sm st) = ROk groups /\
      concat groups = sm_order (ps_sm st) /\ Forall (is_class ks f) groups /\
      make_loops_contiguous (is_g ist) (register_sgs (is_g ist) groups)
                            (map s_id (register_sgs (is_g ist) groups)) = ROk topo /\
      p = mkGraph (map (fun n => mkNode (n_id n) (n_kind n) (n_loop n) (n_refs n)
                                        (node_sg (register_sgs (is_g ist) groups) (n_id n))
                                        (mark_node (is_g ist) (Full.is_tick ist) n)) (g_nodes (is_g ist)))
                  (g_edges (is_g ist)) (g_loops (is_g ist)) (register_sgs (is_g ist) groups) topo.
  Proof.
    destruct ok_parts as (ND & NDe & Cl & Dc & _).
    destruct (partition_model_inv T g p Hp) as (s0 & ap & st & ist & groups & topo & Ef & El & Ei & Es & Em & Ep).
    destruct (front_ok_inv T g s0 ap Ef) as [-> Enew].
    assert (I0 : SMInv ks (preds_from (pred_pairs T g (access_pairs_raw g)))
                       (enemy_pairs T g (access_pairs_raw g)) s0 (fun x => x)).
    { apply sm_new_inv; [|exact Enew]. intros x q _ Hq. exact (deps_closed T g Dc x q Hq). }
    assert (P0 : PInv T g (mkPs s0 (colors0 g) (sort_dedup (map e_id (g_edges g)))) (fun x => x)).
    { constructor; simpl; auto.
      - intros e He _ Hn. exfalso. apply Hn. apply In_sort_dedup'. apply in_map. exact He.
      - intros x y _ _ E. subst. reflexivity.
      - intros e He _ _. apply In_sort_dedup'. apply in_map. exact He.
      - intros x Hx. exact (proj1 (In_sort_dedup' _ _) Hx). }
    assert (Hfuel : (length (ps_hedges (mkPs s0 (colors0 g) (sort_dedup (map e_id (g_edges g)))))
                     < S (S (length (g_edges g))))%nat).
    { simpl. pose proof (sort_dedup_length (map e_id (g_edges g))) as HL. rewrite map_length in HL. lia. }
    destruct (ploop_inv T g NDe Cl (S (S (length (g_edges g)))) _ _ Hfuel P0) as (st' & f & El' & P).
    rewrite El in El'. injection El' as <-.
    destruct (sm_subgraphs_spec ks _ _ (ps_sm st) f (pi_sm _ _ _ _ P)) as (gs & Eg & Cg & Fg).
    rewrite Es in Eg. injection Eg as <-.
    exists st, f, ist, groups, topo.
    split; [exact P|]. split; [exact Ei|]. split; [exact Es|]. split; [exact Cg|].
    split; [exact Fg|]. split; [exact Em|exact Ep].
  Qed.
End AllGraphs.

(* ---------------------------------------------------------------- groundwork for W6 / W7: in the global
   order every member of a group comes before every member of a group it feeds (quotient edge) *)
Lemma qedge_before ks np en s f x y :
  SMInv ks np en s f -> In x ks -> In y ks -> qedge f np ks (f x) (f y) ->
  exists i j, nth_error (sm_order s) i = Some x /\ nth_error (sm_order s) j = Some y /\ (i < j)%nat.
Proof.
  intros I Kx Ky Q.
  destruct (GraphAlg.PSmCyc.qedge_ranges ks np en s f I (f x) (f y) Q)
    as (ia & la & ib & lb & Ia & La & Ib & Lb & _ & _ & Hle).
  destruct (inv_group _ _ _ _ _ I (f x) ia Ia) as (_ & _ & la' & La' & _ & _ & _ & Ma).
  destruct (inv_group _ _ _ _ _ I (f y) ib Ib) as (_ & _ & lb' & Lb' & _ & _ & _ & Mb).
  rewrite La in La'. injection La' as <-. rewrite Lb in Lb'. injection Lb' as <-.
  assert (Hx : In x (slice (sm_order s) ia la)) by (apply Ma; auto).
  assert (Hy : In y (slice (sm_order s) ib lb)) by (apply Mb; auto).
  apply In_slice_nth in Hx. apply In_slice_nth in Hy.
  destruct Hx as (i & Hi & Ni). destruct Hy as (j & Hj & Nj).
  exists i, j. repeat split; auto. lia.
Qed.
