(* HydroB engine: "accepted" as a theorem about engine Partition's model of the partitioner.
   For every guarded flow the graph our emitter model produces, translated to Partition's graph
   type (XPartition.to_pgraph), satisfies the hypotheses of Partition's C19_acyclic_accepted, so
   partition_verdict = Accepted.  Part 1: an invariant of the emitter (every edge end is a
   node; an edge is delayed exactly when its target operator is defer_tick_lazy; both operator
   tables agree on that for every operator the emitter writes). *)
From Coq Require Import List String NArith Bool Arith Lia.
From HV Require Import HydroB.Model HydroB.PEmit.
From HV Require Partition.Base.
Import ListNotations.
Open Scope string_scope.
Open Scope N_scope.

Module PB := Partition.Base.

Definition dtl : string := "defer_tick_lazy".

(* engine Partition's table says "some delay" exactly for defer_tick_lazy *)
Definition delay_agree (TP : PB.optable) (op : string) : bool :=
  Bool.eqb (match PB.find_op TP op with
            | Some d => match PB.od_delay d with Some _ => true | None => false end
            | None => false end)
           (String.eqb op dtl).
(* our table's delay flag of the port the emitter uses says the same *)
Definition port_agree (T : optable) (op port : string) : bool :=
  Bool.eqb (is_delayed T op port) (String.eqb op dtl).

Definition chain_agree (T : optable) (TP : PB.optable) (ops : list string) (ports : list string) : bool :=
  match ops with
  | [] => true
  | op :: rest =>
      delay_agree TP op && forallb (port_agree T op) ports
      && forallb (fun o => delay_agree TP o && port_agree T o "[]") rest
  end.

Section Accept.
  Variable T : optable.
  Variable TP : PB.optable.
  Variable rk : N -> N.
  Hypothesis Asrc : forall s m, chain_agree T TP (src_ops s m) [] = true.
  Hypothesis Aun : forall u m, chain_agree T TP (un_ops u m) ["[]"] = true.
  Hypothesis Abin : forall b ml mr,
    chain_agree T TP (fst (bin_ops b ml mr)) [fst (snd (bin_ops b ml mr)); snd (snd (bin_ops b ml mr))] = true.
  Hypothesis Asink : forall k, chain_agree T TP [sink_op k] ["[]"] = true.
  Hypothesis Atee : chain_agree T TP ["tee"] ["[]"] = true.
  Hypothesis Aident : chain_agree T TP ["identity"] ["[]"] = true.
  Hypothesis Asend : forall ser : bool, chain_agree T TP (if ser then ["map"; "dest_sink"] else ["dest_sink"]) ["[]"] = true.
  Hypothesis Arecv : forall de : bool, chain_agree T TP (if de then ["source_stream"; "map"] else ["source_stream"]) [] = true.

  Definition has_node (ns : list gnode) (n : N) : Prop := exists x, In x ns /\ n_id x = n.
  Definition tick_node (ns : list gnode) (n : N) (b : bool) : Prop :=
    exists x, In x ns /\ n_id x = n /\ b = String.eqb (n_op x) dtl.
  Definition ident_ex (ns : list gnode) (i : ident) : Prop :=
    match i with inl n => has_node ns n | inr _ => True end.

  Record Inv7 (s : st) : Prop := mkInv7 {
    i7_nodes : forall x, In x (s_nodes s) -> n_id x < s_next s /\ delay_agree TP (n_op x) = true;
    i7_nodup : NoDup (map n_id (s_nodes s));
    i7_edges : forall e, In e (s_edges s) ->
        has_node (s_nodes s) (e_src e) /\ tick_node (s_nodes s) (e_dst e) (e_tick e);
    i7_pend : forall p, In p (s_pend s) -> tick_node (s_nodes s) (p_dst p) (p_tick p);
    i7_tees : forall x, In x (s_tees s) -> ident_ex (s_nodes s) (fst (snd x));
    i7_sinks : forall x, In x (s_sinks s) -> has_node (s_nodes s) (snd x)
  }.

  Lemma Inv7_0 : Inv7 st0.
  Proof. constructor; simpl; try (intros; contradiction). constructor. Qed.

  Lemma has_node_mono ns x n : has_node ns n -> has_node (x :: ns) n.
  Proof. intros [y [A B]]. exists y. split; [right; exact A|exact B]. Qed.
  Lemma tick_node_mono ns x n b : tick_node ns n b -> tick_node (x :: ns) n b.
  Proof. intros [y [A B]]. exists y. split; [right; exact A|exact B]. Qed.
  Lemma ident_ex_mono ns x i : ident_ex ns i -> ident_ex (x :: ns) i.
  Proof. destruct i; simpl; [apply has_node_mono|auto]. Qed.

  Lemma add_op_inv7 : forall op lvl ins s id s',
    add_op T op lvl ins s = (id, s') -> Inv7 s ->
    (forall i p, In (i, p) ins -> ident_ex (s_nodes s) i) ->
    delay_agree TP op = true -> forallb (port_agree T op) (map snd ins) = true ->
    Inv7 s' /\ has_node (s_nodes s') id /\ s_tees s' = s_tees s /\ s_sinks s' = s_sinks s /\
    (forall i, ident_ex (s_nodes s) i -> ident_ex (s_nodes s') i).
  Proof.
    intros op lvl ins s id s' H [I1 I2 I3 I4 I5 I6] Hex Hd Hp. unfold add_op in H.
    destruct (link_inputs T (s_next s) op ins (s_edges s) (s_pend s)) as [es ps] eqn:EL.
    inversion H; subst id s'; clear H. simpl.
    destruct (link_inputs_spec T _ _ _ _ _ _ _ EL) as [He Hq].
    set (x := mkNode (s_next s) op lvl (N.of_nat (List.length ins))).
    assert (Hport : forall i p, In (i, p) ins -> is_delayed T op p = String.eqb op dtl).
    { intros i p Hin. rewrite forallb_forall in Hp. specialize (Hp p).
      unfold port_agree in Hp. apply eqb_prop. apply Hp. apply in_map_iff. exists (i, p). auto. }
    split; [|split; [exists x; split; [left; reflexivity|reflexivity]|
             split; [reflexivity|split; [reflexivity|intros i Hi; apply ident_ex_mono; exact Hi]]]].
    constructor; simpl.
    - intros y [<-|Hy]; [unfold x; simpl; split; [lia|exact Hd] | destruct (I1 y Hy); split; [lia|assumption]].
    - constructor; [|exact I2]. intro Hin. apply in_map_iff in Hin. destruct Hin as [y [Hy1 Hy2]].
      destruct (I1 y Hy2) as [Hlt _]. unfold x in Hy1; simpl in Hy1. lia.
    - intros e Hin. destruct (He e Hin) as [Hin'|[Hdst [p [Hp1 Hp2]]]].
      + destruct (I3 e Hin') as [A B]. split; [apply has_node_mono; exact A|apply tick_node_mono; exact B].
      + split.
        * apply has_node_mono. exact (Hex _ _ Hp1).
        * exists x. split; [left; reflexivity|]. split; [unfold x; simpl; congruence|].
          rewrite Hp2. unfold x; simpl. apply (Hport _ _ Hp1).
    - intros q Hin. destruct (Hq q Hin) as [Hin'|[Hdst [p [Hp1 Hp2]]]].
      + apply tick_node_mono. exact (I4 q Hin').
      + exists x. split; [left; reflexivity|]. split; [unfold x; simpl; congruence|].
        rewrite Hp2. unfold x; simpl. apply (Hport _ _ Hp1).
    - intros y Hy. apply ident_ex_mono. exact (I5 y Hy).
    - intros y Hy. apply has_node_mono. exact (I6 y Hy).
  Qed.

  Lemma add_chain_inv7 : forall ops lvl ins s i s',
    add_chain T ops lvl ins s = Some (i, s') -> Inv7 s ->
    (forall j p, In (j, p) ins -> ident_ex (s_nodes s) j) ->
    chain_agree T TP ops (map snd ins) = true ->
    Inv7 s' /\ ident_ex (s_nodes s') i /\ s_tees s' = s_tees s /\ s_sinks s' = s_sinks s /\
    (forall j, ident_ex (s_nodes s) j -> ident_ex (s_nodes s') j).
  Proof.
    induction ops as [|op rest IH]; intros lvl ins s i s' H HI Hex HC; [discriminate|].
    simpl in H. unfold chain_agree in HC. rewrite !andb_true_iff in HC. destruct HC as [[HC1 HC2] HC3].
    destruct rest as [|op2 rest'].
    - destruct (add_op T op lvl ins s) as [id s1] eqn:EA. inversion H; subst i s'; clear H.
      destruct (add_op_inv7 _ _ _ _ _ _ EA HI Hex HC1 HC2) as (A & B & C & D & E0).
      split; [exact A|]. split; [exact B|]. split; [exact C|]. split; [exact D|exact E0].
    - destruct (add_op T op lvl ins s) as [id s1] eqn:EA.
      destruct (add_op_inv7 _ _ _ _ _ _ EA HI Hex HC1 HC2) as (A & B & C & D & E0).
      simpl in HC3. apply andb_true_iff in HC3. destruct HC3 as [HC4 HC5]. apply andb_true_iff in HC4.
      destruct HC4 as [HC6 HC7].
      assert (Hex1 : forall j p, In (j, p) [(inl id, "[]")] -> ident_ex (s_nodes s1) j).
      { intros j p [Hin|[]]. inversion Hin; subst. exact B. }
      assert (HCr : chain_agree T TP (op2 :: rest') (map snd [(@inl N N id, "[]")]) = true).
      { unfold chain_agree. simpl. rewrite HC6, HC7, HC5. reflexivity. }
      destruct (IH _ _ _ _ _ H A Hex1 HCr) as (A2 & B2 & C2 & D2 & E2).
      split; [exact A2|]. split; [exact B2|]. split; [congruence|]. split; [congruence|].
      intros j Hj. apply E2. apply E0. exact Hj.
  Qed.

  Arguments add_chain : simpl never.

  Lemma emit_node_inv7 : forall h s i s', emit_node T rk h s = Some (i, s') -> Inv7 s ->
    Inv7 s' /\ ident_ex (s_nodes s') i /\ s_sinks s' = s_sinks s /\
    (forall j, ident_ex (s_nodes s) j -> ident_ex (s_nodes s') j).
  Proof.
    induction h as [sk m | c m | id inner IH m | u input IH m | b l IHl r IHr m | ser deser input IH m];
      intros s i s' H HI.
    - simpl in H. destruct (add_chain_inv7 _ _ _ _ _ _ H HI) as (A & B & C & D & E0);
        [intros j p [] | apply Asrc | auto].
    - simpl in H. inversion H; subst. split; [exact HI|]. split; [exact I|]. split; [reflexivity|auto].
    - simpl in H. destruct (assoc_n id (s_tees s)) as [[i0 l0]|] eqn:EA.
      + destruct (N.eqb l0 (sync_lvl rk inner)); [|discriminate]. inversion H; subst.
        split; [exact HI|]. split; [|auto]. apply assoc_n_In in EA. exact (i7_tees _ HI _ EA).
      + destruct (emit_node T rk inner s) as [[i1 s1]|] eqn:EI; [|discriminate].
        destruct (IH _ _ _ EI HI) as (A1 & B1 & C1 & D1).
        destruct (add_op T "tee" (sync_lvl rk inner) [(i1, "[]")] s1) as [n s2] eqn:EO.
        inversion H; subst i s'; clear H.
        pose proof Atee as Ht0. unfold chain_agree in Ht0. rewrite !andb_true_iff in Ht0. destruct Ht0 as [[T1 T2] _].
        destruct (add_op_inv7 _ _ _ _ _ _ EO A1) as (A2 & B2 & C2 & D2 & E2);
          [intros j p [Hin|[]]; inversion Hin; subst; exact B1 | exact T1 | exact T2 |].
        split; [|split; [exact B2|split; [simpl; congruence|intros j Hj; apply E2; apply D1; exact Hj]]].
        destruct A2 as [J1 J2 J3 J4 J5 J6]. constructor; simpl; try assumption.
        intros x [<-|Hx]; [simpl; exact B2 | apply J5; exact Hx].
    - simpl in H. destruct (un_unimplemented u (meta_of input)); [discriminate|].
      destruct (emit_node T rk input s) as [[i1 s1]|] eqn:EI; [|discriminate].
      destruct (IH _ _ _ EI HI) as (A1 & B1 & C1 & D1).
      pose proof (Aun u (meta_of input)) as HA.
      destruct (un_ops u (meta_of input)) as [|op rest] eqn:EU.
      + inversion H; subst. split; [exact A1|]. split; [exact B1|]. split; [exact C1|exact D1].
      + destruct (add_chain_inv7 _ _ _ _ _ _ H A1) as (A2 & B2 & C2 & D2 & E2);
          [intros j p [Hin|[]]; inversion Hin; subst; exact B1 | exact HA |].
        split; [exact A2|]. split; [exact B2|]. split; [congruence|]. intros j Hj. apply E2. apply D1. exact Hj.
    - simpl in H.
      destruct (emit_node T rk l s) as [[i1 s1]|] eqn:E1; [|discriminate].
      destruct (IHl _ _ _ E1 HI) as (A1 & B1 & C1 & D1).
      destruct (emit_node T rk r s1) as [[i2 s2]|] eqn:E2; [|discriminate].
      destruct (IHr _ _ _ E2 A1) as (A2 & B2 & C2 & D2).
      pose proof (Abin b (meta_of l) (meta_of r)) as HB.
      destruct (bin_ops b (meta_of l) (meta_of r)) as [ops [p1 p2]]. simpl in HB.
      destruct (add_chain_inv7 _ _ _ _ _ _ H A2) as (A3 & B3 & C3 & D3 & E3);
        [intros j p [Hin|[Hin|[]]]; inversion Hin; subst; [apply D2; exact B1|exact B2] | exact HB |].
      split; [exact A3|]. split; [exact B3|]. split; [congruence|].
      intros j Hj. apply E3. apply D2. apply D1. exact Hj.
    - simpl in H. destruct (emit_node T rk input s) as [[i1 s1]|] eqn:EI; [|discriminate].
      destruct (IH _ _ _ EI HI) as (A1 & B1 & C1 & D1).
      destruct (add_chain T (if ser then ["map"; "dest_sink"] else ["dest_sink"])
                          (sync_lvl rk input) [(i1, "[]")] s1) as [[i2 s2]|] eqn:EC; [|discriminate].
      destruct (add_chain_inv7 _ _ _ _ _ _ EC A1) as (A2 & B2 & C2 & D2 & E2);
        [intros j p [Hin|[]]; inversion Hin; subst; exact B1 | apply Asend |].
      destruct (add_chain_inv7 _ _ _ _ _ _ H A2) as (A3 & B3 & C3 & D3 & E3);
        [intros j p [] | apply Arecv |].
      split; [exact A3|]. split; [exact B3|]. split; [congruence|].
      intros j Hj. apply E3. apply E2. apply D1. exact Hj.
  Qed.

  Lemma emit_roots_inv7 : forall f s s', emit_roots T rk f s = Some s' -> Inv7 s -> Inv7 s'.
  Proof.
    induction f as [|r f IH]; intros s s' H HI; simpl in H; [inversion H; subst; assumption|].
    destruct (emit_root T rk r s) as [s1|] eqn:ER; [|discriminate].
    eapply IH; [exact H|]. destruct r as [k input|c input]; simpl in ER.
    - destruct (emit_node T rk input s) as [[i1 s0]|] eqn:EI; [|discriminate].
      destruct (emit_node_inv7 _ _ _ _ EI HI) as (A1 & B1 & C1 & D1).
      destruct (add_op T (sink_op k) (sync_lvl rk input) [(i1, "[]")] s0) as [n s2] eqn:EO.
      inversion ER; subst. pose proof (Asink k) as HS. unfold chain_agree in HS.
      rewrite !andb_true_iff in HS. destruct HS as [[S1 S2] _].
      destruct (add_op_inv7 _ _ _ _ _ _ EO A1) as (A2 & _);
        [intros j p [Hin|[]]; inversion Hin; subst; exact B1 | exact S1 | exact S2 | exact A2].
    - destruct (emit_node T rk input s) as [[i1 s0]|] eqn:EI; [|discriminate].
      destruct (emit_node_inv7 _ _ _ _ EI HI) as (A1 & B1 & C1 & D1).
      destruct (add_op T "identity" (sync_lvl rk input) [(i1, "[]")] s0) as [n s2] eqn:EO.
      inversion ER; subst. pose proof Aident as Hi0. unfold chain_agree in Hi0. rewrite !andb_true_iff in Hi0.
      destruct Hi0 as [[S1 S2] _].
      destruct (add_op_inv7 _ _ _ _ _ _ EO A1) as (A2 & B2 & _);
        [intros j p [Hin|[]]; inversion Hin; subst; exact B1 | exact S1 | exact S2 |].
      destruct A2 as [J1 J2 J3 J4 J5 J6]. constructor; simpl; try assumption.
      intros x [<-|Hx]; [simpl; exact B2 | apply J6; exact Hx].
  Qed.
End Accept.
