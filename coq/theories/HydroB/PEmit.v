(* HydroB engine, proofs about the emitter model (Model.v):
   for every flow and every ranking rk of its cycle ids that is `guarded` (each CycleSink's
   input depends synchronously only on lower-ranked CycleSources), the same-tick edges of the
   emitted flat graph strictly increase a potential (level, node id), hence the same-tick
   dependency graph has no cycle, hence the partitioner's acceptance criterion holds. *)
From Coq Require Import List String NArith Bool Lia ZifyBool ZifyN.
From HV Require Import HydroB.Model.
Import ListNotations.
Open Scope string_scope.
Open Scope N_scope.

(* ------------------------------------------------------------------ generic: a potential
   that strictly increases along every edge excludes cycles *)
Definition lex_lt (a b : N * N) : Prop := fst a < fst b \/ (fst a = fst b /\ snd a < snd b).

Lemma lex_lt_trans : forall a b c, lex_lt a b -> lex_lt b c -> lex_lt a c.
Proof. unfold lex_lt; intros [a1 a2] [b1 b2] [c1 c2]; simpl; lia. Qed.

Lemma lex_lt_irrefl : forall a, ~ lex_lt a a.
Proof. unfold lex_lt; intros [a1 a2]; simpl; lia. Qed.

Definition increasing (pot : N -> N) (es : list edge) : Prop :=
  forall e, In e es -> lex_lt (pot (e_src e), e_src e) (pot (e_dst e), e_dst e).

Lemma reach_increasing : forall pot es u v,
  increasing pot es -> reach es u v -> lex_lt (pot u, u) (pot v, v).
Proof.
  intros pot es u v Hinc H. induction H.
  - apply Hinc; assumption.
  - eapply lex_lt_trans; [apply Hinc; eassumption | exact IHreach].
Qed.

Lemma increasing_acyclic : forall pot es, increasing pot es -> forall v, ~ reach es v v.
Proof.
  intros pot es Hinc v H. eapply lex_lt_irrefl. eapply reach_increasing; eauto.
Qed.

(* ------------------------------------------------------------------ small facts *)
Lemma assoc_n_In : forall A k (l : list (N * A)) v, assoc_n k l = Some v -> In (k, v) l.
Proof.
  induction l as [|[k' v'] l IH]; simpl; intros v H; [discriminate|].
  destruct (N.eqb k' k) eqn:E.
  - apply N.eqb_eq in E. inversion H; subst. left; reflexivity.
  - right; auto.
Qed.

Lemma un_ops_alias_lvl : forall rk u i m, un_ops u (meta_of i) = [] ->
  sync_lvl rk (HUn u i m) = sync_lvl rk i.
Proof.
  intros rk u i m H. destruct u; simpl in *; try reflexivity; try discriminate.
Qed.

Lemma un_lvl_cases : forall rk u i m,
  (u = UDeferTick /\ sync_lvl rk (HUn u i m) = 0) \/ sync_lvl rk (HUn u i m) = sync_lvl rk i.
Proof. intros rk u i m. destruct u; simpl; auto. Qed.

Section Proofs.
  Variable T : optable.
  Variable rk : N -> N.
  Hypothesis Tsane : is_delayed T "defer_tick_lazy" "[]" = true.

  (* what is known of an ident at level l *)
  Definition ident_ok (ns : list gnode) (next : N) (i : ident) (l : N) : Prop :=
    match i with
    | inl n => n < next /\ lab ns n <= l
    | inr c => rk c + 1 <= l
    end.

  Record Inv (s : st) : Prop := mkInv {
    inv_nodes : forall x, In x (s_nodes s) -> n_id x < s_next s;
    inv_edges : forall e, In e (s_edges s) ->
        e_src e < s_next s /\ e_dst e < s_next s /\
        (e_tick e = false ->
         lab (s_nodes s) (e_src e) <= lab (s_nodes s) (e_dst e) /\ e_src e < e_dst e);
    inv_pend : forall p, In p (s_pend s) ->
        p_dst p < s_next s /\
        (p_tick p = false -> rk (p_cyc p) + 1 <= lab (s_nodes s) (p_dst p));
    inv_tees : forall x, In x (s_tees s) ->
        ident_ok (s_nodes s) (s_next s) (fst (snd x)) (snd (snd x));
    inv_sinks : forall x, In x (s_sinks s) ->
        snd x < s_next s /\ lab (s_nodes s) (snd x) <= rk (fst x)
  }.

  Definition ext (s s' : st) : Prop :=
    s_next s <= s_next s' /\
    forall n, n < s_next s -> lab (s_nodes s') n = lab (s_nodes s) n.

  Lemma ext_refl : forall s, ext s s.
  Proof. intros s; split; [lia | auto]. Qed.

  Lemma ext_trans : forall a b c, ext a b -> ext b c -> ext a c.
  Proof.
    intros a b c [H1 H2] [H3 H4]. split; [lia|].
    intros n Hn. rewrite H4 by lia. apply H2; assumption.
  Qed.

  Lemma ident_ok_ext : forall s s' i l,
    ext s s' -> ident_ok (s_nodes s) (s_next s) i l ->
    ident_ok (s_nodes s') (s_next s') i l.
  Proof.
    intros s s' i l [H1 H2] H. destruct i as [n|c]; simpl in *; [|assumption].
    destruct H as [Hn Hl]. split; [lia|]. rewrite H2 by assumption. assumption.
  Qed.

  Lemma ident_ok_mono : forall ns next i l l', l <= l' ->
    ident_ok ns next i l -> ident_ok ns next i l'.
  Proof. intros ns next i l l' Hl H. destruct i; simpl in *; lia. Qed.

  Lemma Inv0 : Inv st0.
  Proof. constructor; simpl; intros; contradiction. Qed.

  (* ---------------------------------------------------------------- link_inputs *)
  Lemma link_inputs_spec : forall ins dst op es ps es' ps',
    link_inputs T dst op ins es ps = (es', ps') ->
    (forall e, In e es' -> In e es \/
        (e_dst e = dst /\ exists p, In (inl (e_src e), p) ins /\ e_tick e = is_delayed T op p)) /\
    (forall q, In q ps' -> In q ps \/
        (p_dst q = dst /\ exists p, In (inr (p_cyc q), p) ins /\ p_tick q = is_delayed T op p)).
  Proof.
    induction ins as [|[[n|c] port] r IH]; simpl; intros dst op es ps es' ps' H.
    - inversion H; subst. split; intros; left; assumption.
    - apply IH in H. destruct H as [He Hp]. split.
      + intros e Hin. destruct (He e Hin) as [Hin'|[Hd [p [Hp1 Hp2]]]].
        * destruct Hin' as [Heq|Hin'].
          -- subst e; simpl. right. split; [reflexivity|]. exists port. split; [left; reflexivity|reflexivity].
          -- left; assumption.
        * right. split; [assumption|]. exists p. split; [right; assumption|assumption].
      + intros q Hin. destruct (Hp q Hin) as [Hin'|[Hd [p [Hp1 Hp2]]]].
        * left; assumption.
        * right. split; [assumption|]. exists p. split; [right; assumption|assumption].
    - apply IH in H. destruct H as [He Hp]. split.
      + intros e Hin. destruct (He e Hin) as [Hin'|[Hd [p [Hp1 Hp2]]]].
        * left; assumption.
        * right. split; [assumption|]. exists p. split; [right; assumption|assumption].
      + intros q Hin. destruct (Hp q Hin) as [Hin'|[Hd [p [Hp1 Hp2]]]].
        * destruct Hin' as [Heq|Hin'].
          -- subst q; simpl. right. split; [reflexivity|]. exists port. split; [left; reflexivity|reflexivity].
          -- left; assumption.
        * right. split; [assumption|]. exists p. split; [right; assumption|assumption].
  Qed.

  Lemma lab_cons_old : forall x ns n, n_id x <> n -> lab (x :: ns) n = lab ns n.
  Proof.
    intros x ns n H. unfold lab. simpl.
    destruct (N.eqb (n_id x) n) eqn:E; [apply N.eqb_eq in E; contradiction | reflexivity].
  Qed.

  Lemma lab_cons_new : forall x ns, lab (x :: ns) (n_id x) = n_lvl x.
  Proof. intros x ns. unfold lab. simpl. rewrite N.eqb_refl. reflexivity. Qed.

  (* ---------------------------------------------------------------- add_op *)
  Lemma add_op_spec : forall op lvl ins s id s',
    add_op T op lvl ins s = (id, s') -> Inv s ->
    (forall i p, In (i, p) ins -> exists l',
       ident_ok (s_nodes s) (s_next s) i l' /\ (is_delayed T op p = true \/ l' <= lvl)) ->
    Inv s' /\ ext s s' /\ id = s_next s /\ s_next s' = id + 1 /\ lab (s_nodes s') id = lvl /\
    s_tees s' = s_tees s /\ s_sinks s' = s_sinks s.
  Proof.
    intros op lvl ins s id s' H HI Hins. unfold add_op in H.
    destruct (link_inputs T (s_next s) op ins (s_edges s) (s_pend s)) as [es ps] eqn:EL.
    inversion H; subst id s'; clear H. simpl.
    apply link_inputs_spec in EL. destruct EL as [He Hp].
    set (x := mkNode (s_next s) op lvl (N.of_nat (List.length ins))).
    assert (Hold : forall n, n < s_next s -> lab (x :: s_nodes s) n = lab (s_nodes s) n).
    { intros n Hn. apply lab_cons_old. unfold x; simpl. lia. }
    assert (Hnew : lab (x :: s_nodes s) (s_next s) = lvl).
    { pose proof (lab_cons_new x (s_nodes s)) as Hx. unfold x in Hx at 2 3. simpl in Hx. exact Hx. }
    split; [|split; [|split; [|split; [|split; [|split]]]]]; try reflexivity; try assumption.
    - destruct HI as [I1 I2 I3 I4 I5]. constructor; simpl.
      + intros y [Hy|Hy]; [subst y; unfold x; simpl; lia | specialize (I1 y Hy); lia].
      + intros e Hin. destruct (He e Hin) as [Hin'|[Hd [p [Hp1 Hp2]]]].
        * destruct (I2 e Hin') as [A [B C]]. split; [lia|]. split; [lia|].
          intro Ht. rewrite !Hold by assumption. apply C; assumption.
        * destruct (Hins _ _ Hp1) as [l' [Hid Hlv]]. simpl in Hid. destruct Hid as [Hn Hl].
          rewrite Hd. split; [lia|]. split; [lia|].
          intro Ht. destruct Hlv as [Hdel|Hle]; [rewrite Hp2, Hdel in Ht; discriminate|].
          rewrite Hnew. rewrite Hold by assumption. split; lia.
      + intros q Hin. destruct (Hp q Hin) as [Hin'|[Hd [p [Hp1 Hp2]]]].
        * destruct (I3 q Hin') as [A B]. split; [lia|].
          intro Ht. rewrite Hold by assumption. apply B; assumption.
        * rewrite Hd. split; [lia|]. intro Ht. rewrite Hnew.
          destruct (Hins _ _ Hp1) as [l' [Hid [Hdel|Hle]]].
          -- rewrite Hp2, Hdel in Ht. discriminate.
          -- simpl in Hid. lia.
      + intros y Hy. specialize (I4 y Hy). destruct (fst (snd y)) as [n|c]; simpl in *; [|assumption].
        destruct I4 as [A B]. split; [lia|]. rewrite Hold by assumption. assumption.
      + intros y Hy. destruct (I5 y Hy) as [A B]. split; [lia|]. rewrite Hold by assumption. assumption.
    - split; simpl; [lia | assumption].
  Qed.

  (* ---------------------------------------------------------------- add_chain *)
  Lemma add_chain_spec : forall ops lvl ins s i s',
    add_chain T ops lvl ins s = Some (i, s') -> Inv s ->
    (forall j p, In (j, p) ins -> exists l',
       ident_ok (s_nodes s) (s_next s) j l' /\ (is_delayed T (hd "" ops) p = true \/ l' <= lvl)) ->
    Inv s' /\ ext s s' /\ ident_ok (s_nodes s') (s_next s') i lvl /\
    s_tees s' = s_tees s /\ s_sinks s' = s_sinks s.
  Proof.
    induction ops as [|op rest IH]; intros lvl ins s i s' H HI Hins; [discriminate|].
    simpl in H. destruct rest as [|op2 rest'].
    - destruct (add_op T op lvl ins s) as [id s1] eqn:EA. inversion H; subst i s'; clear H.
      destruct (add_op_spec _ _ _ _ _ _ EA HI Hins) as [I1 [E1 [Hid [Hnx [Hlab [Ht Hs]]]]]].
      split; [assumption|]. split; [assumption|]. split; [|split; assumption].
      simpl. split; [lia | rewrite Hlab; lia].
    - destruct (add_op T op lvl ins s) as [id s1] eqn:EA.
      destruct (add_op_spec _ _ _ _ _ _ EA HI Hins) as [I1 [E1 [Hid [Hnx [Hlab [Ht Hs]]]]]].
      apply IH in H; [| assumption |].
      + destruct H as [I2 [E2 [Hi [Ht2 Hs2]]]].
        split; [assumption|]. split; [eapply ext_trans; eassumption|]. split; [assumption|].
        split; congruence.
      + intros j p [Hj|[]]. inversion Hj; subst j p. exists lvl. split; [|right; lia].
        simpl. split; [lia | rewrite Hlab; lia].
  Qed.

  Arguments add_chain : simpl never.

  (* ---------------------------------------------------------------- emit_node *)
  Lemma emit_node_spec : forall h s i s',
    emit_node T rk h s = Some (i, s') -> Inv s ->
    Inv s' /\ ext s s' /\ ident_ok (s_nodes s') (s_next s') i (sync_lvl rk h) /\
    s_sinks s' = s_sinks s.
  Proof.
    induction h as [sk m | c m | id inner IH m | u input IH m | b l IHl r IHr m | ser deser input IH m];
      intros s i s' H HI.
    - (* source *)
      simpl in H. apply add_chain_spec in H; [| assumption | intros j p []].
      destruct H as [I1 [E1 [Hi [_ Hs]]]]. simpl. auto.
    - (* cycle source *)
      simpl in H. inversion H; subst i s'. split; [assumption|]. split; [apply ext_refl|].
      split; [simpl; lia | reflexivity].
    - (* tee *)
      simpl in H. destruct (assoc_n id (s_tees s)) as [[i0 l0]|] eqn:EA.
      + destruct (N.eqb l0 (sync_lvl rk inner)) eqn:EL; [|discriminate].
        inversion H; subst i s'. apply N.eqb_eq in EL.
        split; [assumption|]. split; [apply ext_refl|]. split; [|reflexivity].
        apply assoc_n_In in EA. apply (inv_tees _ HI) in EA. simpl in *. rewrite <- EL. assumption.
      + destruct (emit_node T rk inner s) as [[i1 s1]|] eqn:EI; [|discriminate].
        destruct (IH _ _ _ EI HI) as [I1 [E1 [Hi1 Hs1]]].
        destruct (add_op T "tee" (sync_lvl rk inner) [(i1, "[]")] s1) as [n s2] eqn:EO.
        inversion H; subst i s'; clear H.
        assert (Hins : forall j p, In (j, p) [(i1, "[]")] -> exists l',
                  ident_ok (s_nodes s1) (s_next s1) j l' /\
                  (is_delayed T "tee" p = true \/ l' <= sync_lvl rk inner)).
        { intros j p [Hj|[]]. inversion Hj; subst j p. exists (sync_lvl rk inner). split; [assumption|right; lia]. }
        destruct (add_op_spec _ _ _ _ _ _ EO I1 Hins) as [I2 [E2 [Hid [Hnx [Hlab [Ht Hs2]]]]]].
        assert (Hn : ident_ok (s_nodes s2) (s_next s2) (inl n) (sync_lvl rk inner)).
        { simpl. split; [lia | rewrite Hlab; lia]. }
        split; [|split; [|split]].
        * destruct I2 as [J1 J2 J3 J4 J5]. constructor; simpl; try assumption.
          intros x [Hx|Hx]; [subst x; simpl; exact Hn | apply J4; assumption].
        * destruct (ext_trans _ _ _ E1 E2) as [A B]. split; simpl; assumption.
        * simpl. exact Hn.
        * simpl. congruence.
    - (* unary *)
      simpl in H. destruct (un_unimplemented u (meta_of input)); [discriminate|].
      destruct (emit_node T rk input s) as [[i1 s1]|] eqn:EI; [|discriminate].
      destruct (IH _ _ _ EI HI) as [I1 [E1 [Hi1 Hs1]]].
      destruct (un_ops u (meta_of input)) as [|op rest] eqn:EU.
      + inversion H; subst i s'. split; [assumption|]. split; [assumption|].
        split; [|assumption]. rewrite (un_ops_alias_lvl rk u input m EU). assumption.
      + apply add_chain_spec in H; [| assumption |].
        * destruct H as [I2 [E2 [Hi [_ Hs2]]]].
          split; [assumption|]. split; [eapply ext_trans; eassumption|]. split; [assumption|congruence].
        * intros j p [Hj|[]]. inversion Hj; subst j p. exists (sync_lvl rk input).
          split; [assumption|].
          destruct (un_lvl_cases rk u input m) as [[Hu _]|Heq].
          -- subst u. simpl in EU. inversion EU; subst op rest. left. simpl. exact Tsane.
          -- right. change (sync_lvl rk input <= sync_lvl rk (HUn u input m)). rewrite Heq. lia.
    - (* binary *)
      simpl in H.
      destruct (emit_node T rk l s) as [[i1 s1]|] eqn:E1; [|discriminate].
      destruct (IHl _ _ _ E1 HI) as [I1 [X1 [Hi1 Hs1]]].
      destruct (emit_node T rk r s1) as [[i2 s2]|] eqn:E2; [|discriminate].
      destruct (IHr _ _ _ E2 I1) as [I2 [X2 [Hi2 Hs2]]].
      destruct (bin_ops b (meta_of l) (meta_of r)) as [ops [p1 p2]] eqn:EB.
      apply add_chain_spec in H; [| assumption |].
      + destruct H as [I3 [X3 [Hi [_ Hs3]]]].
        split; [assumption|]. split; [eapply ext_trans; [eassumption|eapply ext_trans; eassumption]|].
        split; [assumption|congruence].
      + intros j p [Hj|[Hj|[]]]; inversion Hj; subst j p.
        * exists (sync_lvl rk l). split; [eapply ident_ok_ext; eassumption|]. right. simpl. lia.
        * exists (sync_lvl rk r). split; [assumption|]. right. simpl. lia.
    - (* network *)
      simpl in H. destruct (emit_node T rk input s) as [[i1 s1]|] eqn:EI; [|discriminate].
      destruct (IH _ _ _ EI HI) as [I1 [E1 [Hi1 Hs1]]].
      destruct (add_chain T (if ser then ["map"; "dest_sink"] else ["dest_sink"])
                          (sync_lvl rk input) [(i1, "[]")] s1) as [[i2 s2]|] eqn:EC; [|discriminate].
      apply add_chain_spec in EC; [| assumption |].
      + destruct EC as [I2 [E2 [_ [_ Hs2]]]].
        apply add_chain_spec in H; [| assumption | intros j p []].
        destruct H as [I3 [E3 [Hi [_ Hs3]]]].
        split; [assumption|]. split; [eapply ext_trans; [eassumption|eapply ext_trans; eassumption]|].
        split; [simpl; assumption|congruence].
      + intros j p [Hj|[]]. inversion Hj; subst j p. exists (sync_lvl rk input).
        split; [assumption|right; lia].
  Qed.

  (* ---------------------------------------------------------------- roots *)
  Lemma emit_root_spec : forall r s s',
    emit_root T rk r s = Some s' -> Inv s -> guarded_root rk r = true -> Inv s' /\ ext s s'.
  Proof.
    intros [k input | c input] s s' H HI HG; simpl in H.
    - destruct (emit_node T rk input s) as [[i1 s1]|] eqn:EI; [|discriminate].
      destruct (emit_node_spec _ _ _ _ EI HI) as [I1 [E1 [Hi1 Hs1]]].
      destruct (add_op T (sink_op k) (sync_lvl rk input) [(i1, "[]")] s1) as [n s2] eqn:EO.
      inversion H; subst s'; clear H.
      assert (Hins : forall j p, In (j, p) [(i1, "[]")] -> exists l',
                ident_ok (s_nodes s1) (s_next s1) j l' /\
                (is_delayed T (sink_op k) p = true \/ l' <= sync_lvl rk input)).
      { intros j p [Hj|[]]. inversion Hj; subst j p. exists (sync_lvl rk input). split; [assumption|right; lia]. }
      destruct (add_op_spec _ _ _ _ _ _ EO I1 Hins) as [I2 [E2 _]].
      split; [assumption | eapply ext_trans; eassumption].
    - destruct (emit_node T rk input s) as [[i1 s1]|] eqn:EI; [|discriminate].
      destruct (emit_node_spec _ _ _ _ EI HI) as [I1 [E1 [Hi1 Hs1]]].
      destruct (add_op T "identity" (sync_lvl rk input) [(i1, "[]")] s1) as [n s2] eqn:EO.
      inversion H; subst s'; clear H.
      assert (Hins : forall j p, In (j, p) [(i1, "[]")] -> exists l',
                ident_ok (s_nodes s1) (s_next s1) j l' /\
                (is_delayed T "identity" p = true \/ l' <= sync_lvl rk input)).
      { intros j p [Hj|[]]. inversion Hj; subst j p. exists (sync_lvl rk input). split; [assumption|right; lia]. }
      destruct (add_op_spec _ _ _ _ _ _ EO I1 Hins) as [I2 [E2 [Hid [Hnx [Hlab [Ht Hs2]]]]]].
      simpl in HG. apply N.leb_le in HG.
      split.
      + destruct I2 as [J1 J2 J3 J4 J5]. constructor; simpl; try assumption.
        intros x [Hx|Hx]; [subst x; simpl; split; [lia | rewrite Hlab; assumption] | apply J5; assumption].
      + destruct (ext_trans _ _ _ E1 E2) as [A B]. split; simpl; assumption.
  Qed.

  Lemma emit_roots_spec : forall f s s',
    emit_roots T rk f s = Some s' -> Inv s -> guarded rk f = true -> Inv s'.
  Proof.
    induction f as [|r f IH]; intros s s' H HI HG; simpl in H.
    - inversion H; subst; assumption.
    - simpl in HG. apply andb_true_iff in HG. destruct HG as [G1 G2].
      destruct (emit_root T rk r s) as [s1|] eqn:ER; [|discriminate].
      destruct (emit_root_spec _ _ _ ER HI G1) as [I1 _]. eapply IH; eassumption.
  Qed.

  (* ---------------------------------------------------------------- variable links *)
  Lemma resolve_spec : forall s es, Inv s -> resolve (s_sinks s) (s_pend s) = Some es ->
    forall e, In e es -> e_tick e = false ->
      lab (s_nodes s) (e_src e) < lab (s_nodes s) (e_dst e).
  Proof.
    intros s es HI. pose proof (inv_pend _ HI) as HP. pose proof (inv_sinks _ HI) as HS.
    revert es HP. generalize (s_pend s) as ps.
    induction ps as [|p ps IH]; intros es HP H e Hin Ht; simpl in H.
    - inversion H; subst. contradiction.
    - destruct (assoc_n (p_cyc p) (s_sinks s)) as [n|] eqn:EA; [|discriminate].
      destruct (resolve (s_sinks s) ps) as [es0|] eqn:ER; [|discriminate].
      inversion H; subst es; clear H. destruct Hin as [He|Hin].
      + subst e. simpl in *. apply assoc_n_In in EA. destruct (HS _ EA) as [_ B]. simpl in B.
        destruct (HP p (or_introl eq_refl)) as [_ C]. specialize (C Ht). lia.
      + eapply IH; try eassumption; try reflexivity. intros q Hq. apply HP. right; assumption.
  Qed.

  (* ---------------------------------------------------------------- the theorems *)
  Theorem emit_same_tick_increasing : forall f g,
    guarded rk f = true -> emit_flow T rk f = Some g ->
    exists pot, increasing pot (same_tick g).
  Proof.
    intros f g HG H. unfold emit_flow in H.
    destruct (emit_roots T rk f st0) as [s|] eqn:ER; [|discriminate].
    destruct (resolve (s_sinks s) (s_pend s)) as [es|] eqn:EV; [|discriminate].
    inversion H; subst g; clear H.
    pose proof (emit_roots_spec _ _ _ ER Inv0 HG) as HI.
    exists (lab (s_nodes s)). intros e Hin. unfold same_tick in Hin. simpl in Hin.
    apply filter_In in Hin. destruct Hin as [Hin Ht]. apply negb_true_iff in Ht.
    apply in_app_or in Hin. destruct Hin as [Hin|Hin].
    - left. simpl. eapply resolve_spec; eassumption.
    - destruct (inv_edges _ HI e Hin) as [_ [_ C]]. destruct (C Ht) as [C1 C2].
      unfold lex_lt. simpl. lia.
  Qed.

  Theorem emit_accepted : forall f g,
    guarded rk f = true -> emit_flow T rk f = Some g -> partition_accepts g.
  Proof.
    intros f g HG H. destruct (emit_same_tick_increasing f g HG H) as [pot Hp].
    exact (increasing_acyclic pot _ Hp).
  Qed.
End Proofs.
