(* HydroB engine: slices and atomic ticks over the simulator's real decision procedures.
   Definitions only.  The hooks, `auto` (autonomous_decision), `release` and `run_hooks` are
   engine Sim's model of hydro_lang/src/sim/{runtime,compiled}.rs (coq/theories/Sim/Model.v);
   nothing of it is duplicated here.

   A slice (and the unified tick of an atomic region) is a SimTick: a list of hooks, one per
   `use::` hook of the slice (SimBuilder::batch creates a StreamHook / KeyedStreamHook /
   SingletonHook / KeyedSingletonHook per batched input; begin_atomic = batch; a batch whose
   input is already Atomic has no hook).  One tick = arrivals are pushed onto the hooks'
   queues, then `run_hooks` decides and releases every hook. *)
From Coq Require Import List Arith Bool NArith.
From HV Require Import Sim.Model.
Import ListNotations.
Open Scope N_scope.

(* every hook kind of sim/runtime.rs that SimBuilder::batch creates for a slice *)
Definition slice_kind (h : hook) : bool := true.

Fixpoint push_key (k v : N) (m : list (N * list N)) : list (N * list N) :=
  match m with
  | [] => [(k, [v])]
  | (k', q) :: m' => if N.eqb k k' then (k', q ++ [v]) :: m' else (k', q) :: push_key k v m'
  end.
Definition push_keyed (m : list (N * list N)) (arr : list (N * N)) : list (N * list N) :=
  fold_left (fun m kv => push_key (fst kv) (snd kv) m) arr m.

(* arrivals (key, value) reach a hook's input queue; unkeyed hooks ignore the key *)
Definition push (h : hook) (arr : list (N * N)) : hook :=
  match h with
  | HStreamT q tr => HStreamT (q ++ map snd arr) tr
  | HStreamN q tr => HStreamN (q ++ map snd arr) tr
  | HKeyedT m tr => HKeyedT (push_keyed m arr) tr
  | HKeyedN m tr => HKeyedN (push_keyed m arr) tr
  | HSingle q tr last => HSingle (q ++ map snd arr) tr last
  | HPass q tr last => HPass (q ++ map snd arr) tr last
  | HKSingle m tr last => HKSingle (push_keyed m arr) tr last
  end.

Fixpoint push_all (hs : list hook) (arrs : list (list (N * N))) : list hook :=
  match hs, arrs with
  | h :: hs', a :: arrs' => push h a :: push_all hs' arrs'
  | _, _ => hs
  end.

(* per tick: arrivals per hook, the decisions the driver returns *)
Definition tick_script := (list (list (N * N)) * script)%type.

(* what each hook released in each tick (with the decision's non-trivial flag) *)
Fixpoint run_sim_slices (hs : list hook) (sc : list tick_script)
  : res (list (list (list (N * N) * bool)) * list hook) :=
  match sc with
  | [] => Ok ([], hs)
  | (arrs, ds) :: r =>
      bind (run_hooks (push_all hs arrs) ds) (fun '(hs', outs, _) =>
        bind (run_sim_slices hs' r) (fun '(outss, hsf) => Ok (outs :: outss, hsf)))
  end.

(* the pending input of a hook as (key, value) pairs *)
Definition pairs_of (m : list (N * list N)) : list (N * N) :=
  concat (map (fun e => map (pair (fst e)) (snd e)) m).
Definition content (h : hook) : list (N * N) :=
  match h with
  | HStreamT q _ | HStreamN q _ | HSingle q _ _ | HPass q _ _ => unkeyed q
  | HKeyedT m _ | HKeyedN m _ | HKSingle m _ _ => pairs_of m
  end.

(* ---------------------------------------------------------------- the atomic tick (C34)
   hooks = [write hook (begin_atomic's batch); read hook (the slice's batch)]; the state is the
   list of writes applied so far; the atomic snapshot of a tick is the state after its writes *)
Record sim_astate := mkSA { sa_hooks : list hook; sa_applied : list (N * N) }.

Definition sim_aobs := (list (N * N) * list (N * N * list (N * N)))%type.  (* acks, (read, snapshot) *)

(* nw = number of write hooks (atomic regions feeding the state); the remaining hooks of the
   tick are the read paths (slices taking an atomic snapshot) *)
Definition sim_astep (nw : nat) (s : sim_astate) (t : tick_script) : res (sim_aobs * sim_astate) :=
  bind (run_hooks (push_all (sa_hooks s) (fst t)) (snd t)) (fun '(hs', outs, _) =>
    let wout := concat (map fst (firstn nw outs)) in
    let rout := concat (map fst (skipn nw outs)) in
    let applied' := sa_applied s ++ wout in
    Ok ((wout, map (fun r => (r, applied')) rout), mkSA hs' applied')).

Fixpoint run_sim_atomic (nw : nat) (s : sim_astate) (sc : list tick_script) : res (list sim_aobs) :=
  match sc with
  | [] => Ok []
  | t :: r =>
      bind (sim_astep nw s t) (fun '(o, s') =>
        bind (run_sim_atomic nw s' r) (fun os => Ok (o :: os)))
  end.

(* ---------------------------------------------------------------- correspondence with the real
   hooks (harness/h_sim, engine Sim's harness: real StreamHook / KeyedStreamHook / SingletonHook
   objects under the real run_hooks with a scripted bolero driver).  Per round the model hooks are
   rebuilt from the queues the implementation reports before the round (keyed maps in the
   implementation's iteration order = the order oracle), `last` is tracked by tools/hydrob.py. *)
Definition queues_of (h : hook) : list (N * list N) :=
  match h with
  | HStreamT q _ | HStreamN q _ | HSingle q _ _ | HPass q _ _ => [(0, q)]
  | HKeyedT m _ | HKeyedN m _ | HKSingle m _ _ => m
  end.

Fixpoint lN_eqb (a b : list N) : bool :=
  match a, b with
  | [], [] => true
  | x :: a', y :: b' => N.eqb x y && lN_eqb a' b'
  | _, _ => false
  end.
Fixpoint lNN_eqb (a b : list (N * N)) : bool :=
  match a, b with
  | [], [] => true
  | (x1, x2) :: a', (y1, y2) :: b' => N.eqb x1 y1 && N.eqb x2 y2 && lNN_eqb a' b'
  | _, _ => false
  end.
Fixpoint queues_eqb (a b : list (N * list N)) : bool :=
  match a, b with
  | [], [] => true
  | (k1, q1) :: a', (k2, q2) :: b' => N.eqb k1 k2 && lN_eqb q1 q2 && queues_eqb a' b'
  | _, _ => false
  end.
Fixpoint all2 {X Y} (f : X -> Y -> bool) (a : list X) (b : list Y) : bool :=
  match a, b with
  | [], [] => true
  | x :: a', y :: b' => f x y && all2 f a' b'
  | _, _ => false
  end.

(* one round: hooks before, decisions used, implementation's emitted items and queues after *)
Record sround := mkRound {
  sr_hooks : list hook; sr_ds : script;
  sr_emitted : list (list (N * N)); sr_after : list (list (N * list N))
}.

Definition round_agrees (r : sround) : bool :=
  match run_hooks (sr_hooks r) (sr_ds r) with
  | Ok (hs', outs, rest) =>
      all2 lNN_eqb (map fst outs) (sr_emitted r)
      && all2 queues_eqb (map queues_of hs') (sr_after r)
      && is_nil rest
  | _ => false
  end.

(* multiset equality on (key, value) pairs *)
Fixpoint rem1 (x : N * N) (l : list (N * N)) : option (list (N * N)) :=
  match l with
  | [] => None
  | y :: r => if N.eqb (fst x) (fst y) && N.eqb (snd x) (snd y) then Some r
              else match rem1 x r with Some r' => Some (y :: r') | None => None end
  end.
Fixpoint ms_eqb (a b : list (N * N)) : bool :=
  match a with
  | [] => is_nil b
  | x :: r => match rem1 x b with Some b' => ms_eqb r b' | None => false end
  end.
Fixpoint sortedNle (l : list N) : bool :=
  match l with
  | [] => true
  | x :: r => match r with [] => true | y :: _ => (x <=? y) && sortedNle r end
  end.

(* executable C31 clauses on one hook's observed column: kind code 0 = TotalOrder batch,
   1 = NoOrder / keyed batch, 2 = snapshot; pushed = everything pushed to the hook in order,
   emitted = per round, final = pairs still queued at the end *)
Definition hook_clause_b (kind : N) (pushed : list (N * N)) (emitted : list (list (N * N)))
           (final : list (N * N)) : bool :=
  match kind with
  | 0 => lNN_eqb (concat emitted ++ final) pushed
  | 1 => ms_eqb (concat emitted ++ final) pushed
  | 2 => sortedNle (map snd (concat emitted))
         && forallb (fun e => Nat.eqb (length e) 1) emitted
  | _ => (* keyed snapshot hook: per key never back, at most one release per key per round *)
         let all := concat emitted in
         forallb (fun k => sortedNle (map snd (filter (fun kv => N.eqb (fst kv) k) all))) (map fst all)
         && forallb (fun e => forallb (fun k =>
              Nat.leb (length (filter (fun kv => N.eqb (fst kv) k) e)) 1) (map fst e)) emitted
  end.

Definition c31_sim_verdict (rounds : list sround) (continuity : bool)
           (cols : list (N * list (N * N) * list (list (N * N)) * list (N * N))) : N :=
  (if forallb round_agrees rounds && continuity then 0 else 1)
  + (if forallb (fun c => hook_clause_b (fst (fst (fst c))) (snd (fst (fst c))) (snd (fst c)) (snd c)) cols
     then 0 else 2).

(* C34: hooks [writes; reads]; responses are computed from the implementation's releases as the
   atomic snapshot does (state after this tick's writes); the predicate is read-after-write *)
Fixpoint raw_sim_b (nw : nat) (applied : list (N * N)) (rounds : list sround) : bool :=
  match rounds with
  | [] => true
  | r :: rest =>
      let applied' := applied ++ concat (firstn nw (sr_emitted r)) in
      (* every write acknowledged so far is in the snapshot this tick's reads are answered from *)
      forallb (fun w => existsb (fun a => N.eqb (fst a) (fst w) && N.eqb (snd a) (snd w)) applied') applied'
      && Nat.leb nw (length (sr_emitted r))
      && raw_sim_b nw applied' rest
  end.

(* wcols: per write hook (kind code, pushed, emitted per round, finally queued); kind 0 = unkeyed
   TotalOrder hook (acks in arrival order), 1 = NoOrder / keyed hook (multiset form) *)
Definition c34_sim_verdict (rounds : list sround) (continuity : bool) (nw : nat)
           (wcols : list (N * list (N * N) * list (list (N * N)) * list (N * N))) : N :=
  (if forallb round_agrees rounds && continuity then 0 else 1)
  + (if forallb (fun c => hook_clause_b (fst (fst (fst c))) (snd (fst (fst c))) (snd (fst c)) (snd c)) wcols
        && raw_sim_b nw [] rounds then 0 else 2).
