(* HydroB engine: slices and atomic ticks over the simulator's real decision procedures.
   Definitions only.  The hooks, `auto` (autonomous_decision), `release` and `run_hooks` are
   engine Sim's model of hydro_lang/src/sim/{runtime,compiled}.rs (coq/theories/Sim/Model.v);
   nothing of it is duplicated here.

   A slice (and the unified tick of an atomic region) is a SimTick: a list of hooks, one per
   `use::` hook of the slice (SimBuilder::batch creates a StreamHook / KeyedStreamHook /
   SingletonHook / KeyedSingletonHook per batched input; begin_atomic = batch; a batch whose
   input is already Atomic has no hook).  One tick = arrivals are pushed onto the hooks'
   queues, then `run_hooks` decides and releases every hook. *)
From Coq Require Import List Arith Bool NArith.
From HV Require Import Sim.Model.
Import ListNotations.
Open Scope N_scope.

(* hook kinds a slice of the modelled flows uses (no passthrough / keyed-singleton hooks) *)
Definition slice_kind (h : hook) : bool :=
  match h with
  | HStreamT _ _ | HStreamN _ _ | HKeyedT _ _ | HKeyedN _ _ | HSingle _ _ _ => true
  | _ => false
  end.

Fixpoint push_key (k v : N) (m : list (N * list N)) : list (N * list N) :=
  match m with
  | [] => [(k, [v])]
  | (k', q) :: m' => if N.eqb k k' then (k', q ++ [v]) :: m' else (k', q) :: push_key k v m'
  end.
Definition push_keyed (m : list (N * list N)) (arr : list (N * N)) : list (N * list N) :=
  fold_left (fun m kv => push_key (fst kv) (snd kv) m) arr m.

(* arrivals (key, value) reach a hook's input queue; unkeyed hooks ignore the key *)
Definition push (h : hook) (arr : list (N * N)) : hook :=
  match h with
  | HStreamT q tr => HStreamT (q ++ map snd arr) tr
  | HStreamN q tr => HStreamN (q ++ map snd arr) tr
  | HKeyedT m tr => HKeyedT (push_keyed m arr) tr
  | HKeyedN m tr => HKeyedN (push_keyed m arr) tr
  | HSingle q tr last => HSingle (q ++ map snd arr) tr last
  | HPass q tr => HPass (q ++ map snd arr) tr
  | HKSingle m tr last => HKSingle (push_keyed m arr) tr last
  end.

Fixpoint push_all (hs : list hook) (arrs : list (list (N * N))) : list hook :=
  match hs, arrs with
  | h :: hs', a :: arrs' => push h a :: push_all hs' arrs'
  | _, _ => hs
  end.

(* per tick: arrivals per hook, the decisions the driver returns *)
Definition tick_script := (list (list (N * N)) * script)%type.

(* what each hook released in each tick (with the decision's non-trivial flag) *)
Fixpoint run_sim_slices (hs : list hook) (sc : list tick_script)
  : res (list (list (list (N * N) * bool)) * list hook) :=
  match sc with
  | [] => Ok ([], hs)
  | (arrs, ds) :: r =>
      bind (run_hooks (push_all hs arrs) ds) (fun '(hs', outs, _) =>
        bind (run_sim_slices hs' r) (fun '(outss, hsf) => Ok (outs :: outss, hsf)))
  end.

(* the pending input of a hook as (key, value) pairs *)
Definition pairs_of (m : list (N * list N)) : list (N * N) :=
  concat (map (fun e => map (pair (fst e)) (snd e)) m).
Definition content (h : hook) : list (N * N) :=
  match h with
  | HStreamT q _ | HStreamN q _ | HSingle q _ _ | HPass q _ => unkeyed q
  | HKeyedT m _ | HKeyedN m _ | HKSingle m _ _ => pairs_of m
  end.

(* ---------------------------------------------------------------- the atomic tick (C34)
   hooks = [write hook (begin_atomic's batch); read hook (the slice's batch)]; the state is the
   list of writes applied so far; the atomic snapshot of a tick is the state after its writes *)
Record sim_astate := mkSA { sa_hooks : list hook; sa_applied : list (N * N) }.

Definition sim_aobs := (list (N * N) * list (N * N * list (N * N)))%type.  (* acks, (read, snapshot) *)

Definition sim_astep (s : sim_astate) (t : tick_script) : res (sim_aobs * sim_astate) :=
  bind (run_hooks (push_all (sa_hooks s) (fst t)) (snd t)) (fun '(hs', outs, _) =>
    match outs with
    | [(wout, _); (rout, _)] =>
        let applied' := sa_applied s ++ wout in
        Ok ((wout, map (fun r => (r, applied')) rout), mkSA hs' applied')
    | _ => Panic 0
    end).

Fixpoint run_sim_atomic (s : sim_astate) (sc : list tick_script) : res (list sim_aobs) :=
  match sc with
  | [] => Ok []
  | t :: r =>
      bind (sim_astep s t) (fun '(o, s') =>
        bind (run_sim_atomic s' r) (fun os => Ok (o :: os)))
  end.
