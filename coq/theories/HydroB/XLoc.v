(* HydroB engine: per-location view of the emitted graph.  The production builder keeps one
   FlatGraphBuilder per root location (ProdDfirBuilder::graph_mut), the model (Model.v) one
   graph in global emission order.  `flow_locs` gives, for the same traversal as `emit_flow`, the
   root location of every emitted operator; the implementation's per-location graphs are then
   placed into the model's global numbering and compared as before.  Definitions only. *)
From Coq Require Import List String NArith Bool.
From HV Require Import HydroB.Model HydroB.GenOps HydroB.XPartition.
Import ListNotations.
Open Scope string_scope.
Open Scope N_scope.
Open Scope list_scope.

(* root location key of every IR node, same shape as the hnode it annotates *)
Inductive ltree := LT (loc : N) (ch : list ltree).
Definition lt_loc (t : ltree) : N := match t with LT l _ => l end.
Definition lt_child (t : ltree) (k : nat) : ltree :=
  match t with LT l ch => nth k ch (LT l []) end.

Fixpoint memN (x : N) (l : list N) : bool :=
  match l with [] => false | y :: r => N.eqb x y || memN x r end.

Definition rep (l : N) (ops : list string) : list N := map (fun _ => l) ops.

(* locations of the operators emit_node creates, in creation order; seen tee ids *)
Fixpoint node_locs (h : hnode) (lt : ltree) (tees : list N) : list N * list N :=
  match h with
  | HSource sk m => (rep (lt_loc lt) (src_ops sk m), tees)
  | HCycleSource _ _ => ([], tees)
  | HTee id inner _ =>
      if memN id tees then ([], tees)
      else let '(l, t') := node_locs inner (lt_child lt 0) tees in (l ++ [lt_loc lt], id :: t')
  | HUn u input _ =>
      let '(l, t') := node_locs input (lt_child lt 0) tees in
      (l ++ rep (lt_loc lt) (un_ops u (meta_of input)), t')
  | HBin b l r _ =>
      let '(l1, t1) := node_locs l (lt_child lt 0) tees in
      let '(l2, t2) := node_locs r (lt_child lt 1) t1 in
      (l1 ++ l2 ++ rep (lt_loc lt) (fst (bin_ops b (meta_of l) (meta_of r))), t2)
  | HNetwork ser deser input _ =>
      let '(l, t') := node_locs input (lt_child lt 0) tees in
      (l ++ rep (lt_loc (lt_child lt 0)) (if ser then ["map"; "dest_sink"] else ["dest_sink"])
         ++ rep (lt_loc lt) (if deser then ["source_stream"; "map"] else ["source_stream"]), t')
  end.

Fixpoint flow_locs (f : flow) (lts : list ltree) (tees : list N) : list N :=
  match f, lts with
  | r :: f', lt :: lts' =>
      let input := match r with RSink _ i => i | RCycleSink _ i => i end in
      let '(l, t') := node_locs input lt tees in
      l ++ [lt_loc lt] ++ flow_locs f' lts' t'
  | _, _ => []
  end.

(* (location, rank within the location) of every global index *)
Fixpoint ranks (locs : list N) (seen : list N) : list (N * N) :=
  match locs with
  | [] => []
  | l :: r => (l, N.of_nat (List.length (filter (N.eqb l) seen))) :: ranks r (l :: seen)
  end.

Fixpoint find_glob (rk : list (N * N)) (i : N) (l k : N) : N :=
  match rk with
  | [] => 1000000
  | (l', k') :: r => if N.eqb l l' && N.eqb k k' then i else find_glob r (i + 1) l k
  end.

(* implementation side, per location: location key, operator names, local edges *)
Definition limpl := (N * list string * list (N * N * string * bool))%type.

Definition loc_nodes (ls : list limpl) (l : N) : list string :=
  match find (fun x => N.eqb (fst (fst x)) l) ls with Some x => snd (fst x) | None => [] end.

Definition merge_impl (locs : list N) (ls : list limpl) (pok panicked compiled : bool) : impl :=
  let rk := ranks locs [] in
  mkImpl (map (fun lk => nth (N.to_nat (snd lk)) (loc_nodes ls (fst lk)) "?") rk)
         (flat_map (fun x => map (fun e =>
              (find_glob rk 0 (fst (fst x)) (fst (fst (fst e))),
               find_glob rk 0 (fst (fst x)) (snd (fst (fst e))), snd (fst e), snd e)) (snd x)) ls)
         pok panicked compiled.

Definition sizes_match (locs : list N) (ls : list limpl) : bool :=
  forallb (fun x => Nat.eqb (List.length (filter (N.eqb (fst (fst x))) locs)) (List.length (snd (fst x)))) ls
  && forallb (fun l => existsb (fun x => N.eqb (fst (fst x)) l) ls) locs.

(* the C41 verdict with per-location implementation graphs; cyc: a same-tick cycle given as
   (location, local index) pairs *)
Definition c41_verdict_loc (T : optable) (f : flow) (lts : list ltree) (rkl : list (N * N))
           (cyc : list (N * N)) (ls : list limpl) (pok panicked compiled : bool) : N :=
  let locs := flow_locs f lts [] in
  let rk := ranks locs [] in
  let im := merge_impl locs ls pok panicked compiled in
  let v := c41_verdict_x T f rkl (map (fun lk => find_glob rk 0 (fst lk) (snd lk)) cyc) im in
  if panicked || sizes_match locs ls then v
  else if N.eqb (N.land v 1) 1 then v else v + 1.
