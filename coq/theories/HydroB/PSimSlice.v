(* HydroB engine: C31 / C34 over the simulator's decision procedures (engine Sim's model of
   sim/runtime.rs hooks and sim/compiled.rs run_hooks), for all decision scripts. *)
From Coq Require Import List Arith Bool NArith Lia Permutation Sorted.
From HV Require Import Sim.Model Sim.PHooks Sim.PTick HydroB.SimSlice.
Import ListNotations.
Close Scope N_scope.
Open Scope nat_scope.

(* ---------------------------------------------------------------- one hook, one tick *)
Definition Step (h h' : hook) (out : list (N * N)) : Prop :=
  exists f d h1 nt d' flag, auto h f d = Ok (h1, nt, d') /\ release h1 = Ok (h', out, flag).

Inductive ForallS (R : hook -> hook -> list (N * N) -> Prop)
  : list hook -> list hook -> list (list (N * N) * bool) -> Prop :=
| FS_nil : ForallS R [] [] []
| FS_cons h h' o b hs hs' os :
    R h h' o -> ForallS R hs hs' os -> ForallS R (h :: hs) (h' :: hs') ((o, b) :: os).

Definition R2 (h1 h' : hook) (out : list (N * N)) : Prop :=
  (current_decision h1 = None /\ Step h1 h' out) \/
  (exists b flag, current_decision h1 = Some b /\ release h1 = Ok (h', out, flag)).

Lemma pass2_R2 : forall l made rc ds hs' outs rest,
  pass2 l made rc ds = Ok (hs', outs, rest) -> ForallS R2 l hs' outs.
Proof.
  induction l as [|h l IH]; intros made rc ds hs' outs rest H; cbn [pass2] in H.
  - inversion H; subst. constructor.
  - inv_bind H as [[[h1 made'] rc'] ds']. inv_bind H as [[h2 out] flag].
    inv_bind H as [[hs'' outs'] ds'']. inversion H; subst; clear H.
    constructor; [|eapply IH; eauto].
    destruct (current_decision h) as [b|] eqn:Ed.
    + inversion E; subst. right. exists b, flag. split; auto.
    + inv_bind E as [[h1' nt] ds1]. inv_bind E as rc1. inversion E; subst; clear E.
      left. split; auto. exists (negb made && (rc =? 1)), ds, h1, nt, ds', flag. split; auto.
Qed.

(* run_hooks on a SimTick whose hooks hold no pending decision: every hook is decided by its
   own autonomous_decision and released, exactly once, in this call *)
Theorem run_hooks_steps : forall hs ds hs' outs rest,
  run_hooks hs ds = Ok (hs', outs, rest) ->
  forallb idle hs = true -> forallb slice_kind hs = true ->
  ForallS Step hs hs' outs.
Proof.
  unfold run_hooks. intros hs ds hs' outs rest H Hidle Hkind.
  inv_bind H as [[[hs1 made] rc] ds1].
  pose proof (pass1_idle _ _ _ _ _ _ _ _ E Hidle) as (_ & _ & HF).
  apply pass2_R2 in H. clear E.
  revert hs' outs H Hidle Hkind. induction HF as [|h h1 l l1 HR HF IH]; intros hs' outs H Hidle Hkind.
  - inversion H; subst. constructor.
  - inversion H as [|a a' o bb tl tl' os H3 HFS]; subst. cbn [forallb] in Hidle, Hkind.
    apply andb_true_iff in Hidle. destruct Hidle as [Hi Hidle].
    apply andb_true_iff in Hkind. destruct Hkind as [Hk Hkind].
    constructor; [|apply IH; auto].
    apply idle_none in Hi.
    destruct HR as [[_ ->]|[_ (d & nt & d' & Ha)]].
    + destruct H3 as [[_ HS]|(b0 & flag & Hd & _)]; [exact HS | congruence].
    + pose proof (auto_decided _ _ _ _ _ _ Ha) as Hd.
      destruct H3 as [[Hn _]|(b0 & flag & _ & Hr)]; [congruence|].
      exists false, d, h1, nt, d', flag. split; auto.
Qed.

(* ---------------------------------------------------------------- what a Step does *)
Lemma Step_idle_kind h h' out : Step h h' out -> slice_kind h = true ->
  idle h' = true /\ slice_kind h' = true.
Proof.
  intros (f & d & h1 & nt & d' & flag & Ha & Hr) _. split; [|reflexivity].
  pose proof (release_flag _ _ _ _ Hr) as Hd.
  unfold release in Hr. rewrite Hd in Hr.
  destruct h1 as [q tr|q tr|m tr|m tr|q tr last|q tr last|m tr last]; destruct tr as [t|];
    try discriminate; try (destruct t); inversion Hr; reflexivity.
Qed.

(* TotalOrder batch hook: released ++ remaining = queue, as lists *)
Lemma Step_total q tr h' out : Step (HStreamT q tr) h' out ->
  exists rel rem, h' = HStreamT rem None /\ out = unkeyed rel /\ q = rel ++ rem.
Proof.
  intros (f & d & h1 & nt & d' & flag & Ha & Hr). cbn [auto] in Ha.
  inv_bind Ha as [[[rel q'] ds'] nt']. inversion Ha; subst. cbn in Hr. inversion Hr; subst.
  apply total_prefix in E. destruct E as (Hq & _). exists rel, q'. auto.
Qed.

(* NoOrder batch hook: the queue is an order-preserving interleaving of released and kept *)
Lemma Step_noorder q tr h' out : Step (HStreamN q tr) h' out ->
  exists rel rem, h' = HStreamN rem None /\ out = unkeyed rel /\ Merge rel rem q.
Proof.
  intros (f & d & h1 & nt & d' & flag & Ha & Hr). cbn [auto] in Ha.
  inv_bind Ha as [[[rel q'] ds'] nt']. inversion Ha; subst. cbn in Hr. inversion Hr; subst.
  apply noorder_merge in E. destruct E as (Hq & _). exists rel, q'. auto.
Qed.

Lemma flatten_pairs_of (m : list (N * list N)) : flatten m = pairs_of m.
Proof. reflexivity. Qed.

(* every batch hook kind: released ++ still pending is a permutation of what was pending
   (each element in exactly one batch or still queued) *)
Theorem Step_conserves h h' out : Step h h' out ->
  match h with HStreamT _ _ | HStreamN _ _ | HKeyedT _ _ | HKeyedN _ _ => True | _ => False end ->
  Permutation (out ++ content h') (content h).
Proof.
  intros HS Hk. destruct h; try contradiction.
  - apply Step_total in HS. destruct HS as (rel & rem & -> & -> & ->). cbn [content].
    unfold unkeyed. rewrite <- map_app. apply Permutation_refl.
  - apply Step_noorder in HS. destruct HS as (rel & rem & -> & -> & HM). cbn [content].
    unfold unkeyed. rewrite <- map_app. apply Permutation_map. apply Merge_perm. exact HM.
  - destruct HS as (f & d & h1 & nt & d' & flag & Ha & Hr). cbn [auto] in Ha.
    inv_bind Ha as [[[rel m'] ds'] nt']. inversion Ha; subst. cbn in Hr. inversion Hr; subst.
    apply keyed_total_per_key in E. destruct E as (HK & _). cbn [content].
    rewrite <- !flatten_pairs_of. eapply KeyedSplit_perm; [|exact HK].
    intros r q' q0 HP. apply PrefixSplit_Merge. exact HP.
  - destruct HS as (f & d & h1 & nt & d' & flag & Ha & Hr). cbn [auto] in Ha.
    inv_bind Ha as [[[rel m'] ds'] nt']. inversion Ha; subst. cbn in Hr. inversion Hr; subst.
    apply keyed_noorder_per_key in E. destruct E as (HK & _). cbn [content].
    rewrite <- !flatten_pairs_of. eapply KeyedSplit_perm; [|exact HK]. auto.
Qed.

(* snapshot hook: either the last released state again, or a queued one (skipping older) *)
Lemma Step_single q tr last h' out : Step (HSingle q tr last) h' out ->
  exists x rem, h' = HSingle rem None (Some x) /\ out = unkeyed [x] /\
    ((last = Some x /\ rem = q) \/ (exists skipped, q = skipped ++ x :: rem)).
Proof.
  intros (f & d & h1 & nt & d' & flag & Ha & Hr). cbn [auto] in Ha.
  inv_bind Ha as [[[[x is_new] sk] q'] ds']. inversion Ha; subst. cbn in Hr. inversion Hr; subst.
  exists x, q'. split; [reflexivity|]. split; [reflexivity|].
  apply single_sound in E. destruct E as [(_ & -> & -> & _)|(_ & ->)]; [left; auto | right; eauto].
Qed.

(* ---------------------------------------------------------------- trajectories of one hook
   over the ticks of its slice: arrivals are pushed, then the hook takes its Step *)
Inductive Traj : hook -> list (list (N * N) * list (N * N)) -> hook -> Prop :=
| T_nil h : Traj h [] h
| T_cons h arr h' out r h'' :
    Step (push h arr) h' out -> Traj h' r h'' -> Traj h ((arr, out) :: r) h''.

Definition arrs_of (tr : list (list (N * N) * list (N * N))) := concat (map fst tr).
Definition outs_of (tr : list (list (N * N) * list (N * N))) := concat (map snd tr).

(* C31, batches of a TotalOrder hook: batches ++ queue = initial queue ++ arrivals (lists) *)
Theorem traj_total_partition : forall tr q h',
  Traj (HStreamT q None) tr h' ->
  exists rem, h' = HStreamT rem None /\
    map snd (outs_of tr) ++ rem = q ++ map snd (arrs_of tr).
Proof.
  induction tr as [|[arr out] r IH]; intros q h' HT; inversion HT as [|hh aa hh' oo rr hh'' H2 H5]; subst.
  - exists q. cbn. rewrite app_nil_r. auto.
  - cbn [push] in H2. apply Step_total in H2. destruct H2 as (rel & rem & -> & -> & Hq).
    destruct (IH _ _ H5) as (rem' & -> & Hr). exists rem'. split; [reflexivity|].
    unfold outs_of, arrs_of in *. cbn [map concat fst snd]. rewrite !map_app.
    assert (Hu : map snd (unkeyed rel) = rel).
    { unfold unkeyed. rewrite map_map. cbn. apply map_id. }
    rewrite Hu, <- app_assoc, Hr, app_assoc, <- Hq, <- app_assoc. reflexivity.
Qed.

Lemma push_keyed_content : forall arr m, Permutation (pairs_of (push_keyed m arr)) (pairs_of m ++ arr).
Proof.
  assert (K1 : forall k v m, Permutation (pairs_of (push_key k v m)) (pairs_of m ++ [(k, v)])).
  { induction m as [|[k' q] m IH]; cbn.
    - apply Permutation_refl.
    - destruct (N.eqb k k') eqn:E.
      + apply N.eqb_eq in E. subst k'. unfold pairs_of. cbn. rewrite map_app. cbn.
        rewrite <- !app_assoc. apply Permutation_app_head. cbn.
        apply Permutation_cons_append.
      + unfold pairs_of in *. cbn. rewrite <- app_assoc. apply Permutation_app_head. exact IH. }
  induction arr as [|[k v] arr IH]; intros m; cbn.
  - rewrite app_nil_r. apply Permutation_refl.
  - unfold push_keyed in *. cbn. eapply perm_trans; [apply IH|].
    eapply perm_trans; [apply Permutation_app_tail; apply K1|].
    rewrite <- app_assoc. apply Permutation_refl.
Qed.

Lemma push_content h arr :
  match h with HStreamT _ _ | HStreamN _ _ | HKeyedT _ _ | HKeyedN _ _ => True | _ => False end ->
  (forall kv, In kv arr -> match h with HStreamT _ _ | HStreamN _ _ => fst kv = 0%N | _ => True end) ->
  Permutation (content (push h arr)) (content h ++ arr).
Proof.
  intros Hk Hz. destruct h; try contradiction; cbn [push content].
  - unfold unkeyed. rewrite map_app. apply Permutation_app_head.
    rewrite map_map. induction arr as [|[k v] arr IH]; [constructor|]. cbn.
    pose proof (Hz (k, v) (or_introl eq_refl)) as Hk0. cbn in Hk0. subst k. constructor. apply IH. intros; apply Hz; right; auto.
  - unfold unkeyed. rewrite map_app. apply Permutation_app_head.
    rewrite map_map. induction arr as [|[k v] arr IH]; [constructor|]. cbn.
    pose proof (Hz (k, v) (or_introl eq_refl)) as Hk0. cbn in Hk0. subst k. constructor. apply IH. intros; apply Hz; right; auto.
  - apply push_keyed_content.
  - apply push_keyed_content.
Qed.

Definition batch_kind (h : hook) : Prop :=
  match h with HStreamT _ _ | HStreamN _ _ | HKeyedT _ _ | HKeyedN _ _ => True | _ => False end.
Definition arr_ok (h : hook) (arr : list (N * N)) : Prop :=
  forall kv, In kv arr -> match h with HStreamT _ _ | HStreamN _ _ => fst kv = 0%N | _ => True end.

Lemma Step_batch_kind h h' out : Step h h' out -> batch_kind h ->
  batch_kind h' /\ (forall arr, arr_ok h arr -> arr_ok h' arr).
Proof.
  intros (f & d & h1 & nt & d' & flag & Ha & Hr) Hk.
  destruct h; try contradiction; cbn [auto] in Ha;
    inv_bind Ha as [[[rel q'] ds'] nt']; inversion Ha; subst; cbn in Hr; inversion Hr; subst;
    (split; [exact I | intros arr H; exact H]).
Qed.

(* C31, batches of ANY batch hook kind (TotalOrder, NoOrder, keyed): over a whole trajectory
   released ++ still pending is a permutation of initially pending ++ arrivals: every element
   is in exactly one batch or still queued *)
Theorem traj_conserves : forall tr h h',
  Traj h tr h' -> batch_kind h -> Forall (fun ao => arr_ok h (fst ao)) tr ->
  Permutation (outs_of tr ++ content h') (content h ++ arrs_of tr).
Proof.
  induction tr as [|[arr out] r IH]; intros h h' HT Hk Harr; inversion HT as [|hh aa hh' oo rr hh'' H2 H5]; subst.
  - unfold outs_of, arrs_of. cbn. rewrite app_nil_r. apply Permutation_refl.
  - inversion Harr as [|x0 l0 H1 H3]; subst. cbn [fst] in H1.
    assert (Hpk : batch_kind (push h arr)) by (destruct h; try contradiction; exact I).
    assert (Hpa : forall a, arr_ok h a -> arr_ok (push h arr) a) by (destruct h; try contradiction; auto).
    destruct (Step_batch_kind _ _ _ H2 Hpk) as [Hk' Ha'].
    assert (Hr : Forall (fun ao => arr_ok hh' (fst ao)) r).
    { eapply Forall_impl; [|exact H3]. intros a Ha. apply Ha'. apply Hpa. exact Ha. }
    specialize (IH _ _ H5 Hk' Hr).
    pose proof (Step_conserves _ _ _ H2 Hpk) as HC.
    pose proof (push_content h arr Hk H1) as HP.
    unfold outs_of, arrs_of in *. cbn [map concat fst snd].
    rewrite <- app_assoc. eapply perm_trans; [apply Permutation_app_head; exact IH|].
    rewrite app_assoc. eapply perm_trans; [apply Permutation_app_tail; exact HC|].
    eapply perm_trans; [apply Permutation_app_tail; exact HP|].
    rewrite <- app_assoc. apply Permutation_refl.
Qed.

(* C31, snapshots: versions released by a snapshot hook over a trajectory never decrease.
   States are numbered by version; [olist last ++ q ++ later arrivals] strictly increasing says
   the queue holds states newer than the last released one and arrivals are newer still. *)
Definition olist (o : option N) : list N := match o with Some x => [x] | None => [] end.
Definition vals (l : list (N * N)) : list N := map snd l.

Fixpoint snaps_of (tr : list (list (N * N) * list (N * N))) : list N :=
  match tr with [] => [] | (_, out) :: r => vals out ++ snaps_of r end.

Lemma SS_app_r_N : forall (a b : list N), StronglySorted N.lt (a ++ b) -> StronglySorted N.lt b.
Proof. induction a; cbn; intros b H; [assumption|]. inversion H; subst. auto. Qed.

Theorem traj_single_mono : forall tr q last h',
  Traj (HSingle q None last) tr h' ->
  StronglySorted N.lt (olist last ++ q ++ vals (arrs_of tr)) ->
  StronglySorted N.le (snaps_of tr) /\
  Forall (fun v => forall l, last = Some l -> N.le l v) (snaps_of tr).
Proof.
  induction tr as [|[arr out] r IH]; intros q last h' HT Hwf; inversion HT as [|hh aa hh' oo rr hh'' H2 H5]; subst.
  - cbn. split; constructor.
  - cbn [push] in H2. apply Step_single in H2. destruct H2 as (x & rem & -> & -> & Hcase).
    unfold arrs_of, vals in Hwf. cbn [map concat fst] in Hwf. rewrite map_app in Hwf.
    fold (vals arr) in Hwf. change (map snd (concat (map fst r))) with (vals (arrs_of r)) in Hwf.
    assert (Hnext : StronglySorted N.lt (olist (Some x) ++ rem ++ vals (arrs_of r))
                    /\ (forall l, last = Some l -> N.le l x)).
    { destruct Hcase as [[-> ->]|[skipped Hq]].
      - split; [|intros l [= <-]; apply N.le_refl].
        unfold vals in *. rewrite <- app_assoc. exact Hwf.
      - assert (Hl : olist last ++ q ++ vals arr ++ vals (arrs_of r)
                     = (olist last ++ skipped) ++ x :: rem ++ vals (arrs_of r)).
        { unfold vals. rewrite (app_assoc q), Hq, <- !app_assoc. reflexivity. }
        rewrite Hl in Hwf. split.
        + apply SS_app_r_N in Hwf. exact Hwf.
        + intros l ->. cbn [olist app] in Hwf. inversion Hwf as [|l0 tl0 HSS HFA]; subst.
          rewrite Forall_forall in HFA. apply N.lt_le_incl. apply HFA.
          apply in_or_app. right. left. reflexivity. }
    destruct Hnext as [Hwf2 Hle].
    destruct (IH _ _ _ H5 Hwf2) as [HS HF].
    cbn [snaps_of vals unkeyed map snd app]. split.
    + constructor; [exact HS|]. eapply Forall_impl; [|exact HF]. intros v Hv. apply Hv. reflexivity.
    + constructor; [exact Hle|].
      eapply Forall_impl; [|exact HF]. intros v Hv l Hl. specialize (Hle l Hl).
      specialize (Hv x eq_refl). eapply N.le_trans; eassumption.
Qed.

(* ---------------------------------------------------------------- a whole slice (SimTick) *)
Inductive TrajL : list hook -> list (list (list (N * N)) * list (list (N * N) * bool)) -> list hook -> Prop :=
| TL_nil hs : TrajL hs [] hs
| TL_cons hs arrs hs' outs r hs'' :
    ForallS Step (push_all hs arrs) hs' outs -> TrajL hs' r hs'' ->
    TrajL hs ((arrs, outs) :: r) hs''.

Lemma push_idle_kind h arr : idle (push h arr) = idle h /\ slice_kind (push h arr) = slice_kind h.
Proof. destruct h; split; reflexivity. Qed.

Lemma push_all_idle_kind : forall hs arrs,
  forallb idle (push_all hs arrs) = forallb idle hs /\
  forallb slice_kind (push_all hs arrs) = forallb slice_kind hs.
Proof.
  induction hs as [|h hs IH]; intros arrs; [destruct arrs; split; reflexivity|].
  destruct arrs as [|a arrs]; [split; reflexivity|]. cbn [push_all forallb].
  destruct (push_idle_kind h a) as [-> ->]. destruct (IH arrs) as [-> ->]. split; reflexivity.
Qed.

Lemma ForallS_idle_kind : forall hs hs' outs, ForallS Step hs hs' outs ->
  forallb slice_kind hs = true -> forallb idle hs' = true /\ forallb slice_kind hs' = true.
Proof.
  induction 1 as [|h h' o b hs hs' os HS HF IH]; intros Hk; [split; reflexivity|].
  cbn [forallb] in *. apply andb_true_iff in Hk. destruct Hk as [Hk1 Hk2].
  destruct (Step_idle_kind _ _ _ HS Hk1) as [-> ->]. destruct (IH Hk2) as [-> ->]. split; reflexivity.
Qed.

(* C31 "all hooks of one slice are taken at the same point": in every tick of a slice run,
   run_hooks gives EVERY hook of the slice exactly one decide-and-release Step *)
Theorem run_sim_slices_traj : forall sc hs outss hsf,
  run_sim_slices hs sc = Ok (outss, hsf) ->
  forallb idle hs = true -> forallb slice_kind hs = true ->
  TrajL hs (combine (map fst sc) outss) hsf.
Proof.
  induction sc as [|[arrs ds] r IH]; intros hs outss hsf H Hi Hk; cbn [run_sim_slices] in H.
  - inversion H; subst. constructor.
  - inv_bind H as [[hs' outs] rest]. inv_bind H as [outss' hsf']. inversion H; subst; clear H.
    destruct (push_all_idle_kind hs arrs) as [Pi Pk].
    assert (HS : ForallS Step (push_all hs arrs) hs' outs).
    { eapply run_hooks_steps; [exact E | rewrite Pi; exact Hi | rewrite Pk; exact Hk]. }
    destruct (ForallS_idle_kind _ _ _ HS) as [Hi' Hk']; [rewrite Pk; exact Hk|].
    cbn [map fst combine]. econstructor; [exact HS | eapply IH; eauto].
Qed.

(* the first hook's column of a slice run is that hook's own trajectory, the other columns
   are the slice run of the other hooks *)
Theorem TrajL_head_tail : forall trl h hs hsf,
  TrajL (h :: hs) trl hsf ->
  Forall (fun ao => fst ao <> []) trl ->
  exists h' hs', hsf = h' :: hs' /\
    Traj h (map (fun ao => (hd [] (fst ao), fst (hd ([], false) (snd ao)))) trl) h' /\
    TrajL hs (map (fun ao => (tl (fst ao), tl (snd ao))) trl) hs'.
Proof.
  induction trl as [|[arrs outs] r IH]; intros h hs hsf HT HF.
  - inversion HT; subst. exists h, hs. repeat split; constructor.
  - inversion HT as [|x1 x2 hs1 x4 x5 x6 HS HT']; subst. inversion HF as [|x y Hne HF']; subst.
    cbn [fst] in Hne. destruct arrs as [|a arrs]; [contradiction|]. cbn [push_all] in HS.
    inversion HS as [|y1 h1 o b y5 hs1' os HS1 HSr]; subst.
    destruct (IH _ _ _ HT' HF') as (h' & hs' & -> & HTr & HTL).
    exists h', hs'. split; [reflexivity|]. split.
    + cbn [map fst snd hd]. econstructor; eauto.
    + cbn [map fst snd tl]. econstructor; eauto.
Qed.

(* ---------------------------------------------------------------- C34 over the simulator *)
Lemma sim_astep_applied : forall nw s t o s', sim_astep nw s t = Ok (o, s') ->
  sa_applied s' = sa_applied s ++ fst o /\
  (forall r snap, In (r, snap) (snd o) -> snap = sa_applied s').
Proof.
  intros nw s t o s' H. unfold sim_astep in H. inv_bind H as [[hs' outs] rest].
  inversion H; subst; clear H. cbn. split; [reflexivity|].
  intros r snap Hin. apply in_map_iff in Hin. destruct Hin as [x [Hx _]]. inversion Hx; reflexivity.
Qed.

Lemma run_sim_atomic_incl : forall nw sc s obs j acks resps r snap,
  run_sim_atomic nw s sc = Ok obs ->
  nth_error obs j = Some (acks, resps) -> In (r, snap) resps -> incl (sa_applied s) snap.
Proof.
  induction sc as [|t sc IH]; intros s obs j acks resps r snap H Hn Hin; cbn [run_sim_atomic] in H.
  - inversion H; subst. destruct j; discriminate.
  - inv_bind H as [o s']. inv_bind H as os. inversion H; subst; clear H.
    destruct (sim_astep_applied _ _ _ _ _ E) as [HA HS]. destruct j as [|j]; cbn [nth_error] in Hn.
    + injection Hn as Ho. subst o. cbn [fst snd] in *. rewrite (HS _ _ Hin), HA. apply incl_appl, incl_refl.
    + specialize (IH _ _ _ _ _ _ _ E0 Hn Hin). intros x Hx. apply IH. rewrite HA. apply in_or_app. left; exact Hx.
Qed.

(* for every arrival / decision script of the unified atomic tick -- any number nw of write
   hooks, any number of read hooks, any hook kinds -- an acknowledgement released in tick i is
   contained in every atomic snapshot read in a tick j >= i *)
Theorem sim_ack_implies_read_after_write : forall nw sc s obs i j acks resps acks' resps' w r snap,
  run_sim_atomic nw s sc = Ok obs -> i <= j ->
  nth_error obs i = Some (acks, resps) -> In w acks ->
  nth_error obs j = Some (acks', resps') -> In (r, snap) resps' ->
  In w snap.
Proof.
  induction sc as [|t sc IH]; intros s obs i j acks resps acks' resps' w r snap H Hij Hi Hw Hj Hr;
    cbn [run_sim_atomic] in H.
  - inversion H; subst. destruct i; discriminate.
  - inv_bind H as [o s']. inv_bind H as os. inversion H; subst; clear H.
    destruct (sim_astep_applied _ _ _ _ _ E) as [HA HS].
    destruct i as [|i]; cbn [nth_error] in Hi.
    + injection Hi as Ho. subst o. cbn [fst snd] in *.
      destruct j as [|j]; cbn [nth_error] in Hj.
      * injection Hj as Ho1 Ho2. subst acks' resps'. rewrite (HS _ _ Hr), HA. apply in_or_app. right; exact Hw.
      * apply (run_sim_atomic_incl _ _ _ _ _ _ _ _ _ E0 Hj Hr). rewrite HA. apply in_or_app. right; exact Hw.
    + destruct j as [|j]; [lia|]. cbn [nth_error] in Hj. eapply (IH s' os i j); eauto. lia.
Qed.
