(* HydroB engine: "accepted" as a theorem about engine Partition's partitioner model, part 2:
   the translated graph of a guarded flow satisfies the hypotheses of Partition's
   C19 theorem `acyclic_accepted`, hence partition_verdict = Accepted. *)
From Coq Require Import List String NArith Bool Arith Lia.
From HV Require Import HydroB.Model HydroB.PEmit HydroB.PAccept HydroB.XPartition.
From HV Require Partition.Base Partition.Model Partition.PC19 GraphAlg.Model GraphAlg.PTopo.
Import ListNotations.
Open Scope string_scope.
Open Scope N_scope.

Module PM := Partition.Model.
Module PC := Partition.PC19.
Module PT := GraphAlg.PTopo.

Lemma flat_map_nil {A B} (f : A -> list B) l : (forall x, In x l -> f x = []) -> flat_map f l = [].
Proof.
  induction l as [|a l IH]; intro H; [reflexivity|]. simpl. rewrite (H a (or_introl eq_refl)).
  apply IH. intros x Hx. apply H. right. exact Hx.
Qed.

Lemma reach_trans es u v w : reach es u v -> reach es v w -> reach es u w.
Proof.
  induction 1 as [e He|e x He Hr IH]; intro H2.
  - eapply reach_step; eassumption.
  - eapply reach_step; [exact He|]. apply IH. exact H2.
Qed.

Lemma last_indep : forall (l : list N) x y, l <> [] -> last l x = last l y.
Proof.
  induction l as [|z l IHl]; intros x y Hn; [contradiction|]. destruct l; [reflexivity|].
  simpl. apply IHl. discriminate.
Qed.

Section Bridge.
  Variable TP : PB.optable.
  Variable ns : list gnode.
  Variable es : list edge.
  Hypothesis HND : NoDup (map n_id ns).
  Hypothesis HA : forall x, In x ns -> delay_agree TP (n_op x) = true.
  Hypothesis HE : forall e, In e es ->
    has_node ns (e_src e) /\ tick_node ns (e_dst e) (e_tick e).

  Let g := mkGraph (rev ns) es.
  Let pg := to_pgraph g.

  Lemma find_node_in : forall (l : list gnode) x, NoDup (map n_id l) -> In x l ->
    PM.find_node (map to_pnode l) (n_id x) = Some (to_pnode x).
  Proof.
    induction l as [|y l IH]; intros x Hnd Hin; [contradiction|].
    simpl in Hnd. inversion Hnd as [|a t Hnin Hnd']; subst. simpl.
    destruct Hin as [->|Hin]; [rewrite N.eqb_refl; reflexivity|].
    destruct (N.eqb (n_id y) (n_id x)) eqn:E.
    - apply N.eqb_eq in E. exfalso. apply Hnin. rewrite E. apply in_map. exact Hin.
    - apply IH; assumption.
  Qed.

  Lemma nodup_rev : NoDup (map n_id (rev ns)).
  Proof. rewrite map_rev. apply NoDup_rev. exact HND. Qed.

  Lemma node_of_in x : In x ns -> PM.node_of pg (n_id x) = Some (to_pnode x).
  Proof.
    intro Hin. unfold PM.node_of, pg, to_pgraph. simpl.
    apply find_node_in; [apply nodup_rev | apply -> in_rev; exact Hin].
  Qed.

  Lemma node_loop_none d : PM.node_loop pg d = None.
  Proof.
    unfold PM.node_loop, PM.node_of, pg, to_pgraph. simpl.
    induction (rev ns) as [|y l IH]; simpl; [reflexivity|].
    destruct (N.eqb (n_id y) d); [reflexivity|exact IH].
  Qed.

  Lemma node_ids_pg n : has_node ns n -> In n (PM.node_ids pg).
  Proof.
    intros [x [Hx <-]]. unfold PM.node_ids, pg, to_pgraph. simpl. rewrite map_map. simpl.
    apply in_map_iff. exists x. split; [reflexivity|]. apply -> in_rev. exact Hx.
  Qed.

  (* an edge of the translated graph comes from an edge of ours *)
  Lemma to_pedges_in : forall l i e', In e' (to_pedges i l) ->
    exists e, In e l /\ PM.e_src e' = e_src e /\ PM.e_dst e' = e_dst e.
  Proof.
    induction l as [|e l IH]; intros i e' H; [contradiction|]. simpl in H. destruct H as [<-|H].
    - exists e. split; [left; reflexivity|]. split; reflexivity.
    - destruct (IH _ _ H) as [e0 [A B]]. exists e0. split; [right; exact A|exact B].
  Qed.

  Lemma is_tick_edge e e' : In e es -> PM.e_dst e' = e_dst e -> PM.is_tick TP pg e' = e_tick e.
  Proof.
    intros Hin Hd. destruct (HE e Hin) as [_ [x [Hx [Hid Ht]]]].
    unfold PM.is_tick, PM.edge_delay. rewrite Hd, <- Hid, (node_of_in x Hx). simpl.
    specialize (HA x Hx). unfold delay_agree in HA. apply eqb_prop in HA. rewrite Ht, <- HA.
    destruct (PB.find_op TP (n_op x)) as [d|]; [destruct (PB.od_delay d); reflexivity|reflexivity].
  Qed.

  Lemma refs_nil : forall x, In x (PM.g_nodes pg) -> PM.n_refs x = [].
  Proof.
    intros x Hx. unfold pg, to_pgraph in Hx. simpl in Hx. apply in_map_iff in Hx.
    destruct Hx as [y [<- _]]. reflexivity.
  Qed.

  Lemma all_refs_nil : PM.all_refs pg = [].
  Proof.
    unfold PM.all_refs. apply flat_map_nil. intros x Hx. rewrite (refs_nil x Hx).
    destruct (PM.n_kind x); reflexivity.
  Qed.

  Lemma access_raw_nil : PM.access_pairs_raw pg = [].
  Proof. unfold PM.access_pairs_raw, PM.ref_targets. rewrite all_refs_nil. reflexivity. Qed.

  Lemma ref_dep_nil : PM.ref_dep_pairs pg = [].
  Proof.
    unfold PM.ref_dep_pairs. apply flat_map_nil. intros x Hx. rewrite (refs_nil x Hx). reflexivity.
  Qed.

  Lemma ref_enemy_nil : PM.ref_enemy_pairs pg = [].
  Proof.
    unfold PM.ref_enemy_pairs. apply flat_map_nil. intros x Hx. rewrite (refs_nil x Hx). reflexivity.
  Qed.

  Lemma ingress_nil : PM.ingress_pairs TP pg = [].
  Proof.
    unfold PM.ingress_pairs. apply flat_map_nil. intros e _. rewrite node_loop_none.
    destruct (PM.is_tick TP pg e); reflexivity.
  Qed.

  Lemma gen_ingress_nil pairs : PM.gen_ingress_pairs pg pairs = [].
  Proof.
    unfold PM.gen_ingress_pairs. apply flat_map_nil. intros p _. rewrite node_loop_none.
    match goal with |- (if ?c then _ else _) = _ => destruct c end; reflexivity.
  Qed.

  Lemma pred_pairs_edge d s : In (d, s) (PM.pred_pairs TP pg (PM.access_pairs_raw pg)) ->
    exists e, In e es /\ e_tick e = false /\ e_dst e = d /\ e_src e = s.
  Proof.
    unfold PM.pred_pairs, PM.base_pairs. rewrite gen_ingress_nil, access_raw_nil, ref_dep_nil, ingress_nil.
    simpl. rewrite !app_nil_r. unfold PM.pipe_pairs. intro H. apply in_flat_map in H.
    destruct H as [e' [He' Hin]]. unfold pg, to_pgraph in He'. simpl in He'.
    destruct (to_pedges_in _ _ _ He') as [e [He [Hs Hd]]].
    rewrite (is_tick_edge e e' He Hd) in Hin. destruct (e_tick e) eqn:Et; [contradiction|].
    destruct Hin as [Hp|[]]. inversion Hp; subst. exists e. repeat split; auto.
  Qed.

  Lemma deps_closed_pg : PM.deps_closed_b TP pg = true.
  Proof.
    unfold PM.deps_closed_b. apply forallb_forall. intros [d s] Hin. simpl.
    destruct (pred_pairs_edge d s Hin) as [e [He [_ [_ Hs]]]]. apply PC.memN_In'.
    apply node_ids_pg. rewrite <- Hs. exact (proj1 (HE e He)).
  Qed.

  Lemma access_conflict_pg : PM.access_conflict pg = false.
  Proof. unfold PM.access_conflict. rewrite access_raw_nil. reflexivity. Qed.

  Lemma enemy_self_pg : PM.enemy_self_pair TP pg = false.
  Proof.
    unfold PM.enemy_self_pair, PM.enemy_pairs. rewrite access_raw_nil, ref_enemy_nil. simpl.
    rewrite app_nil_r. apply not_true_is_false. intro H. apply existsb_exists in H.
    destruct H as [[a b] [Hin Heq]]. simpl in Heq. apply N.eqb_eq in Heq. subst b.
    unfold PM.barrier_pairs in Hin. apply in_flat_map in Hin. destruct Hin as [e' [_ Hin]].
    destruct (PM.is_tick TP pg e' && negb (N.eqb (PM.e_src e') (PM.e_dst e'))) eqn:E; [|contradiction].
    destruct Hin as [Hp|[]]. injection Hp as H1 H2. apply andb_true_iff in E. destruct E as [_ E].
    rewrite H1, H2, N.eqb_refl in E. discriminate.
  Qed.

  (* a same-tick dependency of the partitioner model is a same-tick edge of our graph *)
  Lemma dep_edge a b : In a (PM.same_tick_deps TP pg b) ->
    exists e, In e (same_tick g) /\ e_src e = a /\ e_dst e = b.
  Proof.
    intro H. unfold PM.same_tick_deps in H. apply PC.preds_from_In in H.
    destruct (pred_pairs_edge b a H) as [e [He [Ht [Hd Hs]]]].
    exists e. split; [|auto]. unfold same_tick, g. simpl. apply filter_In. split; [exact He|].
    rewrite Ht. reflexivity.
  Qed.

  Lemma chain_reach : forall c a, PT.chain (PM.same_tick_deps TP pg) (a :: c) -> c <> [] ->
    reach (same_tick g) a (last c a).
  Proof.
    induction c as [|b c IH]; intros a Hc Hne; [contradiction|].
    simpl in Hc. destruct Hc as [Hab Hrest]. destruct (dep_edge a b Hab) as [e [He [Hs Hd]]].
    destruct c as [|b2 c'].
    - simpl. rewrite <- Hs, <- Hd. apply reach_one. exact He.
    - rewrite <- Hs. eapply reach_step; [exact He|]. rewrite Hd.
      change (last (b :: b2 :: c') (e_src e)) with (last (b2 :: c') (e_src e)).
      assert (Hl : forall (l : list N) x y, l <> [] -> last l x = last l y).
      { induction l as [|z l IHl]; intros x y Hn; [contradiction|]. destruct l; [reflexivity|].
        simpl. apply IHl. discriminate. }
      rewrite (Hl (b2 :: c') (e_src e) b) by discriminate.
      apply IH; [exact Hrest|discriminate].
  Qed.

  Lemma cycle_reach c : PT.is_cycle (PM.same_tick_deps TP pg) c -> exists v, reach (same_tick g) v v.
  Proof.
    intros (Hne & _ & Hch & Hlast). destruct c as [|a c]; [contradiction|]. simpl in Hlast.
    exists a. destruct c as [|b c'].
    - simpl in Hlast. destruct (dep_edge a a Hlast) as [e [He [Hs Hd]]].
      rewrite <- Hs at 1. rewrite <- Hd. apply reach_one. exact He.
    - pose proof (chain_reach (b :: c') a Hch) as Hr. specialize (Hr ltac:(discriminate)).
      assert (Hl : last (b :: c') 0 = last (b :: c') a) by (apply last_indep; discriminate).
      rewrite Hl in Hlast. destruct (dep_edge _ _ Hlast) as [e [He [Hs Hd]]].
      eapply reach_trans; [exact Hr|]. rewrite <- Hs, <- Hd. apply reach_one. exact He.
  Qed.

  Theorem bridge_accepted : partition_accepts g ->
    PM.partition_verdict TP pg = PM.Accepted.
  Proof.
    intro Hacc. apply PC.acyclic_accepted.
    - exact deps_closed_pg.
    - exact access_conflict_pg.
    - exact enemy_self_pg.
    - intros [c Hc]. destruct (cycle_reach c Hc) as [v Hv]. exact (Hacc v Hv).
  Qed.
End Bridge.
