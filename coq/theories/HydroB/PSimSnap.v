(* HydroB engine: C31 over engine Sim's hook model, remaining clauses:
   - snapshots of every snapshot hook kind (SingletonHook, PassthroughSingletonHook with the
     repaired re-release, KeyedSingletonHook per key) never go back;
   - keyed TotalOrder batch hooks keep the order of every key over a whole trajectory. *)
From Coq Require Import List Arith Bool NArith Lia Permutation Sorted.
From HV Require Import Sim.Model Sim.PHooks Sim.PTick HydroB.SimSlice HydroB.PSimSlice.
Import ListNotations.
Close Scope N_scope.
Open Scope nat_scope.

(* ---------------------------------------------------------------- one snapshot cell
   (a singleton hook, or one key of a keyed singleton hook): last released version, queue *)
Inductive SnapStep : option N -> list N -> list N -> option N -> list N -> Prop :=
| SS_null q : SnapStep None q [] None q                       (* keyed: key not yet released *)
| SS_idle last q : SnapStep last q [] last q                  (* keyed: no entry for the key *)
| SS_old x q : SnapStep (Some x) q [x] (Some x) q             (* re-release of the last state *)
| SS_new last sk x q' : SnapStep last (sk ++ x :: q') [x] (Some x) q'.   (* skip sk, release x *)

Inductive STraj : option N -> list N -> list (list N * list N) -> Prop :=
| ST_nil last q : STraj last q []
| ST_cons last q arr out last' q' r :
    SnapStep last (q ++ arr) out last' q' -> STraj last' q' r ->
    STraj last q ((arr, out) :: r).

Theorem straj_mono : forall tr last q,
  STraj last q tr ->
  StronglySorted N.lt (olist last ++ q ++ concat (map fst tr)) ->
  StronglySorted N.le (concat (map snd tr)) /\
  Forall (fun v => forall l, last = Some l -> N.le l v) (concat (map snd tr)).
Proof.
  induction tr as [|[arr out] r IH]; intros last q HT Hwf.
  - cbn. split; constructor.
  - inversion HT as [|l0 q0 a0 o0 last' q' r0 HS HT']; subst. cbn [map fst snd concat] in *.
    assert (Hwf' : StronglySorted N.lt (olist last ++ (q ++ arr) ++ concat (map fst r)))
      by (rewrite <- app_assoc; exact Hwf).
    clear Hwf. rename Hwf' into Hwf.
    assert (Hnext : StronglySorted N.lt (olist last' ++ q' ++ concat (map fst r)) /\
                    (forall x, In x out -> forall l, last = Some l -> N.le l x) /\
                    (forall x, In x out -> last' = Some x) /\
                    (out = [] -> last' = last)).
    { inversion HS; subst.
      - split; [exact Hwf|]. repeat split; try (intros; contradiction); auto.
      - split; [exact Hwf|]. repeat split; try (intros; contradiction); auto.
      - split; [exact Hwf|]. split; [|split].
        + intros y [<-|[]] l [= <-]. apply N.le_refl.
        + intros y [<-|[]]. reflexivity.
        + discriminate.
      - match goal with H : _ = q ++ arr |- _ => rewrite <- H in Hwf end.
        rewrite <- app_assoc in Hwf. cbn [app] in Hwf.
        assert (Hl : olist last ++ sk ++ x :: q' ++ concat (map fst r)
                     = (olist last ++ sk) ++ x :: q' ++ concat (map fst r))
          by (rewrite <- app_assoc; reflexivity).
        rewrite Hl in Hwf. split; [apply SS_app_r_N in Hwf; exact Hwf|]. split; [|split].
        + intros y [<-|[]] l ->. cbn [olist app] in Hwf. inversion Hwf as [|l0 tl0 HSS HFA]; subst.
          rewrite Forall_forall in HFA. apply N.lt_le_incl. apply HFA.
          apply in_or_app. right. left. reflexivity.
        + intros y [<-|[]]. reflexivity.
        + discriminate. }
    destruct Hnext as (Hwf2 & Hle & Hlast & Hnil).
    destruct (IH _ _ HT' Hwf2) as [HS2 HF2].
    assert (Hout : out = [] \/ exists x, out = [x]) by (inversion HS; subst; eauto).
    destruct Hout as [->|[x ->]].
    + cbn [app]. rewrite (Hnil eq_refl) in HF2. split; assumption.
    + cbn [app]. specialize (Hlast x (or_introl eq_refl)). split.
      * constructor; [exact HS2|]. eapply Forall_impl; [|exact HF2]. intros v Hv. apply Hv. exact Hlast.
      * constructor; [intros l Hl; apply (Hle x (or_introl eq_refl) l Hl)|].
        eapply Forall_impl; [|exact HF2]. intros v Hv l Hl.
        eapply N.le_trans; [apply (Hle x (or_introl eq_refl) l Hl) | apply Hv; exact Hlast].
Qed.

(* ---------------------------------------------------------------- SingletonHook / Passthrough *)
Definition snap_hook (h : hook) (q : list N) (last : option N) : Prop :=
  h = HSingle q None last \/ h = HPass q None last.

Lemma Step_snap h q last h' out : snap_hook h q last -> Step h h' out ->
  exists o last' q', out = unkeyed o /\ snap_hook h' q' last' /\ SnapStep last q o last' q'.
Proof.
  intros [->| ->] HS.
  - apply Step_single in HS. destruct HS as (x & rem & -> & -> & Hc).
    exists [x], (Some x), rem. split; [reflexivity|]. split; [left; reflexivity|].
    destruct Hc as [[-> ->]|[sk ->]]; constructor.
  - destruct HS as (f & d & h1 & nt & d' & flag & Ha & Hr). cbn [auto] in Ha.
    pose proof (pass_latest q) as HP. destruct (decide_pass q) as [[x|] q'].
    + inversion Ha; subst. cbn in Hr. inversion Hr; subst. destruct HP as (pre & -> & ->).
      exists [x], (Some x), []. split; [reflexivity|]. split; [right; reflexivity|]. apply SS_new.
    + destruct last as [l|]; [|discriminate]. inversion Ha; subst. cbn in Hr. inversion Hr; subst.
      destruct HP as [-> ->].
      exists [l], (Some l), []. split; [reflexivity|]. split; [right; reflexivity|]. apply SS_old.
Qed.

Lemma push_snap h q last arr : snap_hook h q last -> snap_hook (push h arr) (q ++ map snd arr) last.
Proof. intros [->| ->]; [left|right]; reflexivity. Qed.

Lemma traj_snap_straj : forall tr h q last h',
  snap_hook h q last -> Traj h tr h' ->
  STraj last q (map (fun ao => (map snd (fst ao), map snd (snd ao))) tr).
Proof.
  induction tr as [|[arr out] r IH]; intros h q last h' Hh HT;
    inversion HT as [|hh aa hh' oo rr hh'' H2 H5]; subst; [constructor|].
  destruct (Step_snap _ _ _ _ _ (push_snap _ _ _ arr Hh) H2) as (o & last' & q' & -> & Hh' & HS).
  cbn [map fst snd]. econstructor.
  - unfold unkeyed. rewrite map_map. cbn. rewrite map_id. exact HS.
  - eapply IH; eauto.
Qed.

(* C31 snapshots, SingletonHook and PassthroughSingletonHook: released versions never go back *)
Theorem traj_snapshot_mono : forall tr h q last h',
  snap_hook h q last -> Traj h tr h' ->
  StronglySorted N.lt (olist last ++ q ++ vals (arrs_of tr)) ->
  StronglySorted N.le (vals (outs_of tr)).
Proof.
  intros tr h q last h' Hh HT Hwf. pose proof (traj_snap_straj _ _ _ _ _ Hh HT) as HS.
  apply straj_mono in HS.
  - destruct HS as [HS _]. rewrite map_map in HS. cbn [snd] in HS.
    unfold vals, outs_of. rewrite concat_map, map_map. exact HS.
  - rewrite map_map. cbn [fst]. unfold vals, arrs_of in Hwf. rewrite concat_map, map_map in Hwf. exact Hwf.
Qed.

(* ---------------------------------------------------------------- keyed maps: one key *)
Definition qof (k : N) (m : list (N * list N)) : list N :=
  concat (map (fun e => if N.eqb (fst e) k then snd e else []) m).
Definition proj (k : N) (l : list (N * N)) : list N :=
  map snd (filter (fun kv => N.eqb (fst kv) k) l).

Lemma qof_notin k m : ~ In k (map fst m) -> qof k m = [].
Proof.
  induction m as [|[k0 q] m IH]; intro H; [reflexivity|]. unfold qof in *. cbn.
  destruct (N.eqb k0 k) eqn:E; [apply N.eqb_eq in E; subst; exfalso; apply H; left; reflexivity|].
  apply IH. intro Hin. apply H. right. exact Hin.
Qed.

Lemma proj_app k a b : proj k (a ++ b) = proj k a ++ proj k b.
Proof. unfold proj. rewrite filter_app, map_app. reflexivity. Qed.

Lemma proj_map_pair k k0 (r : list N) :
  proj k (map (pair k0) r) = if N.eqb k0 k then r else [].
Proof.
  unfold proj. induction r as [|x r IH]; cbn; [destruct (N.eqb k0 k); reflexivity|].
  destruct (N.eqb k0 k) eqn:E; cbn; rewrite IH, ?E; reflexivity.
Qed.

(* keyed TotalOrder batch: per key, released ++ kept = queue, keys unchanged *)
Lemma KeyedSplit_prefix_key : forall (m : list (N * list N)) rel m',
  KeyedSplit PrefixSplit m rel m' -> NoDup (map fst m) ->
  map fst m' = map fst m /\
  (forall k, proj k rel ++ qof k m' = qof k m) /\
  (forall k, ~ In k (map fst m) -> proj k rel = []).
Proof.
  induction 1 as [|k0 q r q' m rel m' HP HK IH]; intro Hnd.
  - repeat split; reflexivity.
  - cbn [map fst] in Hnd. inversion Hnd as [|x l Hnin Hnd']; subst.
    destruct (IH Hnd') as (Hk & Hq & Hn). unfold PrefixSplit in HP. subst q.
    split; [cbn; rewrite Hk; reflexivity|]. split.
    + intro k. rewrite proj_app, proj_map_pair. unfold qof. cbn [map concat fst snd].
      fold (qof k m'). fold (qof k m).
      destruct (N.eqb k0 k) eqn:E.
      * apply N.eqb_eq in E. subst k0.
        rewrite (Hn k Hnin). rewrite (qof_notin k m Hnin).
        rewrite (qof_notin k m') by (rewrite Hk; exact Hnin).
        rewrite !app_nil_r. reflexivity.
      * cbn [app]. apply Hq.
    + intros k Hnk. rewrite proj_app, proj_map_pair.
      destruct (N.eqb k0 k) eqn:E; [apply N.eqb_eq in E; subst; exfalso; apply Hnk; left; reflexivity|].
      cbn [app]. apply Hn. intro Hin. apply Hnk. right. exact Hin.
Qed.

Lemma push_key_keys k v m :
  NoDup (map fst m) -> NoDup (map fst (push_key k v m)) /\
  (forall k', qof k' (push_key k v m) = qof k' m ++ (if N.eqb k k' then [v] else [])).
Proof.
  induction m as [|[k0 q] m IH]; intro Hnd.
  - cbn. split; [constructor; [intros []|constructor]|]. intro k'. unfold qof. cbn.
    destruct (N.eqb k k'); reflexivity.
  - cbn [map fst] in Hnd. inversion Hnd as [|x l Hnin Hnd']; subst. cbn [push_key].
    destruct (N.eqb k k0) eqn:E.
    + apply N.eqb_eq in E. subst k0. split; [exact Hnd|]. intro k'. unfold qof. cbn [map concat fst snd].
      fold (qof k' m). destruct (N.eqb k k') eqn:E2.
      * apply N.eqb_eq in E2. subst k'. rewrite (qof_notin k m Hnin), !app_nil_r. reflexivity.
      * rewrite app_nil_r. reflexivity.
    + destruct (IH Hnd') as [Hnd2 Hq]. split.
      * cbn [map fst]. constructor; [|exact Hnd2].
        assert (Hkeys : forall y, In y (map fst (push_key k v m)) -> y = k \/ In y (map fst m)).
        { clear. induction m as [|[a b] m IHm]; cbn; intros y Hy.
          - destruct Hy as [<-|[]]. left; reflexivity.
          - destruct (N.eqb k a); cbn in Hy; destruct Hy as [<-|Hy]; auto.
            destruct (IHm y Hy); auto. }
        intro Hin. destruct (Hkeys _ Hin) as [->|Hin']; [rewrite N.eqb_refl in E; discriminate|].
        exact (Hnin Hin').
      * intro k'. unfold qof. cbn [map concat fst snd]. fold (qof k' (push_key k v m)). fold (qof k' m).
        rewrite Hq, app_assoc. reflexivity.
Qed.

Lemma push_keyed_keys : forall arr m,
  NoDup (map fst m) -> NoDup (map fst (push_keyed m arr)) /\
  (forall k, qof k (push_keyed m arr) = qof k m ++ proj k arr).
Proof.
  induction arr as [|[k v] arr IH]; intros m Hnd.
  - split; [exact Hnd|]. intro k. cbn. rewrite app_nil_r. reflexivity.
  - unfold push_keyed in *. cbn [fold_left fst snd].
    destruct (push_key_keys k v m Hnd) as [Hnd1 Hq1]. destruct (IH _ Hnd1) as [Hnd2 Hq2].
    split; [exact Hnd2|]. intro k'. rewrite Hq2, Hq1, <- app_assoc. f_equal.
    unfold proj. cbn [filter fst]. destruct (N.eqb k k'); reflexivity.
Qed.

(* C31 batches, keyed TotalOrder hook: for EVERY key, the values released for the key over all
   ticks, followed by the key's queue, are the key's initial queue followed by its arrivals --
   as lists (each element in exactly one batch, per-key order kept) *)
Theorem traj_keyed_total_order : forall tr m h',
  Traj (HKeyedT m None) tr h' -> NoDup (map fst m) ->
  exists m', h' = HKeyedT m' None /\ NoDup (map fst m') /\
    forall k, proj k (outs_of tr) ++ qof k m' = qof k m ++ proj k (arrs_of tr).
Proof.
  induction tr as [|[arr out] r IH]; intros m h' HT Hnd;
    inversion HT as [|hh aa hh' oo rr hh'' H2 H5]; subst.
  - exists m. split; [reflexivity|]. split; [exact Hnd|]. intro k. cbn. rewrite app_nil_r. reflexivity.
  - cbn [push] in H2. destruct H2 as (f & d & h1 & nt & d' & flag & Ha & Hr). cbn [auto] in Ha.
    inv_bind Ha as [[[rel m1] ds'] nt']. inversion Ha; subst. cbn in Hr. inversion Hr; subst.
    apply keyed_total_per_key in E. destruct E as (HK & _).
    destruct (push_keyed_keys arr m Hnd) as [Hnd1 Hq1].
    destruct (KeyedSplit_prefix_key _ _ _ HK Hnd1) as (Hkeys & Hq & _).
    assert (Hnd2 : NoDup (map fst m1)) by (rewrite Hkeys; exact Hnd1).
    destruct (IH _ _ H5 Hnd2) as (m' & -> & Hnd3 & Hr3).
    exists m'. split; [reflexivity|]. split; [exact Hnd3|]. intro k.
    unfold outs_of, arrs_of in *. cbn [map concat fst snd]. rewrite !proj_app.
    rewrite <- app_assoc, Hr3, app_assoc, Hq, Hq1, <- app_assoc. reflexivity.
Qed.

(* ---------------------------------------------------------------- KeyedSingletonHook, per key *)
Definition upd (last : list (N * N)) (rel : list (N * N * bool)) : list (N * N) :=
  fold_left (fun (acc : list (N * N)) (e : N * N * bool) => if snd e then insert N.eqb (fst (fst e)) (snd (fst e)) acc else acc) rel last.

Lemma lookup_insert_same k x (l : list (N * N)) : lookup N.eqb k (insert N.eqb k x l) = Some x.
Proof.
  induction l as [|[k' v] l IH]; cbn; [rewrite N.eqb_refl; reflexivity|].
  destruct (N.eqb k k') eqn:E; cbn; [rewrite N.eqb_refl; reflexivity | rewrite E; exact IH].
Qed.

Lemma lookup_insert_other k k0 x (l : list (N * N)) : k <> k0 ->
  lookup N.eqb k (insert N.eqb k0 x l) = lookup N.eqb k l.
Proof.
  intro Hne. induction l as [|[k' v] l IH]; cbn.
  - destruct (N.eqb k k0) eqn:E; [apply N.eqb_eq in E; contradiction|reflexivity].
  - destruct (N.eqb k0 k') eqn:E0; cbn.
    + apply N.eqb_eq in E0. subst k'.
      destruct (N.eqb k k0) eqn:E; [apply N.eqb_eq in E; contradiction|reflexivity].
    + destruct (N.eqb k k'); [reflexivity|exact IH].
Qed.

(* the hook's last_released map after a decision = the old one updated with the new releases *)
Lemma ksingle_last : forall (m : list (N * list N)) force r last ds rel m' last' rest nt,
  ksingle_loop N.eqb force r m last ds = Ok (rel, m', last', rest, nt) -> last' = upd last rel.
Proof.
  induction m as [|[k q] m IH]; intros force r last ds rel m' last' rest nt H;
    cbn [ksingle_loop] in H.
  - inversion H; subst. reflexivity.
  - destruct (is_nil q) eqn:En.
    + destruct (lookup N.eqb k last) as [l|] eqn:El; [|discriminate].
      inv_bind H as [[[[rel1 m1] last1] rest1] nt1]. inversion H; subst; clear H.
      apply IH in E. subst. reflexivity.
    + inv_bind H as [re ds1]. destruct re as [l|].
      * inv_bind H as [[[[rel1 m1] last1] rest1] nt1]. inversion H; subst; clear H.
        apply IH in E0. subst. reflexivity.
      * inv_bind H as [null ds2]. destruct null.
        -- inv_bind H as [[[[rel1 m1] last1] rest1] nt1]. inversion H; subst; clear H.
           apply IH in E1. subst. reflexivity.
        -- inv_bind H as [idx ds3]. destruct (skipn idx q) as [|x qrest] eqn:Es; [discriminate|].
           inv_bind H as [[[[rel1 m1] last1] rest1] nt1]. inversion H; subst; clear H.
           apply IH in E2. subst. reflexivity.
Qed.

Definition rvals (k : N) (rel : list (N * N * bool)) : list N := proj k (map fst rel).

Lemma KSplit_snap : forall last (m : list (N * list N)) rel m',
  KSplit N.eqb last m rel m' -> NoDup (map fst m) ->
  map fst m' = map fst m /\
  (forall k, SnapStep (lookup N.eqb k last) (qof k m) (rvals k rel) (lookup N.eqb k (upd last rel)) (qof k m')) /\
  (forall k, ~ In k (map fst m) -> rvals k rel = [] /\ lookup N.eqb k (upd last rel) = lookup N.eqb k last).
Proof.
  induction 1 as [last | last k0 q l m rel m' Hl HK IH | last k0 q m rel m' Hq Hl HK IH
                  | last k0 q sk x q' m rel m' Hq HK IH]; intro Hnd.
  - repeat split; try reflexivity. intro k. cbn. apply SS_idle.
  - cbn [map fst] in Hnd. inversion Hnd as [|y t Hnin Hnd']; subst.
    destruct (IH Hnd') as (Hk & Hs & Hn). split; [cbn; rewrite Hk; reflexivity|].
    assert (Hupd : upd last ((k0, l, false) :: rel) = upd last rel) by reflexivity.
    split.
    + intro k. rewrite Hupd. unfold rvals, proj, qof. cbn [map fst snd filter concat].
      destruct (N.eqb k0 k) eqn:E.
      * apply N.eqb_eq in E. subst k0. destruct (Hn k Hnin) as [Hr Hlk].
        fold (qof k m) (qof k m'). rewrite (qof_notin k m Hnin).
        rewrite (qof_notin k m') by (rewrite Hk; exact Hnin).
        cbn [map snd]. fold (proj k (map fst rel)). fold (rvals k rel). rewrite Hr, Hlk, Hl, !app_nil_r.
        apply SS_old.
      * apply Hs.
    + intros k Hnk. rewrite Hupd. unfold rvals, proj. cbn [map fst snd filter].
      destruct (N.eqb k0 k) eqn:E; [apply N.eqb_eq in E; subst; exfalso; apply Hnk; left; reflexivity|].
      apply Hn. intro Hin. apply Hnk. right. exact Hin.
  - cbn [map fst] in Hnd. inversion Hnd as [|y t Hnin Hnd']; subst.
    destruct (IH Hnd') as (Hk & Hs & Hn). split; [cbn; rewrite Hk; reflexivity|]. split.
    + intro k. unfold qof. cbn [map fst snd concat]. destruct (N.eqb k0 k) eqn:E.
      * apply N.eqb_eq in E. subst k0. destruct (Hn k Hnin) as [Hr Hlk].
        fold (qof k m) (qof k m'). rewrite (qof_notin k m Hnin).
        rewrite (qof_notin k m') by (rewrite Hk; exact Hnin).
        rewrite Hr, Hlk, Hl, !app_nil_r. apply SS_null.
      * apply Hs.
    + intros k Hnk. apply Hn. intro Hin. apply Hnk. right. exact Hin.
  - cbn [map fst] in Hnd. inversion Hnd as [|y t Hnin Hnd']; subst.
    destruct (IH Hnd') as (Hk & Hs & Hn). split; [cbn; rewrite Hk; reflexivity|].
    assert (Hupd : upd last ((k0, x, true) :: rel) = upd (insert N.eqb k0 x last) rel) by reflexivity.
    split.
    + intro k. rewrite Hupd. unfold rvals, proj, qof. cbn [map fst snd filter concat].
      destruct (N.eqb k0 k) eqn:E.
      * apply N.eqb_eq in E. subst k0. destruct (Hn k Hnin) as [Hr Hlk].
        fold (qof k m) (qof k m'). rewrite (qof_notin k m Hnin).
        rewrite (qof_notin k m') by (rewrite Hk; exact Hnin).
        cbn [map snd]. fold (proj k (map fst rel)). fold (rvals k rel).
        rewrite Hr, Hlk, lookup_insert_same, !app_nil_r. apply SS_new.
      * specialize (Hs k). rewrite lookup_insert_other in Hs
          by (intro Heq; subst; rewrite N.eqb_refl in E; discriminate).
        exact Hs.
    + intros k Hnk. rewrite Hupd. unfold rvals, proj. cbn [map fst snd filter].
      destruct (N.eqb k0 k) eqn:E; [apply N.eqb_eq in E; subst; exfalso; apply Hnk; left; reflexivity|].
      destruct (Hn k) as [Hr Hlk]; [intro Hin; apply Hnk; right; exact Hin|].
      split; [exact Hr|]. rewrite Hlk. apply lookup_insert_other.
      intro Heq; subst; rewrite N.eqb_refl in E; discriminate.
Qed.

Lemma traj_ksingle_straj : forall tr m last h' k,
  Traj (HKSingle m None last) tr h' -> NoDup (map fst m) ->
  STraj (lookup N.eqb k last) (qof k m)
        (map (fun ao => (proj k (fst ao), proj k (snd ao))) tr).
Proof.
  induction tr as [|[arr out] r IH]; intros m last h' k HT Hnd;
    inversion HT as [|hh aa hh' oo rr hh'' H2 H5]; subst; [constructor|].
  cbn [push] in H2. destruct H2 as (f & d & h1 & nt & d' & flag & Ha & Hr). cbn [auto] in Ha.
  inv_bind Ha as [[[[rel m1] last1] ds'] nt']. inversion Ha; subst. cbn in Hr. inversion Hr; subst.
  unfold decide_ksingle in E. pose proof (ksingle_last _ _ _ _ _ _ _ _ _ _ E) as ->.
  apply ksingle_sound in E. destruct E as [HK _].
  destruct (push_keyed_keys arr m Hnd) as [Hnd1 Hq1].
  destruct (KSplit_snap _ _ _ _ HK Hnd1) as (Hkeys & Hs & _).
  cbn [map fst snd]. econstructor.
  - specialize (Hs k). rewrite Hq1 in Hs. exact Hs.
  - eapply IH; [exact H5 | rewrite Hkeys; exact Hnd1].
Qed.

(* C31 snapshots, KeyedSingletonHook: for EVERY key the released versions never go back *)
Theorem traj_keyed_snapshot_mono : forall tr m last h' k,
  Traj (HKSingle m None last) tr h' -> NoDup (map fst m) ->
  StronglySorted N.lt (olist (lookup N.eqb k last) ++ qof k m ++ proj k (arrs_of tr)) ->
  StronglySorted N.le (proj k (outs_of tr)).
Proof.
  intros tr m last h' k HT Hnd Hwf. pose proof (traj_ksingle_straj _ _ _ _ k HT Hnd) as HS.
  apply straj_mono in HS.
  - destruct HS as [HS _]. rewrite map_map in HS. cbn [snd] in HS.
    assert (Hp : forall l : list (list (N * N)), proj k (concat l) = concat (map (proj k) l)).
    { induction l as [|a l IHl]; [reflexivity|]. cbn [concat map]. rewrite proj_app, IHl. reflexivity. }
    unfold outs_of. rewrite Hp, map_map. exact HS.
  - rewrite map_map. cbn [fst].
    assert (Hp : forall l : list (list (N * N)), proj k (concat l) = concat (map (proj k) l)).
    { induction l as [|a l IHl]; [reflexivity|]. cbn [concat map]. rewrite proj_app, IHl. reflexivity. }
    unfold arrs_of in Hwf. rewrite Hp, map_map in Hwf. exact Hwf.
Qed.
