(* HydroB engine: out-degrees of every emitted graph (ident linearity).  Every ident an
   emit_node call returns is consumed exactly once by its caller, tee idents any number of
   times: so every node that is not a `tee` / cycle `identity` has out-degree 1, sinks 0, and
   these numbers are inside the operator table's hard output ranges. *)
From Coq Require Import List String NArith Bool Arith Lia ZifyBool ZifyN.
From HV Require Import HydroB.Model HydroB.PEmit.
Import ListNotations.
Open Scope string_scope.
Open Scope N_scope.

Definition opn (ns : list gnode) (n : N) : string :=
  match find (fun x => N.eqb (n_id x) n) ns with Some x => n_op x | None => "" end.
Definition uses (es : list edge) (n : N) : nat :=
  List.length (filter (fun e => N.eqb (e_src e) n) es).
Definition is_sink (op : string) : bool := String.eqb op "for_each" || String.eqb op "dest_sink".
Definition free_out (op : string) : bool := String.eqb op "tee" || String.eqb op "identity".
Definition mid_ok (op : string) : bool := negb (is_sink op) && negb (free_out op).

Definition out_done (s : st) (n : N) : Prop :=
  free_out (opn (s_nodes s) n) = false ->
  uses (s_edges s) n = (if is_sink (opn (s_nodes s) n) then 0 else 1)%nat.

(* the table accepts the out-degree the emitter gives an operator *)
Definition out_table_ok (T : optable) (op : string) : bool :=
  match find_row T op with
  | None => false
  | Some r =>
      if String.eqb op "tee" then N.eqb (fst (r_out r)) 0 && match snd (r_out r) with None => true | _ => false end
      else if String.eqb op "identity" then in_range (r_out r) 1
      else in_range (r_out r) (if is_sink op then 0 else 1)
  end.

Definition count_in (ins : list (ident * string)) (n : N) : nat :=
  List.length (filter (fun ip => match fst ip with inl m => N.eqb m n | inr _ => false end) ins).

Section Out.
  Variable T : optable.
  Variable rk : N -> N.
  (* facts about the emitter's statement fragments (discharged for the regenerated table and
     the concrete fragment tables in PC41.v) *)
  Hypothesis Fsrc : forall s m, forallb mid_ok (src_ops s m) = true /\ src_ops s m <> [].
  Hypothesis Fun : forall u m, forallb mid_ok (un_ops u m) = true.
  Hypothesis Fbin : forall b ml mr, forallb mid_ok (fst (bin_ops b ml mr)) = true /\ fst (bin_ops b ml mr) <> [].
  Hypothesis Tsrc : forall s m, forallb (out_table_ok T) (src_ops s m) = true.
  Hypothesis Tun : forall u m, forallb (out_table_ok T) (un_ops u m) = true.
  Hypothesis Tbin : forall b ml mr, forallb (out_table_ok T) (fst (bin_ops b ml mr)) = true.
  Hypothesis Tsink : forall k, out_table_ok T (sink_op k) = true /\ is_sink (sink_op k) = true.
  Hypothesis Tmisc : forallb (out_table_ok T) ["tee"; "identity"; "map"; "dest_sink"; "source_stream"] = true.

  Record W (s : st) : Prop := mkW {
    w_nodes : forall x, In x (s_nodes s) -> n_id x < s_next s /\ out_table_ok T (n_op x) = true;
    w_nodup : NoDup (map n_id (s_nodes s));
    w_edges : forall e, In e (s_edges s) -> e_src e < s_next s;
    w_tees : forall x, In x (s_tees s) ->
        match fst (snd x) with inl n => n < s_next s /\ opn (s_nodes s) n = "tee" | inr _ => True end;
    w_sinks : forall x, In x (s_sinks s) -> snd x < s_next s /\ opn (s_nodes s) (snd x) = "identity"
  }.

  Lemma W0 : W st0.
  Proof. constructor; simpl; try (intros; contradiction). constructor. Qed.

  Lemma opn_cons_old x ns n : n_id x <> n -> opn (x :: ns) n = opn ns n.
  Proof.
    intro H. unfold opn. simpl. destruct (N.eqb (n_id x) n) eqn:E; [apply N.eqb_eq in E; contradiction|reflexivity].
  Qed.
  Lemma opn_cons_new x ns : opn (x :: ns) (n_id x) = n_op x.
  Proof. unfold opn. simpl. rewrite N.eqb_refl. reflexivity. Qed.

  Lemma link_inputs_uses : forall ins dst op es ps es' ps',
    link_inputs T dst op ins es ps = (es', ps') ->
    (forall n, uses es' n = (uses es n + count_in ins n)%nat) /\
    (forall e, In e es' -> In e es \/ exists p, In (inl (e_src e), p) ins).
  Proof.
    induction ins as [|[[m|c] port] r IH]; simpl; intros dst op es ps es' ps' H.
    - inversion H; subst. split; [intro n; unfold count_in; simpl; lia | auto].
    - apply IH in H. destruct H as [Hu Hm]. split.
      + intro n. rewrite Hu. unfold uses, count_in. simpl.
        destruct (N.eqb m n); simpl; lia.
      + intros e He. destruct (Hm e He) as [[<-|Hin]|[p Hp]].
        * right. exists port. left. reflexivity.
        * left; assumption.
        * right. exists p. right. assumption.
    - apply IH in H. destruct H as [Hu Hm]. split.
      + intro n. rewrite Hu. unfold count_in. simpl. reflexivity.
      + intros e He. destruct (Hm e He) as [Hin|[p Hp]]; [left; assumption|].
        right. exists p. right. assumption.
  Qed.

  Definition ins_bound (s : st) (ins : list (ident * string)) : Prop :=
    forall n p, In (inl n, p) ins -> n < s_next s.

  Lemma add_op_out : forall op lvl ins s id s',
    add_op T op lvl ins s = (id, s') -> W s -> ins_bound s ins -> out_table_ok T op = true ->
    id = s_next s /\ s_next s' = id + 1 /\ opn (s_nodes s') id = op /\
    (forall n, n < s_next s -> opn (s_nodes s') n = opn (s_nodes s) n) /\
    (forall n, uses (s_edges s') n = (uses (s_edges s) n + count_in ins n)%nat) /\
    s_tees s' = s_tees s /\ s_sinks s' = s_sinks s /\ W s'.
  Proof.
    intros op lvl ins s id s' H [W1 W2 W3 W4 W5] Hb Hop. unfold add_op in H.
    destruct (link_inputs T (s_next s) op ins (s_edges s) (s_pend s)) as [es ps] eqn:EL.
    inversion H; subst id s'; clear H. simpl.
    destruct (link_inputs_uses _ _ _ _ _ _ _ EL) as [Hu Hm].
    set (x := mkNode (s_next s) op lvl (N.of_nat (List.length ins))).
    assert (Hold : forall n, n < s_next s -> opn (x :: s_nodes s) n = opn (s_nodes s) n).
    { intros n Hn. apply opn_cons_old. unfold x; simpl. lia. }
    assert (Hnew : opn (x :: s_nodes s) (s_next s) = op).
    { pose proof (opn_cons_new x (s_nodes s)) as Hx. unfold x in Hx at 2 3. simpl in Hx. exact Hx. }
    split; [reflexivity|]. split; [reflexivity|]. split; [exact Hnew|]. split; [exact Hold|].
    split; [exact Hu|]. split; [reflexivity|]. split; [reflexivity|].
    constructor; simpl.
    - intros y [<-|Hy]; [unfold x; simpl; split; [lia|exact Hop] | destruct (W1 y Hy); split; [lia|assumption]].
    - constructor; [|exact W2]. intro Hin. apply in_map_iff in Hin. destruct Hin as [y [Hy1 Hy2]].
      destruct (W1 y Hy2) as [Hlt _]. unfold x in Hy1; simpl in Hy1. lia.
    - intros e He. destruct (Hm e He) as [Hin|[p Hp]]; [specialize (W3 e Hin); lia | specialize (Hb _ _ Hp); lia].
    - intros y Hy. specialize (W4 y Hy). destruct (fst (snd y)) as [n|c]; [|exact I].
      destruct W4 as [A B]. split; [lia|]. rewrite Hold by assumption. exact B.
    - intros y Hy. destruct (W5 y Hy) as [A B]. split; [lia|]. rewrite Hold by assumption. exact B.
  Qed.

  Lemma uses_zero : forall es n, (forall e, In e es -> e_src e <> n) -> uses es n = 0%nat.
  Proof.
    induction es as [|e es IH]; intros n H; [reflexivity|]. unfold uses. simpl.
    destruct (N.eqb (e_src e) n) eqn:E.
    - apply N.eqb_eq in E. exfalso. apply (H e); [left; reflexivity|assumption].
    - apply IH. intros e' He'. apply H. right; assumption.
  Qed.

  Lemma count_in_zero : forall ins n, (forall m p, In (inl m, p) ins -> m <> n) -> count_in ins n = 0%nat.
  Proof.
    induction ins as [|[[m|c] p] r IH]; intros n H; [reflexivity| |].
    - unfold count_in. simpl. destruct (N.eqb m n) eqn:E.
      + apply N.eqb_eq in E. exfalso. apply (H m p); [left; reflexivity|assumption].
      + apply IH. intros m' p' Hin. apply (H m' p'). right; assumption.
    - unfold count_in. simpl. apply IH. intros m' p' Hin. apply (H m' p'). right; assumption.
  Qed.

  Lemma uses_fresh s n : W s -> s_next s <= n -> uses (s_edges s) n = 0%nat.
  Proof. intros HW Hn. apply uses_zero. intros e He. pose proof (w_edges _ HW e He). lia. Qed.

  Lemma mid_ok_spec op : mid_ok op = true -> is_sink op = false /\ free_out op = false.
  Proof. unfold mid_ok. intro H. apply andb_true_iff in H. destruct H as [A B].
         apply negb_true_iff in A. apply negb_true_iff in B. auto. Qed.

  Lemma add_chain_out : forall ops lvl ins s i s',
    add_chain T ops lvl ins s = Some (i, s') -> W s -> ins_bound s ins ->
    forallb (out_table_ok T) ops = true -> forallb mid_ok (removelast ops) = true ->
    exists n, i = inl n /\ s_next s <= n /\ n < s_next s' /\ uses (s_edges s') n = 0%nat /\
      opn (s_nodes s') n = last ops "" /\
      (forall m, s_next s <= m -> m < s_next s' -> m <> n -> out_done s' m) /\
      (forall m, m < s_next s -> opn (s_nodes s') m = opn (s_nodes s) m /\
                                 uses (s_edges s') m = (uses (s_edges s) m + count_in ins m)%nat) /\
      s_tees s' = s_tees s /\ s_sinks s' = s_sinks s /\ W s'.
  Proof.
    induction ops as [|op rest IH]; intros lvl ins s i s' H HW Hb HT HM; [discriminate|].
    simpl in H. simpl in HT. apply andb_true_iff in HT. destruct HT as [HT1 HT2].
    destruct rest as [|op2 rest'].
    - destruct (add_op T op lvl ins s) as [id s1] eqn:EA. inversion H; subst i s'; clear H.
      destruct (add_op_out _ _ _ _ _ _ EA HW Hb HT1) as (Hid & Hnx & Hop & Hold & Hu & Ht & Hs & HW1).
      exists id. split; [reflexivity|]. split; [lia|]. split; [lia|]. split.
      + rewrite Hu, (uses_fresh s id HW) by lia. rewrite count_in_zero; [reflexivity|].
        intros m p Hin. specialize (Hb _ _ Hin). lia.
      + split; [exact Hop|]. split; [intros m A B C; lia|]. split; [|auto].
        intros m Hm. split; [apply Hold; exact Hm | apply Hu].
    - destruct (add_op T op lvl ins s) as [id s1] eqn:EA.
      destruct (add_op_out _ _ _ _ _ _ EA HW Hb HT1) as (Hid & Hnx & Hop & Hold & Hu & Ht & Hs & HW1).
      change (removelast (op :: op2 :: rest')) with (op :: removelast (op2 :: rest')) in HM.
      simpl in HM. apply andb_true_iff in HM. destruct HM as [HM1 HM2].
      assert (Hb1 : ins_bound s1 [(inl id, "[]")]).
      { intros n p [Hin|[]]. inversion Hin; subst. lia. }
      destruct (IH _ _ _ _ _ H HW1 Hb1 HT2 HM2) as (n & -> & Hn1 & Hn2 & Hu0 & Hlast & Hmid & Holdc & Ht2 & Hs2 & HW2).
      exists n. split; [reflexivity|]. split; [lia|]. split; [lia|]. split; [exact Hu0|].
      split; [exact Hlast|]. split; [|split; [|split; [congruence|split; [congruence|exact HW2]]]].
      + intros m A B C. destruct (N.eq_dec m id) as [->|Hne].
        * destruct (Holdc id) as [Ho Hus]; [lia|]. unfold out_done. rewrite Ho, Hop.
          destruct (mid_ok_spec _ HM1) as [Hsk Hfr]. intros _. rewrite Hsk, Hus.
          rewrite Hu, (uses_fresh s id HW) by lia.
          rewrite count_in_zero by (intros m p Hin; specialize (Hb _ _ Hin); lia).
          unfold count_in. simpl. rewrite N.eqb_refl. reflexivity.
        * apply Hmid; [lia|exact B|exact C].
      + intros m Hm. destruct (Holdc m) as [Ho Hus]; [lia|]. split.
        * rewrite Ho. apply Hold. exact Hm.
        * rewrite Hus, Hu. unfold count_in at 2. simpl.
          destruct (N.eqb id m) eqn:E; [apply N.eqb_eq in E; lia|]. simpl. lia.
  Qed.

  Arguments add_chain : simpl never.

  Definition ret_ok (s s' : st) (i : ident) : Prop :=
    match i with
    | inr _ => True
    | inl n => n < s_next s' /\
        (opn (s_nodes s') n = "tee" \/
         (s_next s <= n /\ uses (s_edges s') n = 0%nat /\ mid_ok (opn (s_nodes s') n) = true))
    end.

  Definition E (h : hnode) : Prop := forall s i s',
    emit_node T rk h s = Some (i, s') -> W s ->
    W s' /\ s_next s <= s_next s' /\
    (forall n, n < s_next s -> opn (s_nodes s') n = opn (s_nodes s) n) /\
    (forall n, n < s_next s -> opn (s_nodes s) n <> "tee" -> uses (s_edges s') n = uses (s_edges s) n) /\
    (forall n, s_next s <= n -> n < s_next s' -> inl n <> i -> out_done s' n) /\
    ret_ok s s' i /\ s_sinks s' = s_sinks s.

  Lemma ret_bound s0 s i : ret_ok s0 s i -> ins_bound s [(i, "[]")].
  Proof. intros H n p [Hin|[]]. inversion Hin; subst. simpl in H. tauto. Qed.

  Lemma count_single (i : ident) p m :
    count_in [(i, p)] m = match i with inl n => if N.eqb n m then 1%nat else 0%nat | inr _ => 0%nat end.
  Proof. unfold count_in. simpl. destruct i as [n|c]; [destruct (N.eqb n m)|]; reflexivity. Qed.

  (* consuming the ident [i] (returned for the range [s0, s1)) by one new statement fragment *)
  Lemma consume_one : forall s0 s1 i ops lvl j s2,
    W s1 -> ret_ok s0 s1 i -> s_next s0 <= s_next s1 ->
    (forall n, s_next s0 <= n -> n < s_next s1 -> inl n <> i -> out_done s1 n) ->
    add_chain T ops lvl [(i, "[]")] s1 = Some (j, s2) ->
    forallb (out_table_ok T) ops = true -> forallb mid_ok (removelast ops) = true ->
    exists nj, j = inl nj /\ s_next s1 <= nj /\ nj < s_next s2 /\ uses (s_edges s2) nj = 0%nat /\
      opn (s_nodes s2) nj = last ops "" /\ W s2 /\ s_next s1 <= s_next s2 /\
      (forall n, n < s_next s1 -> opn (s_nodes s2) n = opn (s_nodes s1) n) /\
      (forall n, n < s_next s1 -> inl n <> i -> uses (s_edges s2) n = uses (s_edges s1) n) /\
      (forall n, s_next s0 <= n -> n < s_next s2 -> n <> nj -> out_done s2 n) /\
      s_tees s2 = s_tees s1 /\ s_sinks s2 = s_sinks s1.
  Proof.
    intros s0 s1 i ops lvl j s2 HW Hr Hle Hdone H HT HM.
    destruct (add_chain_out _ _ _ _ _ _ H HW (ret_bound _ _ _ Hr) HT HM)
      as (nj & -> & A1 & A2 & A3 & A4 & A5 & A6 & A7 & A8 & A9).
    exists nj. split; [reflexivity|]. split; [exact A1|]. split; [exact A2|]. split; [exact A3|].
    split; [exact A4|]. split; [exact A9|]. split; [lia|]. split; [intros n Hn; apply (A6 n Hn)|].
    split.
    - intros n Hn Hne. destruct (A6 n Hn) as [_ Hu]. rewrite Hu, count_single.
      destruct i as [ni|c]; [|lia]. destruct (N.eqb ni n) eqn:Eq; [apply N.eqb_eq in Eq; subst; congruence|lia].
    - split; [|auto]. intros n B1 B2 B3. destruct (N.lt_ge_cases n (s_next s1)) as [Hlt|Hge].
      + destruct (A6 n Hlt) as [Ho Hu]. unfold out_done. rewrite Ho, Hu, count_single.
        destruct i as [ni|c].
        * destruct (N.eqb ni n) eqn:Eq.
          -- apply N.eqb_eq in Eq. subst ni. simpl in Hr. destruct Hr as [_ [Ht|(C1 & C2 & C3)]].
             ++ intro Hf. unfold free_out in Hf. rewrite Ht in Hf. discriminate.
             ++ destruct (mid_ok_spec _ C3) as [D1 D2]. intros _. rewrite D1, C2. reflexivity.
          -- intro Hf. rewrite Nat.add_0_r. apply (Hdone n B1 Hlt); [|exact Hf].
             intro Heq. inversion Heq; subst. rewrite N.eqb_refl in Eq. discriminate.
        * intro Hf. rewrite Nat.add_0_r. apply (Hdone n B1 Hlt); [discriminate|exact Hf].
      + apply A5; assumption.
  Qed.

  Lemma tee_not_mid op : mid_ok op = true -> op <> "tee".
  Proof. intros H ->. discriminate. Qed.

  Lemma removelast_single (op : string) : removelast [op] = [].
  Proof. reflexivity. Qed.

  Lemma mid_removelast : forall ops, forallb mid_ok ops = true -> forallb mid_ok (removelast ops) = true.
  Proof.
    induction ops as [|a [|b r] IH]; intro H; try reflexivity.
    change (removelast (a :: b :: r)) with (a :: removelast (b :: r)).
    simpl in H. apply andb_true_iff in H. destruct H as [A B]. simpl. rewrite A. apply IH. exact B.
  Qed.

  Lemma mid_last : forall ops, ops <> [] -> forallb mid_ok ops = true -> mid_ok (last ops "") = true.
  Proof.
    induction ops as [|a [|b r] IH]; intros Hne H; [contradiction| |].
    - simpl in *. apply andb_true_iff in H. tauto.
    - change (last (a :: b :: r) "") with (last (b :: r) ""). apply IH; [discriminate|].
      simpl in H. apply andb_true_iff in H. tauto.
  Qed.

  Lemma out_done_tee_free s n : opn (s_nodes s) n = "tee" -> out_done s n.
  Proof. intros H Hf. unfold free_out in Hf. rewrite H in Hf. discriminate. Qed.

  Lemma emit_node_out : forall h, E h.
  Proof.
    induction h as [sk m | c m | id inner IH m | u input IH m | b l IHl r IHr m | ser deser input IH m];
      intros s i s' H HW.
    - (* source *)
      simpl in H. destruct (Fsrc sk m) as [Fm Fne].
      assert (Hb : ins_bound s []) by (intros n p []).
      destruct (add_chain_out _ _ _ _ _ _ H HW Hb (Tsrc sk m) (mid_removelast _ Fm))
        as (n & -> & A1 & A2 & A3 & A4 & A5 & A6 & A7 & A8 & A9).
      split; [exact A9|]. split; [lia|]. split; [intros k Hk; apply (A6 k Hk)|]. split.
      + intros k Hk _. destruct (A6 k Hk) as [_ Hu]. rewrite Hu. unfold count_in. simpl. lia.
      + split; [intros k B1 B2 B3; apply A5; try assumption; congruence|]. split; [|exact A8].
        simpl. split; [exact A2|]. right. split; [exact A1|]. split; [exact A3|].
        rewrite A4. apply mid_last; assumption.
    - (* cycle source *)
      simpl in H. inversion H; subst. split; [exact HW|]. split; [lia|]. split; [auto|]. split; [auto|].
      split; [intros n A B; lia|]. split; [exact I|reflexivity].
    - (* tee *)
      simpl in H. destruct (assoc_n id (s_tees s)) as [[i0 l0]|] eqn:EA.
      + destruct (N.eqb l0 (sync_lvl rk inner)); [|discriminate]. inversion H; subst i s'.
        split; [exact HW|]. split; [lia|]. split; [auto|]. split; [auto|]. split; [intros n A B; lia|].
        split; [|reflexivity]. apply assoc_n_In in EA. pose proof (w_tees _ HW _ EA) as Ht. simpl in Ht.
        destruct i0 as [n|c]; [|exact I]. simpl. destruct Ht as [A B]. split; [exact A|left; exact B].
      + destruct (emit_node T rk inner s) as [[i1 s1]|] eqn:EI; [|discriminate].
        destruct (IH _ _ _ EI HW) as (W1 & L1 & O1 & U1 & D1 & R1 & S1).
        destruct (add_op T "tee" (sync_lvl rk inner) [(i1, "[]")] s1) as [n s2] eqn:EO.
        inversion H; subst i s'; clear H.
        assert (Htee : out_table_ok T "tee" = true).
        { simpl in Tmisc. apply andb_true_iff in Tmisc. tauto. }
        destruct (add_op_out _ _ _ _ _ _ EO W1 (ret_bound _ _ _ R1) Htee)
          as (Hid & Hnx & Hop & Hold & Hu & Ht & Hs & HW2).
        assert (HWf : W (mkSt (s_next s2) (s_nodes s2) (s_edges s2) (s_pend s2)
                              ((id, (inl n, sync_lvl rk inner)) :: s_tees s2) (s_sinks s2))).
        { destruct HW2 as [X1 X2 X3 X4 X5]. constructor; simpl; try assumption.
          intros x [<-|Hx]; [simpl; split; [lia|exact Hop] | apply X4; exact Hx]. }
        split; [exact HWf|]. simpl. split; [lia|].
        split; [intros k Hk; rewrite Hold by lia; apply O1; exact Hk|]. split.
        * intros k Hk Hnt. rewrite Hu, count_single, (U1 k Hk Hnt).
          destruct i1 as [n1|c1]; [|lia]. destruct (N.eqb n1 k) eqn:Eq; [|lia].
          apply N.eqb_eq in Eq. subst n1. simpl in R1. destruct R1 as [_ [Rt|(Rg & _)]]; [|lia].
          rewrite O1 in Rt by exact Hk. contradiction.
        * split; [|split; [|simpl; congruence]].
          -- intros k B1 B2 B3. destruct (N.eq_dec k n) as [->|Hne]; [congruence|].
             assert (Hk1 : k < s_next s1) by lia.
             unfold out_done. simpl. rewrite (Hold k Hk1), Hu, count_single.
             destruct i1 as [n1|c1].
             ++ destruct (N.eqb n1 k) eqn:Eq.
                ** apply N.eqb_eq in Eq. subst n1. simpl in R1. destruct R1 as [_ [Rt|(Rg & Ru & Rm)]].
                   --- intro Hf. unfold free_out in Hf. rewrite Rt in Hf. discriminate.
                   --- destruct (mid_ok_spec _ Rm) as [M1 M2]. intros _. rewrite M1, Ru. reflexivity.
                ** intro Hf. rewrite Nat.add_0_r. apply (D1 k B1 Hk1); [|exact Hf].
                   intro Heq. inversion Heq; subst. rewrite N.eqb_refl in Eq. discriminate.
             ++ intro Hf. rewrite Nat.add_0_r. apply (D1 k B1 Hk1); [discriminate|exact Hf].
          -- simpl. split; [lia|]. left. exact Hop.
    - (* unary *)
      simpl in H. destruct (un_unimplemented u (meta_of input)); [discriminate|].
      destruct (emit_node T rk input s) as [[i1 s1]|] eqn:EI; [|discriminate].
      destruct (IH _ _ _ EI HW) as (W1 & L1 & O1 & U1 & D1 & R1 & S1).
      pose proof (Fun u (meta_of input)) as Fm. pose proof (Tun u (meta_of input)) as Ft.
      destruct (un_ops u (meta_of input)) as [|op rest] eqn:EU.
      + inversion H; subst i s'. repeat (split; [assumption|]). assumption.
      + destruct (consume_one s s1 i1 _ _ _ _ W1 R1 L1 D1 H Ft (mid_removelast _ Fm))
          as (nj & -> & C1 & C2 & C3 & C4 & C5 & C6 & C7 & C8 & C9 & C10 & C11).
        split; [exact C5|]. split; [lia|]. split; [intros k Hk; rewrite C7 by lia; apply O1; exact Hk|].
        split.
        * intros k Hk Hnt. rewrite C8; [apply U1; assumption | lia |].
          intro Heq. subst i1. simpl in R1. destruct R1 as [_ [Rt|(Rg & _)]]; [|lia].
          rewrite O1 in Rt by exact Hk. contradiction.
        * split; [intros k B1 B2 B3; apply C9; try assumption; congruence|]. split; [|congruence].
          simpl. split; [exact C2|]. right. split; [lia|]. split; [exact C3|].
          rewrite C4. apply mid_last; [discriminate|exact Fm].
    - (* binary *)
      simpl in H.
      destruct (emit_node T rk l s) as [[i1 s1]|] eqn:E1; [|discriminate].
      destruct (IHl _ _ _ E1 HW) as (W1 & L1 & O1 & U1 & D1 & R1 & S1).
      destruct (emit_node T rk r s1) as [[i2 s2]|] eqn:E2; [|discriminate].
      destruct (IHr _ _ _ E2 W1) as (W2 & L2 & O2 & U2 & D2 & R2 & S2).
      destruct (Fbin b (meta_of l) (meta_of r)) as [Fm Fne]. pose proof (Tbin b (meta_of l) (meta_of r)) as Ft.
      destruct (bin_ops b (meta_of l) (meta_of r)) as [ops [p1 p2]]. simpl in Fm, Fne, Ft.
      assert (Hb : ins_bound s2 [(i1, p1); (i2, p2)]).
      { intros n p [Hin|[Hin|[]]]; inversion Hin; subst.
        - simpl in R1. destruct R1 as [A _]. lia.
        - simpl in R2. tauto. }
      destruct (add_chain_out _ _ _ _ _ _ H W2 Hb Ft (mid_removelast _ Fm))
        as (nj & -> & A1 & A2 & A3 & A4 & A5 & A6 & A7 & A8 & A9).
      assert (Hc : forall k, count_in [(i1, p1); (i2, p2)] k
                   = ((match i1 with inl n => if N.eqb n k then 1%nat else 0%nat | inr _ => 0%nat end)
                      + (match i2 with inl n => if N.eqb n k then 1%nat else 0%nat | inr _ => 0%nat end))%nat).
      { intro k. unfold count_in. simpl. destruct i1 as [n1|c1], i2 as [n2|c2]; simpl;
          repeat (match goal with |- context [N.eqb ?a ?b] => destruct (N.eqb a b) end); reflexivity. }
      (* a returned non-tee ident lies in the range of its own call *)
      assert (R1' : forall k, i1 = inl k -> opn (s_nodes s1) k <> "tee" ->
                    s_next s <= k /\ k < s_next s1 /\ uses (s_edges s1) k = 0%nat /\ mid_ok (opn (s_nodes s1) k) = true).
      { intros k -> Hnt. simpl in R1. destruct R1 as [A [B|(B1 & B2 & B3)]]; [contradiction|auto]. }
      assert (R2' : forall k, i2 = inl k -> opn (s_nodes s2) k <> "tee" ->
                    s_next s1 <= k /\ k < s_next s2 /\ uses (s_edges s2) k = 0%nat /\ mid_ok (opn (s_nodes s2) k) = true).
      { intros k -> Hnt. simpl in R2. destruct R2 as [A [B|(B1 & B2 & B3)]]; [contradiction|auto]. }
      split; [exact A9|]. split; [lia|].
      split; [intros k Hk; destruct (A6 k) as [Ho _]; [lia|]; rewrite Ho, O2 by lia; apply O1; exact Hk|].
      split.
      + intros k Hk Hnt. destruct (A6 k) as [_ Hu]; [lia|]. rewrite Hu, Hc.
        rewrite (U2 k) by (try lia; rewrite O1 by exact Hk; exact Hnt). rewrite (U1 k Hk Hnt).
        assert (Z1 : match i1 with inl n => if N.eqb n k then 1%nat else 0%nat | inr _ => 0%nat end = 0%nat).
        { destruct i1 as [n1|]; [|reflexivity]. destruct (N.eqb n1 k) eqn:Eq; [|reflexivity].
          apply N.eqb_eq in Eq. subst n1. destruct (R1' k eq_refl) as [B _]; [rewrite O1 by exact Hk; exact Hnt | lia]. }
        assert (Z2 : match i2 with inl n => if N.eqb n k then 1%nat else 0%nat | inr _ => 0%nat end = 0%nat).
        { destruct i2 as [n2|]; [|reflexivity]. destruct (N.eqb n2 k) eqn:Eq; [|reflexivity].
          apply N.eqb_eq in Eq. subst n2. destruct (R2' k eq_refl) as [B _]; [rewrite O2, O1 by lia; exact Hnt | lia]. }
        rewrite Z1, Z2. lia.
      + split; [|split; [|congruence]].
        * intros k B1 B2 B3. assert (Hkn : k <> nj) by congruence.
          destruct (N.lt_ge_cases k (s_next s2)) as [Hlt2|Hge2]; [|apply A5; assumption].
          destruct (A6 k Hlt2) as [Ho Hu].
          destruct (String.string_dec (opn (s_nodes s2) k) "tee") as [Ht|Hnt].
          { apply out_done_tee_free. rewrite Ho. exact Ht. }
          unfold out_done. rewrite Ho, Hu, Hc.
          destruct (N.lt_ge_cases k (s_next s1)) as [Hlt1|Hge1].
          -- (* node of the first call's range *)
             assert (Hnt1 : opn (s_nodes s1) k <> "tee") by (rewrite <- (O2 k Hlt1); exact Hnt).
             assert (Z2 : match i2 with inl n => if N.eqb n k then 1%nat else 0%nat | inr _ => 0%nat end = 0%nat).
             { destruct i2 as [n2|]; [|reflexivity]. destruct (N.eqb n2 k) eqn:Eq; [|reflexivity].
               apply N.eqb_eq in Eq. subst n2. destruct (R2' k eq_refl Hnt) as [B _]. lia. }
             rewrite Z2, (U2 k Hlt1 Hnt1), (O2 k Hlt1).
             destruct i1 as [n1|c1].
             ++ destruct (N.eqb n1 k) eqn:Eq.
                ** apply N.eqb_eq in Eq. subst n1. destruct (R1' k eq_refl Hnt1) as (_ & _ & Ru & Rm).
                   destruct (mid_ok_spec _ Rm) as [M1 M2]. intros _. rewrite M1, Ru. reflexivity.
                ** intro Hf. rewrite !Nat.add_0_r. apply (D1 k B1 Hlt1); [|exact Hf].
                   intro Heq. inversion Heq; subst. rewrite N.eqb_refl in Eq. discriminate.
             ++ intro Hf. rewrite !Nat.add_0_r. apply (D1 k B1 Hlt1); [discriminate|exact Hf].
          -- (* node of the second call's range *)
             assert (Z1 : match i1 with inl n => if N.eqb n k then 1%nat else 0%nat | inr _ => 0%nat end = 0%nat).
             { destruct i1 as [n1|]; [|reflexivity]. destruct (N.eqb n1 k) eqn:Eq; [|reflexivity].
               apply N.eqb_eq in Eq. subst n1. simpl in R1. destruct R1 as [A _]. lia. }
             rewrite Z1. destruct i2 as [n2|c2].
             ++ destruct (N.eqb n2 k) eqn:Eq.
                ** apply N.eqb_eq in Eq. subst n2. destruct (R2' k eq_refl Hnt) as (_ & _ & Ru & Rm).
                   destruct (mid_ok_spec _ Rm) as [M1 M2]. intros _. rewrite M1, Ru. reflexivity.
                ** intro Hf. simpl. rewrite Nat.add_0_r. apply (D2 k Hge1 Hlt2); [|exact Hf].
                   intro Heq. inversion Heq; subst. rewrite N.eqb_refl in Eq. discriminate.
             ++ intro Hf. simpl. rewrite Nat.add_0_r. apply (D2 k Hge1 Hlt2); [discriminate|exact Hf].
        * simpl. split; [exact A2|]. right. split; [lia|]. split; [exact A3|].
          rewrite A4. apply mid_last; assumption.
    - (* network *)
      simpl in H. destruct (emit_node T rk input s) as [[i1 s1]|] eqn:EI; [|discriminate].
      destruct (IH _ _ _ EI HW) as (W1 & L1 & O1 & U1 & D1 & R1 & S1).
      destruct (add_chain T (if ser then ["map"; "dest_sink"] else ["dest_sink"])
                          (sync_lvl rk input) [(i1, "[]")] s1) as [[i2 s2]|] eqn:EC; [|discriminate].
      assert (Tm : out_table_ok T "map" = true /\ out_table_ok T "dest_sink" = true /\ out_table_ok T "source_stream" = true).
      { pose proof Tmisc as Tm0. simpl in Tm0. rewrite !andb_true_iff in Tm0.
        destruct Tm0 as (_ & _ & X3 & X4 & X5 & _). repeat split; assumption. }
      destruct Tm as (Tmap & Tds & Tss).
      assert (Ft1 : forallb (out_table_ok T) (if ser then ["map"; "dest_sink"] else ["dest_sink"]) = true)
        by (destruct ser; simpl; rewrite ?Tmap, ?Tds; reflexivity).
      assert (Fm1 : forallb mid_ok (removelast (if ser then ["map"; "dest_sink"] else ["dest_sink"])) = true)
        by (destruct ser; reflexivity).
      destruct (consume_one s s1 i1 _ _ _ _ W1 R1 L1 D1 EC Ft1 Fm1)
        as (nj & -> & C1 & C2 & C3 & C4 & C5 & C6 & C7 & C8 & C9 & C10 & C11).
      assert (Hsinkdone : out_done s2 nj).
      { unfold out_done. rewrite C4. intros _. rewrite C3. destruct ser; reflexivity. }
      assert (Ft2 : forallb (out_table_ok T) (if deser then ["source_stream"; "map"] else ["source_stream"]) = true)
        by (destruct deser; simpl; rewrite ?Tmap, ?Tss; reflexivity).
      assert (Fm2 : forallb mid_ok (removelast (if deser then ["source_stream"; "map"] else ["source_stream"])) = true)
        by (destruct deser; reflexivity).
      assert (Hb : ins_bound s2 []) by (intros n p []).
      destruct (add_chain_out _ _ _ _ _ _ H C5 Hb Ft2 Fm2)
        as (n & -> & A1 & A2 & A3 & A4 & A5 & A6 & A7 & A8 & A9).
      assert (Hz : forall k, count_in [] k = 0%nat) by reflexivity.
      split; [exact A9|]. split; [lia|].
      split; [intros k Hk; destruct (A6 k) as [Ho _]; [lia|]; rewrite Ho, C7 by lia; apply O1; exact Hk|].
      split.
      + intros k Hk Hnt. destruct (A6 k) as [_ Hu]; [lia|]. rewrite Hu, Hz, Nat.add_0_r.
        rewrite C8; [apply U1; assumption | lia |].
        intro Heq. subst i1. simpl in R1. destruct R1 as [_ [Rt|(Rg & _)]]; [|lia].
        rewrite O1 in Rt by exact Hk. contradiction.
      + split; [|split; [|congruence]].
        * intros k B1 B2 B3. destruct (N.lt_ge_cases k (s_next s2)) as [Hlt|Hge].
          -- destruct (A6 k Hlt) as [Ho Hu]. unfold out_done. rewrite Ho, Hu, Hz, Nat.add_0_r.
             destruct (N.eq_dec k nj) as [->|Hne]; [exact Hsinkdone | apply C9; assumption].
          -- apply A5; try assumption. congruence.
        * simpl. split; [exact A2|]. right. split; [lia|]. split; [exact A3|].
          rewrite A4. destruct deser; reflexivity.
  Qed.

  Definition G (s : st) : Prop := W s /\ forall n, n < s_next s -> out_done s n.

  Lemma add_op_as_chain op lvl ins s n s2 :
    add_op T op lvl ins s = (n, s2) -> add_chain T [op] lvl ins s = Some (inl n, s2).
  Proof. intro H. unfold add_chain. rewrite H. reflexivity. Qed.

  (* one root: everything the root emitted is complete afterwards *)
  Lemma root_step : forall h s s1 i op lvl n s2,
    G s -> emit_node T rk h s = Some (i, s1) -> add_op T op lvl [(i, "[]")] s1 = (n, s2) ->
    out_table_ok T op = true -> (is_sink op = true \/ free_out op = true) ->
    W s2 /\ (forall k, k < s_next s2 -> out_done s2 k) /\ s_next s1 <= n /\ n < s_next s2 /\
    opn (s_nodes s2) n = op /\ s_tees s2 = s_tees s1 /\ s_sinks s2 = s_sinks s1 /\ s_sinks s1 = s_sinks s.
  Proof.
    intros h s s1 i op lvl n s2 [HW HD] EI EO Hop Hkind.
    destruct (emit_node_out h _ _ _ EI HW) as (W1 & L1 & O1 & U1 & D1 & R1 & S1).
    pose proof (add_op_as_chain _ _ _ _ _ _ EO) as EC.
    assert (Ft : forallb (out_table_ok T) [op] = true) by (simpl; rewrite Hop; reflexivity).
    destruct (consume_one s s1 i _ _ _ _ W1 R1 L1 D1 EC Ft eq_refl)
      as (nj & Hj & C1 & C2 & C3 & C4 & C5 & C6 & C7 & C8 & C9 & C10 & C11).
    inversion Hj; subst nj. simpl in C4.
    split; [exact C5|]. split.
    - intros k Hk. destruct (N.eq_dec k n) as [->|Hne].
      + unfold out_done. rewrite C4. destruct Hkind as [Hs|Hf]; [|rewrite Hf; discriminate].
        intros _. rewrite Hs, C3. reflexivity.
      + destruct (N.lt_ge_cases k (s_next s)) as [Hlt|Hge]; [|apply C9; assumption].
        (* a node that existed before this root *)
        assert (Hk1 : k < s_next s1) by lia.
        unfold out_done. rewrite (C7 k Hk1), (O1 k Hlt).
        destruct (String.string_dec (opn (s_nodes s) k) "tee") as [Ht|Hnt].
        { rewrite Ht. discriminate. }
        intro Hf. rewrite C8; [rewrite (U1 k Hlt Hnt); apply (HD k Hlt Hf) | exact Hk1 |].
        intro Heq. subst i. simpl in R1. destruct R1 as [_ [Rt|(Rg & _)]]; [|lia].
        rewrite O1 in Rt by exact Hlt. contradiction.
    - repeat split; try assumption; lia.
  Qed.

  Lemma emit_roots_out : forall f s s', emit_roots T rk f s = Some s' -> G s -> G s'.
  Proof.
    induction f as [|r f IH]; intros s s' H HG; simpl in H; [inversion H; subst; exact HG|].
    destruct (emit_root T rk r s) as [s1|] eqn:ER; [|discriminate].
    eapply IH; [exact H|]. destruct r as [k input|c input]; simpl in ER.
    - destruct (emit_node T rk input s) as [[i1 s0]|] eqn:EI; [|discriminate].
      destruct (add_op T (sink_op k) (sync_lvl rk input) [(i1, "[]")] s0) as [n s2] eqn:EO.
      inversion ER; subst s1. destruct (Tsink k) as [T1 T2].
      destruct (root_step _ _ _ _ _ _ _ _ HG EI EO T1 (or_introl T2)) as (A & B & _). split; assumption.
    - destruct (emit_node T rk input s) as [[i1 s0]|] eqn:EI; [|discriminate].
      destruct (add_op T "identity" (sync_lvl rk input) [(i1, "[]")] s0) as [n s2] eqn:EO.
      inversion ER; subst s1.
      assert (Tid : out_table_ok T "identity" = true).
      { pose proof Tmisc as Tm0. simpl in Tm0. rewrite !andb_true_iff in Tm0. tauto. }
      destruct (root_step _ _ _ _ _ _ _ _ HG EI EO Tid (or_intror eq_refl))
        as (A & B & C & D & Eo & Ft & Fs & _).
      split; simpl.
      + destruct A as [X1 X2 X3 X4 X5]. constructor; simpl; try assumption.
        intros x [<-|Hx]; [simpl; split; [exact D|exact Eo] | apply X5; exact Hx].
      + exact B.
  Qed.

  Lemma resolve_srcs : forall sinks ps es, resolve sinks ps = Some es ->
    forall e, In e es -> exists c, In (c, e_src e) sinks.
  Proof.
    induction ps as [|p ps IH]; intros es H e He; simpl in H.
    - inversion H; subst. contradiction.
    - destruct (assoc_n (p_cyc p) sinks) as [m|] eqn:EA; [|discriminate].
      destruct (resolve sinks ps) as [es0|] eqn:ER; [|discriminate].
      inversion H; subst es. destruct He as [<-|He].
      + simpl. exists (p_cyc p). apply assoc_n_In. exact EA.
      + eapply IH; eauto.
  Qed.

  Lemma opn_in : forall ns x, NoDup (map n_id ns) -> In x ns -> opn ns (n_id x) = n_op x.
  Proof.
    induction ns as [|y ns IH]; intros x Hnd Hin; [contradiction|].
    simpl in Hnd. inversion Hnd as [|a l Hnin Hnd']; subst. destruct Hin as [->|Hin].
    - apply opn_cons_new.
    - rewrite opn_cons_old; [apply IH; assumption|].
      intro Heq. apply Hnin. rewrite Heq. apply in_map. exact Hin.
  Qed.

  (* every node of every emitted graph: out-degree 0 for sinks, 1 for every other operator,
     unconstrained for `tee` (the table allows any) and for the cycle `identity` operators
     (= the number of uses of the cycle variable); and the table accepts these numbers *)
  Theorem emit_out_degrees : forall f g, emit_flow T rk f = Some g ->
    forall x, In x (g_nodes g) ->
      out_table_ok T (n_op x) = true /\
      (free_out (n_op x) = false ->
       outdeg (g_edges g) (n_id x) = if is_sink (n_op x) then 0 else 1).
  Proof.
    intros f g H x Hx. unfold emit_flow in H.
    destruct (emit_roots T rk f st0) as [s|] eqn:ER; [|discriminate].
    destruct (resolve (s_sinks s) (s_pend s)) as [es|] eqn:EV; [|discriminate].
    inversion H; subst g; clear H. simpl in *. apply in_rev in Hx.
    assert (HG0 : G st0) by (split; [exact W0 | intros n Hn; simpl in Hn; lia]).
    destruct (emit_roots_out _ _ _ ER HG0) as [HW HD].
    destruct (w_nodes _ HW x Hx) as [Hlt Htab]. split; [exact Htab|].
    intro Hfree. pose proof (opn_in _ _ (w_nodup _ HW) Hx) as Hop.
    specialize (HD (n_id x) Hlt). unfold out_done in HD. rewrite Hop in HD. specialize (HD Hfree).
    unfold outdeg. rewrite filter_app, app_length.
    assert (Hz : List.length (filter (fun e => N.eqb (e_src e) (n_id x)) es) = 0%nat).
    { apply (uses_zero es). intros e He Heq. destruct (resolve_srcs _ _ _ EV e He) as [c Hc].
      destruct (w_sinks _ HW _ Hc) as [_ Hid]. simpl in Hid. rewrite Heq, Hop in Hid.
      unfold free_out in Hfree. rewrite Hid in Hfree. discriminate. }
    rewrite Hz. unfold uses in HD. rewrite HD. destruct (is_sink (n_op x)); reflexivity.
  Qed.
End Out.
