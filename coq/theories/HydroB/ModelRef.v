(* HydroB engine: singleton references (HydroNode::Reference and closures capturing `#var`
   handles created by Singleton::by_ref / by_mut), emission only.  Definitions only.

   A Reference node is emitted like a Tee (`built_tees` dedup) as `ref = inner -> singleton()`,
   a handoff node of the flat graph; a closure that captures handles has them as extra
   children, emitted BEFORE its input; the operator carrying the closure gets one handoff
   reference (target, is_mut, access group) per capture.  The core emitter (Model.v) is reused
   for every reference-free subtree; the theorems of PEmit / PArity / POut / PAccept are about
   reference-free flows and are not extended here: for flows with references the check compares
   the emitted graph and its references with the implementation and cross-checks acceptance with
   engine Partition's model (which handles references: ref_dep_pairs, access groups, enemies). *)
From Coq Require Import List String NArith Bool.
From HV Require Import HydroB.Model.
From HV Require Partition.Base Partition.Model Gen.OpsTable.
Import ListNotations.
Open Scope string_scope.
Open Scope N_scope.
Open Scope list_scope.

Inductive rnode :=
| RPlain (h : hnode)
| RRef (id : N) (group : N) (inner : rnode) (m : meta)
| RTee (id : N) (inner : rnode) (m : meta)
| RPart (id : N) (inner : rnode) (m : meta)   (* PartitionSide over its shared PartitionShared *)
| RUn (u : un) (refs : list (rnode * bool)) (input : rnode) (m : meta)
| RBin (b : bin) (l r : rnode) (m : meta).

Inductive rroot := RRSink (k : sink) (input : rnode) | RRCycleSink (c : N) (input : rnode).

Definition rmeta (n : rnode) : meta :=
  match n with
  | RPlain h => meta_of h
  | RRef _ _ _ m | RTee _ _ m | RPart _ _ m | RUn _ _ _ m | RBin _ _ _ m => m
  end.

(* a handoff reference: consumer node, target (handoff) node, is_mut, access group *)
Definition href := (N * N * bool * N)%type.
Definition rst := (st * list href)%type.

Definition group_of (n : rnode) : N := match n with RRef _ g _ _ => g | _ => 0 end.

Section EmitR.
  Variable T : optable.
  Variable rk : N -> N.

  Fixpoint emit_r (n : rnode) (s : rst) : option (ident * rst) :=
    match n with
    | RPlain h =>
        match emit_node T rk h (fst s) with
        | Some (i, s') => Some (i, (s', snd s))
        | None => None
        end
    | RRef id _ inner _ | RTee id inner _ | RPart id inner _ =>
        match assoc_n id (s_tees (fst s)) with
        | Some (i, _) => Some (i, s)
        | None =>
            match emit_r inner s with
            | None => None
            | Some (i, (s1, rf)) =>
                let op := match n with RRef _ _ _ _ => "#handoff" | RPart _ _ _ => "partition" | _ => "tee" end in
                let '(k, s2) := add_op T op 0 [(i, "[]")] s1 in
                Some (inl k, (mkSt (s_next s2) (s_nodes s2) (s_edges s2) (s_pend s2)
                                   ((id, (inl k, 0)) :: s_tees s2) (s_sinks s2), rf))
            end
        end
    | RUn u refs input _ =>
        if un_unimplemented u (rmeta input) then None else
        let fix caps (l : list (rnode * bool)) (s : rst) : option (list (N * bool * N) * rst) :=
          match l with
          | [] => Some ([], s)
          | (r, mu) :: l' =>
              match emit_r r s with
              | Some (inl t, s1) =>
                  match caps l' s1 with
                  | Some (cs, s2) => Some ((t, mu, group_of r) :: cs, s2)
                  | None => None
                  end
              | _ => None
              end
          end in
        match caps refs s with
        | None => None
        | Some (cs, s1) =>
            match emit_r input s1 with
            | None => None
            | Some (i, (s2, rf)) =>
                match un_ops u (rmeta input) with
                | [] => match cs with [] => Some (i, (s2, rf)) | _ => None end
                | ops =>
                    match add_chain T ops 0 [(i, "[]")] s2 with
                    | Some (inl k, s3) =>
                        Some (inl k, (s3, map (fun c => (k, fst (fst c), snd (fst c), snd c)) cs ++ rf))
                    | _ => None
                    end
                end
            end
        end
    | RBin b l r _ =>
        match emit_r l s with
        | None => None
        | Some (i1, s1) =>
            match emit_r r s1 with
            | None => None
            | Some (i2, (s2, rf)) =>
                let '(ops, (p1, p2)) := bin_ops b (rmeta l) (rmeta r) in
                match add_chain T ops 0 [(i1, p1); (i2, p2)] s2 with
                | Some (i, s3) => Some (i, (s3, rf))
                | None => None
                end
            end
        end
    end.

  Definition emit_rroot (r : rroot) (s : rst) : option rst :=
    match r with
    | RRSink k input =>
        match emit_r input s with
        | None => None
        | Some (i, (s1, rf)) => let '(_, s2) := add_op T (sink_op k) 0 [(i, "[]")] s1 in Some (s2, rf)
        end
    | RRCycleSink c input =>
        match emit_r input s with
        | None => None
        | Some (i, (s1, rf)) =>
            let '(n, s2) := add_op T "identity" 0 [(i, "[]")] s1 in
            Some (mkSt (s_next s2) (s_nodes s2) (s_edges s2) (s_pend s2) (s_tees s2)
                       ((c, n) :: s_sinks s2), rf)
        end
    end.

  Fixpoint emit_rroots (f : list rroot) (s : rst) : option rst :=
    match f with
    | [] => Some s
    | r :: f' => match emit_rroot r s with None => None | Some s' => emit_rroots f' s' end
    end.

  Definition emit_rflow (f : list rroot) : option (graph * list href) :=
    match emit_rroots f (st0, []) with
    | None => None
    | Some (s, rf) =>
        match resolve (s_sinks s) (s_pend s) with
        | None => None
        | Some es => Some (mkGraph (rev (s_nodes s)) (es ++ s_edges s), rf)
        end
    end.
End EmitR.

(* ---------------------------------------------------------------- translation to engine
   Partition's graph type, with handoff nodes and references *)
Module PMr := Partition.Model.

Definition to_port_r (s : string) : PMr.port :=
  if String.eqb s "[]" then PMr.PElided
  else if String.eqb s "0" then PMr.PInt false 0
  else if String.eqb s "1" then PMr.PInt false 1
  else PMr.PPath s.

Definition to_pnode_r (rf : list href) (x : gnode) : PMr.node :=
  PMr.mkNode (n_id x)
    (if String.eqb (n_op x) "#handoff" then PMr.KHoff Partition.Base.HSingleton else PMr.KOp (n_op x))
    None
    (map (fun h => PMr.mkRef (Some (snd (fst (fst h)))) (snd (fst h)) (Some (snd h)))
         (filter (fun h => N.eqb (fst (fst (fst h))) (n_id x)) rf))
    None None.

Fixpoint to_pedges_r (i : N) (es : list edge) : list PMr.edge :=
  match es with
  | [] => []
  | e :: r => PMr.mkEdge i (e_src e) (e_dst e) PMr.PElided (to_port_r (e_port e)) :: to_pedges_r (i + 1) r
  end.

Definition to_pgraph_r (g : graph) (rf : list href) : PMr.graph :=
  PMr.mkGraph (map (to_pnode_r rf) (g_nodes g)) (to_pedges_r 0 (g_edges g)) [] [] [].

(* implementation references: (consumer, target, is_mut, group) *)
Fixpoint href_eqb (a b : href) : bool :=
  N.eqb (fst (fst (fst a))) (fst (fst (fst b))) && N.eqb (snd (fst (fst a))) (snd (fst (fst b)))
  && Bool.eqb (snd (fst a)) (snd (fst b)) && N.eqb (snd a) (snd b).
Fixpoint rem_href (x : href) (l : list href) : option (list href) :=
  match l with
  | [] => None
  | y :: r => if href_eqb x y then Some r
              else match rem_href x r with Some r' => Some (y :: r') | None => None end
  end.
Fixpoint hrefs_eqb (a b : list href) : bool :=
  match a with
  | [] => match b with [] => true | _ => false end
  | x :: r => match rem_href x b with Some b' => hrefs_eqb r b' | None => false end
  end.

(* verdict code of a flow with references: bit 0 = emitted graph / references / acceptance
   (per engine Partition's model) differ from the implementation, bit 1 = C41 false on it *)
Definition c41_verdict_ref (T : optable) (f : list rroot) (im : impl) (irefs : list href) : N :=
  let prop_bad := negb (i_partition_ok im && negb (i_panicked im) && i_compiled im) in
  let differ :=
    match emit_rflow T (fun _ => 0) f with
    | None => negb (i_panicked im)
    | Some (g, rf) =>
        i_panicked im
        || negb (graph_matches g im)
        || negb (hrefs_eqb rf irefs)
        || negb (Bool.eqb (match PMr.partition_verdict Gen.OpsTable.ops_table (to_pgraph_r g rf) with
                           | PMr.Accepted => true | _ => false end) (i_partition_ok im))
    end in
  (if differ then 1 else 0) + (if prop_bad then 2 else 0).
