(* HydroB engine: read-after-write through an atomic region, for all tick scripts. *)
From Coq Require Import List NArith Bool Arith Lia.
From HV Require Import HydroB.ModelSlice HydroB.ModelAtomic.
Import ListNotations.
Open Scope nat_scope.

Section AtomicP.
  Variables W R : Type.

  Lemma astep_applied : forall s t o s', astep W R s t = (o, s') ->
    a_applied W R s' = a_applied W R s ++ fst o /\
    (forall r snap, In (r, snap) (snd o) -> snap = a_applied W R s').
  Proof.
    intros s t o s' H. unfold astep in H.
    destruct (stream_step W (a_wq W R s) (t_warr W R t) (t_wforce W R t) (t_wcount W R t)) as [wb wq'].
    destruct (stream_step R (a_rq W R s) (t_rarr W R t) (t_rforce W R t) (t_rcount W R t)) as [rb rq'].
    inversion H; subst o s'; clear H. simpl. split; [reflexivity|].
    intros r snap Hin. apply in_map_iff in Hin. destruct Hin as [x [Hx _]]. inversion Hx; reflexivity.
  Qed.

  Arguments astep : simpl never.

  (* every snapshot taken from state s on contains everything applied before s *)
  Lemma run_atomic_incl : forall script s j acks resps r snap,
    nth_error (run_atomic W R s script) j = Some (acks, resps) -> In (r, snap) resps ->
    incl (a_applied W R s) snap.
  Proof.
    induction script as [|t script IH]; intros s j acks resps r snap Hn Hin; [destruct j; discriminate|].
    cbn [run_atomic] in Hn. destruct (astep W R s t) as [o s'] eqn:ES.
    destruct (astep_applied _ _ _ _ ES) as [HA HS].
    destruct j as [|j].
    - cbn [nth_error] in Hn. injection Hn as Ho. subst o. cbn [snd fst] in HS. rewrite (HS _ _ Hin), HA.
      apply incl_appl, incl_refl.
    - cbn [nth_error] in Hn. specialize (IH s' j acks resps r snap Hn Hin).
      intros x Hx. apply IH. rewrite HA. apply in_or_app. left; assumption.
  Qed.

  (* C34 on the model: an acknowledgement observed at step i implies that every atomic
     snapshot taken at a step j >= i (in particular every later one) contains the write *)
  Theorem ack_implies_read_after_write : forall script s i j acks resps acks' resps' w r snap,
    i <= j ->
    nth_error (run_atomic W R s script) i = Some (acks, resps) -> In w acks ->
    nth_error (run_atomic W R s script) j = Some (acks', resps') -> In (r, snap) resps' ->
    In w snap.
  Proof.
    induction script as [|t script IH]; intros s i j acks resps acks' resps' w r snap Hij Hi Hw Hj Hr;
      [destruct i; discriminate|].
    cbn [run_atomic] in Hi, Hj. destruct (astep W R s t) as [o s'] eqn:ES.
    destruct (astep_applied _ _ _ _ ES) as [HA HS].
    destruct i as [|i].
    - cbn [nth_error] in Hi. injection Hi as Ho. subst o. cbn [snd fst] in HA, HS.
      destruct j as [|j].
      + cbn [nth_error] in Hj. injection Hj as Ho1 Ho2. subst acks' resps'. rewrite (HS _ _ Hr), HA.
        apply in_or_app. right; assumption.
      + cbn [nth_error] in Hj. apply (run_atomic_incl script s' j acks' resps' r snap Hj Hr).
        rewrite HA. apply in_or_app. right; assumption.
    - destruct j as [|j]; [lia|]. cbn [nth_error] in Hi, Hj.
      eapply (IH s' i j); try eassumption. lia.
  Qed.

  (* acknowledgements are exactly the writes that entered the region, each once, in order;
     `rest` is what is still queued *)
  Theorem acks_partition_writes : forall script s,
    exists rest, concat (map fst (run_atomic W R s script)) ++ rest
                 = a_wq W R s ++ concat (map (t_warr W R) script).
  Proof.
    induction script as [|t script IH]; intros s.
    - exists (a_wq W R s). simpl. rewrite app_nil_r. reflexivity.
    - cbn [run_atomic]. destruct (astep W R s t) as [o s'] eqn:ES.
      unfold astep in ES. unfold stream_step in ES.
      set (qw := a_wq W R s ++ t_warr W R t) in *.
      set (cw := clamp (t_wforce W R t) (t_wcount W R t) (length qw)) in *.
      inversion ES; subst o s'; clear ES.
      match goal with |- context [run_atomic W R ?st script] => destruct (IH st) as [rest Hrest] end.
      cbn [a_wq] in Hrest. exists rest. cbn [map fst concat].
      rewrite <- app_assoc, Hrest, app_assoc, firstn_skipn. unfold qw. rewrite <- app_assoc. reflexivity.
  Qed.
End AtomicP.

(* without atomicity the implication fails: the write 7 is acknowledged in tick 0, the read
   of tick 1 is answered from a stale snapshot that does not contain it *)
Definition stale_script : list (atick nat nat * nat) :=
  [ (mkTick nat nat [7] [] false 1 false 0, 0);
    (mkTick nat nat [] [1] false 0 false 1, 5) ].

Lemma nonatomic_stale_read :
  run_nonatomic nat nat (mkA nat nat [] [] []) [[]] stale_script = [([7], []); ([], [(1, [])])].
Proof. vm_compute. reflexivity. Qed.
