(* HydroB engine: every node of every emitted graph has an in-degree inside the hard input
   arity range the operator table gives its operator.  The table facts about the emitter's
   fragments are section hypotheses, discharged for the regenerated table in PC41.v. *)
From Coq Require Import List String NArith Bool Arith Lia ZifyBool ZifyN.
From HV Require Import HydroB.Model HydroB.PEmit.
Import ListNotations.
Open Scope string_scope.
Open Scope N_scope.

Definition op_takes (T : optable) (op : string) (n : N) : bool :=
  match find_row T op with Some r => in_range (r_inn r) n | None => false end.
Definition chain_takes (T : optable) (ops : list string) (n : N) : bool :=
  match ops with
  | [] => true
  | op :: rest => op_takes T op n && forallb (fun o => op_takes T o 1) rest
  end.

Definition cnt_e (es : list edge) (n : N) : nat := List.length (filter (fun e => N.eqb (e_dst e) n) es).
Definition cnt_p (ps : list pedge) (n : N) : nat := List.length (filter (fun p => N.eqb (p_dst p) n) ps).

Section Arity.
  Variable T : optable.
  Variable rk : N -> N.
  Hypothesis Hsrc : forall s m, chain_takes T (src_ops s m) 0 = true.
  Hypothesis Hun : forall u m, chain_takes T (un_ops u m) 1 = true.
  Hypothesis Hbin : forall b ml mr, chain_takes T (fst (bin_ops b ml mr)) 2 = true.
  Hypothesis Hsink : forall k, op_takes T (sink_op k) 1 = true.
  Hypothesis Htee : op_takes T "tee" 1 = true.
  Hypothesis Hident : op_takes T "identity" 1 = true.
  Hypothesis Hsend : forall ser : bool, chain_takes T (if ser then ["map"; "dest_sink"] else ["dest_sink"]) 1 = true.
  Hypothesis Hrecv : forall de : bool, chain_takes T (if de then ["source_stream"; "map"] else ["source_stream"]) 0 = true.

  Record Inv2 (s : st) : Prop := mkInv2 {
    i2_nodes : forall x, In x (s_nodes s) ->
        n_id x < s_next s /\ op_takes T (n_op x) (n_in x) = true /\
        N.of_nat (cnt_e (s_edges s) (n_id x) + cnt_p (s_pend s) (n_id x)) = n_in x;
    i2_edges : forall e, In e (s_edges s) -> e_dst e < s_next s;
    i2_pend : forall p, In p (s_pend s) -> p_dst p < s_next s
  }.

  Lemma Inv2_0 : Inv2 st0.
  Proof. constructor; simpl; intros; contradiction. Qed.

  Lemma link_inputs_count : forall ins dst op es ps es' ps',
    link_inputs T dst op ins es ps = (es', ps') ->
    forall n, (cnt_e es' n + cnt_p ps' n =
               cnt_e es n + cnt_p ps n + (if N.eqb dst n then List.length ins else 0))%nat.
  Proof.
    induction ins as [|[[m|c] port] r IH]; simpl; intros dst op es ps es' ps' H n.
    - inversion H; subst. destruct (N.eqb dst n); simpl; rewrite Nat.add_0_r; reflexivity.
    - apply IH with (n := n) in H. rewrite H. clear H.
      assert (E : cnt_e (mkEdge m dst port (is_delayed T op port) :: es) n
                  = ((if N.eqb dst n then 1 else 0) + cnt_e es n)%nat).
      { unfold cnt_e. simpl. destruct (N.eqb dst n); reflexivity. }
      rewrite E. generalize (cnt_e es n) (cnt_p ps n) (List.length r). intros a b c0.
      destruct (N.eqb dst n); lia.
    - apply IH with (n := n) in H. rewrite H. clear H.
      assert (E : cnt_p (mkPend c dst port (is_delayed T op port) :: ps) n
                  = ((if N.eqb dst n then 1 else 0) + cnt_p ps n)%nat).
      { unfold cnt_p. simpl. destruct (N.eqb dst n); reflexivity. }
      rewrite E. generalize (cnt_e es n) (cnt_p ps n) (List.length r). intros a b c0.
      destruct (N.eqb dst n); lia.
  Qed.

  Lemma cnt_e_zero : forall es n, (forall e, In e es -> e_dst e <> n) -> cnt_e es n = 0%nat.
  Proof.
    induction es as [|e es IH]; intros n H; [reflexivity|]. unfold cnt_e. simpl.
    destruct (N.eqb (e_dst e) n) eqn:E.
    - apply N.eqb_eq in E. exfalso. apply (H e); [left; reflexivity | assumption].
    - apply IH. intros e' He'. apply H. right; assumption.
  Qed.
  Lemma cnt_p_zero : forall ps n, (forall p, In p ps -> p_dst p <> n) -> cnt_p ps n = 0%nat.
  Proof.
    induction ps as [|p ps IH]; intros n H; [reflexivity|]. unfold cnt_p. simpl.
    destruct (N.eqb (p_dst p) n) eqn:E.
    - apply N.eqb_eq in E. exfalso. apply (H p); [left; reflexivity | assumption].
    - apply IH. intros p' Hp'. apply H. right; assumption.
  Qed.

  Lemma add_op_inv2 : forall op lvl ins s id s',
    add_op T op lvl ins s = (id, s') -> Inv2 s ->
    op_takes T op (N.of_nat (List.length ins)) = true ->
    Inv2 s' /\ s_next s <= s_next s'.
  Proof.
    intros op lvl ins s id s' H [I1 I2 I3] Hop. unfold add_op in H.
    destruct (link_inputs T (s_next s) op ins (s_edges s) (s_pend s)) as [es ps] eqn:EL.
    inversion H; subst id s'; clear H.
    pose proof (link_inputs_count _ _ _ _ _ _ _ EL) as HC.
    destruct (link_inputs_spec T _ _ _ _ _ _ _ EL) as [He Hp].
    split; [|simpl; lia]. constructor; simpl.
    - intros x [Hx|Hx].
      + subst x. simpl. split; [lia|]. split; [assumption|].
        rewrite HC, N.eqb_refl.
        rewrite (cnt_e_zero (s_edges s)), (cnt_p_zero (s_pend s)).
        * f_equal.
        * intros p Hp0 Heq. specialize (I3 p Hp0). lia.
        * intros e He0 Heq. specialize (I2 e He0). lia.
      + destruct (I1 x Hx) as [A [B C]]. split; [lia|]. split; [assumption|].
        rewrite HC. destruct (N.eqb (s_next s) (n_id x)) eqn:E; [apply N.eqb_eq in E; lia|].
        rewrite Nat.add_0_r. assumption.
    - intros e Hin. destruct (He e Hin) as [Hin'|[Hd _]]; [specialize (I2 e Hin'); lia | lia].
    - intros p Hin. destruct (Hp p Hin) as [Hin'|[Hd _]]; [specialize (I3 p Hin'); lia | lia].
  Qed.

  Lemma add_chain_inv2 : forall ops lvl ins s i s',
    add_chain T ops lvl ins s = Some (i, s') -> Inv2 s ->
    chain_takes T ops (N.of_nat (List.length ins)) = true -> Inv2 s'.
  Proof.
    induction ops as [|op rest IH]; intros lvl ins s i s' H HI HC; [discriminate|].
    simpl in H. simpl in HC. apply andb_true_iff in HC. destruct HC as [HC1 HC2].
    destruct rest as [|op2 rest'].
    - destruct (add_op T op lvl ins s) as [id s1] eqn:EA. inversion H; subst.
      destruct (add_op_inv2 _ _ _ _ _ _ EA HI HC1) as [A _]. exact A.
    - destruct (add_op T op lvl ins s) as [id s1] eqn:EA.
      destruct (add_op_inv2 _ _ _ _ _ _ EA HI HC1) as [A _].
      eapply IH; [exact H | exact A |]. simpl. simpl in HC2. exact HC2.
  Qed.

  Arguments add_chain : simpl never.

  Lemma emit_node_inv2 : forall h s i s', emit_node T rk h s = Some (i, s') -> Inv2 s -> Inv2 s'.
  Proof.
    induction h as [sk m | c m | id inner IH m | u input IH m | b l IHl r IHr m | ser deser input IH m];
      intros s i s' H HI.
    - simpl in H. eapply add_chain_inv2; [exact H | exact HI | apply Hsrc].
    - simpl in H. inversion H; subst. exact HI.
    - simpl in H. destruct (assoc_n id (s_tees s)) as [[i0 l0]|].
      + destruct (N.eqb l0 (sync_lvl rk inner)); [|discriminate]. inversion H; subst. exact HI.
      + destruct (emit_node T rk inner s) as [[i1 s1]|] eqn:EI; [|discriminate].
        specialize (IH _ _ _ EI HI).
        destruct (add_op T "tee" (sync_lvl rk inner) [(i1, "[]")] s1) as [n s2] eqn:EO.
        inversion H; subst i s'; clear H.
        destruct (add_op_inv2 _ _ _ _ _ _ EO IH Htee) as [[J1 J2 J3] _].
        constructor; simpl; assumption.
    - simpl in H. destruct (un_unimplemented u (meta_of input)); [discriminate|].
      destruct (emit_node T rk input s) as [[i1 s1]|] eqn:EI; [|discriminate].
      specialize (IH _ _ _ EI HI).
      destruct (un_ops u (meta_of input)) as [|op rest] eqn:EU.
      + inversion H; subst. exact IH.
      + eapply add_chain_inv2; [exact H | exact IH |]. rewrite <- EU. apply Hun.
    - simpl in H.
      destruct (emit_node T rk l s) as [[i1 s1]|] eqn:E1; [|discriminate].
      specialize (IHl _ _ _ E1 HI).
      destruct (emit_node T rk r s1) as [[i2 s2]|] eqn:E2; [|discriminate].
      specialize (IHr _ _ _ E2 IHl).
      pose proof (Hbin b (meta_of l) (meta_of r)) as HB.
      destruct (bin_ops b (meta_of l) (meta_of r)) as [ops [p1 p2]].
      eapply add_chain_inv2; [exact H | exact IHr | exact HB].
    - simpl in H. destruct (emit_node T rk input s) as [[i1 s1]|] eqn:EI; [|discriminate].
      specialize (IH _ _ _ EI HI).
      destruct (add_chain T (if ser then ["map"; "dest_sink"] else ["dest_sink"])
                          (sync_lvl rk input) [(i1, "[]")] s1) as [[i2 s2]|] eqn:EC; [|discriminate].
      pose proof (add_chain_inv2 _ _ _ _ _ _ EC IH (Hsend ser)) as I2.
      eapply add_chain_inv2; [exact H | exact I2 | apply Hrecv].
  Qed.

  Lemma emit_roots_inv2 : forall f s s', emit_roots T rk f s = Some s' -> Inv2 s -> Inv2 s'.
  Proof.
    induction f as [|r f IH]; intros s s' H HI; simpl in H; [inversion H; subst; assumption|].
    destruct (emit_root T rk r s) as [s1|] eqn:ER; [|discriminate].
    eapply IH; [exact H|]. destruct r as [k input|c input]; simpl in ER.
    - destruct (emit_node T rk input s) as [[i1 s0]|] eqn:EI; [|discriminate].
      pose proof (emit_node_inv2 _ _ _ _ EI HI) as I0.
      destruct (add_op T (sink_op k) (sync_lvl rk input) [(i1, "[]")] s0) as [n s2] eqn:EO.
      inversion ER; subst. destruct (add_op_inv2 _ _ _ _ _ _ EO I0 (Hsink k)) as [A _]. exact A.
    - destruct (emit_node T rk input s) as [[i1 s0]|] eqn:EI; [|discriminate].
      pose proof (emit_node_inv2 _ _ _ _ EI HI) as I0.
      destruct (add_op T "identity" (sync_lvl rk input) [(i1, "[]")] s0) as [n s2] eqn:EO.
      inversion ER; subst. destruct (add_op_inv2 _ _ _ _ _ _ EO I0 Hident) as [[J1 J2 J3] _].
      constructor; simpl; assumption.
  Qed.

  Lemma resolve_count : forall sinks ps es, resolve sinks ps = Some es ->
    forall n, cnt_e es n = cnt_p ps n.
  Proof.
    induction ps as [|p ps IH]; intros es H n; simpl in H.
    - inversion H; reflexivity.
    - destruct (assoc_n (p_cyc p) sinks) as [m|]; [|discriminate].
      destruct (resolve sinks ps) as [es0|] eqn:ER; [|discriminate].
      inversion H; subst es. unfold cnt_e, cnt_p. simpl.
      destruct (N.eqb (p_dst p) n); simpl; f_equal; apply (IH es0 eq_refl n).
  Qed.

  (* every node of every emitted graph is given a number of inputs its operator accepts *)
  Theorem emit_in_arities : forall f g, emit_flow T rk f = Some g ->
    forall x, In x (g_nodes g) ->
      indeg (g_edges g) (n_id x) = n_in x /\ op_takes T (n_op x) (indeg (g_edges g) (n_id x)) = true.
  Proof.
    intros f g H x Hx. unfold emit_flow in H.
    destruct (emit_roots T rk f st0) as [s|] eqn:ER; [|discriminate].
    destruct (resolve (s_sinks s) (s_pend s)) as [es|] eqn:EV; [|discriminate].
    inversion H; subst g; clear H. simpl in *.
    apply in_rev in Hx.
    destruct (i2_nodes _ (emit_roots_inv2 _ _ _ ER Inv2_0) x Hx) as [_ [B C]].
    assert (E : indeg (es ++ s_edges s) (n_id x) = n_in x).
    { unfold indeg. rewrite filter_app, app_length. rewrite <- C.
      fold (cnt_e es (n_id x)). fold (cnt_e (s_edges s) (n_id x)).
      rewrite (resolve_count _ _ _ EV). f_equal. lia. }
    split; [exact E | rewrite E; exact B].
  Qed.
End Arity.
