(* HydroB engine: slices (`sliced!`, hydro_lang/src/live_collections/sliced) as tick-indexed
   observation of hooks.  Definitions only.

   A slice body runs once per tick of the slice's tick.  Its `use::` hooks are:
     batch    -- Stream::batch: in production (ProdDfirBuilder::batch) the identity, so slice i
                 sees exactly what reached the operator during tick i; in the simulator
                 (sim/runtime.rs StreamHook<_, TotalOrder>) a decision `count` in
                 (if force {1} else {0}) ..= queue.len() releases the first `count` queued items;
     snapshot -- Singleton::snapshot: in production the fold's state after this tick's input; in
                 the simulator (SingletonHook) every state the fold went through is queued and a
                 decision either re-releases the last released state or skips `idx` queued
                 states and releases the next one;
     state    -- `use::state(init)`: Tick::cycle_with_initial, the value the body assigns in
                 slice i is what the body reads in slice i+1 (DeferTick).
   Scripts are arbitrary lists: the theorems (PSlice.v) quantify over all of them. *)
From Coq Require Import List NArith Bool Arith.
Import ListNotations.

Section Stream.
  Variable A : Type.

  (* one tick of a batch hook: `arr` arrives, then the decision (any number; the driver only
     returns numbers in range, which `clamp` expresses) releases a prefix of the queue *)
  Definition clamp (force : bool) (count len : nat) : nat :=
    if force && negb (len =? 0) then Nat.max 1 (Nat.min count len) else Nat.min count len.

  Definition stream_step (q : list A) (arr : list A) (force : bool) (count : nat)
    : list A * list A :=
    let q' := q ++ arr in
    let c := clamp force count (length q') in
    (firstn c q', skipn c q').

  (* script: per tick (arrivals, force, count); result: per-tick batches and the final queue *)
  Fixpoint run_stream (q : list A) (script : list (list A * bool * nat))
    : list (list A) * list A :=
    match script with
    | [] => ([], q)
    | (arr, force, count) :: r =>
        let '(b, q') := stream_step q arr force count in
        let '(bs, qf) := run_stream q' r in
        (b :: bs, qf)
    end.

  (* production: the hook is the identity = "release everything that is there" *)
  Definition prod_script (arrivals : list (list A)) : list (list A * bool * nat) :=
    map (fun arr => (arr, false, length arr)) arrivals.
End Stream.

(* ---------------------------------------------------------------- snapshot hook
   states are identified by their version = position in the sequence of states the fold went
   through (strictly increasing in arrival order) *)
Inductive sdec := SReRelease | SNew (idx : nat).

Record snap := mkSnap { sn_q : list nat; sn_last : option nat }.

(* None = the hook is not ready / panics ("No input and no last released item") *)
Definition snap_step (s : snap) (arr : list nat) (force : bool) (d : sdec)
  : option (nat * snap) :=
  let q := sn_q s ++ arr in
  match q with
  | [] => match sn_last s with
          | Some l => if force then None else Some (l, mkSnap [] (Some l))
          | None => None
          end
  | x :: q' =>
      match d, sn_last s, force with
      | SReRelease, Some l, false => Some (l, mkSnap q (Some l))
      | _, _, _ =>
          let idx := match d with SNew i => Nat.min i (length q') | SReRelease => 0 end in
          match skipn idx q with
          | v :: rest => Some (v, mkSnap rest (Some v))
          | [] => None
          end
      end
  end.

Fixpoint run_snap (s : snap) (script : list (list nat * bool * sdec)) : option (list nat) :=
  match script with
  | [] => Some []
  | (arr, force, d) :: r =>
      match snap_step s arr force d with
      | None => None
      | Some (v, s') => match run_snap s' r with Some vs => Some (v :: vs) | None => None end
      end
  end.

Fixpoint sorted_le (l : list nat) : bool :=
  match l with
  | [] => true
  | x :: r => match r with [] => true | y :: _ => (x <=? y) && sorted_le r end
  end.

(* ---------------------------------------------------------------- state hook *)
Section State.
  Variables S I O : Type.
  (* the slice body: state read, this slice's inputs -> state written, output *)
  Variable body : S -> I -> S * O.

  Fixpoint run_state (s : S) (ins : list I) : list (S * S * O) :=   (* (read, written, out) *)
    match ins with
    | [] => []
    | i :: r => let '(s', o) := body s i in (s, s', o) :: run_state s' r
    end.
End State.

(* ---------------------------------------------------------------- a slice with several hooks
   every hook is asked exactly once per slice; the record of slice t holds what each hook
   released in tick t *)
Section Multi.
  Variable A : Type.
  Definition slice_record := list (list A).          (* one batch per hook *)
  (* per tick, per hook: (arrivals, force, count) *)
  Fixpoint run_hooks_stream (qs : list (list A)) (tick : list (list A * bool * nat))
    : slice_record * list (list A) :=
    match qs, tick with
    | q :: qs', (arr, force, count) :: tick' =>
        let '(b, q') := stream_step A q arr force count in
        let '(bs, qs'') := run_hooks_stream qs' tick' in
        (b :: bs, q' :: qs'')
    | _, _ => ([], [])
    end.
  Fixpoint run_slices (qs : list (list A)) (script : list (list (list A * bool * nat)))
    : list slice_record :=
    match script with
    | [] => []
    | tick :: r => let '(rec, qs') := run_hooks_stream qs tick in rec :: run_slices qs' r
    end.
End Multi.

(* ---------------------------------------------------------------- correspondence (production)
   corpus flows of harness/h_hydro_b_flows, driven tick by tick on `arrivals`:
     c31_batch      out_t = [the batch of slice t]
     c31_snapshot   out_t = [(length batch_t, snapshot_t)], snapshot = count of the same input
     c31_state      out_t = [(read_t, written_t)], written = read + sum batch_t, init 0
     c31_two        out_t = [(batch_a_t, batch_b_t)] two batch hooks of one slice *)
Local Open Scope N_scope.
Definition sumN (l : list N) : N := fold_right N.add 0 l.

Fixpoint prod_snapshots (seen : N) (arrivals : list (list N)) : list (N * N) :=
  match arrivals with
  | [] => []
  | a :: r => let n := N.of_nat (length a) in (n, seen + n) :: prod_snapshots (seen + n) r
  end.

Definition state_body (s : N) (batch : list N) : N * unit := (s + sumN batch, tt).
Definition prod_state (arrivals : list (list N)) : list (N * N) :=
  map (fun x => (fst (fst x), snd (fst x))) (run_state N (list N) unit state_body 0 arrivals).

Fixpoint listN_eqb (a b : list N) : bool :=
  match a, b with
  | [], [] => true
  | x :: a', y :: b' => N.eqb x y && listN_eqb a' b'
  | _, _ => false
  end.
Fixpoint lists_eqb (a b : list (list N)) : bool :=
  match a, b with
  | [], [] => true
  | x :: a', y :: b' => listN_eqb x y && lists_eqb a' b'
  | _, _ => false
  end.
Fixpoint pairs_eqb (a b : list (N * N)) : bool :=
  match a, b with
  | [], [] => true
  | (x1, x2) :: a', (y1, y2) :: b' => N.eqb x1 y1 && N.eqb x2 y2 && pairs_eqb a' b'
  | _, _ => false
  end.

Fixpoint sortedN_le (l : list N) : bool :=
  match l with
  | [] => true
  | x :: r => match r with [] => true | y :: _ => (x <=? y) && sortedN_le r end
  end.

(* executable form of C31 on observed per-slice outputs *)
Definition batches_partition_b (input : list N) (batches : list (list N)) : bool :=
  listN_eqb (concat batches) input.
Definition snapshots_monotone_b (snaps : list N) : bool := sortedN_le snaps.
Fixpoint state_carries_b (init : N) (rw : list (N * N)) : bool :=
  match rw with
  | [] => true
  | (r, w) :: rest => N.eqb r init && state_carries_b w rest
  end.

(* verdict codes: bit 0 = differs from the production model, bit 1 = property false *)
Definition v_of (differ bad : bool) : N := (if differ then 1 else 0) + (if bad then 2 else 0).

Definition c31_batch_verdict (arrivals : list (list N)) (impl : list (list N)) : N :=
  v_of (negb (lists_eqb (fst (run_stream N [] (prod_script N arrivals))) impl))
       (negb (batches_partition_b (concat arrivals) impl)).

Definition c31_snapshot_verdict (arrivals : list (list N)) (impl : list (N * N)) : N :=
  v_of (negb (pairs_eqb (prod_snapshots 0 arrivals) impl))
       (negb (snapshots_monotone_b (map snd impl))
        || negb (N.eqb (sumN (map fst impl)) (N.of_nat (length (concat arrivals))))).

Definition c31_state_verdict (arrivals : list (list N)) (impl : list (N * N)) : N :=
  v_of (negb (pairs_eqb (prod_state arrivals) impl)) (negb (state_carries_b 0 impl)).

Definition c31_two_verdict (arr_a arr_b : list (list N)) (impl : list (list N * list N)) : N :=
  v_of (negb (lists_eqb arr_a (map fst impl) && lists_eqb arr_b (map snd impl)))
       (negb (batches_partition_b (concat arr_a) (map fst impl)
              && batches_partition_b (concat arr_b) (map snd impl)
              && Nat.eqb (length impl) (length arr_a))).

(* tools/vlib.py coq_eval: indices and values of the non-zero verdict codes *)
Fixpoint bad_from (n : N) (l : list N) : list (N * N) :=
  match l with
  | [] => []
  | v :: r => if N.eqb v 0 then bad_from (n + 1) r else (n, v) :: bad_from (n + 1) r
  end.
Definition bad (l : list N) : list (N * N) := bad_from 0 l.

(* ---------------------------------------------------------------- bounded top-level collections
   in a slice that runs several ticks (an unbounded trigger is sliced with them).
   ProdDfirBuilder::batch replays (persist::<'static>) exactly the bounded SINGLETON-like kinds
   (Singleton / Optional / KeyedSingleton): every slice sees their one value; a bounded STREAM-like
   collection (Stream, KeyedStream) is not replayed: it is handed to exactly one batch.
   (The emission side of this list is Model.un_ops UBatch, compared with the emitted graph.) *)
Local Open Scope N_scope.

Fixpoint pair_lists_eqb (a b : list (list N * N)) : bool :=
  match a, b with
  | [], [] => true
  | (x1, x2) :: a', (y1, y2) :: b' => listN_eqb x1 y1 && N.eqb x2 y2 && pair_lists_eqb a' b'
  | _, _ => false
  end.

(* production model: the first slice gets the whole bounded collection, later slices nothing;
   every slice's trigger batch is what arrived in its tick (counts) *)
Definition prod_bounded_stream (input : list N) (arrivals : list (list N)) : list (list N * N) :=
  match arrivals with
  | [] => []
  | a :: r => (input, N.of_nat (length a)) :: map (fun x => ([], N.of_nat (length x))) r
  end.
Definition prod_bounded_single (value : list N) (arrivals : list (list N)) : list (list N * N) :=
  map (fun x => (value, N.of_nat (length x))) arrivals.

(* stream-like: the batches partition the bounded input (each element in exactly one batch, in
   order) and the trigger batches partition the trigger input (counts add up) *)
Definition c31_bounded_stream_verdict (input : list N) (arrivals : list (list N))
           (impl : list (list N * N)) : N :=
  v_of (negb (pair_lists_eqb (prod_bounded_stream input arrivals) impl))
       (negb (batches_partition_b input (map fst impl)
              && N.eqb (sumN (map snd impl)) (N.of_nat (length (concat arrivals))))).

(* singleton-like: every slice observes the same (only) version *)
Definition c31_bounded_single_verdict (value : list N) (arrivals : list (list N))
           (impl : list (list N * N)) : N :=
  v_of (negb (pair_lists_eqb (prod_bounded_single value arrivals) impl))
       (negb (forallb (fun x => listN_eqb (fst x) value) impl
              && N.eqb (sumN (map snd impl)) (N.of_nat (length (concat arrivals))))).
