(* HydroB engine: proofs about the slice hooks (ModelSlice.v), for all scripts. *)
From Coq Require Import List NArith Bool Arith Lia Sorted.
From HV Require Import HydroB.ModelSlice.
Import ListNotations.
Open Scope nat_scope.

(* ---------------------------------------------------------------- batch hook *)
Section StreamP.
  Variable A : Type.
  Definition arrivals_of (script : list (list A * bool * nat)) : list (list A) :=
    map (fun x => fst (fst x)) script.

  (* the batches of successive slices, followed by what is still queued, are the input *)
  Theorem run_stream_partition : forall script q bs qf,
    run_stream A q script = (bs, qf) ->
    concat bs ++ qf = q ++ concat (arrivals_of script).
  Proof.
    induction script as [|[[arr force] count] r IH]; intros q bs qf H; simpl in H.
    - inversion H; subst. simpl. rewrite app_nil_r. reflexivity.
    - unfold stream_step in H.
      destruct (run_stream A (skipn (clamp force count (length (q ++ arr))) (q ++ arr)) r)
        as [bs' qf'] eqn:E.
      inversion H; subst bs qf; clear H. apply IH in E. simpl.
      rewrite <- app_assoc, E, app_assoc, firstn_skipn, <- app_assoc. reflexivity.
  Qed.

  (* every element of the input is in exactly one batch or still queued, order kept:
     positions are preserved because the two sides are equal as lists *)
  Corollary run_stream_no_loss_no_dup : forall script bs qf,
    run_stream A [] script = (bs, qf) ->
    concat bs ++ qf = concat (arrivals_of script).
  Proof. intros script bs qf H. apply run_stream_partition in H. exact H. Qed.

  Lemma clamp_range : forall force count len,
    clamp force count len <= len /\ (force = true -> len <> 0 -> 1 <= clamp force count len).
  Proof.
    intros force count len. unfold clamp.
    destruct (Nat.eqb_spec len 0) as [E|E]; destruct force; cbn [andb negb]; split; intros;
      try discriminate; try lia.
  Qed.

  (* production: the batch of slice t is exactly what arrived in tick t *)
  Theorem run_stream_prod : forall arrivals,
    run_stream A [] (prod_script A arrivals) = (arrivals, []).
  Proof.
    induction arrivals as [|a r IH]; simpl; [reflexivity|].
    unfold stream_step. simpl.
    assert (C : clamp false (length a) (length a) = length a) by (unfold clamp; simpl; lia).
    rewrite C, firstn_all, skipn_all, IH. reflexivity.
  Qed.
End StreamP.

(* ---------------------------------------------------------------- snapshot hook *)
Definition snap_inv (s : snap) (fut : list nat) : Prop :=
  StronglySorted lt (sn_q s ++ fut) /\
  forall l, sn_last s = Some l -> Forall (lt l) (sn_q s ++ fut).

Lemma SS_app_r : forall (a b : list nat), StronglySorted lt (a ++ b) -> StronglySorted lt b.
Proof.
  induction a as [|x a IH]; simpl; intros b H; [assumption|].
  inversion H; subst. apply IH; assumption.
Qed.

Lemma Forall_app_r : forall (P : nat -> Prop) a b, Forall P (a ++ b) -> Forall P b.
Proof. intros P a b H. apply Forall_app in H. tauto. Qed.

Definition snap_arrivals (script : list (list nat * bool * sdec)) : list nat :=
  concat (map (fun x => fst (fst x)) script).

Lemma snap_step_spec : forall s arr force d v s' fut,
  snap_step s arr force d = Some (v, s') ->
  snap_inv s (arr ++ fut) ->
  snap_inv s' fut /\ sn_last s' = Some v /\ (forall l, sn_last s = Some l -> l <= v).
Proof.
  intros s arr force d v s' fut H [HS HL]. unfold snap_step in H.
  rewrite app_assoc in HS, HL.
  destruct (sn_q s ++ arr) as [|x q'] eqn:EQ.
  - destruct (sn_last s) as [l|] eqn:EL; [|discriminate].
    destruct force; [discriminate|]. inversion H; subst v s'; clear H.
    split; [split; simpl|split; [reflexivity|]].
    + exact HS.
    + intros l0 Hl0. inversion Hl0; subst l0. apply HL. reflexivity.
    + intros l0 Hl0. inversion Hl0; subst. lia.
  - assert (NEW : forall idx vv rest, skipn idx (x :: q') = vv :: rest ->
              snap_inv (mkSnap rest (Some vv)) fut /\ (forall l, sn_last s = Some l -> l <= vv)).
    { intros idx vv rest Hsk.
      assert (Hsplit : (x :: q') ++ fut = firstn idx (x :: q') ++ vv :: (rest ++ fut)).
      { rewrite <- (firstn_skipn idx (x :: q')) at 1. rewrite Hsk, <- app_assoc. reflexivity. }
      rewrite Hsplit in HS. apply SS_app_r in HS. inversion HS; subst.
      split; [split; simpl; [assumption|]|].
      - intros l0 Hl0. inversion Hl0; subst l0. assumption.
      - intros l0 Hl0. specialize (HL l0 Hl0). rewrite Hsplit in HL.
        apply Forall_app_r in HL. inversion HL; subst. lia. }
    destruct d as [|i].
    + destruct (sn_last s) as [l|] eqn:EL.
      * destruct force.
        -- simpl in H. inversion H; subst v s'; clear H.
           destruct (NEW 0 x q' eq_refl) as [A B]. split; [assumption|]. split; [reflexivity|assumption].
        -- inversion H; subst v s'; clear H.
           split; [split; simpl|split; [reflexivity|]].
           ++ exact HS.
           ++ intros l0 Hl0. inversion Hl0; subst l0. apply HL. reflexivity.
           ++ intros l0 Hl0. inversion Hl0; subst. lia.
      * simpl in H. destruct force; inversion H; subst v s'; clear H;
          destruct (NEW 0 x q' eq_refl) as [A B]; (split; [assumption|]; split; [reflexivity|assumption]).
    + assert (H' : match skipn (Nat.min i (length q')) (x :: q') with
                   | v0 :: rest => Some (v0, mkSnap rest (Some v0)) | [] => None end = Some (v, s')).
      { destruct (sn_last s); destruct force; exact H. }
      destruct (skipn (Nat.min i (length q')) (x :: q')) as [|vv rest] eqn:ES; [discriminate|].
      inversion H'; subst v s'; clear H'.
      destruct (NEW _ _ _ ES) as [A B]. split; [assumption|]. split; [reflexivity|assumption].
Qed.

Lemma sorted_le_cons : forall v vs, Forall (le v) vs -> sorted_le vs = true -> sorted_le (v :: vs) = true.
Proof.
  intros v [|y r] HF HS; [reflexivity|]. inversion HF; subst.
  change (sorted_le (v :: y :: r)) with ((v <=? y) && sorted_le (y :: r)).
  rewrite HS. apply Nat.leb_le in H1. rewrite H1. reflexivity.
Qed.

Lemma run_snap_mono : forall script s vs,
  run_snap s script = Some vs -> snap_inv s (snap_arrivals script) ->
  sorted_le vs = true /\ forall l, sn_last s = Some l -> Forall (le l) vs.
Proof.
  induction script as [|[[arr force] d] r IH]; intros s vs H HI; simpl in H.
  - inversion H; subst. split; [reflexivity|intros; constructor].
  - destruct (snap_step s arr force d) as [[v s']|] eqn:ES; [|discriminate].
    destruct (run_snap s' r) as [vs'|] eqn:ER; [|discriminate].
    inversion H; subst vs; clear H.
    unfold snap_arrivals in HI. simpl in HI. fold (snap_arrivals r) in HI.
    destruct (snap_step_spec _ _ _ _ _ _ _ ES HI) as [HI' [HL' HV]].
    destruct (IH _ _ ER HI') as [HS HF]. specialize (HF v HL').
    split.
    + apply sorted_le_cons; assumption.
    + intros l Hl. specialize (HV l Hl). constructor; [assumption|].
      eapply Forall_impl; [|exact HF]. intros a Ha. simpl in Ha. lia.
Qed.

(* the versions a snapshot hook releases never go back, whatever arrives and is decided *)
Theorem snapshots_monotone : forall script vs,
  StronglySorted lt (snap_arrivals script) ->
  run_snap (mkSnap [] None) script = Some vs -> sorted_le vs = true.
Proof.
  intros script vs HS H. apply (run_snap_mono script (mkSnap [] None) vs H).
  split; simpl; [assumption | intros l Hl; discriminate].
Qed.

(* ---------------------------------------------------------------- state hook *)
Section StateP.
  Variables S I O : Type.
  Variable body : S -> I -> S * O.

  (* first read = initial value; read of slice i+1 = written in slice i *)
  Theorem state_carries : forall ins s,
    (forall r w o, nth_error (run_state S I O body s ins) 0 = Some (r, w, o) -> r = s) /\
    (forall i r w o r' w' o',
        nth_error (run_state S I O body s ins) i = Some (r, w, o) ->
        nth_error (run_state S I O body s ins) (Datatypes.S i) = Some (r', w', o') -> r' = w).
  Proof.
    induction ins as [|x ins IH]; intros s; simpl.
    - split; intros; discriminate.
    - destruct (body s x) as [s' o0] eqn:EB. split.
      + intros r w o H. simpl in H. inversion H; reflexivity.
      + intros i r w o r' w' o' H1 H2. destruct i as [|i].
        * simpl in H1, H2. inversion H1; subst r w o.
          destruct (IH s') as [A _]. eapply A. exact H2.
        * simpl in H1, H2. destruct (IH s') as [_ B]. eapply B; eassumption.
  Qed.

  (* and the written value is the body's result on the read value *)
  Theorem state_written : forall ins s i r w o x,
    nth_error (run_state S I O body s ins) i = Some (r, w, o) -> nth_error ins i = Some x ->
    body r x = (w, o).
  Proof.
    induction ins as [|y ins IH]; intros s i r w o x H1 H2; [destruct i; discriminate|].
    simpl in H1. destruct (body s y) as [s' o0] eqn:EB. destruct i as [|i].
    - simpl in H1, H2. inversion H1; subst. inversion H2; subst. assumption.
    - simpl in H1, H2. eapply IH; eassumption.
  Qed.
End StateP.

(* ---------------------------------------------------------------- several hooks, one slice *)
Section MultiP.
  Variable A : Type.
  Definition dflt : list A * bool * nat := ([], false, 0).

  (* slice t's record holds, for the first hook, that hook's own t-th release, and the rest
     of the record is the slice run of the remaining hooks: the slice is the synchronous
     product of its hooks (all hooks of one slice are taken in the same tick) *)
  Theorem slices_head_tail : forall script q qs,
    Forall (fun tick => tick <> []) script ->
    map (fun rec => hd [] rec) (run_slices A (q :: qs) script)
      = fst (run_stream A q (map (fun tick => hd dflt tick) script)) /\
    map (fun rec => tl rec) (run_slices A (q :: qs) script)
      = run_slices A qs (map (fun tick => tl tick) script).
  Proof.
    induction script as [|tick r IH]; intros q qs HF; [split; reflexivity|].
    inversion HF; subst. destruct tick as [|[[arr force] count] tick']; [contradiction|].
    cbn [run_slices run_hooks_stream map hd tl run_stream].
    destruct (stream_step A q arr force count) as [b q'] eqn:ES.
    destruct (run_hooks_stream A qs tick') as [bs qs''] eqn:EH.
    cbn [map hd tl].
    destruct (IH q' qs'' H2) as [I1 I2]. rewrite I1, I2.
    destruct (run_stream A q' (map (fun tick => hd dflt tick) r)) as [bs2 qf] eqn:ER.
    split; reflexivity.
  Qed.

  Theorem slices_one_release_per_hook : forall script qs,
    Forall (fun tick => length tick = length qs) script ->
    Forall (fun rec => length rec = length qs) (run_slices A qs script).
  Proof.
    assert (L : forall tick qs rec qs', length tick = length qs ->
               run_hooks_stream A qs tick = (rec, qs') -> length rec = length qs /\ length qs' = length qs).
    { induction tick as [|[[arr force] count] tick IH]; intros qs rec qs' HL H.
      - destruct qs; [|discriminate]. simpl in H. inversion H; subst. split; reflexivity.
      - destruct qs as [|q qs]; [discriminate|]. simpl in H.
        destruct (stream_step A q arr force count) as [b q'].
        destruct (run_hooks_stream A qs tick) as [bs qs''] eqn:E.
        inversion H; subst. simpl in HL. destruct (IH qs bs qs'' (eq_add_S _ _ HL) E) as [A1 A2].
        simpl. split; congruence. }
    induction script as [|tick r IH]; intros qs HF; simpl; [constructor|].
    inversion HF; subst. destruct (run_hooks_stream A qs tick) as [rec qs'] eqn:E.
    destruct (L _ _ _ _ H1 E) as [A1 A2]. constructor; [assumption|].
    rewrite <- A2. apply IH. rewrite A2. assumption.
  Qed.
End MultiP.
