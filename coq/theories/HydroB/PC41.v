(* HydroB engine: further C41 facts -- flows whose cycles all come from `Tick::cycle`
   (CycleSource directly under DeferTick) are guarded by the constant ranking; soundness of
   the executable cycle check; the fragment/arity check against the regenerated operator
   table; the two refutation witnesses (IR of corpus flows of harness/h_hydro_b_flows). *)
From Coq Require Import List String NArith Bool Lia ZifyBool ZifyN.
From HV Require Import HydroB.Model HydroB.GenOps HydroB.PEmit HydroB.PArity HydroB.POut HydroB.PAccept HydroB.XPartition HydroB.PAccept2.
From HV Require Gen.OpsTable Partition.Model.
Import ListNotations.
Open Scope string_scope.
Open Scope N_scope.

(* ------------------------------------------------------------------ Tick::cycle only *)
(* every CycleSource is the direct input of a DeferTick: what `Tick::cycle` and
   `Tick::cycle_with_initial` build (location/tick.rs, stream/mod.rs create_source) *)
Fixpoint deferred_only (h : hnode) : bool :=
  match h with
  | HSource _ _ => true
  | HCycleSource _ _ => false
  | HTee _ inner _ => deferred_only inner
  | HUn UDeferTick (HCycleSource _ _) _ => true
  | HUn _ i _ => deferred_only i
  | HBin _ l r _ => deferred_only l && deferred_only r
  | HNetwork _ _ i _ => deferred_only i
  end.

Definition root_input (r : hroot) : hnode :=
  match r with RSink _ i => i | RCycleSink _ i => i end.
Definition flow_deferred_only (f : flow) : bool := forallb (fun r => deferred_only (root_input r)) f.

Lemma deferred_only_lvl : forall rk h, deferred_only h = true -> sync_lvl rk h = 0.
Proof.
  intros rk. induction h as [sk m | c m | id inner IH m | u input IH m | b l IHl r IHr m | ser deser input IH m];
    simpl; intro H; try reflexivity; try discriminate.
  - auto.
  - destruct u; try (apply IH; exact H); reflexivity.
  - apply andb_true_iff in H. destruct H as [H1 H2]. rewrite (IHl H1), (IHr H2). reflexivity.
Qed.

Lemma deferred_only_guarded : forall rk f, flow_deferred_only f = true -> guarded rk f = true.
Proof.
  intros rk. induction f as [|r f IH]; simpl; intro H; [reflexivity|].
  apply andb_true_iff in H. destruct H as [H1 H2]. rewrite (IH H2), andb_true_r.
  destruct r as [k i|c i]; simpl; [reflexivity|]. simpl in H1.
  rewrite (deferred_only_lvl rk i H1). apply N.leb_le. lia.
Qed.

(* ------------------------------------------------------------------ executable cycle check *)
Lemma has_edge_sound : forall es a b, has_edge es a b = true ->
  exists e, In e (filter (fun e => negb (e_tick e)) es) /\ e_src e = a /\ e_dst e = b.
Proof.
  induction es as [|e es IH]; simpl; intros a b H; [discriminate|].
  apply orb_true_iff in H. destruct H as [H|H].
  - apply andb_true_iff in H. destruct H as [H Ht]. apply andb_true_iff in H. destruct H as [Hs Hd].
    apply N.eqb_eq in Hs. apply N.eqb_eq in Hd. exists e. rewrite Ht. simpl. auto.
  - destruct (IH a b H) as [e' [Hin Hp]]. exists e'. split; [|assumption].
    destruct (negb (e_tick e)); [right|]; assumption.
Qed.

Lemma is_path_reach : forall es p a, p <> [] -> is_path_b es a p = true ->
  reach (filter (fun e => negb (e_tick e)) es) a (last p a).
Proof.
  induction p as [|b r IH]; intros a Hne H; [contradiction|].
  simpl in H. apply andb_true_iff in H. destruct H as [H1 H2].
  destruct (has_edge_sound _ _ _ H1) as [e [Hin [Hs Hd]]]. subst a b.
  destruct r as [|c r'].
  - simpl. apply reach_one. assumption.
  - eapply reach_step; [exact Hin|].
    change (last (e_dst e :: c :: r') (e_src e)) with (last (c :: r') (e_src e)).
    assert (Hl : forall (l : list N) x y, l <> [] -> last l x = last l y).
    { induction l as [|z l IHl]; intros x y Hn; [contradiction|]. destruct l; [reflexivity|].
      simpl. apply IHl. discriminate. }
    rewrite (Hl (c :: r') (e_src e) (e_dst e)) by discriminate.
    apply IH; [discriminate | exact H2].
Qed.

Lemma is_cycle_sound : forall g cyc, is_cycle_b g cyc = true -> exists v, reach (same_tick g) v v.
Proof.
  intros g [|v r] H; [discriminate|]. exists v. simpl in H.
  pose proof (is_path_reach (g_edges g) (r ++ [v]) v) as P.
  rewrite last_last in P. apply P; [destruct r; discriminate | exact H].
Qed.

(* ------------------------------------------------------------------ fragments vs the table *)
Definition all_bool := [true; false].
Definition all_meta : list meta :=
  flat_map (fun a => flat_map (fun b => map (fun c => mkMeta a b c) all_bool) all_bool) all_bool.
Definition all_src := [SStream; SIter; SSpin; SEmbedded; SEmbeddedSingleton; SSingleton true; SSingleton false].
Definition all_un := [UCast; UObserveNonDet; UAssertIsConsistent; UBatch; UYieldConcat; UBeginAtomic;
  UEndAtomic; UUnboundSingleton; UMap; UFlatMap; UFilter; UFilterMap; UInspect; UEnumerate; UUnique;
  USort; UDeferTick; UFold; UScan; UFoldKeyed; UReduce; UReduceKeyed; UResolveFutures;
  UResolveFuturesOrdered].
Definition all_bin := [BChain; BChainFirst; BMergeOrdered; BCrossSingleton; BCrossProduct; BJoin;
  BJoinHalf; BDifference; BAntiJoin].
Definition all_sink := [KForEach; KDestSink; KEmbeddedOutput; KNull].

Lemma all_meta_complete : forall m, In m all_meta.
Proof. intros [[] [] []]; vm_compute; tauto. Qed.
Lemma all_src_complete : forall s, In s all_src.
Proof. intros [| | | | |[]]; vm_compute; tauto. Qed.
Lemma all_un_complete : forall u, In u all_un.
Proof. intros []; vm_compute; tauto. Qed.
Lemma all_bin_complete : forall b, In b all_bin.
Proof. intros []; vm_compute; tauto. Qed.
Lemma all_sink_complete : forall k, In k all_sink.
Proof. intros []; vm_compute; tauto. Qed.

(* the first operator of a statement gets `n` inputs, every later one exactly one; each
   must be in the table with `n` inside its hard input range; a port name given to the
   first operator must be one the table lists when it lists any (not dumped: arity only) *)
Definition frag_arity_ok (T : optable) : bool :=
  forallb (fun s => forallb (fun m => chain_takes T (src_ops s m) 0) all_meta) all_src
  && forallb (fun u => forallb (fun m => chain_takes T (un_ops u m) 1) all_meta) all_un
  && forallb (fun b => forallb (fun ml => forallb (fun mr =>
        chain_takes T (fst (bin_ops b ml mr)) 2) all_meta) all_meta) all_bin
  && forallb (fun k => op_takes T (sink_op k) 1) all_sink
  && op_takes T "tee" 1 && op_takes T "identity" 1
  && chain_takes T ["map"; "dest_sink"] 1 && chain_takes T ["source_stream"; "map"] 0.

Lemma frag_arity_gen : frag_arity_ok GenOps.ops_table = true.
Proof. vm_compute. reflexivity. Qed.

Lemma table_sane_gen : is_delayed GenOps.ops_table "defer_tick_lazy" "[]" = true.
Proof. vm_compute. reflexivity. Qed.

(* every operator name the emitter can write, with the number of inputs it gives it, is in
   the regenerated table and inside the operator's hard input arity range *)
Lemma frag_arity_all :
  (forall s m, chain_takes GenOps.ops_table (src_ops s m) 0 = true) /\
  (forall u m, chain_takes GenOps.ops_table (un_ops u m) 1 = true) /\
  (forall b ml mr, chain_takes GenOps.ops_table (fst (bin_ops b ml mr)) 2 = true) /\
  (forall k, op_takes GenOps.ops_table (sink_op k) 1 = true).
Proof.
  assert (H1 : forallb (fun s => forallb (fun m => chain_takes GenOps.ops_table (src_ops s m) 0) all_meta) all_src = true)
    by (vm_compute; reflexivity).
  assert (H2 : forallb (fun u => forallb (fun m => chain_takes GenOps.ops_table (un_ops u m) 1) all_meta) all_un = true)
    by (vm_compute; reflexivity).
  assert (H3 : forallb (fun b => forallb (fun ml => forallb (fun mr =>
        chain_takes GenOps.ops_table (fst (bin_ops b ml mr)) 2) all_meta) all_meta) all_bin = true)
    by (vm_compute; reflexivity).
  assert (H4 : forallb (fun k => op_takes GenOps.ops_table (sink_op k) 1) all_sink = true)
    by (vm_compute; reflexivity).
  rewrite forallb_forall in H1, H2, H3, H4.
  repeat split.
  - intros s m. specialize (H1 s (all_src_complete s)). rewrite forallb_forall in H1.
    apply H1. apply all_meta_complete.
  - intros u m. specialize (H2 u (all_un_complete u)). rewrite forallb_forall in H2.
    apply H2. apply all_meta_complete.
  - intros b ml mr. specialize (H3 b (all_bin_complete b)). rewrite forallb_forall in H3.
    specialize (H3 ml (all_meta_complete ml)). rewrite forallb_forall in H3.
    apply H3. apply all_meta_complete.
  - intros k. apply H4. apply all_sink_complete.
Qed.

(* in-degrees of every emitted graph, for the regenerated table *)
Theorem emit_in_arities_gen : forall rk f g, emit_flow GenOps.ops_table rk f = Some g ->
  forall x, In x (g_nodes g) ->
    op_takes GenOps.ops_table (n_op x) (indeg (g_edges g) (n_id x)) = true.
Proof.
  intros rk f g H x Hx.
  destruct frag_arity_all as [A [B [C D]]].
  refine (proj2 (emit_in_arities GenOps.ops_table rk A B C D _ _ _ _ f g H x Hx)).
  - vm_compute; reflexivity.
  - vm_compute; reflexivity.
  - intros []; vm_compute; reflexivity.
  - intros []; vm_compute; reflexivity.
Qed.

(* out-degrees of every emitted graph, for the regenerated table (ident linearity, POut.v) *)
Theorem emit_out_degrees_gen : forall rk f g, emit_flow GenOps.ops_table rk f = Some g ->
  forall x, In x (g_nodes g) ->
    out_table_ok GenOps.ops_table (n_op x) = true /\
    (free_out (n_op x) = false ->
     outdeg (g_edges g) (n_id x) = if is_sink (n_op x) then 0 else 1).
Proof.
  intros rk f g H x Hx.
  assert (A1 : forallb (fun s => forallb (fun m => forallb mid_ok (src_ops s m)
                 && negb (match src_ops s m with [] => true | _ => false end)
                 && forallb (out_table_ok GenOps.ops_table) (src_ops s m)) all_meta) all_src = true)
    by (vm_compute; reflexivity).
  assert (A2 : forallb (fun u => forallb (fun m => forallb mid_ok (un_ops u m)
                 && forallb (out_table_ok GenOps.ops_table) (un_ops u m)) all_meta) all_un = true)
    by (vm_compute; reflexivity).
  assert (A3 : forallb (fun b => forallb (fun ml => forallb (fun mr =>
                 forallb mid_ok (fst (bin_ops b ml mr))
                 && negb (match fst (bin_ops b ml mr) with [] => true | _ => false end)
                 && forallb (out_table_ok GenOps.ops_table) (fst (bin_ops b ml mr))) all_meta) all_meta) all_bin = true)
    by (vm_compute; reflexivity).
  assert (A4 : forallb (fun k => out_table_ok GenOps.ops_table (sink_op k) && is_sink (sink_op k)) all_sink = true)
    by (vm_compute; reflexivity).
  rewrite forallb_forall in A1, A2, A3, A4.
  assert (S1 : forall s m, forallb mid_ok (src_ops s m) = true /\ src_ops s m <> [] /\
                           forallb (out_table_ok GenOps.ops_table) (src_ops s m) = true).
  { intros s m. specialize (A1 s (all_src_complete s)). rewrite forallb_forall in A1.
    specialize (A1 m (all_meta_complete m)). rewrite !andb_true_iff in A1. destruct A1 as [[B1 B2] B3].
    split; [exact B1|]. split; [|exact B3]. intro E0. rewrite E0 in B2. discriminate. }
  assert (S2 : forall u m, forallb mid_ok (un_ops u m) = true /\
                           forallb (out_table_ok GenOps.ops_table) (un_ops u m) = true).
  { intros u m. specialize (A2 u (all_un_complete u)). rewrite forallb_forall in A2.
    specialize (A2 m (all_meta_complete m)). rewrite andb_true_iff in A2. exact A2. }
  assert (S3 : forall b ml mr, forallb mid_ok (fst (bin_ops b ml mr)) = true /\ fst (bin_ops b ml mr) <> [] /\
                               forallb (out_table_ok GenOps.ops_table) (fst (bin_ops b ml mr)) = true).
  { intros b ml mr. specialize (A3 b (all_bin_complete b)). rewrite forallb_forall in A3.
    specialize (A3 ml (all_meta_complete ml)). rewrite forallb_forall in A3.
    specialize (A3 mr (all_meta_complete mr)). rewrite !andb_true_iff in A3. destruct A3 as [[B1 B2] B3].
    split; [exact B1|]. split; [|exact B3]. intro E0. rewrite E0 in B2. discriminate. }
  refine (emit_out_degrees GenOps.ops_table rk _ _ _ _ _ _ _ _ f g H x Hx).
  - intros s m. destruct (S1 s m) as (B1 & B2 & _). split; assumption.
  - intros u m. apply (S2 u m).
  - intros b ml mr. destruct (S3 b ml mr) as (B1 & B2 & _). split; assumption.
  - intros s m. apply (S1 s m).
  - intros u m. apply (S2 u m).
  - intros b ml mr. apply (S3 b ml mr).
  - intros k. specialize (A4 k (all_sink_complete k)). rewrite andb_true_iff in A4. exact A4.
  - vm_compute; reflexivity.
Qed.

(* the arity theorem, complete: every node's in-degree AND out-degree are inside the hard
   ranges of the regenerated operator table (the cycle `identity` operators excepted for the
   out-degree: theirs is the number of uses of the cycle variable, 1 for a linear API) *)
Theorem emit_arities_complete : forall rk f g, emit_flow GenOps.ops_table rk f = Some g ->
  forall x, In x (g_nodes g) ->
    exists r, find_row GenOps.ops_table (n_op x) = Some r /\
      in_range (r_inn r) (indeg (g_edges g) (n_id x)) = true /\
      (n_op x <> "identity" -> in_range (r_out r) (outdeg (g_edges g) (n_id x)) = true).
Proof.
  intros rk f g H x Hx.
  pose proof (emit_in_arities_gen rk f g H x Hx) as Hin.
  destruct (emit_out_degrees_gen rk f g H x Hx) as [Htab Hout].
  unfold op_takes in Hin. unfold out_table_ok in Htab.
  destruct (find_row GenOps.ops_table (n_op x)) as [r|]; [|discriminate].
  exists r. split; [reflexivity|]. split; [exact Hin|]. intro Hnid.
  destruct (String.eqb (n_op x) "tee") eqn:Et.
  - apply andb_true_iff in Htab. destruct Htab as [Hlo Hhi]. apply N.eqb_eq in Hlo.
    unfold in_range. rewrite Hlo. destruct (snd (r_out r)); [discriminate|].
    rewrite andb_true_r. apply N.leb_le. apply N.le_0_l.
  - assert (Ei : String.eqb (n_op x) "identity" = false) by (apply String.eqb_neq; exact Hnid).
    rewrite Ei in Htab. rewrite Hout; [exact Htab|]. unfold free_out. rewrite Et, Ei. reflexivity.
Qed.

(* ------------------------------------------------------------------ accepted, as a theorem
   about engine Partition's model of dfir_lang's partitioner (Partition/Model.v
   partition_verdict with its own regenerated operator table Gen/OpsTable.v): uses
   Partition's C19 theorem acyclic_accepted (Partition/PC19.v) read-only *)
Lemma resolve_edges : forall sinks ps es0, resolve sinks ps = Some es0 ->
  forall e, In e es0 -> exists p, In p ps /\ In (p_cyc p, e_src e) sinks /\
                                   e_dst e = p_dst p /\ e_tick e = p_tick p.
Proof.
  induction ps as [|p ps IH]; intros es0 H e He; simpl in H.
  - inversion H; subst. contradiction.
  - destruct (assoc_n (p_cyc p) sinks) as [m|] eqn:EA; [|discriminate].
    destruct (resolve sinks ps) as [es1|] eqn:ER; [|discriminate].
    inversion H; subst es0. destruct He as [<-|He].
    + exists p. simpl. split; [left; reflexivity|]. split; [apply assoc_n_In; exact EA|]. split; reflexivity.
    + destruct (IH _ eq_refl e He) as [q [A B]]. exists q. split; [right; exact A|exact B].
Qed.

Theorem guarded_accepted_by_partition_model : forall rk f g,
  guarded rk f = true -> emit_flow GenOps.ops_table rk f = Some g ->
  Partition.Model.partition_verdict Gen.OpsTable.ops_table (to_pgraph g) = Partition.Model.Accepted.
Proof.
  intros rk f g HG H.
  pose proof (emit_accepted GenOps.ops_table rk table_sane_gen f g HG H) as Hacc.
  unfold emit_flow in H.
  destruct (emit_roots GenOps.ops_table rk f st0) as [s|] eqn:ER; [|discriminate].
  destruct (resolve (s_sinks s) (s_pend s)) as [es0|] eqn:EV; [|discriminate].
  inversion H; subst g; clear H.
  assert (B1 : forallb (fun s => forallb (fun m =>
            chain_agree GenOps.ops_table Gen.OpsTable.ops_table (src_ops s m) []) all_meta) all_src = true)
    by (vm_compute; reflexivity).
  assert (B2 : forallb (fun u => forallb (fun m =>
            chain_agree GenOps.ops_table Gen.OpsTable.ops_table (un_ops u m) ["[]"%string]) all_meta) all_un = true)
    by (vm_compute; reflexivity).
  assert (B3 : forallb (fun b => forallb (fun ml => forallb (fun mr =>
            chain_agree GenOps.ops_table Gen.OpsTable.ops_table (fst (bin_ops b ml mr))
              [fst (snd (bin_ops b ml mr)); snd (snd (bin_ops b ml mr))]) all_meta) all_meta) all_bin = true)
    by (vm_compute; reflexivity).
  assert (B4 : forallb (fun k => chain_agree GenOps.ops_table Gen.OpsTable.ops_table [sink_op k] ["[]"%string]) all_sink = true)
    by (vm_compute; reflexivity).
  rewrite forallb_forall in B1, B2, B3, B4.
  assert (HI : Inv7 Gen.OpsTable.ops_table s).
  { eapply (emit_roots_inv7 GenOps.ops_table Gen.OpsTable.ops_table rk); [| | | | | | | |exact ER|apply Inv7_0].
    - intros s0 m. specialize (B1 s0 (all_src_complete s0)). rewrite forallb_forall in B1.
      apply B1. apply all_meta_complete.
    - intros u m. specialize (B2 u (all_un_complete u)). rewrite forallb_forall in B2.
      apply B2. apply all_meta_complete.
    - intros b ml mr. specialize (B3 b (all_bin_complete b)). rewrite forallb_forall in B3.
      specialize (B3 ml (all_meta_complete ml)). rewrite forallb_forall in B3.
      apply B3. apply all_meta_complete.
    - intros k. apply B4. apply all_sink_complete.
    - vm_compute; reflexivity.
    - vm_compute; reflexivity.
    - intros []; vm_compute; reflexivity.
    - intros []; vm_compute; reflexivity. }
  apply bridge_accepted.
  - exact (i7_nodup _ _ HI).
  - intros x Hx. exact (proj2 (i7_nodes _ _ HI x Hx)).
  - intros e He. apply in_app_or in He. destruct He as [He|He].
    + destruct (resolve_edges _ _ _ EV e He) as [p [Hp [Hs [Hd Ht]]]].
      split; [exact (i7_sinks _ _ HI _ Hs)|]. rewrite Hd, Ht. exact (i7_pend _ _ HI p Hp).
    + exact (i7_edges _ _ HI e He).
  - exact Hacc.
Qed.

(* ------------------------------------------------------------------ refutation witnesses *)
Definition mT := mkMeta true false false.

(* IR of h_hydro_b_flows::c41_forward_ref_sync_cycle: a top-level `forward_ref` completed
   with a stream that merges the placeholder back in (type-checks) *)
Definition w_sync_body : hnode :=
  HTee 0 (HBin BChain (HSource SEmbedded mT)
                      (HUn UMap (HUn UFilter (HCycleSource 0 mT) mT) mT) mT) mT.
Definition w_sync_cycle : flow :=
  [RSink KEmbeddedOutput (HUn UObserveNonDet w_sync_body mT); RCycleSink 0 w_sync_body].

(* IR of h_hydro_b_flows::c41_top_bounded_keyed_fold *)
Definition mB := mkMeta true true false.
Definition w_keyed_fold : flow :=
  [RSink KEmbeddedOutput (HSource SEmbedded mT);
   RSink KEmbeddedOutput (HUn UObserveNonDet (HUn UCast (HUn UCast
      (HUn UFoldKeyed (HUn UCast (HSource SIter mB) mB) (mkMeta true true true)) mB) mB) mB)].

(* IR of h_hydro_b_flows::c41_tick_cycle (non-vacuity of the acceptance theorem) *)
Definition mK := mkMeta false true false.
Definition w_tick_body : hnode :=
  HTee 0 (HUn UCast (HUn UFold (HBin BChain (HUn UBatch (HSource SEmbedded mT) mK)
     (HUn UDeferTick (HCycleSource 0 mK) mK) mK) (mkMeta false true true)) mK) mK.
Definition w_tick_cycle : flow :=
  [RCycleSink 0 w_tick_body; RSink KEmbeddedOutput (HUn UYieldConcat w_tick_body mT)].

(* no ranking guards the synchronous self-dependency *)
Lemma w_sync_not_guarded : forall rk, guarded rk w_sync_cycle = false.
Proof.
  intro rk. unfold guarded, w_sync_cycle. simpl. rewrite andb_true_r.
  apply N.leb_gt. lia.
Qed.

(* the levels are ghost labels: one ranking suffices to exhibit the emitted graph *)
Lemma w_sync_rejected : exists g,
  emit_flow GenOps.ops_table (fun _ => 0) w_sync_cycle = Some g /\ ~ partition_accepts g.
Proof.
  assert (E : exists g, emit_flow GenOps.ops_table (fun _ => 0) w_sync_cycle = Some g
                        /\ is_cycle_b g [3; 4; 6; 1; 2] = true).
  { vm_compute. eexists. split; reflexivity. }
  destruct E as [g [Hg Hc]]. exists g. split; [exact Hg|].
  intro Hacc. destruct (is_cycle_sound g _ Hc) as [v Hv]. exact (Hacc v Hv).
Qed.

Lemma w_keyed_fold_panics : forall rk, emit_flow GenOps.ops_table rk w_keyed_fold = None.
Proof. intro rk. vm_compute. reflexivity. Qed.

Lemma w_tick_cycle_ok : flow_deferred_only w_tick_cycle = true /\
  exists g, emit_flow GenOps.ops_table (fun _ => 0) w_tick_cycle = Some g /\ g_edges g <> [].
Proof. split; [reflexivity|]. vm_compute. eexists; split; [reflexivity|discriminate]. Qed.
