(* HydroB engine, model of the Hydro -> DFIR emitter (hydro_lang/src/compile/ir/mod.rs:
   HydroRoot::emit_core, HydroNode::emit_core with the production builder ProdDfirBuilder,
   followed by FlatGraphBuilder::build's resolution of variable links).
   Definitions only.

   The IR is the fragment of HydroNode that the correspondence corpus uses (every other
   constructor is reported as "unsupported" by tools/hydrob.py and fails the check).
   A `Tee` occurrence carries its shared inner subtree (the tree unfolding of the Rc DAG);
   emission de-duplicates by the tee id exactly as `built_tees` does.
   What `emit` keeps of every DFIR statement: operator name, input port names, which output
   feeds which input -- not closures, lifetimes or types. *)
From Coq Require Import List String NArith Bool.
Import ListNotations.
Open Scope string_scope.
Open Scope N_scope.

(* ------------------------------------------------------------------ operator table rows
   (dfir_lang::graph::ops::OperatorConstraints as dumped by harness/h_hydro_b: hard input /
   output arity ranges, the input ports with a delay type, is_external_input) *)
Record oprow := mkRow {
  r_name : string;
  r_inn : N * option N;
  r_out : N * option N;
  r_delays : list (string * string);   (* (input port, DelayType) pairs with a delay *)
  r_external : bool
}.
Definition optable := list oprow.

Fixpoint find_row (T : optable) (name : string) : option oprow :=
  match T with
  | [] => None
  | r :: T' => if String.eqb (r_name r) name then Some r else find_row T' name
  end.

Fixpoint assoc_s {A} (k : string) (l : list (string * A)) : option A :=
  match l with
  | [] => None
  | (k', v) :: l' => if String.eqb k' k then Some v else assoc_s k l'
  end.

(* input_delaytype_fn(port) <> None *)
Definition is_delayed (T : optable) (op port : string) : bool :=
  match find_row T op with
  | Some r => match assoc_s port (r_delays r) with Some _ => true | None => false end
  | None => false
  end.

Definition in_range (rg : N * option N) (n : N) : bool :=
  (fst rg <=? n) && match snd rg with None => true | Some hi => n <=? hi end.

(* ------------------------------------------------------------------ the IR fragment *)
(* what the emitter reads of HydroIrMetadata: location_id.is_top_level(), collection_kind
   .is_bounded(), and whether the kind is Singleton / Optional / KeyedSingleton *)
Record meta := mkMeta { m_top : bool; m_bounded : bool; m_single : bool }.

Inductive src :=
| SStream | SIter | SSpin | SEmbedded | SEmbeddedSingleton   (* HydroSource *)
| SSingleton (first_tick_only : bool).                         (* HydroNode::SingletonSource *)

Inductive un :=
| UCast | UObserveNonDet | UAssertIsConsistent | UBatch | UYieldConcat | UBeginAtomic
| UEndAtomic | UUnboundSingleton
| UMap | UFlatMap | UFilter | UFilterMap | UInspect | UEnumerate | UUnique | USort
| UDeferTick | UFold | UScan | UFoldKeyed | UReduce | UReduceKeyed
| UResolveFutures | UResolveFuturesOrdered.

Inductive bin :=
| BChain | BChainFirst | BMergeOrdered | BCrossSingleton | BCrossProduct | BJoin | BJoinHalf
| BDifference | BAntiJoin.

Inductive hnode :=
| HSource (s : src) (m : meta)
| HCycleSource (c : N) (m : meta)
| HTee (id : N) (inner : hnode) (m : meta)
| HUn (u : un) (input : hnode) (m : meta)
| HBin (b : bin) (l r : hnode) (m : meta)
| HNetwork (ser deser : bool) (input : hnode) (m : meta).

Inductive sink := KForEach | KDestSink | KEmbeddedOutput | KNull.
Inductive hroot :=
| RSink (k : sink) (input : hnode)
| RCycleSink (c : N) (input : hnode).
Definition flow := list hroot.

Definition meta_of (h : hnode) : meta :=
  match h with
  | HSource _ m | HCycleSource _ m | HTee _ _ m | HUn _ _ m | HBin _ _ _ m | HNetwork _ _ _ m => m
  end.

(* ------------------------------------------------------------------ per-node DFIR fragments
   (the `parse_quote!` bodies of emit_core, operator names only) *)
Definition src_ops (s : src) (m : meta) : list string :=
  match s with
  | SStream | SEmbedded => ["source_stream"]
  | SIter => if m_top m then ["source_iter"] else ["source_iter"; "persist"]
  | SSpin => ["spin"]
  | SEmbeddedSingleton => ["source_iter"]
  | SSingleton first_tick_only =>
      if first_tick_only || (m_top m && m_bounded m) then ["source_iter"]
      else ["source_iter"; "persist"]
  end.

(* [] = the node only renames its input (`#out = #in;`) or emits nothing (Cast) *)
Definition un_ops (u : un) (mi : meta) : list string :=
  match u with
  | UCast | UObserveNonDet | UAssertIsConsistent | UYieldConcat | UBeginAtomic | UEndAtomic => []
  | UBatch => if m_bounded mi && m_single mi then ["persist"] else []   (* ProdDfirBuilder::batch *)
  | UUnboundSingleton => ["persist"]                 (* singleton_intermediates() = false *)
  | UMap => ["map"] | UFlatMap => ["flat_map"] | UFilter => ["filter"]
  | UFilterMap => ["filter_map"] | UInspect => ["inspect"] | UEnumerate => ["enumerate"]
  | UUnique => ["unique"] | USort => ["sort"]
  | UDeferTick => ["defer_tick_lazy"]
  | UFold => if m_top mi && m_bounded mi then ["fold_no_replay"] else ["fold"]
  | UScan => ["scan"]
  | UFoldKeyed => ["fold_keyed"]       (* top-level bounded input: todo!() in the emitter *)
  | UReduce => if m_top mi && m_bounded mi then ["reduce_no_replay"] else ["reduce"]
  | UReduceKeyed => ["reduce_keyed"]   (* top-level bounded input: todo!() in the emitter *)
  | UResolveFutures => ["resolve_futures"]
  | UResolveFuturesOrdered => ["resolve_futures_ordered"]
  end.

(* the emitter panics (todo!) on these well-typed nodes *)
Definition un_unimplemented (u : un) (mi : meta) : bool :=
  match u with
  | UFoldKeyed | UReduceKeyed => m_top mi && m_bounded mi
  | _ => false
  end.

(* operators and the two input port names *)
Definition bin_ops (b : bin) (ml mr : meta) : list string * (string * string) :=
  match b with
  | BChain => (["chain"], ("0", "1"))
  | BChainFirst => (["chain_first_n"], ("0", "1"))
  | BMergeOrdered => (["union"], ("0", "1"))          (* ProdDfirBuilder::merge_ordered *)
  | BCrossSingleton => (["cross_singleton"], ("input", "single"))
  | BCrossProduct =>
      (if m_top ml && m_top mr then ["cross_join_multiset"; "multiset_delta"]
       else ["cross_join_multiset"], ("0", "1"))
  | BJoin =>
      (if m_top ml && m_top mr then ["join_multiset"; "multiset_delta"]
       else ["join_multiset"], ("0", "1"))
  | BJoinHalf => (["join_multiset_half"], ("probe", "build"))
  | BDifference => (["difference"], ("pos", "neg"))
  | BAntiJoin => (["anti_join"], ("pos", "neg"))
  end.

Definition sink_op (k : sink) : string :=
  match k with
  | KForEach | KEmbeddedOutput | KNull => "for_each"
  | KDestSink => "dest_sink"
  end.

(* ------------------------------------------------------------------ synchronous level
   rk ranks the cycle ids.  sync_lvl h = 0 if no CycleSource is reachable from h without
   crossing a DeferTick / Network node, else 1 + the largest rank of such a CycleSource. *)
Section Lvl.
  Variable rk : N -> N.
  Fixpoint sync_lvl (h : hnode) : N :=
    match h with
    | HSource _ _ => 0
    | HCycleSource c _ => rk c + 1
    | HTee _ inner _ => sync_lvl inner
    | HUn UDeferTick _ _ => 0
    | HUn _ i _ => sync_lvl i
    | HBin _ l r _ => N.max (sync_lvl l) (sync_lvl r)
    | HNetwork _ _ _ _ => 0
    end.

  (* "every forward reference / tick cycle is completed with a collection that depends
     synchronously only on lower-ranked cycles": rk is a topological ranking of the
     synchronous dependencies between cycle ids.  For flows that only use Tick::cycle
     (CycleSource directly under DeferTick) every sync_lvl is 0 and rk = fun _ => 0 works. *)
  Definition guarded_root (r : hroot) : bool :=
    match r with
    | RSink _ _ => true
    | RCycleSink c input => sync_lvl input <=? rk c
    end.
  Definition guarded (f : flow) : bool := forallb guarded_root f.
End Lvl.

(* ------------------------------------------------------------------ the flat graph builder *)
Definition ident := (N + N)%type.     (* inl: output of node n;  inr: the variable `cycle_c` *)

Record gnode := mkNode { n_id : N; n_op : string; n_lvl : N; n_in : N }.
Record edge := mkEdge { e_src : N; e_dst : N; e_port : string; e_tick : bool }.
Record pedge := mkPend { p_cyc : N; p_dst : N; p_port : string; p_tick : bool }.

Record st := mkSt {
  s_next : N;
  s_nodes : list gnode;                 (* newest first *)
  s_edges : list edge;                  (* newest first *)
  s_pend : list pedge;                  (* links from cycle variables, resolved at the end *)
  s_tees : list (N * (ident * N));      (* built_tees: tee id -> (ident, level) *)
  s_sinks : list (N * N)                (* cycle id -> node id of its `identity` operator *)
}.
Definition st0 : st := mkSt 0 [] [] [] [] [].

Fixpoint assoc_n {A} (k : N) (l : list (N * A)) : option A :=
  match l with
  | [] => None
  | (k', v) :: l' => if N.eqb k' k then Some v else assoc_n k l'
  end.

Section Emit.
  Variable T : optable.
  Variable rk : N -> N.

  (* one operator: a node with id s_next and an edge / pending link per input *)
  Fixpoint link_inputs (dst : N) (op : string) (ins : list (ident * string))
           (es : list edge) (ps : list pedge) : list edge * list pedge :=
    match ins with
    | [] => (es, ps)
    | (inl n, port) :: r =>
        link_inputs dst op r (mkEdge n dst port (is_delayed T op port) :: es) ps
    | (inr c, port) :: r =>
        link_inputs dst op r es (mkPend c dst port (is_delayed T op port) :: ps)
    end.

  Definition add_op (op : string) (lvl : N) (ins : list (ident * string)) (s : st) : N * st :=
    let id := s_next s in
    let '(es, ps) := link_inputs id op ins (s_edges s) (s_pend s) in
    (id, mkSt (id + 1) (mkNode id op lvl (N.of_nat (List.length ins)) :: s_nodes s) es ps
              (s_tees s) (s_sinks s)).

  (* `a = in -> op1() -> op2() ...`: the first operator takes the inputs *)
  Fixpoint add_chain (ops : list string) (lvl : N) (ins : list (ident * string)) (s : st)
    : option (ident * st) :=
    match ops with
    | [] => None
    | [op] => let '(id, s') := add_op op lvl ins s in Some (inl id, s')
    | op :: rest =>
        let '(id, s') := add_op op lvl ins s in add_chain rest lvl [(inl id, "[]")] s'
    end.

  (* None = the emitter panics (todo!) or the IR is ill-formed (one tee id, two subtrees) *)
  Fixpoint emit_node (h : hnode) (s : st) : option (ident * st) :=
    match h with
    | HSource sk m => add_chain (src_ops sk m) 0 [] s
    | HCycleSource c _ => Some (inr c, s)
    | HTee id inner _ =>
        match assoc_n id (s_tees s) with
        | Some (i, l) => if N.eqb l (sync_lvl rk inner) then Some (i, s) else None
        | None =>
            match emit_node inner s with
            | None => None
            | Some (i, s1) =>
                let '(n, s2) := add_op "tee" (sync_lvl rk inner) [(i, "[]")] s1 in
                Some (inl n, mkSt (s_next s2) (s_nodes s2) (s_edges s2) (s_pend s2)
                                  ((id, (inl n, sync_lvl rk inner)) :: s_tees s2) (s_sinks s2))
            end
        end
    | HUn u input _ =>
        if un_unimplemented u (meta_of input) then None else
        match emit_node input s with
        | None => None
        | Some (i, s1) =>
            match un_ops u (meta_of input) with
            | [] => Some (i, s1)
            | ops => add_chain ops (sync_lvl rk h) [(i, "[]")] s1
            end
        end
    | HBin b l r _ =>
        match emit_node l s with
        | None => None
        | Some (i1, s1) =>
            match emit_node r s1 with
            | None => None
            | Some (i2, s2) =>
                let '(ops, (p1, p2)) := bin_ops b (meta_of l) (meta_of r) in
                add_chain ops (sync_lvl rk h) [(i1, p1); (i2, p2)] s2
            end
        end
    | HNetwork ser deser input _ =>
        match emit_node input s with
        | None => None
        | Some (i, s1) =>
            (* ProdDfirBuilder::create_network: sender statement, then receiver statement *)
            match add_chain (if ser then ["map"; "dest_sink"] else ["dest_sink"])
                            (sync_lvl rk input) [(i, "[]")] s1 with
            | None => None
            | Some (_, s2) =>
                add_chain (if deser then ["source_stream"; "map"] else ["source_stream"]) 0 [] s2
            end
        end
    end.

  Definition emit_root (r : hroot) (s : st) : option st :=
    match r with
    | RSink k input =>
        match emit_node input s with
        | None => None
        | Some (i, s1) =>
            let '(_, s2) := add_op (sink_op k) (sync_lvl rk input) [(i, "[]")] s1 in Some s2
        end
    | RCycleSink c input =>
        match emit_node input s with
        | None => None
        | Some (i, s1) =>
            let '(n, s2) := add_op "identity" (sync_lvl rk input) [(i, "[]")] s1 in
            Some (mkSt (s_next s2) (s_nodes s2) (s_edges s2) (s_pend s2) (s_tees s2)
                       ((c, n) :: s_sinks s2))
        end
    end.

  Fixpoint emit_roots (f : flow) (s : st) : option st :=
    match f with
    | [] => Some s
    | r :: f' => match emit_root r s with None => None | Some s' => emit_roots f' s' end
    end.

  (* FlatGraphBuilder::finalize_connect_operator_links: a link from `cycle_c` becomes an edge
     from the operator that variable names; None = a forward reference that was never
     completed (the typed API panics when such a handle is dropped) *)
  Fixpoint resolve (sinks : list (N * N)) (ps : list pedge) : option (list edge) :=
    match ps with
    | [] => Some []
    | p :: r =>
        match assoc_n (p_cyc p) sinks, resolve sinks r with
        | Some n, Some es => Some (mkEdge n (p_dst p) (p_port p) (p_tick p) :: es)
        | _, _ => None
        end
    end.

  Record graph := mkGraph { g_nodes : list gnode; g_edges : list edge }.

  Definition emit_flow (f : flow) : option graph :=
    match emit_roots f st0 with
    | None => None
    | Some s =>
        match resolve (s_sinks s) (s_pend s) with
        | None => None
        | Some es => Some (mkGraph (rev (s_nodes s)) (es ++ s_edges s))
        end
    end.
End Emit.

(* ------------------------------------------------------------------ graph predicates *)
Definition same_tick (g : graph) : list edge := filter (fun e => negb (e_tick e)) (g_edges g).

(* reachability through same-tick edges (at least one edge) *)
Inductive reach (es : list edge) : N -> N -> Prop :=
| reach_one : forall e, In e es -> reach es (e_src e) (e_dst e)
| reach_step : forall e w, In e es -> reach es (e_dst e) w -> reach es (e_src e) w.

(* the acceptance criterion of dfir_lang's partition_graph on graphs without handoff
   references and loops (find_subgraph_unionfind: the topological sort over all_preds =
   non-tick pipe edges succeeds; otherwise "Cyclical dataflow within a tick"); engine
   Partition (C19) models the partitioner itself *)
Definition partition_accepts (g : graph) : Prop := forall v, ~ reach (same_tick g) v v.

Definition lab (ns : list gnode) (n : N) : N :=
  match find (fun x => N.eqb (n_id x) n) ns with Some x => n_lvl x | None => 0 end.

Definition indeg (es : list edge) (n : N) : N :=
  N.of_nat (List.length (filter (fun e => N.eqb (e_dst e) n) es)).
Definition outdeg (es : list edge) (n : N) : N :=
  N.of_nat (List.length (filter (fun e => N.eqb (e_src e) n) es)).

Definition node_arity_ok (T : optable) (g : graph) (x : gnode) : bool :=
  match find_row T (n_op x) with
  | None => false
  | Some r => in_range (r_inn r) (indeg (g_edges g) (n_id x))
              && in_range (r_out r) (outdeg (g_edges g) (n_id x))
  end.
Definition arities_ok (T : optable) (g : graph) : bool := forallb (node_arity_ok T g) (g_nodes g).
Definition node_in_arity_ok (T : optable) (g : graph) (x : gnode) : bool :=
  match find_row T (n_op x) with
  | None => false
  | Some r => in_range (r_inn r) (indeg (g_edges g) (n_id x))
  end.

(* a claimed same-tick cycle v0 -> v1 -> ... -> v0 really is one *)
Fixpoint has_edge (es : list edge) (a b : N) : bool :=
  match es with
  | [] => false
  | e :: r => (N.eqb (e_src e) a && N.eqb (e_dst e) b && negb (e_tick e)) || has_edge r a b
  end.
Fixpoint is_path_b (es : list edge) (a : N) (p : list N) : bool :=
  match p with
  | [] => true
  | b :: r => has_edge es a b && is_path_b es b r
  end.
Definition is_cycle_b (g : graph) (cyc : list N) : bool :=
  match cyc with
  | [] => false
  | v :: r => is_path_b (g_edges g) v (r ++ [v])
  end.

(* ------------------------------------------------------------------ correspondence terms *)
Definition edge_key (e : edge) : N * N * string := (e_src e, e_dst e, e_port e).
Definition key_eqb (a b : N * N * string) : bool :=
  N.eqb (fst (fst a)) (fst (fst b)) && N.eqb (snd (fst a)) (snd (fst b)) && String.eqb (snd a) (snd b).
Fixpoint remove_key (k : N * N * string) (l : list (N * N * string)) : option (list (N * N * string)) :=
  match l with
  | [] => None
  | x :: r => if key_eqb x k then Some r
              else match remove_key k r with Some r' => Some (x :: r') | None => None end
  end.
Fixpoint multiset_eqb (a b : list (N * N * string)) : bool :=
  match a with
  | [] => match b with [] => true | _ => false end
  | x :: r => match remove_key x b with Some b' => multiset_eqb r b' | None => false end
  end.
Fixpoint strs_eqb (a b : list string) : bool :=
  match a, b with
  | [], [] => true
  | x :: a', y :: b' => String.eqb x y && strs_eqb a' b'
  | _, _ => false
  end.

(* implementation side of one flow: operator names in node order, edges (src, dst, input
   port) with the delay flag the real table gave, partition_graph's verdict, whether the
   emitter panicked *)
Record impl := mkImpl {
  i_nodes : list string;
  i_edges : list (N * N * string * bool);
  i_partition_ok : bool;
  i_panicked : bool;
  i_compiled : bool
}.

Definition graph_matches (g : graph) (im : impl) : bool :=
  strs_eqb (map n_op (g_nodes g)) (i_nodes im)
  && multiset_eqb (map edge_key (g_edges g)) (map (fun x => fst x) (i_edges im))
  && multiset_eqb (map edge_key (same_tick g))
       (map (fun x => fst x) (filter (fun x => negb (snd x)) (i_edges im))).

(* verdict code of one flow (tools/vlib.py): bit 0 = model and implementation differ,
   bit 1 = C41 is false of the implementation on this (well-typed) flow.
   rkl: the ranking found by tools/hydrob.py (a witness, checked here by `guarded`);
   cyc: a same-tick cycle of the emitted graph when there is no ranking *)
Definition rk_of (rkl : list (N * N)) (c : N) : N :=
  match assoc_n c rkl with Some r => r | None => 0 end.

Definition c41_verdict (T : optable) (f : flow) (rkl : list (N * N)) (cyc : list N) (im : impl) : N :=
  let rk := rk_of rkl in
  let prop_bad := negb (i_partition_ok im && negb (i_panicked im) && i_compiled im) in
  let differ :=
    match emit_flow T rk f with
    | None => negb (i_panicked im)                      (* model: the emitter panics *)
    | Some g =>
        i_panicked im
        || negb (graph_matches g im)
        || negb (arities_ok T g)
        || (if guarded rk f then negb (i_partition_ok im)      (* theorem: accepted *)
            else negb (is_cycle_b g cyc) || i_partition_ok im) (* exhibited cycle: rejected *)
    end in
  (if differ then 1 else 0) + (if prop_bad then 2 else 0).

(* tools/vlib.py coq_eval: indices and values of the non-zero verdict codes *)
Fixpoint bad_from (n : N) (l : list N) : list (N * N) :=
  match l with
  | [] => []
  | v :: r => if N.eqb v 0 then bad_from (n + 1) r else (n, v) :: bad_from (n + 1) r
  end.
Definition bad (l : list N) : list (N * N) := bad_from 0 l.
