(* HydroB engine: an atomic region with an atomic read path (location/tick.rs Atomic,
   Stream::atomic / end_atomic, `use::atomic` = snapshot_atomic / batch_atomic,
   compile/ir unify_atomic_ticks).  Definitions only.

   After `unify_atomic_ticks` the region's writes and every slice that takes an atomic
   snapshot of the region's state run in ONE tick.  In a tick:
     - a batch of the pending writes enters the region (production: whatever arrived; simulator:
       SimBuilder::begin_atomic's StreamHook decides a prefix),
     - the state (a fold over all writes that entered so far) is updated with that batch,
     - `end_atomic` releases the acknowledgements of exactly that batch (same tick),
     - a batch of the pending reads is taken (batch hook) and each read is answered from the
       atomic snapshot = the state AFTER this tick's writes (batch on an Atomic input has no
       hook: ProdDfirBuilder::batch / SimBuilder::batch `if let LocationId::Atomic(_)` are
       the identity).
   The state is kept as the list of writes applied so far (any fold is a function of it). *)
From Coq Require Import List NArith Bool Arith.
From HV Require Import HydroB.ModelSlice.
Import ListNotations.

Section Atomic.
  Variables W R : Type.

  Record astate := mkA { a_wq : list W; a_rq : list R; a_applied : list W }.

  (* one tick: arrivals, then the two release decisions (force flag, count) *)
  Record atick := mkTick {
    t_warr : list W; t_rarr : list R;
    t_wforce : bool; t_wcount : nat; t_rforce : bool; t_rcount : nat
  }.

  (* observation of a tick: acknowledgements, read responses (request, snapshot) *)
  Definition aobs := (list W * list (R * list W))%type.

  Definition astep (s : astate) (t : atick) : aobs * astate :=
    let '(wb, wq') := stream_step W (a_wq s) (t_warr t) (t_wforce t) (t_wcount t) in
    let '(rb, rq') := stream_step R (a_rq s) (t_rarr t) (t_rforce t) (t_rcount t) in
    let applied' := a_applied s ++ wb in
    ((wb, map (fun r => (r, applied')) rb), mkA wq' rq' applied').

  Fixpoint run_atomic (s : astate) (script : list atick) : list aobs :=
    match script with
    | [] => []
    | t :: r => let '(o, s') := astep s t in o :: run_atomic s' r
    end.

  (* the same flow WITHOUT atomicity: the read path takes an ordinary snapshot, i.e. a
     snapshot hook that may re-release an older state (`stale` ticks back, clamped) *)
  Fixpoint nth_back (hist : list (list W)) (k : nat) : list W :=   (* hist: newest first *)
    match hist, k with
    | [], _ => []
    | h :: _, 0 => h
    | h :: r, S k' => match r with [] => h | _ => nth_back r k' end
    end.

  Fixpoint run_nonatomic (s : astate) (hist : list (list W)) (script : list (atick * nat))
    : list aobs :=
    match script with
    | [] => []
    | (t, stale) :: r =>
        let '(wb, wq') := stream_step W (a_wq s) (t_warr t) (t_wforce t) (t_wcount t) in
        let '(rb, rq') := stream_step R (a_rq s) (t_rarr t) (t_rforce t) (t_rcount t) in
        let applied' := a_applied s ++ wb in
        let hist' := applied' :: hist in
        (wb, map (fun rq => (rq, nth_back hist' stale)) rb)
          :: run_nonatomic (mkA wq' rq' applied') hist' r
    end.
End Atomic.

(* ---------------------------------------------------------------- correspondence (production)
   corpus flow c34_counter: writes and reads are keys; state = count per key; a read of key k
   is answered (k, count k) when count k > 0 (join with the keyed singleton) *)
Local Open Scope N_scope.

Fixpoint countN (k : N) (l : list N) : N :=
  match l with [] => 0 | x :: r => (if N.eqb x k then 1 else 0) + countN k r end.

Definition prod_tick (w r : list N) : atick N N :=
  mkTick N N w r false (length w) false (length r).

Definition counter_obs (o : aobs N N) : list N * list (N * N) :=
  (fst o, flat_map (fun rs => let c := countN (fst rs) (snd rs) in
                              if N.eqb c 0 then [] else [(fst rs, c)]) (snd o)).

Definition prod_counter (script : list (list N * list N)) : list (list N * list (N * N)) :=
  map counter_obs (run_atomic N N (mkA N N [] [] [])
                     (map (fun wr => prod_tick (fst wr) (snd wr)) script)).

(* multiset equality of per-tick outputs (the flow's outputs are unordered) *)
Fixpoint removeN (x : N) (l : list N) : option (list N) :=
  match l with
  | [] => None
  | y :: r => if N.eqb x y then Some r
              else match removeN x r with Some r' => Some (y :: r') | None => None end
  end.
Fixpoint msN_eqb (a b : list N) : bool :=
  match a with
  | [] => match b with [] => true | _ => false end
  | x :: r => match removeN x b with Some b' => msN_eqb r b' | None => false end
  end.
Definition enc (p : N * N) : N := fst p * 1000000 + snd p.
Definition obs_eqb (a b : list N * list (N * N)) : bool :=
  msN_eqb (fst a) (fst b) && msN_eqb (map enc (snd a)) (map enc (snd b)).
Fixpoint obss_eqb (a b : list (list N * list (N * N))) : bool :=
  match a, b with
  | [], [] => true
  | x :: a', y :: b' => obs_eqb x y && obss_eqb a' b'
  | _, _ => false
  end.

(* executable form of C34 on observed outputs: every read response (k, c) of tick j counts at
   least the acknowledgements of k released in ticks <= j *)
Fixpoint raw_b (acked : list N) (obs : list (list N * list (N * N))) : bool :=
  match obs with
  | [] => true
  | (acks, reads) :: r =>
      let acked' := acked ++ acks in
      forallb (fun kc => countN (fst kc) acked' <=? snd kc) reads && raw_b acked' r
  end.
(* a read of an acknowledged key must be answered at all: the number of responses of tick j
   for keys acknowledged by then equals the number of such requests (production releases all) *)
Fixpoint answered_b (acked : list N) (script : list (list N * list N))
         (obs : list (list N * list (N * N))) : bool :=
  match script, obs with
  | [], [] => true
  | (w, r) :: s', (acks, reads) :: o' =>
      let acked' := acked ++ acks in
      Nat.eqb (length (filter (fun k => negb (N.eqb (countN k acked') 0)) r))
              (length (filter (fun kc => negb (N.eqb (countN (fst kc) acked') 0)) reads))
      && answered_b acked' s' o'
  | _, _ => false
  end.

(* corpus flow c34_sum: the state is the sum of all writes (a Singleton in the atomic region),
   a read r is answered (r, sum after this tick's writes) *)
Definition sum_obs (o : aobs N N) : list N * list (N * N) :=
  (fst o, map (fun rs => (fst rs, fold_right N.add 0 (snd rs))) (snd o)).
Definition prod_sum (script : list (list N * list N)) : list (list N * list (N * N)) :=
  map sum_obs (run_atomic N N (mkA N N [] [] [])
                 (map (fun wr => prod_tick (fst wr) (snd wr)) script)).
(* read-after-write on observed outputs: every response of tick j carries at least the sum of the
   acknowledgements released in ticks <= j (writes are non-negative) *)
Fixpoint raw_sum_b (acked : N) (obs : list (list N * list (N * N))) : bool :=
  match obs with
  | [] => true
  | (acks, reads) :: r =>
      let acked' := acked + fold_right N.add 0 acks in
      forallb (fun rs => acked' <=? snd rs) reads && raw_sum_b acked' r
  end.
Definition c34_sum_verdict (script : list (list N * list N)) (impl : list (list N * list (N * N))) : N :=
  v_of (negb (obss_eqb (prod_sum script) impl))
       (negb (raw_sum_b 0 impl
              && Nat.eqb (length (concat (map snd script))) (length (concat (map snd impl))))).

Definition c34_verdict (script : list (list N * list N)) (impl : list (list N * list (N * N))) : N :=
  v_of (negb (obss_eqb (prod_counter script) impl))
       (negb (raw_b [] impl && answered_b [] script impl)).
