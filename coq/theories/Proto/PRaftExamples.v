(* E10 Proto -- Raft: non-vacuity.  A concrete execution of the 3-member network in which member 0
   wins term 1, appends a client request, replicates it and commits it, so the hypotheses of
   the C40 theorems (reachable states, leaders, committed entries) are satisfiable. *)
From Coq Require Import Lia.
From HV Require Import Proto.RaftNet.

Ltac one_in := let f := fresh in let r := fresh in let H := fresh in
  intros f r H; cbn in H; repeat (destruct H as [H|H]; [inversion H; subst; cbn; tauto|]); contradiction.

Lemma gsteps_cons : forall n g g' g'', gstep n g g' -> gsteps n g' g'' -> gsteps n g g''.
Proof.
  intros n g g' g'' H1 H2. induction H2.
  - eapply gs_step; [apply gs_refl|exact H1].
  - eapply gs_step; [apply IHgsteps; exact H1|eassumption].
Qed.

Ltac do_step m el hb reqs msgs :=
  eapply gsteps_cons; [eapply (GStep 3 _ m el hb reqs msgs); [lia|reflexivity|one_in|lazy; reflexivity]|].

Definition ex_entry : entry := mkE 7 1 1.

Example ex_run : exists g, reachable 3 g /\
  leader_in (g_st g 0) 1 /\ committed_prefix (g_st g 0) = [ex_entry] /\
  committed_prefix (g_st g 1) = [ex_entry] /\ term (g_st g 2) = 0.
Proof.
  eexists. split.
  - unfold reachable.
    do_step 0 true false (@nil N) (@nil (N * rpc)).
    do_step 1 false false (@nil N) [(0, RV 1 0 0)].
    do_step 0 false true [7] [(1, RVR 1)].
    do_step 1 false false (@nil N) [(0, AE 1 0 0 0 [ex_entry] 0)].
    do_step 0 false true (@nil N) [(1, AER 1 true 1)].
    do_step 1 false false (@nil N) [(0, AE 1 0 1 1 [] 1)].
    apply gs_refl.
  - lazy. repeat split; reflexivity.
Qed.

(* the executable safety predicates are not trivially true: they reject a forked pair *)
Example ex_sms_rejects :
  sms_pair_b (mkS 1 None Follower [] false None [mkE 7 1 1] 1 0 [] [])
             (mkS 2 None Follower [] false None [mkE 8 2 1] 1 0 [] []) = false.
Proof. reflexivity. Qed.

Example ex_log_matching_rejects :
  log_matching_b [mkE 7 1 1; mkE 8 1 2] [mkE 9 1 1; mkE 8 1 2] = false.
Proof. reflexivity. Qed.
