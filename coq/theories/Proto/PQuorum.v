(* E10 Proto -- proofs about the quorum helpers: for every response sequence with at most `max`
   responses per key and EVERY batching, a key is reported in exactly the batch in which its
   `min`-th success arrives, never otherwise; errors pass through 1:1. *)
From Coq Require Import Lia.
From HV Require Import Proto.QuorumModel.

Ltac b2p :=
  repeat match goal with
  | H : (_ <=? _) = true |- _ => apply Nat.leb_le in H
  | H : (_ <=? _) = false |- _ => apply Nat.leb_gt in H
  | H : (_ <? _) = true |- _ => apply Nat.ltb_lt in H
  | H : (_ <? _) = false |- _ => apply Nat.ltb_ge in H
  | H : (_ =? _) = true |- _ => apply Nat.eqb_eq in H
  | H : (_ =? _) = false |- _ => apply Nat.eqb_neq in H
  end.

(* ------------------------------------------------------------------ counting *)
Lemma succ_app : forall k a b, succ k (a ++ b) = succ k a + succ k b.
Proof. intros; unfold succ. rewrite filter_app, app_length; auto. Qed.

Lemma total_app : forall k a b, total k (a ++ b) = total k a + total k b.
Proof. intros; unfold total. rewrite filter_app, app_length; auto. Qed.

Lemma succ_le_total : forall k l, succ k l <= total k l.
Proof.
  intros k l; unfold succ, total. induction l as [|r t IH]; cbn; auto.
  destruct (key_is k r); cbn; [destruct (is_ok r); cbn; lia|auto].
Qed.

Lemma key_is_eq : forall k r, key_is k r = true -> fst r = k.
Proof. intros k r H; unfold key_is in H. apply N.eqb_eq; auto. Qed.

Lemma total_filter_key : forall (p : N -> bool) k l,
  total k (filter (fun r => p (fst r)) l) = if p k then total k l else 0.
Proof.
  intros p k l; unfold total. induction l as [|r t IH]; cbn; [destruct (p k); auto|].
  destruct (key_is k r) eqn:E.
  - rewrite (key_is_eq _ _ E). destruct (p k) eqn:Ep; cbn; [rewrite E; cbn; rewrite IH; auto|auto].
  - destruct (p (fst r)); cbn; [rewrite E|]; auto.
Qed.

Lemma succ_filter_key : forall (p : N -> bool) k l,
  succ k (filter (fun r => p (fst r)) l) = if p k then succ k l else 0.
Proof.
  intros p k l; unfold succ. induction l as [|r t IH]; cbn; [destruct (p k); auto|].
  destruct (key_is k r) eqn:E.
  - rewrite (key_is_eq _ _ E). destruct (p k) eqn:Ep; cbn; [rewrite E; cbn|].
    + destruct (is_ok r); cbn; rewrite IH; auto.
    + auto.
  - cbn. destruct (p (fst r)); cbn; [rewrite E; cbn|]; auto.
Qed.

Lemma memN_In : forall x l, memN x l = true <-> In x l.
Proof.
  induction l as [|y r IH]; cbn; [split; [discriminate|tauto]|].
  rewrite orb_true_iff, IH, N.eqb_eq. split; intros [H|H]; auto.
Qed.

Lemma memN_false : forall x l, memN x l = false <-> ~ In x l.
Proof. intros x l. rewrite <- memN_In. destruct (memN x l); split; congruence. Qed.

Lemma total_pos_In : forall k l, 0 < total k l <-> exists r, In r l /\ fst r = k.
Proof.
  intros k l; unfold total. induction l as [|r t IH]; cbn; [split; [lia|intros (r & [] & _)]|].
  destruct (key_is k r) eqn:E; cbn.
  - split; [intros _; exists r; split; auto; apply key_is_eq; auto|lia].
  - rewrite IH. split; intros (r' & H1 & H2); exists r'; split; auto.
    destruct H1 as [->|H1]; auto. unfold key_is in E. apply N.eqb_neq in E. contradiction.
Qed.

Lemma keys_of_In : forall k l, In k (keys_of l) <-> 0 < total k l.
Proof.
  intros k l. rewrite total_pos_In. induction l as [|r t IH]; cbn; [split; [tauto|intros (r & [] & _)]|].
  destruct (memN (fst r) (keys_of t)) eqn:E.
  - rewrite IH. split; intros (r' & H1 & H2); [exists r'; auto|].
    destruct H1 as [->|H1]; [|exists r'; auto]. apply memN_In in E. subst k. apply IH in E. exact E.
  - cbn. rewrite IH. split.
    + intros [H|(r' & H1 & H2)]; [exists r; auto|exists r'; auto].
    + intros (r' & [->|H1] & H2); [left; auto|right; exists r'; auto].
Qed.

Lemma keys_of_NoDup : forall l, NoDup (keys_of l).
Proof.
  induction l as [|r t IH]; cbn; [constructor|].
  destruct (memN (fst r) (keys_of t)) eqn:E; auto. constructor; auto. apply memN_false; auto.
Qed.

Lemma filter_filter_ext : forall A (f g h : A -> bool) l,
  (forall x, In x l -> f x && g x = h x) -> filter g (filter f l) = filter h l.
Proof.
  induction l as [|a t IH]; intro H; cbn; auto.
  pose proof (H a (or_introl eq_refl)) as Ha.
  assert (filter g (filter f t) = filter h t) as IH' by (apply IH; intros; apply H; right; auto).
  destruct (f a); cbn in *; [destruct (g a); cbn in *; rewrite <- Ha, IH'; auto|rewrite <- Ha; auto].
Qed.

(* ------------------------------------------------------------------ the carried state *)

(* a key is still "open" after prefix P: its responses are being retained *)
Definition open (mn mx : nat) (P : list resp) (k : N) : bool :=
  if mx =? mn then succ k P <? mn else total k P <? mx.

Definition QInv (mn mx : nat) (st : qstate) (P : list resp) : Prop :=
  not_all st = filter (fun r => open mn mx P (fst r)) P /\
  (forall k, In k (mbm st) <-> (mx <> mn /\ mn <= succ k P /\ total k P < mx)).

Section Step.
  Variables (mn mx : nat) (P b : list resp) (st : qstate).
  Hypothesis Hmn : 1 <= mn.
  Hypothesis Hmx : mn <= mx.
  Hypothesis Hpre : forall k, total k (P ++ b) <= mx.
  Hypothesis HI : QInv mn mx st P.

  Let cur := not_all st ++ b.

  Lemma closed_no_more : forall k, open mn mx P k = false -> total k b = 0.
  Proof.
    intros k H. pose proof (Hpre k) as Hk. rewrite total_app in Hk. pose proof (succ_le_total k P).
    unfold open in H. destruct (mx =? mn) eqn:E; b2p; lia.
  Qed.

  Lemma cur_total : forall k, total k cur = if open mn mx P k then total k (P ++ b) else 0.
  Proof.
    intro k. unfold cur. destruct HI as [-> _]. rewrite total_app, (total_filter_key (open mn mx P)), total_app.
    destruct (open mn mx P k) eqn:E; auto. rewrite (closed_no_more _ E); auto.
  Qed.

  Lemma cur_succ : forall k, succ k cur = if open mn mx P k then succ k (P ++ b) else 0.
  Proof.
    intro k. unfold cur. destruct HI as [-> _]. rewrite succ_app, (succ_filter_key (open mn mx P)), succ_app.
    destruct (open mn mx P k) eqn:E; auto.
    pose proof (closed_no_more _ E). pose proof (succ_le_total k b). lia.
  Qed.

  Lemma reached_In : forall k, In k (reached mn cur) <-> mn <= succ k cur.
  Proof.
    intro k. unfold reached. rewrite filter_In, keys_of_In, Nat.leb_le.
    pose proof (succ_le_total k cur). split; [tauto|intro; split; auto; lia].
  Qed.

  Lemma recv_all_In : forall k, In k (recv_all mx cur) <-> mx <= total k cur.
  Proof.
    intro k. unfold recv_all. rewrite filter_In, keys_of_In, Nat.leb_le. split; [tauto|intro; split; auto; lia].
  Qed.

  Let open' := open mn mx (P ++ b).

  Lemma closed_stays : forall k, open mn mx P k = false -> open' k = false.
  Proof.
    intros k H. unfold open', open in *. rewrite succ_app, total_app. destruct (mx =? mn); b2p.
    - apply Nat.ltb_ge. lia.
    - apply Nat.ltb_ge. lia.
  Qed.

  (* the keys whose responses are dropped this tick are exactly those that stop being open *)
  Lemma dropped_iff : forall k, open mn mx P k = true ->
    memN k (if mx =? mn then reached mn cur else recv_all mx cur) = negb (open' k).
  Proof.
    intros k H. unfold open', open. destruct (mx =? mn) eqn:E.
    - destruct (memN k (reached mn cur)) eqn:M.
      + apply memN_In, reached_In in M. rewrite cur_succ, H in M. symmetry. apply negb_true_iff, Nat.ltb_ge; auto.
      + apply memN_false in M. rewrite reached_In, cur_succ, H in M. symmetry. apply negb_false_iff, Nat.ltb_lt. lia.
    - destruct (memN k (recv_all mx cur)) eqn:M.
      + apply memN_In, recv_all_In in M. rewrite cur_total, H in M. symmetry. apply negb_true_iff, Nat.ltb_ge; auto.
      + apply memN_false in M. rewrite recv_all_In, cur_total, H in M. symmetry. apply negb_false_iff, Nat.ltb_lt. lia.
  Qed.

  Lemma next_not_all :
    not_all (q_next mn mx st b) = filter (fun r => open' (fst r)) (P ++ b).
  Proof.
    assert (not_all (q_next mn mx st b) =
            anti fst cur (if mx =? mn then reached mn cur else recv_all mx cur)) as ->.
    { unfold q_next. fold cur. destruct (mx =? mn); auto. }
    unfold anti, cur. destruct HI as [HN _]. rewrite HN at 1. rewrite !filter_app. f_equal.
    - apply filter_filter_ext. intros r Hr. destruct (open mn mx P (fst r)) eqn:E; cbn.
      + fold cur. rewrite (dropped_iff _ E), negb_involutive; auto.
      + symmetry. apply closed_stays; auto.
    - apply filter_ext_in. intros r Hr.
      assert (open mn mx P (fst r) = true) as E.
      { destruct (open mn mx P (fst r)) eqn:E; auto. apply closed_no_more in E.
        assert (0 < total (fst r) b) by (apply total_pos_In; exists r; auto). lia. }
      fold cur. rewrite (dropped_iff _ E), negb_involutive; auto.
  Qed.

  Lemma next_mbm : forall k,
    In k (mbm (q_next mn mx st b)) <-> (mx <> mn /\ mn <= succ k (P ++ b) /\ total k (P ++ b) < mx).
  Proof.
    intro k. unfold q_next. fold cur. destruct (mx =? mn) eqn:E; cbn [mbm]; b2p.
    - destruct HI as [_ HM]. rewrite HM. split; intros (H & _); contradiction.
    - unfold anti. rewrite filter_In, reached_In, negb_true_iff, memN_false, recv_all_In, cur_succ, cur_total.
      destruct (open mn mx P k) eqn:O.
      + split; [intros (H1 & H2); repeat split; auto; lia|intros (_ & H1 & H2); split; auto; lia].
      + split; [intros (H1 & _); lia|].
        intros (_ & H1 & H2). exfalso. unfold open in O. apply Nat.eqb_neq in E. rewrite E in O. b2p.
        rewrite total_app in H2. lia.
  Qed.

  Theorem step_inv : QInv mn mx (q_next mn mx st b) (P ++ b).
  Proof. split; [apply next_not_all|apply next_mbm]. Qed.

  (* collect_quorum: reported this tick <-> the min-th success arrives in this batch *)
  Theorem cq_out_spec : forall k,
    In k (cq_out mn mx st b) <-> (mn <= succ k (P ++ b) /\ succ k P < mn).
  Proof.
    intro k. unfold cq_out. fold cur. destruct (mx =? mn) eqn:E.
    - rewrite reached_In, cur_succ. unfold open. rewrite E.
      destruct (succ k P <? mn) eqn:O; b2p; split; lia.
    - unfold anti. rewrite filter_In, reached_In, negb_true_iff, memN_false, cur_succ.
      destruct HI as [_ HM]. rewrite HM. unfold open. rewrite E. b2p.
      destruct (total k P <? mx) eqn:O; b2p.
      + split; [intros (H1 & H2); split; auto; lia|intros (H1 & H2); split; auto; lia].
      + split; [intros (H1 & _); lia|]. intros (H1 & H2). exfalso.
        pose proof (Hpre k) as Hk. rewrite total_app in Hk. rewrite succ_app in H1.
        pose proof (succ_le_total k b). lia.
  Qed.

  Theorem cq_out_NoDup : NoDup (cq_out mn mx st b).
  Proof.
    unfold cq_out. fold cur. destruct (mx =? mn); unfold anti, reached;
      repeat apply NoDup_filter; apply keys_of_NoDup.
  Qed.

  (* collect_quorum_with_response: what is reported this tick is every successful response
     received so far (in stream order) of exactly the keys whose min-th success arrives in this
     batch *)
  Definition just_reached (k : N) : bool := (succ k P <? mn) && (mn <=? succ k (P ++ b)).

  Lemma not_reached_In : forall k, In k (not_reached mn cur) <-> (0 < total k cur /\ succ k cur < mn).
  Proof. intro k. unfold not_reached. rewrite filter_In, keys_of_In, Nat.ltb_lt. tauto. Qed.

  Theorem cqr_out_spec :
    cqr_out mn mx st b = ok_vals (filter (fun r => just_reached (fst r)) (P ++ b)).
  Proof.
    assert (forall k, open mn mx P k = true ->
              negb (memN k (not_reached mn cur)) &&
              (if mx =? mn then true else negb (memN k (mbm st))) = just_reached k
              \/ total k cur = 0) as K.
    { intros k O. destruct (Nat.eq_dec (total k cur) 0) as [Z|NZ]; auto. left.
      unfold just_reached. destruct (memN k (not_reached mn cur)) eqn:M1.
      - apply memN_In, not_reached_In in M1. destruct M1 as [_ M1]. rewrite cur_succ, O in M1. cbn.
        symmetry. apply andb_false_iff. right. apply Nat.leb_gt; auto.
      - apply memN_false in M1. rewrite not_reached_In, cur_succ, O in M1. cbn.
        assert (mn <= succ k (P ++ b)) as R by lia.
        replace (mn <=? succ k (P ++ b)) with true by (symmetry; apply Nat.leb_le; auto). rewrite andb_true_r.
        unfold open in O. destruct (mx =? mn) eqn:E; auto.
        destruct HI as [_ HM]. b2p. destruct (memN k (mbm st)) eqn:M2; cbn.
        + apply memN_In, HM in M2. symmetry. apply Nat.ltb_ge. lia.
        + apply memN_false in M2. rewrite HM in M2. symmetry. apply Nat.ltb_lt. lia. }
    assert (forall k, open mn mx P k = false -> just_reached k = false) as K'.
    { intros k O. unfold just_reached. pose proof (closed_no_more _ O) as Z. pose proof (succ_le_total k b).
      rewrite succ_app. destruct (succ k P <? mn) eqn:A; cbn; auto. b2p. apply Nat.leb_gt. lia. }
    assert (cqr_out mn mx st b =
            ok_vals (filter (fun r => negb (memN (fst r) (not_reached mn cur)) &&
                                      (if mx =? mn then true else negb (memN (fst r) (mbm st)))) cur)) as ->.
    { unfold cqr_out. fold cur. destruct (mx =? mn); unfold anti.
      - f_equal. apply filter_ext. intro r. rewrite andb_true_r; auto.
      - f_equal. rewrite (filter_filter_ext _ _ _ (fun r => negb (memN (fst r) (not_reached mn cur)) &&
                                                         negb (memN (fst r) (mbm st)))); auto. }
    f_equal. unfold cur. destruct HI as [HN _]. rewrite HN at 1. rewrite !filter_app. f_equal.
    - apply filter_filter_ext. intros r Hr. fold cur. destruct (open mn mx P (fst r)) eqn:O; cbn.
      + destruct (K _ O) as [->|Z]; auto. exfalso. rewrite cur_total, O, total_app in Z.
        assert (0 < total (fst r) P) by (apply total_pos_In; exists r; auto). lia.
      + symmetry; apply K'; auto.
    - apply filter_ext_in. intros r Hr.
      assert (0 < total (fst r) b) as Hb by (apply total_pos_In; exists r; auto).
      assert (open mn mx P (fst r) = true) as O.
      { destruct (open mn mx P (fst r)) eqn:O; auto. apply closed_no_more in O. lia. }
      fold cur. destruct (K _ O) as [->|Z]; auto. exfalso. rewrite cur_total, O, total_app in Z. lia.
  Qed.
End Step.

(* ------------------------------------------------------------------ whole runs, all batchings *)

Lemma q_run_nth : forall O (out : nat -> nat -> qstate -> list resp -> O) mn mx bs st P j o,
  1 <= mn -> mn <= mx ->
  (forall k, total k (P ++ concat bs) <= mx) ->
  QInv mn mx st P ->
  nth_error (q_run out mn mx st bs) j = Some o ->
  exists st' b, nth_error bs j = Some b /\ QInv mn mx st' (P ++ concat (firstn j bs)) /\
                o = out mn mx st' b /\ (forall k, total k ((P ++ concat (firstn j bs)) ++ b) <= mx).
Proof.
  induction bs as [|b0 r IH]; intros st P j o Hmn Hmx Hpre HI H; cbn [q_run] in H.
  - destruct j; discriminate.
  - destruct j as [|j]; cbn [nth_error] in H.
    + inversion H; subst. exists st, b0. cbn [nth_error firstn concat]. rewrite app_nil_r.
      split; [reflexivity|]. split; [exact HI|]. split; [reflexivity|].
      intro k. specialize (Hpre k). cbn [concat] in Hpre. rewrite app_assoc, total_app in Hpre. lia.
    + assert (forall k, total k (P ++ b0) <= mx) as Hpre0.
      { intro k. specialize (Hpre k). cbn [concat] in Hpre. rewrite app_assoc, total_app in Hpre. lia. }
      destruct (IH (q_next mn mx st b0) (P ++ b0) j o Hmn Hmx) as (st' & b & N1 & N2 & N3 & N4); auto.
      * intro k. specialize (Hpre k). cbn [concat] in Hpre. rewrite <- app_assoc; auto.
      * apply step_inv; auto.
      * exists st', b. cbn [nth_error firstn concat]. rewrite app_assoc. auto.
Qed.

(* C39, collect_quorum: for every batching `bs` of a response sequence with at most max responses
   per key, the j-th tick reports exactly the keys whose min-th success lies in the j-th batch,
   each once *)
Theorem cq_correct : forall mn mx bs j o,
  1 <= mn -> mn <= mx ->
  (forall k, total k (concat bs) <= mx) ->
  nth_error (q_run cq_out mn mx q_init bs) j = Some o ->
  NoDup o /\
  forall k, In k o <-> (mn <= succ k (concat (firstn (S j) bs)) /\ succ k (concat (firstn j bs)) < mn).
Proof.
  intros mn mx bs j o Hmn Hmx Hpre H.
  destruct (q_run_nth _ cq_out mn mx bs q_init [] j o Hmn Hmx Hpre) as (st' & b & N1 & N2 & -> & N4); auto.
  { split; cbn; auto. intro k; split; [tauto|]. unfold succ; cbn. intros (_ & H0 & _). lia. }
  cbn [app] in *. split.
  - apply cq_out_NoDup.
  - intro k. rewrite (cq_out_spec mn mx (concat (firstn j bs)) b st' Hmn Hmx N4 N2 k).
    assert (concat (firstn (S j) bs) = concat (firstn j bs) ++ b) as ->; [|tauto].
    clear - N1. revert j N1. induction bs as [|b0 r IH]; intros j N1; [destruct j; discriminate|].
    destruct j as [|j]; cbn in *.
    + inversion N1; subst. rewrite app_nil_r; auto.
    + rewrite <- app_assoc. f_equal. apply (IH j N1).
Qed.

(* each key is reported at most once over the whole run ... *)
Lemma succ_prefix_mono : forall k bs i j, i <= j -> succ k (concat (firstn i bs)) <= succ k (concat (firstn j bs)).
Proof.
  intros k bs. induction bs as [|b r IH]; intros i j H; [destruct i, j; cbn; auto|].
  destruct i as [|i]; [cbn; lia|]. destruct j as [|j]; [lia|].
  cbn [firstn concat]. rewrite !succ_app. specialize (IH i j). lia.
Qed.

Corollary cq_once : forall mn mx bs j1 j2 o1 o2 k,
  1 <= mn -> mn <= mx -> (forall k, total k (concat bs) <= mx) ->
  nth_error (q_run cq_out mn mx q_init bs) j1 = Some o1 ->
  nth_error (q_run cq_out mn mx q_init bs) j2 = Some o2 ->
  In k o1 -> In k o2 -> j1 = j2.
Proof.
  intros mn mx bs j1 j2 o1 o2 k Hmn Hmx Hpre H1 H2 I1 I2.
  destruct (cq_correct _ _ _ _ _ Hmn Hmx Hpre H1) as [_ C1].
  destruct (cq_correct _ _ _ _ _ Hmn Hmx Hpre H2) as [_ C2].
  apply C1 in I1. apply C2 in I2.
  destruct (Nat.lt_trichotomy j1 j2) as [L|[E|L]]; auto; exfalso.
  - pose proof (succ_prefix_mono k bs (S j1) j2 ltac:(lia)). lia.
  - pose proof (succ_prefix_mono k bs (S j2) j1 ltac:(lia)). lia.
Qed.

Lemma q_run_length : forall O (out : nat -> nat -> qstate -> list resp -> O) mn mx bs st,
  length (q_run out mn mx st bs) = length bs.
Proof. induction bs; intros; cbn; auto. Qed.

(* ... and it IS reported iff it ever gets min successes (so the set of reported keys does not
   depend on the batching) *)
Corollary cq_reported_iff : forall mn mx bs k,
  1 <= mn -> mn <= mx -> (forall k, total k (concat bs) <= mx) ->
  (mn <= succ k (concat bs) <->
   exists j o, nth_error (q_run cq_out mn mx q_init bs) j = Some o /\ In k o).
Proof.
  intros mn mx bs k Hmn Hmx Hpre. split.
  - intro H.
    (* the first j at which the prefix count reaches mn *)
    assert (exists j, j < length bs /\ mn <= succ k (concat (firstn (S j) bs)) /\
                      succ k (concat (firstn j bs)) < mn) as (j & J1 & J2 & J3).
    { assert (forall n, n <= length bs -> mn <= succ k (concat (firstn n bs)) ->
                exists j, j < n /\ mn <= succ k (concat (firstn (S j) bs)) /\
                          succ k (concat (firstn j bs)) < mn) as G.
      { induction n as [|n IHn]; intros Hn Hs.
        - cbn in Hs. unfold succ in Hs; cbn in Hs. lia.
        - destruct (le_lt_dec mn (succ k (concat (firstn n bs)))) as [L|L].
          + destruct (IHn ltac:(lia) L) as (j & A & B & C). exists j; repeat split; auto.
          + exists n; repeat split; auto. }
      destruct (G (length bs) (le_n _)) as (j & A & B & C); [rewrite firstn_all; auto|].
      exists j; auto. }
    destruct (nth_error (q_run cq_out mn mx q_init bs) j) as [o|] eqn:E.
    + exists j, o. split; auto. apply (cq_correct _ _ _ _ _ Hmn Hmx Hpre E); auto.
    + apply nth_error_None in E. rewrite q_run_length in E. lia.
  - intros (j & o & E & I). apply (cq_correct _ _ _ _ _ Hmn Hmx Hpre E) in I. destruct I as [I _].
    pose proof (succ_prefix_mono k bs (S j) (length bs)) as M.
    assert (S j <= length bs) as L.
    { assert (j < length bs); [|lia]. rewrite <- (q_run_length _ cq_out mn mx bs q_init).
      apply nth_error_Some. congruence. }
    specialize (M L). rewrite firstn_all in M. lia.
Qed.

(* errors pass through 1:1, whatever the batching *)
Theorem errs_passthrough : forall bs, concat (map q_errs bs) = err_vals (concat bs).
Proof.
  induction bs as [|b r IH]; cbn; auto. rewrite IH. unfold q_errs, err_vals. rewrite flat_map_app; auto.
Qed.

(* collect_quorum_with_response, every min <= max: the j-th tick reports every success received so
   far of exactly the keys whose min-th success lies in the j-th batch *)
Theorem cqr_correct : forall mn mx bs j o,
  1 <= mn -> mn <= mx ->
  (forall k, total k (concat bs) <= mx) ->
  nth_error (q_run cqr_out mn mx q_init bs) j = Some o ->
  exists b, nth_error bs j = Some b /\
  o = ok_vals (filter (fun r => just_reached mn (concat (firstn j bs)) b (fst r)) (concat (firstn j bs) ++ b)).
Proof.
  intros mn mx bs j o Hmn Hmx Hpre H.
  destruct (q_run_nth _ cqr_out mn mx bs q_init [] j o Hmn Hmx Hpre) as (st' & b & N1 & N2 & -> & N4); auto.
  { split; cbn; auto. intro k; split; [tauto|]. unfold succ; cbn. intros (_ & H0 & _). lia. }
  cbn [app] in *. exists b. split; auto.
  apply (cqr_out_spec mn mx (concat (firstn j bs)) b st' Hmn Hmx N4 N2).
Qed.

Lemma filter_key_ok_vals : forall k l,
  filter (fun kv : N * N => N.eqb (fst kv) k) (ok_vals l) = ok_vals (filter (key_is k) l).
Proof.
  intros k l; unfold ok_vals. induction l as [|r t IH]; cbn; auto.
  unfold key_is at 1. destruct (snd r) eqn:S; cbn.
  - destruct (N.eqb (fst r) k); cbn; rewrite ?S; cbn; rewrite IH; auto.
  - destruct (N.eqb (fst r) k); cbn; rewrite ?S; cbn; rewrite IH; auto.
Qed.

(* when min = max, a key that just reached its quorum has received ALL its responses, so the values
   reported for it are all its successes in the whole sequence: independent of the batching *)
Theorem cqr_min_eq_max_batching_independent : forall mn bs j o k,
  1 <= mn ->
  (forall k, total k (concat bs) <= mn) ->
  nth_error (q_run cqr_out mn mn q_init bs) j = Some o ->
  In k (map fst o) ->
  filter (fun kv => N.eqb (fst kv) k) o = ok_vals (filter (key_is k) (concat bs)).
Proof.
  intros mn bs j o k Hmn Hpre H Hin.
  destruct (cqr_correct mn mn bs j o Hmn (le_n _) Hpre H) as (b & Hb & ->).
  set (P := concat (firstn j bs)) in *.
  (* concat bs = P ++ b ++ rest *)
  assert (exists rest, concat bs = (P ++ b) ++ rest) as (rest & Hc).
  { subst P. clear - Hb. revert j Hb. induction bs as [|b0 r IH]; intros j Hb; [destruct j; discriminate|].
    destruct j as [|j]; cbn in *.
    - inversion Hb; subst. exists (concat r); auto.
    - destruct (IH j Hb) as (rest & ->). exists rest. rewrite !app_assoc; auto. }
  (* k just reached: it has mn successes within P ++ b, hence nothing of k in rest *)
  assert (just_reached mn P b k = true) as JR.
  { apply in_map_iff in Hin. destruct Hin as ([k' v] & Hk & Hin). cbn in Hk; subst k'.
    unfold ok_vals in Hin. apply in_flat_map in Hin. destruct Hin as (r & Hr & Hv).
    apply filter_In in Hr. destruct Hr as [_ Hr]. destruct (snd r); cbn in Hv; [|contradiction].
    destruct Hv as [Hv|[]]. inversion Hv; subst. exact Hr. }
  assert (total k rest = 0) as Z.
  { pose proof (Hpre k) as Hk. rewrite Hc, total_app in Hk. pose proof (succ_le_total k (P ++ b)).
    unfold just_reached in JR. apply andb_prop in JR. destruct JR as [_ JR]. b2p. lia. }
  rewrite Hc. rewrite (filter_app (key_is k) (P ++ b) rest).
  assert (filter (key_is k) rest = []) as ->.
  { unfold total in Z. destruct (filter (key_is k) rest); [auto|cbn in Z; lia]. }
  rewrite app_nil_r. rewrite filter_key_ok_vals. f_equal.
  rewrite (filter_filter_ext _ _ _ (key_is k)); auto.
  intros r _. destruct (key_is k r) eqn:E; [|apply andb_false_r].
  rewrite (key_is_eq _ _ E), JR; auto.
Qed.

(* ------------------------------------------------------------------ the known finding *)

(* collect_quorum_with_response with min < max is NOT batching independent: a success that
   arrives after the quorum but in the same batch is reported, in a later batch it is not *)
Definition cqr_witness : list resp := [(1%N, ROk 10%N); (1%N, ROk 11%N); (1%N, ROk 12%N)].

Theorem cqr_batching_dependent_refuted :
  exists (mn mx : nat) (s : list resp) (bs1 bs2 : list (list resp)),
    1 <= mn /\ mn < mx /\ (forall k, total k s <= mx) /\
    concat bs1 = s /\ concat bs2 = s /\
    concat (q_run cqr_out mn mx q_init bs1) <> concat (q_run cqr_out mn mx q_init bs2) /\
    length (concat (q_run cqr_out mn mx q_init bs1)) <> length (concat (q_run cqr_out mn mx q_init bs2)).
Proof.
  exists 2, 3, cqr_witness, [cqr_witness], [firstn 2 cqr_witness; skipn 2 cqr_witness].
  repeat split; try lia; try reflexivity.
  - intro k. destruct k as [|[p|p|]]; cbv; lia.
  - cbv. discriminate.
  - cbv. lia.
Qed.

(* ------------------------------------------------------------------ join_responses *)

Definition keys_unique (l : list (N * N)) : Prop := NoDup (map fst l).

(* under the documented usage (each key at most once in the metadata and in the responses, the
   metadata of a key not later than its response) a response tick joins each response with its
   metadata exactly once *)
Lemma j_step_out : forall st meta resps k m v,
  In (k, (m, v)) (snd (j_step st meta resps)) <-> (In (k, m) (remaining st ++ meta) /\ In (k, v) resps).
Proof.
  intros st meta resps k m v. unfold j_step; cbn [snd]. rewrite in_flat_map. split.
  - intros ([k' m'] & H1 & H2). apply in_map_iff in H2. destruct H2 as ([k2 v2] & E & H2).
    apply filter_In in H2. destruct H2 as [H2 H3]. cbn in *. apply N.eqb_eq in H3. inversion E; subst. auto.
  - intros [H1 H2]. exists (k, m). split; auto. apply in_map_iff. exists (k, v). split; auto.
    apply filter_In. split; auto. cbn. apply N.eqb_refl.
Qed.

Lemma j_step_remaining : forall st meta resps k m,
  In (k, m) (remaining (fst (j_step st meta resps))) <->
  (In (k, m) (remaining st ++ meta) /\ ~ In k (map fst resps)).
Proof.
  intros st meta resps k m. unfold j_step; cbn [fst remaining]. unfold anti. rewrite filter_In. cbn [fst].
  rewrite negb_true_iff, memN_false. tauto.
Qed.

Definition JInv (st : jstate) (Ms Rs : list (N * N)) : Prop :=
  forall k m, In (k, m) (remaining st) <-> (In (k, m) Ms /\ ~ In k (map fst Rs)).

(* documented usage: the metadata of a key is generated in the same or a previous tick than its
   response, i.e. no metadata key of tick j was already responded to before tick j *)
Fixpoint meta_not_late (Rs : list (N * N)) (ticks : list (list (N * N) * list (N * N))) : Prop :=
  match ticks with
  | [] => True
  | (mt, rs) :: t => (forall k, In k (map fst mt) -> ~ In k (map fst Rs)) /\ meta_not_late (Rs ++ rs) t
  end.

Lemma j_step_inv : forall st Ms Rs mt rs, JInv st Ms Rs ->
  (forall k, In k (map fst mt) -> ~ In k (map fst Rs)) ->
  JInv (fst (j_step st mt rs)) (Ms ++ mt) (Rs ++ rs).
Proof.
  intros st Ms Rs mt rs HI Hl k m. rewrite j_step_remaining, !in_app_iff, map_app, in_app_iff, (HI k m).
  split.
  - intros ([(H1 & H2)|H1] & H3).
    + split; auto. intros [H|H]; auto.
    + split; auto. intros [H|H]; auto. apply (Hl k); auto. apply in_map_iff. exists (k, m); auto.
  - intros ([H1|H1] & H2).
    + split; [left; split; auto|auto].
    + split; [right; auto|auto].
Qed.

Lemma j_run_nth : forall ticks st Ms Rs j out, JInv st Ms Rs -> meta_not_late Rs ticks ->
  nth_error (j_run st ticks) j = Some out ->
  exists mt rs, nth_error ticks j = Some (mt, rs) /\
    forall k m v, In (k, (m, v)) out <->
      (In (k, v) rs /\ In (k, m) (Ms ++ concat (map fst (firstn j ticks)) ++ mt) /\
       ~ In k (map fst (Rs ++ concat (map snd (firstn j ticks))))).
Proof.
  induction ticks as [|[mt0 rs0] t IH]; intros st Ms Rs j out HI HL H; cbn [j_run] in H.
  - destruct j; discriminate.
  - destruct (j_step st mt0 rs0) as [st' o] eqn:E. destruct HL as [HL0 HL].
    destruct j as [|j]; cbn [nth_error] in H.
    + inversion H; subst out. exists mt0, rs0. split; auto. intros k m v.
      replace o with (snd (j_step st mt0 rs0)) by (rewrite E; auto).
      rewrite j_step_out. cbn [firstn map concat app]. rewrite app_nil_r, !in_app_iff, (HI k m). split.
      * intros ([(H1 & H2)|H1] & H3); repeat split; auto.
        apply HL0. apply in_map_iff. exists (k, m); auto.
      * intros (H1 & [H2|H2] & H3); split; auto.
    + assert (JInv st' (Ms ++ mt0) (Rs ++ rs0)) as HI'.
      { replace st' with (fst (j_step st mt0 rs0)) by (rewrite E; auto). apply j_step_inv; auto. }
      destruct (IH st' (Ms ++ mt0) (Rs ++ rs0) j out HI' HL H) as (mt & rs & N1 & N2).
      exists mt, rs. split; auto. intros k m v. rewrite (N2 k m v).
      cbn [firstn map concat fst snd]. rewrite <- !app_assoc. tauto.
Qed.

(* join_responses: in every tick, a response is joined with a metadata entry iff that entry was
   generated in the same or an earlier tick and no earlier response used its key *)
Theorem jr_correct : forall ticks j out,
  meta_not_late [] ticks ->
  nth_error (j_run (mkJ []) ticks) j = Some out ->
  exists mt rs, nth_error ticks j = Some (mt, rs) /\
    forall k m v, In (k, (m, v)) out <->
      (In (k, v) rs /\ In (k, m) (concat (map fst (firstn j ticks)) ++ mt) /\
       ~ In k (map fst (concat (map snd (firstn j ticks))))).
Proof.
  intros ticks j out HL H.
  destruct (j_run_nth ticks (mkJ []) [] [] j out) as (mt & rs & N1 & N2); auto.
  { intros k m; cbn. tauto. }
  exists mt, rs. split; auto.
Qed.
