(* E10 Proto -- quorum helpers of hydro_std (quorum.rs, request_response.rs) as per-batch step
   functions over (carried state, batch), written as the Hydro code is written:
   `current = not_all.chain(new_inputs)`, `into_keyed().fold` counting successes/errors per key,
   `filter` on the counts, `anti_join` / `filter_not_in` on the accumulated state.
   A slice (`sliced!`) executes once per tick on the batch of inputs of that tick; the two
   `use::state_null` variables carry `not_all` and `min_but_not_max` to the next tick.
   Definitions only. *)
From Coq Require Export List NArith Bool Arith.
Export ListNotations.

Inductive res := ROk (v : N) | RErr (e : N).
Definition resp := (N * res)%type.                     (* (key, Result<V, E>) *)

Definition is_ok (r : resp) : bool := match snd r with ROk _ => true | RErr _ => false end.
Definition key_is (k : N) (r : resp) : bool := N.eqb (fst r) k.

(* the keyed fold `(success, error)` counters; `total` = success + error *)
Definition succ (k : N) (l : list resp) : nat := length (filter (fun r => key_is k r && is_ok r) l).
Definition total (k : N) (l : list resp) : nat := length (filter (key_is k) l).

Fixpoint memN (x : N) (l : list N) : bool :=
  match l with [] => false | y :: r => N.eqb x y || memN x r end.

(* keys of the keyed fold (each once; their order is the hash map's, i.e. unspecified) *)
Fixpoint keys_of (l : list resp) : list N :=
  match l with
  | [] => []
  | r :: t => let ks := keys_of t in if memN (fst r) ks then ks else fst r :: ks
  end.

Record qstate := mkQ { not_all : list resp; mbm : list N }.   (* mbm = min_but_not_max *)
Definition q_init : qstate := mkQ [] [].

Definition reached (mn : nat) (cur : list resp) : list N :=
  filter (fun k => mn <=? succ k cur) (keys_of cur).
Definition not_reached (mn : nat) (cur : list resp) : list N :=
  filter (fun k => succ k cur <? mn) (keys_of cur).
Definition recv_all (mx : nat) (cur : list resp) : list N :=
  filter (fun k => mx <=? total k cur) (keys_of cur).

(* anti_join / filter_not_in *)
Definition anti {A} (key : A -> N) (l : list A) (ks : list N) : list A :=
  filter (fun x => negb (memN (key x) ks)) l.

(* the state carried to the next tick: identical in collect_quorum and collect_quorum_with_response *)
Definition q_next (mn mx : nat) (st : qstate) (batch : list resp) : qstate :=
  let cur := not_all st ++ batch in
  if mx =? mn then mkQ (anti fst cur (reached mn cur)) (mbm st)
  else mkQ (anti fst cur (recv_all mx cur))
           (anti (fun k => k) (reached mn cur) (recv_all mx cur)).

(* collect_quorum: the keys reported this tick *)
Definition cq_out (mn mx : nat) (st : qstate) (batch : list resp) : list N :=
  let cur := not_all st ++ batch in
  if mx =? mn then reached mn cur
  else anti (fun k => k) (reached mn cur) (mbm st).

Definition ok_vals (l : list resp) : list (N * N) :=
  flat_map (fun r => match snd r with ROk v => [(fst r, v)] | RErr _ => [] end) l.
Definition err_vals (l : list resp) : list (N * N) :=
  flat_map (fun r => match snd r with RErr e => [(fst r, e)] | ROk _ => [] end) l.

(* collect_quorum_with_response: the (key, value) pairs reported this tick, in stream order *)
Definition cqr_out (mn mx : nat) (st : qstate) (batch : list resp) : list (N * N) :=
  let cur := not_all st ++ batch in
  if mx =? mn then ok_vals (anti fst cur (not_reached mn cur))
  else ok_vals (anti fst (anti fst cur (not_reached mn cur)) (mbm st)).

(* the error side of both helpers: a stateless filter_map over the responses *)
Definition q_errs (batch : list resp) : list (N * N) := err_vals batch.

(* running a helper over a batching (= a partition of the response sequence into ticks) *)
Fixpoint q_run {O} (out : nat -> nat -> qstate -> list resp -> O) (mn mx : nat) (st : qstate)
         (batches : list (list resp)) : list O :=
  match batches with
  | [] => []
  | b :: r => out mn mx st b :: q_run out mn mx (q_next mn mx st b) r
  end.

(* ------------------------------------------------------------------ join_responses *)

Record jstate := mkJ { remaining : list (N * N) }.     (* (key, metadata) not yet joined *)

Definition j_step (st : jstate) (meta : list (N * N)) (resps : list (N * N))
  : jstate * list (N * (N * N)) :=
  let ram := remaining st ++ meta in
  (mkJ (anti fst ram (map fst resps)),
   flat_map (fun km => map (fun kv => (fst km, (snd km, snd kv)))
                           (filter (fun kv => N.eqb (fst kv) (fst km)) resps)) ram).

Fixpoint j_run (st : jstate) (ticks : list (list (N * N) * list (N * N))) : list (list (N * (N * N))) :=
  match ticks with
  | [] => []
  | (m, r) :: t => let '(st', o) := j_step st m r in o :: j_run st' t
  end.
