(* E10 Proto -- verdict functions of the C39 correspondence check (vm_compute).
   bit 0 = the real hydro_std helper (production DFIR code, one run_tick per batch) differs from
   the model on some tick; bit 1 = the executable form of the property fails on the
   implementation's outputs.  Definitions only. *)
From HV Require Export Proto.QuorumModel.

Definition bor (a b : N) : N := N.lor a b.
Definition bit (ok : bool) (v : N) : N := if ok then 0%N else v.

Section MS.
  Context {A : Type} (eqb : A -> A -> bool).
  Definition cnt (x : A) (l : list A) : nat := length (filter (eqb x) l).
  Definition mset_eqb (a b : list A) : bool :=
    Nat.eqb (length a) (length b) && forallb (fun x => Nat.eqb (cnt x a) (cnt x b)) a.
  Fixpoint list_eqb (a b : list A) : bool :=
    match a, b with
    | [], [] => true
    | x :: a', y :: b' => eqb x y && list_eqb a' b'
    | _, _ => false
    end.
End MS.

Definition pair_eqb (a b : N * N) : bool := N.eqb (fst a) (fst b) && N.eqb (snd a) (snd b).
Definition trip_eqb (a b : N * (N * N)) : bool := N.eqb (fst a) (fst b) && pair_eqb (snd a) (snd b).

(* a run = one batching: per tick the batch and what the implementation emitted on ok / err *)
Definition cq_run_t := list (list resp * (list N * list (N * N))).
Definition cqr_run_t := list (list resp * (list (N * N) * list (N * N))).

Definition seq_of {O} (run : list (list resp * O)) : list resp := concat (map fst run).

Definition pre_ok (mn mx : nat) (s : list resp) : bool :=
  (1 <=? mn) && (mn <=? mx) && forallb (fun k => total k s <=? mx) (keys_of s).

(* executable spec, straight from the counts: keys whose mn-th success lies in batch b after prefix P *)
Definition due_keys (mn : nat) (P b : list resp) : list N :=
  filter (fun k => (succ k P <? mn) && (mn <=? succ k (P ++ b))) (keys_of (P ++ b)).

Fixpoint cq_spec_ok (mn : nat) (P : list resp) (run : cq_run_t) : bool :=
  match run with
  | [] => true
  | (b, (ok, er)) :: t =>
      mset_eqb N.eqb ok (due_keys mn P b) && list_eqb pair_eqb er (err_vals b) && cq_spec_ok mn (P ++ b) t
  end.

Fixpoint cq_model_ok (mn mx : nat) (st : qstate) (run : cq_run_t) : bool :=
  match run with
  | [] => true
  | (b, (ok, er)) :: t =>
      mset_eqb N.eqb ok (cq_out mn mx st b) && list_eqb pair_eqb er (q_errs b) &&
      cq_model_ok mn mx (q_next mn mx st b) t
  end.

(* all runs are batchings of one sequence; the reported keys must not depend on the batching *)
Definition all_same {R} (f : R -> list N) (runs : list R) : bool :=
  match runs with
  | [] => true
  | r0 :: t => forallb (fun r => mset_eqb N.eqb (f r0) (f r)) t
  end.

Definition chk_cq (mn mx : nat) (runs : list cq_run_t) : N :=
  bor (bit (forallb (cq_model_ok mn mx q_init) runs) 1)
      (match runs with
       | [] => 0%N
       | r0 :: _ =>
           if pre_ok mn mx (seq_of r0) then
             bit (forallb (cq_spec_ok mn []) runs &&
                  all_same (fun r : cq_run_t => concat (map (fun t => fst (snd t)) r)) runs) 2
           else 0%N
       end).

(* with responses: per tick, every success so far of the keys due in this batch, in stream order *)
Definition due_vals (mn : nat) (P b : list resp) : list (N * N) :=
  ok_vals (filter (fun r => (succ (fst r) P <? mn) && (mn <=? succ (fst r) (P ++ b))) (P ++ b)).

Fixpoint cqr_spec_ok (mn : nat) (P : list resp) (run : cqr_run_t) : bool :=
  match run with
  | [] => true
  | (b, (ok, er)) :: t =>
      mset_eqb pair_eqb ok (due_vals mn P b) && list_eqb pair_eqb er (err_vals b) && cqr_spec_ok mn (P ++ b) t
  end.

Fixpoint cqr_model_ok (mn mx : nat) (st : qstate) (run : cqr_run_t) : bool :=
  match run with
  | [] => true
  | (b, (ok, er)) :: t =>
      list_eqb pair_eqb ok (cqr_out mn mx st b) && list_eqb pair_eqb er (q_errs b) &&
      cqr_model_ok mn mx (q_next mn mx st b) t
  end.

Definition all_same_p {R} (f : R -> list (N * N)) (runs : list R) : bool :=
  match runs with
  | [] => true
  | r0 :: t => forallb (fun r => mset_eqb pair_eqb (f r0) (f r)) t
  end.

(* bit 1 includes batching independence of the reported (key, value) multiset *)
Definition chk_cqr (mn mx : nat) (runs : list cqr_run_t) : N :=
  bor (bit (forallb (cqr_model_ok mn mx q_init) runs) 1)
      (match runs with
       | [] => 0%N
       | r0 :: _ =>
           if pre_ok mn mx (seq_of r0) then
             bit (forallb (cqr_spec_ok mn []) runs &&
                  all_same_p (fun r : cqr_run_t => concat (map (fun t => fst (snd t)) r)) runs) 2
           else 0%N
       end).

(* join_responses: ticks of (metadata batch, response batch) and the implementation's output *)
Definition jr_run_t := list ((list (N * N) * list (N * N)) * list (N * (N * N))).

Fixpoint jr_model_ok (st : jstate) (run : jr_run_t) : bool :=
  match run with
  | [] => true
  | ((mt, rs), o) :: t =>
      let '(st', o') := j_step st mt rs in mset_eqb trip_eqb o o' && jr_model_ok st' t
  end.

Fixpoint nodupb (l : list N) : bool :=
  match l with [] => true | x :: r => negb (memN x r) && nodupb r end.

(* usage precondition: unique keys on both sides, metadata never later than its response *)
Fixpoint jr_pre (seenR : list N) (run : jr_run_t) : bool :=
  match run with
  | [] => true
  | ((mt, rs), _) :: t =>
      forallb (fun km => negb (memN (fst km) seenR)) mt && jr_pre (seenR ++ map fst rs) t
  end.

Definition chk_jr (run : jr_run_t) : N :=
  let metas := concat (map (fun t => fst (fst t)) run) in
  let resps := concat (map (fun t => snd (fst t)) run) in
  let outs := concat (map snd run) in
  bor (bit (jr_model_ok (mkJ []) run) 1)
      (if nodupb (map fst metas) && nodupb (map fst resps) && jr_pre [] run then
         (* every response whose metadata exists is matched with it exactly once, nothing else *)
         bit (mset_eqb trip_eqb outs
                (flat_map (fun kv => map (fun km => (fst kv, (snd km, snd kv)))
                                         (filter (fun km => N.eqb (fst km) (fst kv)) metas)) resps)) 2
       else 0%N).

Definition bad (vs : list N) : list (N * N) :=
  filter (fun p => negb (N.eqb (snd p) 0)) (combine (map N.of_nat (seq 0 (length vs))) vs).
