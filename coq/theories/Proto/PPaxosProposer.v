(* E10 Proto -- Paxos: the proposer's sequencing WITH THE PROPOSED REPAIR (p1b logs reconciled only in
   the tick where leadership is gained; PaxosCheck.seq_fixed_run) refines the abstract multi-Paxos
   system: given a quorum of p1b messages for the leader's ballot in the abstract state and no p2a of
   that ballot yet, all p2as the leader emits over any number of ticks are reachable by abstract P2a
   steps (fresh (ballot, slot), value chosen by pick_ok).  The shipped rule (PaxosCheck.seq_run) does
   not have this property (C40_paxos_slot_reuse_refuted). *)
From Coq Require Import Lia ZifyBool ZifyN FinFun.
From HV Require Import Proto.PaxosModel Proto.PPaxos.
From HV Require Proto.PaxosCheck Proto.PPaxosRecommit Proto.PPaxosAcceptor.
Import PaxosCheck PPaxosRecommit PPaxosAcceptor.

Arguments N.add : simpl never.
Arguments N.mul : simpl never.
Arguments N.sub : simpl never.
Arguments N.ltb : simpl never.
Arguments N.leb : simpl never.
Arguments N.eqb : simpl never.

Definition enc_plog (l : p1blog) : list lentry :=
  map (fun e => (fst (fst e), enc (snd (fst e)), encv (snd e))) (snd l).
Definition alogs_enc (alogs : list (N * p1blog)) : list (N * list lentry) :=
  map (fun al => (fst al, enc_plog (snd al))) alogs.
Definition lwfp (logs : list p1blog) : Prop :=
  forall l e, In l logs -> In e (snd l) -> bwf (snd (fst e)).

Lemma entries_of_In : forall logs s b v,
  In (b, v) (entries_of logs s) <-> exists l, In l logs /\ In ((s, b), v) (snd l).
Proof.
  intros logs s b v. unfold entries_of. rewrite in_flat_map. split.
  - intros (l & Hl & H). apply in_flat_map in H. destruct H as ([[s' b'] v'] & He & H). cbn [fst snd] in H.
    destruct (s' =? s) eqn:E; [|destruct H]. destruct H as [H|[]]. inversion H; subst. apply N.eqb_eq in E; subst.
    exists l. auto.
  - intros (l & Hl & H). exists l. split; auto. apply in_flat_map. exists ((s, b), v). split; auto.
    cbn [fst snd]. rewrite N.eqb_refl. left; auto.
Qed.

Lemma slots_of_In : forall logs s, In s (slots_of logs) <-> exists l b v, In l logs /\ In ((s, b), v) (snd l).
Proof.
  intros logs s. unfold slots_of. rewrite dedup_In, in_flat_map. split.
  - intros (l & Hl & H). apply in_map_iff in H. destruct H as ([[s' b] v] & E & H). cbn in E; subst. eauto.
  - intros (l & b & v & Hl & H). exists l. split; auto. apply in_map_iff. exists ((s, b), v). auto.
Qed.

(* the executable choice rule implies the abstract one, on the encoded logs *)
Lemma pick_b_ok : forall alogs s v, lwfp (map snd alogs) ->
  pick_ok_b (map snd alogs) s v = true -> pick_ok (alogs_enc alogs) s (encv v).
Proof.
  intros alogs s v W H. unfold pick_ok_b in H.
  assert (forall a lg c w, In (a, lg) (alogs_enc alogs) -> In (s, c, w) lg ->
            exists b w0, c = enc b /\ w = encv w0 /\ In (b, w0) (entries_of (map snd alogs) s)) as BACK.
  { intros a lg c w Hin Hl. unfold alogs_enc in Hin. apply in_map_iff in Hin. destruct Hin as ([a' l] & E & Hal).
    cbn in E. inversion E; subst a lg. unfold enc_plog in Hl. apply in_map_iff in Hl.
    destruct Hl as ([[s' b] w0] & E' & He). cbn in E'. inversion E'; subst.
    exists b, w0. split; auto. split; auto. apply entries_of_In. exists l. split; auto.
    apply in_map_iff. exists (a', l). auto. }
  destruct (entries_of (map snd alogs) s) as [|x r] eqn:Ees.
  - left. intros a lg c w Hin Hl. destruct (BACK a lg c w Hin Hl) as (b & w0 & _ & _ & []).
  - right. apply existsb_exists in H. destruct H as ([b0 v0] & He & H). apply andb_prop in H. destruct H as [Hv Hmax].
    cbn [fst snd] in Hv, Hmax. apply ov_eqb_eq in Hv. subst v0.
    rewrite <- Ees in He. pose proof He as He'. apply entries_of_In in He'. destruct He' as (l & Hl & Hle).
    apply in_map_iff in Hl. destruct Hl as ([a0 l0] & E & Hal). cbn in E; subst l0.
    exists a0, (enc_plog l), (enc b0). split; [|split].
    + unfold alogs_enc. apply in_map_iff. exists (a0, l). auto.
    + unfold enc_plog. apply in_map_iff. exists ((s, b0), v). auto.
    + intros a lg c w Hin Hlg. destruct (BACK a lg c w Hin Hlg) as (b & w0 & -> & _ & Hb).
      rewrite forallb_forall in Hmax. pose proof (Hmax (b, w0) Hb) as Hm0. cbn [fst] in Hm0.
      rewrite <- Ees in Hb. rename Hm0 into Hmax0.
      apply negb_true_iff in Hmax0.
      assert (bwf b0) as W0.
      { apply (W l ((s, b0), v)); auto. apply in_map_iff. exists (a0, l). auto. }
      assert (bwf b) as W1.
      { apply entries_of_In in Hb. destruct Hb as (l1 & Hl1 & He1). apply (W l1 ((s, b), w0)); auto. }
      destruct (N.lt_ge_cases (enc b0) (enc b)) as [X|X]; [|lia]. apply (b_lt_enc b0 b W0 W1) in X. congruence.
Qed.

Lemma free_slot_ok : forall alogs s v, ~ In s (slots_of (map snd alogs)) -> pick_ok (alogs_enc alogs) s v.
Proof.
  intros alogs s v H. left. intros a lg c w Hin Hl. apply H. apply slots_of_In.
  unfold alogs_enc in Hin. apply in_map_iff in Hin. destruct Hin as ([a' l] & E & Hal). cbn in E. inversion E; subst.
  unfold enc_plog in Hl. apply in_map_iff in Hl. destruct Hl as ([[s' b] w0] & E' & He). cbn in E'. inversion E'; subst.
  exists l, b, w0. split; auto. apply in_map_iff. eexists. split; [|exact Hal]. reflexivity.
Qed.

(* max_list is an upper bound *)
Lemma max_fold_ub : forall l acc,
  match fold_left (fun acc x => match acc with None => Some x | Some m => Some (N.max m x) end) l acc with
  | Some m => (forall x, In x l -> x <= m) /\ (forall a, acc = Some a -> a <= m)
  | None => l = [] /\ acc = None
  end.
Proof.
  induction l as [|x r IH]; intro acc; cbn [fold_left].
  - destruct acc; [split; [intros ? []|intros a E; inversion E; lia]|auto].
  - specialize (IH (match acc with None => Some x | Some m => Some (N.max m x) end)).
    destruct (fold_left _ r _) as [m|].
    + destruct IH as [A B]. split.
      * intros y [<-|H]; auto. destruct acc; [specialize (B _ eq_refl); lia|specialize (B _ eq_refl); lia].
      * intros a E; subst. specialize (B _ eq_refl). lia.
    + destruct IH as [_ E]. destruct acc; discriminate.
Qed.

Lemma max_list_ub : forall l m, max_list l = Some m -> forall x, In x l -> x <= m.
Proof. intros l m H. pose proof (max_fold_ub l None) as I. unfold max_list in H. rewrite H in I. apply I. Qed.
Lemma max_list_none : forall l, max_list l = None -> l = [].
Proof. intros l H. pose proof (max_fold_ub l None) as I. unfold max_list in H. rewrite H in I. apply I. Qed.

(* what the reconciliation emits: a slot of the logs with the value the fold picks, or a hole *)
Lemma recommit_shape : forall f bal logs o, In o (px_recommit f bal logs) ->
  (In (fst (fst o)) (slots_of logs) /\
   exists cnt b, fold_left rc_step (entries_of logs (fst (fst o))) None = Some (cnt, (b, snd o))) \/
  (~ In (fst (fst o)) (slots_of logs) /\ snd o = None /\
   exists mx, max_list (slots_of logs) = Some mx /\ fst (fst o) < mx).
Proof.
  intros f bal logs o H. unfold px_recommit in H. apply in_app_or in H. destruct H as [H|H].
  - left. apply in_flat_map in H. destruct H as (s & Hs & H).
    destruct (fold_left rc_step (entries_of logs s) None) as [[cnt [b v]]|] eqn:F; [|destruct H].
    destruct (f <? cnt); [destruct H|].
    assert (In o [((s, bal), v)]) as H'.
    { destruct (checkpoint_of logs) as [c|]; auto. destruct (s <=? c); [destruct H|auto]. }
    destruct H' as [<-|[]]. cbn [fst snd]. split; auto. rewrite F. eauto.
  - right. destruct (max_list (slots_of logs)) as [mx|] eqn:M; [|destruct H].
    apply in_flat_map in H. destruct H as (k & Hk & H).
    match type of H with In _ (if memN ?e _ then _ else _) => set (s := e) in * end.
    destruct (memN s (slots_of logs)) eqn:Mm; [destruct H|]. destruct H as [<-|[]]. cbn [fst snd].
    split; [rewrite <- memN_In; congruence|]. split; auto. exists mx. split; auto.
    apply in_seq in Hk. subst s. lia.
Qed.

Definition functional (outs : list (N * option N)) : Prop :=
  forall s v v', In (s, v) outs -> In (s, v') outs -> v = v'.

Lemma combine_seq_facts : forall base (ps : list N) s v,
  In (s, v) (combine (map (fun i => base + N.of_nat i) (seq 0 (length ps))) (map (@Some N) ps)) ->
  base <= s /\ s < base + N.of_nat (length ps).
Proof.
  intros base ps s v H. apply in_combine_l in H. apply in_map_iff in H. destruct H as (i & <- & Hi).
  apply in_seq in Hi. lia.
Qed.

Lemma combine_functional : forall (l1 : list N) (l2 : list (option N)) s v v', NoDup l1 ->
  In (s, v) (combine l1 l2) -> In (s, v') (combine l1 l2) -> v = v'.
Proof.
  induction l1 as [|x r IH]; intros l2 s v v' D H1 H2; [destruct H1|]. destruct l2 as [|y t]; [destruct H1|].
  inversion D; subst. cbn [combine] in H1, H2. destruct H1 as [E1|H1], H2 as [E2|H2].
  - congruence.
  - inversion E1; subst. exfalso. apply H3. eapply in_combine_l; eauto.
  - inversion E2; subst. exfalso. apply H3. eapply in_combine_l; eauto.
  - eapply IH; eauto.
Qed.

Lemma seq_slots_NoDup : forall base len, NoDup (map (fun i => base + N.of_nat i) (seq 0 len)).
Proof.
  intros. apply FinFun.Injective_map_NoDup; [intros a b E; lia|apply seq_NoDup].
Qed.

(* later ticks: slots from `next` upwards, one value per slot *)
Lemma later_ticks : forall f bal logs ticks next,
  let outs := concat (seq_fixed_run f bal logs false next ticks) in
  (forall s v, In (s, v) outs -> next <= s) /\ functional outs.
Proof.
  intros f bal logs. induction ticks as [|ps t IH]; intro next; cbn [seq_fixed_run concat].
  - split; [intros ? ? []|intros ? ? ? []].
  - cbn [app]. destruct (IH (next + N.of_nat (length ps))) as [A B]. split.
    + intros s v H. apply in_app_or in H. destruct H as [H|H]; [apply combine_seq_facts in H; lia|].
      specialize (A s v H). lia.
    + intros s v v' H1 H2. apply in_app_or in H1. apply in_app_or in H2.
      destruct H1 as [H1|H1], H2 as [H2|H2].
      * eapply combine_functional; [apply seq_slots_NoDup|eauto|eauto].
      * apply combine_seq_facts in H1. specialize (A _ _ H2). lia.
      * apply combine_seq_facts in H2. specialize (A _ _ H1). lia.
      * eapply B; eauto.
Qed.

(* all p2as of a leadership: obey the choice rule, one value per slot *)
Lemma fixed_run_ok : forall f bal alogs ticks, lwfp (map snd alogs) ->
  let outs := concat (seq_fixed_run f bal (map snd alogs) true 0 ticks) in
  (forall s v, In (s, v) outs -> pick_ok (alogs_enc alogs) s (encv v)) /\ functional outs.
Proof.
  intros f bal alogs ticks W. destruct ticks as [|ps t]; cbn [seq_fixed_run concat].
  { split; [intros ? ? []|intros ? ? ? []]. }
  set (logs := map snd alogs) in *.
  set (base := match max_list (slots_of logs) with Some m => m + 1 | None => 0 end).
  destruct (later_ticks f bal logs t (base + N.of_nat (length ps))) as [LA LF].
  set (rest := concat (seq_fixed_run f bal logs false (base + N.of_nat (length ps)) t)) in *.
  set (rc := map (fun o => (fst (fst o), snd o)) (px_recommit f bal logs)).
  set (nw := combine (map (fun i => base + N.of_nat i) (seq 0 (length ps))) (map (@Some N) ps)).
  (* slots above every slot of the logs are free *)
  assert (forall s, base <= s -> ~ In s (slots_of logs)) as FREE.
  { intros s Hs Hin. unfold base in Hs. destruct (max_list (slots_of logs)) as [m|] eqn:M.
    - pose proof (max_list_ub _ _ M s Hin). lia.
    - apply max_list_none in M. rewrite M in Hin. destruct Hin. }
  assert (forall s v, In (s, v) rc -> s < base /\ pick_ok (alogs_enc alogs) s (encv v) /\
            ((In s (slots_of logs) /\ exists cnt b, fold_left rc_step (entries_of logs s) None = Some (cnt, (b, v))) \/
             (~ In s (slots_of logs) /\ v = None))) as RC.
  { intros s v H. unfold rc in H. apply in_map_iff in H. destruct H as (o & E & Ho). inversion E; subst s v.
    destruct (px_recommit_obeys_pick f bal logs o Ho) as [_ Pk].
    split; [|split; [apply pick_b_ok; auto|]].
    - unfold base. destruct (recommit_shape f bal logs o Ho) as [[Hin _]|(_ & _ & mx & M & Lt)].
      + destruct (max_list (slots_of logs)) as [m|] eqn:M; [pose proof (max_list_ub _ _ M _ Hin); lia|].
        apply max_list_none in M. rewrite M in Hin. destruct Hin.
      + rewrite M. lia.
    - destruct (recommit_shape f bal logs o Ho) as [[Hin X]|(Hn & Hv & _)]; [left; auto|right; auto]. }
  split.
  - intros s v H. apply in_app_or in H. destruct H as [H|H].
    + apply in_app_or in H. destruct H as [H|H]; [apply RC; auto|].
      apply free_slot_ok. apply FREE. apply combine_seq_facts in H. lia.
    + apply free_slot_ok. apply FREE. specialize (LA s v H). lia.
  - intros s v v' H1 H2.
    assert (forall s v, In (s, v) ((rc ++ nw) ++ rest) ->
              (In (s, v) rc /\ s < base) \/ (In (s, v) nw /\ base <= s /\ s < base + N.of_nat (length ps)) \/
              (In (s, v) rest /\ base + N.of_nat (length ps) <= s)) as CL.
    { intros s0 v0 H. apply in_app_or in H. destruct H as [H|H]; [apply in_app_or in H; destruct H as [H|H]|].
      - left. split; auto. apply RC in H. tauto.
      - right; left. split; auto. apply combine_seq_facts in H. auto.
      - right; right. split; auto. apply (LA s0 v0 H). }
    destruct (CL _ _ H1) as [[A1 B1]|[(A1 & B1 & C1)|[A1 B1]]], (CL _ _ H2) as [[A2 B2]|[(A2 & B2 & C2)|[A2 B2]]]; try lia.
    + destruct (RC _ _ A1) as (_ & _ & [[I1 (c1 & b1 & F1)]|[N1 V1]]), (RC _ _ A2) as (_ & _ & [[I2 (c2 & b2 & F2)]|[N2 V2]]);
        try contradiction; [congruence|congruence].
    + eapply combine_functional; [apply seq_slots_NoDup|eauto|eauto].
    + eapply LF; eauto.
Qed.

(* emitting a list of proposals of ballot B by abstract P2a steps *)
Lemma m2a_dec : forall (l : list (N * N * N)) B s, (exists w, In (B, s, w) l) \/ (forall w, ~ In (B, s, w) l).
Proof.
  induction l as [|[[b' s'] w'] r IH]; intros B s; [right; intros w []|].
  destruct (IH B s) as [(w & H)|H]; [left; exists w; right; auto|].
  destruct (N.eq_dec b' B) as [->|Nb]; [|right; intros w [E|X]; [inversion E; congruence|eapply H; eauto]].
  destruct (N.eq_dec s' s) as [->|Ns]; [left; exists w'; left; auto|].
  right; intros w [E|X]; [inversion E; congruence|eapply H; eauto].
Qed.

Lemma emit_all : forall n B L outs p,
  quorum n (map fst L) -> (forall a lg, In (a, lg) L -> In (a, B, lg) (m1b p)) ->
  (forall s v, In (s, v) outs -> pick_ok L s (encv v)) -> functional outs ->
  (forall s v w, In (s, v) outs -> In (B, s, w) (m2a p) -> w = encv v) ->
  exists p', psteps n p p' /\ (forall s v, In (s, v) outs -> In (B, s, encv v) (m2a p')) /\
    (forall x, In x (m2a p) -> In x (m2a p')) /\
    maxBal p' = maxBal p /\ votes p' = votes p /\ m1a p' = m1a p /\ m1b p' = m1b p.
Proof.
  intros n B L. induction outs as [|[s v] r IH]; intros p HQ HL HP HF HC.
  - exists p. split; [apply ps_refl|]. split; [intros ? ? []|]. auto.
  - assert (functional r) as HF' by (intros s0 v0 v0' X Y; eapply HF; right; eauto).
    destruct (m2a_dec (m2a p) B s) as [(w & Hw)|Hfresh].
    + (* already proposed (the same value) *)
      pose proof (HC s v w (or_introl eq_refl) Hw) as E; subst w.
      destruct (IH p HQ HL) as (p' & S & A & Bm & F); auto.
      { intros s0 v0 H; apply HP; right; auto. }
      { intros s0 v0 w0 H; apply HC; right; auto. }
      exists p'. split; auto. split; auto. intros s0 v0 [E|H]; [inversion E; subst; auto|auto].
    + set (p1 := mkP (maxBal p) (votes p) (m1a p) (m1b p) ((B, s, encv v) :: m2a p)).
      assert (pstep n p p1) as St.
      { apply (P2a n p B s (encv v) L); auto. apply HP; left; auto. }
      destruct (IH p1) as (p' & S & A & Bm & F1 & F2 & F3 & F4); auto.
      { intros s0 v0 H; apply HP; right; auto. }
      { intros s0 v0 w0 H [E|X]; [|eapply HC; [right; eauto|auto]].
        inversion E; subst. f_equal. eapply HF; [left; eauto|right; eauto]. }
      exists p'. split; [eapply psteps_trans; [eapply ps_step; [apply ps_refl|exact St]|exact S]|].
      split; [|split; [intros x Hx; apply Bm; right; auto|auto]].
      intros s0 v0 [E|H]; [inversion E; subst; apply Bm; left; auto|auto].
Qed.

(* the theorem *)
Theorem proposer_fixed_refines : forall n f bal alogs ticks p,
  lwfp (map snd alogs) -> quorum n (map fst alogs) ->
  (forall a l, In (a, l) alogs -> In (a, enc bal, enc_plog l) (m1b p)) ->
  (forall s w, ~ In (enc bal, s, w) (m2a p)) ->
  exists p', psteps n p p' /\
    (forall s v, In (s, v) (concat (seq_fixed_run f bal (map snd alogs) true 0 ticks)) ->
                 In (enc bal, s, encv v) (m2a p')) /\
    (forall x, In x (m2a p) -> In x (m2a p')) /\
    maxBal p' = maxBal p /\ votes p' = votes p /\ m1a p' = m1a p /\ m1b p' = m1b p.
Proof.
  intros n f bal alogs ticks p W HQ HL Hnone.
  destruct (fixed_run_ok f bal alogs ticks W) as [HP HF].
  apply (emit_all n (enc bal) (alogs_enc alogs)); auto.
  - unfold alogs_enc. rewrite map_map. cbn [fst]. exact HQ.
  - intros a lg H. unfold alogs_enc in H. apply in_map_iff in H. destruct H as ([a' l] & E & Hal).
    cbn in E. inversion E; subst. apply HL; auto.
  - intros s v w _ H. exfalso. eapply Hnone; eauto.
Qed.

Print Assumptions proposer_fixed_refines.
