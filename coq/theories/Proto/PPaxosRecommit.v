(* E10 Proto -- Paxos: the new leader's p2a choice, as modelled from
   `recommit_after_leader_election` (PaxosCheck.px_recommit, validated against the real function
   on every run), implements the abstract highest-ballot rule for EVERY set of p1b logs:
   every proposed (slot, value) is either for a slot no log mentions (free choice: a no-op hole)
   or carries the value of an entry whose ballot is maximal among the logs' entries for the slot. *)
From Coq Require Import Lia ZifyBool ZifyN.
From HV Require Import Proto.PaxosCheck.

Arguments N.add : simpl never.
Arguments N.ltb : simpl never.
Arguments N.leb : simpl never.
Arguments N.eqb : simpl never.

Lemma ov_eqb_refl : forall v, ov_eqb v v = true.
Proof. intros [x|]; cbn; auto. apply N.eqb_refl. Qed.

Lemma ov_eqb_eq : forall a b, ov_eqb a b = true -> a = b.
Proof. intros [x|] [y|]; cbn; intro H; try discriminate; auto. f_equal. lia. Qed.

Lemma b_lt_asym : forall a b, b_lt a b = true -> b_lt b a = false.
Proof. intros [a1 a2] [b1 b2]; unfold b_lt; cbn. lia. Qed.

(* "b is an upper bound of the ballots in es" *)
Definition ub (b : ballot) (es : list (ballot * option N)) : Prop :=
  forall e, In e es -> b_lt b (fst e) = false.

Lemma ub_raise : forall b b' es, ub b es -> b_lt b b' = true -> ub b' es.
Proof.
  intros b b' es H L e He. specialize (H e He).
  destruct b as [b1 b2], b' as [c1 c2], (fst e) as [e1 e2]. unfold b_lt in *; cbn in *. lia.
Qed.

(* the fold keeps: the current ballot is maximal and the current value is the value of an entry
   carrying that ballot *)
Lemma rc_fold_inv : forall es done cur,
  (match cur with
   | None => done = []
   | Some (_, (b, v)) => ub b done /\ exists e, In e done /\ fst e = b /\ snd e = v
   end) ->
  match fold_left rc_step es cur with
  | None => done ++ es = []
  | Some (_, (b, v)) => ub b (done ++ es) /\ exists e, In e (done ++ es) /\ fst e = b /\ snd e = v
  end.
Proof.
  induction es as [|e r IH]; intros done cur H; cbn [fold_left].
  - rewrite app_nil_r. exact H.
  - replace (done ++ e :: r) with ((done ++ [e]) ++ r) by (rewrite <- app_assoc; auto).
    apply IH. destruct cur as [[cnt [cb cv]]|]; cbn [rc_step].
    + destruct H as [U (w & W1 & W2 & W3)].
      destruct (b_lt cb (fst e)) eqn:Hi.
      * destruct (ov_eqb (snd e) cv) eqn:Sm.
        -- split.
           ++ intros x Hx. apply in_app_or in Hx. destruct Hx as [Hx|[<-|[]]].
              ** eapply ub_raise; eauto.
              ** destruct (fst e) as [e1 e2]. unfold b_lt; cbn. lia.
           ++ exists e. split; [apply in_or_app; right; left; auto|]. split; auto. apply ov_eqb_eq; auto.
        -- split.
           ++ intros x Hx. apply in_app_or in Hx. destruct Hx as [Hx|[<-|[]]].
              ** eapply ub_raise; eauto.
              ** destruct (fst e) as [e1 e2]. unfold b_lt; cbn. lia.
           ++ exists e. split; [apply in_or_app; right; left; auto|]. auto.
      * split.
        -- intros x Hx. apply in_app_or in Hx. destruct Hx as [Hx|[<-|[]]]; auto.
        -- exists w. split; [apply in_or_app; left; auto|auto].
    + subst done. cbn [app]. destruct e as [eb ev]. cbn [rc_step]. split.
      * intros x [<-|[]]. cbn. destruct eb as [e1 e2]. unfold b_lt; cbn. lia.
      * exists (eb, ev). split; [left; auto|auto].
Qed.

Lemma pick_from_fold : forall logs s cnt b v,
  fold_left rc_step (entries_of logs s) None = Some (cnt, (b, v)) -> pick_ok_b logs s v = true.
Proof.
  intros logs s cnt b v H. unfold pick_ok_b.
  pose proof (rc_fold_inv (entries_of logs s) [] None eq_refl) as I. rewrite H in I. cbn [app] in I.
  destruct I as [U (e & E1 & E2 & E3)].
  destruct (entries_of logs s) as [|x r] eqn:Ees; [destruct E1|].
  apply existsb_exists. exists e. split; auto. apply andb_true_intro. split.
  - rewrite E3. apply ov_eqb_refl.
  - apply forallb_forall. intros e' He'. rewrite E2. rewrite (U e' He'). auto.
Qed.

Lemma memN_In : forall x l, memN x l = true <-> In x l.
Proof.
  induction l as [|y r IH]; cbn; [split; [discriminate|tauto]|].
  rewrite orb_true_iff, IH, N.eqb_eq. split; intros [H|H]; auto.
Qed.

Lemma dedup_In : forall x l, In x (dedup l) <-> In x l.
Proof.
  induction l as [|y r IH]; cbn; [tauto|].
  destruct (memN y (dedup r)) eqn:M.
  - rewrite IH. split; auto. intros [<-|H]; auto. apply IH, memN_In; auto.
  - cbn. rewrite IH. tauto.
Qed.

Lemma no_slot_no_entries : forall logs s, ~ In s (slots_of logs) -> entries_of logs s = [].
Proof.
  intros logs s H. unfold slots_of in H. rewrite dedup_In in H. unfold entries_of.
  induction logs as [|l r IH]; cbn [flat_map]; auto.
  cbn [flat_map] in H. rewrite in_app_iff in H.
  rewrite IH by tauto. rewrite app_nil_r.
  assert (~ In s (map (fun e => fst (fst e)) (snd l))) as Hl by tauto. clear - Hl.
  induction (snd l) as [|e t IHt]; cbn [flat_map]; auto.
  cbn [map In] in Hl. destruct (fst (fst e) =? s) eqn:E; [exfalso; apply Hl; left; lia|].
  cbn [app]. apply IHt. tauto.
Qed.

(* the theorem: every p2a the modelled leader emits obeys the abstract choice rule, with the
   leader's own ballot *)
Theorem px_recommit_obeys_pick : forall f bal logs o, In o (px_recommit f bal logs) ->
  snd (fst o) = bal /\ pick_ok_b logs (fst (fst o)) (snd o) = true.
Proof.
  intros f bal logs o H. unfold px_recommit in H. apply in_app_or in H. destruct H as [H|H].
  - apply in_flat_map in H. destruct H as (s & Hs & H).
    destruct (fold_left rc_step (entries_of logs s) None) as [[cnt [b v]]|] eqn:F; [|destruct H].
    destruct (f <? cnt); [destruct H|].
    assert (In o [((s, bal), v)]) as H'.
    { destruct (checkpoint_of logs) as [c|]; auto. destruct (s <=? c); [destruct H|auto]. }
    destruct H' as [<-|[]]. cbn. split; auto. eapply pick_from_fold; eauto.
  - destruct (max_list (slots_of logs)) as [mx|]; [|destruct H].
    apply in_flat_map in H. destruct H as (k & _ & H).
    match type of H with In _ (if memN ?e _ then _ else _) => set (s := e) in * end.
    destruct (memN s (slots_of logs)) eqn:M; [destruct H|]. destruct H as [<-|[]]. cbn. split; auto.
    unfold pick_ok_b. rewrite no_slot_no_entries; auto. rewrite <- memN_In. congruence.
Qed.
