(* E10 Proto -- Raft: log well-formedness and stability of the committed prefix.
   For every execution: every log carries indexes 1,2,3,.. ; commit index <= log length; and
   a member NEVER changes an entry at or below its commit index (the diagonal a = b of State
   Machine Safety: what a member has committed stays committed, unchanged, forever).
   The truncation guard (`assert!(entry.index > state.commit_index)`) is what makes this hold by
   construction: a step that would truncate a committed entry panics, i.e. the member stops. *)
From Coq Require Import Lia ZifyBool ZifyN.
From HV Require Import Proto.RaftNet Proto.PRaftLocal Proto.PRaftRefine.

Arguments N.add : simpl never.
Arguments N.sub : simpl never.
Arguments N.div : simpl never.
Arguments N.ltb : simpl never.
Arguments N.leb : simpl never.
Arguments N.eqb : simpl never.
Arguments N.min : simpl never.
Arguments N.max : simpl never.

Lemma len_app : forall A (a b : list A), len (a ++ b) = len a + len b.
Proof. intros; unfold len. rewrite app_length. lia. Qed.

Lemma wf_app : forall a b k, log_wf_from k (a ++ b) = log_wf_from k a && log_wf_from (k + len a) b.
Proof.
  induction a as [|e a IH]; intros b k; cbn [app log_wf_from].
  - unfold len; cbn. replace (k + 0) with k by lia. auto.
  - rewrite IH, andb_assoc. do 2 f_equal. unfold len; cbn [length]. lia.
Qed.

Lemma wf_firstn : forall n l k, log_wf_from k l = true -> log_wf_from k (firstn n l) = true.
Proof.
  induction n as [|n IH]; intros l k H; destruct l as [|e l]; cbn in *; auto.
  apply andb_prop in H. destruct H as [H1 H2]. rewrite H1. cbn. auto.
Qed.

Lemma wf_skipn : forall n l k, log_wf_from k l = true -> log_wf_from (k + N.of_nat n) (skipn n l) = true.
Proof.
  induction n as [|n IH]; intros l k H; cbn [skipn].
  - replace (k + N.of_nat 0) with k by lia. auto.
  - destruct l as [|e l]; auto. cbn in H. apply andb_prop in H. destruct H as [_ H].
    replace (k + N.of_nat (S n)) with (k + 1 + N.of_nat n) by lia. apply IH; auto.
Qed.

Definition stable (cmt : N) (l l' : list entry) : Prop :=
  forall k, N.of_nat k < cmt -> nth_error l' k = nth_error l k.

Lemma stable_refl : forall c l, stable c l l.
Proof. intros c l k _; auto. Qed.

Lemma stable_trans : forall c c' a b d, c <= c' -> stable c a b -> stable c' b d -> stable c a d.
Proof. intros c c' a b d L H1 H2 k Hk. rewrite H2 by lia. apply H1; auto. Qed.

Lemma firstn_len_le : forall A n (l : list A), N.of_nat n <= len l -> len (firstn n l) = N.of_nat n.
Proof. intros A n l H; unfold len in *. rewrite firstn_length_le; lia. Qed.

Lemma nth_error_firstn_lt : forall A n (l : list A) k, (k < n)%nat -> nth_error (firstn n l) k = nth_error l k.
Proof.
  induction n as [|n IH]; intros l k H; [lia|]. destruct l as [|a l]; cbn; [destruct k; auto|].
  destruct k as [|k]; cbn; auto. apply IH; lia.
Qed.

Lemma append_entries_good : forall es lg cmt pli lg',
  log_wf lg = true -> log_wf_from (pli + 1) es = true -> pli <= len lg -> cmt <= len lg ->
  append_entries lg cmt es = Some lg' ->
  log_wf lg' = true /\ pli + len es <= len lg' /\ cmt <= len lg' /\ stable cmt lg lg'.
Proof.
  induction es as [|e r IH]; intros lg cmt pli lg' W We Hp Hc H; cbn [append_entries] in H.
  - inversion H; subst. unfold len at 1; cbn. repeat split; auto; try lia; try apply stable_refl.
  - cbn [log_wf_from] in We. apply andb_prop in We. destruct We as [Ei Wr].
    assert (e_index e = pli + 1) as Ei' by lia.
    replace (pli + 1 + 1) with ((pli + 1) + 1) in Wr by lia.
    assert (len (e :: r) = 1 + len r) as Hl by (unfold len; cbn [length]; lia).
    destruct (e_index e <=? len lg) eqn:Le.
    + unfold log_at in H. rewrite Ei' in H. destruct (pli + 1 =? 0) eqn:Z; [lia|].
      replace (pli + 1 - 1) with pli in H by lia.
      destruct (nth_error lg (N.to_nat pli)) as [mine|] eqn:En; [|discriminate].
      destruct (e_term mine =? e_term e).
      * destruct (IH lg cmt (pli + 1) lg' W Wr ltac:(lia) Hc H) as (A & B & C & D).
        repeat split; auto. lia.
      * destruct (cmt <? pli + 1) eqn:Lc; [|discriminate].
        set (lg2 := firstn (N.to_nat pli) lg ++ [e]) in *.
        assert (len (firstn (N.to_nat pli) lg) = pli) as Lf.
        { rewrite firstn_len_le; lia. }
        assert (log_wf lg2 = true) as W2.
        { unfold log_wf, lg2. rewrite wf_app. apply andb_true_intro. split.
          - apply wf_firstn; auto.
          - cbn [log_wf_from]. rewrite Lf. apply andb_true_intro. split; auto. lia. }
        assert (len lg2 = pli + 1) as L2.
        { unfold lg2. rewrite len_app, Lf. unfold len; cbn. lia. }
        destruct (IH lg2 cmt (pli + 1) lg' W2 Wr ltac:(lia) ltac:(lia) H) as (A & B & C & D).
        repeat split; auto; try lia.
        eapply stable_trans; [apply N.le_refl| |exact D].
        intros k Hk. unfold lg2. rewrite nth_error_app1.
        -- apply nth_error_firstn_lt. lia.
        -- unfold len in Lf. lia.
    + assert (pli = len lg) as -> by lia.
      set (lg2 := lg ++ [e]) in *.
      assert (log_wf lg2 = true) as W2.
      { unfold log_wf, lg2. rewrite wf_app. apply andb_true_intro. split; auto.
        cbn [log_wf_from]. apply andb_true_intro. split; auto. lia. }
      assert (len lg2 = len lg + 1) as L2.
      { unfold lg2. rewrite len_app. unfold len; cbn. lia. }
      destruct (IH lg2 cmt (len lg + 1) lg' W2 Wr ltac:(lia) ltac:(lia) H) as (A & B & C & D).
      repeat split; auto; try lia.
      eapply stable_trans; [apply N.le_refl| |exact D].
      intros k Hk. unfold lg2. rewrite nth_error_app1; auto. unfold len in *. lia.
Qed.

(* per-member invariant and per-message invariant *)
Definition NW (s : rstate) : Prop :=
  log_wf (log s) = true /\ commit s <= len (log s) /\ emitted s <= commit s.

Definition MW (r : rpc) : Prop :=
  match r with AE _ _ pli _ es _ => log_wf_from (pli + 1) es = true | _ => True end.

(* what one (partial) step guarantees: invariant kept, commit grows, committed entries untouched,
   outgoing messages well formed *)
Definition good (s s' : rstate) (o : list (N * rpc)) : Prop :=
  NW s' /\ commit s <= commit s' /\ stable (commit s) (log s) (log s') /\
  forall to r, In (to, r) o -> MW r.

Lemma good_refl : forall s, NW s -> good s s [].
Proof.
  intros s H. unfold good. split; [exact H|]. split; [lia|]. split; [apply stable_refl|]. intros ? ? [].
Qed.

Lemma good_trans : forall a b c o1 o2, good a b o1 -> good b c o2 -> good a c (o1 ++ o2).
Proof.
  intros a b c o1 o2 (N1 & C1 & S1 & M1) (N2 & C2 & S2 & M2). unfold good.
  split; [exact N2|]. split; [lia|]. split; [eapply stable_trans; eauto|].
  intros to r H. apply in_app_or in H. destruct H; eauto.
Qed.

(* a change that keeps log, commit and emitted *)
Lemma good_same : forall s s' o, NW s -> log s' = log s -> commit s' = commit s -> emitted s' = emitted s ->
  (forall to r, In (to, r) o -> MW r) -> good s s' o.
Proof.
  intros s s' o (A & B & C) L Cm E M. unfold good, NW. rewrite L, Cm, E.
  split; [repeat split; auto|]. split; [lia|]. split; [apply stable_refl|exact M].
Qed.

Lemma observe_term_same : forall s t s' b, observe_term s t = (s', b) ->
  log s' = log s /\ commit s' = commit s /\ emitted s' = emitted s.
Proof.
  intros s t s' b; unfold observe_term. destruct (term s <? t); intro H; inversion H; subst; cbn; auto.
Qed.

Lemma MW_single : forall to r (x : N) r', MW r' -> In (to, r) [(x, r')] -> MW r.
Proof. intros to r x r' H [E|[]]. inversion E; subst; auto. Qed.

Ltac outs := let H := fresh "Hin" in intros ? ? H; cbn in H;
  repeat match type of H with _ \/ _ => destruct H as [H|H]; [inversion H; subst; exact I|] end; contradiction.
Ltac gsame := apply good_same; cbn; auto; outs.

Lemma handle_msg_good : forall others maj s from m s' o,
  NW s -> MW m -> handle_msg others maj s from m = Some (s', o) -> good s s' o.
Proof.
  intros others maj s from m s' o HN HM H.
  destruct m as [t lli llt | t | t leader pli plt es lc | t succ mi]; cbn [handle_msg] in H;
    destruct (observe_term s t) as [s1 cur] eqn:Eo;
    destruct (observe_term_same _ _ _ _ Eo) as (L1 & C1 & E1);
    destruct cur; cbn [negb] in H.
  - match type of H with (if ?c then _ else _) = _ => destruct c end; inversion H; subst; clear H; gsame.
  - inversion H; subst. gsame.
  - destruct (rrole s1); try (inversion H; subst; gsame; fail).
    match type of H with (if ?c then _ else _) = _ => destruct c end; inversion H; subst; clear H; gsame.
  - inversion H; subst. gsame.
  - (* AE current *)
    destruct (is_leader s1); [discriminate|].
    match type of H with (if negb ?c then _ else _) = _ => destruct c eqn:LM end; cbn [negb] in H.
    + cbn [set_follow log commit] in H.
      destruct (append_entries (log s1) (commit s1) es) as [lg|] eqn:Ea; [|discriminate].
      destruct HN as (W & Cl & Em). cbn in HM.
      assert (pli <= len (log s1)) as Hp.
      { cbn [set_follow log] in LM. apply orb_prop in LM. destruct LM as [LM|LM]; [lia|].
        apply andb_prop in LM. destruct LM as [LM _]. lia. }
      rewrite L1, C1 in *.
      destruct (append_entries_good es (log s) (commit s) pli lg W HM Hp Cl Ea) as (A & B & C & D).
      inversion H; subst s' o; clear H.
      match goal with |- good _ (if ?c then _ else _) _ => destruct c eqn:Ec end.
      * unfold good, NW; cbn. rewrite E1. split; [repeat split; auto; lia|]. split; [lia|]. split; [exact D|outs].
      * unfold good, NW; cbn. rewrite E1, C1. split; [repeat split; auto; lia|]. split; [lia|]. split; [exact D|outs].
    + inversion H; subst s' o; clear H. gsame.
  - inversion H; subst s' o; clear H. gsame.
  - destruct (is_leader s1); cbn [negb] in H; [|inversion H; subst; gsame].
    destruct succ.
    + inversion H; subst; clear H. gsame.
    + destruct (mget from (next_index s1)) as [nx|]; [|inversion H; subst; gsame].
      destruct (nx =? 0); [discriminate|].
      inversion H; subst; clear H. gsame.
  - inversion H; subst. gsame.
Qed.

Lemma good_NW : forall s s' o, good s s' o -> NW s'.
Proof. intros s s' o H; apply H. Qed.

Lemma handle_msgs_good : forall others maj ms s s' o,
  NW s -> (forall f r, In (f, r) ms -> MW r) ->
  handle_msgs others maj s ms = Some (s', o) -> good s s' o.
Proof.
  induction ms as [|[from m] r IH]; intros s s' o HN HM H; cbn [handle_msgs] in H.
  - inversion H; subst. apply good_refl; auto.
  - destruct (handle_msg others maj s from m) as [[s1 o1]|] eqn:E1; [|discriminate].
    destruct (handle_msgs others maj s1 r) as [[s2 o2]|] eqn:E2; [|discriminate].
    inversion H; subst; clear H.
    assert (good s s1 o1) as G1 by (eapply handle_msg_good; eauto; eapply HM; left; eauto).
    eapply good_trans; [exact G1|]. eapply IH; eauto.
    + eapply good_NW; eauto.
    + intros; eapply HM; right; eauto.
Qed.

Lemma do_requests_good : forall reqs s s' red, NW s -> do_requests s reqs = (s', red) -> good s s' [].
Proof.
  induction reqs as [|x r IH]; intros s s' red HN H; cbn [do_requests] in H.
  - inversion H; subst. apply good_refl; auto.
  - destruct (is_leader s).
    + change (@nil (N * rpc)) with (@nil (N * rpc) ++ []).
      assert (good s (set_log s (log s ++ [mkE x (term s) (len (log s) + 1)])) []) as G.
      { destruct HN as (W & Cl & Em). unfold good, NW; cbn [set_log log commit emitted].
        assert (len [mkE x (term s) (len (log s) + 1)] = 1) as L1 by reflexivity.
        split; [split; [|split]|].
        - unfold log_wf. rewrite wf_app. apply andb_true_intro; split; auto.
          cbn [log_wf_from e_index]. apply andb_true_intro; split; auto. lia.
        - rewrite len_app. lia.
        - auto.
        - split; [lia|]. split; [|intros ? ? []].
          intros k Hk. rewrite nth_error_app1; auto. unfold len in *. lia. }
      eapply good_trans; [exact G|]. eapply IH; eauto. eapply good_NW; eauto.
    + destruct (do_requests s r) as [s2 red2] eqn:E. inversion H; subst. eapply IH; eauto.
Qed.

Lemma rv_MW : forall t lli llt (others : list N) (to : N) r,
  In (to, r) (map (fun x : N => (x, RV t lli llt)) others) -> MW r.
Proof. intros t lli llt others to r H. apply in_map_iff in H. destruct H as (y & E & _). inversion E; exact I. Qed.

Lemma do_election_good : forall me others maj s fired s' o,
  NW s -> do_election me others maj s fired = (s', o) -> good s s' o.
Proof.
  intros me others maj s fired s' o HN; unfold do_election.
  destruct (fired && negb (is_leader s)); [|intro H; inversion H; subst; apply good_refl; auto].
  destruct (hb_seen s).
  - intro H; inversion H; subst. apply good_same; cbn; auto. intros ? ? [].
  - destruct (maj <=? 1).
    + intro H; inversion H; subst. apply good_same; cbn; auto. intros ? ? [].
    + match goal with |- context [last_log_position ?x] => destruct (last_log_position x) end.
      intro H; inversion H; subst. apply good_same; cbn; auto. intros to r Hin. eapply rv_MW; eauto.
Qed.

Lemma commit_scan_le : forall others maj s k, commit s <= len (log s) -> (k <= length (log s))%nat ->
  commit_scan others maj s k <= len (log s).
Proof.
  induction k as [|k IH]; intros Hc Hk; cbn [commit_scan]; auto.
  destruct (N.of_nat (S k) <=? commit s); auto.
  destruct (nth_error (log s) k); [|apply IH; auto; lia].
  match goal with |- context [if ?c then _ else _] => destruct c end; [unfold len; lia|apply IH; auto; lia].
Qed.

Lemma do_commit_good : forall others maj s, NW s -> good s (do_commit others maj s) [].
Proof.
  intros others maj s HN. unfold do_commit. destruct (is_leader s); [|apply good_refl; auto].
  destruct HN as (W & Cl & Em). pose proof (commit_scan_ge others maj s (length (log s))).
  pose proof (commit_scan_le others maj s (length (log s)) Cl (le_n _)).
  unfold good, NW; cbn. repeat split; auto; try lia; try apply stable_refl; try (intros ? ? []).
Qed.

Lemma heartbeat_MW : forall me s fs o, log_wf (log s) = true -> heartbeat_msgs me s fs = Some o ->
  forall to r, In (to, r) o -> MW r.
Proof.
  induction fs as [|f r IH]; intros o W H to r0 Hin; cbn [heartbeat_msgs] in H.
  - inversion H; subst. destruct Hin.
  - destruct (_ =? 0) eqn:Z; [discriminate|].
    match type of H with match ?c with _ => _ end = _ => destruct c end; [|discriminate].
    destruct (_ <? _) eqn:Lt; [discriminate|].
    destruct (heartbeat_msgs me s r) as [o'|] eqn:E; [|discriminate].
    inversion H; subst; clear H. destruct Hin as [Hx|Hx]; [|eapply IH; eauto].
    inversion Hx; subst. cbn.
    match goal with |- log_wf_from (?p + 1) (skipn (N.to_nat ?p) _) = true => set (pli := p) in * end.
    replace (pli + 1) with (1 + N.of_nat (N.to_nat pli)) by lia. apply wf_skipn. exact W.
Qed.

Lemma do_emit_good : forall s s' c, NW s -> do_emit s = Some (s', c) -> good s s' [].
Proof.
  intros s s' c HN; unfold do_emit.
  destruct (emitted s <? commit s); [|intro H; inversion H; subst; apply good_refl; auto].
  destruct (commit s <=? len (log s)); [|discriminate].
  intro H; inversion H; subst. destruct HN as (W & Cl & Em).
  unfold good, NW; cbn. repeat split; auto; try lia; try apply stable_refl; try (intros ? ? []).
Qed.

Theorem raft_step_good : forall s i s' o, NW s -> (forall f r, In (f, r) (i_msgs i) -> MW r) ->
  raft_step s i = Some (s', o) -> good s s' (o_outbound o).
Proof.
  intros s i s' o HN HM; unfold raft_step.
  destruct (handle_msgs _ _ s _) as [[s1 oa]|] eqn:Ea; [|discriminate].
  destruct (do_requests s1 _) as [s2 red] eqn:Eb.
  destruct (do_election _ _ _ s2 _) as [s3 oc] eqn:Ec.
  destruct (do_heartbeat _ _ _ _) as [oe|] eqn:Ee; [|discriminate].
  destruct (do_emit _) as [[s5 cm]|] eqn:Ef; [|discriminate].
  intro H; inversion H; subst s' o; clear H. cbn [o_outbound].
  assert (good s s1 oa) as G1.
  { eapply handle_msgs_good; [exact HN| |exact Ea]. intros f r Hin. eapply HM. eapply sort_msgs_In; eauto. }
  assert (good s1 s2 []) as G2 by (eapply do_requests_good; eauto; eapply good_NW; eauto).
  assert (good s2 s3 oc) as G3 by (eapply do_election_good; eauto; eapply good_NW; eauto).
  assert (good s3 (do_commit (i_others i) (majority_of (i_cluster_size i)) s3) []) as G4
    by (apply do_commit_good; eapply good_NW; eauto).
  assert (good (do_commit (i_others i) (majority_of (i_cluster_size i)) s3) s5 []) as G5
    by (eapply do_emit_good; eauto; eapply good_NW; eauto).
  pose proof (good_trans _ _ _ _ _ G1 (good_trans _ _ _ _ _ G2 (good_trans _ _ _ _ _ G3 (good_trans _ _ _ _ _ G4 G5)))) as G.
  cbn [app] in G. rewrite app_nil_r in G.
  destruct G as (A & B & C & D). unfold good. split; [exact A|]. split; [exact B|]. split; [exact C|].
  intros to r Hin. apply in_app_or in Hin. destruct Hin as [Hin|Hin]; [apply (D to r); apply in_or_app; auto|].
  apply in_app_or in Hin. destruct Hin as [Hin|Hin]; [apply (D to r); apply in_or_app; auto|].
  unfold do_heartbeat in Ee. destruct (_ && _) in Ee; [|inversion Ee; subst; destruct Hin].
  eapply heartbeat_MW; eauto. apply (good_NW _ _ _ G4).
Qed.

(* ------------------------------------------------------------------ the network *)
Definition GW (g : gstate) : Prop :=
  (forall m, NW (g_st g m)) /\ (forall f to r, In (f, to, r) (g_sent g) -> MW r).

Lemma GW_init : GW g_init.
Proof.
  split; [|intros ? ? ? []]. intro m; unfold NW; cbn. repeat split; try reflexivity; unfold len; cbn; lia.
Qed.

Lemma gstep_GW : forall n g g', gstep n g g' -> GW g ->
  GW g' /\ forall m, commit (g_st g m) <= commit (g_st g' m) /\
                     stable (commit (g_st g m)) (log (g_st g m)) (log (g_st g' m)).
Proof.
  intros n g g' H [HN HM]. destruct H as [m el hb reqs msgs s' o Hm Ha Hin Hs | | ]; cbn [g_st g_sent].
  - assert (good (g_st g m) s' (o_outbound o)) as (A & B & C & D).
    { eapply raft_step_good; eauto. cbn. intros f r Hfr. eapply HM. eapply Hin; eauto. }
    split; [split|].
    + intro k. cbn [g_st]. destruct (N.eq_dec k m) as [->|Hne]; [rewrite updf_same|rewrite updf_other by auto]; auto.
    + cbn [g_sent]. intros f to r Hi. apply in_app_or in Hi. destruct Hi as [Hi|Hi]; [eapply HM; eauto|].
      unfold tag_out in Hi. apply in_map_iff in Hi. destruct Hi as ([to' r'] & E & Hi). inversion E; subst. eapply D; eauto.
    + intro k. cbn [g_st]. destruct (N.eq_dec k m) as [->|Hne]; [rewrite updf_same|rewrite updf_other by auto]; auto.
      split; [lia|apply stable_refl].
  - split; [split; auto|]. intro k; split; [lia|apply stable_refl].
  - split; [split; auto|]. intro k; split; [lia|apply stable_refl].
Qed.

Lemma gsteps_GW : forall n g g', gsteps n g g' -> GW g ->
  GW g' /\ forall m, commit (g_st g m) <= commit (g_st g' m) /\
                     stable (commit (g_st g m)) (log (g_st g m)) (log (g_st g' m)).
Proof.
  induction 1; intro HG.
  - split; auto. intro m; split; [lia|apply stable_refl].
  - destruct (IHgsteps HG) as (G1 & S1). destruct (gstep_GW _ _ _ H0 G1) as (G2 & S2).
    split; auto. intro m. destruct (S1 m) as (A & B). destruct (S2 m) as (C & D). split; [lia|].
    eapply stable_trans; eauto.
Qed.

Theorem reachable_wf : forall n g, reachable n g -> forall m,
  log_wf (log (g_st g m)) = true /\ commit (g_st g m) <= len (log (g_st g m)) /\
  emitted (g_st g m) <= commit (g_st g m).
Proof. intros n g R m. destruct (gsteps_GW _ _ _ R GW_init) as ((HN & _) & _). apply HN. Qed.

(* what a member has committed it keeps, unchanged, forever: State Machine Safety on the diagonal *)
Theorem committed_prefix_stable : forall n g1 g2, reachable n g1 -> gsteps n g1 g2 ->
  forall a, sms_pair (g_st g1 a) (g_st g2 a).
Proof.
  intros n g1 g2 R S a k e1 e2 H1 H2.
  destruct (gsteps_GW _ _ _ R GW_init) as (G1 & _).
  destruct (gsteps_GW _ _ _ S G1) as (_ & St). destruct (St a) as (Cm & Sb).
  unfold committed_prefix in *.
  assert (k < N.to_nat (commit (g_st g1 a)))%nat as Hk.
  { assert (nth_error (firstn (N.to_nat (commit (g_st g1 a))) (log (g_st g1 a))) k <> None) as Hn by congruence.
    apply nth_error_Some in Hn. rewrite firstn_length in Hn. lia. }
  rewrite nth_error_firstn_lt in H1 by auto. rewrite nth_error_firstn_lt in H2 by lia.
  rewrite (Sb k) in H2 by lia. congruence.
Qed.

(* the leader's commit rule (Raft 5.4.2): the commit index is advanced by counting replicas only
   to an entry of the leader's CURRENT term acknowledged by a majority; entries of earlier terms
   commit only transitively beneath it *)
Lemma commit_scan_spec : forall others maj s k,
  commit_scan others maj s k = commit s \/
  (commit s < commit_scan others maj s k /\
   exists e, nth_error (log s) (N.to_nat (commit_scan others maj s k) - 1) = Some e /\
             e_term e = term s /\ maj <= acks others (match_index s) (commit_scan others maj s k)).
Proof.
  induction k as [|k IH]; cbn [commit_scan]; auto.
  destruct (N.of_nat (S k) <=? commit s) eqn:E; auto.
  destruct (nth_error (log s) k) as [e|] eqn:En; auto.
  destruct ((e_term e =? term s) && (maj <=? acks others (match_index s) (N.of_nat (S k)))) eqn:T; auto.
  right. apply andb_prop in T. destruct T as [T1 T2]. split; [lia|].
  exists e. replace (N.to_nat (N.of_nat (S k)) - 1)%nat with k by lia. repeat split; auto; lia.
Qed.

Theorem leader_commit_rule : forall others maj s,
  commit (do_commit others maj s) <> commit s ->
  rrole s = Leader /\ commit s < commit (do_commit others maj s) /\
  exists e, nth_error (log s) (N.to_nat (commit (do_commit others maj s)) - 1) = Some e /\
            e_term e = term s /\
            maj <= acks others (match_index s) (commit (do_commit others maj s)).
Proof.
  intros others maj s H. unfold do_commit in *. unfold is_leader in *.
  destruct (rrole s) eqn:R; cbn [role_eqb] in *; try congruence. cbn [commit set_commit] in *.
  destruct (commit_scan_spec others maj s (length (log s))) as [E|(L & e & A & B & C)]; [congruence|].
  split; auto. split; auto. exists e; auto.
Qed.

(* the election restriction (Raft 5.4.1): a vote is granted only to a candidate whose last log
   position (term first, then index) is at least the voter's *)
Theorem vote_restriction : forall others maj s from t lli llt s' o to r,
  handle_msg others maj s from (RV t lli llt) = Some (s', o) -> In (to, r) o ->
  pair_ge (llt, lli) (last_log_position s) = true /\ to = from /\ r = RVR (term s') /\ voted_for s' = Some from.
Proof.
  intros others maj s from t lli llt s' o to r H Hin. cbn [handle_msg] in H.
  destruct (observe_term s t) as [s1 cur] eqn:Eo.
  assert (last_log_position s1 = last_log_position s) as EL.
  { unfold observe_term in Eo. destruct (term s <? t); inversion Eo; subst; reflexivity. }
  destruct cur; cbn [negb] in H; [|inversion H; subst; destruct Hin].
  destruct (pair_ge (llt, lli) (last_log_position s1)) eqn:G; cbn [andb] in H; [|inversion H; subst; destruct Hin].
  destruct (match voted_for s1 with None => true | Some v => v =? from end); inversion H; subst; [|destruct Hin].
  destruct Hin as [E|[]]. inversion E; subst. rewrite <- EL. cbn. auto.
Qed.
