(* E10 Proto -- Raft, towards Leader Completeness, stage B2: prefix persistence (ZInv).
   A member that holds a current-term prefix (t, c) -- as the leader of t or by a successful reply
   in term t -- still has that prefix of the leader log of t in its own log, unless some elected
   term between t and its current term lacks it. *)
From Coq Require Import Lia ZifyBool ZifyN Arith.
From HV Require Import Proto.RaftNet Proto.PRaftLocal Proto.PRaftElection Proto.PRaftRefine Proto.PRaftWf
  Proto.PRaftLogLemmas Proto.PRaftLog Proto.PRaftLogRefine Proto.PRaftLogTerms Proto.PRaftLC Proto.PRaftLC2.

Arguments N.add : simpl never.
Arguments N.sub : simpl never.
Arguments N.ltb : simpl never.
Arguments N.leb : simpl never.
Arguments N.eqb : simpl never.

Definition ZInv (y : ystate) : Prop :=
  forall u t c, (0 < c)%nat -> cur y t c -> holds y u t c ->
    (forall t1 q1, t < t1 -> t1 <= term (x_st (y_x y) u) -> In (t1, q1) (x_elected (y_x y)) ->
                   pfx c (y_gl y t1) (y_gl y t)) ->
    pfx c (log (x_st (y_x y) u)) (y_gl y t).

Lemma ZInv_init : ZInv y_init.
Proof. intros u t c Hc (e & He & _). cbn in He. destruct (c - 1)%nat; discriminate. Qed.

Lemma cur_len : forall y t c, (0 < c)%nat -> cur y t c -> (c <= length (y_gl y t))%nat.
Proof. intros y t c Hc (e & He & _). apply nth_error_lt in He. lia. Qed.

Lemma pfx_len : forall c (X Y : list entry), (c <= length Y)%nat -> pfx c X Y -> (c <= length X)%nat.
Proof.
  unfold pfx. intros c X Y L H. assert (length (firstn c X) = length (firstn c Y)) as E by (rewrite H; auto).
  rewrite !firstn_length in E. lia.
Qed.

Lemma pfx_app_r : forall c (X G ext : list entry), (c <= length G)%nat -> (pfx c X (G ++ ext) <-> pfx c X G).
Proof. unfold pfx. intros c X G ext L. rewrite firstn_app_le by auto. tauto. Qed.

Lemma pfx_app_l : forall c (G ext Y : list entry), (c <= length G)%nat -> (pfx c (G ++ ext) Y <-> pfx c G Y).
Proof. unfold pfx. intros c G ext Y L. rewrite firstn_app_le by auto. tauto. Qed.

Lemma pfx_trans : forall c X Y Z, pfx c X Y -> pfx c Y Z -> pfx c X Z.
Proof. unfold pfx; intros; congruence. Qed.
Lemma pfx_sym : forall c X Y, pfx c X Y -> pfx c Y X.
Proof. unfold pfx; intros; congruence. Qed.

(* what an accepted AppendEntries does to the follower's log, relative to the leader log *)
Lemma recv_agree : forall n y m f0 ldr pli plt es lc cmt lg',
  let x := y_x y in let s := x_st x m in
  LInv n y ->
  In (f0, m, AE (term s) ldr pli plt es lc) (x_sent x) ->
  (pli = 0 \/ (pli <= len (log s) /\
               exists e, nth_error (log s) (N.to_nat pli - 1) = Some e /\ e_term e = plt)) ->
  append_entries (log s) cmt es = Some lg' ->
  let G := y_gl y (term s) in let K := (N.to_nat pli + length es)%nat in
  pfx K lg' G /\ (K <= length G)%nat /\
  (forall c, (c <= length (log s))%nat -> pfx c (log s) G -> pfx c lg' G) /\
  (lg' = log s \/ lg' = firstn K G).
Proof.
  intros n y m f0 ldr pli plt es lc cmt lg' x s I Hin Hm Ha G K.
  destruct I as [II L1 L2 L2g L3 L5 L6 L6g L7 L7g]. fold x in L2, L3, L7.
  destruct (L3 _ _ _ _ _ _ _ _ Hin) as [_ (S1 & S2 & S3)]. fold G in S1, S2, S3.
  set (p := N.to_nat pli) in *.
  assert ((p <= length (log s))%nat /\ firstn p (log s) = firstn p G) as [Hp Hpre].
  { destruct (N.eq_dec pli 0) as [Z|NZ].
    - subst p. rewrite Z. cbn. split; auto; lia.
    - destruct Hm as [Hm|(Hm1 & em & Hm2 & Hm3)]; [contradiction|].
      destruct S3 as [S3|(eg & S3 & S4)]; [contradiction|].
      split; [unfold len in Hm1; lia|].
      pose proof (L2 _ _ _ Hm2) as P1. pose proof (L2g _ _ _ S3) as P2. fold s in P1.
      assert (S (p - 1) = p) as Ep by (subst p; lia). fold p in P1, P2. rewrite Ep in P1, P2.
      unfold G in *. rewrite P1, P2, Hm3, S4. auto. }
  assert (forall i e, nth_error (log s) i = Some e -> firstn (S i) (log s) = firstn (S i) (y_gl y (e_term e))) as L2s
    by (intros; apply L2; auto).
  destruct (append_entries_agree (y_gl y) es (log s) cmt p G lg' (L7 m) (L7g _) Hp Hpre S2 L2s (L2g _) Ha) as [A B].
  split; [exact A|]. split.
  - assert (length es <= length (skipn p G))%nat as Le by (rewrite S2 at 1; rewrite firstn_length; lia).
    rewrite skipn_length in Le. unfold K. lia.
  - split; [exact B|].
    eapply (append_entries_shape (y_gl y)); eauto.
Qed.

(* frame: steps that change neither leader logs, nor members' logs, nor the set of leaders, and add
   no successful reply *)
Lemma Z_frame : forall y st' sent' cast',
  (forall f to t c, In (f, to, AER t true c) sent' -> In (f, to, AER t true c) (x_sent (y_x y))) ->
  (forall u, log (st' u) = log (x_st (y_x y) u) /\ term (x_st (y_x y) u) <= term (st' u)) ->
  ZInv y -> ZInv (mkY (mkX st' sent' cast' (x_elected (y_x y))) (y_gl y)).
Proof.
  intros y st' sent' cast' HA HS Z u t c Hc Hcur Hh Hyp.
  cbn [y_x y_gl x_st x_elected x_sent] in *. destruct (HS u) as [EL ET]. rewrite EL.
  apply Z; auto.
  - destruct Hh as [Hh|(c' & (to & Hh) & Lc)]; [left; auto|right]. exists c'. split; auto. exists to. apply HA; auto.
  - intros t1 q1 L1 L2 E1. apply (Hyp t1 q1 L1); [lia|exact E1].
Qed.

Ltac uc3 k m := destruct (N.eq_dec k m) as [->|?]; [rewrite ?updf_same in *|rewrite ?updf_other in * by auto].

Theorem leff_ZInv : forall n y y', leff n y y' -> LInv n y -> LInv2 y -> KInv y -> ZInv y -> ZInv y'.
Proof.
  intros n y y' H I J K Z.
  destruct H as [m s' sent' cast' el' x s He Hl Ht Hr1 Hr2 Hs Hel Hcm Hs2 Hcand Hmi Hincl
                |m s' x s He Hc Hl Ht Hlog Hcm Hvs Hz Hmaj
                |m s' sent' ext x s He Hr Hr' Ht Hlog Hext Hwf Hs Hcm Hmx Hse
                |m s' o x s He Hr Hr' Ht Hlog Ho Hc1 Hmx Hrule Hlc
                |m s' o f0 ldr pli plt es lc cmt x s He Hin Hr Hr' Ht Hm Ha Ho Hcmt Hcm Hoo
                |m s' from lli llt x s He Hlog Ht Hr Hvs Hcm Hmx Hin Hpg
                |m s' u0 x s He Hlog Ht Hr Hr' Hcm Hvs Hin
                |m s' x s He Hlog Ht Hr Hr' Hcm Hvs].
  - (* LSame *) subst el'. apply Z_frame; auto.
    + intros f to t c Hi. destruct (Hs2 _ _ _ Hi) as [Hi'|[_ [(t0 & mi & E)|(l & lt & E & _)]]]; auto; discriminate.
    + intro u. uc3 u m; [split; [exact Hl|exact Ht]|split; [reflexivity|apply N.le_refl]].
  - (* LWin *)
    pose proof (win_fresh n y m s' He Hc I) as F0. fold x in F0. fold s in F0.
    intros u t c Hc0 Hcur Hh Hyp. unfold cur, holds, acked in Hcur, Hh. cbn [y_x y_gl x_st x_elected x_sent] in *.
    assert (t <> term s) as Hne.
    { intro E. destruct Hcur as (e & He' & Te). rewrite E in He'. unfold updf in He'. rewrite N.eqb_refl in He'.
      destruct (l6 _ _ I m _ _ He') as (q & Hq). fold x in Hq. rewrite Te, E in Hq. eapply F0; eauto. }
    rewrite (updf_other _ (y_gl y)) in * by auto.
    assert (log (updf (x_st x) m s' u) = log (x_st x u)) as EL by (uc3 u m; auto). rewrite EL.
    apply Z; [exact Hc0|exact Hcur| |].
    + destruct Hh as [Hh|Hh]; [left|right; exact Hh]. apply in_app_or in Hh. destruct Hh as [Hh|[Hh|[]]]; auto.
      inversion Hh; subst. contradiction.
    + intros t1 q1 L1 L2 E1.
      assert (t1 <> term s) as Hn1 by (intro E; rewrite E in E1; exact (F0 _ E1)).
      specialize (Hyp t1 q1 L1). rewrite (updf_other _ (y_gl y)) in Hyp by auto. apply Hyp.
      * destruct (N.eq_dec u m) as [->|Hnu]; [rewrite updf_same, Ht; exact L2|rewrite updf_other by auto; exact L2].
      * apply in_or_app; left; auto.
  - (* LAppend *)
    assert (log s = y_gl y (term s)) as HG by (apply (l1 _ _ I m); auto).
    assert (In (term s, m) (x_elected x)) as Em by (apply (iF _ _ (lI _ _ I)); auto).
    assert (forall msg, In msg sent' -> In msg (x_sent x)) as A0.
    { intros msg Hi. rewrite Hse in Hi. apply in_app_or in Hi. destruct Hi as [Hi|Hi]; auto. destruct Hi. }
    intros u t c Hc0 Hcur Hh Hyp. unfold cur, holds, acked in Hcur, Hh. cbn [y_x y_gl x_st x_elected x_sent] in *.
    assert (holds y u t c) as Hh0.
    { destruct Hh as [Hh|(c' & (to & Hh) & Lc)]; [left; auto|right; exists c'; split; auto; exists to; auto]. }
    assert (term (updf (x_st x) m s' u) = term (x_st x u)) as ET by (uc3 u m; auto). rewrite ET in Hyp.
    destruct (N.eq_dec t (term s)) as [->|Hne].
    + (* the leader's own term *)
      rewrite updf_same in *.
      destruct (N.eq_dec u m) as [->|Hu]; [rewrite updf_same; unfold pfx; auto|].
      rewrite (updf_other _ (x_st x)) by auto.
      assert (c <= length (y_gl y (term s)))%nat as Lc.
      { destruct Hh0 as [Hh0|(c' & (to & Hh0) & Lc)].
        - exfalso. apply Hu. eapply (Inv_election_safety _ _ (lI _ _ I)); eauto.
        - destruct (k1 _ K _ _ _ _ Hh0) as (A & _). lia. }
      rewrite Hlog, HG. apply pfx_app_r; auto.
      apply Z; auto.
      * destruct Hcur as (e & He' & Te). exists e. split; auto. rewrite Hlog, HG in He'.
        rewrite nth_error_app1 in He' by lia. auto.
      * intros t1 q1 L1 L2 E1. specialize (Hyp t1 q1 L1 L2 E1).
        rewrite (updf_other _ (y_gl y)) in Hyp by lia. rewrite Hlog, HG in Hyp. apply pfx_app_r in Hyp; auto.
    + rewrite (updf_other _ (y_gl y)) in * by auto.
      pose proof (cur_len _ _ _ Hc0 Hcur) as Lt.
      assert (pfx c (log (x_st x u)) (y_gl y t)) as P.
      { apply Z; auto. intros t1 q1 L1 L2 E1. specialize (Hyp t1 q1 L1 L2 E1).
        destruct (N.eq_dec t1 (term s)) as [->|Hn1]; [|rewrite (updf_other _ (y_gl y)) in Hyp by auto; auto].
        rewrite updf_same, Hlog, HG in Hyp.
        assert (c <= length (y_gl y (term s)))%nat as Lc.
        { destruct (le_lt_dec c (length (y_gl y (term s)))) as [L|L]; auto. exfalso.
          destruct Hcur as (e & He' & Te).
          assert (c - 1 < c)%nat as Lk by lia. pose proof (pfx_nth _ _ _ _ Lk Hyp) as Q. rewrite He' in Q.
          rewrite nth_error_app2 in Q by lia.
          apply nth_error_In in Q. rewrite (Hext _ Q) in Te. lia. }
        apply pfx_app_l in Hyp; auto. }
      uc3 u m; auto. rewrite Hlog. apply pfx_app_l; auto. eapply pfx_len; eauto.
  - (* LSend *) apply Z_frame; auto.
    + intros f to t c Hi. apply in_app_or in Hi. destruct Hi as [Hi|Hi]; auto. apply tag_in in Hi. destruct Hi as [_ Hi].
      destruct (Ho _ _ Hi) as (p0 & p1 & p2 & E & _). discriminate.
    + intro u. uc3 u m; [split; [assumption|fold x; fold s; lia]|split; [reflexivity|apply N.le_refl]].
  - (* LRecv *)
    subst o cmt.
    destruct (recv_agree n y m f0 ldr pli plt es lc (commit s) (log s') I Hin Hm Ha) as (A & LK & B & _).
    fold x in A, LK, B. fold s in A, LK, B.
    destruct (l3 _ _ I _ _ _ _ _ _ _ _ Hin) as [El _]. fold x in El.
    intros u t c Hc0 Hcur Hh Hyp. unfold cur, holds, acked in Hcur, Hh. cbn [y_x y_gl x_st x_elected x_sent] in *.
    assert (term (updf (x_st x) m s' u) = term (x_st x u)) as ET by (uc3 u m; auto). rewrite ET in Hyp.
    destruct (N.eq_dec u m) as [->|Hu].
    2:{ rewrite (updf_other _ (x_st x)) by auto. apply Z; auto.
        destruct Hh as [Hh|(c' & (to & Hh) & Lc)]; [left; auto|right]. exists c'. split; auto. exists to.
        apply in_app_or in Hh. destruct Hh as [Hh|Hh]; auto. apply tag_in in Hh. destruct Hh; contradiction. }
    rewrite updf_same. fold s in Hyp.
    pose proof (cur_len _ _ _ Hc0 Hcur) as Lt.
    (* the new acknowledgement, or an old holder fact *)
    assert ((t = term s /\ (c <= N.to_nat pli + length es)%nat) \/ holds y m t c) as Hcase.
    { destruct Hh as [Hh|(c' & (to & Hh) & Lc)]; [right; left; auto|].
      apply in_app_or in Hh. destruct Hh as [Hh|Hh]; [right; right; exists c'; split; auto; exists to; auto|].
      apply tag_in in Hh. destruct Hh as [_ [E|[]]]. inversion E; subst. left. split; auto. unfold len in *. lia. }
    destruct Hcase as [[-> Lc]|Hh0].
    + eapply pfx_le; eauto.
    + assert (t <= term s) as Lts.
      { destruct Hh0 as [Hh0|(c' & (to & Hh0) & Lc)].
        - destruct (l5 _ _ I _ _ Hh0) as [A0 _]. auto.
        - destruct (k1 _ K _ _ _ _ Hh0) as (_ & B0 & _). auto. }
      assert (pfx c (log s) (y_gl y t)) as P by (apply Z; auto).
      destruct (N.eq_dec t (term s)) as [->|Hne].
      * apply B; auto. eapply pfx_len; eauto.
      * assert (pfx c (y_gl y (term s)) (y_gl y t)) as Pg by (apply (Hyp (term s) f0); auto; lia).
        eapply pfx_trans; [|exact Pg]. apply B; [eapply pfx_len; eauto|].
        eapply pfx_trans; [exact P|apply pfx_sym; exact Pg].
  - (* LGrant *) apply Z_frame; auto.
    + intros f to t c Hi. apply in_app_or in Hi. destruct Hi as [Hi|Hi]; auto. apply tag_in in Hi.
      destruct Hi as [_ [E|[]]]. discriminate.
    + intro u. uc3 u m; [split; [assumption|fold x; fold s; lia]|split; [reflexivity|apply N.le_refl]].
  - (* LVote *) apply Z_frame; auto. intro u. uc3 u m; [split; [assumption|fold x; fold s; lia]|split; [reflexivity|apply N.le_refl]].
  - (* LCand *) apply Z_frame; auto. intro u. uc3 u m; [split; [assumption|fold x; fold s; lia]|split; [reflexivity|apply N.le_refl]].
Qed.
