(* E10 Proto -- Raft: every raft_step of the network is a sequence of log-aware effects (leff), so
   the log invariant LInv -- hence Log Matching -- holds in every reachable state. *)
From Coq Require Import Lia ZifyBool ZifyN Arith.
From HV Require Import Proto.RaftNet Proto.PRaftLocal Proto.PRaftElection Proto.PRaftRefine Proto.PRaftWf
  Proto.PRaftLogLemmas Proto.PRaftLog.

Arguments N.add : simpl never.
Arguments N.sub : simpl never.
Arguments N.div : simpl never.
Arguments N.ltb : simpl never.
Arguments N.leb : simpl never.
Arguments N.eqb : simpl never.

Definition lreaches (n : N) (y : ystate) (m : N) (s' : rstate) (o : list (N * rpc)) : Prop :=
  exists y', leffs n y y' /\ upd_to (y_x y) (y_x y') m s' o.

Lemma lreaches_refl : forall n y m, lreaches n y m (x_st (y_x y) m) [].
Proof.
  intros n y m. exists y. split; [apply leffs_refl|]. split.
  - intro k. unfold updf. destruct (k =? m) eqn:E; auto. apply N.eqb_eq in E; subst; auto.
  - cbn. rewrite app_nil_r; auto.
Qed.

Lemma lreaches_refl' : forall n y m s, s = x_st (y_x y) m -> lreaches n y m s [].
Proof. intros; subst; apply lreaches_refl. Qed.

Lemma lreaches_then : forall n y m s1 o1 s2 o2,
  lreaches n y m s1 o1 ->
  (forall y1, upd_to (y_x y) (y_x y1) m s1 o1 -> lreaches n y1 m s2 o2) ->
  lreaches n y m s2 (o1 ++ o2).
Proof.
  intros n y m s1 o1 s2 o2 (y1 & E1 & U1) K.
  destruct (K y1 U1) as (y2 & E2 & U2).
  exists y2. split; [eapply leffs_trans; eauto|].
  destruct U1 as [U1a U1b], U2 as [U2a U2b]. split.
  - intro k. rewrite U2a. unfold updf. destruct (k =? m) eqn:E; auto.
    rewrite U1a. unfold updf. rewrite E; auto.
  - rewrite U2b, U1b. unfold tag_out. rewrite map_app, app_assoc; auto.
Qed.

Lemma no_ae_sent : forall (sent : list (N * N * rpc)) m o,
  (forall to r, In (to, r) o -> no_ae r) ->
  forall f to r, In (f, to, r) (sent ++ tag_out m o) -> In (f, to, r) sent \/ no_ae r.
Proof.
  intros sent m o H f to r Hin. apply in_app_or in Hin. destruct Hin as [Hin|Hin]; auto.
  unfold tag_out in Hin. apply in_map_iff in Hin. destruct Hin as ([to' r'] & E & Hin). cbn in E.
  inversion E; subst. right. eapply H; eauto.
Qed.

(* association-list lemmas for match_index *)
Lemma mget_mdel : forall k k' m, mget k' (mdel k m) = if k' =? k then None else mget k' m.
Proof.
  induction m as [|[k0 v0] r IH]; cbn; [destruct (k' =? k); auto|].
  destruct (k =? k0) eqn:E.
  - rewrite IH. destruct (k' =? k) eqn:E1; auto. destruct (k' =? k0) eqn:E2; auto. lia.
  - cbn. destruct (k' =? k0) eqn:E2; auto. destruct (k' =? k) eqn:E1; auto. lia.
Qed.

Lemma mget_mins : forall k v k' m, mget k m = None ->
  mget k' (mins k v m) = if k' =? k then Some v else mget k' m.
Proof.
  induction m as [|[k0 v0] r IH]; intro H; cbn in *; [destruct (k' =? k); auto|].
  destruct (k =? k0) eqn:E0; [discriminate|].
  destruct (k <? k0); cbn.
  - destruct (k' =? k) eqn:E1; auto.
  - destruct (k' =? k0) eqn:E2.
    + destruct (k' =? k) eqn:E1; auto. lia.
    + apply IH; auto.
Qed.

Lemma mget_mset : forall k v k' m, mget k' (mset k v m) = if k' =? k then Some v else mget k' m.
Proof.
  intros. unfold mset. rewrite mget_mins.
  - destruct (k' =? k) eqn:E; auto. rewrite mget_mdel, E. auto.
  - rewrite mget_mdel, N.eqb_refl. auto.
Qed.

Lemma become_leader_match_zero : forall s others f v,
  mget f (match_index (become_leader s others)) = Some v -> v = 0.
Proof.
  intros s others f v. cbn [become_leader match_index].
  assert (forall acc, (forall f v, mget f acc = Some v -> v = 0) ->
            forall f v, mget f (fold_left (fun m f0 => mset f0 0 m) others acc) = Some v -> v = 0) as K.
  { induction others as [|o r IH]; intros acc Hacc f0 v0; cbn [fold_left]; [apply Hacc|].
    apply IH. intros f1 v1. rewrite mget_mset. destruct (f1 =? o); [intro E; inversion E; auto|apply Hacc]. }
  apply K. intros f0 v0; cbn; discriminate.
Qed.

Lemma lmsg_no_ae : forall s' r, lmsg s' r -> no_ae r.
Proof. intros s' r [(t & mi & ->)|(l & lt & -> & _)]; exact I. Qed.

Lemma lmsg_no_rvr : forall s' o, (forall (to : N) r, In (to, r) o -> lmsg s' r) -> no_rvr o.
Proof. intros s' o H to t Hin. destruct (H _ _ Hin) as [(t0 & mi & E)|(l & lt & E & _)]; discriminate. Qed.

Lemma lmsg_sent : forall (sent : list (N * N * rpc)) m s' o,
  (forall to r, In (to, r) o -> lmsg s' r) ->
  forall f to r, In (f, to, r) (sent ++ tag_out m o) -> In (f, to, r) sent \/ (f = m /\ lmsg s' r).
Proof.
  intros sent m s' o H f to r Hin. apply in_app_or in Hin. destruct Hin as [Hin|Hin]; auto.
  unfold tag_out in Hin. apply in_map_iff in Hin. destruct Hin as ([to' r'] & E & Hin). cbn in E.
  inversion E; subst. right. split; auto. eapply H; eauto.
Qed.

Lemma mi_ok_same : forall x m s s', match_index s' = match_index s -> mi_ok x m s s'.
Proof. intros x m s s' E R f v H _. left. congruence. Qed.

(* a quiet effect that keeps the log and sends no AppendEntries *)
Lemma l_quiet : forall n y m s' o, m < n ->
  let s := x_st (y_x y) m in
  term s' = term s -> voted_for s' = voted_for s -> votes s' = votes s ->
  (rrole s' = rrole s \/ rrole s' = Follower) -> (rrole s = Leader -> rrole s' = Leader) ->
  log s' = log s -> commit s' = commit s -> (forall to r, In (to, r) o -> lmsg s' r) ->
  mi_ok (y_x y) m s s' ->
  lreaches n y m s' o.
Proof.
  intros n y m s' o Hm s Ht Hv Hvs Hr Hrl Hl Hc Ho Hmi.
  eexists. split.
  - apply leffs_one. eapply (LSame n y m s' (x_sent (y_x y) ++ tag_out m o) (x_cast (y_x y)) (x_elected (y_x y))).
    + eapply EQuiet; eauto. eapply lmsg_no_rvr; eauto.
    + exact Hl.
    + fold s. lia.
    + intro R. fold s. split; auto. destruct Hr as [Hr|Hr]; congruence.
    + intros R _. apply Hrl; auto.
    + apply no_ae_sent. intros to r Hin. eapply lmsg_no_ae; eauto.
    + reflexivity.
    + exact Hc.
    + apply lmsg_sent; auto.
    + intro R. fold s. destruct Hr as [Hr|Hr]; [repeat split; congruence|congruence].
    + exact Hmi.
    + apply incl_appl, incl_refl.
  - split; cbn; auto.
Qed.

Lemma l_observe : forall n y m t s1 cur, m < n ->
  observe_term (x_st (y_x y) m) t = (s1, cur) -> lreaches n y m s1 [].
Proof.
  intros n y m t s1 cur Hm; unfold observe_term.
  destruct (term (x_st (y_x y) m) <? t) eqn:E; intro H; inversion H; subst; clear H; [|apply lreaches_refl].
  eexists. split.
  - apply leffs_one.
    eapply (LSame n y m (set_term_reset (x_st (y_x y) m) t) (x_sent (y_x y)) (x_cast (y_x y)) (x_elected (y_x y))).
    + eapply EBump; cbn; auto. lia.
    + reflexivity.
    + cbn. lia.
    + cbn. discriminate.
    + cbn. intros _ T. lia.
    + intros; auto.
    + reflexivity.
    + reflexivity.
    + intros; auto.
    + cbn. discriminate.
    + intro R. cbn in R. discriminate.
    + apply incl_refl.
  - split; cbn; auto. rewrite app_nil_r; auto.
Qed.

Lemma aer_lmsg : forall (to : N) s s' mi to' r, In (to', r) [(to, aer s false mi)] -> lmsg s' r.
Proof. intros to s s' mi to' r [H|[]]. inversion H; subst. left. unfold aer. eauto. Qed.

Lemma nil_lmsg : forall s' (to : N) (r : rpc), In (to, r) [] -> lmsg s' r.
Proof. intros s' to r []. Qed.

Lemma aer_no_ae : forall (to : N) s b mi to' r, In (to', r) [(to, aer s b mi)] -> no_ae r.
Proof. intros to s b mi to' r [H|[]]. inversion H; subst. exact I. Qed.

Lemma nil_no_ae : forall (to : N) (r : rpc), In (to, r) [] -> no_ae r.
Proof. intros to r []. Qed.

Lemma l_handle_msg : forall n y m from r s' o, m < n ->
  In (from, m, r) (x_sent (y_x y)) ->
  handle_msg (others_of n m) (majority_of n) (x_st (y_x y) m) from r = Some (s', o) ->
  lreaches n y m s' o.
Proof.
  intros n y m from r s' o Hm Hin H.
  destruct r as [t lli llt | t | t leader pli plt es lc | t succ mi]; cbn [handle_msg] in H;
    destruct (observe_term (x_st (y_x y) m) t) as [s1 cur] eqn:Eo;
    change o with ([] ++ o); (eapply lreaches_then; [eapply l_observe; eauto|]);
    intros y1 U; pose proof (upd_to_here _ _ _ _ _ U) as Hs1;
    destruct cur; cbn [negb] in H.
  - (* RV, current *)
    pose proof (observe_term_cur _ _ _ Eo) as Ht.
    destruct (pair_ge (llt, lli) (last_log_position s1)) eqn:PG; cbn [andb] in H;
      [|inversion H; subst; apply lreaches_refl'; auto].
    destruct (match voted_for s1 with None => true | Some v => v =? from end) eqn:G;
      inversion H; subst s' o; clear H; [|apply lreaches_refl'; auto].
    eexists. split.
    + apply leffs_one.
      eapply (LGrant n y1 m (set_voted (x_st (y_x y1) m) (Some from)) from lli llt); try reflexivity.
      * eapply (EGrant n (y_x y1) m (set_voted (x_st (y_x y1) m) (Some from)) from); cbn; auto.
        rewrite Hs1. destruct (voted_for s1) as [v|]; auto. right. f_equal. lia.
      * rewrite Hs1, Ht. eapply upd_to_sent; eauto.
      * rewrite Hs1. exact PG.
    + rewrite <- Hs1. split; cbn; auto.
  - inversion H; subst; apply lreaches_refl'; auto.
  - (* RVR, current *)
    destruct (rrole s1) eqn:Er; try (inversion H; subst; apply lreaches_refl'; auto; fail).
    pose proof (observe_term_cur _ _ _ Eo) as Ht.
    set (s2 := set_votes s1 (sins from (votes s1))) in *.
    assert (lreaches n y1 m s2 []) as R2.
    { eexists. split.
      - apply leffs_one. eapply (LVote n y1 m s2 from); rewrite ?Hs1; try (subst s2; cbn; auto; fail).
        + eapply (EVote n (y_x y1) m s2 from); subst s2; rewrite ?Hs1; cbn; auto.
          rewrite Ht. eapply upd_to_sent; eauto.
        + rewrite Ht. eapply upd_to_sent; eauto.
      - split; cbn; auto. rewrite app_nil_r; auto. }
    destruct (majority_of n <=? len (votes s2)) eqn:Emaj; inversion H; subst s' o; clear H; auto.
    change (@nil (N * rpc)) with (@nil (N * rpc) ++ []).
    eapply lreaches_then; [exact R2|]. intros y2 U2. pose proof (upd_to_here _ _ _ _ _ U2) as Hs2.
    eexists. split.
    + apply leffs_one. eapply (LWin n y2 m (become_leader s2 (others_of n m))).
      * eapply (EWin n (y_x y2) m (become_leader s2 (others_of n m))); rewrite ?Hs2;
          first [apply N.leb_le; exact Emaj | subst s2; cbn; auto].
      * rewrite Hs2; subst s2; cbn; auto.
      * reflexivity.
      * rewrite Hs2; reflexivity.
      * rewrite Hs2; reflexivity.
      * rewrite Hs2; reflexivity.
      * rewrite Hs2; reflexivity.
      * apply become_leader_match_zero.
      * rewrite Hs2. apply N.leb_le; exact Emaj.
    + split; cbn; auto. rewrite app_nil_r; auto.
  - inversion H; subst; apply lreaches_refl'; auto.
  - (* AE, current *)
    destruct (is_leader s1) eqn:IL; [discriminate|].
    assert (rrole s1 <> Leader) as NL by (unfold is_leader in IL; destruct (rrole s1); cbn in IL; congruence).
    pose proof (observe_term_cur _ _ _ Eo) as Ht.
    match type of H with (if negb ?c then _ else _) = _ => destruct c eqn:LM end; cbn [negb] in H.
    + cbn [set_follow log commit] in H, LM.
      destruct (append_entries (log s1) (commit s1) es) as [lg|] eqn:Ea; [|discriminate].
      assert (exists sF, s' = sF /\ log sF = lg /\ term sF = term s1 /\ voted_for sF = voted_for s1 /\
                         votes sF = votes s1 /\ (rrole sF = rrole s1 \/ rrole sF = Follower) /\
                         rrole sF = Follower /\ o = [(from, aer sF true (pli + len es))] /\
                         commit sF = (if commit s1 <? N.min lc (pli + len es) then N.min lc (pli + len es) else commit s1))
        as (sF & -> & F1 & F2 & F3 & F4 & F5 & F6 & -> & F7).
      { inversion H; subst s' o; clear H.
        match goal with |- exists sF, (if ?c then ?a else ?b) = sF /\ _ => exists (if c then a else b) end.
        split; auto. destruct (_ <? _); cbn; repeat split; auto;
          try (destruct (rrole s1); auto; fail); destruct (rrole s1); auto; congruence. }
      eexists. split.
      * apply leffs_one.
        eapply (LRecv n y1 m sF [(from, aer sF true (pli + len es))] from leader pli plt es lc (commit s1));
          rewrite ?Hs1; auto.
        -- eapply EQuiet; rewrite ?Hs1; eauto. apply no_rvr_aer.
        -- rewrite Ht. eapply upd_to_sent; eauto.
        -- apply orb_prop in LM. destruct LM as [LM|LM]; [left; lia|]. right.
           apply andb_prop in LM. destruct LM as [LM1 LM2]. split; [lia|].
           unfold log_at in LM2. destruct (pli =? 0) eqn:Z; [discriminate|].
           replace (N.to_nat (pli - 1)) with (N.to_nat pli - 1)%nat in LM2 by lia.
           destruct (nth_error (log s1) (N.to_nat pli - 1)) as [e|]; [|discriminate]. exists e. split; auto. lia.
        -- rewrite F1. exact Ea.
        -- apply aer_no_ae.
        -- unfold aer. rewrite F2. reflexivity.
      * split; cbn; auto.
    + inversion H; subst s' o; clear H.
      apply l_quiet; auto; rewrite ?Hs1; cbn; auto; try (destruct (rrole s1); auto; congruence);
        [apply aer_lmsg|apply mi_ok_same; reflexivity].
  - (* AE, stale *)
    inversion H; subst s' o; clear H.
    apply l_quiet; auto; rewrite ?Hs1; auto; [apply aer_lmsg|apply mi_ok_same; reflexivity].
  - (* AER, current *)
    pose proof (observe_term_cur _ _ _ Eo) as Ht.
    destruct (is_leader s1); cbn [negb] in H; [|inversion H; subst; apply lreaches_refl'; auto].
    destruct succ.
    + inversion H; subst s' o; clear H. apply l_quiet; auto; rewrite ?Hs1; cbn; auto; [apply nil_lmsg|].
      intros R f v Hv Hpos. cbn [match_index set_indexes] in Hv. rewrite mget_mset in Hv.
      destruct (f =? from) eqn:Ef.
      * assert (f = from) by lia. subst f. inversion Hv as [Hv']; clear Hv.
        destruct (mget from (match_index s1)) as [b0|] eqn:Eb.
        -- destruct (b0 <? mi) eqn:Lt; [|left; congruence].
           right. rewrite Ht. eapply upd_to_sent; eauto.
        -- destruct (0 <? mi) eqn:Lt; [|lia]. right. rewrite Ht. eapply upd_to_sent; eauto.
      * left; auto.
    + destruct (mget from (next_index s1)) as [nx|]; [|inversion H; subst; apply lreaches_refl'; auto].
      destruct (nx =? 0); [discriminate|].
      inversion H; subst s' o; clear H. apply l_quiet; auto; rewrite ?Hs1; cbn; auto;
        [apply nil_lmsg|apply mi_ok_same; reflexivity].
  - inversion H; subst; apply lreaches_refl'; auto.
Qed.

Lemma l_handle_msgs : forall n m ms y s' o, m < n ->
  (forall f r, In (f, r) ms -> In (f, m, r) (x_sent (y_x y))) ->
  handle_msgs (others_of n m) (majority_of n) (x_st (y_x y) m) ms = Some (s', o) ->
  lreaches n y m s' o.
Proof.
  induction ms as [|[from r] rest IH]; intros y s' o Hm Hin H; cbn [handle_msgs] in H.
  - inversion H; subst. apply lreaches_refl.
  - destruct (handle_msg _ _ (x_st (y_x y) m) from r) as [[s1 o1]|] eqn:E1; [|discriminate].
    destruct (handle_msgs _ _ s1 rest) as [[s2 o2]|] eqn:E2; [|discriminate].
    inversion H; subst s' o; clear H.
    eapply lreaches_then.
    + eapply l_handle_msg; eauto. apply Hin; left; auto.
    + intros y1 U. apply IH; auto.
      * intros f r0 Hfr. eapply upd_to_sent; eauto. apply Hin; right; auto.
      * rewrite (upd_to_here _ _ _ _ _ U); auto.
Qed.

(* client requests at a leader: an append of entries of its term *)
Lemma do_requests_leader : forall reqs s s' red, rrole s = Leader -> do_requests s reqs = (s', red) ->
  exists ext, log s' = log s ++ ext /\ (forall e, In e ext -> e_term e = term s) /\
              term s' = term s /\ rrole s' = Leader /\ voted_for s' = voted_for s /\ votes s' = votes s /\
              (log_wf (log s) = true -> log_wf (log s') = true) /\ commit s' = commit s /\
              match_index s' = match_index s.
Proof.
  induction reqs as [|x r IH]; intros s s' red R H; cbn [do_requests] in H.
  - inversion H; subst. exists []. rewrite app_nil_r. repeat split; auto. intros e [].
  - unfold is_leader in H. rewrite R in H. cbn [role_eqb] in H.
    assert (rrole (set_log s (log s ++ [mkE x (term s) (len (log s) + 1)])) = Leader) as R' by (cbn; exact R).
    destruct (IH _ _ _ R' H) as (ext & A & B & C & D & E & F & G & G7 & G8). cbn in *.
    exists (mkE x (term s) (len (log s) + 1) :: ext).
    split; [rewrite A, <- app_assoc; reflexivity|].
    split; [intros e [<-|He]; auto|].
    repeat split; auto.
    intro W. apply G. unfold log_wf. rewrite wf_app. apply andb_true_intro; split; auto.
    cbn [log_wf_from e_index]. apply andb_true_intro; split; auto. lia.
Qed.

Lemma do_requests_follower : forall reqs s s' red, rrole s <> Leader -> do_requests s reqs = (s', red) -> s' = s.
Proof.
  induction reqs as [|x r IH]; intros s s' red R H; cbn [do_requests] in H.
  - inversion H; auto.
  - assert (is_leader s = false) as IL by (unfold is_leader; destruct (rrole s) eqn:ER; cbn; congruence).
    rewrite IL in H. destruct (do_requests s r) as [s2 red2] eqn:E2. inversion H; subst. eapply IH; eauto.
Qed.

Lemma l_requests : forall n y m reqs s2 red, m < n ->
  do_requests (x_st (y_x y) m) reqs = (s2, red) -> lreaches n y m s2 [].
Proof.
  intros n y m reqs s2 red Hm H. destruct (rrole (x_st (y_x y) m)) eqn:R.
  - assert (rrole (x_st (y_x y) m) <> Leader) as NL by congruence.
    rewrite (do_requests_follower _ _ _ _ NL H). apply lreaches_refl.
  - assert (rrole (x_st (y_x y) m) <> Leader) as NL by congruence.
    rewrite (do_requests_follower _ _ _ _ NL H). apply lreaches_refl.
  - destruct (do_requests_leader _ _ _ _ R H) as (ext & A & B & C & D & E & F & G & H7 & H8).
    eexists. split.
    + apply leffs_one.
      eapply (LAppend n y m s2 (x_sent (y_x y) ++ tag_out m []) ext); auto.
      * eapply EQuiet; eauto; [left; congruence|apply no_rvr_nil].
      * apply no_ae_sent. apply nil_no_ae.
    + split; cbn; auto.
Qed.

Lemma rv_no_ae : forall t lli llt (others : list N) (to : N) r,
  In (to, r) (map (fun x : N => (x, RV t lli llt)) others) -> no_ae r.
Proof. intros t lli llt others to r H. apply in_map_iff in H. destruct H as (z & E & _). inversion E; exact I. Qed.

Lemma l_election : forall n y m fired s' o, m < n ->
  do_election m (others_of n m) (majority_of n) (x_st (y_x y) m) fired = (s', o) -> lreaches n y m s' o.
Proof.
  intros n y m fired s' o Hm; unfold do_election.
  destruct (fired && negb (is_leader (x_st (y_x y) m))) eqn:F; [|intro H; inversion H; subst; apply lreaches_refl].
  assert (rrole (x_st (y_x y) m) <> Leader) as NL.
  { apply andb_prop in F. destruct F as [_ F]. unfold is_leader in F. destruct (rrole (x_st (y_x y) m)); cbn in F; congruence. }
  destruct (hb_seen (x_st (y_x y) m)).
  - intro H; inversion H; subst. apply l_quiet; cbn; auto; [apply nil_lmsg|apply mi_ok_same; reflexivity].
  - set (sc := mkS (term (x_st (y_x y) m) + 1) (Some m) Candidate [m] false None (log (x_st (y_x y) m))
                   (commit (x_st (y_x y) m)) (emitted (x_st (y_x y) m)) (next_index (x_st (y_x y) m))
                   (match_index (x_st (y_x y) m))).
    assert (lreaches n y m sc []) as Rc.
    { eexists. split.
      - apply leffs_one. eapply (LCand n y m sc); try (subst sc; cbn; auto; fail).
        eapply (ECand n (y_x y) m sc); subst sc; cbn; auto.
      - split; cbn; auto. rewrite app_nil_r; auto. }
    destruct (majority_of n <=? 1) eqn:Emaj.
    + intro H; inversion H; subst s' o; clear H.
      change (@nil (N * rpc)) with (@nil (N * rpc) ++ []).
      eapply lreaches_then; [exact Rc|]. intros y1 U. pose proof (upd_to_here _ _ _ _ _ U) as Hs.
      eexists. split.
      * apply leffs_one. eapply (LWin n y1 m (become_leader sc (others_of n m))).
        -- eapply (EWin n (y_x y1) m (become_leader sc (others_of n m))); rewrite ?Hs; subst sc; cbn; auto.
           unfold len; cbn. lia.
        -- rewrite Hs; subst sc; cbn; auto.
        -- reflexivity.
        -- rewrite Hs; reflexivity.
        -- rewrite Hs; reflexivity.
        -- rewrite Hs; reflexivity.
        -- rewrite Hs; reflexivity.
        -- apply become_leader_match_zero.
        -- rewrite Hs. subst sc; cbn. unfold len; cbn. lia.
      * split; cbn; auto. rewrite app_nil_r; auto.
    + destruct (last_log_position sc) as [llt lli] eqn:El. intro H; inversion H; subst s' o; clear H.
      match goal with |- lreaches _ _ _ _ ?o => change o with ([] ++ o) end.
      eapply lreaches_then; [exact Rc|]. intros y1 U. pose proof (upd_to_here _ _ _ _ _ U) as Hs.
      apply l_quiet; auto; rewrite ?Hs; auto; [|apply mi_ok_same; reflexivity].
      intros to r Hin. apply in_map_iff in Hin. destruct Hin as (z & E & _). inversion E; subst. right.
      exists lli, llt. repeat split; auto.
Qed.

Lemma heartbeat_ae_from : forall me s fs o, heartbeat_msgs me s fs = Some o ->
  forall to r, In (to, r) o -> ae_from (term s) me (log s) r.
Proof.
  induction fs as [|f r IH]; intros o H to r0 Hin; cbn [heartbeat_msgs] in H.
  - inversion H; subst. destruct Hin.
  - match type of H with (if ?c then _ else _) = _ => destruct c eqn:Z end; [discriminate|].
    match type of H with match ?c with _ => _ end = _ => destruct c as [plt|] eqn:P end; [|discriminate].
    match type of H with (if ?c then _ else _) = _ => destruct c eqn:Lt end; [discriminate|].
    destruct (heartbeat_msgs me s r) as [o'|] eqn:E; [|discriminate].
    inversion H; subst o; clear H. destruct Hin as [Hx|Hx]; [|eapply IH; eauto].
    inversion Hx; subst to r0; clear Hx.
    match goal with |- context [AE _ _ ?p _ _ _] => set (pli := p) in * end.
    exists pli, plt, (commit s). split; auto. split; [unfold len in Lt; lia|]. split.
    + rewrite firstn_all. auto.
    + destruct (pli =? 0) eqn:Z0; [left; lia|right].
      unfold log_at in P. rewrite Z0 in P.
      replace (N.to_nat (pli - 1)) with (N.to_nat pli - 1)%nat in P by lia.
      destruct (nth_error (log s) (N.to_nat pli - 1)) as [e|]; [|discriminate]. cbn in P. inversion P.
      exists e; auto.
Qed.

Lemma commit_emit_log : forall others maj s s' cm,
  do_emit (do_commit others maj s) = Some (s', cm) -> log s' = log s.
Proof.
  intros others maj s s' cm; unfold do_emit.
  destruct (_ <? _); [destruct (_ <=? _); [|discriminate]|];
    intro H; inversion H; subst; unfold do_commit; destruct (is_leader s); cbn; auto.
Qed.

Lemma commit_emit_more : forall others maj s s' cm,
  do_emit (do_commit others maj s) = Some (s', cm) ->
  match_index s' = match_index s /\ commit s' = commit (do_commit others maj s).
Proof.
  intros others maj s s' cm; unfold do_emit.
  destruct (_ <? _); [destruct (_ <=? _); [|discriminate]|];
    intro H; inversion H; subst; unfold do_commit; destruct (is_leader s); cbn; auto.
Qed.

Lemma heartbeat_lc : forall me s fs o, heartbeat_msgs me s fs = Some o ->
  forall to t ldr pli plt es lc, In (to, AE t ldr pli plt es lc) o -> lc = commit s.
Proof.
  induction fs as [|f r IH]; intros o H to t ldr pli plt es lc Hin; cbn [heartbeat_msgs] in H.
  - inversion H; subst. destruct Hin.
  - match type of H with (if ?c then _ else _) = _ => destruct c end; [discriminate|].
    match type of H with match ?c with _ => _ end = _ => destruct c end; [|discriminate].
    match type of H with (if ?c then _ else _) = _ => destruct c end; [discriminate|].
    destruct (heartbeat_msgs me s r) as [o'|] eqn:E; [|discriminate].
    inversion H; subst o; clear H. destruct Hin as [Hx|Hx]; [inversion Hx; auto|eapply IH; eauto].
Qed.

Theorem l_raft_step : forall n y m el hb reqs msgs s' o, m < n ->
  (forall f r, In (f, r) msgs -> In (f, m, r) (x_sent (y_x y))) ->
  raft_step (x_st (y_x y) m) (mk_input n m el hb reqs msgs) = Some (s', o) ->
  lreaches n y m s' (o_outbound o).
Proof.
  intros n y m el hb reqs msgs s' o Hm Hin; unfold raft_step, mk_input;
    cbn [i_me i_others i_cluster_size i_el i_hb i_reqs i_msgs].
  destruct (handle_msgs _ _ (x_st (y_x y) m) _) as [[s1 oa]|] eqn:Ea; [|discriminate].
  destruct (do_requests s1 _) as [s2 red] eqn:Eb.
  destruct (do_election _ _ _ s2 _) as [s3 oc] eqn:Ec.
  destruct (do_heartbeat _ _ _ _) as [oe|] eqn:Ee; [|discriminate].
  destruct (do_emit _) as [[s5 cm]|] eqn:Ef; [|discriminate].
  intro H; inversion H; subst s' o; clear H. cbn [o_outbound].
  eapply lreaches_then.
  { eapply l_handle_msgs; [exact Hm| |exact Ea]. intros f r Hfr. apply Hin. apply sort_msgs_In; auto. }
  intros y1 U1. pose proof (upd_to_here _ _ _ _ _ U1) as H1.
  match goal with |- lreaches _ _ _ _ ?o => change o with ([] ++ o) end.
  eapply lreaches_then.
  { eapply l_requests; eauto. rewrite H1. eauto. }
  intros y2 U2. pose proof (upd_to_here _ _ _ _ _ U2) as H2.
  eapply lreaches_then.
  { eapply l_election; eauto. rewrite H2. eauto. }
  intros y3 U3. pose proof (upd_to_here _ _ _ _ _ U3) as H3.
  destruct (commit_emit_quiet _ _ _ _ _ Ef) as (Q1 & Q2 & Q3 & Q4).
  pose proof (commit_emit_log _ _ _ _ _ Ef) as QL. destruct (commit_emit_more _ _ _ _ _ Ef) as [QM QC].
  destruct (rrole s3) eqn:R3.
  - assert (oe = []) as ->.
    { assert (is_leader (do_commit (others_of n m) (majority_of n) s3) = false) as IL
        by (unfold do_commit, is_leader; rewrite R3; cbn; rewrite R3; reflexivity).
      unfold do_heartbeat in Ee. rewrite IL, andb_false_r in Ee. inversion Ee; auto. }
    apply (l_quiet n y3 m s5 []); cbn zeta; rewrite ?H3;
      [exact Hm|exact Q1|exact Q2|exact Q3|left; congruence|intro RL; congruence|exact QL| |apply nil_lmsg|apply mi_ok_same; exact QM].
    rewrite QC. unfold do_commit, is_leader. rewrite R3. reflexivity.
  - assert (oe = []) as ->.
    { assert (is_leader (do_commit (others_of n m) (majority_of n) s3) = false) as IL
        by (unfold do_commit, is_leader; rewrite R3; cbn; rewrite R3; reflexivity).
      unfold do_heartbeat in Ee. rewrite IL, andb_false_r in Ee. inversion Ee; auto. }
    apply (l_quiet n y3 m s5 []); cbn zeta; rewrite ?H3;
      [exact Hm|exact Q1|exact Q2|exact Q3|left; congruence|intro RL; congruence|exact QL| |apply nil_lmsg|apply mi_ok_same; exact QM].
    rewrite QC. unfold do_commit, is_leader. rewrite R3. reflexivity.
  - eexists. split.
    + apply leffs_one. eapply (LSend n y3 m s5 oe); rewrite ?H3; auto; try congruence.
      * eapply EQuiet; rewrite ?H3; eauto; [left; congruence|].
        unfold do_heartbeat in Ee. destruct (_ && _) in Ee; [eapply heartbeat_no_rvr; eauto|inversion Ee; apply no_rvr_nil].
      * intros to r Hi. unfold do_heartbeat in Ee. destruct (_ && _) in Ee; [|inversion Ee; subst; destruct Hi].
        pose proof (heartbeat_ae_from _ _ _ _ Ee to r Hi) as AF.
        unfold do_commit, is_leader in AF. rewrite R3 in AF. cbn in AF. exact AF.
      * rewrite QC. destruct (do_commit_mono (others_of n m) (majority_of n) s3) as (_ & _ & Cm). exact Cm.
      * rewrite QC. intro Hne. destruct (leader_commit_rule _ _ _ Hne) as (_ & _ & e & A & B & C). eauto.
      * intros to t ldr pli plt es lc Hi. rewrite QC. unfold do_heartbeat in Ee.
        destruct (_ && _) in Ee; [|inversion Ee; subst; destruct Hi]. eapply heartbeat_lc; eauto.
    + split; cbn; auto.
Qed.

(* ------------------------------------------------------------------ simulation, Log Matching *)
Lemma gstep_lsim : forall n g g' y, gstep n g g' -> sim g (y_x y) -> exists y', leffs n y y' /\ sim g' (y_x y').
Proof.
  intros n g g' y H [S1 S2]. destruct H as [m el hb reqs msgs s' o Hm Ha Hin Hs | | ].
  - rewrite S1 in Hs. destruct (l_raft_step n y m el hb reqs msgs s' o Hm) as (y' & E & U1 & U2); auto.
    { intros f r Hfr. rewrite <- S2. auto. }
    exists y'. split; auto. split; cbn.
    + intro k. rewrite U1. unfold updf. destruct (k =? m); auto.
    + rewrite U2, S2; auto.
  - exists y. split; [apply leffs_refl|]. split; auto.
  - exists y. split; [apply leffs_refl|]. split; auto.
Qed.

Lemma gsteps_lsim : forall n g g' y, gsteps n g g' -> sim g (y_x y) -> exists y', leffs n y y' /\ sim g' (y_x y').
Proof.
  induction 1; intro S.
  - exists y. split; [apply leffs_refl|auto].
  - destruct (IHgsteps S) as (y1 & E1 & S1).
    destruct (gstep_lsim _ _ _ _ H0 S1) as (y2 & E2 & S2').
    exists y2. split; auto. eapply leffs_trans; eauto.
Qed.

Theorem reachable_LInv : forall n g, reachable n g -> exists y, LInv n y /\ sim g (y_x y).
Proof.
  intros n g R. destruct (gsteps_lsim n g_init g y_init R) as (y & E & S); [split; auto|].
  exists y. split; auto. eapply leffs_LInv; eauto. apply LInv_init.
Qed.

Theorem log_matching : forall n, log_matching_stmt n.
Proof.
  intros n g R a b _ _. destruct (reachable_LInv n g R) as (y & I & [S _]).
  rewrite !S. eapply LInv_log_matching; eauto.
Qed.
