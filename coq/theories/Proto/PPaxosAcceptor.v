(* E10 Proto -- Paxos: the acceptor node of paxos_core (PaxosCheck.acc_tick, compared with the real
   node on every run) REFINES the abstract multi-Paxos system (PaxosModel.pstep) that is proved safe
   in PPaxos.v: every tick of acceptor a, on any batches of p1a / p2a messages that were really sent,
   is a finite sequence of abstract P1b / P2b steps of a, under the relation
     maxBal a          = the acceptor's max ballot (ballots (num, pid) encoded order-preservingly),
     log entries       are p2a messages that were sent,
     votes of a        (= its Ok p2b replies) are covered by the log (an entry for the slot with a
                       ballot at least the vote's),
   and every Ok p1b / Ok p2b reply of the tick is an abstract p1b message / vote afterwards. *)
From Coq Require Import Lia ZifyBool ZifyN.
From HV Require Import Proto.PaxosModel Proto.PPaxos.
From HV Require Proto.PaxosCheck.
Import PaxosCheck.

Arguments N.add : simpl never.
Arguments N.mul : simpl never.
Arguments N.ltb : simpl never.
Arguments N.leb : simpl never.
Arguments N.eqb : simpl never.

Definition K : N := 4294967296.
Definition bwf (b : ballot) : Prop := snd b < K.
Definition enc (b : ballot) : N := fst b * K + snd b + 1.
Definition enc_o (b : option ballot) : N := match b with None => 0 | Some x => enc x end.
Definition encv (v : option N) : N := match v with None => 0 | Some x => x + 1 end.
Definition enc_log (lg : list aentry) : list lentry :=
  map (fun e : aentry => (fst e, enc (fst (snd e)), encv (snd (snd e)))) lg.

Lemma b_lt_enc : forall a b, bwf a -> bwf b -> (b_lt a b = true <-> enc a < enc b).
Proof.
  intros [a1 a2] [b1 b2]; unfold bwf, enc, b_lt, K; cbn [fst snd]; intros Ha Hb.
  rewrite orb_true_iff, andb_true_iff, !N.ltb_lt, N.eqb_eq. nia.
Qed.

Lemma b_eqb_eq : forall a b, b_eqb a b = true -> a = b.
Proof.
  intros [a1 a2] [b1 b2]; unfold b_eqb; cbn [fst snd]. rewrite andb_true_iff, !N.eqb_eq. intros [-> ->]; auto.
Qed.

Lemma ob_eqb_some : forall b mx, ob_eqb (Some b) mx = true -> mx = Some b.
Proof. intros b [m|]; cbn; [intro H; apply b_eqb_eq in H; subst; auto|discriminate]. Qed.

(* ------------------------------------------------------------------ the log *)
Definition lwf (lg : list aentry) : Prop := forall s b v, In (s, (b, v)) lg -> bwf b.

Lemma place_in : forall lg s e x, In x (place lg s e) -> In x lg \/ x = (s, e).
Proof.
  induction lg as [|[s' e'] r IH]; intros s e x; cbn [place].
  - intros [<-|[]]; auto.
  - destruct (s <? s'); [intros [<-|H]; auto|].
    destruct (s =? s').
    + destruct (b_lt (fst e') (fst e)); [intros [<-|H]; auto; left; right; auto|auto].
    + intros [<-|H]; [left; left; auto|]. destruct (IH _ _ _ H); auto. left; right; auto.
Qed.

Lemma place_cover_new : forall lg s b v, lwf lg -> bwf b ->
  exists b1 v1, In (s, (b1, v1)) (place lg s (b, v)) /\ enc b <= enc b1.
Proof.
  induction lg as [|[s' [b' v']] r IH]; intros s b v W Hb; cbn [place].
  - exists b, v. split; [left; auto|lia].
  - destruct (s <? s'); [exists b, v; split; [left; auto|lia]|].
    destruct (s =? s') eqn:E.
    + apply N.eqb_eq in E; subst s'. cbn [fst].
      assert (bwf b') as Hb' by (apply (W s b' v'); left; auto).
      destruct (b_lt b' b) eqn:L; [exists b, v; split; [left; auto|lia]|].
      exists b', v'. split; [left; auto|].
      destruct (N.lt_ge_cases (enc b') (enc b)) as [X|X]; auto. apply (b_lt_enc b' b Hb' Hb) in X. congruence.
    + destruct (IH s b v) as (b1 & v1 & A & B); auto.
      { intros s0 b0 v0 H. apply (W s0 b0 v0). right; auto. }
      exists b1, v1. split; auto. right; auto.
Qed.

Lemma place_cover_old : forall lg s b v s0 b0 v0, lwf lg -> bwf b -> In (s0, (b0, v0)) lg ->
  exists b1 v1, In (s0, (b1, v1)) (place lg s (b, v)) /\ enc b0 <= enc b1.
Proof.
  induction lg as [|[s' [b' v']] r IH]; intros s b v s0 b0 v0 W Hb Hin; [destruct Hin|]. cbn [place].
  destruct (s <? s'); [exists b0, v0; split; [right; auto|lia]|].
  destruct (s =? s') eqn:E.
  - apply N.eqb_eq in E; subst s'. cbn [fst]. destruct (b_lt b' b) eqn:L; [|exists b0, v0; split; [auto|lia]].
    destruct Hin as [H|H]; [|exists b0, v0; split; [right; auto|lia]].
    inversion H; subst s0 b0 v0. exists b, v. split; [left; auto|].
    assert (bwf b') as Hb' by (apply (W s b' v'); left; auto).
    apply (b_lt_enc b' b Hb' Hb) in L. lia.
  - destruct Hin as [H|H]; [exists b0, v0; split; [left; auto|lia]|].
    destruct (IH s b v s0 b0 v0) as (b1 & v1 & A & B); auto.
    { intros s1 b1 v1 H1. apply (W s1 b1 v1). right; auto. }
    exists b1, v1. split; auto. right; auto.
Qed.

Lemma place_lwf : forall lg s b v, lwf lg -> bwf b -> lwf (place lg s (b, v)).
Proof.
  intros lg s b v W Hb s0 b0 v0 H. destruct (place_in _ _ _ _ H) as [X|X]; [eapply W; eauto|].
  inversion X; subst; auto.
Qed.

(* ------------------------------------------------------------------ the relation *)
Record Rlog (p : pstate) (a : N) (lg : list aentry) : Prop := mkR {
  r_wf : lwf lg;
  r_m2a : forall s b v, In (s, (b, v)) lg -> In (enc b, s, encv v) (m2a p);
  r_cov : forall s c w, In (a, s, c, w) (votes p) -> exists b v, In (s, (b, v)) lg /\ c <= enc b }.

Definition R (p : pstate) (a : N) (st : acc) : Prop :=
  maxBal p a = enc_o (a_max st) /\ Rlog p a (a_log st) /\ (forall b, a_max st = Some b -> bwf b).

(* what a step sequence of acceptor a leaves alone *)
Record frame (a : N) (p p' : pstate) : Prop := mkF {
  f_1a : m1a p' = m1a p;
  f_2a : m2a p' = m2a p;
  f_mb : forall a', a' <> a -> maxBal p' a' = maxBal p a';
  f_vo : forall x, In x (votes p) -> In x (votes p');
  f_vo' : forall a' s c w, In (a', s, c, w) (votes p') -> a' <> a -> In (a', s, c, w) (votes p);
  f_1b : forall x, In x (m1b p) -> In x (m1b p') }.

Lemma frame_refl : forall a p, frame a p p.
Proof. intros; constructor; auto. Qed.

Lemma frame_trans : forall a p p' p'', frame a p p' -> frame a p' p'' -> frame a p p''.
Proof.
  intros a p p' p'' [A1 A2 A3 A4 A5 A6] [B1 B2 B3 B4 B5 B6]. constructor; try congruence; auto.
  intros a' Hn. rewrite B3, A3; auto.
Qed.

Lemma Rlog_report : forall p a lg, Rlog p a lg -> report_ok p a (enc_log lg).
Proof.
  intros p a lg [W M C]. split.
  - intros s c w H. unfold enc_log in H. apply in_map_iff in H. destruct H as ([s' [b v]] & E & Hin).
    cbn in E. inversion E; subst. apply M; auto.
  - intros s c w H. destruct (C _ _ _ H) as (b & v & Hin & Hle). exists (enc b), (encv v). split; auto.
    unfold enc_log. apply in_map_iff. exists (s, (b, v)). split; auto.
Qed.

Lemma psteps_trans : forall n x y z, psteps n x y -> psteps n y z -> psteps n x z.
Proof. intros n x y z H1 H2. induction H2; auto. eapply ps_step; [apply IHpsteps; auto|eauto]. Qed.

(* phase 1: the p2a batch *)
Definition p2_fold (mx : option ballot) (lg : list aentry) (p2as : list p2amsg) : list aentry :=
  fold_left (fun lg (m : p2amsg) => let '(_, b, s, v) := m in if ob_lt (Some b) mx then lg else place lg s (b, v)) p2as lg.

Lemma votes_phase : forall n a mx, a < n -> forall p2as p lg,
  maxBal p a = enc_o mx -> Rlog p a lg ->
  (forall sd b s v, In (sd, b, s, v) p2as -> In (enc b, s, encv v) (m2a p) /\ bwf b) ->
  exists p', psteps n p p' /\ maxBal p' a = enc_o mx /\ Rlog p' a (p2_fold mx lg p2as) /\ frame a p p' /\
    forall sd b s v, In (sd, b, s, v) p2as -> ob_eqb (Some b) mx = true -> In (a, s, enc b, encv v) (votes p').
Proof.
  intros n a mx Ha. induction p2as as [|[[[sd b] s] v] r IH]; intros p lg Hm HR Hin.
  - exists p. split; [apply ps_refl|]. split; auto. split; auto. split; [apply frame_refl|]. intros ? ? ? ? [].
  - destruct (Hin sd b s v (or_introl eq_refl)) as [H2a Hb].
    assert (forall sd b s v, In (sd, b, s, v) r -> In (enc b, s, encv v) (m2a p) /\ bwf b) as Hin'
      by (intros; eapply Hin; right; eauto).
    unfold p2_fold. cbn [fold_left]. fold (p2_fold mx (if ob_lt (Some b) mx then lg else place lg s (b, v)) r).
    destruct (ob_lt (Some b) mx) eqn:L.
    + (* below the promise: ignored, answered Err *)
      destruct (IH p lg Hm HR Hin') as (p' & S & M & RR & F & V). exists p'. repeat split; auto; try apply F; try apply RR.
      intros sd0 b0 s0 v0 [E|H] Eq; [|eapply V; eauto]. inversion E; subst.
      apply ob_eqb_some in Eq. subst mx. cbn in L. unfold b_lt in L. rewrite !N.ltb_irrefl, N.eqb_refl in L. discriminate.
    + destruct HR as [W M C].
      destruct (ob_eqb (Some b) mx) eqn:Eq.
      * (* the promised ballot: stored and answered Ok = an abstract vote *)
        pose proof (ob_eqb_some _ _ Eq) as E; subst mx. cbn [enc_o] in *.
        set (p1 := mkP (updf (maxBal p) a (enc b)) ((a, s, enc b, encv v) :: votes p) (m1a p) (m1b p) (m2a p)).
        assert (pstep n p p1) as St by (apply P2b; auto; lia).
        assert (maxBal p1 a = enc b) as Hm1 by (cbn; apply updf_same).
        assert (Rlog p1 a (place lg s (b, v))) as HR1.
        { constructor.
          - apply place_lwf; auto.
          - intros s0 b0 v0 H. cbn [m2a p1]. destruct (place_in _ _ _ _ H) as [X|X]; [apply M; auto|]. inversion X; subst; auto.
          - intros s0 c w [X|X].
            + inversion X; subst. destruct (place_cover_new lg s0 b v W Hb) as (b1 & v1 & A & B). eauto.
            + destruct (C _ _ _ X) as (b0 & v0 & A & B).
              destruct (place_cover_old lg s b v s0 b0 v0 W Hb A) as (b1 & v1 & A1 & B1). exists b1, v1. split; auto. lia. }
        destruct (IH p1 (place lg s (b, v)) Hm1 HR1) as (p' & S & M' & RR & F & V).
        { intros sd0 b0 s0 v0 H. cbn [m2a p1]. apply (Hin' sd0 b0 s0 v0 H). }
        exists p'. split; [|split; auto; split; auto; split].
        -- eapply psteps_trans; [eapply ps_step; [apply ps_refl|exact St]|exact S].
        -- eapply frame_trans; [|exact F]. constructor; cbn; auto.
           ++ intros a' Hn. apply updf_other; auto.
           ++ intros a' s0 c w [X|X] Hn; auto. inversion X; subst. congruence.
        -- intros sd0 b0 s0 v0 [E|H] Eq0; [|eapply V; eauto]. inversion E; subst. apply (f_vo _ _ _ F). left; auto.
      * (* above the promise: stored, answered Err, no abstract step *)
        assert (Rlog p a (place lg s (b, v))) as HR1.
        { constructor.
          - apply place_lwf; auto.
          - intros s0 b0 v0 H. destruct (place_in _ _ _ _ H) as [X|X]; [apply M; auto|]. inversion X; subst; auto.
          - intros s0 c w X. destruct (C _ _ _ X) as (b0 & v0 & A & B).
            destruct (place_cover_old lg s b v s0 b0 v0 W Hb A) as (b1 & v1 & A1 & B1). exists b1, v1. split; auto. lia. }
        destruct (IH p (place lg s (b, v)) Hm HR1 Hin') as (p' & S & M' & RR & F & V).
        exists p'. repeat split; auto; try apply F; try apply RR.
        intros sd0 b0 s0 v0 [E|H] Eq0; [|eapply V; eauto]. inversion E; subst. congruence.
Qed.

(* phase 2: the p1a batch, answered with the log after phase 1 *)
Lemma promises_phase : forall n a mx, a < n -> forall lg p1as p,
  maxBal p a = enc_o mx -> Rlog p a lg ->
  (forall b, In b p1as -> In (enc b) (m1a p)) ->
  exists p', psteps n p p' /\ maxBal p' a = enc_o mx /\ Rlog p' a lg /\ frame a p p' /\
    forall b, In b p1as -> ob_eqb (Some b) mx = true -> In (a, enc b, enc_log lg) (m1b p').
Proof.
  intros n a mx Ha lg. induction p1as as [|b r IH]; intros p Hm HR Hin.
  - exists p. split; [apply ps_refl|]. split; auto. split; auto. split; [apply frame_refl|]. intros ? [].
  - destruct (ob_eqb (Some b) mx) eqn:Eq.
    + pose proof (ob_eqb_some _ _ Eq) as E; subst mx. cbn [enc_o] in *.
      set (p1 := mkP (updf (maxBal p) a (enc b)) (votes p) (m1a p) ((a, enc b, enc_log lg) :: m1b p) (m2a p)).
      assert (pstep n p p1) as St.
      { apply P1b; auto; [apply Hin; left; auto|lia|apply Rlog_report; auto]. }
      assert (Rlog p1 a lg) as HR1 by (destruct HR as [W M C]; constructor; auto).
      destruct (IH p1 (updf_same _ _ _ _) HR1) as (p' & S & M' & RR & F & V).
      { intros b0 H. cbn. apply Hin; right; auto. }
      exists p'. split; [|split; auto; split; auto; split].
      * eapply psteps_trans; [eapply ps_step; [apply ps_refl|exact St]|exact S].
      * eapply frame_trans; [|exact F]. constructor; cbn; auto. intros a' Hn. apply updf_other; auto.
      * intros b0 [E|H] Eq0; [|eapply V; eauto]. subst b0. apply (f_1b _ _ _ F). left; auto.
    + destruct (IH p Hm HR) as (p' & S & M' & RR & F & V).
      { intros b0 H. apply Hin; right; auto. }
      exists p'. repeat split; auto; try apply F; try apply RR.
      intros b0 [E|H] Eq0; [subst; congruence|eapply V; eauto].
Qed.

(* the max ballot after a batch of p1as *)
Lemma max_fold : forall p1as m, (forall b, m = Some b -> bwf b) -> (forall b, In b p1as -> bwf b) ->
  let mx := fold_left (fun m b => ob_max m (Some b)) p1as m in
  enc_o m <= enc_o mx /\ (mx = m \/ exists b, In b p1as /\ mx = Some b) /\ (forall b, mx = Some b -> bwf b).
Proof.
  induction p1as as [|b r IH]; intros m Wm Wl; cbn [fold_left].
  - split; [lia|]. split; auto.
  - assert (forall b0, ob_max m (Some b) = Some b0 -> bwf b0) as W1.
    { unfold ob_max. destruct (ob_lt m (Some b)); [intros b0 E; inversion E; subst; apply Wl; left; auto|auto]. }
    destruct (IH (ob_max m (Some b)) W1) as (A & B & C); [intros; apply Wl; right; auto|].
    split; [|split; auto].
    + assert (enc_o m <= enc_o (ob_max m (Some b))); [|lia].
      unfold ob_max. destruct (ob_lt m (Some b)) eqn:L; [|lia]. destruct m as [m0|]; cbn in *; [|lia].
      apply b_lt_enc in L; [lia|apply Wm; auto|apply Wl; left; auto].
    + destruct B as [B|(b0 & H & E)]; [|right; exists b0; split; [right|]; auto].
      assert (ob_max m (Some b) = Some b \/ ob_max m (Some b) = m) as [X|X]
        by (unfold ob_max; destruct (ob_lt m (Some b)); auto).
      * right. exists b. split; [left; auto|]. rewrite B; auto.
      * left. rewrite B; auto.
Qed.

(* one tick of the acceptor node = a sequence of abstract steps of acceptor a *)
Theorem acc_tick_refines : forall n a p st p1as p2as st' o1 o2,
  a < n -> R p a st ->
  (forall b, In b p1as -> In (enc b) (m1a p) /\ bwf b) ->
  (forall sd b s v, In (sd, b, s, v) p2as -> In (enc b, s, encv v) (m2a p) /\ bwf b) ->
  acc_tick st p1as p2as = (st', o1, o2) ->
  exists p', psteps n p p' /\ R p' a st' /\ frame a p p' /\
    (forall to b lg, In (to, b, inl lg) o1 -> In (a, enc b, enc_log lg) (m1b p')) /\
    (forall to s b, In (to, s, b, None) o2 -> exists v, In (a, s, enc b, v) (votes p')).
Proof.
  intros n a p st p1as p2as st' o1 o2 Ha (Hm & HR & Wm) H1 H2 E.
  unfold acc_tick in E.
  set (mx := fold_left (fun m b => ob_max m (Some b)) p1as (a_max st)) in *.
  fold (p2_fold mx (a_log st) p2as) in E. set (lg := p2_fold mx (a_log st) p2as) in *.
  inversion E; subst st' o1 o2; clear E.
  destruct (max_fold p1as (a_max st) Wm (fun b H => proj2 (H1 b H))) as (Le & Or & Wmx). fold mx in Le, Or, Wmx.
  (* phase 0: raise the promise to the new max ballot (with the old log) if it changed *)
  assert (exists p0, psteps n p p0 /\ maxBal p0 a = enc_o mx /\ Rlog p0 a (a_log st) /\ frame a p p0) as (p0 & S0 & M0 & R0 & F0).
  { destruct Or as [Eq|(b0 & Hb0 & Eq)].
    - exists p. rewrite Eq. split; [apply ps_refl|]. split; auto. split; auto. apply frame_refl.
    - exists (mkP (updf (maxBal p) a (enc b0)) (votes p) (m1a p) ((a, enc b0, enc_log (a_log st)) :: m1b p) (m2a p)).
      split; [eapply ps_step; [apply ps_refl|]|].
      + apply P1b; auto; [apply H1; auto|rewrite Eq in Le; cbn in Le; lia|apply Rlog_report; auto].
      + rewrite Eq. cbn [enc_o maxBal]. split; [apply updf_same|]. split.
        * destruct HR as [W M C]; constructor; auto.
        * constructor; cbn; auto. intros a' Hn. apply updf_other; auto. }
  destruct (votes_phase n a mx Ha p2as p0 (a_log st) M0 R0) as (p1 & S1 & M1 & R1 & F1 & V1).
  { intros sd b s v H. rewrite (f_2a _ _ _ F0). apply H2 in H. auto. }
  fold lg in R1.
  destruct (promises_phase n a mx Ha lg p1as p1 M1 R1) as (p2 & S2 & M2 & R2 & F2 & V2).
  { intros b H. rewrite (f_1a _ _ _ F1), (f_1a _ _ _ F0). apply H1; auto. }
  exists p2. split; [|split; [|split; [|split]]].
  - eapply psteps_trans; [eapply psteps_trans; [exact S0|exact S1]|exact S2].
  - split; [exact M2|]. split; [exact R2|exact Wmx].
  - eapply frame_trans; [exact F0|]. eapply frame_trans; eauto.
  - intros to b lg0 H. apply in_map_iff in H. destruct H as (b0 & E & Hin).
    assert (exists t, t = ob_eqb (Some b0) mx /\ (snd b0, b0, if t then inl lg else inr mx) = (to, b, @inl _ (option ballot) lg0)) as ([|] & Et & E')
      by (exists (ob_eqb (Some b0) mx); split; [reflexivity|exact E]); inversion E'; subst. apply V2; auto.
  - intros to s b H. apply in_map_iff in H. destruct H as ([[[sd b0] s0] v0] & E & Hin).
    assert (exists t, t = ob_eqb (Some b0) mx /\ (sd, s0, b0, if t then None else Some mx) = (to, s, b, @None (option ballot))) as ([|] & Et & E')
      by (exists (ob_eqb (Some b0) mx); split; [reflexivity|exact E]); inversion E'; subst. exists (encv v0).
    apply (f_vo _ _ _ F2). eapply V1; eauto.
Qed.

(* the initial acceptor is related to the initial abstract state *)
Lemma R_init : forall a, R p_init a acc_init.
Proof.
  intro a. split; [reflexivity|]. split; [|intros b H; cbn in H; discriminate].
  constructor; [intros s b v []|intros s b v []|intros s c w []].
Qed.

Print Assumptions acc_tick_refines.
