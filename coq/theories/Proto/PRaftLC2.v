(* E10 Proto -- Raft, towards Leader Completeness, stage B1: bookkeeping invariants over the
   log-aware effects (acknowledgements, match_index, RequestVote messages, candidates' logs) and
   the agreement lemma for the follower's append loop. *)
From Coq Require Import Lia ZifyBool ZifyN Arith.
From HV Require Import Proto.RaftNet Proto.PRaftLocal Proto.PRaftElection Proto.PRaftRefine Proto.PRaftWf
  Proto.PRaftLogLemmas Proto.PRaftLog Proto.PRaftLogRefine Proto.PRaftLogTerms Proto.PRaftLC.

Arguments N.add : simpl never.
Arguments N.sub : simpl never.
Arguments N.ltb : simpl never.
Arguments N.leb : simpl never.
Arguments N.eqb : simpl never.

(* ------------------------------------------------------------------ the append loop agrees with G *)
Section Agree.
  Variable gl : N -> list entry.

  Lemma append_entries_agree : forall es lg cmt p (G : list entry) lg',
    log_wf lg = true -> log_wf G = true ->
    (p <= length lg)%nat -> firstn p lg = firstn p G ->
    es = firstn (length es) (skipn p G) ->
    (forall i e, nth_error lg i = Some e -> firstn (S i) lg = firstn (S i) (gl (e_term e))) ->
    (forall i e, nth_error G i = Some e -> firstn (S i) G = firstn (S i) (gl (e_term e))) ->
    append_entries lg cmt es = Some lg' ->
    firstn (p + length es) lg' = firstn (p + length es) G /\
    forall c, (c <= length lg)%nat -> firstn c lg = firstn c G -> firstn c lg' = firstn c G.
  Proof.
    induction es as [|e r IH]; intros lg cmt p G lg' W WG Hp Hpre Hs L2 L2g H; cbn [append_entries] in H.
    - inversion H; subst. cbn [length]. replace (p + 0)%nat with p by lia. split; auto.
    - cbn [length] in Hs. destruct (slice_cons G p e r Hs) as [Hn Hr].
      pose proof (wf_nth G p e WG Hn) as Hi. pose proof (nth_error_lt _ _ _ _ Hn) as Hl.
      assert (forall K lgK, (S p <= K)%nat -> lgK = firstn K G ->
                (forall c, (c <= p)%nat -> firstn c lg = firstn c G -> firstn c lgK = firstn c G)) as Kp.
      { intros K lgK HK -> c Hc _. rewrite firstn_firstn_le by lia. auto. }
      destruct (e_index e <=? len lg) eqn:Le.
      + assert (p < length lg)%nat as Hpl by (unfold len in Le; lia).
        unfold log_at in H. destruct (e_index e =? 0) eqn:Z; [lia|].
        replace (N.to_nat (e_index e - 1)) with p in H by lia.
        destruct (nth_error lg p) as [mine|] eqn:Em; [|discriminate].
        destruct (e_term mine =? e_term e) eqn:Et.
        * assert (firstn (S p) lg = firstn (S p) G) as Hpre'.
          { rewrite (L2 p mine Em), (L2g p e Hn). f_equal. f_equal. lia. }
          destruct (IH lg cmt (S p) G lg' W WG ltac:(lia) Hpre' Hr L2 L2g H) as [A B].
          cbn [length]. replace (p + S (length r))%nat with (S p + length r)%nat by lia. split; auto.
        * destruct (cmt <? e_index e); [|discriminate].
          assert (firstn p lg ++ [e] = firstn (S p) G) as E2.
          { rewrite Hpre. symmetry. apply firstn_S_nth; auto. }
          rewrite E2 in H.
          pose proof (append_prefix_case gl r (S p) G cmt lg' WG ltac:(lia) Hr H) as E3.
          cbn [length]. replace (p + S (length r))%nat with (S p + length r)%nat by lia. split.
          -- rewrite E3. rewrite firstn_firstn_le; auto.
          -- intros c Hc Hag. destruct (le_lt_dec c p) as [Lc|Lc]; [eapply (Kp (S p + length r)%nat); eauto; lia|].
             exfalso. assert (nth_error lg p = nth_error G p) as Q.
             { rewrite <- (nth_error_firstn_lt _ c lg p Lc), <- (nth_error_firstn_lt _ c G p Lc), Hag. auto. }
             rewrite Em, Hn in Q. inversion Q; subst. lia.
      + assert (p = length lg) as Ep by (unfold len in Le; lia).
        assert (lg ++ [e] = firstn (S p) G) as E2.
        { rewrite (firstn_S_nth _ G p e Hn), <- Hpre, Ep, firstn_all. auto. }
        rewrite E2 in H.
        pose proof (append_prefix_case gl r (S p) G cmt lg' WG ltac:(lia) Hr H) as E3.
        cbn [length]. replace (p + S (length r))%nat with (S p + length r)%nat by lia. split.
        -- rewrite E3. rewrite firstn_firstn_le; auto.
        -- intros c Hc Hag. eapply (Kp (S p + length r)%nat); eauto; lia.
  Qed.
End Agree.

Lemma last_log_nth : forall s lt l, last_log_position s = (lt, l) ->
  (log s = [] /\ lt = 0 /\ l = 0) \/
  exists e, nth_error (log s) (length (log s) - 1) = Some e /\ e_term e = lt /\ e_index e = l /\ (0 < length (log s))%nat.
Proof.
  intros s lt l. unfold last_log_position.
  destruct (log s) as [|a r] eqn:E; [cbn; intro H; inversion H; auto|].
  intro H. right.
  assert (forall (x : entry) t, last (map Some (x :: t)) None = nth_error (x :: t) (length (x :: t) - 1)) as K.
  { intros x t. revert x. induction t as [|y t IH]; intro x; [reflexivity|].
    change (last (map Some (x :: y :: t)) None) with (last (map Some (y :: t)) None). rewrite IH.
    cbn [length]. replace (S (S (length t)) - 1)%nat with (S (length t)) by lia.
    replace (S (length t) - 1)%nat with (length t) by lia. reflexivity. }
  rewrite K in H. destruct (nth_error (a :: r) (length (a :: r) - 1)) as [e|] eqn:En; [|inversion H; subst].
  - inversion H; subst. exists e. repeat split; auto. cbn; lia.
  - apply nth_error_None in En. cbn in En. lia.
Qed.

(* ------------------------------------------------------------------ bookkeeping invariants *)
Record KInv (y : ystate) : Prop := mkKInv {
  k1 : forall f to t c, In (f, to, AER t true c) (x_sent (y_x y)) ->
         (N.to_nat c <= length (y_gl y t))%nat /\ t <= term (x_st (y_x y) f) /\
         exists q, In (t, q) (x_elected (y_x y));
  kM : forall m, rrole (x_st (y_x y) m) = Leader ->
         forall f v, mget f (match_index (x_st (y_x y) m)) = Some v -> 0 < v ->
         In (f, m, AER (term (x_st (y_x y) m)) true v) (x_sent (y_x y));
  kR0 : forall c to t l lt, In (c, to, RV t l lt) (x_sent (y_x y)) -> t <= term (x_st (y_x y) c);
  kR : forall c to t l lt, In (c, to, RV t l lt) (x_sent (y_x y)) ->
         term (x_st (y_x y) c) = t -> rrole (x_st (y_x y) c) = Candidate ->
         last_log_position (x_st (y_x y) c) = (lt, l);
  kR2 : forall c to t l lt, In (c, to, RV t l lt) (x_sent (y_x y)) ->
         (l = 0 /\ lt = 0) \/
         (0 < l /\ lt < t /\ (exists q, In (lt, q) (x_elected (y_x y))) /\
          exists e, nth_error (y_gl y lt) (N.to_nat l - 1) = Some e /\ e_term e = lt);
  kCB : forall c, rrole (x_st (y_x y) c) = Candidate ->
         forall i e, nth_error (log (x_st (y_x y) c)) i = Some e -> e_term e < term (x_st (y_x y) c) }.

Lemma KInv_init : KInv y_init.
Proof. constructor; cbn; intros; try contradiction; try discriminate. Qed.

(* when m wins term t0, that term had no leader before *)
Lemma win_fresh : forall n y m s',
  let x := y_x y in let s := x_st x m in
  eff n x (mkX (updf (x_st x) m s') (x_sent x) (x_cast x) (x_elected x ++ [(term s, m)])) ->
  rrole s = Candidate -> LInv n y -> forall c, ~ In (term s, c) (x_elected x).
Proof.
  intros n y m s' x s He Hc I c H.
  pose proof (eff_Inv _ _ _ He (lI _ _ I)) as I'.
  assert (c = m).
  { eapply (Inv_election_safety _ _ I' (term s) c m); cbn; apply in_or_app; [left; auto|right; left; auto]. }
  subst c. destruct (l5 _ _ I _ _ H) as [_ B]. fold x in B. fold s in B. rewrite (B eq_refl) in Hc. discriminate.
Qed.

Lemma tag_in : forall m (o : list (N * rpc)) f to r, In (f, to, r) (tag_out m o) -> f = m /\ In (to, r) o.
Proof.
  intros m o f to r H. unfold tag_out in H. apply in_map_iff in H. destruct H as ([to' r'] & E & Hin).
  cbn in E. inversion E; subst. auto.
Qed.

Ltac uc k m := destruct (N.eq_dec k m) as [->|?]; [rewrite ?updf_same in *|rewrite ?updf_other in * by auto].

Theorem leff_KInv : forall n y y', leff n y y' -> LInv n y -> LInv2 y -> KInv y -> KInv y'.
Proof.
  intros n y y' H I J K. destruct K as [K1 KM KR0 KR KR2 KCB].
  destruct H as [m s' sent' cast' el' x s He Hl Ht Hr1 Hr2 Hs Hel Hcm Hs2 Hcand Hmi Hincl
                |m s' x s He Hc Hl Ht Hlog Hcm Hvs Hz Hmaj
                |m s' sent' ext x s He Hr Hr' Ht Hlog Hext Hwf Hs Hcm Hmx Hse
                |m s' o x s He Hr Hr' Ht Hlog Ho Hc1 Hmx Hrule Hlc
                |m s' o f0 ldr pli plt es lc cmt x s He Hin Hr Hr' Ht Hm Ha Ho Hcmt Hcm Hoo
                |m s' from lli llt x s He Hlog Ht Hr Hvs Hcm Hmx Hin Hpg
                |m s' u x s He Hlog Ht Hr Hr' Hcm Hvs Hin
                |m s' x s He Hlog Ht Hr Hr' Hcm Hvs];
    fold x in K1, KM, KR0, KR, KR2, KCB.
  - (* LSame *)
    subst el'.
    assert (forall f to t c, In (f, to, AER t true c) sent' -> In (f, to, AER t true c) (x_sent x)) as A1.
    { intros f to t c Hi. destruct (Hs2 _ _ _ Hi) as [Hi'|[_ [(t0 & mi & E)|(l & lt & E & _)]]]; auto; discriminate. }
    assert (last_log_position s' = last_log_position s) as LL by (unfold last_log_position; rewrite Hl; auto).
    constructor; cbn [y_x y_gl x_st x_sent x_elected].
    + intros f to t c Hi. destruct (K1 _ _ _ _ (A1 _ _ _ _ Hi)) as (A & B & C). repeat split; auto.
      uc f m; auto. fold s in B. lia.
    + intros k R f v Hv Hp. uc k m; [|apply Hincl; eapply KM; eauto].
      destruct (Hr1 R) as [R0 T0]. rewrite T0. apply Hincl.
      destruct (Hmi R f v Hv Hp) as [Ho|Ho]; auto. eapply (KM m R0); eauto.
    + intros c to t l lt Hi. destruct (Hs2 _ _ _ Hi) as [Hi'|[-> [(t0 & mi & E)|(l0 & lt0 & E & _)]]]; try discriminate.
      * pose proof (KR0 _ _ _ _ _ Hi') as B. uc c m; auto. fold s in B. lia.
      * inversion E; subst. rewrite updf_same. lia.
    + intros c to t l lt Hi T R. destruct (Hs2 _ _ _ Hi) as [Hi'|[-> [(t0 & mi & E)|(l0 & lt0 & E & R1 & L1)]]]; try discriminate.
      * uc c m; [|eapply KR; eauto]. destruct (Hcand R) as (R0 & T0 & _). rewrite LL. eapply KR; eauto. fold s. lia.
      * inversion E; subst. rewrite updf_same. auto.
    + intros c to t l lt Hi. destruct (Hs2 _ _ _ Hi) as [Hi'|[-> [(t0 & mi & E)|(l0 & lt0 & E & R1 & L1)]]]; try discriminate.
      * eapply KR2; eauto.
      * inversion E; subst l0 lt0 t; clear E. destruct (Hcand R1) as (R0 & T0 & _).
        rewrite LL in L1. destruct (last_log_nth _ _ _ L1) as [(_ & -> & ->)|(e & En & Te & Ie & Pos)]; [left; auto|].
        right. pose proof (wf_nth _ _ _ (l7 _ _ I m) En) as Wi. fold x in Wi. fold s in Wi.
        assert (N.to_nat l - 1 = length (log s) - 1)%nat as El by lia.
        split; [lia|]. split; [rewrite <- Te, T0; eapply (KCB m R0); eauto|].
        split; [rewrite <- Te; eapply (l6 _ _ I m); eauto|].
        exists e. split; auto. rewrite El.
        pose proof (l2 _ _ I m _ _ En) as P. fold x in P. fold s in P. rewrite Te in P.
        rewrite <- (pfx_nth (S (length (log s) - 1)) (log s) (y_gl y lt) (length (log s) - 1)); auto.
    + intros c R i e Hn. uc c m; [|eapply KCB; eauto].
      destruct (Hcand R) as (R0 & T0 & _). rewrite T0. rewrite Hl in Hn. eapply (KCB m R0); eauto.
  - (* LWin *)
    pose proof (win_fresh n y m s' He Hc I) as F0. fold x in F0. fold s in F0.
    constructor; cbn [y_x y_gl x_st x_sent x_elected].
    + intros f to t c Hi. destruct (K1 _ _ _ _ Hi) as (A & B & (q & C)).
      assert (t <> term s) as Hne by (intro E; rewrite E in C; exact (F0 _ C)).
      rewrite (updf_other _ (y_gl y)) by auto. repeat split; auto.
      * uc f m; auto. fold s in B. lia.
      * exists q. apply in_or_app; left; auto.
    + intros k R f v Hv Hp. uc k m; [rewrite (Hz _ _ Hv) in Hp; lia|eapply KM; eauto].
    + intros c to t l lt Hi. pose proof (KR0 _ _ _ _ _ Hi) as B. uc c m; auto. fold s in B. lia.
    + intros c to t l lt Hi T R. uc c m; [congruence|eapply KR; eauto].
    + intros c to t l lt Hi. destruct (KR2 _ _ _ _ _ Hi) as [A|(A & B & (q & C) & e & D & E)]; auto. right.
      assert (lt <> term s) as Hne by (intro Z; rewrite Z in C; exact (F0 _ C)).
      rewrite (updf_other _ (y_gl y)) by auto. split; [exact A|]. split; [exact B|].
      split; [exists q; apply in_or_app; left; auto|]. exists e. split; auto.
    + intros c R i e Hn. uc c m; [congruence|eapply KCB; eauto].
  - (* LAppend *)
    assert (log s = y_gl y (term s)) as HG by (apply (l1 _ _ I m); auto).
    assert (forall msg, In msg sent' -> In msg (x_sent x)) as A0.
    { intros msg Hi. rewrite Hse in Hi. apply in_app_or in Hi. destruct Hi as [Hi|Hi]; auto. destruct Hi. }
    constructor; cbn [y_x y_gl x_st x_sent x_elected].
    + intros f to t c Hi. destruct (K1 _ _ _ _ (A0 _ Hi)) as (A & B & C). repeat split; auto.
      * uc t (term s); auto. rewrite Hlog, HG, app_length. lia.
      * uc f m; auto. fold s in B. lia.
    + intros k R f v Hv Hp. rewrite Hse. apply in_or_app; left. uc k m; [|eapply KM; eauto].
      rewrite Ht. rewrite Hmx in Hv. eapply (KM m Hr); eauto.
    + intros c to t l lt Hi. pose proof (KR0 _ _ _ _ _ (A0 _ Hi)) as B. uc c m; auto. fold s in B. lia.
    + intros c to t l lt Hi T R. uc c m; [congruence|eapply KR; eauto].
    + intros c to t l lt Hi. destruct (KR2 _ _ _ _ _ (A0 _ Hi)) as [A|(A & B & C & e & D & E)]; auto. right.
      repeat split; auto. exists e. split; auto. uc lt (term s); auto.
      rewrite Hlog, HG. rewrite nth_error_app1; auto. apply nth_error_lt in D. auto.
    + intros c R i e Hn. uc c m; [congruence|eapply KCB; eauto].
  - (* LSend *)
    assert (forall f to t c, In (f, to, AER t true c) (x_sent x ++ tag_out m o) -> In (f, to, AER t true c) (x_sent x)) as A1.
    { intros f to t c Hi. apply in_app_or in Hi. destruct Hi as [Hi|Hi]; auto. apply tag_in in Hi. destruct Hi as [_ Hi].
      destruct (Ho _ _ Hi) as (p0 & p1 & p2 & E & _). discriminate. }
    assert (forall f to t l lt, In (f, to, RV t l lt) (x_sent x ++ tag_out m o) -> In (f, to, RV t l lt) (x_sent x)) as A2.
    { intros f to t l lt Hi. apply in_app_or in Hi. destruct Hi as [Hi|Hi]; auto. apply tag_in in Hi. destruct Hi as [_ Hi].
      destruct (Ho _ _ Hi) as (p0 & p1 & p2 & E & _). discriminate. }
    constructor; cbn [y_x y_gl x_st x_sent x_elected].
    + intros f to t c Hi. destruct (K1 _ _ _ _ (A1 _ _ _ _ Hi)) as (A & B & C). repeat split; auto.
      uc f m; auto. fold s in B. lia.
    + intros k R f v Hv Hp. apply in_or_app; left. uc k m; [|eapply KM; eauto].
      rewrite Ht. rewrite Hmx in Hv. eapply (KM m Hr); eauto.
    + intros c to t l lt Hi. pose proof (KR0 _ _ _ _ _ (A2 _ _ _ _ _ Hi)) as B. uc c m; auto. fold s in B. lia.
    + intros c to t l lt Hi T R. uc c m; [congruence|eapply KR; eauto].
    + intros c to t l lt Hi. eapply KR2; eauto.
    + intros c R i e Hn. uc c m; [congruence|eapply KCB; eauto].
  - (* LRecv *)
    subst o.
    assert (forall f to t l lt, In (f, to, RV t l lt) (x_sent x ++ tag_out m [(f0, AER (term s) true (pli + len es))]) ->
              In (f, to, RV t l lt) (x_sent x)) as A2.
    { intros f to t l lt Hi. apply in_app_or in Hi. destruct Hi as [Hi|Hi]; auto. apply tag_in in Hi.
      destruct Hi as [_ [E|[]]]. discriminate. }
    destruct (l3 _ _ I _ _ _ _ _ _ _ _ Hin) as [El (S1 & S2 & S3)]. fold x in El.
    constructor; cbn [y_x y_gl x_st x_sent x_elected].
    + intros f to t c Hi. apply in_app_or in Hi. destruct Hi as [Hi|Hi].
      * destruct (K1 _ _ _ _ Hi) as (A & B & C). repeat split; auto. uc f m; auto. fold s in B. lia.
      * apply tag_in in Hi. destruct Hi as [-> [E|[]]]. inversion E; subst. rewrite updf_same. split; [|split; [lia|eauto]].
        assert (length es <= length (skipn (N.to_nat pli) (y_gl y (term s))))%nat as Le.
        { rewrite S2 at 1. rewrite firstn_length. lia. }
        rewrite skipn_length in Le. unfold len. lia.
    + intros k R f v Hv Hp. uc k m; [congruence|]. apply in_or_app; left. eapply KM; eauto.
    + intros c to t l lt Hi. pose proof (KR0 _ _ _ _ _ (A2 _ _ _ _ _ Hi)) as B. uc c m; auto. fold s in B. lia.
    + intros c to t l lt Hi T R. uc c m; [congruence|eapply KR; eauto].
    + intros c to t l lt Hi. eapply KR2; eauto.
    + intros c R i e Hn. uc c m; [congruence|eapply KCB; eauto].
  - (* LGrant *)
    assert (forall f to r, In (f, to, r) (x_sent x ++ tag_out m [(from, RVR (term s))]) ->
              In (f, to, r) (x_sent x) \/ r = RVR (term s)) as A0.
    { intros f to r Hi. apply in_app_or in Hi. destruct Hi as [Hi|Hi]; auto. apply tag_in in Hi.
      destruct Hi as [_ [E|[]]]. inversion E; auto. }
    assert (last_log_position s' = last_log_position s) as LL by (unfold last_log_position; rewrite Hlog; auto).
    constructor; cbn [y_x y_gl x_st x_sent x_elected].
    + intros f to t c Hi. destruct (A0 _ _ _ Hi) as [Hi'|E]; [|discriminate].
      destruct (K1 _ _ _ _ Hi') as (A & B & C). repeat split; auto. uc f m; auto. fold s in B. lia.
    + intros k R f v Hv Hp. apply in_or_app; left. uc k m; [|eapply KM; eauto].
      rewrite Ht. rewrite Hmx in Hv. rewrite Hr in R. eapply (KM m R); eauto.
    + intros c to t l lt Hi. destruct (A0 _ _ _ Hi) as [Hi'|E]; [|discriminate].
      pose proof (KR0 _ _ _ _ _ Hi') as B. uc c m; auto. fold s in B. lia.
    + intros c to t l lt Hi T R. destruct (A0 _ _ _ Hi) as [Hi'|E]; [|discriminate].
      uc c m; [|eapply KR; eauto]. rewrite LL. eapply KR; eauto; fold s; congruence.
    + intros c to t l lt Hi. destruct (A0 _ _ _ Hi) as [Hi'|E]; [|discriminate]. eapply KR2; eauto.
    + intros c R i e Hn. uc c m; [|eapply KCB; eauto]. rewrite Ht. rewrite Hlog in Hn. rewrite Hr in R. eapply (KCB m R); eauto.
  - (* LVote *)
    assert (last_log_position s' = last_log_position s) as LL by (unfold last_log_position; rewrite Hlog; auto).
    constructor; cbn [y_x y_gl x_st x_sent x_elected].
    + intros f to t c Hi. destruct (K1 _ _ _ _ Hi) as (A & B & C). repeat split; auto. uc f m; auto. fold s in B. lia.
    + intros k R f v Hv Hp. uc k m; [congruence|eapply KM; eauto].
    + intros c to t l lt Hi. pose proof (KR0 _ _ _ _ _ Hi) as B. uc c m; auto. fold s in B. lia.
    + intros c to t l lt Hi T R. uc c m; [|eapply KR; eauto]. rewrite LL. eapply KR; eauto; fold s; congruence.
    + intros c to t l lt Hi. eapply KR2; eauto.
    + intros c R i e Hn. uc c m; [|eapply KCB; eauto]. rewrite Ht. rewrite Hlog in Hn. eapply (KCB m Hr); eauto.
  - (* LCand *)
    constructor; cbn [y_x y_gl x_st x_sent x_elected].
    + intros f to t c Hi. destruct (K1 _ _ _ _ Hi) as (A & B & C). repeat split; auto. uc f m; auto. fold s in B. lia.
    + intros k R f v Hv Hp. uc k m; [congruence|eapply KM; eauto].
    + intros c to t l lt Hi. pose proof (KR0 _ _ _ _ _ Hi) as B. uc c m; auto. fold s in B. lia.
    + intros c to t l lt Hi T R. uc c m; [|eapply KR; eauto].
      pose proof (KR0 _ _ _ _ _ Hi) as B. fold s in B. lia.
    + intros c to t l lt Hi. eapply KR2; eauto.
    + intros c R i e Hn. uc c m; [|eapply KCB; eauto]. rewrite Hlog in Hn.
      pose proof (m1 _ J m _ _ Hn) as B. fold x in B. fold s in B. lia.
Qed.
