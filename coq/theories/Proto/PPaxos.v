(* E10 Proto -- abstract multi-Paxos: the standard safety proof (at most one value chosen per
   slot), by Lamport's invariant: every p2a (b, s, v) is "safe at b" -- for every lower ballot c a
   quorum either accepted v in c or has promised never to accept in c. *)
From Coq Require Import Lia ZifyBool ZifyN.
From HV Require Import Proto.PRaftElection.
From HV Require Import Proto.PaxosModel.

Arguments N.add : simpl never.
Arguments N.div : simpl never.
Arguments N.ltb : simpl never.
Arguments N.leb : simpl never.
Arguments N.eqb : simpl never.

Definition wontvote (p : pstate) (a s c : N) : Prop :=
  c < maxBal p a /\ forall w, ~ In (a, s, c, w) (votes p).

Definition SafeAt (n : N) (p : pstate) (s b v : N) : Prop :=
  forall c, c < b -> exists Q, quorum n Q /\ forall a, In a Q -> In (a, s, c, v) (votes p) \/ wontvote p a s c.

Record PInv (n : N) (p : pstate) : Prop := mkPInv {
  i1 : forall a s b v, In (a, s, b, v) (votes p) -> In (b, s, v) (m2a p) /\ b <= maxBal p a /\ a < n;
  i2 : forall b s v v', In (b, s, v) (m2a p) -> In (b, s, v') (m2a p) -> v = v';
  i3 : forall b s v, In (b, s, v) (m2a p) -> SafeAt n p s b v;
  i5 : forall a b lg, In (a, b, lg) (m1b p) ->
         b <= maxBal p a /\ (forall s c w, In (s, c, w) lg -> In (c, s, w) (m2a p)) /\
         (forall s c w, In (a, s, c, w) (votes p) -> c < b -> exists c' w', In (s, c', w') lg /\ c <= c') }.

Lemma PInv_init : forall n, PInv n p_init.
Proof. intro n; constructor; cbn; intros; contradiction. Qed.

Lemma updf_same : forall A (f : N -> A) k v, updf f k v k = v.
Proof. intros; unfold updf. rewrite N.eqb_refl; auto. Qed.
Lemma updf_other : forall A (f : N -> A) k v x, x <> k -> updf f k v x = f x.
Proof. intros; unfold updf. destruct (x =? k) eqn:E; auto. apply N.eqb_eq in E; contradiction. Qed.

Lemma updf_ge : forall (f : N -> N) k v x, f k <= v -> f x <= updf f k v x.
Proof. intros f k v x H. unfold updf. destruct (x =? k) eqn:E; [apply N.eqb_eq in E; subst; auto|lia]. Qed.

Lemma log_of_In : forall a b vs s c v, In (s, c, v) (log_of a b vs) <-> (In (a, s, c, v) vs /\ c < b).
Proof.
  intros a b vs s c v. unfold log_of. rewrite in_map_iff. split.
  - intros ([[[a' s'] c'] v'] & E & H). cbn in E. inversion E; subst. apply filter_In in H. cbn in H.
    destruct H as [H1 H2]. apply andb_prop in H2. destruct H2 as [H2 H3].
    assert (a' = a) by lia. subst. split; auto. lia.
  - intros [H1 H2]. exists (a, s, c, v). split; auto. apply filter_In. split; auto. cbn.
    apply andb_true_intro. split; lia.
Qed.

Lemma vote_dec : forall (vs : list vote) a s c,
  (exists w, In (a, s, c, w) vs) \/ (forall w, ~ In (a, s, c, w) vs).
Proof.
  induction vs as [|[[[a' s'] c'] w'] r IH]; intros a s c; [right; intros w []|].
  destruct (IH a s c) as [(w & H)|H]; [left; exists w; right; auto|].
  destruct (N.eq_dec a' a) as [->|Na]; [|right; intros w [E|E]; [inversion E; contradiction|eapply H; eauto]].
  destruct (N.eq_dec s' s) as [->|Ns]; [|right; intros w [E|E]; [inversion E; contradiction|eapply H; eauto]].
  destruct (N.eq_dec c' c) as [->|Nc]; [|right; intros w [E|E]; [inversion E; contradiction|eapply H; eauto]].
  left. exists w'. left; auto.
Qed.

(* SafeAt is stable when promises only grow, votes only grow, and a new vote is never below the
   voter's previous promise *)
Lemma SafeAt_stable : forall n p p' s b v,
  (forall a, maxBal p a <= maxBal p' a) ->
  (forall x, In x (votes p) -> In x (votes p')) ->
  (forall a s' c w, In (a, s', c, w) (votes p') -> In (a, s', c, w) (votes p) \/ maxBal p a <= c) ->
  SafeAt n p s b v -> SafeAt n p' s b v.
Proof.
  intros n p p' s b v Hm Hv Hnew H c Hc. destruct (H c Hc) as (Q & HQ & HA). exists Q. split; auto.
  intros a Ha. destruct (HA a Ha) as [V|[W1 W2]]; [left; auto|]. right. split.
  - specialize (Hm a). lia.
  - intros w Hw. destruct (Hnew _ _ _ _ Hw) as [Ho|Ho]; [eapply W2; eauto|lia].
Qed.

Theorem pstep_PInv : forall n p p', pstep n p p' -> PInv n p -> PInv n p'.
Proof.
  intros n p p' H I. destruct I as [I1 I2 I3 I5].
  destruct H as [b | a0 b0 lg0 Ha0 H1a Hlt Hrep | b0 s0 v0 logs Hfresh HQ Hlogs Hpick | a0 b0 s0 v0 Ha0 H2a Hle].
  - (* P1a *)
    constructor; cbn [maxBal votes m1a m1b m2a]; auto.
  - (* P1b *)
    constructor; cbn [maxBal votes m1a m1b m2a]; auto.
    + intros a s b v H. destruct (I1 _ _ _ _ H) as (A & B & C). repeat split; auto.
      pose proof (updf_ge (maxBal p) a0 b0 a ltac:(lia)). lia.
    + intros b s v H. eapply SafeAt_stable; [| | |apply I3; eauto]; cbn; auto.
      intro a. apply updf_ge. lia.
    + intros a b lg [E|H].
      * inversion E; subst. rewrite updf_same. split; [lia|]. destruct Hrep as [R1 R2]. split; auto.
        intros s c w Hv _. apply (R2 s c w Hv).
      * destruct (I5 _ _ _ H) as (A & B & C). split; auto.
        pose proof (updf_ge (maxBal p) a0 b0 a ltac:(lia)). lia.
  - (* P2a *)
    constructor; cbn [maxBal votes m1a m1b m2a]; auto.
    + intros a s b v H. destruct (I1 _ _ _ _ H) as (A & B & C). repeat split; auto. right; auto.
    + intros b s v v' [E|H] [E'|H'].
      * congruence.
      * inversion E; subst. exfalso. eapply Hfresh; eauto.
      * inversion E'; subst. exfalso. eapply Hfresh; eauto.
      * eapply I2; eauto.
    + intros b s v [E|H]; [|exact (I3 _ _ _ H)].
      inversion E; subst b s v; clear E.
      (* the new proposal is safe at b0 *)
      assert (forall a, In a (map fst logs) -> exists lg, In (a, lg) logs /\ b0 <= maxBal p a /\
                (forall s c w, In (s, c, w) lg -> In (c, s, w) (m2a p)) /\
                (forall s c w, In (a, s, c, w) (votes p) -> c < b0 -> exists c' w', In (s, c', w') lg /\ c <= c')) as HL.
      { intros a Ha. apply in_map_iff in Ha. destruct Ha as ([a' lg] & E & Hin). cbn in E; subst a'.
        exists lg. split; [auto|]. apply I5. apply Hlogs; auto. }
      intros c Hc. cbn [maxBal votes].
      assert (forall a, In a (map fst logs) -> (forall w, ~ In (a, s0, c, w) (votes p)) -> wontvote p a s0 c) as WV.
      { intros a Ha Hn. destruct (HL a Ha) as (lg & _ & Hb & _ & _). split; auto. lia. }
      destruct Hpick as [Hfree|(a1 & lg1 & c0 & Hin1 & Hv1 & Hmax)].
      * exists (map fst logs). split; auto. intros a Ha. right. apply WV; auto.
        intros w Hw. destruct (HL a Ha) as (lg & Hl & _ & _ & Hcov).
        destruct (Hcov _ _ _ Hw Hc) as (c' & w' & Hin' & _).
        eapply (Hfree a lg c' w'); eauto.
      * assert (In a1 (map fst logs)) as Ha1 by (apply in_map_iff; exists (a1, lg1); auto).
        assert (In (c0, s0, v0) (m2a p)) as H2a0.
        { destruct (I5 _ _ _ (Hlogs _ _ Hin1)) as (_ & Hm2a & _). apply Hm2a; auto. }
        destruct (N.lt_trichotomy c c0) as [Lt|[Eq|Gt]].
        -- (* below the highest reported ballot: inherit from the p2a of c0 *)
           apply (I3 _ _ _ H2a0 c Lt).
        -- subst c. exists (map fst logs). split; auto. intros a Ha.
           destruct (vote_dec (votes p) a s0 c0) as [(w & Hw)|Hn]; [|right; apply WV; auto].
           left. destruct (I1 _ _ _ _ Hw) as (H2aw & _ & _). rewrite (I2 _ _ _ _ H2a0 H2aw). auto.
        -- exists (map fst logs). split; auto. intros a Ha. right. apply WV; auto.
           intros w Hw. destruct (HL a Ha) as (lg & Hl & _ & _ & Hcov).
           destruct (Hcov _ _ _ Hw Hc) as (c' & w' & Hlg & Hle').
           specialize (Hmax a lg c' w' Hl Hlg). lia.
    + intros a b lg H. destruct (I5 _ _ _ H) as (A & B & C). split; auto. split; auto.
      intros s c w Hin. right. apply B; auto.
  - (* P2b *)
    assert (forall a, maxBal p a <= updf (maxBal p) a0 b0 a) as Hm by (intro a; apply updf_ge; auto).
    constructor; cbn [maxBal votes m1a m1b m2a]; auto.
    + intros a s b v [E|H].
      * inversion E; subst. rewrite updf_same. repeat split; auto. lia.
      * destruct (I1 _ _ _ _ H) as (A & B & C). repeat split; auto. specialize (Hm a). lia.
    + intros b s v H. eapply SafeAt_stable; [| | |apply I3; eauto]; cbn [maxBal votes]; auto.
      * intros x Hx; right; auto.
      * intros a s' c w [E|Hw]; [inversion E; subst; right; auto|left; auto].
    + intros a b lg H. destruct (I5 _ _ _ H) as (A & B & C). split; [specialize (Hm a); lia|]. split; auto.
      intros s c w [E|X] Y; [|eapply C; eauto]. inversion E; subst. lia.
Qed.

Lemma psteps_PInv : forall n p p', psteps n p p' -> PInv n p -> PInv n p'.
Proof. induction 1; auto. intro; eapply pstep_PInv; eauto. Qed.

Lemma pstep_votes_mono : forall n p p', pstep n p p' -> forall x, In x (votes p) -> In x (votes p').
Proof. intros n p p' H x Hx; destruct H; cbn; auto. Qed.

Lemma psteps_votes_mono : forall n p p', psteps n p p' -> forall x, In x (votes p) -> In x (votes p').
Proof. induction 1; auto. intros x Hx. eapply pstep_votes_mono; eauto. Qed.

Lemma quorums_meet : forall n Q1 Q2, quorum n Q1 -> quorum n Q2 -> exists a, In a Q1 /\ In a Q2.
Proof.
  intros n Q1 Q2 (D1 & B1 & M1) (D2 & B2 & M2). apply (quorum_intersect n Q1 Q2); auto.
Qed.

(* one value per slot in one state *)
Theorem PInv_safety : forall n p, PInv n p -> forall s v1 v2, chosen n p s v1 -> chosen n p s v2 -> v1 = v2.
Proof.
  assert (forall n p, PInv n p -> forall s v1 v2 b1 b2 Q1 Q2, b1 <= b2 ->
            quorum n Q1 -> (forall a, In a Q1 -> In (a, s, b1, v1) (votes p)) ->
            quorum n Q2 -> (forall a, In a Q2 -> In (a, s, b2, v2) (votes p)) -> v1 = v2) as K.
  { intros n p I s v1 v2 b1 b2 Q1 Q2 Hle HQ1 H1 HQ2 H2.
    destruct (N.eq_dec b1 b2) as [->|Hne].
    - destruct (quorums_meet n Q1 Q2 HQ1 HQ2) as (a & A1 & A2).
      destruct (i1 _ _ I _ _ _ _ (H1 a A1)) as (X1 & _). destruct (i1 _ _ I _ _ _ _ (H2 a A2)) as (X2 & _).
      eapply (i2 _ _ I); eauto.
    - assert (b1 < b2) as Hlt by lia.
      destruct HQ2 as (D2 & B2 & M2). assert (exists a2, In a2 Q2) as (a2 & A2).
      { destruct Q2 as [|x r]; [cbn in M2; lia|exists x; left; auto]. }
      destruct (i1 _ _ I _ _ _ _ (H2 a2 A2)) as (X2 & _).
      destruct (i3 _ _ I _ _ _ X2 b1 Hlt) as (Q & HQ & HA).
      destruct (quorums_meet n Q1 Q HQ1 HQ) as (a & A1 & A3).
      destruct (HA a A3) as [V|[_ W]]; [|exfalso; eapply W; eauto].
      destruct (i1 _ _ I _ _ _ _ (H1 a A1)) as (Y1 & _). destruct (i1 _ _ I _ _ _ _ V) as (Y2 & _).
      eapply (i2 _ _ I); eauto. }
  intros n p I s v1 v2 (b1 & Q1 & HQ1 & H1) (b2 & Q2 & HQ2 & H2).
  destruct (N.le_ge_cases b1 b2) as [L|L].
  - apply (K n p I s v1 v2 b1 b2 Q1 Q2 L HQ1 H1 HQ2 H2).
  - symmetry. assert (b2 <= b1) as L' by lia. apply (K n p I s v2 v1 b2 b1 Q2 Q1 L' HQ2 H2 HQ1 H1).
Qed.

Theorem paxos_safety : forall n, paxos_safety_stmt n.
Proof.
  intros n p1 p2 R S s v1 v2 (b1 & Q1 & HQ1 & H1) C2.
  pose proof (psteps_PInv _ _ _ S (psteps_PInv _ _ _ R (PInv_init n))) as I.
  eapply (PInv_safety n p2 I s v1 v2); auto.
  exists b1, Q1. split; auto. intros a Ha. eapply psteps_votes_mono; eauto.
Qed.

(* non-vacuity: three acceptors, ballot 1, slot 0, value 7 gets chosen *)
Example paxos_nonvacuous : exists p, preachable 3 p /\ chosen 3 p 0 7.
Proof.
  eexists. split.
  - unfold preachable.
    eapply ps_step. eapply ps_step. eapply ps_step. eapply ps_step. eapply ps_step. eapply ps_step. apply ps_refl.
    + apply (P1a 3 _ 1).
    + apply (P1b 3 _ 0 1 []); [vm_compute; reflexivity|cbn; auto|vm_compute; discriminate|split; cbn; intros; contradiction].
    + apply (P1b 3 _ 1 1 []); [vm_compute; reflexivity|cbn; auto|vm_compute; discriminate|split; cbn; intros; contradiction].
    + apply (P2a 3 _ 1 0 7 [(1, []); (0, [])]); cbn.
      * intros w [].
      * split; [repeat constructor; cbn; intuition discriminate|]. split; [intros a [<-|[<-|[]]]; lia|cbn; lia].
      * intros a lg [E|[E|[]]]; inversion E; subst; cbn; auto.
      * left. intros a lg c w [E|[E|[]]]; inversion E; subst; intros [].
    + apply (P2b 3 _ 0 1 0 7); [vm_compute; reflexivity|cbn; auto|vm_compute; discriminate].
    + apply (P2b 3 _ 1 1 0 7); [vm_compute; reflexivity|cbn; auto|vm_compute; discriminate].
  - exists 1, [1; 0]. split.
    + split; [repeat constructor; cbn; intuition discriminate|]. split; [intros a [<-|[<-|[]]]; lia|cbn; lia].
    + intros a [<-|[<-|[]]]; cbn; auto.
Qed.
