(* E10 Proto -- Raft: a second invariant layered on the log-aware effects (a step towards Leader
   Completeness): in every log and every per-term leader log the entry terms are non-decreasing,
   no entry's term exceeds its owner's current term, and no entry of the leader log of term t has
   a term above t. *)
From Coq Require Import Lia ZifyBool ZifyN Arith.
From HV Require Import Proto.RaftNet Proto.PRaftLocal Proto.PRaftElection Proto.PRaftRefine Proto.PRaftWf
  Proto.PRaftLogLemmas Proto.PRaftLog Proto.PRaftLogRefine.

Definition sorted_terms (l : list entry) : Prop :=
  forall i j ei ej, (i <= j)%nat -> nth_error l i = Some ei -> nth_error l j = Some ej -> e_term ei <= e_term ej.

Definition bounded (t : N) (l : list entry) : Prop := forall i e, nth_error l i = Some e -> e_term e <= t.

Record LInv2 (y : ystate) : Prop := mkLInv2 {
  m1 : forall a, bounded (term (x_st (y_x y) a)) (log (x_st (y_x y) a));
  m1g : forall t, bounded t (y_gl y t);
  m2 : forall a, sorted_terms (log (x_st (y_x y) a));
  m2g : forall t, sorted_terms (y_gl y t) }.

Lemma LInv2_init : LInv2 y_init.
Proof. constructor; cbn; intros; intros ? ?; intros; destruct i; discriminate. Qed.

Lemma sorted_firstn : forall k l, sorted_terms l -> sorted_terms (firstn k l).
Proof.
  intros k l H i j ei ej L Hi Hj. apply nth_error_firstn_some in Hi. apply nth_error_firstn_some in Hj.
  destruct Hi as [Hi _], Hj as [Hj _]. exact (H i j ei ej L Hi Hj).
Qed.

Lemma bounded_firstn : forall t k l, bounded t l -> bounded t (firstn k l).
Proof. intros t k l H i e Hi. apply nth_error_firstn_some in Hi. destruct Hi as [Hi _]. exact (H i e Hi). Qed.

Lemma bounded_mono : forall t t' l, t <= t' -> bounded t l -> bounded t' l.
Proof. intros t t' l L H i e Hi. specialize (H i e Hi). lia. Qed.

Lemma sorted_app_same : forall t l ext, sorted_terms l -> bounded t l ->
  (forall e, In e ext -> e_term e = t) -> sorted_terms (l ++ ext) /\ bounded t (l ++ ext).
Proof.
  intros t l ext S B E.
  assert (forall i e, nth_error (l ++ ext) i = Some e ->
            (nth_error l i = Some e /\ (i < length l)%nat) \/ ((length l <= i)%nat /\ e_term e = t)) as Sp.
  { intros i e H. destruct (lt_dec i (length l)) as [L|L].
    - left. rewrite nth_error_app1 in H; auto.
    - right. split; [lia|]. rewrite nth_error_app2 in H by lia. apply E. eapply nth_error_In; eauto. }
  split.
  - intros i j ei ej L Hi Hj. destruct (Sp _ _ Hi) as [[Hi' Li]|[Li Ti]], (Sp _ _ Hj) as [[Hj' Lj]|[Lj Tj]].
    + exact (S i j ei ej L Hi' Hj').
    + rewrite Tj. exact (B i ei Hi').
    + lia.
    + lia.
  - intros i e H. destruct (Sp _ _ H) as [[H' _]|[_ T]]; [exact (B i e H')|lia].
Qed.

Ltac ucases2 k m :=
  destruct (N.eq_dec k m) as [->|?]; [rewrite ?updf_same in *|rewrite ?updf_other in * by auto].

Theorem leff_LInv2 : forall n y y', leff n y y' -> LInv n y -> LInv2 y -> LInv2 y'.
Proof.
  intros n y y' H I J. destruct J as [M1 M1g M2 M2g].
  destruct H as [m s' sent' cast' el' x s He Hl Ht Hr1 Hr2 Hs Hel Hcm Hs2 Hcand Hmi Hincl
                |m s' x s He Hc Hl Ht Hlog Hcm Hvs Hz Hmaj
                |m s' sent' ext x s He Hr Hr' Ht Hlog Hext Hwf Hs Hcm Hmx Hse
                |m s' o x s He Hr Hr' Ht Hlog Ho Hc1 Hmx Hrule Hlc
                |m s' o f ldr pli plt es lc cmt x s He Hin Hr Hr' Ht Hm Ha Ho Hcmt Hcm Hoo
                |m s' from lli llt x s He Hlog Ht Hr Hvs Hcm Hmx Hin Hpg
                |m s' u x s He Hlog Ht Hr Hr' Hcm Hvs Hin
                |m s' x s He Hlog Ht Hr Hr' Hcm Hvs];
    constructor; cbn [y_x y_gl x_st]; auto.
  - (* LSame *) intro a. ucases2 a m; auto. rewrite Hl. eapply bounded_mono; [exact Ht|apply M1].
  - intro a. ucases2 a m; auto. rewrite Hl. apply M2.
  - (* LWin *) intro a. ucases2 a m; auto. rewrite Hlog, Ht. apply M1.
  - intro t. ucases2 t (term s); auto. apply M1.
  - intro a. ucases2 a m; auto. rewrite Hlog. apply M2.
  - intro t. ucases2 t (term s); auto. apply M2.
  - (* LAppend *) intro a. ucases2 a m; auto. rewrite Hlog, Ht. apply (sorted_app_same (term s) (log s) ext); auto.
    apply M2. apply M1.
  - intro t. ucases2 t (term s); auto. rewrite Hlog. apply (sorted_app_same (term s) (log s) ext); auto.
    apply M2. apply M1.
  - intro a. ucases2 a m; auto. rewrite Hlog. apply (sorted_app_same (term s) (log s) ext); auto.
    apply M2. apply M1.
  - intro t. ucases2 t (term s); auto. rewrite Hlog. apply (sorted_app_same (term s) (log s) ext); auto.
    apply M2. apply M1.
  - (* LSend *) intro a. ucases2 a m; auto. rewrite Hlog, Ht. apply M1.
  - intro a. ucases2 a m; auto. rewrite Hlog. apply M2.
  - (* LRecv *)
    assert (log s' = log s \/ exists K, log s' = firstn K (y_gl y (term s))) as Sh.
    { destruct I as [II L1 L2 L2g L3 L5 L6 L6g L7 L7g]. fold x in L2, L3, L7.
      destruct (L3 _ _ _ _ _ _ _ _ Hin) as [_ (S1 & S2 & S3)].
      set (G := y_gl y (term s)) in *. set (p := N.to_nat pli) in *.
      assert ((p <= length (log s))%nat /\ firstn p (log s) = firstn p G) as [Hp Hpre].
      { destruct (N.eq_dec pli 0) as [Z|NZ].
        - subst p. rewrite Z. cbn. split; auto; lia.
        - destruct Hm as [Hm|(Hm1 & em & Hm2 & Hm3)]; [contradiction|].
          destruct S3 as [S3|(eg & S3 & S4)]; [contradiction|].
          split; [unfold len in Hm1; lia|].
          pose proof (L2 _ _ _ Hm2) as P1. pose proof (L2g _ _ _ S3) as P2. fold s in P1.
          assert (S (p - 1) = p) as Ep by (subst p; lia). fold p in P1, P2. rewrite Ep in P1, P2.
          unfold G in *. rewrite P1, P2, Hm3, S4. auto. }
      destruct (append_entries_shape (y_gl y) es (log s) cmt p G (log s')) as [E|E]; eauto. }
    intro a. ucases2 a m; auto. rewrite Ht. destruct Sh as [E|(K & E)]; rewrite E; [apply M1|].
    apply bounded_firstn. apply M1g.
  - assert (log s' = log s \/ exists K, log s' = firstn K (y_gl y (term s))) as Sh.
    { destruct I as [II L1 L2 L2g L3 L5 L6 L6g L7 L7g]. fold x in L2, L3, L7.
      destruct (L3 _ _ _ _ _ _ _ _ Hin) as [_ (S1 & S2 & S3)].
      set (G := y_gl y (term s)) in *. set (p := N.to_nat pli) in *.
      assert ((p <= length (log s))%nat /\ firstn p (log s) = firstn p G) as [Hp Hpre].
      { destruct (N.eq_dec pli 0) as [Z|NZ].
        - subst p. rewrite Z. cbn. split; auto; lia.
        - destruct Hm as [Hm|(Hm1 & em & Hm2 & Hm3)]; [contradiction|].
          destruct S3 as [S3|(eg & S3 & S4)]; [contradiction|].
          split; [unfold len in Hm1; lia|].
          pose proof (L2 _ _ _ Hm2) as P1. pose proof (L2g _ _ _ S3) as P2. fold s in P1.
          assert (S (p - 1) = p) as Ep by (subst p; lia). fold p in P1, P2. rewrite Ep in P1, P2.
          unfold G in *. rewrite P1, P2, Hm3, S4. auto. }
      destruct (append_entries_shape (y_gl y) es (log s) cmt p G (log s')) as [E|E]; eauto. }
    intro a. ucases2 a m; auto. destruct Sh as [E|(K & E)]; rewrite E; [apply M2|].
    apply sorted_firstn. apply M2g.
  - (* LGrant *) intro a. ucases2 a m; auto. rewrite Hlog, Ht. apply M1.
  - intro a. ucases2 a m; auto. rewrite Hlog. apply M2.
  - (* LVote *) intro a. ucases2 a m; auto. rewrite Hlog, Ht. apply M1.
  - intro a. ucases2 a m; auto. rewrite Hlog. apply M2.
  - (* LCand *) intro a. ucases2 a m; auto. rewrite Hlog. eapply bounded_mono; [|apply M1]. rewrite Ht. fold x. fold s. lia.
  - intro a. ucases2 a m; auto. rewrite Hlog. apply M2.
Qed.

Lemma leffs_LInv2 : forall n y y', leffs n y y' -> LInv n y -> LInv2 y -> LInv n y' /\ LInv2 y'.
Proof.
  induction 1; intros I J; auto. destruct (IHleffs I J) as [I' J']. split.
  - eapply leff_LInv; eauto.
  - eapply leff_LInv2; eauto.
Qed.

(* for every reachable state of the network: log terms are non-decreasing and bounded by the
   member's current term *)
Theorem log_terms_monotone : forall n g, reachable n g -> forall a,
  sorted_terms (log (g_st g a)) /\ bounded (term (g_st g a)) (log (g_st g a)).
Proof.
  intros n g R a. destruct (gsteps_lsim n g_init g y_init R) as (y & E & [S _]); [split; auto|].
  destruct (leffs_LInv2 _ _ _ E (LInv_init n) LInv2_init) as [_ J]. rewrite S. split; [apply (m2 _ J)|apply (m1 _ J)].
Qed.
