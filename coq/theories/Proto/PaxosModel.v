(* E10 Proto -- abstract multi-Paxos as a transition system (ballots, p1a / p1b / p2a / p2b,
   per-slot chosen value), the protocol skeleton of hydro_test/src/cluster/paxos.rs:
     p1a  = a proposer's ballot announcement,
     p1b  = an acceptor's promise carrying a log of proposals that covers its votes (`report_ok`),
     p2a  = the leader's proposal for a slot (fresh payload, re-commit of the highest-ballot
            accepted value found in a quorum of p1b logs, or a no-op for a hole),
     p2b  = an acceptor's accept.
   The network is the set of messages ever sent (any delay / reordering / duplication / loss);
   acceptors and proposers may stop at any time (no action is ever forced).  Definitions only. *)
From Coq Require Export List NArith Bool.
Export ListNotations.
Open Scope N_scope.

Definition vote := (N * N * N * N)%type.          (* (acceptor, slot, ballot, value) *)
Definition lentry := (N * N * N)%type.            (* (slot, ballot, value) in a p1b log *)

Record pstate := mkP {
  maxBal : N -> N;                                 (* highest ballot promised / accepted; 0 = none *)
  votes : list vote;                               (* p2b: accepted (acceptor, slot, ballot, value) *)
  m1a : list N;                                    (* p1a ballots *)
  m1b : list (N * N * list lentry);                (* p1b (acceptor, ballot, accepted log) *)
  m2a : list (N * N * N) }.                        (* p2a (ballot, slot, value) *)

Definition p_init : pstate := mkP (fun _ => 0) [] [] [] [].

Definition updf {A} (f : N -> A) (k : N) (v : A) : N -> A := fun x => if x =? k then v else f x.

(* what acceptor a reports in a p1b for ballot b: everything it accepted (in ballots below b) *)
Definition log_of (a b : N) (vs : list vote) : list lentry :=
  map (fun v => (snd (fst (fst v)), snd (fst v), snd v))
      (filter (fun v => (fst (fst (fst v)) =? a) && (snd (fst v) <? b)) vs).

Definition quorum (n : N) (Q : list N) : Prop :=
  NoDup Q /\ (forall a, In a Q -> a < n) /\ n / 2 + 1 <= N.of_nat (length Q).

(* what acceptor a may report in a p1b: a list of proposals it has seen (each entry is a p2a that
   was really sent -- not necessarily one the acceptor voted for, and possibly of a ballot above
   the promised one) that COVERS its votes: for every vote (slot s, ballot c) there is an entry for
   s with a ballot >= c.  `log_of` (exactly the votes below b) is one such report; the log kept by
   the Hydro acceptor (one entry per slot, the highest-ballot p2a received while not promised
   higher) is another. *)
Definition report_ok (p : pstate) (a : N) (lg : list lentry) : Prop :=
  (forall s c w, In (s, c, w) lg -> In (c, s, w) (m2a p)) /\
  (forall s c w, In (a, s, c, w) (votes p) -> exists c' w', In (s, c', w') lg /\ c <= c').

(* the leader's choice for slot s from a quorum of p1b logs: free if no log mentions s, otherwise
   the value with the highest ballot *)
Definition pick_ok (logs : list (N * list lentry)) (s v : N) : Prop :=
  (forall a lg c w, In (a, lg) logs -> ~ In (s, c, w) lg) \/
  (exists a0 lg0 c0, In (a0, lg0) logs /\ In (s, c0, v) lg0 /\
                     forall a lg c w, In (a, lg) logs -> In (s, c, w) lg -> c <= c0).

Inductive pstep (n : N) (p : pstate) : pstate -> Prop :=
| P1a : forall b,
    pstep n p (mkP (maxBal p) (votes p) (b :: m1a p) (m1b p) (m2a p))
| P1b : forall a b lg, a < n -> In b (m1a p) -> maxBal p a <= b -> report_ok p a lg ->
    pstep n p (mkP (updf (maxBal p) a b) (votes p) (m1a p) ((a, b, lg) :: m1b p) (m2a p))
| P2a : forall b s v logs,
    (forall w, ~ In (b, s, w) (m2a p)) ->
    quorum n (map fst logs) -> (forall a lg, In (a, lg) logs -> In (a, b, lg) (m1b p)) ->
    pick_ok logs s v ->
    pstep n p (mkP (maxBal p) (votes p) (m1a p) (m1b p) ((b, s, v) :: m2a p))
| P2b : forall a b s v, a < n -> In (b, s, v) (m2a p) -> maxBal p a <= b ->
    pstep n p (mkP (updf (maxBal p) a b) ((a, s, b, v) :: votes p) (m1a p) (m1b p) (m2a p)).

Inductive psteps (n : N) : pstate -> pstate -> Prop :=
| ps_refl : forall p, psteps n p p
| ps_step : forall p p' p'', psteps n p p' -> pstep n p' p'' -> psteps n p p''.

Definition preachable (n : N) (p : pstate) : Prop := psteps n p_init p.

(* value v is chosen for slot s: a quorum accepted it in one ballot *)
Definition chosen (n : N) (p : pstate) (s v : N) : Prop :=
  exists b Q, quorum n Q /\ forall a, In a Q -> In (a, s, b, v) (votes p).

(* the property: at most one value is ever chosen per slot -- over two moments of one execution *)
Definition paxos_safety_stmt (n : N) : Prop :=
  forall p1 p2, preachable n p1 -> psteps n p1 p2 ->
  forall s v1 v2, chosen n p1 s v1 -> chosen n p2 s v2 -> v1 = v2.
