(* E10 Proto -- Raft: Leader Completeness and State Machine Safety, stage A (state-level logic).

   All history needed is read off the monotone message set and the ghost leader logs:
     acked y f t c    : member f sent a successful AppendEntriesReply for term t with match index c
     holds y q t c    : q is the leader of term t, or acked a match index >= c in term t
     committed y t c  : c > 0, the c-th entry of the leader log of t has term t (the 5.4.2 rule), and
                        a quorum holds (t, c)
   VInv   : every elected leader was voted for by a quorum each of whose members, for every
            current-term prefix it held in an older term, forces that prefix into the new leader's
            log -- provided all elected terms in between have it (established at the vote by the
            election restriction; proved to be an invariant in PRaftLC2.v).
   LC_from_V : Leader Completeness follows from VInv by strong induction over elected terms and
            quorum intersection.
   CS     : every member's committed prefix is a prefix of the leader log of a term in which it is
            committed.
   sms_state_from : State Machine Safety in one state from LInv + VInv + CS. *)
From Coq Require Import Lia ZifyBool ZifyN Arith.
From HV Require Import Proto.RaftNet Proto.PRaftLocal Proto.PRaftElection Proto.PRaftRefine Proto.PRaftWf
  Proto.PRaftLogLemmas Proto.PRaftLog Proto.PRaftLogRefine Proto.PRaftLogTerms.

Definition pfx (c : nat) (X Y : list entry) : Prop := firstn c X = firstn c Y.

Definition acked (y : ystate) (f t : N) (c : nat) : Prop :=
  exists to, In (f, to, AER t true (N.of_nat c)) (x_sent (y_x y)).

Definition holds (y : ystate) (q t : N) (c : nat) : Prop :=
  In (t, q) (x_elected (y_x y)) \/ exists c', acked y q t c' /\ (c <= c')%nat.

Definition cur (y : ystate) (t : N) (c : nat) : Prop :=
  exists e, nth_error (y_gl y t) (c - 1) = Some e /\ e_term e = t.

Definition isq (n : N) (Q : list N) : Prop :=
  NoDup Q /\ (forall q, In q Q -> q < n) /\ majority_of n <= len Q.

Definition committed (n : N) (y : ystate) (t : N) (c : nat) : Prop :=
  (0 < c)%nat /\ (c <= length (y_gl y t))%nat /\ cur y t c /\
  exists Q, isq n Q /\ forall q, In q Q -> holds y q t c.

Definition between_ok (y : ystate) (t t' : N) (c : nat) : Prop :=
  forall t1 q1, t < t1 -> t1 < t' -> In (t1, q1) (x_elected (y_x y)) -> pfx c (y_gl y t1) (y_gl y t).

Definition VInv (n : N) (y : ystate) : Prop :=
  forall t' c', In (t', c') (x_elected (y_x y)) ->
  exists Q', isq n Q' /\
    forall u, In u Q' -> forall t c, t < t' -> (0 < c)%nat -> cur y t c -> holds y u t c ->
      between_ok y t t' c -> pfx c (y_gl y t') (y_gl y t).

Theorem LC_from_V : forall n y, VInv n y ->
  forall t c, committed n y t c -> forall t' c', t < t' -> In (t', c') (x_elected (y_x y)) ->
  pfx c (y_gl y t') (y_gl y t).
Proof.
  intros n y V t c (Hc & Hl & Hcur & Q & (D & B & M) & HQ).
  intro t'. induction t' as [t' IH] using (well_founded_induction N.lt_wf_0).
  intros c' Lt El. destruct (V t' c' El) as (Q' & (D' & B' & M') & HV).
  destruct (quorum_intersect n Q Q') as (u & U1 & U2); auto.
  apply (HV u U2 t c Lt Hc Hcur (HQ u U1)).
  intros t1 q1 L1 L2 E1. eapply IH; eauto.
Qed.

Definition CS (n : N) (y : ystate) : Prop :=
  forall a, 0 < commit (x_st (y_x y) a) ->
  exists t c, committed n y t c /\ (N.to_nat (commit (x_st (y_x y) a)) <= c)%nat /\
              pfx (N.to_nat (commit (x_st (y_x y) a))) (log (x_st (y_x y) a)) (y_gl y t).

Lemma pfx_le : forall c c' X Y, (c <= c')%nat -> pfx c' X Y -> pfx c X Y.
Proof.
  unfold pfx. intros c c' X Y L H. rewrite <- (firstn_firstn_le _ c c' X L), <- (firstn_firstn_le _ c c' Y L), H. auto.
Qed.

Lemma pfx_nth : forall c X Y k, (k < c)%nat -> pfx c X Y -> nth_error X k = nth_error Y k.
Proof.
  unfold pfx. intros c X Y k L H.
  rewrite <- (nth_error_firstn_lt _ c X k L), <- (nth_error_firstn_lt _ c Y k L), H. auto.
Qed.

Lemma committed_elected : forall n y t c, LInv n y -> committed n y t c -> exists q, In (t, q) (x_elected (y_x y)).
Proof.
  intros n y t c I (_ & _ & (e & He & Te) & _). destruct (l6g _ _ I _ _ _ He) as (q & Hq). rewrite Te in Hq. eauto.
Qed.

Theorem sms_state_from : forall n y, LInv n y -> VInv n y -> CS n y ->
  forall a b k e1 e2,
    nth_error (firstn (N.to_nat (commit (x_st (y_x y) a))) (log (x_st (y_x y) a))) k = Some e1 ->
    nth_error (firstn (N.to_nat (commit (x_st (y_x y) b))) (log (x_st (y_x y) b))) k = Some e2 -> e1 = e2.
Proof.
  intros n y I V C a b k e1 e2 H1 H2.
  apply nth_error_firstn_some in H1. destruct H1 as [H1 K1].
  apply nth_error_firstn_some in H2. destruct H2 as [H2 K2].
  assert (0 < commit (x_st (y_x y) a)) as Pa0 by lia. assert (0 < commit (x_st (y_x y) b)) as Pb0 by lia.
  destruct (C a Pa0) as (ta & ca & Ca & La & Pa). destruct (C b Pb0) as (tb & cb & Cb & Lb & Pb).
  rewrite (pfx_nth _ _ _ k K1 Pa) in H1. rewrite (pfx_nth _ _ _ k K2 Pb) in H2.
  destruct (N.lt_trichotomy ta tb) as [L|[E|L]].
  - destruct (committed_elected _ _ _ _ I Cb) as (q & Hq).
    pose proof (LC_from_V n y V ta ca Ca tb q L Hq) as P.
    assert (k < ca)%nat as Kc by lia. rewrite <- (pfx_nth _ _ _ k Kc P) in H1. congruence.
  - subst. congruence.
  - destruct (committed_elected _ _ _ _ I Ca) as (q & Hq).
    pose proof (LC_from_V n y V tb cb Cb ta q L Hq) as P.
    assert (k < cb)%nat as Kc by lia. rewrite <- (pfx_nth _ _ _ k Kc P) in H2. congruence.
Qed.
