(* E10 Proto -- Raft: the reduction of State Machine Safety to Leader Completeness.

   Leader Completeness is stated on the ghost-instrumented system (PRaftLog.v), where the leader
   log of every term exists as `y_gl t` even when no member currently has role Leader:

     LCstar y :  for every member a with a non-empty committed prefix whose last entry has term T,
                 the leader log of EVERY elected term t' >= T contains a's committed prefix.

   Theorem sms_from_lc: if LCstar holds in every reachable ghost state, then State Machine Safety
   (C40_raft_sms_stmt) holds for every execution.  The proof uses the log invariant LInv (every
   entry's term has an elected leader), the well-formedness invariant (commit <= length) and the
   stability of each member's own committed prefix.  LCstar itself is NOT proved, and is stronger
   than what Raft guarantees (an old-term entry may be committed only transitively in a later term);
   the full result (Proto/PRaftLC5.v, raft_sms) goes through commit soundness + the vote invariant
   instead. *)
From Coq Require Import Lia ZifyBool ZifyN Arith.
From HV Require Import Proto.RaftNet Proto.PRaftLocal Proto.PRaftElection Proto.PRaftRefine Proto.PRaftWf
  Proto.PRaftLogLemmas Proto.PRaftLog Proto.PRaftLogRefine.

Definition LCstar (y : ystate) : Prop :=
  forall a e t' c', let s := x_st (y_x y) a in
    nth_error (log s) (N.to_nat (commit s) - 1) = Some e -> 0 < commit s ->
    In (t', c') (x_elected (y_x y)) -> e_term e <= t' ->
    firstn (N.to_nat (commit s)) (y_gl y t') = firstn (N.to_nat (commit s)) (log s).

Lemma nth_firstn_eq : forall (X Y : list entry) c k, (k < c)%nat -> firstn c X = firstn c Y ->
  nth_error X k = nth_error Y k.
Proof.
  intros X Y c k H E. rewrite <- (nth_error_firstn_lt _ c X k H), <- (nth_error_firstn_lt _ c Y k H), E. auto.
Qed.

(* state form: in one reachable state the committed prefixes of two members agree *)
Lemma sms_state : forall n g y, reachable n g -> LInv n y -> sim g (y_x y) -> LCstar y ->
  forall a b, sms_pair (g_st g a) (g_st g b).
Proof.
  intros n g y R I [S _] LC a b k e1 e2 H1 H2.
  destruct (reachable_wf n g R a) as (_ & Ca & _). destruct (reachable_wf n g R b) as (_ & Cb & _).
  unfold committed_prefix in *. rewrite ?(S a), ?(S b) in *.
  set (sa := x_st (y_x y) a) in *. set (sb := x_st (y_x y) b) in *.
  apply nth_error_firstn_some in H1. destruct H1 as [H1 K1].
  apply nth_error_firstn_some in H2. destruct H2 as [H2 K2].
  unfold len in Ca, Cb.
  destruct (nth_error (log sa) (N.to_nat (commit sa) - 1)) as [ea|] eqn:Ea;
    [|apply nth_error_None in Ea; lia].
  destruct (nth_error (log sb) (N.to_nat (commit sb) - 1)) as [eb|] eqn:Eb;
    [|apply nth_error_None in Eb; lia].
  (* the larger of the two last-committed terms has an elected leader *)
  assert (exists T c', In (T, c') (x_elected (y_x y)) /\ e_term ea <= T /\ e_term eb <= T) as (T & c' & HT & La & Lb).
  { destruct (N.le_ge_cases (e_term ea) (e_term eb)) as [L|L].
    - destruct (l6 _ _ I b _ _ Eb) as (c' & Hc). exists (e_term eb), c'. repeat split; auto; lia.
    - destruct (l6 _ _ I a _ _ Ea) as (c' & Hc). exists (e_term ea), c'. repeat split; auto; lia. }
  assert (0 < commit sa) as Pa0 by lia. assert (0 < commit sb) as Pb0 by lia.
  pose proof (LC a ea T c' Ea Pa0 HT La) as Pa. pose proof (LC b eb T c' Eb Pb0 HT Lb) as Pb.
  fold sa in Pa. fold sb in Pb.
  pose proof (nth_firstn_eq _ _ _ k K1 Pa) as Qa. pose proof (nth_firstn_eq _ _ _ k K2 Pb) as Qb.
  congruence.
Qed.

Theorem sms_from_lc : forall n, (forall y, leffs n y_init y -> LCstar y) -> C40_raft_sms_stmt n.
Proof.
  intros n HLC g1 g2 R1 S12 a b Ha Hb k e1 e2 H1 H2.
  (* a's entry is still committed, unchanged, at the later moment *)
  assert (reachable n g2) as R2.
  { clear - R1 S12. induction S12; auto. eapply gs_step; [apply IHS12; auto|eauto]. }
  destruct (gsteps_GW _ _ _ R1 GW_init) as (G1 & _).
  destruct (gsteps_GW _ _ _ S12 G1) as (_ & St). destruct (St a) as (Cm & Sb).
  assert (nth_error (committed_prefix (g_st g2 a)) k = Some e1) as H1'.
  { unfold committed_prefix in *. apply nth_error_firstn_some in H1. destruct H1 as [H1 K1].
    rewrite nth_error_firstn_lt by lia. rewrite (Sb k) by lia. auto. }
  (* the ghost state simulating g2 *)
  destruct (gsteps_lsim n g_init g2 y_init R2) as (y & E & S); [split; auto|].
  pose proof (leffs_LInv _ _ _ E (LInv_init n)) as I.
  eapply (sms_state n g2 y R2 I S (HLC y E) a b k); eauto.
Qed.
