(* E10 Proto -- Raft: per-member monotonicity facts, proved for every call of `raft_step`
   (any state, any input) and lifted to every execution of the network. *)
From Coq Require Import Lia ZifyBool ZifyN.
From HV Require Import Proto.RaftNet.

Arguments N.add : simpl never.
Arguments N.sub : simpl never.
Arguments N.div : simpl never.
Arguments N.ltb : simpl never.
Arguments N.leb : simpl never.
Arguments N.eqb : simpl never.

(* term never decreases; within one term a vote, once cast, is never changed; the commit index
   never decreases *)
Definition mono (s s' : rstate) : Prop :=
  term s <= term s' /\
  (term s = term s' -> forall c, voted_for s = Some c -> voted_for s' = Some c) /\
  commit s <= commit s'.

Lemma mono_refl : forall s, mono s s.
Proof. intro s; unfold mono; repeat split; auto; lia. Qed.

Lemma mono_trans : forall a b c, mono a b -> mono b c -> mono a c.
Proof.
  unfold mono; intros a b c (H1 & H2 & H3) (H4 & H5 & H6); repeat split; try lia.
  intros E v Hv. apply H5; [lia|]. apply H2; [lia|exact Hv].
Qed.

Lemma observe_term_mono : forall s t s' b, observe_term s t = (s', b) -> mono s s'.
Proof.
  intros s t s' b; unfold observe_term.
  destruct (term s <? t) eqn:E; intro H; inversion H; subst; clear H.
  - unfold mono; cbn; repeat split; try lia.
  - apply mono_refl.
Qed.

Lemma observe_term_cur : forall s t s', observe_term s t = (s', true) -> term s' = t.
Proof.
  intros s t s'; unfold observe_term.
  destruct (term s <? t) eqn:E; intro H; inversion H; subst; cbn; auto. lia.
Qed.

Lemma become_leader_fields : forall s o,
  term (become_leader s o) = term s /\ voted_for (become_leader s o) = voted_for s /\
  commit (become_leader s o) = commit s /\ log (become_leader s o) = log s /\
  votes (become_leader s o) = votes s /\ rrole (become_leader s o) = Leader.
Proof. intros; cbn; repeat split. Qed.

Lemma mono_same : forall s s', term s' = term s -> voted_for s' = voted_for s -> commit s <= commit s' -> mono s s'.
Proof. unfold mono; intros s s' A B C; repeat split; try lia. intros _ c Hc; congruence. Qed.

Lemma handle_msg_mono : forall others maj s from m s' o,
  handle_msg others maj s from m = Some (s', o) -> mono s s'.
Proof.
  intros others maj s from m s' o H.
  destruct m as [t lli llt | t | t leader pli plt es lc | t succ mi]; cbn [handle_msg] in H;
    destruct (observe_term s t) as [s1 cur] eqn:Eo; pose proof (observe_term_mono _ _ _ _ Eo) as M1;
    destruct cur; cbn [negb] in H.
  - (* RV current *)
    destruct (pair_ge (llt, lli) (last_log_position s1) &&
              match voted_for s1 with None => true | Some v => v =? from end) eqn:G;
      inversion H; subst; clear H; auto.
    eapply mono_trans; [exact M1|].
    unfold mono; cbn; repeat split; try lia.
    intros _ c Hc. apply andb_prop in G; destruct G as [_ G]. rewrite Hc in G. f_equal. lia.
  - inversion H; subst; auto.
  - (* RVR current *)
    destruct (rrole s1); try (inversion H; subst; auto; fail).
    match type of H with (if ?c then _ else _) = _ => destruct c end; inversion H; subst; clear H;
      (eapply mono_trans; [exact M1|]); apply mono_same; cbn; auto; lia.
  - inversion H; subst; auto.
  - (* AE current *)
    destruct (is_leader s1); [discriminate|].
    match type of H with (if negb ?c then _ else _) = _ => destruct c end; cbn [negb] in H.
    + destruct (append_entries (log (set_follow s1 leader)) (commit (set_follow s1 leader)) es) as [lg|];
        [|discriminate].
      inversion H; subst; clear H. eapply mono_trans; [exact M1|].
      match goal with |- mono _ (if ?c then _ else _) => destruct c eqn:Ec end;
        apply mono_same; cbn; auto; cbn in Ec; lia.
    + inversion H; subst; clear H. eapply mono_trans; [exact M1|]. apply mono_same; cbn; auto; lia.
  - inversion H; subst; auto.
  - (* AER current *)
    destruct (is_leader s1); cbn [negb] in H; [|inversion H; subst; auto].
    destruct succ.
    + inversion H; subst; clear H. eapply mono_trans; [exact M1|]. apply mono_same; cbn; auto; lia.
    + destruct (mget from (next_index s1)) as [nx|]; [|inversion H; subst; auto].
      destruct (nx =? 0); [discriminate|].
      inversion H; subst; clear H. eapply mono_trans; [exact M1|]. apply mono_same; cbn; auto; lia.
  - inversion H; subst; auto.
Qed.

Lemma handle_msgs_mono : forall others maj ms s s' o,
  handle_msgs others maj s ms = Some (s', o) -> mono s s'.
Proof.
  induction ms as [|[from m] r IH]; intros s s' o H; cbn [handle_msgs] in H.
  - inversion H; subst; apply mono_refl.
  - destruct (handle_msg others maj s from m) as [[s1 o1]|] eqn:E1; [|discriminate].
    destruct (handle_msgs others maj s1 r) as [[s2 o2]|] eqn:E2; [|discriminate].
    inversion H; subst; clear H.
    eapply mono_trans; [eapply handle_msg_mono; eauto | eapply IH; eauto].
Qed.

Lemma do_requests_mono : forall reqs s s' red, do_requests s reqs = (s', red) -> mono s s'.
Proof.
  induction reqs as [|x r IH]; intros s s' red H; cbn [do_requests] in H.
  - inversion H; subst; apply mono_refl.
  - destruct (is_leader s) eqn:L.
    + apply IH in H. eapply mono_trans; [|exact H]. apply mono_same; cbn; auto; lia.
    + destruct (do_requests s r) as [s2 red2] eqn:E. inversion H; subst; clear H. eapply IH; eauto.
Qed.

Lemma do_election_mono : forall me others maj s fired s' o,
  do_election me others maj s fired = (s', o) -> mono s s'.
Proof.
  intros me others maj s fired s' o; unfold do_election.
  destruct (fired && negb (is_leader s)); [|intro H; inversion H; subst; apply mono_refl].
  destruct (hb_seen s).
  - intro H; inversion H; subst. apply mono_same; cbn; auto; lia.
  - destruct (maj <=? 1).
    + intro H; inversion H; subst; clear H. unfold mono; cbn; repeat split; try lia.
    + match goal with |- context [last_log_position ?x] => destruct (last_log_position x) end.
      intro H; inversion H; subst; clear H. unfold mono; cbn; repeat split; try lia.
Qed.

Lemma commit_scan_ge : forall others maj s k, commit s <= commit_scan others maj s k.
Proof.
  induction k as [|k IH]; cbn [commit_scan]; [lia|].
  destruct (N.of_nat (S k) <=? commit s) eqn:E; [lia|].
  destruct (nth_error (log s) k) as [e|]; auto.
  match goal with |- context [if ?c then _ else _] => destruct c end; auto. lia.
Qed.

Lemma do_commit_mono : forall others maj s, mono s (do_commit others maj s).
Proof.
  intros; unfold do_commit. destruct (is_leader s); [|apply mono_refl].
  apply mono_same; cbn; auto. apply commit_scan_ge.
Qed.

Lemma do_emit_mono : forall s s' c, do_emit s = Some (s', c) -> mono s s'.
Proof.
  intros s s' c; unfold do_emit.
  destruct (emitted s <? commit s); [|intro H; inversion H; subst; apply mono_refl].
  destruct (commit s <=? len (log s)); [|discriminate].
  intro H; inversion H; subst. apply mono_same; cbn; auto; lia.
Qed.

Theorem raft_step_mono : forall s i s' o, raft_step s i = Some (s', o) -> mono s s'.
Proof.
  intros s i s' o; unfold raft_step.
  destruct (handle_msgs _ _ s _) as [[s1 oa]|] eqn:Ea; [|discriminate].
  destruct (do_requests s1 _) as [s2 red] eqn:Eb.
  destruct (do_election _ _ _ s2 _) as [s3 oc] eqn:Ec.
  destruct (do_heartbeat _ _ _ _) as [oe|]; [|discriminate].
  destruct (do_emit _) as [[s5 cm]|] eqn:Ef; [|discriminate].
  intro H; inversion H; subst; clear H.
  eapply mono_trans; [eapply handle_msgs_mono; eauto|].
  eapply mono_trans; [eapply do_requests_mono; eauto|].
  eapply mono_trans; [eapply do_election_mono; eauto|].
  eapply mono_trans; [apply do_commit_mono|].
  eapply do_emit_mono; eauto.
Qed.

(* lifted to executions *)
Lemma updf_same : forall A (f : N -> A) k v, updf f k v k = v.
Proof. intros; unfold updf. rewrite N.eqb_refl; auto. Qed.
Lemma updf_other : forall A (f : N -> A) k v x, x <> k -> updf f k v x = f x.
Proof. intros; unfold updf. destruct (x =? k) eqn:E; auto. apply N.eqb_eq in E; contradiction. Qed.

Lemma gstep_mono : forall n g g', gstep n g g' -> forall m, mono (g_st g m) (g_st g' m).
Proof.
  intros n g g' H m; destruct H; cbn [g_st]; try apply mono_refl.
  destruct (N.eq_dec m m0) as [->|Hne].
  - rewrite updf_same. eapply raft_step_mono; eauto.
  - rewrite updf_other by auto. apply mono_refl.
Qed.

Theorem gsteps_mono : forall n g g', gsteps n g g' -> forall m, mono (g_st g m) (g_st g' m).
Proof.
  induction 1; intro m; [apply mono_refl|].
  eapply mono_trans; [apply IHgsteps|]. eapply gstep_mono; eauto.
Qed.
