(* E10 Proto -- Raft.  Field-by-field transcription of
   /repo/hydro_test/src/cluster/raft.rs `raft_step` (a pure sequential Rust function) into
   Gallina.  Definitions only.

   Conventions: usize/u32/u64 are unbounded `N`; MemberId<Tag> is its raw id (`N`);
   `HashSet<MemberId>` (votes) is a duplicate-free list kept sorted; `HashMap<MemberId,usize>`
   (next_index, match_index) is an association list kept sorted by key (the harness prints
   both sorted, so equality is structural).  A Rust panic (assert!, slice index out of bounds,
   usize underflow in a dev build) is `None`.                                              *)
From Coq Require Export List NArith Bool.
Export ListNotations.
Open Scope N_scope.

Record entry := mkE { e_msg : N; e_term : N; e_index : N }.

Inductive role := Follower | Candidate | Leader.

Inductive rpc :=
| RV (term lli llt : N)                                   (* RequestVote *)
| RVR (term : N)                                          (* RequestVoteResponse (grant) *)
| AE (term leader pli plt : N) (entries : list entry) (lc : N)   (* AppendEntries *)
| AER (term : N) (succ : bool) (mi : N).                  (* AppendEntriesReply *)

Record rstate := mkS {
  term : N;
  voted_for : option N;
  rrole : role;
  votes : list N;
  hb_seen : bool;
  known_leader : option N;
  log : list entry;
  commit : N;
  emitted : N;
  next_index : list (N * N);
  match_index : list (N * N) }.

Definition init_state : rstate := mkS 0 None Follower [] false None [] 0 0 [] [].

Record input := mkI {
  i_me : N;
  i_others : list N;
  i_cluster_size : N;
  i_el : bool;
  i_hb : bool;
  i_reqs : list N;
  i_msgs : list (N * rpc) }.

Record output := mkO {
  o_outbound : list (N * rpc);
  o_committed : list entry;
  o_redirected : list (N * option N);
  o_view : option (N * option N) }.

(* ------------------------------------------------------------------ small helpers *)

Definition role_eqb (a b : role) : bool :=
  match a, b with
  | Follower, Follower | Candidate, Candidate | Leader, Leader => true
  | _, _ => false
  end.

Definition is_leader (s : rstate) : bool := role_eqb (rrole s) Leader.

Definition optN_eqb (a b : option N) : bool :=
  match a, b with
  | None, None => true
  | Some x, Some y => x =? y
  | _, _ => false
  end.

Definition len {A} (l : list A) : N := N.of_nat (length l).

(* HashSet<MemberId>: membership test, then sorted insertion *)
Fixpoint memN (x : N) (l : list N) : bool :=
  match l with [] => false | y :: r => (x =? y) || memN x r end.
Fixpoint ins_sorted (x : N) (l : list N) : list N :=
  match l with
  | [] => [x]
  | y :: r => if x <? y then x :: l else y :: ins_sorted x r
  end.
Definition sins (x : N) (l : list N) : list N := if memN x l then l else ins_sorted x l.

(* HashMap<MemberId, usize> *)
Fixpoint mget (k : N) (m : list (N * N)) : option N :=
  match m with
  | [] => None
  | (k', v) :: r => if k =? k' then Some v else mget k r
  end.
Fixpoint mdel (k : N) (m : list (N * N)) : list (N * N) :=
  match m with
  | [] => []
  | (k', v) :: r => if k =? k' then mdel k r else (k', v) :: mdel k r
  end.
Fixpoint mins (k v : N) (m : list (N * N)) : list (N * N) :=
  match m with
  | [] => [(k, v)]
  | (k', v') :: r => if k <? k' then (k, v) :: m else (k', v') :: mins k v r
  end.
Definition mset (k v : N) (m : list (N * N)) : list (N * N) := mins k v (mdel k m).

(* log[i-1] with Rust's checks: i = 0 underflows, i > len is out of bounds *)
Definition log_at (l : list entry) (i : N) : option entry :=
  if i =? 0 then None else nth_error l (N.to_nat (i - 1)).

Definition last_log_position (s : rstate) : N * N :=
  match last (map Some (log s)) None with
  | None => (0, 0)
  | Some e => (e_term e, e_index e)
  end.

(* tuple comparison (a1,a2) >= (b1,b2), lexicographic *)
Definition pair_ge (a b : N * N) : bool :=
  (fst b <? fst a) || ((fst a =? fst b) && (snd b <=? snd a)).

(* ------------------------------------------------------------------ record updates *)

Definition set_term_reset (s : rstate) (t : N) : rstate :=
  mkS t None Follower [] (hb_seen s) None (log s) (commit s) (emitted s) (next_index s) (match_index s).
Definition set_voted (s : rstate) (v : option N) : rstate :=
  mkS (term s) v (rrole s) (votes s) (hb_seen s) (known_leader s) (log s) (commit s) (emitted s)
      (next_index s) (match_index s).
Definition set_votes (s : rstate) (v : list N) : rstate :=
  mkS (term s) (voted_for s) (rrole s) v (hb_seen s) (known_leader s) (log s) (commit s) (emitted s)
      (next_index s) (match_index s).
Definition set_log (s : rstate) (l : list entry) : rstate :=
  mkS (term s) (voted_for s) (rrole s) (votes s) (hb_seen s) (known_leader s) l (commit s) (emitted s)
      (next_index s) (match_index s).
Definition set_commit (s : rstate) (c : N) : rstate :=
  mkS (term s) (voted_for s) (rrole s) (votes s) (hb_seen s) (known_leader s) (log s) c (emitted s)
      (next_index s) (match_index s).
Definition set_emitted (s : rstate) (c : N) : rstate :=
  mkS (term s) (voted_for s) (rrole s) (votes s) (hb_seen s) (known_leader s) (log s) (commit s) c
      (next_index s) (match_index s).
Definition set_hb (s : rstate) (b : bool) : rstate :=
  mkS (term s) (voted_for s) (rrole s) (votes s) b (known_leader s) (log s) (commit s) (emitted s)
      (next_index s) (match_index s).
Definition set_indexes (s : rstate) (nx mx : list (N * N)) : rstate :=
  mkS (term s) (voted_for s) (rrole s) (votes s) (hb_seen s) (known_leader s) (log s) (commit s) (emitted s)
      nx mx.
(* AppendEntries accepted for the current term: heartbeat_seen, candidate -> follower, learn leader *)
Definition set_follow (s : rstate) (leader : N) : rstate :=
  mkS (term s) (voted_for s)
      (match rrole s with Candidate => Follower | r => r end)
      (votes s) true (Some leader) (log s) (commit s) (emitted s) (next_index s) (match_index s).

(* ------------------------------------------------------------------ nested fns of raft_step *)

(* fn observe_term: returns whether the message's term is current afterwards *)
Definition observe_term (s : rstate) (t : N) : rstate * bool :=
  if term s <? t then (set_term_reset s t, true) else (s, t =? term s).

(* fn become_leader *)
Definition become_leader (s : rstate) (others : list N) : rstate :=
  let nx := fold_left (fun m f => mset f (len (log s) + 1) m) others [] in
  let mx := fold_left (fun m f => mset f 0 m) others [] in
  mkS (term s) (voted_for s) Leader (votes s) (hb_seen s) None (log s) (commit s) (emitted s) nx mx.

(* fn sort_key, followed by the sender as tie-break *)
Definition sort_key (m : N * rpc) : list N :=
  match snd m with
  | RV t lli llt => [0; t; llt; lli; fst m]
  | RVR t => [1; t; 0; 0; fst m]
  | AE t _ pli _ es _ => [2; t; pli; len es; fst m]
  | AER t succ mi => [3; t; mi; if succ then 1 else 0; fst m]
  end.
Fixpoint lex_lt (a b : list N) : bool :=
  match a, b with
  | x :: a', y :: b' => (x <? y) || ((x =? y) && lex_lt a' b')
  | [], _ :: _ => true
  | _, _ => false
  end.
(* `messages.sort_by(..)` is a stable sort: stable insertion sort *)
Fixpoint sort_insert (x : N * rpc) (l : list (N * rpc)) : list (N * rpc) :=
  match l with
  | [] => [x]
  | y :: r => if lex_lt (sort_key y) (sort_key x) then y :: sort_insert x r else x :: l
  end.
Definition sort_msgs (l : list (N * rpc)) : list (N * rpc) := fold_right sort_insert [] l.

(* the append loop of the AppendEntries arm; None = panic *)
Fixpoint append_entries (lg : list entry) (cmt : N) (es : list entry) : option (list entry) :=
  match es with
  | [] => Some lg
  | e :: r =>
      if e_index e <=? len lg then
        match log_at lg (e_index e) with
        | None => None                                     (* index 0: `entry.index - 1` underflows *)
        | Some mine =>
            if e_term mine =? e_term e then append_entries lg cmt r
            else if cmt <? e_index e
                 then append_entries (firstn (N.to_nat (e_index e - 1)) lg ++ [e]) cmt r
                 else None                                 (* assert!: truncating a committed entry *)
        end
      else append_entries (lg ++ [e]) cmt r
  end.

Definition aer (s : rstate) (succ : bool) (mi : N) : rpc := AER (term s) succ mi.

(* one arm of `for (sender, message) in messages` ; None = panic *)
Definition handle_msg (others : list N) (majority : N) (s : rstate) (sender : N) (m : rpc)
  : option (rstate * list (N * rpc)) :=
  match m with
  | RV t lli llt =>
      let '(s, cur) := observe_term s t in
      if negb cur then Some (s, []) else
      let up_to_date := pair_ge (llt, lli) (last_log_position s) in
      let can_vote := match voted_for s with None => true | Some v => v =? sender end in
      if up_to_date && can_vote
      then Some (set_voted s (Some sender), [(sender, RVR (term s))])
      else Some (s, [])
  | RVR t =>
      let '(s, cur) := observe_term s t in
      if negb cur then Some (s, []) else
      match rrole s with
      | Candidate =>
          let s := set_votes s (sins sender (votes s)) in
          if majority <=? len (votes s) then Some (become_leader s others, []) else Some (s, [])
      | _ => Some (s, [])
      end
  | AE t leader pli plt es lc =>
      let '(s, cur) := observe_term s t in
      if negb cur then Some (s, [(sender, aer s false 0)]) else
      if is_leader s then None                             (* assert!: two leaders share a term *)
      else
      let s := set_follow s leader in
      let log_matches :=
        (pli =? 0) ||
        ((pli <=? len (log s)) &&
         match log_at (log s) pli with Some e => e_term e =? plt | None => false end) in
      if negb log_matches then Some (s, [(sender, aer s false 0)]) else
      let new_match := pli + len es in
      match append_entries (log s) (commit s) es with
      | None => None
      | Some lg =>
          let s := set_log s lg in
          let cap := N.min lc new_match in
          let s := if commit s <? cap then set_commit s cap else s in
          Some (s, [(sender, aer s true new_match)])
      end
  | AER t succ mi =>
      let '(s, cur) := observe_term s t in
      if negb cur then Some (s, []) else
      if negb (is_leader s) then Some (s, []) else
      if succ then
        let best := match mget sender (match_index s) with Some b => b | None => 0 end in
        let mx := mset sender (if best <? mi then mi else best) (match_index s) in
        let next := match mget sender (next_index s) with Some b => b | None => 1 end in
        let nx := mset sender (if next <? mi + 1 then mi + 1 else next) (next_index s) in
        Some (set_indexes s nx mx, [])
      else
        match mget sender (next_index s) with
        | None => Some (s, [])
        | Some next =>
            if next =? 0 then None                         (* `*next - 1` underflows *)
            else Some (set_indexes s (mset sender (N.max (next - 1) 1) (next_index s)) (match_index s), [])
        end
  end.

Fixpoint handle_msgs (others : list N) (majority : N) (s : rstate) (ms : list (N * rpc))
  : option (rstate * list (N * rpc)) :=
  match ms with
  | [] => Some (s, [])
  | (sender, m) :: r =>
      match handle_msg others majority s sender m with
      | None => None
      | Some (s1, o1) =>
          match handle_msgs others majority s1 r with
          | None => None
          | Some (s2, o2) => Some (s2, o1 ++ o2)
          end
      end
  end.

(* (b) client requests *)
Fixpoint do_requests (s : rstate) (reqs : list N) : rstate * list (N * option N) :=
  match reqs with
  | [] => (s, [])
  | x :: r =>
      if is_leader s then
        do_requests (set_log s (log s ++ [mkE x (term s) (len (log s) + 1)])) r
      else
        let '(s', red) := do_requests s r in (s', (x, known_leader s) :: red)
  end.

(* (c) election timer interrupt *)
Definition do_election (me : N) (others : list N) (majority : N) (s : rstate) (fired : bool)
  : rstate * list (N * rpc) :=
  if fired && negb (is_leader s) then
    if hb_seen s then (set_hb s false, [])
    else
      let s := mkS (term s + 1) (Some me) Candidate [me] (hb_seen s) None (log s) (commit s) (emitted s)
                   (next_index s) (match_index s) in
      if majority <=? 1 then (become_leader s others, [])
      else
        let '(llt, lli) := last_log_position s in
        (s, map (fun t => (t, RV (term s) lli llt)) others)
  else (s, []).

(* (d) the leader's commit rule; the `while candidate > commit_index` loop counts down *)
Definition acks (others : list N) (mx : list (N * N)) (cand : N) : N :=
  1 + len (filter (fun m => match mget m mx with Some v => cand <=? v | None => false end) others).

Fixpoint commit_scan (others : list N) (majority : N) (s : rstate) (cand : nat) : N :=
  match cand with
  | O => commit s
  | S c' =>
      if N.of_nat cand <=? commit s then commit s else
      match nth_error (log s) c' with
      | Some e =>
          if (e_term e =? term s) && (majority <=? acks others (match_index s) (N.of_nat cand))
          then N.of_nat cand
          else commit_scan others majority s c'
      | None => commit_scan others majority s c'
      end
  end.

Definition do_commit (others : list N) (majority : N) (s : rstate) : rstate :=
  if is_leader s then set_commit s (commit_scan others majority s (length (log s))) else s.

(* (e) heartbeat timer interrupt; None = panic *)
Fixpoint heartbeat_msgs (me : N) (s : rstate) (fs : list N) : option (list (N * rpc)) :=
  match fs with
  | [] => Some []
  | f :: r =>
      let next := match mget f (next_index s) with Some x => x | None => len (log s) + 1 end in
      if next =? 0 then None else
      let pli := next - 1 in
      match (if pli =? 0 then Some 0 else option_map e_term (log_at (log s) pli)) with
      | None => None
      | Some plt =>
          if len (log s) <? pli then None else
          match heartbeat_msgs me s r with
          | None => None
          | Some o => Some ((f, AE (term s) me pli plt (skipn (N.to_nat pli) (log s)) (commit s)) :: o)
          end
      end
  end.

Definition do_heartbeat (me : N) (others : list N) (s : rstate) (fired : bool) : option (list (N * rpc)) :=
  if fired && is_leader s then heartbeat_msgs me s others else Some [].

(* (f) emit newly committed entries; None = panic (commit index beyond the log) *)
Definition do_emit (s : rstate) : option (rstate * list entry) :=
  if emitted s <? commit s then
    if commit s <=? len (log s) then
      Some (set_emitted s (commit s),
            firstn (N.to_nat (commit s - emitted s)) (skipn (N.to_nat (emitted s)) (log s)))
    else None
  else Some (s, []).

Definition view_of (me : N) (s : rstate) : N * option N :=
  (term s, if is_leader s then Some me else known_leader s).

Definition view_eqb (a b : N * option N) : bool := (fst a =? fst b) && optN_eqb (snd a) (snd b).

Definition majority_of (cluster_size : N) : N := cluster_size / 2 + 1.

(* pub fn raft_step *)
Definition raft_step (s : rstate) (i : input) : option (rstate * output) :=
  let me := i_me i in
  let others := i_others i in
  let majority := majority_of (i_cluster_size i) in
  let old_view := view_of me s in
  match handle_msgs others majority s (sort_msgs (i_msgs i)) with
  | None => None
  | Some (s1, out_a) =>
      let '(s2, redirected) := do_requests s1 (i_reqs i) in
      let '(s3, out_c) := do_election me others majority s2 (i_el i) in
      let s4 := do_commit others majority s3 in
      match do_heartbeat me others s4 (i_hb i) with
      | None => None
      | Some out_e =>
          match do_emit s4 with
          | None => None
          | Some (s5, committed) =>
              let new_view := view_of me s5 in
              Some (s5, mkO (out_a ++ out_c ++ out_e) committed redirected
                            (if view_eqb new_view old_view then None else Some new_view))
          end
      end
  end.

(* ------------------------------------------------------------------ decidable equality,
   used by the correspondence check to compare every field with the implementation *)

Definition entry_eqb (a b : entry) : bool :=
  (e_msg a =? e_msg b) && (e_term a =? e_term b) && (e_index a =? e_index b).

Fixpoint list_eqb {A} (eqb : A -> A -> bool) (a b : list A) : bool :=
  match a, b with
  | [], [] => true
  | x :: a', y :: b' => eqb x y && list_eqb eqb a' b'
  | _, _ => false
  end.

Definition pairN_eqb (a b : N * N) : bool := (fst a =? fst b) && (snd a =? snd b).

Definition rpc_eqb (a b : rpc) : bool :=
  match a, b with
  | RV t l m, RV t' l' m' => (t =? t') && (l =? l') && (m =? m')
  | RVR t, RVR t' => t =? t'
  | AE t l p q es c, AE t' l' p' q' es' c' =>
      (t =? t') && (l =? l') && (p =? p') && (q =? q') && list_eqb entry_eqb es es' && (c =? c')
  | AER t s m, AER t' s' m' => (t =? t') && Bool.eqb s s' && (m =? m')
  | _, _ => false
  end.

Definition rstate_eqb (a b : rstate) : bool :=
  (term a =? term b) && optN_eqb (voted_for a) (voted_for b) && role_eqb (rrole a) (rrole b) &&
  list_eqb N.eqb (votes a) (votes b) && Bool.eqb (hb_seen a) (hb_seen b) &&
  optN_eqb (known_leader a) (known_leader b) && list_eqb entry_eqb (log a) (log b) &&
  (commit a =? commit b) && (emitted a =? emitted b) &&
  list_eqb pairN_eqb (next_index a) (next_index b) && list_eqb pairN_eqb (match_index a) (match_index b).

Definition output_eqb (a b : output) : bool :=
  list_eqb (fun x y => (fst x =? fst y) && rpc_eqb (snd x) (snd y)) (o_outbound a) (o_outbound b) &&
  list_eqb entry_eqb (o_committed a) (o_committed b) &&
  list_eqb (fun x y => (fst x =? fst y) && optN_eqb (snd x) (snd y)) (o_redirected a) (o_redirected b) &&
  match o_view a, o_view b with
  | None, None => true
  | Some x, Some y => view_eqb x y
  | _, _ => false
  end.
