(* E10 Proto -- Raft: commit soundness, Leader Completeness and State Machine Safety in full.
   CSs : every member's commit index is covered by a pair (t, c) committed in a term t <= its own,
         and its committed prefix is a prefix of the leader log of t;
   AEc : the same for the commit index carried by every AppendEntries message.
   With the vote invariant (PRaftLC4) this gives, for every execution of the network over the
   transcribed raft_step, State Machine Safety (C40_raft_sms_stmt). *)
From Coq Require Import Lia ZifyBool ZifyN Arith FinFun List.
Import ListNotations.
From HV Require Import Proto.RaftNet Proto.PRaftLocal Proto.PRaftElection Proto.PRaftRefine Proto.PRaftWf
  Proto.PRaftLogLemmas Proto.PRaftLog Proto.PRaftLogRefine Proto.PRaftLogTerms Proto.PRaftLC Proto.PRaftLC2
  Proto.PRaftLC3 Proto.PRaftLC4.

Arguments N.add : simpl never.
Arguments N.sub : simpl never.
Arguments N.ltb : simpl never.
Arguments N.leb : simpl never.
Arguments N.eqb : simpl never.
Arguments N.min : simpl never.

Definition CSs (n : N) (y : ystate) : Prop :=
  forall a, 0 < commit (x_st (y_x y) a) ->
  exists t c, committed n y t c /\ (N.to_nat (commit (x_st (y_x y) a)) <= c)%nat /\
              t <= term (x_st (y_x y) a) /\
              pfx (N.to_nat (commit (x_st (y_x y) a))) (log (x_st (y_x y) a)) (y_gl y t).

Definition AEc (n : N) (y : ystate) : Prop :=
  forall f to t ldr pli plt es lc, In (f, to, AE t ldr pli plt es lc) (x_sent (y_x y)) -> 0 < lc ->
  exists t0 c0, committed n y t0 c0 /\ (N.to_nat lc <= c0)%nat /\ t0 <= t /\
                pfx (N.to_nat lc) (y_gl y t) (y_gl y t0).

Lemma CSs_CS : forall n y, CSs n y -> CS n y.
Proof. intros n y C a H. destruct (C a H) as (t & c & A & B & _ & D). eauto. Qed.

Lemma committed_fwd : forall n y y' t c, leff n y y' -> LInv n y -> committed n y t c -> committed n y' t c.
Proof.
  intros n y y' t c H I Cm. destruct (committed_elected _ _ _ _ I Cm) as (q & Eq).
  destruct Cm as (Hc & Hl & (e & He & Te) & Q & HQ & HH).
  pose proof (gl_fwd n y y' H I t q Eq c Hl) as G.
  assert (nth_error (y_gl y' t) (c - 1) = Some e) as He'.
  { rewrite <- (nth_error_firstn_lt _ c (y_gl y' t) (c - 1)) by lia. rewrite G. rewrite nth_error_firstn_lt by lia. auto. }
  split; auto. split; [apply nth_error_lt in He'; lia|]. split; [exists e; auto|].
  exists Q. split; auto. intros u Hu. destruct (HH u Hu) as [A|(c' & (to & A) & Lc)].
  - left. eapply el_fwd; eauto.
  - right. exists c'. split; auto. exists to. eapply sent_fwd; eauto.
Qed.

Lemma members_NoDup : forall n, NoDup (members n).
Proof.
  intro n. unfold members. apply FinFun.Injective_map_NoDup; [intros a b E; lia|apply seq_NoDup].
Qed.

Lemma others_facts : forall n m, NoDup (others_of n m) /\ ~ In m (others_of n m) /\ forall q, In q (others_of n m) -> q < n.
Proof.
  intros n m. unfold others_of. split; [apply NoDup_filter, members_NoDup|]. split.
  - intro H. apply filter_In in H. destruct H as [_ H]. rewrite N.eqb_refl in H. discriminate.
  - intros q H. apply filter_In in H. destruct H as [H _]. apply members_In; auto.
Qed.

(* the leader's commit rule establishes a committed pair *)
Lemma leader_commits : forall n y m c1,
  let x := y_x y in let s := x_st x m in
  LInv n y -> KInv y -> m < n -> rrole s = Leader -> 0 < c1 ->
  (exists e, nth_error (log s) (N.to_nat c1 - 1) = Some e /\ e_term e = term s /\
             majority_of n <= acks (others_of n m) (match_index s) c1) ->
  committed n y (term s) (N.to_nat c1).
Proof.
  intros n y m c1 x s I K Hm R Hp (e & He & Te & Hmaj).
  pose proof (l1 _ _ I m R) as HG. fold x in HG. fold s in HG.
  split; [lia|]. split; [rewrite <- HG; apply nth_error_lt in He; lia|].
  split; [exists e; rewrite <- HG; auto|].
  set (F := filter (fun f => match mget f (match_index s) with Some v => c1 <=? v | None => false end) (others_of n m)).
  destruct (others_facts n m) as (ND & NI & LT).
  exists (m :: F). split; [split; [|split]|].
  - constructor; [intro H; apply NI; apply filter_In in H; tauto|apply NoDup_filter; auto].
  - intros q [<-|H]; auto. apply filter_In in H. apply LT; tauto.
  - unfold acks in Hmaj. fold F in Hmaj. unfold len in *. cbn [length]. lia.
  - intros q [<-|H].
    + left. apply (iF _ _ (lI _ _ I)); auto.
    + right. apply filter_In in H. destruct H as [_ H].
      destruct (mget q (match_index s)) as [v|] eqn:Ev; [|discriminate].
      exists (N.to_nat v). split; [|lia]. exists m. rewrite N2Nat.id.
      apply (kM _ K m R q v Ev). lia.
Qed.


(* ------------------------------------------------------------------ members: elected implies < n *)
Record NInv (n : N) (y : ystate) : Prop := mkNInv {
  n1 : forall m, rrole (x_st (y_x y) m) = Candidate -> In m (votes (x_st (y_x y) m));
  n2 : forall t c, In (t, c) (x_elected (y_x y)) -> c < n }.

Lemma NInv_init : forall n, NInv n y_init.
Proof. intro n; constructor; cbn; intros; try discriminate; contradiction. Qed.

Theorem leff_NInv : forall n y y', leff n y y' -> LInv n y -> NInv n y -> NInv n y'.
Proof.
  intros n y y' H I [N1 N2].
  destruct H as [m s' sent' cast' el' x s He Hl Ht Hr1 Hr2 Hs Hel Hcm Hs2 Hcand Hmi Hincl
                |m s' x s He Hc Hl Ht Hlog Hcm Hvs Hz Hmaj
                |m s' sent' ext x s He Hr Hr' Ht Hlog Hext Hwf Hs Hcm Hmx Hse
                |m s' o x s He Hr Hr' Ht Hlog Ho Hc1 Hmx Hrule Hlc
                |m s' o f0 ldr pli plt es lc cmt x s He Hin Hr Hr' Ht Hm0 Ha0 Ho Hcmt Hcm Hoo
                |m s' from lli llt x s He Hlog Ht Hr Hvs Hcm Hmx Hin Hpg
                |m s' u0 x s He Hlog Ht Hr Hr' Hcm Hvs Hin
                |m s' x s He Hlog Ht Hr Hr' Hcm Hvs]; constructor; cbn [y_x x_st x_elected]; fold x.
  all: try (intros a Ra; destruct (N.eq_dec a m) as [->|Hne];
            [rewrite updf_same in *|rewrite updf_other in * by auto; apply N1; auto]).
  all: try (subst el'; exact N2).
  all: try exact N2.
  - destruct (Hcand Ra) as (A & B & D). rewrite D. apply N1; auto.
  - congruence.
  - intros t c Hi. apply in_app_or in Hi. destruct Hi as [Hi|[Hi|[]]]; [eapply N2; eauto|]. inversion Hi; subst t c.
    assert (rrole (x_st (y_x y) m) <> Follower) as NF by (fold x; fold s; congruence).
    destruct (iD _ _ (lI _ _ I) m NF) as [_ DV]. fold x in DV. fold s in DV.
    destruct (iA _ _ (lI _ _ I) _ _ _ (DV m (N1 m Hc))) as (A & _). exact A.
  - congruence.
  - congruence.
  - congruence.
  - rewrite Hvs. apply N1. fold x; fold s. congruence.
  - rewrite Hvs. apply sins_In. right. apply N1; auto.
  - rewrite Hvs. left; auto.
Qed.

(* ------------------------------------------------------------------ commit soundness *)
(* an old commit fact survives a step that changes neither the member's commit index nor (the
   committed part of) its log *)
Lemma CS_keep : forall n y y' a, leff n y y' -> LInv n y -> CSs n y ->
  commit (x_st (y_x y') a) = commit (x_st (y_x y) a) ->
  pfx (N.to_nat (commit (x_st (y_x y) a))) (log (x_st (y_x y') a)) (log (x_st (y_x y) a)) ->
  0 < commit (x_st (y_x y') a) ->
  exists t c, committed n y' t c /\ (N.to_nat (commit (x_st (y_x y') a)) <= c)%nat /\
              t <= term (x_st (y_x y') a) /\
              pfx (N.to_nat (commit (x_st (y_x y') a))) (log (x_st (y_x y') a)) (y_gl y' t).
Proof.
  intros n y y' a H I C Ec Pl Hp. rewrite Ec in *. destruct (C a Hp) as (t & c & Cm & Lc & Lt & P).
  exists t, c. split; [eapply committed_fwd; eauto|]. split; auto. split.
  - pose proof (term_fwd n y y' H a). lia.
  - destruct (committed_elected _ _ _ _ I Cm) as (q & Eq). destruct Cm as (_ & Hl & _).
    eapply pfx_trans; [exact Pl|]. eapply pfx_trans; [exact P|].
    unfold pfx. rewrite (gl_fwd n y y' H I t q Eq); auto. lia.
Qed.

Theorem leff_CSs : forall n y y', leff n y y' -> LInv n y -> KInv y -> NInv n y -> VInvS n y -> AEc n y ->
  CSs n y -> CSs n y'.
Proof.
  intros n y y' H I K NI VS AE C a Hp.
  pose proof (CS_keep n y y' a H I C) as KEEP.
  pose proof H as HL.
  destruct H as [m s' sent' cast' el' x s He Hl Ht Hr1 Hr2 Hs Hel Hcm Hs2 Hcand Hmi Hincl
                |m s' x s He Hc Hl Ht Hlog Hcm Hvs Hz Hmaj
                |m s' sent' ext x s He Hr Hr' Ht Hlog Hext Hwf Hs Hcm Hmx Hse
                |m s' o x s He Hr Hr' Ht Hlog Ho Hc1 Hmx Hrule Hlc
                |m s' o f0 ldr pli plt es lc cmt x s He Hin Hr Hr' Ht Hm0 Ha0 Ho Hcmt Hcm Hoo
                |m s' from lli llt x s He Hlog Ht Hr Hvs Hcm Hmx Hin Hpg
                |m s' u0 x s He Hlog Ht Hr Hr' Hcm Hvs Hin
                |m s' x s He Hlog Ht Hr Hr' Hcm Hvs];
    (destruct (N.eq_dec a m) as [->|Hnm];
     [|apply KEEP; auto; cbn [y_x x_st]; rewrite updf_other by auto; [reflexivity|unfold pfx; reflexivity]]).
  - (* LSame *) apply KEEP; auto; cbn [y_x x_st]; rewrite updf_same; auto. fold x; fold s. rewrite Hl. unfold pfx; auto.
  - (* LWin *) apply KEEP; auto; cbn [y_x x_st]; rewrite updf_same; auto. fold x; fold s. rewrite Hlog. unfold pfx; auto.
  - (* LAppend *) apply KEEP; auto; cbn [y_x x_st]; rewrite updf_same; auto. fold x; fold s. rewrite Hlog.
    assert (0 < commit s) as Hp0 by (cbn [y_x x_st] in Hp; rewrite updf_same in Hp; lia).
    destruct (C m Hp0) as (t & c & Cm & Lc & _ & P). destruct Cm as (_ & Hlen & _).
    fold x in P, Lc. fold s in P, Lc. apply pfx_app_l; [|unfold pfx; auto]. eapply pfx_len; [|exact P]. lia.
  - (* LSend: the leader's commit rule *)
    destruct (N.eq_dec (commit s') (commit s)) as [E|Ne].
    + apply KEEP; auto; cbn [y_x x_st]; rewrite updf_same; auto. fold x; fold s. rewrite Hlog. unfold pfx; auto.
    + cbn [y_x x_st] in Hp |- *. rewrite updf_same in *.
      destruct (Hrule Ne) as (e & A & B & D).
      assert (m < n) as Hm.
      { apply (n2 _ _ NI (term s) m). apply (iF _ _ (lI _ _ I)); auto. }
      exists (term s), (N.to_nat (commit s')). split; [|split; [lia|split; [lia|]]].
      * eapply committed_fwd; [exact HL|exact I|].
        apply (leader_commits n y m (commit s') I K Hm Hr); [lia|]. exists e. auto.
      * cbn [y_gl]. rewrite Hlog. pose proof (l1 _ _ I m Hr) as HG. fold x in HG. fold s in HG. rewrite HG. unfold pfx; auto.
  - (* LRecv *)
    destruct (recv_agree n y m f0 ldr pli plt es lc cmt (log s') I Hin Hm0 Ha0) as (RA & RB & RC & _).
    fold x in RA, RB, RC. fold s in RA, RB, RC.
    destruct (l3 _ _ I _ _ _ _ _ _ _ _ Hin) as [Elf _]. fold x in Elf. fold s in Elf.
    destruct (N.ltb_spec (commit s) (N.min lc (pli + len es))) as [Lt|Ge].
    + (* the commit index moves to min(leader_commit, last new index) *)
      cbn [y_x x_st y_gl] in Hp |- *. rewrite updf_same in *.
      assert (0 < lc) as Hlc by lia.
      destruct (AE _ _ _ _ _ _ _ _ Hin Hlc) as (t0 & c0 & Cm & Lc0 & Lt0 & P0).
      exists t0, c0. split; [eapply committed_fwd; eauto|]. split; [lia|]. split; [lia|].
      rewrite Hcm. eapply pfx_trans.
      * eapply pfx_le; [|exact RA]. unfold len. lia.
      * eapply pfx_le; [|exact P0]. lia.
    + (* the commit index stays: the accepted entries agree with the committed prefix *)
      apply KEEP; auto; cbn [y_x x_st]; rewrite updf_same; auto. fold x; fold s.
      assert (0 < commit s) as Hp0 by (cbn [y_x x_st] in Hp; rewrite updf_same in Hp; lia).
      destruct (C m Hp0) as (t & c & Cm & Lc & Lt & P). fold x in P, Lc, Lt. fold s in P, Lc, Lt.
      assert (pfx (N.to_nat (commit s)) (y_gl y (term s)) (y_gl y t)) as PG.
      { destruct (N.eq_dec t (term s)) as [->|Hne]; [unfold pfx; auto|].
        eapply pfx_le; [exact Lc|]. apply (LC_from_V n y (VInvS_VInv _ _ VS) t c Cm (term s) f0); [lia|exact Elf]. }
      assert (pfx (N.to_nat (commit s)) (log s) (y_gl y (term s))) as PL
        by (eapply pfx_trans; [exact P|apply pfx_sym; exact PG]).
      assert (N.to_nat (commit s) <= length (log s))%nat as LL.
      { destruct Cm as (_ & Hlen & _). eapply pfx_len; [|exact P]. lia. }
      eapply pfx_trans; [apply RC; auto|apply pfx_sym; exact PL].
  - (* LGrant *) apply KEEP; auto; cbn [y_x x_st]; rewrite updf_same; auto. fold x; fold s. rewrite Hlog. unfold pfx; auto.
  - (* LVote *) apply KEEP; auto; cbn [y_x x_st]; rewrite updf_same; auto. fold x; fold s. rewrite Hlog. unfold pfx; auto.
  - (* LCand *) apply KEEP; auto; cbn [y_x x_st]; rewrite updf_same; auto. fold x; fold s. rewrite Hlog. unfold pfx; auto.
Qed.

(* ------------------------------------------------------------------ commit indices in messages *)
Lemma AEc_old : forall n y y', leff n y y' -> LInv n y -> AEc n y ->
  forall f to t ldr pli plt es lc, In (f, to, AE t ldr pli plt es lc) (x_sent (y_x y)) -> 0 < lc ->
  exists t0 c0, committed n y' t0 c0 /\ (N.to_nat lc <= c0)%nat /\ t0 <= t /\
                pfx (N.to_nat lc) (y_gl y' t) (y_gl y' t0).
Proof.
  intros n y y' H I AE f to t ldr pli plt es lc Hin Hlc.
  destruct (AE _ _ _ _ _ _ _ _ Hin Hlc) as (t0 & c0 & Cm & Lc0 & Lt0 & P0).
  exists t0, c0. split; [eapply committed_fwd; eauto|]. split; auto. split; auto.
  destruct (l3 _ _ I _ _ _ _ _ _ _ _ Hin) as [Elf _].
  eapply pfx_gl_fwd; eauto.
  - eapply committed_elected; eauto.
  - destruct Cm as (_ & Hlen & _). lia.
Qed.

Theorem leff_AEc : forall n y y', leff n y y' -> LInv n y -> AEc n y -> CSs n y' -> AEc n y'.
Proof.
  intros n y y' H I AE C' f1 to1 t1 ldr1 pli1 plt1 es1 lc1 Hin1 Hpos.
  pose proof (AEc_old n y y' H I AE f1 to1 t1 ldr1 pli1 plt1 es1 lc1) as OLD.
  destruct H as [m s' sent' cast' el' x s He Hl Ht Hr1 Hr2 Hs Hel Hcm Hs2 Hcand Hmi Hincl
                |m s' x s He Hc Hl Ht Hlog Hcm Hvs Hz Hmaj
                |m s' sent' ext x s He Hr Hr' Ht Hlog Hext Hwf Hs Hcm Hmx Hse
                |m s' o x s He Hr Hr' Ht Hlog Ho Hc1 Hmx Hrule Hlc
                |m s' o f0 ldr pli plt es lc cmt x s He Hin Hr Hr' Ht Hm0 Ha0 Ho Hcmt Hcm Hoo
                |m s' from lli llt x s He Hlog Ht Hr Hvs Hcm Hmx Hin Hpg
                |m s' u0 x s He Hlog Ht Hr Hr' Hcm Hvs Hin
                |m s' x s He Hlog Ht Hr Hr' Hcm Hvs]; cbn [y_x x_sent] in Hin1.
  - destruct (Hs _ _ _ Hin1) as [A|[]]. auto.
  - auto.
  - destruct (Hs _ _ _ Hin1) as [A|[]]. auto.
  - (* LSend *)
    apply in_app_or in Hin1. destruct Hin1 as [A|A]; [auto|]. apply tag_in in A. destruct A as [-> A].
    pose proof (Hlc _ _ _ _ _ _ _ A) as E. subst lc1.
    destruct (Ho _ _ A) as (pli' & plt' & lc' & E & _). inversion E; subst.
    assert (0 < commit (x_st (y_x (mkY (mkX (updf (x_st x) m s') (x_sent x ++ tag_out m o) (x_cast x) (x_elected x)) (y_gl y))) m)) as Hp
      by (cbn [y_x x_st]; rewrite updf_same; exact Hpos).
    destruct (C' m Hp) as (t0 & c0 & Cm & Lc0 & Lt0 & P0). cbn [y_x x_st y_gl] in Lc0, Lt0, P0 |- *. rewrite updf_same in *.
    exists t0, c0. split; auto. split; auto. split; [lia|].
    pose proof (l1 _ _ I m Hr) as HG. fold x in HG. fold s in HG. rewrite <- HG, <- Hlog. exact P0.
  - (* LRecv *)
    apply in_app_or in Hin1. destruct Hin1 as [A|A]; [auto|]. apply tag_in in A. destruct A as [_ A].
    destruct (Ho _ _ A).
  - apply in_app_or in Hin1. destruct Hin1 as [A|A]; [auto|]. apply tag_in in A. destruct A as [_ [A|[]]]. discriminate.
  - auto.
  - auto.
Qed.

(* ------------------------------------------------------------------ all invariants together *)
Record Big (n : N) (y : ystate) : Prop := mkBig {
  bL : LInv n y; bL2 : LInv2 y; bK : KInv y; bZ : ZInv y; bN : NInv n y;
  b4 : V4 y; b3 : V3 y; bS : VInvS n y; bC : CSs n y; bA : AEc n y }.

Lemma Big_init : forall n, Big n y_init.
Proof.
  intro n. constructor.
  - apply LInv_init.
  - apply LInv2_init.
  - apply KInv_init.
  - apply ZInv_init.
  - apply NInv_init.
  - intros u c2 t2 H. destruct H.
  - intros c2 H. cbn in H. discriminate.
  - intros t' c' H. destruct H.
  - intros a H. cbn in H. lia.
  - intros f to t ldr pli plt es lc H. destruct H.
Qed.

Theorem leff_Big : forall n y y', leff n y y' -> Big n y -> Big n y'.
Proof.
  intros n y y' H [L L2 K Z NI F4 F3 S C A].
  assert (CSs n y') as C' by (eapply leff_CSs; eauto).
  constructor; auto.
  - eapply leff_LInv; eauto.
  - eapply leff_LInv2; eauto.
  - eapply leff_KInv; eauto.
  - eapply leff_ZInv; eauto.
  - eapply leff_NInv; eauto.
  - eapply leff_V4; eauto.
  - eapply leff_V3; eauto.
  - eapply leff_VInvS; eauto.
  - eapply leff_AEc; eauto.
Qed.

Theorem leffs_Big : forall n y, leffs n y_init y -> Big n y.
Proof.
  intros n y H. remember y_init as y0. induction H; subst; [apply Big_init|].
  eapply leff_Big; eauto.
Qed.

(* Leader Completeness, on ghost leader logs: whatever was committed in term t (a majority holds
   the leader log of t up to c, and entry c is of term t) is in the log of every later leader. *)
Theorem leader_completeness : forall n y, leffs n y_init y ->
  forall t c, committed n y t c -> forall t' c', t < t' -> In (t', c') (x_elected (y_x y)) ->
  pfx c (y_gl y t') (y_gl y t).
Proof.
  intros n y H. apply LC_from_V. apply VInvS_VInv. apply (bS _ _ (leffs_Big n y H)).
Qed.

(* every commit index is sound: covered by a committed pair whose leader log it is a prefix of *)
Theorem commit_sound : forall n y, leffs n y_init y -> CS n y.
Proof. intros n y H. apply CSs_CS. apply (bC _ _ (leffs_Big n y H)). Qed.

(* State Machine Safety for the Raft model, all executions, all cluster sizes *)
Theorem raft_sms : forall n, C40_raft_sms_stmt n.
Proof.
  intros n g1 g2 R1 S12 a b Ha Hb k e1 e2 H1 H2.
  assert (reachable n g2) as R2.
  { clear - R1 S12. induction S12; auto. eapply gs_step; [apply IHS12; auto|eauto]. }
  destruct (gsteps_GW _ _ _ R1 GW_init) as (G1 & _).
  destruct (gsteps_GW _ _ _ S12 G1) as (_ & St). destruct (St a) as (Cm & Sb).
  assert (nth_error (committed_prefix (g_st g2 a)) k = Some e1) as H1'.
  { unfold committed_prefix in *. apply nth_error_firstn_some in H1. destruct H1 as [H1 K1].
    rewrite nth_error_firstn_lt by lia. rewrite (Sb k) by lia. auto. }
  destruct (gsteps_lsim n g_init g2 y_init R2) as (y & E & S); [split; auto|].
  pose proof (leffs_Big n y E) as B. destruct S as [S _].
  unfold committed_prefix in *. rewrite (S a) in H1'. rewrite (S b) in H2.
  eapply (sms_state_from n y (bL _ _ B) (VInvS_VInv _ _ (bS _ _ B)) (CSs_CS _ _ (bC _ _ B)) a b k); eauto.
Qed.

Print Assumptions raft_sms.
