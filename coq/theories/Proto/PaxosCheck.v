(* E10 Proto -- component models of hydro_test's Paxos proposer and the verdict functions of the
   correspondence check (vm_compute): `recommit_after_leader_election` (the new leader's choice
   of p2a values from the p1b logs of a quorum) and `index_payloads` (slot bookkeeping).
   bit 0 = the real component differs from the model; bit 1 = the component's output is not an
   instance of the abstract rule (PaxosModel.pick_ok / distinct slots).  Definitions only. *)
From Coq Require Export List NArith Bool.
Export ListNotations.
Open Scope N_scope.

Definition ballot := (N * N)%type.                      (* (num, proposer id), ordered lexicographically *)
Definition b_lt (a b : ballot) : bool := (fst a <? fst b) || ((fst a =? fst b) && (snd a <? snd b)).
Definition b_eqb (a b : ballot) : bool := (fst a =? fst b) && (snd a =? snd b).

Definition ov_eqb (a b : option N) : bool :=
  match a, b with Some x, Some y => x =? y | None, None => true | _, _ => false end.

(* one p1b log: (checkpoint, [(slot, ballot, value)]) ; value None = a hole / no-op *)
Definition p1blog := (option N * list (N * ballot * option N))%type.

(* the keyed fold of recommit_after_leader_election, in stream order:
   (count, entry with the largest ballot so far) *)
Definition rc_step (cur : option (N * (ballot * option N))) (e : ballot * option N)
  : option (N * (ballot * option N)) :=
  match cur with
  | None => Some (1, e)
  | Some (cnt, (cb, cv)) =>
      let same := ov_eqb (snd e) cv in
      let higher := b_lt cb (fst e) in
      let cnt1 := if same then cnt + 1 else cnt in
      if higher then (if same then Some (cnt1, (fst e, cv)) else Some (1, (fst e, snd e)))
      else Some (cnt1, (cb, cv))
  end.

Definition entries_of (logs : list p1blog) (s : N) : list (ballot * option N) :=
  flat_map (fun l => flat_map (fun e => if fst (fst e) =? s then [(snd (fst e), snd e)] else []) (snd l)) logs.

Fixpoint memN (x : N) (l : list N) : bool := match l with [] => false | y :: r => (x =? y) || memN x r end.
Fixpoint dedup (l : list N) : list N :=
  match l with [] => [] | x :: r => if memN x (dedup r) then dedup r else x :: dedup r end.
Definition slots_of (logs : list p1blog) : list N :=
  dedup (flat_map (fun l => map (fun e => fst (fst e)) (snd l)) logs).

Definition max_list (l : list N) : option N :=
  fold_left (fun acc x => match acc with None => Some x | Some m => Some (N.max m x) end) l None.

Definition checkpoint_of (logs : list p1blog) : option N :=
  max_list (flat_map (fun l => match fst l with Some c => [c] | None => [] end) logs).

Definition px_recommit (f : N) (bal : ballot) (logs : list p1blog) : list ((N * ballot) * option N) :=
  let cp := checkpoint_of logs in
  let slots := slots_of logs in
  let tried :=
    flat_map (fun s =>
      match fold_left rc_step (entries_of logs s) None with
      | Some (cnt, (_, v)) =>
          if f <? cnt then [] else
          match cp with Some c => if s <=? c then [] else [((s, bal), v)] | None => [((s, bal), v)] end
      | None => []
      end) slots in
  let holes :=
    match max_list slots with
    | None => []
    | Some mx =>
        let lo := match cp with Some c => c + 1 | None => 0 end in
        flat_map (fun k => let s := lo + N.of_nat k in if memN s slots then [] else [((s, bal), @None N)])
                 (seq 0 (N.to_nat (mx - lo)))
    end in
  tried ++ holes.

(* the abstract rule (PaxosModel.pick_ok), executable: free if no log mentions the slot, else the
   value of an entry whose ballot is maximal *)
Definition pick_ok_b (logs : list p1blog) (s : N) (v : option N) : bool :=
  let es := entries_of logs s in
  match es with
  | [] => true
  | _ => existsb (fun e => ov_eqb (snd e) v && forallb (fun e' => negb (b_lt (fst e) (fst e'))) es) es
  end.

Definition bor (a b : N) : N := N.lor a b.
Definition bit (ok : bool) (v : N) : N := if ok then 0 else v.

Definition out_eqb (a b : (N * ballot) * option N) : bool :=
  (fst (fst a) =? fst (fst b)) && b_eqb (snd (fst a)) (snd (fst b)) && ov_eqb (snd a) (snd b).
Definition cnt_out (x : (N * ballot) * option N) l : nat := length (filter (out_eqb x) l).
Definition mset_out (a b : list ((N * ballot) * option N)) : bool :=
  Nat.eqb (length a) (length b) && forallb (fun x => Nat.eqb (cnt_out x a) (cnt_out x b)) a.

Definition optN_eqb (a b : option N) : bool := ov_eqb a b.

Definition chk_recommit (f : N) (bal : ballot) (logs : list p1blog)
           (out : list ((N * ballot) * option N)) (mx : option N) : N :=
  bor (bit (mset_out out (px_recommit f bal logs) && optN_eqb mx (max_list (slots_of logs))) 1)
      (bit (forallb (fun o => b_eqb (snd (fst o)) bal && pick_ok_b logs (fst (fst o)) (snd o)) out) 2).

(* index_payloads: per tick (max slot learnt from p1bs, payloads) -> (slot, payload) *)
Fixpoint px_index (next : N) (ticks : list (option N * list N)) : list (list (N * N)) :=
  match ticks with
  | [] => []
  | (mx, ps) :: t =>
      let base := match mx with Some m => m + 1 | None => next end in
      combine (map (fun i => base + N.of_nat i) (seq 0 (length ps))) ps
      :: px_index (base + N.of_nat (length ps)) t
  end.

Definition pair_eqb (a b : N * N) : bool := (fst a =? fst b) && (snd a =? snd b).
Fixpoint lists_eqb (a b : list (N * N)) : bool :=
  match a, b with
  | [], [] => true
  | x :: a', y :: b' => pair_eqb x y && lists_eqb a' b'
  | _, _ => false
  end.
Fixpoint nodupb (l : list N) : bool := match l with [] => true | x :: r => negb (memN x r) && nodupb r end.

(* usage precondition for distinct slots: a learnt max slot is never below what was assigned *)
Fixpoint idx_pre (hi : option N) (ticks : list (option N * list N)) (outs : list (list (N * N))) : bool :=
  match ticks, outs with
  | (mx, _) :: t, o :: os =>
      (match mx, hi with Some m, Some h => h <=? m | _, _ => true end) &&
      idx_pre (match max_list (map fst o), hi with
               | Some a, Some h => Some (N.max a h) | Some a, None => Some a | None, h => h end) t os
  | _, _ => true
  end.

Definition chk_index (ticks : list (option N * list N)) (outs : list (list (N * N))) : N :=
  bor (bit (Nat.eqb (length outs) (length ticks) &&
            forallb (fun p => lists_eqb (fst p) (snd p)) (combine outs (px_index 0 ticks))) 1)
      (if idx_pre None ticks outs then bit (nodupb (map fst (concat outs))) 2 else 0).

Definition bad (vs : list N) : list (N * N) :=
  filter (fun p => negb (snd p =? 0)) (combine (map N.of_nat (seq 0 (length vs))) vs).
