(* E10 Proto -- component models of hydro_test's Paxos proposer and the verdict functions of the
   correspondence check (vm_compute): `recommit_after_leader_election` (the new leader's choice
   of p2a values from the p1b logs of a quorum) and `index_payloads` (slot bookkeeping).
   bit 0 = the real component differs from the model; bit 1 = the component's output is not an
   instance of the abstract rule (PaxosModel.pick_ok / distinct slots).  Definitions only. *)
From Coq Require Export List NArith Bool.
From HV Require Proto.QuorumModel.
Export ListNotations.
Open Scope N_scope.

Definition ballot := (N * N)%type.                      (* (num, proposer id), ordered lexicographically *)
Definition b_lt (a b : ballot) : bool := (fst a <? fst b) || ((fst a =? fst b) && (snd a <? snd b)).
Definition b_eqb (a b : ballot) : bool := (fst a =? fst b) && (snd a =? snd b).

Definition ov_eqb (a b : option N) : bool :=
  match a, b with Some x, Some y => x =? y | None, None => true | _, _ => false end.

(* one p1b log: (checkpoint, [(slot, ballot, value)]) ; value None = a hole / no-op *)
Definition p1blog := (option N * list (N * ballot * option N))%type.

(* the keyed fold of recommit_after_leader_election, in stream order:
   (count, entry with the largest ballot so far) *)
Definition rc_step (cur : option (N * (ballot * option N))) (e : ballot * option N)
  : option (N * (ballot * option N)) :=
  match cur with
  | None => Some (1, e)
  | Some (cnt, (cb, cv)) =>
      let same := ov_eqb (snd e) cv in
      let higher := b_lt cb (fst e) in
      let cnt1 := if same then cnt + 1 else cnt in
      if higher then (if same then Some (cnt1, (fst e, cv)) else Some (1, (fst e, snd e)))
      else Some (cnt1, (cb, cv))
  end.

Definition entries_of (logs : list p1blog) (s : N) : list (ballot * option N) :=
  flat_map (fun l => flat_map (fun e => if fst (fst e) =? s then [(snd (fst e), snd e)] else []) (snd l)) logs.

Fixpoint memN (x : N) (l : list N) : bool := match l with [] => false | y :: r => (x =? y) || memN x r end.
Fixpoint dedup (l : list N) : list N :=
  match l with [] => [] | x :: r => if memN x (dedup r) then dedup r else x :: dedup r end.
Definition slots_of (logs : list p1blog) : list N :=
  dedup (flat_map (fun l => map (fun e => fst (fst e)) (snd l)) logs).

Definition max_list (l : list N) : option N :=
  fold_left (fun acc x => match acc with None => Some x | Some m => Some (N.max m x) end) l None.

Definition checkpoint_of (logs : list p1blog) : option N :=
  max_list (flat_map (fun l => match fst l with Some c => [c] | None => [] end) logs).

Definition px_recommit (f : N) (bal : ballot) (logs : list p1blog) : list ((N * ballot) * option N) :=
  let cp := checkpoint_of logs in
  let slots := slots_of logs in
  let tried :=
    flat_map (fun s =>
      match fold_left rc_step (entries_of logs s) None with
      | Some (cnt, (_, v)) =>
          if f <? cnt then [] else
          match cp with Some c => if s <=? c then [] else [((s, bal), v)] | None => [((s, bal), v)] end
      | None => []
      end) slots in
  let holes :=
    match max_list slots with
    | None => []
    | Some mx =>
        let lo := match cp with Some c => c + 1 | None => 0 end in
        flat_map (fun k => let s := lo + N.of_nat k in if memN s slots then [] else [((s, bal), @None N)])
                 (seq 0 (N.to_nat (mx - lo)))
    end in
  tried ++ holes.

(* the abstract rule (PaxosModel.pick_ok), executable: free if no log mentions the slot, else the
   value of an entry whose ballot is maximal *)
Definition pick_ok_b (logs : list p1blog) (s : N) (v : option N) : bool :=
  let es := entries_of logs s in
  match es with
  | [] => true
  | _ => existsb (fun e => ov_eqb (snd e) v && forallb (fun e' => negb (b_lt (fst e) (fst e'))) es) es
  end.

Definition bor (a b : N) : N := N.lor a b.
Definition bit (ok : bool) (v : N) : N := if ok then 0 else v.

Definition out_eqb (a b : (N * ballot) * option N) : bool :=
  (fst (fst a) =? fst (fst b)) && b_eqb (snd (fst a)) (snd (fst b)) && ov_eqb (snd a) (snd b).
Definition cnt_out (x : (N * ballot) * option N) l : nat := length (filter (out_eqb x) l).
Definition mset_out (a b : list ((N * ballot) * option N)) : bool :=
  Nat.eqb (length a) (length b) && forallb (fun x => Nat.eqb (cnt_out x a) (cnt_out x b)) a.

Definition optN_eqb (a b : option N) : bool := ov_eqb a b.

Definition chk_recommit (f : N) (bal : ballot) (logs : list p1blog)
           (out : list ((N * ballot) * option N)) (mx : option N) : N :=
  bor (bit (mset_out out (px_recommit f bal logs) && optN_eqb mx (max_list (slots_of logs))) 1)
      (bit (forallb (fun o => b_eqb (snd (fst o)) bal && pick_ok_b logs (fst (fst o)) (snd o)) out) 2).

(* index_payloads: per tick (max slot learnt from p1bs, payloads) -> (slot, payload) *)
Fixpoint px_index (next : N) (ticks : list (option N * list N)) : list (list (N * N)) :=
  match ticks with
  | [] => []
  | (mx, ps) :: t =>
      let base := match mx with Some m => m + 1 | None => next end in
      combine (map (fun i => base + N.of_nat i) (seq 0 (length ps))) ps
      :: px_index (base + N.of_nat (length ps)) t
  end.

Definition pair_eqb (a b : N * N) : bool := (fst a =? fst b) && (snd a =? snd b).
Fixpoint lists_eqb (a b : list (N * N)) : bool :=
  match a, b with
  | [], [] => true
  | x :: a', y :: b' => pair_eqb x y && lists_eqb a' b'
  | _, _ => false
  end.
Fixpoint nodupb (l : list N) : bool := match l with [] => true | x :: r => negb (memN x r) && nodupb r end.

(* usage precondition for distinct slots: a learnt max slot is never below what was assigned *)
Fixpoint idx_pre (hi : option N) (ticks : list (option N * list N)) (outs : list (list (N * N))) : bool :=
  match ticks, outs with
  | (mx, _) :: t, o :: os =>
      (match mx, hi with Some m, Some h => h <=? m | _, _ => true end) &&
      idx_pre (match max_list (map fst o), hi with
               | Some a, Some h => Some (N.max a h) | Some a, None => Some a | None, h => h end) t os
  | _, _ => true
  end.

Definition chk_index (ticks : list (option N * list N)) (outs : list (list (N * N))) : N :=
  bor (bit (Nat.eqb (length outs) (length ticks) &&
            forallb (fun p => lists_eqb (fst p) (snd p)) (combine outs (px_index 0 ticks))) 1)
      (if idx_pre None ticks outs then bit (nodupb (map fst (concat outs))) 2 else 0).

(* ------------------------------------------------------------------------------------------
   The ACCEPTOR node of the whole `paxos_core` program (acceptor_p1 + acceptor_p2 as wired by
   paxos_core), one step per tick:
     max ballot  := max over all p1a ballots ever received (this tick's batch included);
     log         := per slot, the p2a with the highest ballot among those received while
                    Some(ballot) >= max ballot (first arrival wins among equal ballots);
     p1b reply   := Ok(log AFTER this tick's p2as) if Some(ballot) = max ballot, else Err(max ballot);
     p2b reply   := Ok if Some(ballot) = max ballot, else Err(max ballot)
   (note: a p2a above the promised ballot is stored but answered Err and does not raise the
   promise).  Checkpoints (log truncation) are not modelled: no checkpoint is ever fed. *)
Definition ob_lt (a b : option ballot) : bool :=
  match a, b with None, Some _ => true | Some x, Some y => b_lt x y | _, None => false end.
Definition ob_eqb (a b : option ballot) : bool :=
  match a, b with None, None => true | Some x, Some y => b_eqb x y | _, _ => false end.
Definition ob_max (a b : option ballot) : option ballot := if ob_lt a b then b else a.

Definition aentry := (N * (ballot * option N))%type.          (* slot, (ballot, value) *)
Record acc := mkAcc { a_max : option ballot; a_log : list aentry }.
Definition acc_init : acc := mkAcc None [].
Definition p2amsg := (N * ballot * N * option N)%type.          (* sender, ballot, slot, value *)

Fixpoint place (lg : list aentry) (s : N) (e : ballot * option N) : list aentry :=
  match lg with
  | [] => [(s, e)]
  | (s', e') :: r =>
      if s <? s' then (s, e) :: lg
      else if s =? s' then (if b_lt (fst e') (fst e) then (s, e) :: r else lg)
      else (s', e') :: place r s e
  end.

Definition p1brep := (N * ballot * (list aentry + option ballot))%type.   (* to, ballot, Ok log | Err max *)
Definition p2brep := (N * N * ballot * option (option ballot))%type.      (* to, slot, ballot, None = Ok | Some max = Err *)

Definition acc_tick (st : acc) (p1as : list ballot) (p2as : list p2amsg) : acc * list p1brep * list p2brep :=
  let mx := fold_left (fun m b => ob_max m (Some b)) p1as (a_max st) in
  let lg := fold_left (fun lg (m : p2amsg) =>
                         let '(_, b, s, v) := m in if ob_lt (Some b) mx then lg else place lg s (b, v))
                      p2as (a_log st) in
  (mkAcc mx lg,
   map (fun b => (snd b, b, if ob_eqb (Some b) mx then inl lg else inr mx)) p1as,
   map (fun (m : p2amsg) => let '(sd, b, s, _) := m in
                            (sd, s, b, if ob_eqb (Some b) mx then None else Some mx)) p2as).

Fixpoint acc_run (st : acc) (ticks : list (list ballot * list p2amsg)) : list (list p1brep * list p2brep) :=
  match ticks with
  | [] => []
  | (p1, p2) :: t => let '(st', o1, o2) := acc_tick st p1 p2 in (o1, o2) :: acc_run st' t
  end.

Definition ae_eqb (a b : aentry) : bool :=
  (fst a =? fst b) && b_eqb (fst (snd a)) (fst (snd b)) && ov_eqb (snd (snd a)) (snd (snd b)).
Fixpoint list_eqb {A} (eqb : A -> A -> bool) (a b : list A) : bool :=
  match a, b with [] , [] => true | x :: a', y :: b' => eqb x y && list_eqb eqb a' b' | _, _ => false end.
Definition p1b_eqb (a b : p1brep) : bool :=
  (fst (fst a) =? fst (fst b)) && b_eqb (snd (fst a)) (snd (fst b)) &&
  match snd a, snd b with
  | inl l1, inl l2 => list_eqb ae_eqb l1 l2
  | inr m1, inr m2 => ob_eqb m1 m2
  | _, _ => false
  end.
Definition p2b_eqb (a b : p2brep) : bool :=
  let '(t1, s1, b1, r1) := a in let '(t2, s2, b2, r2) := b in
  (t1 =? t2) && (s1 =? s2) && b_eqb b1 b2 &&
  match r1, r2 with None, None => true | Some m1, Some m2 => ob_eqb m1 m2 | _, _ => false end.
Definition mset_eqb {A} (eqb : A -> A -> bool) (a b : list A) : bool :=
  Nat.eqb (length a) (length b) &&
  forallb (fun x => Nat.eqb (length (filter (eqb x) a)) (length (filter (eqb x) b))) a.

(* the refinement obligations, evaluated on the IMPLEMENTATION's replies (executable form of
   PaxosModel.report_ok and of the guard of P2b):
   - an Ok p2b (a vote) is never for a ballot below an earlier Ok'd ballot;
   - every Ok p1b log consists of p2as really received, and covers every earlier vote: for a vote
     (slot, ballot c) it has an entry for that slot with a ballot >= c. *)
Fixpoint acc_obl (seen : list p2amsg) (voted : list (N * ballot)) (hi : option ballot)
         (ticks : list (list ballot * list p2amsg)) (outs : list (list p1brep * list p2brep)) : bool :=
  match ticks, outs with
  | (_, p2) :: t, (o1, o2) :: os =>
      let seen' := p2 ++ seen in
      let oks := flat_map (fun (r : p2brep) => let '(_, s, b, e) := r in match e with None => [(s, b)] | Some _ => [] end) o2 in
      let p1oks := flat_map (fun (r : p1brep) => match snd r with inl _ => [snd (fst r)] | inr _ => [] end) o1 in
      let voted' := oks ++ voted in
      forallb (fun sb => negb (ob_lt (Some (snd sb)) hi)) oks &&
      forallb (fun b => negb (ob_lt (Some b) hi)) p1oks &&
      forallb (fun (r : p1brep) =>
                 match snd r with
                 | inr _ => true
                 | inl lg =>
                     forallb (fun (e : aentry) =>
                                existsb (fun (m : p2amsg) => let '(_, b, s, v) := m in
                                           (s =? fst e) && b_eqb b (fst (snd e)) && ov_eqb v (snd (snd e))) seen') lg &&
                     forallb (fun sb => existsb (fun (e : aentry) => (fst e =? fst sb) && negb (b_lt (fst (snd e)) (snd sb))) lg) voted'
                 end) o1 &&
      acc_obl seen' voted'
              (fold_left (fun m b => ob_max m (Some b)) (map snd oks ++ p1oks) hi) t os
  | _, _ => true
  end.

Definition chk_acc (ticks : list (list ballot * list p2amsg)) (outs : list (list p1brep * list p2brep)) : N :=
  bor (bit (Nat.eqb (length outs) (length ticks) &&
            forallb (fun p => mset_eqb p1b_eqb (fst (fst p)) (fst (snd p)) && mset_eqb p2b_eqb (snd (fst p)) (snd (snd p)))
                    (combine outs (acc_run acc_init ticks))) 1)
      (bit (acc_obl [] [] None ticks outs) 2).

(* ------------------------------------------------------------------------------------------
   The PROPOSER node's sequencing after it became leader (sequence_payload as wired by paxos_core):
   the quorum of p1b logs it was elected with stays visible in every later tick, so in EVERY tick
   the recommit p2as are sent again and index_payloads starts again from (max slot in those
   logs) + 1 -- only when the logs are empty does the running `next_slot` counter take over.
   p2as of one tick, as (slot, value) at the leader's ballot: *)
Fixpoint seq_run (f : N) (bal : ballot) (logs : list p1blog) (next : N) (ticks : list (list N))
  : list (list (N * option N)) :=
  match ticks with
  | [] => []
  | ps :: t =>
      let mx := max_list (slots_of logs) in
      let base := match mx with Some m => m + 1 | None => next end in
      (map (fun o => (fst (fst o), snd o)) (px_recommit f bal logs) ++
       combine (map (fun i => base + N.of_nat i) (seq 0 (length ps))) (map (@Some N) ps))
      :: seq_run f bal logs (base + N.of_nat (length ps)) t
  end.

(* the sequencing with the proposed repair (fixes/C40_paxos_reconcile_p1bs_once.diff): the p1b logs are
   reconciled only in the tick where leadership is gained (`first`); afterwards the running
   next-slot counter is used *)
Fixpoint seq_fixed_run (f : N) (bal : ballot) (logs : list p1blog) (first : bool) (next : N)
         (ticks : list (list N)) : list (list (N * option N)) :=
  match ticks with
  | [] => []
  | ps :: t =>
      let mx := if first then max_list (slots_of logs) else None in
      let base := match mx with Some m => m + 1 | None => next end in
      ((if first then map (fun o => (fst (fst o), snd o)) (px_recommit f bal logs) else []) ++
       combine (map (fun i => base + N.of_nat i) (seq 0 (length ps))) (map (@Some N) ps))
      :: seq_fixed_run f bal logs false (base + N.of_nat (length ps)) t
  end.

Definition sv_eqb (a b : N * option N) : bool := (fst a =? fst b) && ov_eqb (snd a) (snd b).
(* one value per (ballot, slot): the abstract system's P2a freshness / invariant i2 *)
Definition one_value_per_slot (outs : list (list (N * option N))) : bool :=
  let all := concat outs in
  forallb (fun a => forallb (fun b => negb (fst a =? fst b) || ov_eqb (snd a) (snd b)) all) all.

Definition chk_seq (f : N) (bal : ballot) (logs : list p1blog) (ticks : list (list N))
           (outs : list (list (N * option N))) : N :=
  bor (bit (Nat.eqb (length outs) (length ticks) &&
            forallb (fun p => mset_eqb sv_eqb (fst p) (snd p)) (combine outs (seq_run f bal logs 0 ticks))) 1)
      (bit (one_value_per_slot outs) 2).

(* a slot may be reported decided only when f+1 DISTINCT acceptors answered Ok for it (evaluated on
   a scripted run of the real proposer node: per tick, the (acceptor, slot) Ok replies fed at the
   leader's ballot and the slots it reported decided) *)
Fixpoint dec_obl (f : N) (oks : list (N * N)) (ticks : list (list (N * N) * list N)) : bool :=
  match ticks with
  | [] => true
  | (ok, dec) :: t =>
      let oks' := ok ++ oks in
      forallb (fun s => f <? N.of_nat (length (dedup (map fst (filter (fun p => snd p =? s) oks'))))) dec &&
      dec_obl f oks' t
  end.
Definition chk_dec (f : N) (ticks : list (list (N * N) * list N)) : N := bit (dec_obl f [] ticks) 2.

(* ------------------------------------------------------------------------------------------
   The PROPOSER node's leader decision (p_ballot_calc + p_p1b as wired by leader_election), one step
   per tick, all effects in the same tick:
     received max ballot := max over heartbeat ballots and the ballots carried by Err p1b replies;
     ballot number       := (received max).num + 1 if (num, self) < received max;
     p1b quorum          := collect_quorum_with_response(f+1, 2f+1) keyed by ballot (hydro_std::quorum,
                            model QuorumModel, shared with C39): a ballot is "reached" when f+1 Ok
                            REPLIES for it are held (the sender is dropped before the count);
     is_leader           := (largest reached ballot = own current ballot)
   (has_largest_ballot is implied after the ballot update).  Not modelled: timers (when p1a and
   heartbeats are sent), p2b Err ballots. *)
Definition benc (b : ballot) : N := fst b * 4294967296 + snd b + 1.

Record est := mkE { e_recv : option ballot; e_num : N; e_q : QuorumModel.qstate; e_reached : list N }.
Definition e_init : est := mkE None 0 QuorumModel.q_init [].

(* p1b reply as seen by the leader decision: (ballot, None = Ok | Some e = Err e) *)
Definition p1bin := (ballot * option (option ballot))%type.

Definition e_step (f me : N) (st : est) (hbs : list ballot) (p1bs : list p1bin) : est * bool * ballot :=
  let errs := flat_map (fun (r : p1bin) => match snd r with Some (Some b) => [b] | _ => [] end) p1bs ++ hbs in
  let recv := fold_left (fun m b => ob_max m (Some b)) errs (e_recv st) in
  let num := match recv with
             | Some r => if b_lt (e_num st, me) r then fst r + 1 else e_num st
             | None => e_num st
             end in
  let batch := map (fun (r : p1bin) => (benc (fst r), match snd r with None => QuorumModel.ROk 0 | Some _ => QuorumModel.RErr 0 end)) p1bs in
  let cur := QuorumModel.not_all (e_q st) ++ batch in
  let reached := QuorumModel.reached (N.to_nat (f + 1)) cur ++ e_reached st in
  let q := QuorumModel.q_next (N.to_nat (f + 1)) (N.to_nat (2 * f + 1)) (e_q st) batch in
  let mxq := fold_left N.max reached 0 in
  (mkE recv num q reached, mxq =? benc (num, me), (num, me)).

Fixpoint e_run (f me : N) (st : est) (ticks : list (list ballot * list p1bin)) : list (bool * ballot) :=
  match ticks with
  | [] => []
  | (hb, p1) :: t => let '(st', ld, b) := e_step f me st hb p1 in (ld, b) :: e_run f me st' t
  end.

(* obligation on the implementation: it may lead with ballot b only when f+1 DISTINCT acceptors
   answered Ok for b (per tick: the (acceptor, ballot) Ok replies fed, leader?, ballot) *)
Fixpoint elect_obl (f : N) (oks : list (N * ballot)) (ticks : list (list (N * ballot) * bool * ballot)) : bool :=
  match ticks with
  | [] => true
  | (ok, ld, b) :: t =>
      let oks' := ok ++ oks in
      (negb ld || (f <? N.of_nat (length (dedup (map fst (filter (fun p => b_eqb (snd p) b) oks')))))) &&
      elect_obl f oks' t
  end.

(* ticks: (heartbeats, p1b inputs with sender); impl: per tick (leader?, ballot if leader) *)
Definition chk_elect (f me : N) (pre : list (list ballot * list p1bin))
           (ticks : list (list ballot * list (N * p1bin))) (impl : list (bool * ballot)) : N :=
  let st0 := fold_left (fun st (t : list ballot * list p1bin) => fst (fst (e_step f me st (fst t) (snd t)))) pre e_init in
  let model := e_run f me st0 (map (fun t => (fst t, map snd (snd t))) ticks) in
  bor (bit (Nat.eqb (length impl) (length model) &&
            forallb (fun p => Bool.eqb (fst (fst p)) (fst (snd p)) &&
                              (negb (fst (fst p)) || b_eqb (snd (fst p)) (snd (snd p)))) (combine impl model)) 1)
      (bit (elect_obl f []
              (map (fun p => (flat_map (fun (r : N * p1bin) => match snd (snd r) with None => [(fst r, fst (snd r))] | Some _ => [] end) (snd (fst p)),
                              fst (snd p), snd (snd p))) (combine ticks impl))) 2).

Definition bad (vs : list N) : list (N * N) :=
  filter (fun p => negb (snd p =? 0)) (combine (map N.of_nat (seq 0 (length vs))) vs).
