(* E10 Proto -- Raft: the asynchronous fail-stop network of n members as a transition system
   over the transcribed `raft_step`, the safety predicates (Prop and executable), and the
   trace checker used by the correspondence check.  Definitions only.

   Network model.  `g_sent` is the set of all messages ever sent; a step of member m may consume
   ANY list of messages addressed to m that were ever sent: this allows arbitrary delay,
   reordering, duplication and loss, a superset of what the code's `TCP.fail_stop()` channels do
   (FIFO per pair, no duplication, loss only by crash).  A crashed member never steps again;
   a member whose step panics is crashed (fail-stop).                                      *)
From HV Require Export Proto.RaftModel.

Definition members (n : N) : list N := map N.of_nat (seq 0 (N.to_nat n)).
Definition others_of (n m : N) : list N := filter (fun x => negb (x =? m)) (members n).
Definition mk_input (n m : N) (el hb : bool) (reqs : list N) (msgs : list (N * rpc)) : input :=
  mkI m (others_of n m) n el hb reqs msgs.

Definition updf {A} (f : N -> A) (k : N) (v : A) : N -> A := fun x => if x =? k then v else f x.

Record gstate := mkG {
  g_st : N -> rstate;
  g_alive : N -> bool;
  g_sent : list (N * N * rpc) }.                 (* (from, to, message) *)

Definition g_init : gstate := mkG (fun _ => init_state) (fun _ => true) [].

Definition tag_out (m : N) (o : list (N * rpc)) : list (N * N * rpc) :=
  map (fun p => (m, fst p, snd p)) o.

Inductive gstep (n : N) (g : gstate) : gstate -> Prop :=
| GStep : forall m el hb reqs msgs s' o,
    m < n -> g_alive g m = true ->
    (forall f r, In (f, r) msgs -> In (f, m, r) (g_sent g)) ->
    raft_step (g_st g m) (mk_input n m el hb reqs msgs) = Some (s', o) ->
    gstep n g (mkG (updf (g_st g) m s') (g_alive g) (g_sent g ++ tag_out m (o_outbound o)))
| GPanic : forall m el hb reqs msgs,
    m < n -> g_alive g m = true ->
    (forall f r, In (f, r) msgs -> In (f, m, r) (g_sent g)) ->
    raft_step (g_st g m) (mk_input n m el hb reqs msgs) = None ->
    gstep n g (mkG (g_st g) (updf (g_alive g) m false) (g_sent g))
| GCrash : forall m,
    gstep n g (mkG (g_st g) (updf (g_alive g) m false) (g_sent g)).

Inductive gsteps (n : N) : gstate -> gstate -> Prop :=
| gs_refl : forall g, gsteps n g g
| gs_step : forall g g' g'', gsteps n g g' -> gstep n g' g'' -> gsteps n g g''.

Definition reachable (n : N) (g : gstate) : Prop := gsteps n g_init g.

(* ------------------------------------------------------------------ safety predicates (Prop) *)

Definition committed_prefix (s : rstate) : list entry := firstn (N.to_nat (commit s)) (log s).

(* State Machine Safety: no two members ever hold different entries at the same committed
   position -- quantified over two (possibly different) moments of one execution *)
Definition sms_pair (s1 s2 : rstate) : Prop :=
  forall k e1 e2, nth_error (committed_prefix s1) k = Some e1 ->
                  nth_error (committed_prefix s2) k = Some e2 -> e1 = e2.

Definition C40_raft_sms_stmt (n : N) : Prop :=
  forall g1 g2, reachable n g1 -> gsteps n g1 g2 ->
  forall a b, a < n -> b < n -> sms_pair (g_st g1 a) (g_st g2 b).

Definition leader_in (s : rstate) (t : N) : Prop := rrole s = Leader /\ term s = t.

Definition election_safety_stmt (n : N) : Prop :=
  forall g1 g2, reachable n g1 -> gsteps n g1 g2 ->
  forall a b t, a < n -> b < n -> leader_in (g_st g1 a) t -> leader_in (g_st g2 b) t -> a = b.

Definition log_matching_pair (l1 l2 : list entry) : Prop :=
  forall k e1 e2, nth_error l1 k = Some e1 -> nth_error l2 k = Some e2 -> e_term e1 = e_term e2 ->
                  firstn (S k) l1 = firstn (S k) l2.

Definition log_matching_stmt (n : N) : Prop :=
  forall g, reachable n g -> forall a b, a < n -> b < n -> log_matching_pair (log (g_st g a)) (log (g_st g b)).

Definition leader_completeness_stmt (n : N) : Prop :=
  forall g1 g2, reachable n g1 -> gsteps n g1 g2 ->
  forall a b, a < n -> b < n -> rrole (g_st g2 b) = Leader -> term (g_st g1 a) <= term (g_st g2 b) ->
  forall k e, nth_error (committed_prefix (g_st g1 a)) k = Some e -> nth_error (log (g_st g2 b)) k = Some e.

(* ------------------------------------------------------------------ executable forms *)

Fixpoint compat (a b : list entry) : bool :=
  match a, b with
  | x :: a', y :: b' => entry_eqb x y && compat a' b'
  | _, _ => true
  end.

Definition sms_pair_b (s1 s2 : rstate) : bool := compat (committed_prefix s1) (committed_prefix s2).

Fixpoint log_wf_from (k : N) (l : list entry) : bool :=
  match l with [] => true | e :: r => (e_index e =? k) && log_wf_from (k + 1) r end.
Definition log_wf (l : list entry) : bool := log_wf_from 1 l.

(* log matching, executable: walk both logs; once terms agree at a position the prefixes up to
   it must be equal.  `eqsofar` = all earlier positions were pairwise equal. *)
Fixpoint log_matching_go (eqsofar : bool) (a b : list entry) : bool :=
  match a, b with
  | x :: a', y :: b' =>
      let here := entry_eqb x y in
      (negb (e_term x =? e_term y) || (eqsofar && here)) && log_matching_go (eqsofar && here) a' b'
  | _, _ => true
  end.
Definition log_matching_b (a b : list entry) : bool := log_matching_go true a b.

Definition leaders_ok (ls : list (N * N)) : bool :=
  forallb (fun a => forallb (fun b => negb (fst a =? fst b) || (snd a =? snd b)) ls) ls.

(* ------------------------------------------------------------------ trace checker *)

Inductive tstep :=
| TStep (m : N) (i : input) (post : rstate) (out : output)
| TPanic (m : N) (i : input)
| TCrash (m : N).

Record chk := mkC {
  c_st : list rstate;          (* implementation states, one per member *)
  c_alive : list bool;
  c_sent : list (N * N * rpc);
  c_leaders : list (N * N);    (* (term, member) seen in role Leader *)
  c_global : list entry;       (* longest committed prefix seen so far *)
  c_hist : list (list entry);  (* per member: concatenation of its `committed` outputs *)
  c_bits : N }.

Definition upd {A} (l : list A) (k : nat) (x : A) : list A :=
  firstn k l ++ x :: skipn (S k) l.

Definition sent_mem (x : N * N * rpc) (l : list (N * N * rpc)) : bool :=
  existsb (fun y => (fst (fst x) =? fst (fst y)) && (snd (fst x) =? snd (fst y)) && rpc_eqb (snd x) (snd y)) l.

Definition bor (a b : N) : N := N.lor a b.
Definition bit (b : bool) (v : N) : N := if b then 0 else v.

Definition input_ok (n csize m : N) (i : input) : bool :=
  (i_me i =? m) && list_eqb N.eqb (i_others i) (others_of n m) && (i_cluster_size i =? csize).

Definition chk_step_cluster (n csize : N) (c : chk) (t : tstep) : chk :=
  match t with
  | TCrash m => mkC (c_st c) (upd (c_alive c) (N.to_nat m) false) (c_sent c) (c_leaders c) (c_global c)
                    (c_hist c) (c_bits c)
  | TPanic m i =>
      let pre := nth (N.to_nat m) (c_st c) init_state in
      let agree := match raft_step pre i with None => true | Some _ => false end in
      mkC (c_st c) (upd (c_alive c) (N.to_nat m) false) (c_sent c) (c_leaders c) (c_global c) (c_hist c)
          (bor (c_bits c) (bor (bit agree 1) 2))        (* a panic in a cluster run violates the property *)
  | TStep m i post out =>
      let k := N.to_nat m in
      let pre := nth k (c_st c) init_state in
      let valid := (m <? n) && nth k (c_alive c) false && input_ok n csize m i &&
                   forallb (fun fr => sent_mem (fst fr, m, snd fr) (c_sent c)) (i_msgs i) in
      let agree := match raft_step pre i with
                   | Some (s', o') => rstate_eqb s' post && output_eqb o' out
                   | None => false end in
      let st' := upd (c_st c) k post in
      let leaders := if is_leader post && negb (existsb (pairN_eqb (term post, m)) (c_leaders c))
                     then (term post, m) :: c_leaders c else c_leaders c in
      let cp := committed_prefix post in
      let global := if len (c_global c) <? len cp then cp else c_global c in
      let hist_m := nth k (c_hist c) [] ++ o_committed out in
      let safe :=
        (term pre <=? term post) && (commit pre <=? commit post) &&
        (negb (term pre =? term post) || match voted_for pre with None => true | Some _ => optN_eqb (voted_for pre) (voted_for post) end) &&
        leaders_ok leaders &&
        log_wf (log post) && (commit post <=? len (log post)) &&
        forallb (fun s => log_matching_b (log post) (log s)) st' &&
        forallb (fun s => sms_pair_b post s) st' &&
        compat cp (c_global c) &&
        compat hist_m global && (len hist_m <=? len global) in
      mkC st' (c_alive c) (c_sent c ++ tag_out m (o_outbound out)) leaders global (upd (c_hist c) k hist_m)
          (bor (c_bits c) (bor (bit (valid && agree) 1) (bit safe 2)))
  end.

Definition chk_init (n : N) : chk :=
  let k := N.to_nat n in
  mkC (repeat init_state k) (repeat true k) [] [] [] (repeat [] k) 0.

(* verdict of a whole cluster run: bit 0 = some step of the real raft_step differs from the model
   (or the trace is not an execution of the transition system), bit 1 = a safety predicate fails
   on the implementation's states *)
Definition chk_cluster (n csize : N) (tr : list tstep) : N :=
  c_bits (fold_left (chk_step_cluster n csize) tr (chk_init n)).

(* verdict of a single arbitrary (state, input) call *)
Definition chk_single (pre : rstate) (i : input) (r : option (rstate * output)) : N :=
  match raft_step pre i, r with
  | None, None => 0
  | Some (s', o'), Some (post, out) =>
      bor (bit (rstate_eqb s' post && output_eqb o' out) 1)
          (bit ((term pre <=? term post) && (commit pre <=? commit post) &&
                (negb (term pre =? term post) ||
                 match voted_for pre with None => true | Some _ => optN_eqb (voted_for pre) (voted_for post) end)) 2)
  | _, _ => 1
  end.

Definition bad (vs : list N) : list (N * N) :=
  filter (fun p => negb (snd p =? 0)) (combine (map N.of_nat (seq 0 (length vs))) vs).
