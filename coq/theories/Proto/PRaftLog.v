(* E10 Proto -- Raft: Log Matching.  The ghost effect system of PRaftElection.v is extended with a
   per-term leader log `y_gl t` (the log of the leader of term t, as it grows); log-aware effects
   (`leff`) wrap the election effects; the invariant `LInv` says that every entry of term t found
   anywhere (a member's log, another term's leader log, an AppendEntries message) sits, with its
   whole prefix, in the leader log of term t.  Log Matching is an immediate consequence. *)
From Coq Require Import Lia ZifyBool ZifyN Arith.
From HV Require Import Proto.RaftNet Proto.PRaftLocal Proto.PRaftElection Proto.PRaftWf Proto.PRaftLogLemmas.

Arguments N.add : simpl never.
Arguments N.sub : simpl never.
Arguments N.ltb : simpl never.
Arguments N.leb : simpl never.
Arguments N.eqb : simpl never.

Record ystate := mkY { y_x : xstate; y_gl : N -> list entry }.
Definition y_init : ystate := mkY x_init (fun _ => []).

Definition no_ae (r : rpc) : Prop := match r with AE _ _ _ _ _ _ => False | _ => True end.

(* es is the part of G from position pli on (a prefix of it), and plt is the term before it *)
Definition slice (G : list entry) (pli plt : N) (es : list entry) : Prop :=
  (N.to_nat pli <= length G)%nat /\ es = firstn (length es) (skipn (N.to_nat pli) G) /\
  (pli = 0 \/ exists e, nth_error G (N.to_nat pli - 1) = Some e /\ e_term e = plt).

Definition ae_from (t m : N) (lg : list entry) (r : rpc) : Prop :=
  exists pli plt lc, r = AE t m pli plt (skipn (N.to_nat pli) lg) lc /\
                              slice lg pli plt (skipn (N.to_nat pli) lg).

(* messages a log-quiet step may add: failed replies, or the RequestVote of a fresh candidate *)
Definition lmsg (s' : rstate) (r : rpc) : Prop :=
  (exists t mi, r = AER t false mi) \/
  (exists l lt, r = RV (term s') l lt /\ rrole s' = Candidate /\ last_log_position s' = (lt, l)).

(* match_index entries of a leader are justified by successful replies of its term *)
Definition mi_ok (x : xstate) (m : N) (s s' : rstate) : Prop :=
  rrole s' = Leader -> forall f v, mget f (match_index s') = Some v -> 0 < v ->
  mget f (match_index s) = Some v \/ In (f, m, AER (term s) true v) (x_sent x).

Inductive leff (n : N) (y : ystate) : ystate -> Prop :=
| LSame : forall m s' sent' cast' el',
    let x := y_x y in let s := x_st x m in
    eff n x (mkX (updf (x_st x) m s') sent' cast' el') ->
    log s' = log s -> term s <= term s' ->
    (rrole s' = Leader -> rrole s = Leader /\ term s' = term s) ->
    (rrole s = Leader -> term s' = term s -> rrole s' = Leader) ->
    (forall f to r, In (f, to, r) sent' -> In (f, to, r) (x_sent x) \/ no_ae r) ->
    el' = x_elected x ->
    commit s' = commit s ->
    (forall f to r, In (f, to, r) sent' -> In (f, to, r) (x_sent x) \/ (f = m /\ lmsg s' r)) ->
    (rrole s' = Candidate -> rrole s = Candidate /\ term s' = term s /\ votes s' = votes s) ->
    mi_ok x m s s' -> incl (x_sent x) sent' ->
    leff n y (mkY (mkX (updf (x_st x) m s') sent' cast' el') (y_gl y))
| LWin : forall m s',
    let x := y_x y in let s := x_st x m in
    eff n x (mkX (updf (x_st x) m s') (x_sent x) (x_cast x) (x_elected x ++ [(term s, m)])) ->
    rrole s = Candidate -> rrole s' = Leader -> term s' = term s -> log s' = log s ->
    commit s' = commit s -> votes s' = votes s ->
    (forall f v, mget f (match_index s') = Some v -> v = 0) ->
    majority_of n <= len (votes s) ->
    leff n y (mkY (mkX (updf (x_st x) m s') (x_sent x) (x_cast x) (x_elected x ++ [(term s, m)]))
                  (updf (y_gl y) (term s) (log s)))
| LAppend : forall m s' sent' ext,
    let x := y_x y in let s := x_st x m in
    eff n x (mkX (updf (x_st x) m s') sent' (x_cast x) (x_elected x)) ->
    rrole s = Leader -> rrole s' = Leader -> term s' = term s -> log s' = log s ++ ext ->
    (forall e, In e ext -> e_term e = term s) -> (log_wf (log s) = true -> log_wf (log s') = true) ->
    (forall f to r, In (f, to, r) sent' -> In (f, to, r) (x_sent x) \/ no_ae r) ->
    commit s' = commit s -> match_index s' = match_index s -> sent' = x_sent x ++ tag_out m [] ->
    leff n y (mkY (mkX (updf (x_st x) m s') sent' (x_cast x) (x_elected x))
                  (updf (y_gl y) (term s) (log s')))
| LSend : forall m s' o,
    let x := y_x y in let s := x_st x m in
    eff n x (mkX (updf (x_st x) m s') (x_sent x ++ tag_out m o) (x_cast x) (x_elected x)) ->
    rrole s = Leader -> rrole s' = Leader -> term s' = term s -> log s' = log s ->
    (forall to r, In (to, r) o -> ae_from (term s) m (log s) r) ->
    commit s <= commit s' -> match_index s' = match_index s ->
    (commit s' <> commit s ->
       exists e, nth_error (log s) (N.to_nat (commit s') - 1) = Some e /\ e_term e = term s /\
                 majority_of n <= acks (others_of n m) (match_index s) (commit s')) ->
    (forall to t ldr pli plt es lc, In (to, AE t ldr pli plt es lc) o -> lc = commit s') ->
    leff n y (mkY (mkX (updf (x_st x) m s') (x_sent x ++ tag_out m o) (x_cast x) (x_elected x)) (y_gl y))
| LRecv : forall m s' o f ldr pli plt es lc cmt,
    let x := y_x y in let s := x_st x m in
    eff n x (mkX (updf (x_st x) m s') (x_sent x ++ tag_out m o) (x_cast x) (x_elected x)) ->
    In (f, m, AE (term s) ldr pli plt es lc) (x_sent x) ->
    rrole s <> Leader -> rrole s' = Follower -> term s' = term s ->
    (pli = 0 \/ (pli <= len (log s) /\
                 exists e, nth_error (log s) (N.to_nat pli - 1) = Some e /\ e_term e = plt)) ->
    append_entries (log s) cmt es = Some (log s') ->
    (forall to r, In (to, r) o -> no_ae r) ->
    cmt = commit s ->
    commit s' = (if commit s <? N.min lc (pli + len es) then N.min lc (pli + len es) else commit s) ->
    o = [(f, AER (term s) true (pli + len es))] ->
    leff n y (mkY (mkX (updf (x_st x) m s') (x_sent x ++ tag_out m o) (x_cast x) (x_elected x)) (y_gl y))
| LGrant : forall m s' from lli llt,
    let x := y_x y in let s := x_st x m in
    eff n x (mkX (updf (x_st x) m s') (x_sent x ++ tag_out m [(from, RVR (term s))])
                 (x_cast x ++ [(term s, m, from)]) (x_elected x)) ->
    log s' = log s -> term s' = term s -> rrole s' = rrole s -> votes s' = votes s ->
    commit s' = commit s -> match_index s' = match_index s ->
    In (from, m, RV (term s) lli llt) (x_sent x) ->
    pair_ge (llt, lli) (last_log_position s) = true ->
    leff n y (mkY (mkX (updf (x_st x) m s') (x_sent x ++ tag_out m [(from, RVR (term s))])
                       (x_cast x ++ [(term s, m, from)]) (x_elected x)) (y_gl y))
| LVote : forall m s' u,
    let x := y_x y in let s := x_st x m in
    eff n x (mkX (updf (x_st x) m s') (x_sent x) (x_cast x) (x_elected x)) ->
    log s' = log s -> term s' = term s -> rrole s = Candidate -> rrole s' = Candidate ->
    commit s' = commit s -> votes s' = sins u (votes s) ->
    In (u, m, RVR (term s)) (x_sent x) ->
    leff n y (mkY (mkX (updf (x_st x) m s') (x_sent x) (x_cast x) (x_elected x)) (y_gl y))
| LCand : forall m s',
    let x := y_x y in let s := x_st x m in
    eff n x (mkX (updf (x_st x) m s') (x_sent x) (x_cast x ++ [(term s', m, m)]) (x_elected x)) ->
    log s' = log s -> term s' = term s + 1 -> rrole s <> Leader -> rrole s' = Candidate ->
    commit s' = commit s -> votes s' = [m] ->
    leff n y (mkY (mkX (updf (x_st x) m s') (x_sent x) (x_cast x ++ [(term s', m, m)]) (x_elected x)) (y_gl y)).

Inductive leffs (n : N) : ystate -> ystate -> Prop :=
| leffs_refl : forall y, leffs n y y
| leffs_step : forall y y' y'', leffs n y y' -> leff n y' y'' -> leffs n y y''.

Lemma leffs_trans : forall n a b c, leffs n a b -> leffs n b c -> leffs n a c.
Proof.
  intros n a b c H1 H2; induction H2; [assumption|].
  eapply leffs_step; [apply IHleffs; assumption|eassumption].
Qed.

Lemma leffs_one : forall n a b, leff n a b -> leffs n a b.
Proof. intros; eapply leffs_step; [apply leffs_refl|auto]. Qed.

Record LInv (n : N) (y : ystate) : Prop := mkLInv {
  lI : Inv n (y_x y);
  l1 : forall m, rrole (x_st (y_x y) m) = Leader -> log (x_st (y_x y) m) = y_gl y (term (x_st (y_x y) m));
  l2 : forall a i e, nth_error (log (x_st (y_x y) a)) i = Some e ->
         firstn (S i) (log (x_st (y_x y) a)) = firstn (S i) (y_gl y (e_term e));
  l2g : forall t i e, nth_error (y_gl y t) i = Some e ->
         firstn (S i) (y_gl y t) = firstn (S i) (y_gl y (e_term e));
  l3 : forall f to t ldr pli plt es lc, In (f, to, AE t ldr pli plt es lc) (x_sent (y_x y)) ->
         In (t, f) (x_elected (y_x y)) /\ slice (y_gl y t) pli plt es;
  l5 : forall t c, In (t, c) (x_elected (y_x y)) ->
         t <= term (x_st (y_x y) c) /\ (term (x_st (y_x y) c) = t -> rrole (x_st (y_x y) c) = Leader);
  l6 : forall a i e, nth_error (log (x_st (y_x y) a)) i = Some e -> exists c, In (e_term e, c) (x_elected (y_x y));
  l6g : forall t i e, nth_error (y_gl y t) i = Some e -> exists c, In (e_term e, c) (x_elected (y_x y));
  l7 : forall a, log_wf (log (x_st (y_x y) a)) = true;
  l7g : forall t, log_wf (y_gl y t) = true }.

Lemma LInv_init : forall n, LInv n y_init.
Proof.
  intro n; constructor; cbn; intros; try (apply Inv_init); try discriminate; try contradiction; auto;
    try (destruct i; discriminate).
Qed.

(* Log Matching from the invariant *)
Theorem LInv_log_matching : forall n y, LInv n y ->
  forall a b, log_matching_pair (log (x_st (y_x y) a)) (log (x_st (y_x y) b)).
Proof.
  intros n y I a b k e1 e2 H1 H2 T. rewrite (l2 _ _ I a k e1 H1), (l2 _ _ I b k e2 H2), T. auto.
Qed.

Ltac ucases k m :=
  destruct (N.eq_dec k m) as [->|?]; [rewrite ?updf_same in *|rewrite ?updf_other in * by auto].

Lemma slice_app : forall G ext pli plt es, slice G pli plt es -> slice (G ++ ext) pli plt es.
Proof.
  intros G ext pli plt es (A & B & C). split; [rewrite app_length; lia|]. split.
  - rewrite B at 1. rewrite skipn_app. replace (N.to_nat pli - length G)%nat with 0%nat by lia. cbn [skipn].
    rewrite firstn_app_le; auto.
    assert (length es <= length (skipn (N.to_nat pli) G))%nat; [|lia].
    rewrite B at 1. rewrite firstn_length. lia.
  - destruct C as [C|(e & C1 & C2)]; auto. right. exists e. split; auto.
    rewrite nth_error_app1; auto. apply nth_error_lt in C1. auto.
Qed.

(* ------------------------------------------------------------------ LSame *)
Lemma same_inv : forall n y m s' sent' cast' el',
  let x := y_x y in let s := x_st x m in
  eff n x (mkX (updf (x_st x) m s') sent' cast' el') ->
  log s' = log s -> term s <= term s' ->
  (rrole s' = Leader -> rrole s = Leader /\ term s' = term s) ->
  (rrole s = Leader -> term s' = term s -> rrole s' = Leader) ->
  (forall f to r, In (f, to, r) sent' -> In (f, to, r) (x_sent x) \/ no_ae r) ->
  el' = x_elected x ->
  LInv n y -> LInv n (mkY (mkX (updf (x_st x) m s') sent' cast' el') (y_gl y)).
Proof.
  intros n y m s' sent' cast' el' x s He Hl Ht Hr1 Hr2 Hs Hel I.
  pose proof (eff_Inv _ _ _ He (lI _ _ I)) as I'. destruct I as [II L1 L2 L2g L3 L5 L6 L6g L7 L7g].
  subst el'. fold x in L1, L2, L3, L5, L6, L7. constructor; cbn [y_x y_gl x_st x_sent x_elected]; auto.
  - intros k H. ucases k m; auto. destruct (Hr1 H) as [R T]. rewrite Hl, T. apply L1; auto.
  - intros a i e H. ucases a m; auto. rewrite Hl in *. apply L2; auto.
  - intros f to t ldr pli plt es lc H. destruct (Hs _ _ _ H) as [H'|[]]. eapply L3; eauto.
  - intros t c H. destruct (L5 _ _ H) as [A B]. ucases c m; auto. fold s in A, B. split; [lia|].
    intro E. assert (term s = t) as E' by lia. apply Hr2; auto. lia.
  - intros a i e H. ucases a m; eauto. rewrite Hl in *. eapply L6; eauto.
  - intro a. ucases a m; auto. rewrite Hl. apply L7.
Qed.

(* ------------------------------------------------------------------ LWin *)
Lemma win_inv : forall n y m s',
  let x := y_x y in let s := x_st x m in
  eff n x (mkX (updf (x_st x) m s') (x_sent x) (x_cast x) (x_elected x ++ [(term s, m)])) ->
  rrole s = Candidate -> rrole s' = Leader -> term s' = term s -> log s' = log s ->
  LInv n y ->
  LInv n (mkY (mkX (updf (x_st x) m s') (x_sent x) (x_cast x) (x_elected x ++ [(term s, m)]))
              (updf (y_gl y) (term s) (log s))).
Proof.
  intros n y m s' x s He Hc Hl Ht Hlog I.
  pose proof (eff_Inv _ _ _ He (lI _ _ I)) as I'. destruct I as [II L1 L2 L2g L3 L5 L6 L6g L7 L7g].
  fold x in L1, L2, L3, L5, L6, L7, II.
  (* term s had no leader before: nothing of that term exists anywhere *)
  assert (forall c, ~ In (term s, c) (x_elected x)) as F0.
  { intros c H.
    assert (c = m).
    { eapply (Inv_election_safety _ _ I' (term s) c m); cbn; apply in_or_app; [left; auto|right; left; auto]. }
    subst c. destruct (L5 _ _ H) as [_ B]. fold s in B. rewrite (B eq_refl) in Hc. discriminate. }
  assert (forall a i e, nth_error (log (x_st x a)) i = Some e -> e_term e <> term s) as F1.
  { intros a i e H E. destruct (L6 _ _ _ H) as (c & Hc'). rewrite E in Hc'. eapply F0; eauto. }
  assert (forall t i e, nth_error (y_gl y t) i = Some e -> e_term e <> term s) as F2.
  { intros t i e H E. destruct (L6g _ _ _ H) as (c & Hc'). rewrite E in Hc'. eapply F0; eauto. }
  constructor; cbn [y_x y_gl x_st x_sent x_elected]; auto.
  - intros k H. ucases k m.
    + rewrite Hlog, Ht, updf_same; auto.
    + assert (term (x_st x k) <> term s) as Hne.
      { intro E. apply (F0 k). rewrite <- E. apply (iF _ _ II); auto. }
      rewrite (updf_other _ (y_gl y)) by auto. apply L1; auto.
  - intros a i e H. assert (nth_error (log (x_st x a)) i = Some e) as H0.
    { ucases a m; auto. rewrite Hlog in H; auto. }
    rewrite (updf_other _ (y_gl y)) by (eapply F1; eauto). ucases a m; auto. rewrite Hlog. apply L2; auto.
  - intros t i e H. ucases t (term s).
    + rewrite (updf_other _ (y_gl y)) by (eapply F1; eauto). apply L2; auto.
    + rewrite (updf_other _ (y_gl y)) by (eapply F2; eauto). apply L2g; auto.
  - intros f to t ldr pli plt es lc H. destruct (L3 _ _ _ _ _ _ _ _ H) as [A B].
    split; [apply in_or_app; left; auto|]. rewrite (updf_other _ (y_gl y)); auto. intro E. subst t. eapply F0; eauto.
  - intros t c H. apply in_app_or in H. destruct H as [H|[H|[]]].
    + destruct (L5 _ _ H) as [A B]. ucases c m; auto. fold s in A, B. rewrite Ht. split; auto.
    + inversion H; subst. rewrite updf_same. rewrite Ht. split; auto. lia.
  - intros a i e H. assert (nth_error (log (x_st x a)) i = Some e) as H0.
    { ucases a m; auto. rewrite Hlog in H; auto. }
    destruct (L6 _ _ _ H0) as (c & Hc'). exists c. apply in_or_app; left; auto.
  - intros t i e H. ucases t (term s).
    + destruct (L6 _ _ _ H) as (c & Hc'). exists c. apply in_or_app; left; auto.
    + destruct (L6g _ _ _ H) as (c & Hc'). exists c. apply in_or_app; left; auto.
  - intro a. ucases a m; auto. rewrite Hlog. apply L7.
  - intro t. ucases t (term s); auto. apply L7.
Qed.

(* ------------------------------------------------------------------ LAppend *)
Lemma firstn_keep : forall (X Y ext : list entry) i e,
  firstn (S i) X = firstn (S i) Y -> nth_error X i = Some e -> firstn (S i) X = firstn (S i) (Y ++ ext).
Proof.
  intros X Y ext i e H Hn. rewrite firstn_app_le; auto. eapply firstn_S_eq_len; eauto.
Qed.

Lemma append_inv : forall n y m s' sent' ext,
  let x := y_x y in let s := x_st x m in
  eff n x (mkX (updf (x_st x) m s') sent' (x_cast x) (x_elected x)) ->
  rrole s = Leader -> rrole s' = Leader -> term s' = term s -> log s' = log s ++ ext ->
  (forall e, In e ext -> e_term e = term s) -> (log_wf (log s) = true -> log_wf (log s') = true) ->
  (forall f to r, In (f, to, r) sent' -> In (f, to, r) (x_sent x) \/ no_ae r) ->
  LInv n y ->
  LInv n (mkY (mkX (updf (x_st x) m s') sent' (x_cast x) (x_elected x)) (updf (y_gl y) (term s) (log s'))).
Proof.
  intros n y m s' sent' ext x s He Hr Hr' Ht Hlog Hext Hwf0 Hs I.
  pose proof (eff_Inv _ _ _ He (lI _ _ I)) as I'. destruct I as [II L1 L2 L2g L3 L5 L6 L6g L7 L7g].
  fold x in L1, L2, L3, L5, L6, L7, II. pose proof (Hwf0 (L7 m)) as Hwf.
  assert (log s = y_gl y (term s)) as HG by (apply L1; auto).
  (* an entry of log s' outside log s is in ext *)
  assert (forall i e, nth_error (log s') i = Some e ->
            (nth_error (log s) i = Some e) \/ e_term e = term s) as Hsplit.
  { intros i e H. rewrite Hlog in H. destruct (lt_dec i (length (log s))) as [L|L].
    - left. rewrite nth_error_app1 in H; auto.
    - right. rewrite nth_error_app2 in H by lia. apply Hext. eapply nth_error_In; eauto. }
  (* the prefix property of log s' itself *)
  assert (forall i e, nth_error (log s') i = Some e ->
            firstn (S i) (log s') = firstn (S i) (updf (y_gl y) (term s) (log s') (e_term e))) as Hself.
  { intros i e H. destruct (N.eq_dec (e_term e) (term s)) as [E|E].
    - rewrite E, updf_same; auto.
    - rewrite (updf_other _ (y_gl y)) by auto. destruct (Hsplit i e H) as [H0|H0]; [|contradiction].
      rewrite Hlog. rewrite firstn_app_le by (apply nth_error_lt in H0; lia). apply L2; auto. }
  constructor; cbn [y_x y_gl x_st x_sent x_elected]; auto.
  - intros k H. ucases k m.
    + rewrite Ht, updf_same; auto.
    + assert (term (x_st x k) <> term s) as Hne.
      { intro E. apply n0. eapply (Inv_election_safety _ _ II (term s)).
        - rewrite <- E. apply (iF _ _ II); auto.
        - apply (iF _ _ II); auto. }
      rewrite (updf_other _ (y_gl y)) by auto. apply L1; auto.
  - intros a i e H. ucases a m; [apply Hself; auto|].
    destruct (N.eq_dec (e_term e) (term s)) as [E|E].
    + rewrite E, updf_same, Hlog, HG. pose proof (L2 _ _ _ H) as P. rewrite E in P.
      eapply firstn_keep; eauto.
    + rewrite (updf_other _ (y_gl y)) by auto. apply L2; auto.
  - intros t i e H. ucases t (term s); [apply Hself; auto|].
    destruct (N.eq_dec (e_term e) (term s)) as [E|E].
    + rewrite E, updf_same, Hlog, HG. pose proof (L2g _ _ _ H) as P. rewrite E in P.
      eapply firstn_keep; eauto.
    + rewrite (updf_other _ (y_gl y)) by auto. apply L2g; auto.
  - intros f to t ldr pli plt es lc H. destruct (Hs _ _ _ H) as [H'|[]].
    destruct (L3 _ _ _ _ _ _ _ _ H') as [A B]. split; auto. ucases t (term s); auto.
    rewrite Hlog, HG. apply slice_app; auto.
  - intros t c H. destruct (L5 _ _ H) as [A B]. ucases c m; auto. fold s in A, B. rewrite Ht. split; auto.
  - intros a i e H. ucases a m; [|eapply L6; eauto].
    destruct (Hsplit i e H) as [H0|H0]; [eapply L6; eauto|]. exists m. rewrite H0. apply (iF _ _ II); auto.
  - intros t i e H. ucases t (term s); [|eapply L6g; eauto].
    destruct (Hsplit i e H) as [H0|H0]; [eapply L6; eauto|]. exists m. rewrite H0. apply (iF _ _ II); auto.
  - intro a. ucases a m; auto.
  - intro t. ucases t (term s); auto.
Qed.

(* ------------------------------------------------------------------ LSend *)
Lemma send_inv : forall n y m s' o,
  let x := y_x y in let s := x_st x m in
  eff n x (mkX (updf (x_st x) m s') (x_sent x ++ tag_out m o) (x_cast x) (x_elected x)) ->
  rrole s = Leader -> rrole s' = Leader -> term s' = term s -> log s' = log s ->
  (forall to r, In (to, r) o -> ae_from (term s) m (log s) r) ->
  LInv n y ->
  LInv n (mkY (mkX (updf (x_st x) m s') (x_sent x ++ tag_out m o) (x_cast x) (x_elected x)) (y_gl y)).
Proof.
  intros n y m s' o x s He Hr Hr' Ht Hlog Ho I.
  pose proof (eff_Inv _ _ _ He (lI _ _ I)) as I'. destruct I as [II L1 L2 L2g L3 L5 L6 L6g L7 L7g].
  fold x in L1, L2, L3, L5, L6, L7, II.
  assert (log s = y_gl y (term s)) as HG by (apply L1; auto).
  assert (In (term s, m) (x_elected x)) as HE by (apply (iF _ _ II); auto).
  constructor; cbn [y_x y_gl x_st x_sent x_elected]; auto.
  - intros k H. ucases k m; auto. rewrite Hlog, Ht. apply L1; auto.
  - intros a i e H. ucases a m; auto. rewrite Hlog in *. apply L2; auto.
  - intros f to t ldr pli plt es lc H. apply in_app_or in H. destruct H as [H|H]; [eapply L3; eauto|].
    unfold tag_out in H. apply in_map_iff in H. destruct H as ([to' r'] & E & Hin). cbn in E. inversion E; subst.
    destruct (Ho _ _ Hin) as (pli' & plt' & lc' & E1 & S1). inversion E1; subst.
    split; [exact HE|]. rewrite <- HG. exact S1.
  - intros t c H. destruct (L5 _ _ H) as [A B]. ucases c m; auto. fold s in A, B. rewrite Ht. split; auto.
  - intros a i e H. ucases a m; eauto. rewrite Hlog in *. eapply L6; eauto.
  - intro a. ucases a m; auto. rewrite Hlog. apply L7.
Qed.

(* ------------------------------------------------------------------ LRecv *)
Lemma recv_inv : forall n y m s' o f ldr pli plt es lc cmt,
  let x := y_x y in let s := x_st x m in
  eff n x (mkX (updf (x_st x) m s') (x_sent x ++ tag_out m o) (x_cast x) (x_elected x)) ->
  In (f, m, AE (term s) ldr pli plt es lc) (x_sent x) ->
  rrole s <> Leader -> rrole s' <> Leader -> term s' = term s ->
  (pli = 0 \/ (pli <= len (log s) /\
               exists e, nth_error (log s) (N.to_nat pli - 1) = Some e /\ e_term e = plt)) ->
  append_entries (log s) cmt es = Some (log s') ->
  (forall to r, In (to, r) o -> no_ae r) ->
  LInv n y ->
  LInv n (mkY (mkX (updf (x_st x) m s') (x_sent x ++ tag_out m o) (x_cast x) (x_elected x)) (y_gl y)).
Proof.
  intros n y m s' o f ldr pli plt es lc cmt x s He Hin Hr Hr' Ht Hm Ha Ho I.
  pose proof (eff_Inv _ _ _ He (lI _ _ I)) as I'. destruct I as [II L1 L2 L2g L3 L5 L6 L6g L7 L7g].
  fold x in L1, L2, L3, L5, L6, L7, II.
  destruct (L3 _ _ _ _ _ _ _ _ Hin) as [_ (S1 & S2 & S3)].
  set (G := y_gl y (term s)) in *. set (p := N.to_nat pli) in *.
  assert ((p <= length (log s))%nat /\ firstn p (log s) = firstn p G) as [Hp Hpre].
  { destruct (N.eq_dec pli 0) as [Z|NZ].
    - subst p. rewrite Z. cbn. split; auto; lia.
    - destruct Hm as [Hm|(Hm1 & em & Hm2 & Hm3)]; [contradiction|].
      destruct S3 as [S3|(eg & S3 & S4)]; [contradiction|].
      split; [unfold len in Hm1; lia|].
      pose proof (L2 _ _ _ Hm2) as P1. pose proof (L2g _ _ _ S3) as P2. fold s in P1.
      assert (S (p - 1) = p) as Ep by (subst p; lia). fold p in P1, P2. rewrite Ep in P1, P2.
      unfold G in *. rewrite P1, P2, Hm3, S4. auto. }
  assert (log s' = log s \/ log s' = firstn (p + length es) G) as Hshape.
  { eapply (append_entries_shape (y_gl y)); eauto. }
  assert (forall i e, nth_error (log s') i = Some e ->
            firstn (S i) (log s') = firstn (S i) (y_gl y (e_term e)) /\
            exists c, In (e_term e, c) (x_elected x)) as Hnew.
  { intros i e H. destruct Hshape as [E|E]; rewrite E in *.
    - split; [apply L2; auto|eapply L6; eauto].
    - apply nth_error_firstn_some in H. destruct H as [H Hlt].
      split; [|eapply L6g; eauto]. rewrite firstn_firstn_le by lia. apply L2g; auto. }
  constructor; cbn [y_x y_gl x_st x_sent x_elected]; auto.
  - intros k H. ucases k m; auto. contradiction.
  - intros a i e H. ucases a m; auto. apply (Hnew i e H).
  - intros f0 to t ldr0 pli0 plt0 es0 lc0 H. apply in_app_or in H. destruct H as [H|H]; [eapply L3; eauto|].
    unfold tag_out in H. apply in_map_iff in H. destruct H as ([to' r'] & E & Hin'). cbn in E. inversion E; subst.
    destruct (Ho _ _ Hin').
  - intros t c H. destruct (L5 _ _ H) as [A B]. ucases c m; auto. fold s in A, B. rewrite Ht. split; auto.
    intro E. exfalso. apply Hr. auto.
  - intros a i e H. ucases a m; eauto. apply (Hnew i e H).
  - intro a. ucases a m; auto. destruct Hshape as [E|E]; rewrite E; [apply L7|].
    unfold log_wf. apply wf_firstn. apply L7g.
Qed.

Theorem leff_LInv : forall n y y', leff n y y' -> LInv n y -> LInv n y'.
Proof.
  intros n y y' H I. destruct H.
  - eapply same_inv; eauto.
  - eapply win_inv; eauto.
  - eapply append_inv; eauto.
  - eapply send_inv; eauto.
  - subst cmt. eapply recv_inv; eauto. congruence.
  - (* LGrant *)
    eapply same_inv; eauto; fold x; fold s; try lia.
    + intros R. split; congruence.
    + intros R _. congruence.
    + intros f to r Hin. apply in_app_or in Hin. destruct Hin as [Hin|Hin]; auto. right.
      unfold tag_out in Hin. cbn in Hin. destruct Hin as [E|[]]. inversion E; subst. cbn. exact Logic.I.
  - (* LVote *)
    eapply same_inv; eauto; fold x; fold s; try lia; try (intros; congruence); try (intros R; split; congruence).
  - (* LCand *)
    eapply same_inv; eauto; fold x; fold s; try lia; try (intros; congruence); try (intros R; contradiction).
Qed.

Lemma leffs_LInv : forall n y y', leffs n y y' -> LInv n y -> LInv n y'.
Proof. induction 1; auto. intro; eapply leff_LInv; eauto. Qed.
