(* E10 Proto -- Raft, towards Leader Completeness, stage B3: the votes.
   V4   : a granted vote (RequestVoteResponse) answers a RequestVote whose (last term, last index)
          dominates every current-term prefix the voter held -- established with the election
          restriction at the moment of the grant;
   V3   : a candidate's log contains every such prefix of each of its voters;
   VInvS: an elected leader's log does (frozen at the moment it wins): the invariant VInv of
          PRaftLC.v, from which Leader Completeness follows. *)
From Coq Require Import Lia ZifyBool ZifyN Arith.
From HV Require Import Proto.RaftNet Proto.PRaftLocal Proto.PRaftElection Proto.PRaftRefine Proto.PRaftWf
  Proto.PRaftLogLemmas Proto.PRaftLog Proto.PRaftLogRefine Proto.PRaftLogTerms Proto.PRaftLC Proto.PRaftLC2
  Proto.PRaftLC3.

Arguments N.add : simpl never.
Arguments N.sub : simpl never.
Arguments N.ltb : simpl never.
Arguments N.leb : simpl never.
Arguments N.eqb : simpl never.

Ltac uc4 k m := destruct (N.eq_dec k m) as [->|?]; [rewrite ?updf_same in *|rewrite ?updf_other in * by auto].

(* leader logs of already elected terms only grow at the end *)
Lemma gl_fwd : forall n y y', leff n y y' -> LInv n y ->
  forall a q, In (a, q) (x_elected (y_x y)) -> forall c, (c <= length (y_gl y a))%nat ->
  firstn c (y_gl y' a) = firstn c (y_gl y a).
Proof.
  intros n y y' H I a q Ha c Lc.
  destruct H as [m s' sent' cast' el' x s He Hl Ht Hr1 Hr2 Hs Hel Hcm Hs2 Hcand Hmi Hincl
                |m s' x s He Hc Hl Ht Hlog Hcm Hvs Hz Hmaj
                |m s' sent' ext x s He Hr Hr' Ht Hlog Hext Hwf Hs Hcm Hmx Hse
                |m s' o x s He Hr Hr' Ht Hlog Ho Hc1 Hmx Hrule Hlc
                |m s' o f0 ldr pli plt es lc cmt x s He Hin Hr Hr' Ht Hm Ha0 Ho Hcmt Hcm Hoo
                |m s' from lli llt x s He Hlog Ht Hr Hvs Hcm Hmx Hin Hpg
                |m s' u0 x s He Hlog Ht Hr Hr' Hcm Hvs Hin
                |m s' x s He Hlog Ht Hr Hr' Hcm Hvs]; cbn [y_gl]; auto.
  - pose proof (win_fresh n y m s' He Hc I) as F0. fold x in F0. fold s in F0.
    rewrite updf_other; auto. intro E. rewrite E in Ha. exact (F0 _ Ha).
  - uc4 a (term s); auto. pose proof (l1 _ _ I m Hr) as HG. fold x in HG. fold s in HG.
    rewrite Hlog, HG. apply firstn_app_le; auto.
Qed.

Lemma el_fwd : forall n y y', leff n y y' -> forall a q, In (a, q) (x_elected (y_x y)) -> In (a, q) (x_elected (y_x y')).
Proof.
  intros n y y' H a q Ha. destruct H; cbn [y_x x_elected]; auto; try (subst; auto; fail).
  apply in_or_app; left; auto.
Qed.

Lemma holds_term : forall n y u t c, LInv n y -> KInv y -> holds y u t c -> t <= term (x_st (y_x y) u).
Proof.
  intros n y u t c I K [H|(c' & (to & H) & _)].
  - apply (l5 _ _ I _ _ H).
  - apply (k1 _ K _ _ _ _ H).
Qed.

Lemma cur_elected : forall n y t c, LInv n y -> cur y t c -> exists q, In (t, q) (x_elected (y_x y)).
Proof. intros n y t c I (e & He & Te). destruct (l6g _ _ I _ _ _ He) as (q & Hq). rewrite Te in Hq. eauto. Qed.

(* what a member held below a term it has already reached was held before the step *)
Lemma ante_back : forall n y y', leff n y y' -> LInv n y -> LInv2 y -> KInv y ->
  forall u t t2 c, t2 <= term (x_st (y_x y) u) -> (0 < c)%nat -> t < t2 ->
  cur y' t c -> holds y' u t c -> between_ok y' t t2 c ->
  cur y t c /\ holds y u t c /\ between_ok y t t2 c.
Proof.
  intros n y y' H I J K u t t2 c Lu Hc0 Lt Hcur Hh Hb.
  pose proof (gl_fwd n y y' H I) as GF. pose proof (el_fwd n y y' H) as EF.
  destruct H as [m s' sent' cast' el' x s He Hl Ht Hr1 Hr2 Hs Hel Hcm Hs2 Hcand Hmi Hincl
                |m s' x s He Hc Hl Ht Hlog Hcm Hvs Hz Hmaj
                |m s' sent' ext x s He Hr Hr' Ht Hlog Hext Hwf Hs Hcm Hmx Hse
                |m s' o x s He Hr Hr' Ht Hlog Ho Hc1 Hmx Hrule Hlc
                |m s' o f0 ldr pli plt es lc cmt x s He Hin Hr Hr' Ht Hm Ha0 Ho Hcmt Hcm Hoo
                |m s' from lli llt x s He Hlog Ht Hr Hvs Hcm Hmx Hin Hpg
                |m s' u0 x s He Hlog Ht Hr Hr' Hcm Hvs Hin
                |m s' x s He Hlog Ht Hr Hr' Hcm Hvs];
    unfold cur, holds, acked, between_ok in *; cbn [y_x y_gl x_st x_elected x_sent] in *.
  - (* LSame *) subst el'. split; [exact Hcur|]. split; [|exact Hb].
    destruct Hh as [Hh|(c' & (to & Hh) & Lc)]; [left; auto|right]. exists c'. split; auto. exists to.
    destruct (Hs2 _ _ _ Hh) as [Hi'|[_ [(t0 & mi & E)|(l & lt & E & _)]]]; auto; discriminate.
  - (* LWin *)
    pose proof (win_fresh n y m s' He Hc I) as F0. fold x in F0. fold s in F0.
    assert (t <> term s) as Hne.
    { intro E. destruct Hcur as (e & He' & Te). rewrite E in He'. unfold updf in He'. rewrite N.eqb_refl in He'.
      destruct (l6 _ _ I m _ _ He') as (q & Hq). fold x in Hq. rewrite Te, E in Hq. eapply F0; eauto. }
    rewrite (updf_other _ (y_gl y)) in * by auto. split; [exact Hcur|]. split.
    + destruct Hh as [Hh|Hh]; [left|right; exact Hh]. apply in_app_or in Hh. destruct Hh as [Hh|[Hh|[]]]; auto.
      inversion Hh; subst. contradiction.
    + intros t1 q1 L1 L2 E1.
      assert (t1 <> term s) as Hn1 by (intro E; rewrite E in E1; exact (F0 _ E1)).
      specialize (Hb t1 q1 L1 L2). rewrite (updf_other _ (y_gl y)) in Hb by auto. apply Hb. apply in_or_app; left; auto.
  - (* LAppend *)
    assert (log s = y_gl y (term s)) as HG by (apply (l1 _ _ I m); auto).
    assert (In (term s, m) (x_elected x)) as Em by (apply (iF _ _ (lI _ _ I)); auto).
    assert (forall msg, In msg sent' -> In msg (x_sent x)) as A0.
    { intros msg Hi. rewrite Hse in Hi. apply in_app_or in Hi. destruct Hi as [Hi|Hi]; auto. destruct Hi. }
    assert ((In (t, u) (x_elected x)) \/ exists c', (exists to, In (u, to, AER t true (N.of_nat c')) (x_sent x)) /\ (c <= c')%nat) as Hh0.
    { destruct Hh as [Hh|(c' & (to & Hh) & Lc)]; [left; auto|right; exists c'; split; auto; exists to; auto]. }
    destruct (N.eq_dec t (term s)) as [->|Hne].
    + rewrite updf_same in *.
      assert (c <= length (y_gl y (term s)))%nat as Lc.
      { destruct Hh0 as [Hh0|(c' & (to & Hh0) & Lc)].
        - exfalso. assert (u = m) by (eapply (Inv_election_safety _ _ (lI _ _ I)); eauto). subst u.
          fold x in Lu. fold s in Lu. lia.
        - destruct (k1 _ K _ _ _ _ Hh0) as (A & _). lia. }
      split; [|split; [exact Hh0|]].
      * destruct Hcur as (e & He' & Te). exists e. split; auto. rewrite Hlog, HG in He'.
        rewrite nth_error_app1 in He' by lia. auto.
      * intros t1 q1 L1 L2 E1. specialize (Hb t1 q1 L1 L2 E1).
        rewrite (updf_other _ (y_gl y)) in Hb by lia. rewrite Hlog, HG in Hb. apply pfx_app_r in Hb; auto.
    + rewrite (updf_other _ (y_gl y)) in * by auto.
      split; [exact Hcur|]. split; [exact Hh0|].
      intros t1 q1 L1 L2 E1. specialize (Hb t1 q1 L1 L2 E1).
      destruct (N.eq_dec t1 (term s)) as [->|Hn1]; [|rewrite (updf_other _ (y_gl y)) in Hb by auto; auto].
      rewrite updf_same, Hlog, HG in Hb.
      assert (c <= length (y_gl y (term s)))%nat as Lc.
      { destruct (le_lt_dec c (length (y_gl y (term s)))) as [L|L]; auto. exfalso.
        destruct Hcur as (e & He' & Te).
        assert (c - 1 < c)%nat as Lk by lia. pose proof (pfx_nth _ _ _ _ Lk Hb) as Q. rewrite He' in Q.
        rewrite nth_error_app2 in Q by lia.
        apply nth_error_In in Q. rewrite (Hext _ Q) in Te. lia. }
      apply pfx_app_l in Hb; auto.
  - (* LSend *) split; [exact Hcur|]. split; [|exact Hb].
    destruct Hh as [Hh|(c' & (to & Hh) & Lc)]; [left; auto|right]. exists c'. split; auto. exists to.
    apply in_app_or in Hh. destruct Hh as [Hh|Hh]; auto. apply tag_in in Hh. destruct Hh as [_ Hh].
    destruct (Ho _ _ Hh) as (p0 & p1 & p2 & E & _). discriminate.
  - (* LRecv *) subst o. split; [exact Hcur|]. split; [|exact Hb].
    destruct Hh as [Hh|(c' & (to & Hh) & Lc)]; [left; auto|right]. exists c'. split; auto. exists to.
    apply in_app_or in Hh. destruct Hh as [Hh|Hh]; auto. apply tag_in in Hh. destruct Hh as [-> [E|[]]].
    inversion E; subst. exfalso. fold x in Lu. fold s in Lu. lia.
  - (* LGrant *) split; [exact Hcur|]. split; [|exact Hb].
    destruct Hh as [Hh|(c' & (to & Hh) & Lc)]; [left; auto|right]. exists c'. split; auto. exists to.
    apply in_app_or in Hh. destruct Hh as [Hh|Hh]; auto. apply tag_in in Hh. destruct Hh as [_ [E|[]]]. discriminate.
  - (* LVote *) auto.
  - (* LCand *) auto.
Qed.

Lemma sent_fwd : forall n y y', leff n y y' -> forall msg, In msg (x_sent (y_x y)) -> In msg (x_sent (y_x y')).
Proof.
  intros n y y' H msg Hm. destruct H; cbn [y_x x_sent]; auto; try (apply in_or_app; left; auto; fail).
  subst sent'. apply in_or_app; left; auto.
Qed.

Lemma term_fwd : forall n y y', leff n y y' -> forall u, term (x_st (y_x y) u) <= term (x_st (y_x y') u).
Proof.
  intros n y y' H u.
  destruct H as [m s' sent' cast' el' x s He Hl Ht Hr1 Hr2 Hs Hel Hcm Hs2 Hcand Hmi Hincl
                |m s' x s He Hc Hl Ht Hlog Hcm Hvs Hz Hmaj
                |m s' sent' ext x s He Hr Hr' Ht Hlog Hext Hwf Hs Hcm Hmx Hse
                |m s' o x s He Hr Hr' Ht Hlog Ho Hc1 Hmx Hrule Hlc
                |m s' o f0 ldr pli plt es lc cmt x s He Hin Hr Hr' Ht Hm Ha0 Ho Hcmt Hcm Hoo
                |m s' from lli llt x s He Hlog Ht Hr Hvs Hcm Hmx Hin Hpg
                |m s' u0 x s He Hlog Ht Hr Hr' Hcm Hvs Hin
                |m s' x s He Hlog Ht Hr Hr' Hcm Hvs];
    cbn [y_x x_st]; (destruct (N.eq_dec u m) as [->|Hne]; [rewrite updf_same; fold x; fold s; lia|rewrite updf_other by auto; apply N.le_refl]).
Qed.

Definition V4 (y : ystate) : Prop :=
  forall u c2 t2, In (u, c2, RVR t2) (x_sent (y_x y)) ->
  exists lli llt, In (c2, u, RV t2 lli llt) (x_sent (y_x y)) /\
    forall t c, (0 < c)%nat -> t < t2 -> cur y t c -> holds y u t c ->
      (forall q, ~ In (t2, q) (x_elected (y_x y))) -> between_ok y t t2 c ->
      (c <= N.to_nat lli)%nat /\ pfx c (y_gl y llt) (y_gl y t).

Definition V3 (y : ystate) : Prop :=
  forall c2, rrole (x_st (y_x y) c2) = Candidate ->
    (forall q, ~ In (term (x_st (y_x y) c2), q) (x_elected (y_x y))) ->
    forall u, In u (votes (x_st (y_x y) c2)) ->
    forall t c, (0 < c)%nat -> t < term (x_st (y_x y) c2) -> cur y t c -> holds y u t c ->
      between_ok y t (term (x_st (y_x y) c2)) c -> pfx c (log (x_st (y_x y) c2)) (y_gl y t).

Definition VInvS (n : N) (y : ystate) : Prop :=
  forall t' c', In (t', c') (x_elected (y_x y)) ->
  exists Q', isq n Q' /\ (forall u, In u Q' -> t' <= term (x_st (y_x y) u)) /\
    forall u, In u Q' -> forall t c, t < t' -> (0 < c)%nat -> cur y t c -> holds y u t c ->
      between_ok y t t' c -> pfx c (y_gl y t') (y_gl y t).

Lemma VInvS_VInv : forall n y, VInvS n y -> VInv n y.
Proof. intros n y V t' c' H. destruct (V t' c' H) as (Q' & A & _ & B). exists Q'. split; auto. Qed.

(* the election restriction at work: the candidate's last position dominates the voter's log,
   which contains the prefix; hence the leader log of the candidate's last term contains it *)
Lemma uptodate : forall n y u t t2 c lli llt,
  LInv n y -> LInv2 y ->
  ((lli = 0 /\ llt = 0) \/
   (0 < lli /\ llt < t2 /\ (exists q, In (llt, q) (x_elected (y_x y))) /\
    exists e, nth_error (y_gl y llt) (N.to_nat lli - 1) = Some e /\ e_term e = llt)) ->
  (0 < c)%nat -> cur y t c -> t < t2 ->
  pfx c (log (x_st (y_x y) u)) (y_gl y t) ->
  pair_ge (llt, lli) (last_log_position (x_st (y_x y) u)) = true ->
  between_ok y t t2 c ->
  (c <= N.to_nat lli)%nat /\ pfx c (y_gl y llt) (y_gl y t).
Proof.
  intros n y u t t2 c lli llt I J HR Hc0 Hcur Lt P PG Hb.
  set (s := x_st (y_x y) u) in *.
  pose proof (cur_len _ _ _ Hc0 Hcur) as Lg. pose proof (pfx_len _ _ _ Lg P) as Ls.
  destruct Hcur as (ec & Hec & Tec).
  assert (nth_error (log s) (c - 1) = Some ec) as Hsc.
  { rewrite (pfx_nth c (log s) (y_gl y t) (c - 1)); auto. lia. }
  destruct (last_log_position s) as [Tu Iu] eqn:EL.
  destruct (last_log_nth _ _ _ EL) as [(E0 & _)|(el & Hel & Tel & Iel & Pos)]; [rewrite E0 in Ls; cbn in Ls; lia|].
  pose proof (wf_nth _ _ _ (l7 _ _ I u) Hel) as Wi. fold s in Wi.
  assert (t <= Tu) as LtT.
  { rewrite <- Tec, <- Tel. apply (m2 _ J u (c - 1)%nat (length (log s) - 1)%nat); auto. lia. }
  unfold pair_ge in PG. cbn [fst snd] in PG.
  destruct HR as [(Z1 & Z2)|(Pl & Plt & (q & Hq) & eg & Heg & Teg)]; [subst; lia|].
  destruct (N.eq_dec llt Tu) as [Eq|Ne].
  - (* same last term: the candidate's log is at least as long *)
    assert (Iu <= lli) as Li by lia. split; [lia|]. rewrite Eq.
    pose proof (l2 _ _ I u _ _ Hel) as Q. fold s in Q. rewrite Tel in Q.
    eapply pfx_trans; [|exact P]. apply pfx_sym. eapply pfx_le; [|exact Q]. lia.
  - assert (Tu < llt) as Lh by lia. assert (t < llt) as Lt2 by lia.
    pose proof (Hb llt q Lt2 Plt Hq) as Pg. split; [|exact Pg].
    (* the entry of term llt sits after the prefix *)
    assert (nth_error (y_gl y llt) (c - 1) = Some ec) as Hgc.
    { rewrite (pfx_nth c (y_gl y llt) (y_gl y t) (c - 1)); auto. lia. }
    destruct (le_lt_dec c (N.to_nat lli)) as [L|L]; auto. exfalso.
    assert (N.to_nat lli - 1 <= c - 1)%nat as Lp by lia.
    pose proof (m2g _ J llt _ _ _ _ Lp Heg Hgc). lia.
Qed.

Lemma rvr_term : forall n y u c2 t2, LInv n y -> In (u, c2, RVR t2) (x_sent (y_x y)) -> t2 <= term (x_st (y_x y) u).
Proof. intros n y u c2 t2 I H. apply (iA _ _ (lI _ _ I) _ _ _ (iC _ _ (lI _ _ I) _ _ _ H)). Qed.

Lemma vote_term : forall n y c2 u, LInv n y -> rrole (x_st (y_x y) c2) <> Follower -> In u (votes (x_st (y_x y) c2)) ->
  term (x_st (y_x y) c2) <= term (x_st (y_x y) u) /\ u < n.
Proof.
  intros n y c2 u I R H. destruct (iD _ _ (lI _ _ I) c2 R) as [_ D]. destruct (iA _ _ (lI _ _ I) _ _ _ (D u H)) as (A & B & _). auto.
Qed.

(* transfer of a conclusion about leader logs of elected terms across a step *)
Lemma pfx_gl_fwd : forall n y y' a t c, leff n y y' -> LInv n y ->
  (exists q, In (a, q) (x_elected (y_x y))) -> (exists q, In (t, q) (x_elected (y_x y))) ->
  (c <= length (y_gl y t))%nat -> pfx c (y_gl y a) (y_gl y t) -> pfx c (y_gl y' a) (y_gl y' t).
Proof.
  intros n y y' a t c H I (qa & Ea) (qt & Et) L P.
  pose proof (pfx_len c _ _ L P) as La. unfold pfx in *.
  rewrite (gl_fwd n y y' H I a qa Ea c La), (gl_fwd n y y' H I t qt Et c L). exact P.
Qed.

Lemma V4_old : forall n y y', leff n y y' -> LInv n y -> LInv2 y -> KInv y -> V4 y ->
  forall u c2 t2, In (u, c2, RVR t2) (x_sent (y_x y)) ->
  exists lli llt, In (c2, u, RV t2 lli llt) (x_sent (y_x y')) /\
    forall t c, (0 < c)%nat -> t < t2 -> cur y' t c -> holds y' u t c ->
      (forall q, ~ In (t2, q) (x_elected (y_x y'))) -> between_ok y' t t2 c ->
      (c <= N.to_nat lli)%nat /\ pfx c (y_gl y' llt) (y_gl y' t).
Proof.
  intros n y y' H I J K V u c2 t2 Hm. destruct (V u c2 t2 Hm) as (lli & llt & HRV & HV).
  exists lli, llt. split; [eapply sent_fwd; eauto|].
  intros t c Hc0 Lt Hcur Hh Hne Hb.
  destruct (ante_back n y y' H I J K u t t2 c (rvr_term _ _ _ _ _ I Hm) Hc0 Lt Hcur Hh Hb) as (A & B & C).
  destruct (HV t c Hc0 Lt A B) as [D E]; auto.
  { intros q Hq. apply (Hne q). eapply el_fwd; eauto. }
  split; auto. eapply pfx_gl_fwd; eauto.
  - destruct (kR2 _ K _ _ _ _ _ HRV) as [(Z & _)|(_ & _ & Eq & _)]; [lia|auto].
  - eapply cur_elected; eauto.
  - apply cur_len; auto.
Qed.

(* ------------------------------------------------------------------ V4 is an invariant *)
Theorem leff_V4 : forall n y y', leff n y y' -> LInv n y -> LInv2 y -> KInv y -> ZInv y -> V4 y -> V4 y'.
Proof.
  intros n y y' H I J K Z V u c2 t2 Hm.
  pose proof (V4_old n y y' H I J K V) as OLD.
  destruct H as [m s' sent' cast' el' x s He Hl Ht Hr1 Hr2 Hs Hel Hcm Hs2 Hcand Hmi Hincl
                |m s' x s He Hc Hl Ht Hlog Hcm Hvs Hz Hmaj
                |m s' sent' ext x s He Hr Hr' Ht Hlog Hext Hwf Hs Hcm Hmx Hse
                |m s' o x s He Hr Hr' Ht Hlog Ho Hc1 Hmx Hrule Hlc
                |m s' o f0 ldr pli plt es lc cmt x s He Hin Hr Hr' Ht Hm0 Ha0 Ho Hcmt Hcm Hoo
                |m s' from lli llt x s He Hlog Ht Hr Hvs Hcm Hmx Hin Hpg
                |m s' u0 x s He Hlog Ht Hr Hr' Hcm Hvs Hin
                |m s' x s He Hlog Ht Hr Hr' Hcm Hvs]; cbn [y_x x_sent] in Hm.
  - apply OLD. destruct (Hs2 _ _ _ Hm) as [Hi'|[_ [(t0 & mi & E)|(l & lt & E & _)]]]; auto; discriminate.
  - apply OLD; auto.
  - apply OLD. rewrite Hse in Hm. apply in_app_or in Hm. destruct Hm as [Hm|[]]; auto.
  - apply OLD. apply in_app_or in Hm. destruct Hm as [Hm|Hm]; auto. apply tag_in in Hm. destruct Hm as [_ Hm].
    destruct (Ho _ _ Hm) as (p0 & p1 & p2 & E & _). discriminate.
  - apply OLD. subst o. apply in_app_or in Hm. destruct Hm as [Hm|Hm]; auto. apply tag_in in Hm.
    destruct Hm as [_ [E|[]]]. discriminate.
  - (* LGrant *)
    apply in_app_or in Hm. destruct Hm as [Hm|Hm]; [apply OLD; auto|].
    apply tag_in in Hm. destruct Hm as [-> [E|[]]]. inversion E; subst c2 t2; clear E.
    exists lli, llt. split; [cbn [y_x x_sent]; apply in_or_app; left; exact Hin|].
    intros t c Hc0 Lt Hcur Hh Hne Hb.
    (* nothing relevant changed in this step: read the facts in the old state *)
    assert (cur y t c /\ holds y m t c /\ between_ok y t (term s) c) as (A & B & C).
    { unfold cur, holds, acked, between_ok in *. cbn [y_x y_gl x_st x_elected x_sent] in *. split; [exact Hcur|]. split; [|exact Hb].
      destruct Hh as [Hh|(c' & (to & Hh) & Lc)]; [left; auto|right]. exists c'. split; auto. exists to.
      apply in_app_or in Hh. destruct Hh as [Hh|Hh]; auto. apply tag_in in Hh. destruct Hh as [_ [E|[]]]. discriminate. }
    cbn [y_x y_gl x_elected] in Hne |- *.
    assert (pfx c (log s) (y_gl y t)) as P.
    { apply Z; auto. intros t1 q1 L1 L2 E1. fold x in L2. fold s in L2.
      destruct (N.eq_dec t1 (term s)) as [->|Hn1]; [exfalso; eapply Hne; eauto|].
      apply (C t1 q1); auto. lia. }
    eapply (uptodate n y m t (term s) c lli llt); eauto.
    apply (kR2 _ K _ _ _ _ _ Hin).
  - apply OLD; auto.
  - apply OLD; auto.
Qed.

(* ------------------------------------------------------------------ V3 is an invariant *)
Definition same_cand (s s' : rstate) : Prop :=
  rrole s' = Candidate -> rrole s = Candidate /\ term s' = term s /\ votes s' = votes s /\ log s' = log s.

Lemma V3_keep : forall n y y', leff n y y' -> LInv n y -> LInv2 y -> KInv y -> V3 y ->
  forall c2, same_cand (x_st (y_x y) c2) (x_st (y_x y') c2) ->
  rrole (x_st (y_x y') c2) = Candidate ->
    (forall q, ~ In (term (x_st (y_x y') c2), q) (x_elected (y_x y'))) ->
    forall u, In u (votes (x_st (y_x y') c2)) ->
    forall t c, (0 < c)%nat -> t < term (x_st (y_x y') c2) -> cur y' t c -> holds y' u t c ->
      between_ok y' t (term (x_st (y_x y') c2)) c -> pfx c (log (x_st (y_x y') c2)) (y_gl y' t).
Proof.
  intros n y y' H I J K V c2 SC R Hne u Hu t c Hc0 Lt Hcur Hh Hb.
  destruct (SC R) as (R0 & T0 & V0 & L0). rewrite T0 in *. rewrite V0 in Hu. rewrite L0.
  assert (rrole (x_st (y_x y) c2) <> Follower) as NF by congruence.
  destruct (vote_term n y c2 u I NF Hu) as [Lu _].
  destruct (ante_back n y y' H I J K u t _ c Lu Hc0 Lt Hcur Hh Hb) as (A & B & C).
  assert (pfx c (log (x_st (y_x y) c2)) (y_gl y t)) as P.
  { assert (forall q, ~ In (term (x_st (y_x y) c2), q) (x_elected (y_x y))) as NE
      by (intros q Hq; apply (Hne q); eapply el_fwd; eauto).
    exact (V c2 R0 NE u Hu t c Hc0 Lt A B C). }
  destruct (cur_elected n y t c I A) as (qt & Eq).
  unfold pfx in *. rewrite (gl_fwd n y y' H I t qt Eq c (cur_len _ _ _ Hc0 A)). exact P.
Qed.

Theorem leff_V3 : forall n y y', leff n y y' -> LInv n y -> LInv2 y -> KInv y -> ZInv y -> V4 y -> V3 y -> V3 y'.
Proof.
  intros n y y' H I J K Z V4y V c2 R Hne u Hu t c Hc0 Lt Hcur Hh Hb.
  pose proof (V3_keep n y y' H I J K V c2) as KEEP.
  destruct H as [m s' sent' cast' el' x s He Hl Ht Hr1 Hr2 Hs Hel Hcm Hs2 Hcand Hmi Hincl
                |m s' x s He Hc Hl Ht Hlog Hcm Hvs Hz Hmaj
                |m s' sent' ext x s He Hr Hr' Ht Hlog Hext Hwf Hs Hcm Hmx Hse
                |m s' o x s He Hr Hr' Ht Hlog Ho Hc1 Hmx Hrule Hlc
                |m s' o f0 ldr pli plt es lc cmt x s He Hin Hr Hr' Ht Hm0 Ha0 Ho Hcmt Hcm Hoo
                |m s' from lli llt x s He Hlog Ht Hr Hvs Hcm Hmx Hin Hpg
                |m s' u0 x s He Hlog Ht Hr Hr' Hcm Hvs Hin
                |m s' x s He Hlog Ht Hr Hr' Hcm Hvs];
    (destruct (N.eq_dec c2 m) as [->|Hnm];
     [|refine (KEEP _ R Hne u Hu t c Hc0 Lt Hcur Hh Hb); cbn [y_x x_st]; rewrite updf_other by auto; intro R'; repeat split; auto]).
  - (* LSame *) refine (KEEP _ R Hne u Hu t c Hc0 Lt Hcur Hh Hb). cbn [y_x x_st]. rewrite updf_same. intro R'. destruct (Hcand R') as (A & B & C). auto.
  - (* LWin *) cbn [y_x x_st] in R. rewrite updf_same in R. congruence.
  - cbn [y_x x_st] in R. rewrite updf_same in R. congruence.
  - cbn [y_x x_st] in R. rewrite updf_same in R. congruence.
  - cbn [y_x x_st] in R. rewrite updf_same in R. congruence.
  - (* LGrant *) refine (KEEP _ R Hne u Hu t c Hc0 Lt Hcur Hh Hb). cbn [y_x x_st]. rewrite updf_same. intro R'. split; [fold x; fold s; rewrite <- Hr; exact R'|]. split; [exact Ht|]. split; [exact Hvs|exact Hlog].
  - (* LVote *)
    cbn [y_x y_gl x_st x_elected x_sent] in *. rewrite updf_same in *. rewrite Ht in *. rewrite Hlog.
    unfold cur, holds, acked, between_ok in *. cbn [y_x y_gl x_st x_elected x_sent] in *.
    rewrite Hvs in Hu. apply sins_In in Hu. destruct Hu as [->|Hu].
    + (* the new vote *)
      destruct (V4y u0 m (term s) Hin) as (lli & llt & HRV & HV).
      pose proof (kR _ K _ _ _ _ _ HRV eq_refl Hr) as LL. fold x in LL. fold s in LL.
      destruct (HV t c Hc0 Lt Hcur Hh Hne Hb) as [Lc Pg].
      destruct (last_log_nth _ _ _ LL) as [(_ & _ & Z0)|(el & Hel & Tel & Iel & Pos)]; [lia|].
      pose proof (wf_nth _ _ _ (l7 _ _ I m) Hel) as Wi. fold x in Wi. fold s in Wi.
      pose proof (l2 _ _ I m _ _ Hel) as Q. fold x in Q. fold s in Q. rewrite Tel in Q.
      eapply pfx_trans; [|exact Pg]. eapply pfx_le; [|exact Q]. lia.
    + exact (V m Hr Hne u Hu t c Hc0 Lt Hcur Hh Hb).
  - (* LCand *)
    cbn [y_x y_gl x_st x_elected x_sent] in *. rewrite updf_same in *. rewrite Hlog.
    unfold cur, holds, acked, between_ok in *. cbn [y_x y_gl x_st x_elected x_sent] in *.
    rewrite Hvs in Hu. destruct Hu as [<-|[]].
    apply Z; auto. intros t1 q1 L1 L2 E1. fold x in L2. fold s in L2. apply (Hb t1 q1); auto. lia.
Qed.

(* ------------------------------------------------------------------ VInvS is an invariant *)
Theorem leff_VInvS : forall n y y', leff n y y' -> LInv n y -> LInv2 y -> KInv y -> V3 y -> VInvS n y -> VInvS n y'.
Proof.
  intros n y y' H I J K V3y VS t' c' Hel.
  assert (forall t' c', In (t', c') (x_elected (y_x y)) ->
    exists Q', isq n Q' /\ (forall u, In u Q' -> t' <= term (x_st (y_x y') u)) /\
      forall u, In u Q' -> forall t c, t < t' -> (0 < c)%nat -> cur y' t c -> holds y' u t c ->
        between_ok y' t t' c -> pfx c (y_gl y' t') (y_gl y' t)) as OLD.
  { intros t0 c0 Hel0. destruct (VS t0 c0 Hel0) as (Q' & HQ & HT & HV). exists Q'. split; auto. split.
    - intros u Hu. pose proof (HT u Hu). pose proof (term_fwd n y y' H u). lia.
    - intros u Hu t c Lt Hc0 Hcur Hh Hb.
      destruct (ante_back n y y' H I J K u t t0 c (HT u Hu) Hc0 Lt Hcur Hh Hb) as (A & B & C).
      eapply pfx_gl_fwd; eauto; [eapply cur_elected; eauto|apply cur_len; auto]. }
  pose proof (ante_back n y y' H I J K) as AB.
  destruct H as [m s' sent' cast' el' x s He Hl Ht Hr1 Hr2 Hs Hel0 Hcm Hs2 Hcand Hmi Hincl
                |m s' x s He Hc Hl Ht Hlog Hcm Hvs Hz Hmaj
                |m s' sent' ext x s He Hr Hr' Ht Hlog Hext Hwf Hs Hcm Hmx Hse
                |m s' o x s He Hr Hr' Ht Hlog Ho Hc1 Hmx Hrule Hlc
                |m s' o f0 ldr pli plt es lc cmt x s He Hin Hr Hr' Ht Hm0 Ha0 Ho Hcmt Hcm Hoo
                |m s' from lli llt x s He Hlog Ht Hr Hvs Hcm Hmx Hin Hpg
                |m s' u0 x s He Hlog Ht Hr Hr' Hcm Hvs Hin
                |m s' x s He Hlog Ht Hr Hr' Hcm Hvs]; cbn [y_x x_elected] in Hel;
    try (apply (OLD t' c'); exact Hel; fail); try (apply (OLD t' c'); rewrite Hel0 in Hel; exact Hel; fail).
  (* LWin: the new leader *)
  apply in_app_or in Hel. destruct Hel as [Hel|[E|[]]]; [apply (OLD t' c'); auto|]. inversion E; subst t' c'; clear E.
  pose proof (win_fresh n y m s' He Hc I) as F0. fold x in F0. fold s in F0.
  assert (rrole s <> Follower) as NF by congruence.
  exists (votes s). split; [|split].
  - destruct (iD _ _ (lI _ _ I) m NF) as [ND _]. split; auto. split; auto.
    intros q Hq. apply (vote_term n y m q I NF Hq).
  - intros u Hu. destruct (vote_term n y m u I NF Hu) as [A _]. fold x in A. fold s in A.
    cbn [y_x x_st]. destruct (N.eq_dec u m) as [->|Hn]; [rewrite updf_same; lia|rewrite updf_other by auto; auto].
  - intros u Hu t c Lt Hc0 Hcur Hh Hb.
    destruct (vote_term n y m u I NF Hu) as [Lu _]. fold x in Lu. fold s in Lu.
    destruct (AB u t (term s) c Lu Hc0 Lt Hcur Hh Hb) as (A & B & C).
    cbn [y_gl]. rewrite updf_same. rewrite (updf_other _ (y_gl y)) by lia.
    apply (V3y m Hc F0 u Hu t c); auto.
Qed.
