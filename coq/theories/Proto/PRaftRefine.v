(* E10 Proto -- Raft: every `raft_step` of the network transition system is a sequence of the
   ghost-instrumented effects of PRaftElection.v (refinement), hence the election invariant and
   Election Safety hold in every reachable state of the real system. *)
From Coq Require Import Lia ZifyBool ZifyN.
From HV Require Import Proto.RaftNet Proto.PRaftLocal Proto.PRaftElection.

Arguments N.add : simpl never.
Arguments N.sub : simpl never.
Arguments N.div : simpl never.
Arguments N.ltb : simpl never.
Arguments N.leb : simpl never.
Arguments N.eqb : simpl never.

Definition upd_to (x x' : xstate) (m : N) (s' : rstate) (o : list (N * rpc)) : Prop :=
  (forall k, x_st x' k = updf (x_st x) m s' k) /\ x_sent x' = x_sent x ++ tag_out m o.

Definition reaches (n : N) (x : xstate) (m : N) (s' : rstate) (o : list (N * rpc)) : Prop :=
  exists x', effs n x x' /\ upd_to x x' m s' o.

Lemma upd_to_here : forall x x' m s' o, upd_to x x' m s' o -> x_st x' m = s'.
Proof. intros x x' m s' o [H _]. rewrite H. apply updf_same. Qed.

Lemma upd_to_sent : forall x x' m s' o a, upd_to x x' m s' o -> In a (x_sent x) -> In a (x_sent x').
Proof. intros x x' m s' o a [_ H] Hin. rewrite H. apply in_or_app; left; auto. Qed.

Lemma reaches_refl : forall n x m, reaches n x m (x_st x m) [].
Proof.
  intros n x m. exists x. split; [apply effs_refl|]. split.
  - intro k. unfold updf. destruct (k =? m) eqn:E; auto. apply N.eqb_eq in E; subst; auto.
  - cbn. rewrite app_nil_r; auto.
Qed.

Lemma reaches_refl' : forall n x m s, s = x_st x m -> reaches n x m s [].
Proof. intros; subst; apply reaches_refl. Qed.

Lemma reaches_then : forall n x m s1 o1 s2 o2,
  reaches n x m s1 o1 ->
  (forall x1, upd_to x x1 m s1 o1 -> reaches n x1 m s2 o2) ->
  reaches n x m s2 (o1 ++ o2).
Proof.
  intros n x m s1 o1 s2 o2 (x1 & E1 & U1) K.
  destruct (K x1 U1) as (x2 & E2 & U2).
  exists x2. split; [eapply effs_trans; eauto|].
  destruct U1 as [U1a U1b], U2 as [U2a U2b]. split.
  - intro k. rewrite U2a. unfold updf. destruct (k =? m) eqn:E; auto.
    rewrite U1a. unfold updf. rewrite E; auto.
  - rewrite U2b, U1b. unfold tag_out. rewrite map_app, app_assoc; auto.
Qed.

Lemma reaches_eff : forall n x m s' o xs xc xe,
  eff n x (mkX (updf (x_st x) m s') (x_sent x ++ tag_out m o) xc xe) -> xs = x_sent x ++ tag_out m o ->
  reaches n x m s' o.
Proof.
  intros. eexists. split; [apply effs_one; eassumption|]. split; cbn; auto.
Qed.

Lemma r_quiet : forall n x m s' o, m < n ->
  term s' = term (x_st x m) -> voted_for s' = voted_for (x_st x m) -> votes s' = votes (x_st x m) ->
  (rrole s' = rrole (x_st x m) \/ rrole s' = Follower) -> no_rvr o -> reaches n x m s' o.
Proof.
  intros. eexists. split; [apply effs_one; eapply EQuiet; eauto|]. split; cbn; auto.
Qed.

Lemma no_rvr_nil : no_rvr [].
Proof. intros to t []. Qed.

Lemma no_rvr_aer : forall to s b mi, no_rvr [(to, aer s b mi)].
Proof. intros to s b mi to' t [H|[]]. inversion H. Qed.

Lemma r_observe : forall n x m t s1 cur, m < n ->
  observe_term (x_st x m) t = (s1, cur) -> reaches n x m s1 [].
Proof.
  intros n x m t s1 cur Hm; unfold observe_term.
  destruct (term (x_st x m) <? t) eqn:E; intro H; inversion H; subst; clear H.
  - eexists. split; [apply effs_one; eapply (EBump n x m (set_term_reset (x_st x m) t)); cbn; auto; lia|].
    split; cbn; auto. rewrite app_nil_r; auto.
  - apply reaches_refl.
Qed.

Lemma r_handle_msg : forall n x m from r s' o, m < n ->
  In (from, m, r) (x_sent x) ->
  handle_msg (others_of n m) (majority_of n) (x_st x m) from r = Some (s', o) ->
  reaches n x m s' o.
Proof.
  intros n x m from r s' o Hm Hin H.
  destruct r as [t lli llt | t | t leader pli plt es lc | t succ mi]; cbn [handle_msg] in H;
    destruct (observe_term (x_st x m) t) as [s1 cur] eqn:Eo;
    change o with ([] ++ o); (eapply reaches_then; [eapply r_observe; eauto|]);
    intros x1 U; pose proof (upd_to_here _ _ _ _ _ U) as Hs1;
    destruct cur; cbn [negb] in H.
  - (* RV, current *)
    destruct (pair_ge (llt, lli) (last_log_position s1)); cbn [andb] in H;
      [|inversion H; subst; apply reaches_refl'; auto].
    destruct (match voted_for s1 with None => true | Some v => v =? from end) eqn:G;
      inversion H; subst; clear H; [|apply reaches_refl'; auto].
    eexists. split.
    + apply effs_one. eapply (EGrant n x1 m (set_voted (x_st x1 m) (Some from)) from); cbn; auto.
      destruct (voted_for (x_st x1 m)) as [v|]; auto. right. f_equal. lia.
    + split; cbn; auto.
  - inversion H; subst; apply reaches_refl'; auto.
  - (* RVR, current *)
    destruct (rrole s1) eqn:Er; try (inversion H; subst; apply reaches_refl'; auto; fail).
    pose proof (observe_term_cur _ _ _ Eo) as Ht.
    set (s2 := set_votes s1 (sins from (votes s1))) in *.
    assert (reaches n x1 m s2 []) as R2.
    { eexists. split.
      - apply effs_one. eapply (EVote n x1 m s2 from); subst s2; rewrite ?Hs1; cbn; auto.
        rewrite Ht. eapply upd_to_sent; eauto.
      - split; cbn; auto. rewrite app_nil_r; auto. }
    destruct (majority_of n <=? len (votes s2)) eqn:Emaj; inversion H; subst s' o; clear H; auto.
    change (@nil (N * rpc)) with (@nil (N * rpc) ++ []).
    eapply reaches_then; [exact R2|]. intros x2 U2. pose proof (upd_to_here _ _ _ _ _ U2) as Hs2.
    eexists. split.
    + apply effs_one. eapply (EWin n x2 m (become_leader s2 (others_of n m))); rewrite ?Hs2;
        first [apply N.leb_le; exact Emaj | cbn; auto].
    + split; cbn; auto. rewrite app_nil_r; auto.
  - inversion H; subst; apply reaches_refl'; auto.
  - (* AE, current *)
    destruct (is_leader s1); [discriminate|].
    match type of H with (if negb ?c then _ else _) = _ => destruct c end; cbn [negb] in H.
    + destruct (append_entries (log (set_follow s1 leader)) (commit (set_follow s1 leader)) es) as [lg|];
        [|discriminate].
      inversion H; subst s' o; clear H.
      apply r_quiet; auto; rewrite ?Hs1;
        try (match goal with |- context [if ?c then _ else _] => destruct c end; cbn; auto; fail).
      * match goal with |- context [if ?c then _ else _] => destruct c end; cbn;
          destruct (rrole s1); auto.
      * match goal with |- context [if ?c then _ else _] => destruct c end; apply no_rvr_aer.
    + inversion H; subst s' o; clear H.
      apply r_quiet; auto; rewrite ?Hs1; cbn; auto; [destruct (rrole s1); auto|apply no_rvr_aer].
  - (* AE, stale *)
    inversion H; subst s' o; clear H.
    apply r_quiet; auto; rewrite ?Hs1; auto. apply no_rvr_aer.
  - (* AER, current *)
    destruct (is_leader s1); cbn [negb] in H; [|inversion H; subst; apply reaches_refl'; auto].
    destruct succ.
    + inversion H; subst s' o; clear H. apply r_quiet; auto; rewrite ?Hs1; cbn; auto. apply no_rvr_nil.
    + destruct (mget from (next_index s1)) as [nx|]; [|inversion H; subst; apply reaches_refl'; auto].
      destruct (nx =? 0); [discriminate|].
      inversion H; subst s' o; clear H. apply r_quiet; auto; rewrite ?Hs1; cbn; auto. apply no_rvr_nil.
  - inversion H; subst; apply reaches_refl'; auto.
Qed.

Lemma r_handle_msgs : forall n m ms x s' o, m < n ->
  (forall f r, In (f, r) ms -> In (f, m, r) (x_sent x)) ->
  handle_msgs (others_of n m) (majority_of n) (x_st x m) ms = Some (s', o) ->
  reaches n x m s' o.
Proof.
  induction ms as [|[from r] rest IH]; intros x s' o Hm Hin H; cbn [handle_msgs] in H.
  - inversion H; subst. apply reaches_refl.
  - destruct (handle_msg _ _ (x_st x m) from r) as [[s1 o1]|] eqn:E1; [|discriminate].
    destruct (handle_msgs _ _ s1 rest) as [[s2 o2]|] eqn:E2; [|discriminate].
    inversion H; subst s' o; clear H.
    eapply reaches_then.
    + eapply r_handle_msg; eauto. apply Hin; left; auto.
    + intros x1 U. apply IH; auto.
      * intros f r0 Hfr. eapply upd_to_sent; eauto. apply Hin; right; auto.
      * rewrite (upd_to_here _ _ _ _ _ U); auto.
Qed.

Lemma do_requests_quiet : forall reqs s s' red, do_requests s reqs = (s', red) ->
  term s' = term s /\ voted_for s' = voted_for s /\ votes s' = votes s /\ rrole s' = rrole s.
Proof.
  induction reqs as [|a r IH]; intros s s' red H; cbn [do_requests] in H.
  - inversion H; subst; auto.
  - destruct (is_leader s).
    + apply IH in H. cbn in H. exact H.
    + destruct (do_requests s r) as [s2 red2] eqn:E. inversion H; subst. eapply IH; eauto.
Qed.

Lemma heartbeat_no_rvr : forall me s fs o, heartbeat_msgs me s fs = Some o -> no_rvr o.
Proof.
  induction fs as [|f r IH]; intros o H; cbn [heartbeat_msgs] in H.
  - inversion H; subst; apply no_rvr_nil.
  - destruct (_ =? 0); [discriminate|].
    match type of H with match ?c with _ => _ end = _ => destruct c end; [|discriminate].
    destruct (_ <? _); [discriminate|].
    destruct (heartbeat_msgs me s r) as [o'|]; [|discriminate].
    inversion H; subst. intros to t [Hx|Hx]; [inversion Hx|]. eapply IH; eauto.
Qed.

Lemma rv_no_rvr : forall t lli llt others, no_rvr (map (fun x => (x, RV t lli llt)) others).
Proof.
  intros t lli llt others to t' H. apply in_map_iff in H. destruct H as (y & Hy & _). inversion Hy.
Qed.

Lemma r_election : forall n x m fired s' o, m < n ->
  do_election m (others_of n m) (majority_of n) (x_st x m) fired = (s', o) -> reaches n x m s' o.
Proof.
  intros n x m fired s' o Hm; unfold do_election.
  destruct (fired && negb (is_leader (x_st x m))); [|intro H; inversion H; subst; apply reaches_refl].
  destruct (hb_seen (x_st x m)).
  - intro H; inversion H; subst. apply r_quiet; cbn; auto. apply no_rvr_nil.
  - set (sc := mkS (term (x_st x m) + 1) (Some m) Candidate [m] false None (log (x_st x m))
                   (commit (x_st x m)) (emitted (x_st x m)) (next_index (x_st x m)) (match_index (x_st x m))).
    assert (reaches n x m sc []) as Rc.
    { eexists. split; [apply effs_one; eapply (ECand n x m sc); subst sc; cbn; auto|].
      split; cbn; auto. rewrite app_nil_r; auto. }
    destruct (majority_of n <=? 1) eqn:Emaj.
    + intro H; inversion H; subst s' o; clear H.
      change (@nil (N * rpc)) with (@nil (N * rpc) ++ []).
      eapply reaches_then; [exact Rc|]. intros x1 U. pose proof (upd_to_here _ _ _ _ _ U) as Hs.
      eexists. split.
      * apply effs_one. eapply (EWin n x1 m (become_leader sc (others_of n m))); rewrite ?Hs; cbn; auto.
        unfold len; cbn. lia.
      * split; cbn; auto. rewrite app_nil_r; auto.
    + destruct (last_log_position sc) as [llt lli] eqn:El. intro H; inversion H; subst s' o; clear H.
      match goal with |- reaches _ _ _ _ ?o => change o with ([] ++ o) end.
      eapply reaches_then; [exact Rc|]. intros x1 U. pose proof (upd_to_here _ _ _ _ _ U) as Hs.
      apply r_quiet; auto; rewrite ?Hs; auto. apply rv_no_rvr.
Qed.

Lemma sort_insert_In : forall a x l, In a (sort_insert x l) -> a = x \/ In a l.
Proof.
  induction l as [|y r IH]; cbn; [intros [H|[]]; auto|].
  destruct (lex_lt _ _); cbn; intros [H|H]; auto.
  destruct (IH H); auto.
Qed.

Lemma sort_msgs_In : forall a l, In a (sort_msgs l) -> In a l.
Proof.
  induction l as [|x r IH]; cbn; auto. intro H. apply sort_insert_In in H. destruct H; auto.
Qed.

Lemma commit_emit_quiet : forall others maj s s' cm,
  do_emit (do_commit others maj s) = Some (s', cm) ->
  term s' = term s /\ voted_for s' = voted_for s /\ votes s' = votes s /\ rrole s' = rrole s.
Proof.
  intros others maj s s' cm; unfold do_emit.
  destruct (_ <? _); [destruct (_ <=? _); [|discriminate]|];
    intro H; inversion H; subst; unfold do_commit; destruct (is_leader s); cbn; auto.
Qed.

Theorem r_raft_step : forall n x m el hb reqs msgs s' o, m < n ->
  (forall f r, In (f, r) msgs -> In (f, m, r) (x_sent x)) ->
  raft_step (x_st x m) (mk_input n m el hb reqs msgs) = Some (s', o) ->
  reaches n x m s' (o_outbound o).
Proof.
  intros n x m el hb reqs msgs s' o Hm Hin; unfold raft_step, mk_input;
    cbn [i_me i_others i_cluster_size i_el i_hb i_reqs i_msgs].
  destruct (handle_msgs _ _ (x_st x m) _) as [[s1 oa]|] eqn:Ea; [|discriminate].
  destruct (do_requests s1 _) as [s2 red] eqn:Eb.
  destruct (do_election _ _ _ s2 _) as [s3 oc] eqn:Ec.
  destruct (do_heartbeat _ _ _ _) as [oe|] eqn:Ee; [|discriminate].
  destruct (do_emit _) as [[s5 cm]|] eqn:Ef; [|discriminate].
  intro H; inversion H; subst s' o; clear H. cbn [o_outbound].
  eapply reaches_then.
  { eapply r_handle_msgs; [exact Hm| |exact Ea]. intros f r Hfr. apply Hin. apply sort_msgs_In; auto. }
  intros x1 U1. pose proof (upd_to_here _ _ _ _ _ U1) as H1.
  (* requests *)
  assert (reaches n x1 m s2 []) as R2.
  { destruct (do_requests_quiet _ _ _ _ Eb) as (Q1 & Q2 & Q3 & Q4).
    apply r_quiet; auto; rewrite ?H1; auto. apply no_rvr_nil. }
  match goal with |- reaches _ _ _ _ ?o => change o with ([] ++ o) end.
  eapply reaches_then; [exact R2|]. intros x2 U2. pose proof (upd_to_here _ _ _ _ _ U2) as H2.
  eapply reaches_then.
  { eapply r_election; eauto. rewrite H2. eauto. }
  intros x3 U3. pose proof (upd_to_here _ _ _ _ _ U3) as H3.
  (* commit, heartbeat, emit: one quiet effect from s3 to s5 with the heartbeat output *)
  destruct (commit_emit_quiet _ _ _ _ _ Ef) as (Q1 & Q2 & Q3 & Q4).
  apply r_quiet; auto; rewrite ?H3; auto.
  - unfold do_heartbeat in Ee. destruct (_ && _) in Ee.
    + eapply heartbeat_no_rvr; eauto.
    + inversion Ee; subst. apply no_rvr_nil.
Qed.

(* --- simulation of the macro system by effects *)
Definition sim (g : gstate) (x : xstate) : Prop :=
  (forall k, g_st g k = x_st x k) /\ g_sent g = x_sent x.

Lemma gstep_sim : forall n g g' x, gstep n g g' -> sim g x -> exists x', effs n x x' /\ sim g' x'.
Proof.
  intros n g g' x H [S1 S2]. destruct H as [m el hb reqs msgs s' o Hm Ha Hin Hs | | ].
  - rewrite S1 in Hs. destruct (r_raft_step n x m el hb reqs msgs s' o Hm) as (x' & E & U1 & U2); auto.
    { intros f r Hfr. rewrite <- S2. auto. }
    exists x'. split; auto. split; cbn.
    + intro k. rewrite U1. unfold updf. destruct (k =? m); auto.
    + rewrite U2, S2; auto.
  - exists x. split; [apply effs_refl|]. split; auto.
  - exists x. split; [apply effs_refl|]. split; auto.
Qed.

Lemma gsteps_sim : forall n g g' x, gsteps n g g' -> sim g x -> exists x', effs n x x' /\ sim g' x'.
Proof.
  induction 1; intro S.
  - exists x. split; [apply effs_refl|auto].
  - destruct (IHgsteps S) as (x1 & E1 & S1).
    destruct (gstep_sim _ _ _ _ H0 S1) as (x2 & E2 & S2').
    exists x2. split; auto. eapply effs_trans; eauto.
Qed.

Lemma sim_init : sim g_init x_init.
Proof. split; auto. Qed.

Theorem election_safety : forall n, election_safety_stmt n.
Proof.
  intros n g1 g2 R1 R12 a b t Ha Hb [La Ta] [Lb Tb].
  destruct (gsteps_sim _ _ _ _ R1 sim_init) as (x1 & E1 & S1).
  destruct (gsteps_sim _ _ _ _ R12 S1) as (x2 & E2 & S2).
  pose proof (effs_Inv _ _ _ E1 (Inv_init n)) as I1.
  pose proof (effs_Inv _ _ _ E2 I1) as I2.
  destruct S1 as [S1 _], S2 as [S2 _]. rewrite S1 in La, Ta. rewrite S2 in Lb, Tb.
  pose proof (iF _ _ I1 _ La) as F1. pose proof (iF _ _ I2 _ Lb) as F2.
  apply (effs_elected_incl _ _ _ E2) in F1. rewrite Ta in F1. rewrite Tb in F2.
  eapply Inv_election_safety; eauto.
Qed.

(* corollary, state form: in any reachable state two leaders of the same term coincide *)
Corollary election_safety_state : forall n g, reachable n g ->
  forall a b, a < n -> b < n -> rrole (g_st g a) = Leader -> rrole (g_st g b) = Leader ->
  term (g_st g a) = term (g_st g b) -> a = b.
Proof.
  intros n g R a b Ha Hb La Lb T.
  eapply (election_safety n g g R (gs_refl n g) a b (term (g_st g a))); auto; split; auto.
Qed.
