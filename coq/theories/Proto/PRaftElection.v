(* E10 Proto -- Raft: Election Safety (at most one leader per term) for every execution of the
   network over the transcribed raft_step, by quorum intersection.

   Method: a ghost-instrumented system of small "effects" (term bump, vote grant, vote received,
   election won, new candidacy, quiet change); an invariant proved for every effect; every
   raft_step is shown to be a sequence of effects (refinement), so the invariant holds in every
   reachable state of the real (macro) system.  Ghost state: the votes ever cast and the
   (term, member) pairs ever elected. *)
From Coq Require Import Lia ZifyBool ZifyN.
From HV Require Import Proto.RaftNet Proto.PRaftLocal.

Arguments N.add : simpl never.
Arguments N.sub : simpl never.
Arguments N.div : simpl never.
Arguments N.ltb : simpl never.
Arguments N.leb : simpl never.
Arguments N.eqb : simpl never.

Record xstate := mkX {
  x_st : N -> rstate;
  x_sent : list (N * N * rpc);
  x_cast : list (N * N * N);          (* (term, voter, candidate) *)
  x_elected : list (N * N) }.         (* (term, member) *)

Definition x_init : xstate := mkX (fun _ => init_state) [] [] [].

Definition no_rvr (o : list (N * rpc)) : Prop := forall to t, ~ In (to, RVR t) o.

Inductive eff (n : N) (x : xstate) : xstate -> Prop :=
| EBump : forall m s', m < n ->
    term (x_st x m) < term s' -> voted_for s' = None -> rrole s' = Follower ->
    eff n x (mkX (updf (x_st x) m s') (x_sent x) (x_cast x) (x_elected x))
| EGrant : forall m s' c, m < n ->
    term s' = term (x_st x m) -> rrole s' = rrole (x_st x m) -> votes s' = votes (x_st x m) ->
    (voted_for (x_st x m) = None \/ voted_for (x_st x m) = Some c) -> voted_for s' = Some c ->
    eff n x (mkX (updf (x_st x) m s') (x_sent x ++ tag_out m [(c, RVR (term (x_st x m)))])
                 (x_cast x ++ [(term (x_st x m), m, c)]) (x_elected x))
| EQuiet : forall m s' o, m < n ->
    term s' = term (x_st x m) -> voted_for s' = voted_for (x_st x m) -> votes s' = votes (x_st x m) ->
    (rrole s' = rrole (x_st x m) \/ rrole s' = Follower) -> no_rvr o ->
    eff n x (mkX (updf (x_st x) m s') (x_sent x ++ tag_out m o) (x_cast x) (x_elected x))
| EVote : forall m s' v, m < n ->
    rrole (x_st x m) = Candidate -> In (v, m, RVR (term (x_st x m))) (x_sent x) ->
    term s' = term (x_st x m) -> voted_for s' = voted_for (x_st x m) ->
    votes s' = sins v (votes (x_st x m)) -> rrole s' = Candidate ->
    eff n x (mkX (updf (x_st x) m s') (x_sent x) (x_cast x) (x_elected x))
| EWin : forall m s', m < n ->
    rrole (x_st x m) = Candidate ->
    term s' = term (x_st x m) -> voted_for s' = voted_for (x_st x m) -> votes s' = votes (x_st x m) ->
    rrole s' = Leader -> majority_of n <= len (votes (x_st x m)) ->
    eff n x (mkX (updf (x_st x) m s') (x_sent x) (x_cast x) (x_elected x ++ [(term (x_st x m), m)]))
| ECand : forall m s', m < n ->
    term s' = term (x_st x m) + 1 -> voted_for s' = Some m -> votes s' = [m] -> rrole s' = Candidate ->
    eff n x (mkX (updf (x_st x) m s') (x_sent x) (x_cast x ++ [(term s', m, m)]) (x_elected x)).

Inductive effs (n : N) : xstate -> xstate -> Prop :=
| effs_refl : forall x, effs n x x
| effs_step : forall x x' x'', effs n x x' -> eff n x' x'' -> effs n x x''.

Lemma effs_trans : forall n a b c, effs n a b -> effs n b c -> effs n a c.
Proof.
  intros n a b c H1 H2; induction H2; [assumption|].
  eapply effs_step; [apply IHeffs; assumption|eassumption].
Qed.

Lemma effs_one : forall n a b, eff n a b -> effs n a b.
Proof. intros; eapply effs_step; [apply effs_refl|auto]. Qed.

Record Inv (n : N) (x : xstate) : Prop := mkInv {
  iA : forall t v c, In (t, v, c) (x_cast x) ->
         v < n /\ t <= term (x_st x v) /\ (t = term (x_st x v) -> voted_for (x_st x v) = Some c);
  iB : forall t v c c', In (t, v, c) (x_cast x) -> In (t, v, c') (x_cast x) -> c = c';
  iC : forall v c t, In (v, c, RVR t) (x_sent x) -> In (t, v, c) (x_cast x);
  iD : forall c, rrole (x_st x c) <> Follower ->
         NoDup (votes (x_st x c)) /\
         forall v, In v (votes (x_st x c)) -> In (term (x_st x c), v, c) (x_cast x);
  iE : forall t c, In (t, c) (x_elected x) ->
         exists Q, NoDup Q /\ majority_of n <= len Q /\ forall v, In v Q -> In (t, v, c) (x_cast x);
  iF : forall c, rrole (x_st x c) = Leader -> In (term (x_st x c), c) (x_elected x) }.

Lemma Inv_init : forall n, Inv n x_init.
Proof.
  intro n; constructor; cbn; intros; try contradiction; try discriminate.
Qed.

(* --- sets *)
Lemma memN_In : forall x l, memN x l = true <-> In x l.
Proof.
  induction l as [|y r IH]; cbn; [split; [discriminate|tauto]|].
  rewrite orb_true_iff, IH, N.eqb_eq. split; intros [H|H]; auto.
Qed.

Lemma ins_sorted_In : forall x l u, In u (ins_sorted x l) <-> u = x \/ In u l.
Proof.
  induction l as [|y r IH]; intro u; cbn.
  - intuition (subst; auto).
  - destruct (x <? y); cbn.
    + intuition (subst; auto).
    + rewrite IH. intuition (subst; auto).
Qed.

Lemma sins_In : forall x l u, In u (sins x l) <-> u = x \/ In u l.
Proof.
  intros x l u; unfold sins. destruct (memN x l) eqn:E.
  - apply memN_In in E. split; auto. intros [->|H]; auto.
  - apply ins_sorted_In.
Qed.

Lemma ins_sorted_NoDup : forall x l, ~ In x l -> NoDup l -> NoDup (ins_sorted x l).
Proof.
  induction l as [|y r IH]; intros Hn Hd; cbn; [constructor; auto; constructor|].
  destruct (x <? y); [constructor; auto|].
  inversion Hd; subst. constructor.
  - rewrite ins_sorted_In. intros [->|H]; [apply Hn; left; auto|contradiction].
  - apply IH; auto. intro; apply Hn; right; auto.
Qed.

Lemma sins_NoDup : forall x l, NoDup l -> NoDup (sins x l).
Proof.
  intros x l H; unfold sins. destruct (memN x l) eqn:E; auto.
  apply ins_sorted_NoDup; auto. rewrite <- memN_In. congruence.
Qed.

(* --- quorum intersection *)
Lemma members_In : forall n v, In v (members n) <-> v < n.
Proof.
  intros n v; unfold members. rewrite in_map_iff. split.
  - intros (k & <- & Hk). apply in_seq in Hk. lia.
  - intro H. exists (N.to_nat v). split; [lia|]. apply in_seq. lia.
Qed.

Lemma members_length : forall n, length (members n) = N.to_nat n.
Proof. intro n; unfold members. rewrite map_length, seq_length; auto. Qed.

Lemma disjoint_or_common : forall Q1 Q2 : list N,
  (forall v, In v Q1 -> ~ In v Q2) \/ exists v, In v Q1 /\ In v Q2.
Proof.
  induction Q1 as [|a r IH]; intro Q2; [left; intros v []|].
  destruct (in_dec N.eq_dec a Q2) as [Hin|Hn]; [right; exists a; split; [left|]; auto|].
  destruct (IH Q2) as [Hd|(v & H1 & H2)].
  - left. intros v [->|H]; auto.
  - right. exists v; split; [right|]; auto.
Qed.

Lemma NoDup_app_disjoint : forall (Q1 Q2 : list N),
  NoDup Q1 -> NoDup Q2 -> (forall v, In v Q1 -> ~ In v Q2) -> NoDup (Q1 ++ Q2).
Proof.
  induction Q1 as [|a r IH]; intros Q2 H1 H2 Hd; cbn; auto.
  inversion H1; subst. constructor.
  - rewrite in_app_iff. intros [H|H]; [contradiction|]. apply (Hd a); [left|]; auto.
  - apply IH; auto. intros v Hv. apply Hd; right; auto.
Qed.

Lemma majority_twice : forall n a b, majority_of n <= a -> majority_of n <= b -> n < a + b.
Proof.
  intros n a b; unfold majority_of. intros Ha Hb.
  pose proof (N.div_mod n 2 ltac:(lia)) as Hd.
  pose proof (N.mod_lt n 2 ltac:(lia)) as Hm. lia.
Qed.

Lemma quorum_intersect : forall n Q1 Q2,
  NoDup Q1 -> NoDup Q2 -> (forall v, In v Q1 -> v < n) -> (forall v, In v Q2 -> v < n) ->
  majority_of n <= len Q1 -> majority_of n <= len Q2 -> exists v, In v Q1 /\ In v Q2.
Proof.
  intros n Q1 Q2 D1 D2 B1 B2 M1 M2.
  destruct (disjoint_or_common Q1 Q2) as [Hd|H]; auto. exfalso.
  assert (NoDup (Q1 ++ Q2)) as Hnd by (apply NoDup_app_disjoint; auto).
  assert (incl (Q1 ++ Q2) (members n)) as Hi.
  { intros v Hv. apply members_In. apply in_app_or in Hv. destruct Hv; auto. }
  pose proof (NoDup_incl_length Hnd Hi) as HL.
  rewrite app_length, members_length in HL.
  pose proof (majority_twice n _ _ M1 M2). unfold len in *. lia.
Qed.

Theorem Inv_election_safety : forall n x, Inv n x ->
  forall t c c', In (t, c) (x_elected x) -> In (t, c') (x_elected x) -> c = c'.
Proof.
  intros n x I t c c' H1 H2.
  destruct (iE _ _ I _ _ H1) as (Q1 & D1 & M1 & C1).
  destruct (iE _ _ I _ _ H2) as (Q2 & D2 & M2 & C2).
  destruct (quorum_intersect n Q1 Q2) as (v & V1 & V2); auto.
  - intros v Hv. apply (iA _ _ I _ _ _ (C1 _ Hv)).
  - intros v Hv. apply (iA _ _ I _ _ _ (C2 _ Hv)).
  - eapply (iB _ _ I); eauto.
Qed.

(* --- every effect preserves the invariant *)
Ltac updf_cases k m :=
  destruct (N.eq_dec k m) as [->|?]; [rewrite ?updf_same in *|rewrite ?updf_other in * by auto].

Lemma eff_Inv : forall n x x', eff n x x' -> Inv n x -> Inv n x'.
Proof.
  intros n x x' He I. destruct I as [A B C D E F].
  destruct He as [m s' Hm Ht Hv Hr
                 |m s' c0 Hm Ht Hr Hvs Hvf Hvf'
                 |m s' o Hm Ht Hvf Hvs Hr Ho
                 |m s' v0 Hm Hr Hin Ht Hvf Hvs Hr'
                 |m s' Hm Hr Ht Hvf Hvs Hr' Hmaj
                 |m s' Hm Ht Hvf Hvs Hr]; constructor; cbn [x_st x_sent x_cast x_elected].
  (* EBump *)
  - intros t v c H. destruct (A _ _ _ H) as (A1 & A2 & A3). split; auto.
    updf_cases v m; auto. split; [lia|intro; lia].
  - exact B.
  - exact C.
  - intros c H. updf_cases c m; auto. congruence.
  - exact E.
  - intros c H. updf_cases c m; auto. congruence.
  (* EGrant *)
  - intros t v c H. apply in_app_or in H. destruct H as [H|[H|[]]].
    + destruct (A _ _ _ H) as (A1 & A2 & A3). split; auto.
      updf_cases v m; auto. split; [lia|]. intro Et. rewrite Ht in Et. specialize (A3 Et).
      destruct Hvf as [Hn|Hs]; congruence.
    + inversion H; subst. rewrite updf_same. split; auto. split; [lia|auto].
  - intros t v c c' H1 H2. apply in_app_or in H1. apply in_app_or in H2.
    destruct H1 as [H1|[H1|[]]], H2 as [H2|[H2|[]]].
    + eapply B; eauto.
    + inversion H2; subst. destruct (A _ _ _ H1) as (_ & _ & A3). specialize (A3 eq_refl).
      destruct Hvf; congruence.
    + inversion H1; subst. destruct (A _ _ _ H2) as (_ & _ & A3). specialize (A3 eq_refl).
      destruct Hvf; congruence.
    + congruence.
  - intros v c t H. apply in_or_app. apply in_app_or in H. destruct H as [H|[H|[]]]; auto.
    right. inversion H; subst. left; auto.
  - intros c H. updf_cases c m.
    + rewrite Hr in H. destruct (D _ H) as (D1 & D2). rewrite Hvs, Ht. split; auto.
      intros v Hv. apply in_or_app; left; auto.
    + destruct (D _ H) as (D1 & D2). split; auto. intros v Hv. apply in_or_app; left; auto.
  - intros t c H. destruct (E _ _ H) as (Q & Q1 & Q2 & Q3). exists Q. repeat split; auto.
    intros v Hv. apply in_or_app; left; auto.
  - intros c H. updf_cases c m; auto. rewrite Ht. apply F. congruence.
  (* EQuiet *)
  - intros t v c H. destruct (A _ _ _ H) as (A1 & A2 & A3). split; auto.
    updf_cases v m; auto. rewrite Ht, Hvf. auto.
  - exact B.
  - intros v c t H. apply in_app_or in H. destruct H as [H|H]; auto.
    unfold tag_out in H. apply in_map_iff in H. destruct H as ([to r] & Heq & Hin). cbn in Heq.
    inversion Heq; subst. exfalso. eapply Ho; eauto.
  - intros c H. updf_cases c m; auto. rewrite Hvs, Ht. apply D. destruct Hr as [Hr|Hr]; congruence.
  - exact E.
  - intros c H. updf_cases c m; auto. rewrite Ht. apply F. destruct Hr as [Hr|Hr]; congruence.
  (* EVote *)
  - intros t v c H. destruct (A _ _ _ H) as (A1 & A2 & A3). split; auto.
    updf_cases v m; auto. rewrite Ht, Hvf. auto.
  - exact B.
  - exact C.
  - intros c H. updf_cases c m; auto.
    assert (rrole (x_st x m) <> Follower) as Hnf by congruence.
    destruct (D _ Hnf) as (D1 & D2). rewrite Hvs, Ht. split; [apply sins_NoDup; auto|].
    intros v Hv. apply sins_In in Hv. destruct Hv as [->|Hv]; auto.
  - exact E.
  - intros c H. updf_cases c m; auto. congruence.
  (* EWin *)
  - intros t v c H. destruct (A _ _ _ H) as (A1 & A2 & A3). split; auto.
    updf_cases v m; auto. rewrite Ht, Hvf. auto.
  - exact B.
  - exact C.
  - intros c H. updf_cases c m; auto. rewrite Hvs, Ht. apply D. congruence.
  - intros t c H. apply in_app_or in H. destruct H as [H|[H|[]]]; auto.
    inversion H; subst. assert (rrole (x_st x c) <> Follower) as Hnf by congruence.
    destruct (D _ Hnf) as (D1 & D2). exists (votes (x_st x c)). auto.
  - intros c H. apply in_or_app. updf_cases c m.
    + right. left. congruence.
    + left; auto.
  (* ECand *)
  - intros t v c H. apply in_app_or in H. destruct H as [H|[H|[]]].
    + destruct (A _ _ _ H) as (A1 & A2 & A3). split; auto.
      updf_cases v m; auto. split; [lia|intro; lia].
    + inversion H; subst. rewrite updf_same. auto with arith. split; auto. split; [lia|auto].
  - intros t v c c' H1 H2. apply in_app_or in H1. apply in_app_or in H2.
    destruct H1 as [H1|[H1|[]]], H2 as [H2|[H2|[]]].
    + eapply B; eauto.
    + inversion H2; subst. destruct (A _ _ _ H1) as (_ & A2 & _). lia.
    + inversion H1; subst. destruct (A _ _ _ H2) as (_ & A2 & _). lia.
    + congruence.
  - intros v c t H. apply in_or_app; left; auto.
  - intros c H. updf_cases c m.
    + rewrite Hvs. split; [constructor; [intros []|constructor]|].
      intros v [<-|[]]. apply in_or_app; right; left; auto.
    + destruct (D _ H) as (D1 & D2). split; auto. intros v Hv. apply in_or_app; left; auto.
  - intros t c H. destruct (E _ _ H) as (Q & Q1 & Q2 & Q3). exists Q. repeat split; auto.
    intros v Hv. apply in_or_app; left; auto.
  - intros c H. updf_cases c m; auto. congruence.
Qed.

Lemma effs_Inv : forall n x x', effs n x x' -> Inv n x -> Inv n x'.
Proof. induction 1; auto. intro; eapply eff_Inv; eauto. Qed.

Lemma eff_elected_incl : forall n x x', eff n x x' -> incl (x_elected x) (x_elected x').
Proof. intros n x x' H; destruct H; cbn; try apply incl_refl. apply incl_appl, incl_refl. Qed.

Lemma effs_elected_incl : forall n x x', effs n x x' -> incl (x_elected x) (x_elected x').
Proof.
  induction 1; [apply incl_refl|]. eapply incl_tran; [exact IHeffs|eapply eff_elected_incl; eauto].
Qed.
