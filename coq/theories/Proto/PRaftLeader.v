(* E10 Proto -- Raft: Leader Append-Only.  While a member stays leader of one term its log only
   grows by appending (it never overwrites or deletes its entries), in every execution. *)
From Coq Require Import Lia ZifyBool ZifyN.
From HV Require Import Proto.RaftNet Proto.PRaftLocal.

Arguments N.add : simpl never.
Arguments N.sub : simpl never.
Arguments N.div : simpl never.
Arguments N.ltb : simpl never.
Arguments N.leb : simpl never.
Arguments N.eqb : simpl never.

Definition ext_of (l l' : list entry) : Prop := exists e, l' = l ++ e.

Definition lmono (s s' : rstate) : Prop :=
  mono s s' /\
  (term s = term s' -> rrole s = Leader -> rrole s' = Leader /\ ext_of (log s) (log s')).

Lemma ext_refl : forall l, ext_of l l.
Proof. intro l; exists []; rewrite app_nil_r; auto. Qed.

Lemma ext_trans : forall a b c, ext_of a b -> ext_of b c -> ext_of a c.
Proof. intros a b c [e1 ->] [e2 ->]. exists (e1 ++ e2). rewrite app_assoc; auto. Qed.

Lemma lmono_refl : forall s, lmono s s.
Proof. intro s; split; [apply mono_refl|]. intros _ H; split; auto. apply ext_refl. Qed.

Lemma lmono_trans : forall a b c, lmono a b -> lmono b c -> lmono a c.
Proof.
  intros a b c [M1 L1] [M2 L2]. split; [eapply mono_trans; eauto|].
  intros T R. destruct M1 as (T1 & _), M2 as (T2 & _).
  destruct L1 as [R1 E1]; [lia|auto|]. destruct L2 as [R2 E2]; [lia|auto|].
  split; auto. eapply ext_trans; eauto.
Qed.

(* a change that keeps the term, keeps a leader a leader and keeps the log *)
Lemma lmono_keep : forall s s', mono s s' ->
  (rrole s = Leader -> rrole s' = Leader) -> ext_of (log s) (log s') -> lmono s s'.
Proof. intros s s' M R E; split; auto. Qed.

Lemma lmono_bump : forall s s', mono s s' -> term s < term s' -> lmono s s'.
Proof. intros s s' M T; split; auto. intros; lia. Qed.

Lemma observe_term_lmono : forall s t s' b, observe_term s t = (s', b) -> lmono s s'.
Proof.
  intros s t s' b H. pose proof (observe_term_mono _ _ _ _ H) as M. revert H; unfold observe_term.
  destruct (term s <? t) eqn:E; intro H; inversion H; subst; clear H.
  - apply lmono_bump; auto. cbn; lia.
  - apply lmono_refl.
Qed.

Lemma handle_msg_lmono : forall others maj s from m s' o,
  handle_msg others maj s from m = Some (s', o) -> lmono s s'.
Proof.
  intros others maj s from m s' o H. pose proof (handle_msg_mono _ _ _ _ _ _ _ H) as M.
  destruct m as [t lli llt | t | t leader pli plt es lc | t succ mi]; cbn [handle_msg] in H;
    destruct (observe_term s t) as [s1 cur] eqn:Eo; pose proof (observe_term_lmono _ _ _ _ Eo) as L1;
    destruct cur; cbn [negb] in H; try (inversion H; subst; exact L1).
  - (* RV *)
    destruct (pair_ge (llt, lli) (last_log_position s1)); cbn [andb] in H; [|inversion H; subst; exact L1].
    destruct (match voted_for s1 with None => true | Some v => v =? from end) eqn:G;
      inversion H; subst; clear H; [|exact L1].
    eapply lmono_trans; [exact L1|]. apply lmono_keep; cbn; auto; [|apply ext_refl].
    unfold mono; cbn; repeat split; try lia. intros _ c Hc. rewrite Hc in G. f_equal. lia.
  - (* RVR *)
    destruct (rrole s1) eqn:Er; try (inversion H; subst; exact L1).
    match type of H with (if ?c then _ else _) = _ => destruct c end; inversion H; subst; clear H;
      (eapply lmono_trans; [exact L1|]); split;
      try (apply mono_same; cbn; auto; lia); intros _ R; congruence.
  - (* AE current: a leader of this term panics, so s1 is not a leader *)
    destruct (is_leader s1) eqn:Il; [discriminate|].
    eapply lmono_trans; [exact L1|]. split.
    + assert (mono s1 s') as M1'; [|exact M1'].
      eapply handle_msg_mono with (m := AE (term s1) leader pli plt es lc) (from := from) (others := others) (maj := maj).
      cbn [handle_msg]. unfold observe_term. destruct (term s1 <? term s1) eqn:E0; [lia|].
      rewrite N.eqb_refl. cbn [negb]. rewrite Il. exact H.
    + intros _ R. unfold is_leader in Il. rewrite R in Il. discriminate.
  - (* AER *)
    destruct (is_leader s1); cbn [negb] in H; [|inversion H; subst; exact L1].
    destruct succ.
    + inversion H; subst; clear H. eapply lmono_trans; [exact L1|].
      apply lmono_keep; cbn; auto; [apply mono_same; cbn; auto; lia|apply ext_refl].
    + destruct (mget from (next_index s1)) as [nx|]; [|inversion H; subst; exact L1].
      destruct (nx =? 0); [discriminate|].
      inversion H; subst; clear H. eapply lmono_trans; [exact L1|].
      apply lmono_keep; cbn; auto; [apply mono_same; cbn; auto; lia|apply ext_refl].
Qed.

Lemma handle_msgs_lmono : forall others maj ms s s' o,
  handle_msgs others maj s ms = Some (s', o) -> lmono s s'.
Proof.
  induction ms as [|[from m] r IH]; intros s s' o H; cbn [handle_msgs] in H.
  - inversion H; subst; apply lmono_refl.
  - destruct (handle_msg others maj s from m) as [[s1 o1]|] eqn:E1; [|discriminate].
    destruct (handle_msgs others maj s1 r) as [[s2 o2]|] eqn:E2; [|discriminate].
    inversion H; subst; clear H.
    eapply lmono_trans; [eapply handle_msg_lmono; eauto | eapply IH; eauto].
Qed.

Lemma do_requests_lmono : forall reqs s s' red, do_requests s reqs = (s', red) -> lmono s s'.
Proof.
  induction reqs as [|x r IH]; intros s s' red H; cbn [do_requests] in H.
  - inversion H; subst; apply lmono_refl.
  - destruct (is_leader s) eqn:L.
    + apply IH in H. eapply lmono_trans; [|exact H].
      apply lmono_keep; cbn; auto; [apply mono_same; cbn; auto; lia|]. eexists; reflexivity.
    + destruct (do_requests s r) as [s2 red2] eqn:E. inversion H; subst; clear H. eapply IH; eauto.
Qed.

Lemma do_election_lmono : forall me others maj s fired s' o,
  do_election me others maj s fired = (s', o) -> lmono s s'.
Proof.
  intros me others maj s fired s' o H. pose proof (do_election_mono _ _ _ _ _ _ _ H) as M.
  revert H; unfold do_election.
  destruct (fired && negb (is_leader s)); [|intro H; inversion H; subst; apply lmono_refl].
  destruct (hb_seen s).
  - intro H; inversion H; subst. apply lmono_keep; cbn; auto. apply ext_refl.
  - destruct (maj <=? 1).
    + intro H; inversion H; subst; clear H. apply lmono_bump; auto. cbn; lia.
    + match goal with |- context [last_log_position ?x] => destruct (last_log_position x) end.
      intro H; inversion H; subst; clear H. apply lmono_bump; auto. cbn; lia.
Qed.

Lemma do_commit_lmono : forall others maj s, lmono s (do_commit others maj s).
Proof.
  intros. apply lmono_keep; [apply do_commit_mono| |]; unfold do_commit; destruct (is_leader s); cbn; auto;
    apply ext_refl.
Qed.

Lemma do_emit_lmono : forall s s' c, do_emit s = Some (s', c) -> lmono s s'.
Proof.
  intros s s' c H. pose proof (do_emit_mono _ _ _ H) as M. revert H; unfold do_emit.
  destruct (emitted s <? commit s); [|intro H; inversion H; subst; apply lmono_refl].
  destruct (commit s <=? len (log s)); [|discriminate].
  intro H; inversion H; subst. apply lmono_keep; cbn; auto. apply ext_refl.
Qed.

Theorem raft_step_lmono : forall s i s' o, raft_step s i = Some (s', o) -> lmono s s'.
Proof.
  intros s i s' o; unfold raft_step.
  destruct (handle_msgs _ _ s _) as [[s1 oa]|] eqn:Ea; [|discriminate].
  destruct (do_requests s1 _) as [s2 red] eqn:Eb.
  destruct (do_election _ _ _ s2 _) as [s3 oc] eqn:Ec.
  destruct (do_heartbeat _ _ _ _) as [oe|]; [|discriminate].
  destruct (do_emit _) as [[s5 cm]|] eqn:Ef; [|discriminate].
  intro H; inversion H; subst; clear H.
  eapply lmono_trans; [eapply handle_msgs_lmono; eauto|].
  eapply lmono_trans; [eapply do_requests_lmono; eauto|].
  eapply lmono_trans; [eapply do_election_lmono; eauto|].
  eapply lmono_trans; [apply do_commit_lmono|].
  eapply do_emit_lmono; eauto.
Qed.

Lemma gstep_lmono : forall n g g', gstep n g g' -> forall m, lmono (g_st g m) (g_st g' m).
Proof.
  intros n g g' H m; destruct H; cbn [g_st]; try apply lmono_refl.
  destruct (N.eq_dec m m0) as [->|Hne].
  - rewrite updf_same. eapply raft_step_lmono; eauto.
  - rewrite updf_other by auto. apply lmono_refl.
Qed.

Theorem gsteps_lmono : forall n g g', gsteps n g g' -> forall m, lmono (g_st g m) (g_st g' m).
Proof.
  induction 1; intro m; [apply lmono_refl|].
  eapply lmono_trans; [apply IHgsteps|]. eapply gstep_lmono; eauto.
Qed.

Theorem leader_append_only : forall n g1 g2, gsteps n g1 g2 ->
  forall m t, leader_in (g_st g1 m) t -> term (g_st g2 m) = t ->
  rrole (g_st g2 m) = Leader /\ exists e, log (g_st g2 m) = log (g_st g1 m) ++ e.
Proof.
  intros n g1 g2 H m t [R T] T2. destruct (gsteps_lmono _ _ _ H m) as [_ L]. apply L; auto. lia.
Qed.
