(* E10 Proto -- Raft: list lemmas and the functional characterisation of the follower's append
   loop against the leader's log, used by the Log Matching proof. *)
From Coq Require Import Lia ZifyBool ZifyN Arith Compare_dec.
From HV Require Import Proto.RaftNet Proto.PRaftLocal Proto.PRaftWf.

Arguments N.add : simpl never.
Arguments N.sub : simpl never.
Arguments N.ltb : simpl never.
Arguments N.leb : simpl never.
Arguments N.eqb : simpl never.

Lemma firstn_app_le : forall A n (a b : list A), (n <= length a)%nat -> firstn n (a ++ b) = firstn n a.
Proof.
  intros A n a b H. rewrite firstn_app. replace (n - length a)%nat with 0%nat by lia. cbn. apply app_nil_r.
Qed.

Lemma firstn_firstn_le : forall A i k (l : list A), (i <= k)%nat -> firstn i (firstn k l) = firstn i l.
Proof. intros. rewrite firstn_firstn. f_equal. lia. Qed.

Lemma nth_error_firstn_some : forall A k (l : list A) i e,
  nth_error (firstn k l) i = Some e -> nth_error l i = Some e /\ (i < k)%nat.
Proof.
  induction k as [|k IH]; intros l i e H; [destruct i; discriminate|].
  destruct l as [|a l]; [destruct i; discriminate|]. destruct i as [|i]; cbn in *.
  - split; auto; lia.
  - destruct (IH l i e H). split; auto; lia.
Qed.

Lemma firstn_S_nth : forall A (l : list A) i e, nth_error l i = Some e -> firstn (S i) l = firstn i l ++ [e].
Proof.
  induction l as [|a l IH]; intros i e H; [destruct i; discriminate|].
  destruct i as [|i]; cbn in *; [inversion H; auto|]. f_equal. apply IH; auto.
Qed.

Lemma nth_error_lt : forall A (l : list A) i e, nth_error l i = Some e -> (i < length l)%nat.
Proof. intros A l i e H. apply nth_error_Some. congruence. Qed.

Lemma firstn_S_eq_len : forall A (X Y : list A) i e,
  firstn (S i) X = firstn (S i) Y -> nth_error X i = Some e -> (S i <= length Y)%nat.
Proof.
  intros A X Y i e H Hn. apply nth_error_lt in Hn.
  assert (length (firstn (S i) X) = length (firstn (S i) Y)) as L by (rewrite H; auto).
  rewrite !firstn_length in L. lia.
Qed.

Lemma wf_nth_from : forall l k i e, log_wf_from k l = true -> nth_error l i = Some e -> e_index e = k + N.of_nat i.
Proof.
  induction l as [|a l IH]; intros k i e W H; [destruct i; discriminate|].
  cbn in W. apply andb_prop in W. destruct W as [W1 W2]. destruct i as [|i]; cbn in H.
  - inversion H; subst. lia.
  - rewrite (IH (k + 1) i e W2 H). lia.
Qed.

Lemma wf_nth : forall l i e, log_wf l = true -> nth_error l i = Some e -> e_index e = N.of_nat i + 1.
Proof. intros l i e W H. rewrite (wf_nth_from l 1 i e W H). lia. Qed.

(* a slice: es are the entries of G from position p on *)
Lemma slice_cons : forall (G : list entry) p e r,
  e :: r = firstn (S (length r)) (skipn p G) ->
  nth_error G p = Some e /\ r = firstn (length r) (skipn (S p) G).
Proof.
  intros G p e r H. destruct (skipn p G) as [|g G'] eqn:E; [discriminate|]. cbn in H. injection H as Hg Hr. subst g.
  assert (nth_error G p = Some e) as Hn.
  { rewrite <- (firstn_skipn p G). assert (p <= length G)%nat as L.
    { destruct (le_lt_dec p (length G)); auto. rewrite skipn_all2 in E by lia. discriminate. }
    rewrite nth_error_app2; rewrite firstn_length_le by lia; auto. rewrite Nat.sub_diag, E. auto. }
  split; auto.
  assert (skipn (S p) G = G') as ->; [|exact Hr].
  clear - E. revert G E. induction p as [|p IH]; intros G E; destruct G as [|a G]; cbn in *; try discriminate.
  - inversion E; auto.
  - apply IH; auto.
Qed.

Section Shape.
  Variable gl : N -> list entry.

  Lemma append_prefix_case : forall r q (G : list entry) cmt lg',
    log_wf G = true -> (q <= length G)%nat ->
    r = firstn (length r) (skipn q G) ->
    append_entries (firstn q G) cmt r = Some lg' -> lg' = firstn (q + length r) G.
  Proof.
    induction r as [|e r IH]; intros q G cmt lg' W Hq Hs H; cbn [append_entries] in H.
    - inversion H; subst. cbn. f_equal. lia.
    - cbn [length] in Hs. destruct (slice_cons G q e r Hs) as [Hn Hr].
      pose proof (wf_nth G q e W Hn) as Hi. pose proof (nth_error_lt _ _ _ _ Hn) as Hl.
      assert (len (firstn q G) = N.of_nat q) as Lf by (apply firstn_len_le; unfold len; lia).
      destruct (e_index e <=? len (firstn q G)) eqn:Le; [lia|].
      rewrite <- (firstn_S_nth _ G q e Hn) in H.
      rewrite (IH (S q) G cmt lg' W ltac:(lia) Hr H). f_equal. cbn [length]. lia.
  Qed.

  Lemma append_entries_shape : forall es lg cmt p (G : list entry) lg',
    log_wf lg = true -> log_wf G = true ->
    (p <= length lg)%nat -> firstn p lg = firstn p G ->
    es = firstn (length es) (skipn p G) ->
    (forall i e, nth_error lg i = Some e -> firstn (S i) lg = firstn (S i) (gl (e_term e))) ->
    (forall i e, nth_error G i = Some e -> firstn (S i) G = firstn (S i) (gl (e_term e))) ->
    append_entries lg cmt es = Some lg' ->
    lg' = lg \/ lg' = firstn (p + length es) G.
  Proof.
    induction es as [|e r IH]; intros lg cmt p G lg' W WG Hp Hpre Hs L2 L2g H; cbn [append_entries] in H.
    - inversion H; auto.
    - cbn [length] in Hs. destruct (slice_cons G p e r Hs) as [Hn Hr].
      pose proof (wf_nth G p e WG Hn) as Hi. pose proof (nth_error_lt _ _ _ _ Hn) as Hl.
      destruct (e_index e <=? len lg) eqn:Le.
      + assert (p < length lg)%nat as Hpl by (unfold len in Le; lia).
        unfold log_at in H. destruct (e_index e =? 0) eqn:Z; [lia|].
        replace (N.to_nat (e_index e - 1)) with p in H by lia.
        destruct (nth_error lg p) as [mine|] eqn:Em; [|discriminate].
        destruct (e_term mine =? e_term e) eqn:Et.
        * assert (firstn (S p) lg = firstn (S p) G) as Hpre'.
          { rewrite (L2 p mine Em), (L2g p e Hn). f_equal. f_equal. lia. }
          destruct (IH lg cmt (S p) G lg' W WG ltac:(lia) Hpre' Hr L2 L2g H) as [E1|E1]; [left; exact E1|].
          right. rewrite E1. f_equal. cbn [length]. lia.
        * destruct (cmt <? e_index e); [|discriminate].
          assert (firstn p lg ++ [e] = firstn (S p) G) as E2.
          { rewrite Hpre. symmetry. apply firstn_S_nth; auto. }
          rewrite E2 in H. right.
          rewrite (append_prefix_case r (S p) G cmt lg' WG ltac:(lia) Hr H). f_equal. cbn [length]. lia.
      + assert (p = length lg) as Ep by (unfold len in Le; lia).
        assert (lg ++ [e] = firstn (S p) G) as E2.
        { rewrite (firstn_S_nth _ G p e Hn), <- Hpre, Ep, firstn_all. auto. }
        rewrite E2 in H. right.
        rewrite (append_prefix_case r (S p) G cmt lg' WG ltac:(lia) Hr H). f_equal. cbn [length]. lia.
  Qed.
End Shape.
