(* E8 Hydro engine -- definitions only (no proofs besides decidable equality).

   A core IR of top-level Hydro stream programs (the nodes of
   hydro_lang/src/compile/ir/mod.rs `HydroNode` that safe top-level APIs create), with
     (i)  a whole-stream DENOTATION  [den_s]/[den_a] on lists, and
     (ii) the EMITTED per-tick semantics [run_s]/[run_a]: for every node the DFIR
          operator(s) that `HydroNode::emit_core` produces for the production builder
          (ProdDfirBuilder: tick_state_lifetime = 'tick, cross_tick_state_lifetime =
          'static, singleton_intermediates = false), each DFIR operator being a small
          state machine over ticks ([stateful]) whose state survives a tick exactly
          when its persistence lifetime is 'static.
   Values are an untyped universe [val]; closures are Gallina functions on [val], so the
   theorems quantify over all closures.  The staged API's typing (ordering / boundedness
   markers) is enforced by rustc; here it appears as the predicate [wf_s]/[wf_a]. *)
From Coq Require Export String.
From Coq Require Export List Bool NArith Lia Permutation.
Export ListNotations.

Set Implicit Arguments.

(* ------------------------------------------------------------------ values *)

Inductive val : Type :=
| VN (n : N)            (* u32 / usize / bool (0,1) *)
| VP (a b : val)        (* tuples; lists as VP x (VP y VU); Some x = VP x VU *)
| VU.                   (* unit / empty list / None *)

Definition val_eq_dec : forall a b : val, {a = b} + {a <> b}.
Proof. decide equality. apply N.eq_dec. Defined.

Definition veqb (a b : val) : bool := if val_eq_dec a b then true else false.

Definition vfst (v : val) : val := match v with VP a _ => a | _ => v end.
Definition vsnd (v : val) : val := match v with VP _ b => b | _ => VU end.

(* Rust's derived Ord on u32 and tuples (lexicographic) *)
Fixpoint vcmp (a b : val) : comparison :=
  match a, b with
  | VU, VU => Eq
  | VU, _ => Lt
  | _, VU => Gt
  | VN x, VN y => N.compare x y
  | VN _, VP _ _ => Lt
  | VP _ _, VN _ => Gt
  | VP a1 a2, VP b1 b2 => match vcmp a1 b1 with Eq => vcmp a2 b2 | c => c end
  end.
Definition vleb (a b : val) : bool := match vcmp a b with Gt => false | _ => true end.
Definition vgtb (a b : val) : bool := match vcmp a b with Gt => true | _ => false end.
Definition vltb (a b : val) : bool := match vcmp a b with Lt => true | _ => false end.

(* stable insertion sort (`sort()` in DFIR is a stable sort of the tick's items) *)
Fixpoint vinsert (x : val) (l : list val) : list val :=
  match l with
  | [] => [x]
  | y :: r => if vleb x y then x :: l else y :: vinsert x r
  end.
Definition vsort (l : list val) : list val := fold_right vinsert [] l.

Fixpoint memb (x : val) (l : list val) : bool :=
  match l with [] => false | y :: r => if val_eq_dec x y then true else memb x r end.

Fixpoint remove1 (x : val) (l : list val) : list val :=
  match l with [] => [] | y :: r => if val_eq_dec x y then r else y :: remove1 x r end.

Fixpoint vcount (x : val) (l : list val) : nat :=
  match l with [] => 0 | y :: r => if val_eq_dec y x then S (vcount x r) else vcount x r end.

Fixpoint list_eqb (a b : list val) : bool :=
  match a, b with
  | [], [] => true
  | x :: r, y :: s => veqb x y && list_eqb r s
  | _, _ => false
  end.

(* executable multiset equality (sound and complete for Permutation, see PBase) *)
Definition perm_b (a b : list val) : bool :=
  Nat.eqb (List.length a) (List.length b) &&
  forallb (fun x => Nat.eqb (vcount x a) (vcount x b)) a.

(* collection equivalence: sequences for TotalOrder, multisets for NoOrder *)
Definition equiv (ordered : bool) (a b : list val) : Prop :=
  if ordered then a = b else Permutation a b.
Definition equiv_b (ordered : bool) (a b : list val) : bool :=
  if ordered then list_eqb a b else perm_b a b.

(* ------------------------------------------------------------------ whole-stream list functions *)

(* matches of one left item against a right list, for join / cross product *)
Definition jmatch (l r : val) : list val :=
  if val_eq_dec (vfst l) (vfst r) then [VP (vfst l) (VP (vsnd l) (vsnd r))] else [].
Definition cmatch (l r : val) : list val := [VP l r].

Definition pairs_with (m : val -> val -> list val) (a b : list val) : list val :=
  flat_map (fun l => flat_map (m l) b) a.
Definition join := pairs_with jmatch.
Definition cross := pairs_with cmatch.

(* first occurrences, in order *)
Fixpoint uniq_from (seen : list val) (l : list val) : list val :=
  match l with
  | [] => []
  | x :: r => if memb x seen then uniq_from seen r else x :: uniq_from (seen ++ [x]) r
  end.
Definition uniq := uniq_from [].

Fixpoint enum_from (n : N) (l : list val) : list val :=
  match l with [] => [] | x :: r => VP (VN n) x :: enum_from (N.succ n) r end.

Definition anti (neg pos : list val) : list val :=
  filter (fun p => negb (memb (vfst p) neg)) pos.

Definition diff (neg pos : list val) : list val := filter (fun p => negb (memb p neg)) pos.

Definition reduce_opt (f : val -> val -> val) (o : option val) (x : val) : option val :=
  match o with None => Some x | Some a => Some (f a x) end.
Definition reduce_list (f : val -> val -> val) (l : list val) : option val :=
  fold_left (reduce_opt f) l None.
Definition opt_list (o : option val) : list val := match o with None => [] | Some v => [v] end.

(* keyed aggregation state: association list in first-insertion order (the Rust HashMap's
   iteration order is abstracted: keyed outputs are compared as multisets) *)
Fixpoint kupd (g : option val -> val) (k : val) (m : list (val * val)) : list (val * val) :=
  match m with
  | [] => [(k, g None)]
  | (k', v) :: r => if val_eq_dec k k' then (k', g (Some v)) :: r else (k', v) :: kupd g k r
  end.
Fixpoint klookup (k : val) (m : list (val * val)) : option val :=
  match m with
  | [] => None
  | (k', v) :: r => if val_eq_dec k k' then Some v else klookup k r
  end.
Definition kfold_upd (init : val) (acc : val -> val -> val) (m : list (val * val)) (kv : val) :=
  kupd (fun o => acc (match o with None => init | Some a => a end) (vsnd kv)) (vfst kv) m.
Definition kreduce_upd (f : val -> val -> val) (m : list (val * val)) (kv : val) :=
  kupd (fun o => match o with None => vsnd kv | Some a => f a (vsnd kv) end) (vfst kv) m.
Definition kentries (m : list (val * val)) : list val := map (fun kv => VP (fst kv) (snd kv)) m.
Definition kfold_list init acc (l : list val) := fold_left (kfold_upd init acc) l [].
Definition kreduce_list f (l : list val) := fold_left (kreduce_upd f) l [].

(* the subsequence of values of key k *)
Definition proj (k : val) (l : list val) : list val :=
  map vsnd (filter (fun kv => veqb (vfst kv) k) l).

(* per-key specification of keyed aggregation: fold of the key's own subsequence *)
Definition kfold_spec init (acc : val -> val -> val) (k : val) (l : list val) (start : option val)
  : option val :=
  fold_left (fun o v => Some (acc (match o with None => init | Some a => a end) v)) (proj k l) start.
Definition kreduce_spec f (k : val) (l : list val) (start : option val) : option val :=
  fold_left (reduce_opt f) (proj k l) start.

(* ------------------------------------------------------------------ DFIR operator state machines *)

Inductive life := LTick | LStatic.

(* The lifetime table of `HydroNode::emit_core` (ProdDfirBuilder): every arm that takes a persistence
   argument -- Enumerate, Unique, Fold / FoldKeyed / Scan, Reduce / ReduceKeyed,
   ReduceKeyedWatermark (from the INPUT location), Join / CrossProduct (per side), JoinHalf (build
   side; probe always 'tick), AntiJoin / Difference (negative side; positive always 'tick) --
   calls `location_id.is_top_level()`, which is true for Process, Cluster AND Atomic and false
   only for Tick.  The `LocationId::Atomic` special cases in the Fold / FoldKeyed / Reduce arms
   only guard the simulator's `singleton_intermediates` paths (false in production).
   Hence: nodes located at top level or in an atomic region are [snode]/[anode] (all 'static),
   nodes located in a tick are [bnode] (all 'tick). *)
Inductive lockind := LocTop | LocAtomic | LocTick.
Definition lifetime_of (l : lockind) : life :=
  match l with LocTop | LocAtomic => LStatic | LocTick => LTick end.

Section Stateful.
  Variables St I O : Type.
  (* one DFIR operator instance run over successive ticks: [step] is the operator's work in one
     tick on that tick's input; its state is kept to the next tick iff the lifetime is 'static *)
  Fixpoint stateful (lf : life) (init : St) (step : St -> I -> O * St) (s : St) (xss : list I)
    : list O :=
    match xss with
    | [] => []
    | xs :: r =>
        let (o, s') := step s xs in
        o :: stateful lf init step (match lf with LTick => init | LStatic => s' end) r
    end.
  Definition op_run lf init step xss := stateful lf init step init xss.
End Stateful.

(* streaming (non-blocking) operators work item by item *)
Section Items.
  Variable St : Type.
  Variable istep : St -> val -> list val * St.
  Fixpoint run_items (s : St) (l : list val) : list val * St :=
    match l with
    | [] => ([], s)
    | x :: r => let (o, s1) := istep s x in
                let (o2, s2) := run_items s1 r in (o ++ o2, s2)
    end.
End Items.

Definition enum_istep (n : N) (x : val) : list val * N := ([VP (VN n) x], N.succ n).
Definition uniq_istep (seen : list val) (x : val) : list val * list val :=
  if memb x seen then ([], seen) else ([x], seen ++ [x]).

(* blocking operators consume the tick's whole input, then emit *)
Definition fold_step (acc : val -> val -> val) (s : val) (xs : list val) : list val * val :=
  let s' := fold_left acc xs s in ([s'], s').
Definition reduce_step (f : val -> val -> val) (s : option val) (xs : list val)
  : list val * option val :=
  let s' := fold_left (reduce_opt f) xs s in (opt_list s', s').
Definition kfold_step init acc (m : list (val * val)) (xs : list val) :=
  let m' := fold_left (kfold_upd init acc) xs m in (kentries m', m').
Definition kreduce_step f (m : list (val * val)) (xs : list val) :=
  let m' := fold_left (kreduce_upd f) xs m in (kentries m', m').

(* join_multiset / cross_join_multiset: both sides are drained into their state, then the full
   join of the two states is emitted (symmetric_hash_join with is_new_tick = true) *)
Definition pair_step (m : val -> val -> list val) (lfl lfr : life)
  (s : list val * list val) (xy : list val * list val)
  : list val * (list val * list val) :=
  let L := fst s ++ fst xy in
  let R := snd s ++ snd xy in
  (pairs_with m L R,
   (match lfl with LTick => [] | LStatic => L end, match lfr with LTick => [] | LStatic => R end)).

(* multiset_delta: the first (count in the previous tick) occurrences of an item are dropped *)
Fixpoint mdelta (prev cur : list val) : list val :=
  match cur with
  | [] => []
  | x :: r => if memb x prev then mdelta (remove1 x prev) r else x :: mdelta prev r
  end.
Definition mdelta_step (prev cur : list val) : list val * list val := (mdelta prev cur, cur).

(* anti_join::<'tick, neg lifetime>: pos is streamed against the accumulated negative keys *)
Definition anti_step (s : list val) (pn : list val * list val) : list val * list val :=
  let N := s ++ snd pn in (anti N (fst pn), N).

(* difference::<'tick, neg lifetime> *)
Definition diff_step (s : list val) (pn : list val * list val) : list val * list val :=
  let N := s ++ snd pn in (diff N (fst pn), N).

(* defer_tick_lazy: emits what it buffered in the previous tick *)
Definition defer_step (buf xs : list val) : list val * list val := (buf, xs).

(* ------------------------------------------------------------------ generators (first / limit) *)

Inductive gen : Type := GYield (v : val) | GReturn (v : val) | GContinue | GBreak.

(* state of scan::<lifetime> wrapping Stream::generator's closure *)
Inductive gst : Type := GInit | GActive (a : val) | GReturned | GDead.

Definition gen_istep (init : val) (f : val -> val -> val * gen) (s : gst) (x : val)
  : list val * gst :=
  let go a :=
    let (a', r) := f a x in
    match r with
    | GYield o => ([o], GActive a')
    | GReturn o => ([o], GReturned)
    | GContinue => ([], GActive a')
    | GBreak => ([], GDead)          (* scan closure returns None: DFIR scan drops its state *)
    end in
  match s with
  | GInit => go init
  | GActive a => go a
  | GReturned => ([], GDead)
  | GDead => ([], GDead)
  end.

(* list-level meaning of a generator: process items until Return / Break *)
Fixpoint gen_list (f : val -> val -> val * gen) (a : val) (l : list val) : list val :=
  match l with
  | [] => []
  | x :: r =>
      let (a', g) := f a x in
      match g with
      | GYield o => o :: gen_list f a' r
      | GReturn o => [o]
      | GContinue => gen_list f a' r
      | GBreak => []
      end
  end.

(* ------------------------------------------------------------------ top-level IR *)

Inductive snode : Type :=
| SSrc (i : nat)                                   (* Source{Embedded}: source_stream *)
| SIter (l : list val)                             (* Source{Iter} at top level (Bounded) *)
| SMap (f : val -> val) (x : snode)
| SFilter (p : val -> bool) (x : snode)
| SFlatMap (ordered : bool) (g : val -> list val) (x : snode)
| SFilterMap (g : val -> option val) (x : snode)
| SInspect (x : snode)
| SWeaken (x : snode)                              (* weaken_ordering::<NoOrder>(): Cast *)
| SUnion (x y : snode)                             (* merge_unordered / interleave *)
| SEnumerate (x : snode)
| SUnique (x : snode)
| SJoin (x y : snode)
| SCross (x y : snode)
| SAntiJoin (x : snode) (neg : list val)           (* anti_join with a Bounded (source_iter) side *)
| SGen (init : val) (f : val -> val -> val * gen) (x : snode)    (* Stream::generator: scan + flat_map *)
| SJoinHalf (x y : snode)           (* Stream::join whose right side is Bounded: HydroNode::JoinHalf *)
| SDifference (x : snode) (neg : list val)     (* filter_not_in with a Bounded (source_iter) side *)
| SPart (side : bool) (p : val -> bool) (x : snode).   (* one side of Stream::partition *)

Inductive anode : Type :=
| AFold (init : val) (acc : val -> val -> val) (x : snode)      (* Singleton *)
| AReduce (f : val -> val -> val) (x : snode)                   (* Optional *)
| AFoldKeyed (init : val) (acc : val -> val -> val) (x : snode) (* KeyedSingleton *)
| AReduceKeyed (f : val -> val -> val) (x : snode)
| AMap (f : val -> val) (a : anode).                            (* map on singleton / optional / entries *)

(* Boundedness = Bounded: a top-level source_iter and stateless operators over it; such a stream is
   complete in the first tick *)
Fixpoint bounded_s (n : snode) : bool :=
  match n with
  | SIter _ => true
  | SMap _ x | SFilter _ x | SFlatMap _ _ x | SFilterMap _ x | SInspect x | SWeaken x => bounded_s x
  | _ => false
  end.

(* ---- the kind judgement: the (Boundedness, Ordering, Retries) type parameters every stream node
   carries in the staged API, computed by the model and compared on every run, node by node, with
   the `collection_kind` the real builder records in the IR dump ([chk_kinds_s] / [chk_kinds_b]).
   Boundedness (true = Bounded): *)
Fixpoint kbound (n : snode) : bool :=
  match n with
  | SSrc _ => false
  | SIter _ => true
  | SMap _ x | SFilter _ x | SFlatMap _ _ x | SFilterMap _ x | SInspect x | SWeaken x
  | SEnumerate x | SUnique x | SAntiJoin x _ | SGen _ _ x | SDifference x _ | SPart _ _ x => kbound x
  | SUnion _ _ => false                                  (* merge_unordered: Unbounded *)
  | SJoin x _ | SCross x _ | SJoinHalf x _ => kbound x   (* the boundedness of the left side *)
  end.
(* Retries (true = ExactlyOnce): the modelled IR has no AtLeastOnce stream *)
Definition kretry (n : snode) : bool := true.

(* the Ordering type parameter (true = TotalOrder) *)
Fixpoint ord (n : snode) : bool :=
  match n with
  | SSrc _ | SIter _ => true
  | SMap _ x | SFilter _ x | SFilterMap _ x | SInspect x | SUnique x | SAntiJoin x _ | SGen _ _ x
  | SDifference x _ | SPart _ _ x => ord x
  | SFlatMap o _ x => o && ord x
  | SWeaken _ | SUnion _ _ | SJoin _ _ | SCross _ _ => false
  | SEnumerate _ => true
  | SJoinHalf x y => ord x && ord y     (* PreserveOrderIfBounded<Min<O, O2>> *)
  end.

(* exact (singleton / optional) or multiset (keyed singleton entries) comparison *)
Fixpoint aexact (a : anode) : bool :=
  match a with
  | AFold _ _ _ | AReduce _ _ => true
  | AFoldKeyed _ _ _ | AReduceKeyed _ _ => false
  | AMap _ a => aexact a
  end.

(* the proof obligations the staged API attaches to aggregation closures *)
Definition fold_comm (acc : val -> val -> val) : Prop :=
  forall s a b, acc (acc s a) b = acc (acc s b) a.
Definition comm_assoc (f : val -> val -> val) : Prop :=
  (forall a b, f a b = f b a) /\ (forall a b c, f (f a b) c = f a (f b c)).

(* what rustc enforces through the Ordering parameter and the algebraic-property arguments *)
Fixpoint wf_s (n : snode) : Prop :=
  match n with
  | SSrc _ | SIter _ => True
  | SMap _ x | SFilter _ x | SFilterMap _ x | SInspect x | SWeaken x | SUnique x
  | SAntiJoin x _ | SFlatMap _ _ x | SDifference x _ | SPart _ _ x => wf_s x
  | SEnumerate x | SGen _ _ x => ord x = true /\ wf_s x
  | SUnion x y | SJoin x y | SCross x y => wf_s x /\ wf_s y
  | SJoinHalf x y => bounded_s y = true /\ (wf_s x /\ wf_s y)
  end.
Fixpoint wf_a (a : anode) : Prop :=
  match a with
  | AFold _ acc x => wf_s x /\ (ord x = false -> fold_comm acc)
  | AReduce f x => wf_s x /\ (ord x = false -> comm_assoc f)
  | AFoldKeyed _ _ x => wf_s x /\ ord x = true
  | AReduceKeyed _ x => wf_s x /\ ord x = true
  | AMap _ a => wf_a a
  end.

Definition env := nat -> list val.
Definition flat (bs : list env) : env := fun i => concat (map (fun e => e i) bs).

(* (i) denotation on the whole input streams *)
Fixpoint den_s (n : snode) (e : env) : list val :=
  match n with
  | SSrc i => e i
  | SIter l => l
  | SMap f x => map f (den_s x e)
  | SFilter p x => filter p (den_s x e)
  | SFlatMap _ g x => flat_map g (den_s x e)
  | SFilterMap g x => flat_map (fun v => match g v with Some w => [w] | None => [] end) (den_s x e)
  | SInspect x | SWeaken x => den_s x e
  | SUnion x y => den_s x e ++ den_s y e
  | SEnumerate x => enum_from 0 (den_s x e)
  | SUnique x => uniq (den_s x e)
  | SJoin x y => join (den_s x e) (den_s y e)
  | SCross x y => cross (den_s x e) (den_s y e)
  | SAntiJoin x neg => anti neg (den_s x e)
  | SGen init f x => gen_list f init (den_s x e)
  | SJoinHalf x y => join (den_s x e) (den_s y e)
  | SDifference x neg => diff neg (den_s x e)
  | SPart side p x => filter (fun v => Bool.eqb (p v) side) (den_s x e)
  end.

Fixpoint den_a (a : anode) (e : env) : list val :=
  match a with
  | AFold init acc x => [fold_left acc (den_s x e) init]
  | AReduce f x => opt_list (reduce_list f (den_s x e))
  | AFoldKeyed init acc x => kentries (kfold_list init acc (den_s x e))
  | AReduceKeyed f x => kentries (kreduce_list f (den_s x e))
  | AMap f a => map f (den_a a e)
  end.

(* (ii) emitted per-tick semantics: one list of outputs per tick *)
Definition first_tick (l : list val) (bs : list env) : list (list val) :=
  match bs with [] => [] | _ :: r => l :: map (fun _ => []) r end.

Definition static_pairs (m : val -> val -> list val) (xss yss : list (list val)) :=
  op_run LStatic [] mdelta_step
    (op_run LStatic ([], []) (pair_step m LStatic LStatic) (combine xss yss)).

Fixpoint run_s (n : snode) (bs : list env) : list (list val) :=
  match n with
  | SSrc i => map (fun e => e i) bs
  | SIter l => first_tick l bs
  | SMap f x => map (map f) (run_s x bs)
  | SFilter p x => map (filter p) (run_s x bs)
  | SFlatMap _ g x => map (flat_map g) (run_s x bs)
  | SFilterMap g x =>
      map (flat_map (fun v => match g v with Some w => [w] | None => [] end)) (run_s x bs)
  | SInspect x | SWeaken x => run_s x bs
  | SUnion x y => map (fun p => fst p ++ snd p) (combine (run_s x bs) (run_s y bs))
  | SEnumerate x => op_run LStatic 0%N (run_items enum_istep) (run_s x bs)
  | SUnique x => op_run LStatic [] (run_items uniq_istep) (run_s x bs)
  | SJoin x y => static_pairs jmatch (run_s x bs) (run_s y bs)
  | SCross x y => static_pairs cmatch (run_s x bs) (run_s y bs)
  | SAntiJoin x neg =>
      op_run LStatic [] anti_step (combine (run_s x bs) (first_tick neg bs))
  | SGen init f x => op_run LStatic GInit (run_items (gen_istep init f)) (run_s x bs)
  (* join_multiset_half<'static,'tick>: the build (right) side is kept across ticks, the probe
     (left) side streams through within its tick; no multiset_delta *)
  | SJoinHalf x y =>
      op_run LStatic ([], []) (pair_step jmatch LTick LStatic) (combine (run_s x bs) (run_s y bs))
  | SDifference x neg =>
      op_run LStatic [] diff_step (combine (run_s x bs) (first_tick neg bs))
  | SPart side p x => map (filter (fun v => Bool.eqb (p v) side)) (run_s x bs)
  end.

Fixpoint run_a (a : anode) (bs : list env) : list (list val) :=
  match a with
  | AFold init acc x => op_run LStatic init (fold_step acc) (run_s x bs)
  | AReduce f x => op_run LStatic None (reduce_step f) (run_s x bs)
  | AFoldKeyed init acc x => op_run LStatic [] (kfold_step init acc) (run_s x bs)
  | AReduceKeyed f x => op_run LStatic [] (kreduce_step f) (run_s x bs)
  | AMap f a => map (map f) (run_a a bs)
  end.

(* the emission table: DFIR operators (name with persistence lifetimes) per node, as
   `HydroNode::emit_core` writes them for ProdDfirBuilder *)
Open Scope string_scope.
Fixpoint emit_s (n : snode) : list string :=
  match n with
  | SSrc _ => ["source_stream"]
  | SIter _ => ["source_iter"]
  | SMap _ x => "map" :: emit_s x
  | SFilter _ x => "filter" :: emit_s x
  | SFlatMap _ _ x => "flat_map" :: emit_s x
  | SFilterMap _ x => "filter_map" :: emit_s x
  | SInspect x => "inspect" :: emit_s x
  | SWeaken x => emit_s x
  | SUnion x y => "chain" :: emit_s x ++ emit_s y          (* merge_unordered builds HydroNode::Chain *)
  | SEnumerate x => "enumerate<'static>" :: emit_s x
  | SUnique x => "unique<'static>" :: emit_s x
  | SJoin x y => "join_multiset<'static,'static>" :: "multiset_delta" :: emit_s x ++ emit_s y
  (* Stream::cross_product = map(((), x)) on both sides -> join -> map: no CrossProduct node *)
  | SCross x y => "map" :: "map" :: "join_multiset<'static,'static>" :: "multiset_delta" :: "map"
                  :: emit_s x ++ emit_s y
  | SAntiJoin x _ => "anti_join<'tick,'static>" :: "source_iter" :: emit_s x
  | SGen _ _ x => "scan<'static>" :: "flat_map" :: emit_s x
  | SJoinHalf x y => "join_multiset_half<'static,'tick>" :: emit_s x ++ emit_s y
  | SDifference x _ => "difference<'tick,'static>" :: "source_iter" :: emit_s x
  | SPart _ _ x => "partition" :: emit_s x
  end.
Fixpoint emit_a (a : anode) : list string :=
  match a with
  | AFold _ _ x => "fold<'static>" :: emit_s x
  | AReduce _ x => "reduce<'static>" :: emit_s x
  | AFoldKeyed _ _ x => "fold_keyed<'static>" :: emit_s x
  | AReduceKeyed _ x => "reduce_keyed<'static>" :: emit_s x
  | AMap _ a => "map" :: emit_a a
  end.
Close Scope string_scope.

(* ------------------------------------------------------------------ flows and case checking *)

Inductive flow := FS (n : snode) | FA (a : anode).

Definition flow_exact (f : flow) : bool := match f with FS n => ord n | FA a => aexact a end.
Definition flow_run (f : flow) (bs : list env) : list (list val) :=
  match f with FS n => run_s n bs | FA a => run_a a bs end.
Definition flow_den (f : flow) (e : env) : list val :=
  match f with FS n => den_s n e | FA a => den_a a e end.
Definition flow_emit (f : flow) : list string :=
  match f with FS n => emit_s n | FA a => emit_a a end.
(* the observable final content: all emitted items of a stream / the last snapshot of a
   singleton, optional or keyed singleton *)
Definition flow_final (f : flow) (outs : list (list val)) : list val :=
  match f with FS _ => concat outs | FA _ => last outs [] end.

(* an input environment from a list of per-input batches *)
Definition mkenv (l : list (list val)) : env := fun i => nth i l [].

Fixpoint ticks_agree (exact : bool) (a b : list (list val)) : bool :=
  match a, b with
  | [], [] => true
  | x :: r, y :: s => equiv_b exact x y && ticks_agree exact r s
  | _, _ => false
  end.

Definition verdict (agree holds : bool) : N :=
  ((if agree then 0 else 1) + (if holds then 0 else 2))%N.

(* C28/C29 executable form on the implementation's per-tick outputs [impl] *)
Definition C28_holds_b (f : flow) (bs : list env) (impl : list (list val)) : bool :=
  equiv_b (flow_exact f) (flow_final f impl) (flow_den f (flat bs)).

Definition chk28 (f : flow) (ticks : list (list (list val))) (impl : list (list val)) : N :=
  let bs := map mkenv ticks in
  verdict (ticks_agree (flow_exact f) impl (flow_run f bs)) (C28_holds_b f bs impl).

(* C29 executable form: TotalOrder outputs are the denoted sequence; keyed aggregates hold, for
   every key, the fold of that key's subsequence of the (ordered) input and no key twice *)
Definition opt_eqb (a b : option val) : bool :=
  match a, b with None, None => true | Some x, Some y => veqb x y | _, _ => false end.
Definition entries_map (l : list val) : list (val * val) := map (fun e => (vfst e, vsnd e)) l.
Fixpoint nodup_b (l : list val) : bool :=
  match l with [] => true | x :: r => negb (memb x r) && nodup_b r end.
Definition keyed_ok (spec : val -> option val) (input final : list val) : bool :=
  nodup_b (map vfst final) &&
  forallb (fun k => opt_eqb (klookup k (entries_map final)) (spec k)) (map vfst input ++ map vfst final).
Definition C29_holds_b (f : flow) (bs : list env) (impl : list (list val)) : bool :=
  match f with
  | FS n => if ord n then list_eqb (concat impl) (den_s n (flat bs)) else true
  | FA (AFoldKeyed init acc x) =>
      let input := den_s x (flat bs) in
      keyed_ok (fun k => kfold_spec init acc k input None) input (last impl [])
  | FA (AReduceKeyed f x) =>
      let input := den_s x (flat bs) in
      keyed_ok (fun k => kreduce_spec f k input None) input (last impl [])
  | FA a => equiv_b (aexact a) (last impl []) (den_a a (flat bs))
  end.
Definition chk29 (f : flow) (ticks : list (list (list val))) (impl : list (list val)) : N :=
  let bs := map mkenv ticks in
  verdict (ticks_agree (flow_exact f) impl (flow_run f bs)) (C29_holds_b f bs impl).

(* multiset equality of operator-token lists (emission table vs the real emitter) *)
Fixpoint scount (s : string) (l : list string) : nat :=
  match l with [] => 0 | y :: r => if string_dec y s then S (scount s r) else scount s r end.
Definition toks_eqb (a b : list string) : bool :=
  Nat.eqb (List.length a) (List.length b) && forallb (fun s => Nat.eqb (scount s a) (scount s b)) a.
Definition chk_emit (f : flow) (plumbing observed : list string) : N :=
  if toks_eqb (("for_each"%string :: flow_emit f) ++ plumbing) observed then 0%N else 1%N.

Fixpoint bad_from (n : N) (l : list N) : list (N * N) :=
  match l with
  | [] => []
  | v :: r => if N.eqb v 0 then bad_from (n + 1) r else (n, v) :: bad_from (n + 1) r
  end.
Definition bad (l : list N) : list (N * N) := bad_from 0 l.

(* ------------------------------------------------------------------ C33: snapshots over ticks *)

Inductive mono_kind := MonoSingle | MonoKeys | MonoValue | BoundedVal | NoPromise.

Definition vle_b (a b : val) : bool :=
  match a, b with VN x, VN y => N.leb x y | _, _ => veqb a b end.

(* relation promised between the snapshot of one tick and the snapshot of the next one *)
Definition snap_rel_b (k : mono_kind) (a b : list val) : bool :=
  match k with
  | MonoSingle =>
      match a, b with [x], [y] => vle_b x y | _, _ => false end
  | MonoKeys =>
      forallb (fun e => match klookup (vfst e) (entries_map b) with Some _ => true | None => false end) a
  | MonoValue =>
      forallb (fun e => match klookup (vfst e) (entries_map b) with Some w => vle_b (vsnd e) w | None => false end) a
  | BoundedVal =>
      forallb (fun e => match klookup (vfst e) (entries_map b) with Some w => veqb (vsnd e) w | None => false end) a
  | NoPromise => true
  end.

Fixpoint adj_all (R : list val -> list val -> bool) (l : list (list val)) : bool :=
  match l with
  | a :: ((b :: _) as r) => R a b && adj_all R r
  | _ => true
  end.

Definition C33_holds_b (k : mono_kind) (impl : list (list val)) : bool := adj_all (snap_rel_b k) impl.

Definition chk33 (k : mono_kind) (f : flow) (ticks : list (list (list val))) (impl : list (list val)) : N :=
  let bs := map mkenv ticks in
  verdict (ticks_agree (flow_exact f) impl (flow_run f bs)) (C33_holds_b k impl).
