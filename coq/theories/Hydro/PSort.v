(* E8 Hydro engine -- the stable insertion sort [vsort] (DFIR sort()) gives the same sequence for
   every permutation of its input: Rust's derived Ord on the value universe is a total order in
   which only equal values compare Equal. *)
From HV Require Import Hydro.Model Hydro.ModelTick Hydro.ModelFlows Hydro.PBase Hydro.PTick Hydro.PTrusted.

Lemma vleb_total : forall a b, vleb a b = true \/ vleb b a = true.
Proof.
  intros a b. unfold vleb. rewrite (vcmp_antisym a b). destruct (vcmp a b); simpl; auto.
Qed.

Lemma vleb_antisym : forall a b, vleb a b = true -> vleb b a = true -> a = b.
Proof.
  intros a b. unfold vleb. rewrite (vcmp_antisym a b). destruct (vcmp a b) eqn:E; simpl; try discriminate.
  intros _ _. apply vcmp_eq. exact E.
Qed.

Lemma vleb_false_gt : forall a b, vleb a b = false -> vcmp a b = Gt.
Proof. intros a b. unfold vleb. destruct (vcmp a b); congruence. Qed.

Lemma vleb_trans : forall a b c, vleb a b = true -> vleb b c = true -> vleb a c = true.
Proof.
  intros a b c H1 H2. destruct (vleb a c) eqn:E; [reflexivity|]. apply vleb_false_gt in E.
  (* a > c, a <= b: then b > c, contradiction *)
  unfold vleb in H1, H2.
  destruct (vcmp a b) eqn:E1; try discriminate.
  - apply vcmp_eq in E1. subst. rewrite E in H2. discriminate.
  - (* a < b, i.e. b > a > c *)
    assert (G : vcmp b a = Gt) by (rewrite (vcmp_antisym a b), E1; reflexivity).
    rewrite (vcmp_gt_trans _ _ _ G E) in H2. discriminate.
Qed.

Lemma vinsert_comm : forall l x y, vinsert x (vinsert y l) = vinsert y (vinsert x l).
Proof.
  induction l as [|z r IH]; intros x y; simpl.
  - destruct (vleb x y) eqn:A; destruct (vleb y x) eqn:B; auto.
    + rewrite (vleb_antisym _ _ A B). reflexivity.
    + destruct (vleb_total x y); congruence.
  - cbn [vinsert].
    destruct (vleb y z) eqn:Y; destruct (vleb x z) eqn:X; cbn [vinsert]; rewrite ?X, ?Y;
    destruct (vleb x y) eqn:A; destruct (vleb y x) eqn:B; cbn [vinsert]; rewrite ?X, ?Y, ?A, ?B;
    try reflexivity;
    try (rewrite (vleb_antisym _ _ A B); reflexivity);
    try (destruct (vleb_total x y); congruence);
    try (rewrite (vleb_trans _ _ _ A Y) in X; discriminate);
    try (rewrite (vleb_trans _ _ _ B X) in Y; discriminate);
    try (rewrite IH; reflexivity).
Qed.

Theorem vsort_perm : forall a b, Permutation a b -> vsort a = vsort b.
Proof.
  intros a b P. unfold vsort. induction P; simpl; auto.
  - rewrite IHP. reflexivity.
  - apply vinsert_comm.
  - congruence.
Qed.
