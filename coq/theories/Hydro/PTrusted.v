(* E8 Hydro engine -- C32: the library-internal `assume_ordering_trusted` /
   `assume_retries_trusted` call sites are justified: the operator's list function is invariant
   under the reorderings / duplications its (weaker) input type permits.

   Duplication model: a NoOrder stream may arrive in any permutation; an AtLeastOnce NoOrder
   stream as any list with the same SET of elements; an AtLeastOnce TotalOrder stream as any
   stuttering of the sequence (each element repeated >= 1 times in place). *)
From Coq Require Import Arith PeanoNat.
From HV Require Import Hydro.Model Hydro.ModelTick Hydro.ModelFlows Hydro.PBase Hydro.PTick.

(* ------------------------------------------------------------------ max / min *)
Section Extremum.
  Variable gt : val -> val -> bool.       (* `new > *curr` of a Rust Ord *)
  Hypothesis gt_irrefl : forall a, gt a a = false.
  Hypothesis gt_trans : forall a b c, gt a b = true -> gt b c = true -> gt a c = true.
  (* totality is only needed on a domain D (e.g. the entries of one keyed singleton) *)
  Variable D : val -> Prop.
  Hypothesis gt_total : forall a b, D a -> D b -> a = b \/ gt a b = true \/ gt b a = true.

  Definition pick (c n : val) : val := if gt n c then n else c.
  Definition is_ext (l : list val) (m : val) : Prop := In m l /\ forall x, In x l -> gt x m = false.

  Lemma pick_fold : forall l a, D a -> (forall x, In x l -> D x) ->
    (fold_left pick l a = a \/ In (fold_left pick l a) l) /\
    gt a (fold_left pick l a) = false /\
    (forall x, In x l -> gt x (fold_left pick l a) = false).
  Proof.
    induction l as [|x l IH]; intros a Da Dl; simpl.
    - repeat split; auto. intros x [].
    - assert (EA : pick a x = if gt x a then x else a) by reflexivity.
      destruct (gt x a) eqn:G; rewrite EA.
      + destruct (IH x) as (I1 & I2 & I3); [apply Dl; left; reflexivity | intros; apply Dl; right; assumption |].
        split; [destruct I1 as [->|i]; auto|]. split.
        * destruct (gt a (fold_left pick l x)) eqn:C; [|reflexivity].
          rewrite (gt_trans _ _ _ G C) in I2. discriminate.
        * intros y [<-|i]; auto.
      + destruct (IH a) as (I1 & I2 & I3); [exact Da | intros; apply Dl; right; assumption |].
        split; [destruct I1 as [->|i]; auto|]. split; [exact I2|].
        intros y [<-|i]; [|auto].
        destruct (gt x (fold_left pick l a)) eqn:C; [|reflexivity].
        assert (Dr : D (fold_left pick l a)) by (destruct I1 as [->|i]; [exact Da | apply Dl; right; exact i]).
        destruct (gt_total a (fold_left pick l a) Da Dr) as [E|[E|E]].
        * rewrite <- E in C. congruence.
        * congruence.
        * rewrite (gt_trans _ _ _ C E) in G. discriminate.
  Qed.

  Lemma reduce_pick_ext : forall l m, (forall x, In x l -> D x) -> reduce_list pick l = Some m -> is_ext l m.
  Proof.
    intros [|h t] m Dl H; [discriminate|]. unfold reduce_list in H. simpl in H.
    rewrite reduce_fold in H. injection H as <-.
    destruct (pick_fold t h) as (I1 & I2 & I3);
      [apply Dl; left; reflexivity | intros; apply Dl; right; assumption |]. split.
    - destruct I1 as [->|i]; [left; reflexivity | right; exact i].
    - intros x [<-|i]; auto.
  Qed.

  Lemma ext_unique : forall l m m', (forall x, In x l -> D x) -> is_ext l m -> is_ext l m' -> m = m'.
  Proof.
    intros l m m' Dl [i1 h1] [i2 h2]. destruct (gt_total m m' (Dl _ i1) (Dl _ i2)) as [E|[E|E]]; auto.
    - rewrite (h2 m i1) in E. discriminate.
    - rewrite (h1 m' i2) in E. discriminate.
  Qed.

  Lemma reduce_none : forall f l, reduce_list f l = None <-> l = [].
  Proof.
    intros f [|h t]; split; auto; try discriminate.
    unfold reduce_list. simpl. rewrite reduce_fold. discriminate.
  Qed.

  (* max / min see only the SET of elements: invariant under every permutation and every
     duplication (covers both the ordering and the retries assumption of Stream::max / min) *)
  Theorem extremum_set_invariant : forall l l', (forall x, In x l -> D x) ->
    (forall x, In x l <-> In x l') -> reduce_list pick l = reduce_list pick l'.
  Proof.
    intros l l' Dl S.
    assert (Dl' : forall x, In x l' -> D x) by (intros x i; apply Dl; apply S; exact i).
    destruct (reduce_list pick l) as [m|] eqn:E1; destruct (reduce_list pick l') as [m'|] eqn:E2; auto.
    - f_equal. apply reduce_pick_ext in E1; [|exact Dl]. apply reduce_pick_ext in E2; [|exact Dl'].
      apply (ext_unique l m m' Dl E1). destruct E2 as [i h]. split; [apply S; exact i|].
      intros x ix. apply h. apply S. exact ix.
    - apply reduce_none in E2. subst. apply reduce_pick_ext in E1; [|exact Dl]. destruct E1 as [i _].
      apply S in i. destruct i.
    - apply reduce_none in E1. subst. apply reduce_pick_ext in E2; [|exact Dl']. destruct E2 as [i _].
      apply S in i. destruct i.
  Qed.

  Corollary extremum_perm : forall l l', (forall x, In x l -> D x) -> Permutation l l' ->
    reduce_list pick l = reduce_list pick l'.
  Proof.
    intros l l' Dl P. apply extremum_set_invariant; [exact Dl|].
    intros x. split; apply Permutation_in; [|symmetry]; exact P.
  Qed.
End Extremum.

(* Rust's derived Ord on the value universe satisfies the hypotheses *)
Lemma vcmp_refl : forall a, vcmp a a = Eq.
Proof. induction a; simpl; auto. - apply N.compare_refl. - rewrite IHa1. exact IHa2. Qed.

Lemma vcmp_eq : forall a b, vcmp a b = Eq -> a = b.
Proof.
  induction a; destruct b; simpl; intros H; try discriminate; auto.
  - apply N.compare_eq in H. congruence.
  - destruct (vcmp a1 b1) eqn:E; try discriminate. rewrite (IHa1 _ E), (IHa2 _ H). reflexivity.
Qed.

Lemma vcmp_antisym : forall a b, vcmp b a = CompOpp (vcmp a b).
Proof.
  induction a; destruct b; simpl; auto.
  - apply N.compare_antisym.
  - rewrite IHa1. destruct (vcmp a1 b1); simpl; auto.
Qed.

Lemma vcmp_gt_trans : forall a b c, vcmp a b = Gt -> vcmp b c = Gt -> vcmp a c = Gt.
Proof.
  induction a; destruct b; destruct c; simpl; intros H1 H2; try discriminate; auto.
  - apply N.compare_gt_iff in H1. apply N.compare_gt_iff in H2. apply N.compare_gt_iff. lia.
  - destruct (vcmp a1 b1) eqn:E1; try discriminate; destruct (vcmp b1 c1) eqn:E2; try discriminate.
    + apply vcmp_eq in E1. apply vcmp_eq in E2. subst. rewrite vcmp_refl. eapply IHa2; eauto.
    + apply vcmp_eq in E1. subst. rewrite E2. reflexivity.
    + apply vcmp_eq in E2. subst. rewrite E1. reflexivity.
    + rewrite (IHa1 _ _ E1 E2). reflexivity.
Qed.

Lemma vgtb_irrefl : forall a, vgtb a a = false.
Proof. intros. unfold vgtb. rewrite vcmp_refl. reflexivity. Qed.
Lemma vgtb_trans : forall a b c, vgtb a b = true -> vgtb b c = true -> vgtb a c = true.
Proof.
  unfold vgtb. intros a b c H1 H2.
  destruct (vcmp a b) eqn:E1; try discriminate. destruct (vcmp b c) eqn:E2; try discriminate.
  rewrite (vcmp_gt_trans _ _ _ E1 E2). reflexivity.
Qed.
Lemma vgtb_total : forall a b, a = b \/ vgtb a b = true \/ vgtb b a = true.
Proof.
  intros a b. unfold vgtb. rewrite (vcmp_antisym a b). destruct (vcmp a b) eqn:E; simpl; auto.
  left. apply vcmp_eq. exact E.
Qed.

Lemma vltb_vgtb : forall a b, vltb a b = vgtb b a.
Proof. intros. unfold vltb, vgtb. rewrite (vcmp_antisym a b). destruct (vcmp a b); reflexivity. Qed.

(* Stream::max / Stream::min as written in the library (closures c_max / c_min) *)
Theorem max_set_invariant : forall l l',
  (forall x, In x l <-> In x l') -> reduce_list c_max l = reduce_list c_max l'.
Proof.
  intros l l' S.
  apply (extremum_set_invariant vgtb vgtb_irrefl vgtb_trans (fun _ => True)); auto.
  intros a b _ _. apply vgtb_total.
Qed.

Theorem min_set_invariant : forall l l',
  (forall x, In x l <-> In x l') -> reduce_list c_min l = reduce_list c_min l'.
Proof.
  intros l l' S.
  assert (E : forall l0, reduce_list c_min l0 = reduce_list (pick (fun a b => vgtb b a)) l0).
  { intros l0. unfold reduce_list. generalize (@None val). induction l0 as [|x r IH]; intros o; simpl; auto.
    rewrite IH. f_equal. destruct o; simpl; auto. unfold c_min, pick. rewrite vltb_vgtb. reflexivity. }
  rewrite !E.
  apply (extremum_set_invariant (fun a b => vgtb b a)) with (D := fun _ => True); auto.
  - intros a. apply vgtb_irrefl.
  - intros a b c H1 H2. eapply vgtb_trans; eauto.
  - intros a b _ _. destruct (vgtb_total a b) as [e|[e|e]]; auto.
Qed.

(* ------------------------------------------------------------------ count, is_empty, value_counts *)

Lemma count_fold : forall l n, fold_left c_count l (VN n) = VN (n + N.of_nat (length l)).
Proof.
  induction l as [|x r IH]; intros n; simpl fold_left.
  - simpl. f_equal. lia.
  - unfold c_count at 2. simpl n_of. rewrite IH. f_equal. simpl length. lia.
Qed.

Theorem count_perm : forall l l', Permutation l l' ->
  fold_left c_count l (VN 0) = fold_left c_count l' (VN 0).
Proof. intros l l' P. rewrite !count_fold. rewrite (Permutation_length P). reflexivity. Qed.

Theorem is_empty_perm : forall l l', Permutation l l' -> u_is_empty_fun l = u_is_empty_fun l'.
Proof.
  intros l l' P. destruct l; destruct l'; auto.
  - apply Permutation_nil in P. discriminate.
  - symmetry in P. apply Permutation_nil in P. discriminate.
Qed.

Lemma count_spec_len : forall (l l' : list val), length l = length l' -> forall o,
  fold_left (fun o v => Some (c_count (match o with None => VN 0 | Some a => a end) v)) l o =
  fold_left (fun o v => Some (c_count (match o with None => VN 0 | Some a => a end) v)) l' o.
Proof.
  induction l as [|x r IH]; destruct l' as [|y s]; simpl; intros H o; try discriminate; auto.
Qed.

Lemma proj_perm_len : forall k l l', Permutation l l' -> length (proj k l) = length (proj k l').
Proof.
  intros k l l' P. unfold proj. rewrite !map_length. apply Permutation_length. apply filter_perm. exact P.
Qed.

(* KeyedStream::value_counts: every key's count is invariant under any reordering *)
Theorem value_counts_perm : forall l l', Permutation l l' -> forall k,
  klookup k (kfold_list (VN 0) c_count l) = klookup k (kfold_list (VN 0) c_count l').
Proof.
  intros l l' P k. rewrite !kfold_lookup. unfold kfold_spec.
  apply count_spec_len. apply proj_perm_len. exact P.
Qed.

(* ------------------------------------------------------------------ first / last under retries *)

Inductive stutter : list val -> list val -> Prop :=
| st_nil : stutter [] []
| st_keep : forall x l l', stutter l l' -> stutter (x :: l) (x :: l')
| st_dup : forall x l l', stutter (x :: l) l' -> stutter (x :: l) (x :: l').

Definition first_fun (l : list val) : list val := opt_list (reduce_list c_first (gen_list g_first VU l)).
Definition last_fun (l : list val) : list val := opt_list (reduce_list c_last l).

Lemma first_fun_hd : forall l, first_fun l = match l with [] => [] | x :: _ => [x] end.
Proof. intros [|x r]; reflexivity. Qed.

Theorem first_stutter : forall l l', stutter l l' -> first_fun l = first_fun l'.
Proof. intros l l' S. rewrite !first_fun_hd. destruct S; reflexivity. Qed.

Lemma last_indep : forall (l : list val) d d', l <> [] -> last l d = last l d'.
Proof.
  induction l as [|x r IH]; intros d d' H; [congruence|].
  destruct r as [|y r']; [reflexivity|]. apply IH. discriminate.
Qed.

Lemma last_fold : forall l a, fold_left c_last l a = last l a.
Proof.
  induction l as [|x r IH]; intros a; [reflexivity|].
  simpl fold_left. unfold c_last at 2. rewrite IH.
  destruct r as [|y r']; [reflexivity|].
  change (last (x :: y :: r') a) with (last (y :: r') a). apply last_indep. discriminate.
Qed.

Lemma last_fun_last : forall l, last_fun l = match l with [] => [] | x :: r => [last r x] end.
Proof.
  intros [|x r]; [reflexivity|]. unfold last_fun, reduce_list. simpl.
  rewrite reduce_fold, last_fold. reflexivity.
Qed.

Lemma stutter_nil_r : forall l, stutter l [] -> l = [].
Proof. intros l S. inversion S. reflexivity. Qed.

Lemma last_cons : forall (y : val) r d, last (y :: r) d = last r y.
Proof.
  intros y [|z r'] d; [reflexivity|].
  change (last (y :: z :: r') d) with (last (z :: r') d). apply last_indep. discriminate.
Qed.

Theorem last_stutter : forall l l', stutter l l' -> last_fun l = last_fun l'.
Proof.
  intros l l' S. rewrite !last_fun_last. induction S; auto.
  - destruct l as [|y r]; destruct l' as [|y' r']; auto.
    + inversion S.
    + apply stutter_nil_r in S. discriminate.
    + rewrite !last_cons. exact IHS.
  - destruct l' as [|y' r']; [inversion S|]. rewrite last_cons. exact IHS.
Qed.

(* weakening casts (weaken_ordering / weaken_retries): whatever is equal under the stronger
   reading is equal under the weaker one *)
Theorem weaken_sound : forall a b, equiv true a b -> equiv false a b.
Proof. intros a b H. simpl in *. subst. reflexivity. Qed.

(* ------------------------------------------------------------------ the keyed-singleton invariant *)

(* entries of a keyed singleton have pairwise distinct keys *)
Definition keys_distinct (es : list val) : Prop := NoDup (map vfst es).

Lemma kupd_keys : forall g k m,
  map fst (kupd g k m) = if in_dec val_eq_dec k (map fst m) then map fst m else map fst m ++ [k].
Proof.
  induction m as [|[k0 v0] r IH]; simpl; [reflexivity|].
  destruct (val_eq_dec k k0) as [->|ne]; simpl.
  - destruct (val_eq_dec k0 k0); [reflexivity | congruence].
  - rewrite IH. destruct (val_eq_dec k0 k); [congruence|].
    destruct (in_dec val_eq_dec k (map fst r)); reflexivity.
Qed.

Lemma kupd_nodup : forall g k m, NoDup (map fst m) -> NoDup (map fst (kupd g k m)).
Proof.
  intros g k m H. rewrite kupd_keys. destruct (in_dec val_eq_dec k (map fst m)) as [i|n]; [exact H|].
  apply (Permutation_NoDup (Permutation_cons_append (map fst m) k)). constructor; assumption.
Qed.

Lemma fold_kupd_nodup : forall (upd : list (val * val) -> val -> list (val * val)),
  (forall m e, NoDup (map fst m) -> NoDup (map fst (upd m e))) ->
  forall l m, NoDup (map fst m) -> NoDup (map fst (fold_left upd l m)).
Proof. intros upd H. induction l as [|x r IH]; intros m N; simpl; auto. Qed.

Lemma kentries_keys : forall m, map vfst (kentries m) = map fst m.
Proof. induction m as [|[k v] r IH]; simpl; congruence. Qed.

(* the producers establish the invariant: keyed fold / keyed reduce states *)
Theorem kfold_keys_distinct : forall init acc l, keys_distinct (kentries (kfold_list init acc l)).
Proof.
  intros. unfold keys_distinct, kfold_list. rewrite kentries_keys.
  apply fold_kupd_nodup; [|constructor]. intros m e N. apply kupd_nodup. exact N.
Qed.

Theorem kreduce_keys_distinct : forall f l, keys_distinct (kentries (kreduce_list f l)).
Proof.
  intros. unfold keys_distinct, kreduce_list. rewrite kentries_keys.
  apply fold_kupd_nodup; [|constructor]. intros m e N. apply kupd_nodup. exact N.
Qed.

Lemma distinct_inj : forall es a b, keys_distinct es -> In a es -> In b es -> vfst a = vfst b -> a = b.
Proof.
  induction es as [|e r IH]; intros a b N ia ib E; [destruct ia|].
  unfold keys_distinct in N. simpl in N. inversion N as [|k ks nin N']; subst.
  destruct ia as [<-|ia]; destruct ib as [<-|ib]; auto.
  - exfalso. apply nin. rewrite E. apply in_map. exact ib.
  - exfalso. apply nin. rewrite <- E. apply in_map. exact ia.
Qed.

(* ---- KeyedSingleton::into_singleton (both call sites): inserting distinct-keyed entries into a
   HashMap gives the same map whatever the order of the entries *)
Definition map_eq (m m' : list (val * val)) : Prop := forall k, klookup k m = klookup k m'.

Lemma ins_lookup : forall m e k,
  klookup k (ins_entry m e) = if val_eq_dec k (vfst e) then Some (vsnd e) else klookup k m.
Proof. intros. unfold ins_entry. apply klookup_kupd. Qed.

Lemma ins_map_eq : forall m m' e, map_eq m m' -> map_eq (ins_entry m e) (ins_entry m' e).
Proof. intros m m' e H k. rewrite !ins_lookup. destruct (val_eq_dec k (vfst e)); auto. Qed.

Lemma ins_swap : forall m m' x y, map_eq m m' -> vfst x <> vfst y ->
  map_eq (ins_entry (ins_entry m y) x) (ins_entry (ins_entry m' x) y).
Proof.
  intros m m' x y H ne k. rewrite !ins_lookup.
  destruct (val_eq_dec k (vfst x)); destruct (val_eq_dec k (vfst y)); auto; congruence.
Qed.

Lemma into_map_perm_gen : forall l l', Permutation l l' -> keys_distinct l ->
  forall m m', map_eq m m' -> map_eq (fold_left ins_entry l m) (fold_left ins_entry l' m').
Proof.
  intros l l' P. induction P; intros N m m' E; simpl.
  - exact E.
  - apply IHP; [inversion N; assumption | apply ins_map_eq; exact E].
  - assert (ne : vfst x <> vfst y).
    { unfold keys_distinct in N. simpl in N. inversion N as [|k ks nin _]; subst.
      intros e. apply nin. left. exact e. }
    assert (G : forall l0 a b, map_eq a b -> map_eq (fold_left ins_entry l0 a) (fold_left ins_entry l0 b)).
    { induction l0 as [|z l0 IHl0]; intros s1 s2 H; simpl; auto. apply IHl0. apply ins_map_eq. exact H. }
    apply G. apply ins_swap; assumption.
  - intros k. rewrite (IHP1 N m m' E k).
    assert (N2 : keys_distinct l').
    { unfold keys_distinct in *. eapply Permutation_NoDup; [apply Permutation_map; exact P1 | exact N]. }
    apply (IHP2 N2 m' m'). intros k0. reflexivity.
Qed.

Theorem into_singleton_order_independent : forall es es',
  keys_distinct es -> Permutation es es' -> map_eq (into_map es) (into_map es').
Proof.
  intros es es' N P. unfold into_map. apply into_map_perm_gen; auto. intros k. reflexivity.
Qed.

(* ---- KeyedSingleton::get_max_key: the entry with the largest key is unique *)
Theorem get_max_key_order_independent : forall es es',
  keys_distinct es -> Permutation es es' -> reduce_list c_maxkey es = reduce_list c_maxkey es'.
Proof.
  intros es es' N P.
  assert (E : forall l0, reduce_list c_maxkey l0 = reduce_list (pick (fun a b => vgtb (vfst a) (vfst b))) l0).
  { intros l0. reflexivity. }
  rewrite !E.
  apply (extremum_perm (fun a b => vgtb (vfst a) (vfst b))) with (D := fun e => In e es); auto.
  - intros a. apply vgtb_irrefl.
  - intros a b c. apply vgtb_trans.
  - intros a b ia ib. destruct (vgtb_total (vfst a) (vfst b)) as [e|[e|e]]; auto.
    left. eapply distinct_inj; eauto.
Qed.

(* ---- Stream::repeat_with_keys: every key's group is the item stream, whatever the key order *)
Lemma proj_map_VP : forall k key items,
  proj k (map (VP key) items) = if val_eq_dec key k then items else [].
Proof.
  intros k key items. unfold proj, veqb. induction items as [|i r IH]; simpl.
  - destruct (val_eq_dec key k); reflexivity.
  - destruct (val_eq_dec key k); simpl; [f_equal|]; exact IH.
Qed.

Lemma proj_nested : forall k ks items, NoDup ks ->
  proj k (nested ks items) = if in_dec val_eq_dec k ks then items else [].
Proof.
  induction ks as [|key r IH]; intros items N; [reflexivity|].
  unfold nested in *. simpl flat_map. rewrite proj_app, proj_map_VP.
  inversion N as [|x xs nin N']; subst. rewrite (IH items N').
  destruct (val_eq_dec key k) as [->|ne].
  - destruct (in_dec val_eq_dec k r) as [i|n]; [contradiction|].
    destruct (in_dec val_eq_dec k (k :: r)) as [_|n']; [apply app_nil_r | exfalso; apply n'; left; reflexivity].
  - destruct (in_dec val_eq_dec k r) as [i|n]; destruct (in_dec val_eq_dec k (key :: r)) as [i'|n']; auto.
    + exfalso. apply n'. right. exact i.
    + destruct i' as [e|i']; [congruence | contradiction].
Qed.

Theorem repeat_with_keys_order_independent : forall ks ks' items,
  NoDup ks -> Permutation ks ks' -> forall k, proj k (nested ks items) = proj k (nested ks' items).
Proof.
  intros ks ks' items N P k.
  rewrite !proj_nested; [|eapply Permutation_NoDup; eauto | exact N].
  destruct (in_dec val_eq_dec k ks) as [i|n]; destruct (in_dec val_eq_dec k ks') as [i'|n']; auto.
  - exfalso. apply n'. eapply Permutation_in; eauto.
  - exfalso. apply n. eapply Permutation_in; [symmetry|]; eauto.
Qed.
