(* E8 Hydro engine -- C32: the library-internal `assume_ordering_trusted` /
   `assume_retries_trusted` call sites are justified: the operator's list function is invariant
   under the reorderings / duplications its (weaker) input type permits.

   Duplication model: a NoOrder stream may arrive in any permutation; an AtLeastOnce NoOrder
   stream as any list with the same SET of elements; an AtLeastOnce TotalOrder stream as any
   stuttering of the sequence (each element repeated >= 1 times in place). *)
From Coq Require Import Arith PeanoNat.
From HV Require Import Hydro.Model Hydro.ModelTick Hydro.ModelFlows Hydro.PBase Hydro.PTick.

(* ------------------------------------------------------------------ max / min *)
Section Extremum.
  Variable gt : val -> val -> bool.       (* `new > *curr` of a Rust Ord *)
  Hypothesis gt_irrefl : forall a, gt a a = false.
  Hypothesis gt_trans : forall a b c, gt a b = true -> gt b c = true -> gt a c = true.
  Hypothesis gt_total : forall a b, a = b \/ gt a b = true \/ gt b a = true.

  Definition pick (c n : val) : val := if gt n c then n else c.
  Definition is_ext (l : list val) (m : val) : Prop := In m l /\ forall x, In x l -> gt x m = false.

  Lemma pick_fold : forall l a,
    (fold_left pick l a = a \/ In (fold_left pick l a) l) /\
    gt a (fold_left pick l a) = false /\
    (forall x, In x l -> gt x (fold_left pick l a) = false).
  Proof.
    induction l as [|x l IH]; intros a; simpl.
    - repeat split; auto. intros x [].
    - assert (EA : pick a x = if gt x a then x else a) by reflexivity.
      destruct (gt x a) eqn:G; rewrite EA.
      + destruct (IH x) as (I1 & I2 & I3).
        split; [destruct I1 as [->|i]; auto|]. split.
        * destruct (gt a (fold_left pick l x)) eqn:C; [|reflexivity].
          rewrite (gt_trans _ _ _ G C) in I2. discriminate.
        * intros y [<-|i]; auto.
      + destruct (IH a) as (I1 & I2 & I3).
        split; [destruct I1 as [->|i]; auto|]. split; [exact I2|].
        intros y [<-|i]; [|auto].
        destruct (gt x (fold_left pick l a)) eqn:C; [|reflexivity].
        destruct (gt_total a (fold_left pick l a)) as [E|[E|E]].
        * rewrite <- E in C. congruence.
        * congruence.
        * rewrite (gt_trans _ _ _ C E) in G. discriminate.
  Qed.

  Lemma reduce_pick_ext : forall l m, reduce_list pick l = Some m -> is_ext l m.
  Proof.
    intros [|h t] m H; [discriminate|]. unfold reduce_list in H. simpl in H.
    rewrite reduce_fold in H. injection H as <-.
    destruct (pick_fold t h) as (I1 & I2 & I3). split.
    - destruct I1 as [->|i]; [left; reflexivity | right; exact i].
    - intros x [<-|i]; auto.
  Qed.

  Lemma ext_unique : forall l m m', is_ext l m -> is_ext l m' -> m = m'.
  Proof.
    intros l m m' [i1 h1] [i2 h2]. destruct (gt_total m m') as [E|[E|E]]; auto.
    - rewrite (h2 m i1) in E. discriminate.
    - rewrite (h1 m' i2) in E. discriminate.
  Qed.

  Lemma reduce_none : forall f l, reduce_list f l = None <-> l = [].
  Proof.
    intros f [|h t]; split; auto; try discriminate.
    unfold reduce_list. simpl. rewrite reduce_fold. discriminate.
  Qed.

  (* max / min see only the SET of elements: invariant under every permutation and every
     duplication (covers both the ordering and the retries assumption of Stream::max / min) *)
  Theorem extremum_set_invariant : forall l l',
    (forall x, In x l <-> In x l') -> reduce_list pick l = reduce_list pick l'.
  Proof.
    intros l l' S.
    destruct (reduce_list pick l) as [m|] eqn:E1; destruct (reduce_list pick l') as [m'|] eqn:E2; auto.
    - f_equal. apply reduce_pick_ext in E1. apply reduce_pick_ext in E2.
      apply (ext_unique l m m' E1). destruct E2 as [i h]. split; [apply S; exact i|].
      intros x ix. apply h. apply S. exact ix.
    - apply reduce_none in E2. subst. apply reduce_pick_ext in E1. destruct E1 as [i _].
      apply S in i. destruct i.
    - apply reduce_none in E1. subst. apply reduce_pick_ext in E2. destruct E2 as [i _].
      apply S in i. destruct i.
  Qed.

  Corollary extremum_perm : forall l l', Permutation l l' -> reduce_list pick l = reduce_list pick l'.
  Proof.
    intros l l' P. apply extremum_set_invariant. intros x. split; apply Permutation_in; [|symmetry]; exact P.
  Qed.
End Extremum.

(* Rust's derived Ord on the value universe satisfies the hypotheses *)
Lemma vcmp_refl : forall a, vcmp a a = Eq.
Proof. induction a; simpl; auto. - apply N.compare_refl. - rewrite IHa1. exact IHa2. Qed.

Lemma vcmp_eq : forall a b, vcmp a b = Eq -> a = b.
Proof.
  induction a; destruct b; simpl; intros H; try discriminate; auto.
  - apply N.compare_eq in H. congruence.
  - destruct (vcmp a1 b1) eqn:E; try discriminate. rewrite (IHa1 _ E), (IHa2 _ H). reflexivity.
Qed.

Lemma vcmp_antisym : forall a b, vcmp b a = CompOpp (vcmp a b).
Proof.
  induction a; destruct b; simpl; auto.
  - apply N.compare_antisym.
  - rewrite IHa1. destruct (vcmp a1 b1); simpl; auto.
Qed.

Lemma vcmp_gt_trans : forall a b c, vcmp a b = Gt -> vcmp b c = Gt -> vcmp a c = Gt.
Proof.
  induction a; destruct b; destruct c; simpl; intros H1 H2; try discriminate; auto.
  - apply N.compare_gt_iff in H1. apply N.compare_gt_iff in H2. apply N.compare_gt_iff. lia.
  - destruct (vcmp a1 b1) eqn:E1; try discriminate; destruct (vcmp b1 c1) eqn:E2; try discriminate.
    + apply vcmp_eq in E1. apply vcmp_eq in E2. subst. rewrite vcmp_refl. eapply IHa2; eauto.
    + apply vcmp_eq in E1. subst. rewrite E2. reflexivity.
    + apply vcmp_eq in E2. subst. rewrite E1. reflexivity.
    + rewrite (IHa1 _ _ E1 E2). reflexivity.
Qed.

Lemma vgtb_irrefl : forall a, vgtb a a = false.
Proof. intros. unfold vgtb. rewrite vcmp_refl. reflexivity. Qed.
Lemma vgtb_trans : forall a b c, vgtb a b = true -> vgtb b c = true -> vgtb a c = true.
Proof.
  unfold vgtb. intros a b c H1 H2.
  destruct (vcmp a b) eqn:E1; try discriminate. destruct (vcmp b c) eqn:E2; try discriminate.
  rewrite (vcmp_gt_trans _ _ _ E1 E2). reflexivity.
Qed.
Lemma vgtb_total : forall a b, a = b \/ vgtb a b = true \/ vgtb b a = true.
Proof.
  intros a b. unfold vgtb. rewrite (vcmp_antisym a b). destruct (vcmp a b) eqn:E; simpl; auto.
  left. apply vcmp_eq. exact E.
Qed.

Lemma vltb_vgtb : forall a b, vltb a b = vgtb b a.
Proof. intros. unfold vltb, vgtb. rewrite (vcmp_antisym a b). destruct (vcmp a b); reflexivity. Qed.

(* Stream::max / Stream::min as written in the library (closures c_max / c_min) *)
Theorem max_set_invariant : forall l l',
  (forall x, In x l <-> In x l') -> reduce_list c_max l = reduce_list c_max l'.
Proof. exact (extremum_set_invariant vgtb vgtb_irrefl vgtb_trans vgtb_total). Qed.

Theorem min_set_invariant : forall l l',
  (forall x, In x l <-> In x l') -> reduce_list c_min l = reduce_list c_min l'.
Proof.
  intros l l' S.
  assert (E : forall l0, reduce_list c_min l0 = reduce_list (pick (fun a b => vgtb b a)) l0).
  { intros l0. unfold reduce_list. generalize (@None val). induction l0 as [|x r IH]; intros o; simpl; auto.
    rewrite IH. f_equal. destruct o; simpl; auto. unfold c_min, pick. rewrite vltb_vgtb. reflexivity. }
  rewrite !E.
  apply (extremum_set_invariant (fun a b => vgtb b a)); auto.
  - intros a. apply vgtb_irrefl.
  - intros a b c H1 H2. eapply vgtb_trans; eauto.
  - intros a b. destruct (vgtb_total a b) as [e|[e|e]]; auto.
Qed.

(* ------------------------------------------------------------------ count, is_empty, value_counts *)

Lemma count_fold : forall l n, fold_left c_count l (VN n) = VN (n + N.of_nat (length l)).
Proof.
  induction l as [|x r IH]; intros n; simpl fold_left.
  - simpl. f_equal. lia.
  - unfold c_count at 2. simpl n_of. rewrite IH. f_equal. simpl length. lia.
Qed.

Theorem count_perm : forall l l', Permutation l l' ->
  fold_left c_count l (VN 0) = fold_left c_count l' (VN 0).
Proof. intros l l' P. rewrite !count_fold. rewrite (Permutation_length P). reflexivity. Qed.

Theorem is_empty_perm : forall l l', Permutation l l' -> u_is_empty_fun l = u_is_empty_fun l'.
Proof.
  intros l l' P. destruct l; destruct l'; auto.
  - apply Permutation_nil in P. discriminate.
  - symmetry in P. apply Permutation_nil in P. discriminate.
Qed.

Lemma count_spec_len : forall (l l' : list val), length l = length l' -> forall o,
  fold_left (fun o v => Some (c_count (match o with None => VN 0 | Some a => a end) v)) l o =
  fold_left (fun o v => Some (c_count (match o with None => VN 0 | Some a => a end) v)) l' o.
Proof.
  induction l as [|x r IH]; destruct l' as [|y s]; simpl; intros H o; try discriminate; auto.
Qed.

Lemma proj_perm_len : forall k l l', Permutation l l' -> length (proj k l) = length (proj k l').
Proof.
  intros k l l' P. unfold proj. rewrite !map_length. apply Permutation_length. apply filter_perm. exact P.
Qed.

(* KeyedStream::value_counts: every key's count is invariant under any reordering *)
Theorem value_counts_perm : forall l l', Permutation l l' -> forall k,
  klookup k (kfold_list (VN 0) c_count l) = klookup k (kfold_list (VN 0) c_count l').
Proof.
  intros l l' P k. rewrite !kfold_lookup. unfold kfold_spec.
  apply count_spec_len. apply proj_perm_len. exact P.
Qed.

(* ------------------------------------------------------------------ first / last under retries *)

Inductive stutter : list val -> list val -> Prop :=
| st_nil : stutter [] []
| st_keep : forall x l l', stutter l l' -> stutter (x :: l) (x :: l')
| st_dup : forall x l l', stutter (x :: l) l' -> stutter (x :: l) (x :: l').

Definition first_fun (l : list val) : list val := opt_list (reduce_list c_first (gen_list g_first VU l)).
Definition last_fun (l : list val) : list val := opt_list (reduce_list c_last l).

Lemma first_fun_hd : forall l, first_fun l = match l with [] => [] | x :: _ => [x] end.
Proof. intros [|x r]; reflexivity. Qed.

Theorem first_stutter : forall l l', stutter l l' -> first_fun l = first_fun l'.
Proof. intros l l' S. rewrite !first_fun_hd. destruct S; reflexivity. Qed.

Lemma last_indep : forall (l : list val) d d', l <> [] -> last l d = last l d'.
Proof.
  induction l as [|x r IH]; intros d d' H; [congruence|].
  destruct r as [|y r']; [reflexivity|]. apply IH. discriminate.
Qed.

Lemma last_fold : forall l a, fold_left c_last l a = last l a.
Proof.
  induction l as [|x r IH]; intros a; [reflexivity|].
  simpl fold_left. unfold c_last at 2. rewrite IH.
  destruct r as [|y r']; [reflexivity|].
  change (last (x :: y :: r') a) with (last (y :: r') a). apply last_indep. discriminate.
Qed.

Lemma last_fun_last : forall l, last_fun l = match l with [] => [] | x :: r => [last r x] end.
Proof.
  intros [|x r]; [reflexivity|]. unfold last_fun, reduce_list. simpl.
  rewrite reduce_fold, last_fold. reflexivity.
Qed.

Lemma stutter_nil_r : forall l, stutter l [] -> l = [].
Proof. intros l S. inversion S. reflexivity. Qed.

Lemma last_cons : forall (y : val) r d, last (y :: r) d = last r y.
Proof.
  intros y [|z r'] d; [reflexivity|].
  change (last (y :: z :: r') d) with (last (z :: r') d). apply last_indep. discriminate.
Qed.

Theorem last_stutter : forall l l', stutter l l' -> last_fun l = last_fun l'.
Proof.
  intros l l' S. rewrite !last_fun_last. induction S; auto.
  - destruct l as [|y r]; destruct l' as [|y' r']; auto.
    + inversion S.
    + apply stutter_nil_r in S. discriminate.
    + rewrite !last_cons. exact IHS.
  - destruct l' as [|y' r']; [inversion S|]. rewrite last_cons. exact IHS.
Qed.

(* weakening casts (weaken_ordering / weaken_retries): whatever is equal under the stronger
   reading is equal under the weaker one *)
Theorem weaken_sound : forall a b, equiv true a b -> equiv false a b.
Proof. intros a b H. simpl in *. subst. reflexivity. Qed.
