(* E8 Hydro engine -- tick-partition invariance (C28, C29).

   [TickInv]-style lemmas for each emitted DFIR fragment, for EVERY partition of its input
   into ticks (induction over the list of per-tick batches), and the composition over the
   IR: [run_s_den], [run_a_den]. *)
From Coq Require Import Arith PeanoNat.
From HV Require Import Hydro.Model Hydro.PBase.

(* ------------------------------------------------------------------ generic facts on [stateful] *)

Lemma stateful_length : forall (St I O : Type) lf (init : St) (step : St -> I -> O * St) xss s,
  length (stateful lf init step s xss) = length xss.
Proof.
  induction xss as [|xs r IH]; intros s; simpl; [reflexivity|].
  destruct (step s xs) as [o s']. simpl. rewrite IH. reflexivity.
Qed.

(* 'tick lifetime: nothing leaks from one tick into the next *)
Lemma stateful_tick : forall (St I O : Type) (init : St) (step : St -> I -> O * St) xss,
  stateful LTick init step init xss = map (fun xs => fst (step init xs)) xss.
Proof.
  induction xss as [|xs r IH]; simpl; [reflexivity|].
  destruct (step init xs) as [o s']. simpl. rewrite IH. reflexivity.
Qed.

Lemma run_items_app : forall (St : Type) (istep : St -> val -> list val * St) a b s,
  run_items istep s (a ++ b) =
  (fst (run_items istep s a) ++ fst (run_items istep (snd (run_items istep s a)) b),
   snd (run_items istep (snd (run_items istep s a)) b)).
Proof.
  induction a as [|x r IH]; intros b s; simpl.
  - destruct (run_items istep s b); reflexivity.
  - destruct (istep s x) as [o s1]. rewrite IH.
    destruct (run_items istep s1 r) as [o2 s2]. simpl.
    destruct (run_items istep s2 b) as [o3 s3]. simpl. rewrite app_assoc. reflexivity.
Qed.

(* a 'static streaming operator sees the concatenation of the ticks *)
Lemma static_items_init : forall (St : Type) (istep : St -> val -> list val * St) xss init s,
  concat (stateful LStatic init (run_items istep) s xss) = fst (run_items istep s (concat xss)).
Proof.
  induction xss as [|xs r IH]; intros init s; simpl; [reflexivity|].
  rewrite run_items_app. simpl.
  destruct (run_items istep s xs) as [o s'] eqn:E. simpl. rewrite IH. reflexivity.
Qed.

Lemma enum_items : forall l n, fst (run_items enum_istep n l) = enum_from n l.
Proof.
  induction l as [|x r IH]; intros n; simpl; [reflexivity|].
  specialize (IH (N.succ n)). destruct (run_items enum_istep (N.succ n) r). simpl in *. congruence.
Qed.

Lemma uniq_items : forall l seen, fst (run_items uniq_istep seen l) = uniq_from seen l.
Proof.
  induction l as [|x r IH]; intros seen; simpl; [reflexivity|].
  unfold uniq_istep at 1. destruct (memb x seen).
  - specialize (IH seen). destruct (run_items uniq_istep seen r). simpl in *. exact IH.
  - specialize (IH (seen ++ [x])). destruct (run_items uniq_istep (seen ++ [x]) r).
    simpl in *. congruence.
Qed.

(* TickInv enumerate::<'static> / unique::<'static> *)
Lemma enumerate_tickinv : forall xss,
  concat (op_run LStatic 0%N (run_items enum_istep) xss) = enum_from 0 (concat xss).
Proof. intros. unfold op_run. rewrite static_items_init. apply enum_items. Qed.

Lemma unique_tickinv : forall xss,
  concat (op_run LStatic [] (run_items uniq_istep) xss) = uniq (concat xss).
Proof. intros. unfold op_run. rewrite static_items_init. apply uniq_items. Qed.

Lemma gen_dead : forall init f l, fst (run_items (gen_istep init f) GDead l) = [].
Proof.
  induction l as [|x r IH]; simpl; [reflexivity|].
  destruct (run_items (gen_istep init f) GDead r). simpl in *. exact IH.
Qed.

Lemma gen_returned : forall init f l, fst (run_items (gen_istep init f) GReturned l) = [].
Proof.
  intros init f [|x r]; simpl; [reflexivity|].
  pose proof (gen_dead init f r) as D. destruct (run_items (gen_istep init f) GDead r). exact D.
Qed.

Lemma gen_active : forall init f l a,
  fst (run_items (gen_istep init f) (GActive a) l) = gen_list f a l.
Proof.
  induction l as [|x r IH]; intros a; simpl; [reflexivity|].
  destruct (f a x) as [a' g]. destruct g.
  - specialize (IH a'). destruct (run_items (gen_istep init f) (GActive a') r). simpl in *. congruence.
  - pose proof (gen_returned init f r) as D.
    destruct (run_items (gen_istep init f) GReturned r). simpl in *. rewrite D. reflexivity.
  - specialize (IH a'). destruct (run_items (gen_istep init f) (GActive a') r). simpl in *. congruence.
  - pose proof (gen_dead init f r) as D.
    destruct (run_items (gen_istep init f) GDead r). simpl in *. exact D.
Qed.

Lemma gen_init : forall init f l,
  fst (run_items (gen_istep init f) GInit l) = gen_list f init l.
Proof.
  intros init f [|x r]; [reflexivity|].
  pose proof (gen_active init f (x :: r) init) as A. simpl in A |- *. exact A.
Qed.

(* TickInv scan::<'static> + flat_map (Stream::generator at top level): once the generator has
   returned or broken, DFIR scan keeps its state dropped in all later ticks *)
Lemma gen_tickinv : forall init f xss,
  concat (op_run LStatic GInit (run_items (gen_istep init f)) xss) = gen_list f init (concat xss).
Proof. intros. unfold op_run. rewrite static_items_init. apply gen_init. Qed.

(* ------------------------------------------------------------------ blocking aggregates *)

Lemma last_cons_ne : forall (A : Type) (x : A) l d, l <> [] -> last (x :: l) d = last l d.
Proof. intros A x [|y r] d H; [congruence | reflexivity]. Qed.

Lemma stateful_cons : forall (St I O : Type) lf (init : St) (step : St -> I -> O * St) s xs r,
  stateful lf init step s (xs :: r) =
  fst (step s xs) :: stateful lf init step (match lf with LTick => init | LStatic => snd (step s xs) end) r.
Proof. intros. simpl. destruct (step s xs). reflexivity. Qed.

Section Agg.
  Variables (St : Type) (g : St -> val -> St) (out : St -> list val).
  Definition agg_step (s : St) (xs : list val) : list val * St :=
    let s' := fold_left g xs s in (out s', s').

  (* a 'static blocking aggregate holds, after the last tick, the aggregate of the whole input *)
  Lemma agg_tickinv : forall xss i0 s, xss <> [] ->
    last (stateful LStatic i0 agg_step s xss) [] = out (fold_left g (concat xss) s).
  Proof.
    induction xss as [|xs r IH]; intros i0 s H; [congruence|].
    rewrite stateful_cons. destruct r as [|ys r'].
    - simpl. rewrite app_nil_r. reflexivity.
    - rewrite last_cons_ne.
      + rewrite IH by discriminate. simpl. rewrite !fold_left_app. reflexivity.
      + rewrite stateful_cons. discriminate.
  Qed.
End Agg.

Lemma fold_tickinv : forall acc init xss, xss <> [] ->
  last (op_run LStatic init (fold_step acc) xss) [] = [fold_left acc (concat xss) init].
Proof. intros. apply (agg_tickinv _ acc (fun s => [s])). assumption. Qed.

Lemma reduce_tickinv : forall f xss, xss <> [] ->
  last (op_run LStatic None (reduce_step f) xss) [] = opt_list (reduce_list f (concat xss)).
Proof. intros. apply (agg_tickinv _ (reduce_opt f) opt_list). assumption. Qed.

Lemma kfold_tickinv_gen : forall init acc xss i0 m, xss <> [] ->
  last (stateful LStatic i0 (kfold_step init acc) m xss) [] =
  kentries (fold_left (kfold_upd init acc) (concat xss) m).
Proof. intros. apply (agg_tickinv _ (kfold_upd init acc) kentries). assumption. Qed.

Lemma kreduce_tickinv_gen : forall f xss i0 m, xss <> [] ->
  last (stateful LStatic i0 (kreduce_step f) m xss) [] =
  kentries (fold_left (kreduce_upd f) (concat xss) m).
Proof. intros. apply (agg_tickinv _ (kreduce_upd f) kentries). assumption. Qed.

(* ------------------------------------------------------------------ join -> multiset_delta *)

Lemma static_pairs_gen : forall m xss yss L R i1 i2,
  length xss = length yss ->
  Permutation
    (pairs_with m L R ++
     concat (stateful LStatic i1 mdelta_step (pairs_with m L R)
               (stateful LStatic i2 (pair_step m LStatic LStatic) (L, R) (combine xss yss))))
    (pairs_with m (L ++ concat xss) (R ++ concat yss)).
Proof.
  induction xss as [|xs r IH]; intros [|ys s] L R i1 i2 H; simpl in H; try discriminate.
  - simpl. rewrite !app_nil_r. reflexivity.
  - injection H as H. simpl.
    destruct (pairs_grow m L R xs ys) as [E PE].
    pose proof (mdelta_perm _ _ _ PE) as PD.
    specialize (IH s (L ++ xs) (R ++ ys) i1 i2 H).
    rewrite <- !app_assoc in IH. rewrite <- IH.
    rewrite app_assoc. apply Permutation_app_tail.
    rewrite PD. symmetry. exact PE.
Qed.

(* TickInv (join_multiset<'static,'static> -> multiset_delta): the union over all ticks of what is
   emitted is the join of the whole inputs, whatever the partition *)
Lemma static_pairs_tickinv : forall m xss yss, length xss = length yss ->
  Permutation (concat (static_pairs m xss yss)) (pairs_with m (concat xss) (concat yss)).
Proof.
  intros m xss yss H. unfold static_pairs, op_run.
  pose proof (static_pairs_gen m xss yss [] [] [] ([], []) H) as P. simpl in P. exact P.
Qed.

(* ------------------------------------------------------------------ anti_join with a bounded side *)

Lemma anti_tickinv_gen : forall neg xss (r : list env) i0,
  length xss = length r ->
  concat (stateful LStatic i0 anti_step neg (combine xss (map (fun _ => []) r)))
  = anti neg (concat xss).
Proof.
  induction xss as [|xs s IH]; intros [|e r] i0 H; simpl in H; try discriminate; [reflexivity|].
  injection H as H. simpl. rewrite app_nil_r. rewrite (IH r i0 H).
  unfold anti. rewrite filter_app. reflexivity.
Qed.

Lemma anti_tickinv : forall neg xss (bs : list env), length xss = length bs -> bs <> [] ->
  concat (op_run LStatic [] anti_step (combine xss (first_tick neg bs))) = anti neg (concat xss).
Proof.
  intros neg [|xs s] [|e r] H NE; simpl in H; try discriminate; [congruence|].
  injection H as H. unfold op_run. simpl.
  rewrite (anti_tickinv_gen neg s r [] H). unfold anti. rewrite filter_app. reflexivity.
Qed.

Lemma diff_tickinv_gen : forall neg xss (r : list env) i0,
  length xss = length r ->
  concat (stateful LStatic i0 diff_step neg (combine xss (map (fun _ => []) r)))
  = diff neg (concat xss).
Proof.
  induction xss as [|xs s IH]; intros [|e r] i0 H; simpl in H; try discriminate; [reflexivity|].
  injection H as H. simpl. rewrite app_nil_r. rewrite (IH r i0 H).
  unfold diff. rewrite filter_app. reflexivity.
Qed.

Lemma diff_tickinv : forall neg xss (bs : list env), length xss = length bs -> bs <> [] ->
  concat (op_run LStatic [] diff_step (combine xss (first_tick neg bs))) = diff neg (concat xss).
Proof.
  intros neg [|xs s] [|e r] H NE; simpl in H; try discriminate; [congruence|].
  injection H as H. unfold op_run. simpl.
  rewrite (diff_tickinv_gen neg s r [] H). unfold diff. rewrite filter_app. reflexivity.
Qed.

(* ------------------------------------------------------------------ join with a Bounded build side *)

(* join_multiset_half<'static,'tick> when the build side is complete in the first tick: every
   probe item meets the whole build side, in probe order -- an EQUALITY of sequences, and no
   replay, hence no multiset_delta.  What makes it sound: the build input is empty after tick 0. *)
Lemma half_tickinv_gen : forall m xss (r : list env) R i0, length xss = length r ->
  concat (stateful LStatic i0 (pair_step m LTick LStatic) ([], R) (combine xss (map (fun _ => []) r)))
  = pairs_with m (concat xss) R.
Proof.
  induction xss as [|xs s IH]; intros [|e r] R i0 H; simpl in H; try discriminate; [reflexivity|].
  injection H as H. simpl. rewrite app_nil_r. rewrite (IH r R i0 H). rewrite pairs_app_l. reflexivity.
Qed.

Lemma half_tickinv : forall m xss R (bs : list env), length xss = length bs -> bs <> [] ->
  concat (op_run LStatic ([], []) (pair_step m LTick LStatic) (combine xss (R :: map (fun _ => []) (tl bs))))
  = pairs_with m (concat xss) R.
Proof.
  intros m [|xs s] R [|e r] H NE; simpl in H; try discriminate; [congruence|].
  injection H as H. unfold op_run. simpl.
  rewrite (half_tickinv_gen m s r R ([], []) H). rewrite pairs_app_l. reflexivity.
Qed.

(* a Bounded top-level stream is complete in the first tick *)
Lemma bounded_first_tick : forall n, bounded_s n = true -> forall e r,
  run_s n (e :: r) = den_s n (flat (e :: r)) :: map (fun _ => []) r.
Proof.
  induction n; simpl; intros B e r; try discriminate;
    try (rewrite (IHn B e r); reflexivity);
    try (rewrite (IHn B e r); simpl; rewrite map_map; reflexivity).
  reflexivity.
Qed.

(* ------------------------------------------------------------------ composition over the IR *)

Lemma first_tick_length : forall l (bs : list env), length (first_tick l bs) = length bs.
Proof. intros l [|e r]; simpl; [reflexivity|]. rewrite map_length. reflexivity. Qed.

Lemma run_s_length : forall n bs, length (run_s n bs) = length bs.
Proof.
  induction n; intros bs; simpl;
    rewrite ?map_length, ?combine_length, ?first_tick_length;
    unfold static_pairs, op_run;
    rewrite ?stateful_length, ?combine_length, ?first_tick_length;
    rewrite ?IHn, ?IHn1, ?IHn2; try reflexivity; try apply Nat.min_id.
Qed.

Lemma run_a_length : forall a bs, length (run_a a bs) = length bs.
Proof.
  induction a; intros bs; simpl; unfold op_run;
    rewrite ?map_length, ?stateful_length, ?run_s_length; auto.
Qed.

Lemma flat_map_perm : forall (g : val -> list val) a b,
  Permutation a b -> Permutation (flat_map g a) (flat_map g b).
Proof. intros. apply Permutation_flat_map. assumption. Qed.

(* C28 / C29 on stream-valued nodes: for every partition [bs] of the inputs into ticks, everything
   the emitted dataflow outputs over the run is the denotation of the whole inputs -- as a
   sequence when the node is typed TotalOrder, as a multiset otherwise *)
Theorem run_s_den : forall n bs, wf_s n -> bs <> [] ->
  equiv (ord n) (concat (run_s n bs)) (den_s n (flat bs)).
Proof.
  induction n; intros bs W NE; simpl in W |- *.
  - (* SSrc *) reflexivity.
  - (* SIter *) destruct bs as [|e r]; [congruence|]. simpl.
    rewrite concat_empties. apply app_nil_r.
  - (* SMap *) rewrite concat_map_map. apply equiv_congr; [apply Permutation_map | auto].
  - (* SFilter *) rewrite concat_map_filter. apply equiv_congr; [apply filter_perm | auto].
  - (* SFlatMap *) rewrite concat_map_flat_map.
    apply equiv_weaken with (o1 := ord n).
    + intros H. apply andb_true_iff in H. tauto.
    + apply equiv_congr; [apply flat_map_perm | auto].
  - (* SFilterMap *) rewrite concat_map_flat_map. apply equiv_congr; [apply flat_map_perm | auto].
  - (* SInspect *) auto.
  - (* SWeaken *) eapply equiv_perm. apply IHn; auto.
  - (* SUnion *) destruct W as [W1 W2].
    rewrite concat_zip_app by (rewrite !run_s_length; reflexivity).
    apply Permutation_app; eapply equiv_perm; eauto.
  - (* SEnumerate *) destruct W as [O W]. rewrite enumerate_tickinv.
    specialize (IHn bs W NE). rewrite O in IHn. simpl in IHn. rewrite IHn. reflexivity.
  - (* SUnique *) rewrite unique_tickinv. apply equiv_congr; [apply uniq_perm | auto].
  - (* SJoin *) destruct W as [W1 W2].
    rewrite static_pairs_tickinv by (rewrite !run_s_length; reflexivity).
    apply pairs_perm; eapply equiv_perm; eauto.
  - (* SCross *) destruct W as [W1 W2].
    rewrite static_pairs_tickinv by (rewrite !run_s_length; reflexivity).
    apply pairs_perm; eapply equiv_perm; eauto.
  - (* SAntiJoin *) rewrite anti_tickinv by (auto using run_s_length).
    apply equiv_congr; [intros; apply filter_perm; assumption | auto].
  - (* SGen *) destruct W as [O W]. rewrite gen_tickinv.
    specialize (IHn bs W NE). rewrite O in IHn |- *. simpl in IHn |- *. rewrite IHn. reflexivity.
  - (* SJoinHalf *) destruct W as (B & W1 & W2). destruct bs as [|e r]; [congruence|].
    rewrite (bounded_first_tick n2 B e r).
    change (map (fun _ : env => @nil val) r) with (map (fun _ : env => @nil val) (tl (e :: r))).
    rewrite half_tickinv by (auto using run_s_length).
    pose proof (IHn1 (e :: r) W1 NE) as D1.
    destruct (ord n1) eqn:O1; destruct (ord n2) eqn:O2; simpl in D1 |- *;
      try (rewrite D1; reflexivity); apply pairs_perm; try reflexivity;
      try (rewrite D1; reflexivity); exact D1.
  - (* SDifference *) rewrite diff_tickinv by (auto using run_s_length).
    apply equiv_congr; [intros; apply filter_perm; assumption | auto].
  - (* SPart *) rewrite concat_map_filter. apply equiv_congr; [apply filter_perm | auto].
Qed.

Lemma last_map : forall (f : val -> val) yss,
  last (map (map f) yss) [] = map f (last yss []).
Proof.
  induction yss as [|y r IH]; simpl; [reflexivity|].
  destruct r; simpl in *; [reflexivity | exact IH].
Qed.

Lemma run_s_nonempty : forall n bs, bs <> [] -> run_s n bs <> [].
Proof.
  intros n bs NE E. apply (f_equal (@length _)) in E. rewrite run_s_length in E.
  destruct bs; [congruence | discriminate].
Qed.

(* C28 on singletons, optionals and keyed singletons: after any partition of the inputs into at
   least one tick, the value held after the last tick is the denotation of the whole inputs *)
Theorem run_a_den : forall a bs, wf_a a -> bs <> [] ->
  equiv (aexact a) (last (run_a a bs) []) (den_a a (flat bs)).
Proof.
  induction a; intros bs W NE; simpl in W |- *.
  - (* AFold *) destruct W as [W C].
    rewrite fold_tickinv by (apply run_s_nonempty; assumption).
    pose proof (run_s_den x bs W NE) as D. destruct (ord x) eqn:O; simpl in D.
    + rewrite D. reflexivity.
    + rewrite (fold_left_perm acc (C eq_refl) _ _ D). reflexivity.
  - (* AReduce *) destruct W as [W C].
    rewrite reduce_tickinv by (apply run_s_nonempty; assumption).
    pose proof (run_s_den x bs W NE) as D. destruct (ord x) eqn:O; simpl in D.
    + rewrite D. reflexivity.
    + rewrite (reduce_perm f (C eq_refl) _ _ D). reflexivity.
  - (* AFoldKeyed *) destruct W as [W O]. unfold op_run.
    rewrite kfold_tickinv_gen by (apply run_s_nonempty; assumption).
    pose proof (run_s_den x bs W NE) as D. rewrite O in D. simpl in D. rewrite D. reflexivity.
  - (* AReduceKeyed *) destruct W as [W O]. unfold op_run.
    rewrite kreduce_tickinv_gen by (apply run_s_nonempty; assumption).
    pose proof (run_s_den x bs W NE) as D. rewrite O in D. simpl in D. rewrite D. reflexivity.
  - (* AMap *) rewrite last_map. apply equiv_congr; [apply Permutation_map | auto].
Qed.

(* ------------------------------------------------------------------ the property statements *)

Definition flow_wf (f : flow) : Prop := match f with FS n => wf_s n | FA a => wf_a a end.

(* C28: the final contents do not depend on how the runtime splits the inputs into ticks *)
Definition C28_stmt : Prop :=
  forall (f : flow) (bs1 bs2 : list env), flow_wf f -> bs1 <> [] -> bs2 <> [] ->
    (forall i, flat bs1 i = flat bs2 i) ->
    equiv (flow_exact f) (flow_final f (flow_run f bs1)) (flow_final f (flow_run f bs2)).

Lemma flow_den_final : forall f bs, flow_wf f -> bs <> [] ->
  equiv (flow_exact f) (flow_final f (flow_run f bs)) (flow_den f (flat bs)).
Proof. intros [n|a] bs W NE; simpl; [apply run_s_den | apply run_a_den]; assumption. Qed.

Lemma den_s_ext : forall n e1 e2, (forall i, e1 i = e2 i) -> den_s n e1 = den_s n e2.
Proof. induction n; intros e1 e2 H; simpl; rewrite ?(IHn e1 e2 H), ?(IHn1 e1 e2 H), ?(IHn2 e1 e2 H); auto. Qed.

Lemma den_a_ext : forall a e1 e2, (forall i, e1 i = e2 i) -> den_a a e1 = den_a a e2.
Proof. induction a; intros e1 e2 H; simpl; rewrite ?(den_s_ext x e1 e2 H), ?(IHa e1 e2 H); auto. Qed.

Lemma equiv_sym : forall o a b, equiv o a b -> equiv o b a.
Proof. intros [|] a b H; simpl in *; [auto | symmetry; auto]. Qed.
Lemma equiv_trans : forall o a b c, equiv o a b -> equiv o b c -> equiv o a c.
Proof. intros [|] a b c H1 H2; simpl in *; [congruence | etransitivity; eauto]. Qed.

Theorem C28_proved : C28_stmt.
Proof.
  intros f bs1 bs2 W N1 N2 E.
  eapply equiv_trans; [apply flow_den_final; assumption|].
  apply equiv_sym.
  replace (flow_den f (flat bs1)) with (flow_den f (flat bs2)).
  - apply flow_den_final; assumption.
  - destruct f; simpl; [apply den_s_ext | apply den_a_ext]; auto.
Qed.

(* the executable form used on the implementation's outputs is exactly the conclusion *)
Lemma C28_holds_b_spec : forall f bs impl,
  C28_holds_b f bs impl = true <-> equiv (flow_exact f) (flow_final f impl) (flow_den f (flat bs)).
Proof. intros. unfold C28_holds_b. apply equiv_b_spec. Qed.

(* ------------------------------------------------------------------ C29: order *)

(* a node typed TotalOrder emits exactly the sequence its semantics defines, under every partition *)
Theorem C29_total_order : forall n bs, wf_s n -> bs <> [] -> ord n = true ->
  concat (run_s n bs) = den_s n (flat bs).
Proof. intros n bs W NE O. pose proof (run_s_den n bs W NE) as D. rewrite O in D. exact D. Qed.

(* keyed aggregation: the entry of key k depends only on k's subsequence *)
Lemma klookup_kupd : forall g k k' m,
  klookup k' (kupd g k m) = if val_eq_dec k' k then Some (g (klookup k m)) else klookup k' m.
Proof.
  induction m as [|[k0 v0] r IH]; simpl.
  - destruct (val_eq_dec k' k); reflexivity.
  - destruct (val_eq_dec k k0) as [->|ne]; simpl.
    + destruct (val_eq_dec k' k0); reflexivity.
    + destruct (val_eq_dec k' k0) as [->|ne2].
      * destruct (val_eq_dec k0 k); [congruence | reflexivity].
      * exact IH.
Qed.


Lemma kfold_lookup_gen : forall init acc k l m,
  klookup k (fold_left (kfold_upd init acc) l m) = kfold_spec init acc k l (klookup k m).
Proof.
  induction l as [|kv r IH]; intros m; simpl; [reflexivity|].
  rewrite IH. unfold kfold_upd. rewrite klookup_kupd. unfold kfold_spec, proj. simpl.
  unfold veqb. destruct (val_eq_dec (vfst kv) k) as [e|ne]; destruct (val_eq_dec k (vfst kv)); try congruence; simpl;
    try subst; reflexivity.
Qed.

(* per-key result = fold of that key's subsequence (None if the key never occurs) *)
Theorem kfold_lookup : forall init acc k l,
  klookup k (kfold_list init acc l) = kfold_spec init acc k l None.
Proof. intros. unfold kfold_list. rewrite kfold_lookup_gen. reflexivity. Qed.


Lemma kreduce_lookup_gen : forall f k l m,
  klookup k (fold_left (kreduce_upd f) l m) = kreduce_spec f k l (klookup k m).
Proof.
  induction l as [|kv r IH]; intros m; simpl; [reflexivity|].
  rewrite IH. unfold kreduce_upd. rewrite klookup_kupd. unfold kreduce_spec, proj. simpl.
  unfold veqb. destruct (val_eq_dec (vfst kv) k) as [e|ne]; destruct (val_eq_dec k (vfst kv)); try congruence; simpl;
    try subst; try destruct (klookup (vfst kv) m); reflexivity.
Qed.

Theorem kreduce_lookup : forall f k l,
  klookup k (kreduce_list f l) = kreduce_spec f k l None.
Proof. intros. unfold kreduce_list. rewrite kreduce_lookup_gen. reflexivity. Qed.

(* [proj_interleave]: two inputs that are cross-key interleavings of the same per-key sequences
   give every key the same result *)
Theorem proj_interleave_fold : forall init acc l1 l2,
  (forall k, proj k l1 = proj k l2) ->
  forall k, klookup k (kfold_list init acc l1) = klookup k (kfold_list init acc l2).
Proof. intros. rewrite !kfold_lookup. unfold kfold_spec. rewrite H. reflexivity. Qed.

Theorem proj_interleave_reduce : forall f l1 l2,
  (forall k, proj k l1 = proj k l2) ->
  forall k, klookup k (kreduce_list f l1) = klookup k (kreduce_list f l2).
Proof. intros. rewrite !kreduce_lookup. unfold kreduce_spec. rewrite H. reflexivity. Qed.

(* per-key order of a keyed stream is kept by the order-preserving stateless operators *)
Lemma proj_app : forall k a b, proj k (a ++ b) = proj k a ++ proj k b.
Proof. intros. unfold proj. rewrite filter_app, map_app. reflexivity. Qed.

Lemma proj_concat : forall k xss, proj k (concat xss) = concat (map (proj k) xss).
Proof. induction xss as [|xs r IH]; simpl; [reflexivity|]. rewrite proj_app, IH. reflexivity. Qed.
