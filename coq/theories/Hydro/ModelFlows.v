(* E8 Hydro engine -- the corpus flows of harness/h_hydro_flows/src/lib.rs as IR terms.
   Each closure is the Gallina mirror of the Rust closure of the same flow (u32 arithmetic
   stays far below 2^32 on the generated inputs). Definitions only. *)
From HV Require Import Hydro.Model.

Definition n_of (v : val) : N := match v with VN n => n | _ => 0%N end.
Definition vn1 (f : N -> N) (v : val) : val := VN (f (n_of v)).
Definition vn2 (f : N -> N -> N) (a b : val) : val := VN (f (n_of a) (n_of b)).
Definition kf (v : val) : N := n_of (vfst v).   (* first / second component of a pair of numbers *)
Definition vf (v : val) : N := n_of (vsnd v).

Open Scope N_scope.

Definition c_rep3 (v : val) : list val := repeat v (N.to_nat (n_of v mod 3)).  (* vec![x; x % 3] *)
Definition c_plus := vn2 N.add.
Definition c_count (c _x : val) : val := VN (n_of c + 1).
Definition c_max (c n : val) : val := if vgtb n c then n else c.   (* if new > *curr { *curr = new } *)
Definition c_min (c n : val) : val := if vltb n c then n else c.
Definition c_last (_c n : val) : val := n.

Definition f_map := FS (SMap (vn1 (fun x => x * 2 + 1)) (SSrc 0)).
Definition f_filter := FS (SFilter (fun v => n_of v mod 3 =? 0) (SSrc 0)).
Definition f_flat_map := FS (SFlatMap true c_rep3 (SSrc 0)).
Definition f_filter_map :=
  FS (SFilterMap (fun v => if n_of v mod 2 =? 0 then Some (VN (n_of v / 2)) else None) (SSrc 0)).
Definition f_enumerate := FS (SEnumerate (SSrc 0)).
Definition f_unique := FS (SUnique (SSrc 0)).
Definition f_union := FS (SUnion (SSrc 0) (SSrc 1)).
Definition f_join := FS (SJoin (SSrc 0) (SSrc 1)).
Definition f_cross := FS (SCross (SSrc 0) (SSrc 1)).
Definition f_anti_join := FS (SAntiJoin (SSrc 0) [VN 1; VN 3]).

Definition f_fold := FA (AFold (VN 0) (vn2 (fun a x => (a * 2 + x) mod 1009)) (SSrc 0)).
Definition f_fold_comm := FA (AFold (VN 0) c_plus (SWeaken (SSrc 0))).
Definition f_count := FA (AFold (VN 0) c_count (SSrc 0)).
Definition f_max := FA (AReduce c_max (SSrc 0)).
Definition f_min := FA (AReduce c_min (SSrc 0)).
Definition f_last := FA (AReduce c_last (SSrc 0)).
Definition f_reduce := FA (AReduce (vn2 (fun a x => (a * 3 + x) mod 1009)) (SSrc 0)).
Definition f_fold_keyed := FA (AFoldKeyed (VN 1) (vn2 (fun a v => (a * 2 + v) mod 1009)) (SSrc 0)).
Definition f_reduce_keyed := FA (AReduceKeyed (vn2 (fun a v => (a * 3 + v) mod 1009)) (SSrc 0)).

Definition f_map_filter_unique :=
  FS (SUnique (SFilter (fun v => negb (n_of v =? 2)) (SMap (vn1 (fun x => x mod 4)) (SSrc 0)))).
Definition f_flat_map_enumerate :=
  FS (SMap (fun p => VP (vsnd p) (vfst p)) (SEnumerate (SFlatMap true c_rep3 (SSrc 0)))).
Definition f_join_fold :=
  FA (AFold (VN 0) c_plus
        (SMap (fun p => VN (kf p + n_of (vfst (vsnd p)) * n_of (vsnd (vsnd p))))
              (SJoin (SSrc 0) (SSrc 1)))).
Definition f_union_unique_count :=
  FA (AFold (VN 0) c_count (SUnique (SUnion (SSrc 0) (SMap (vn1 (fun x => x + 1)) (SSrc 1))))).
Definition f_cross_filter :=
  FS (SFilter (fun p => kf p <? vf p) (SCross (SSrc 0) (SUnique (SSrc 1)))).
Definition f_unique_join :=
  FS (SMap (fun p => VP (vfst p) (VN (n_of (vfst (vsnd p)) + n_of (vsnd (vsnd p)))))
        (SJoin (SUnique (SSrc 0)) (SFilter (fun p => vf p mod 2 =? 1) (SSrc 1)))).
Definition f_count_map :=
  FA (AMap (vn1 (fun c => c * 10)) (AFold (VN 0) c_count (SFilter (fun v => n_of v mod 2 =? 1) (SSrc 0)))).
Definition f_anti_join_unique :=
  FS (SUnique (SMap (fun p => VN (kf p * 10 + vf p)) (SAntiJoin (SSrc 0) [VN 0; VN 2]))).
Definition f_keyed_max :=
  FA (AReduceKeyed c_max (SMap (fun p => VP (VN (kf p mod 2)) (vsnd p)) (SSrc 0))).

Close Scope N_scope.

(* ------------------------------------------------------------------ tick-scoped corpus (C30) *)
From HV Require Import Hydro.ModelTick.
Open Scope N_scope.

Definition c_first (a _n : val) : val := a.                      (* reduce(q!(|_, _| {})) *)
Definition g_first (s item : val) : val * gen := (s, GReturn item).
Definition g_limit2 (c item : val) : val * gen :=                 (* Stream::limit(q!(2)) *)
  if n_of c =? 2 then (c, GBreak)
  else let c' := VN (n_of c + 1) in (c', if n_of c' =? 2 then GReturn item else GYield item).

Definition t_fold := BFold (VN 0) (vn2 (fun a x => (a * 2 + x) mod 1009)) (BBatch 0).
Definition t_reduce := BReduce (vn2 (fun a x => (a * 3 + x) mod 1009)) (BBatch 0).
Definition t_count := BFold (VN 0) c_count (BBatch 0).
Definition t_max := BReduce c_max (BBatch 0).
Definition t_min := BReduce c_min (BBatch 0).
Definition t_first := BReduce c_first (BGen VU g_first (BBatch 0)).
Definition t_last := BReduce c_last (BBatch 0).
Definition t_limit := BGen (VN 0) g_limit2 (BBatch 0).
Definition t_sort := BSort (BBatch 0).
Definition t_enumerate := BEnumerate (BBatch 0).
Definition t_unique := BUnique (BBatch 0).
Definition t_chain := BChain (BBatch 0) (BMap (vn1 (fun x => x + 100)) (BBatch 1)).
Definition t_join := BJoin (BBatch 0) (BBatch 1).
Definition t_cross := BCross (BBatch 0) (BBatch 1).
Definition t_anti_join := BAntiJoin (BBatch 0) (BBatch 1).
Definition t_cross_singleton :=
  BMap (fun p => p) (BCrossSingleton (BBatch 0) (BFold (VN 0) c_count (BBatch 1))).
Definition t_fold_keyed := BFoldKeyed (VN 1) (vn2 (fun a v => (a * 2 + v) mod 1009)) (BBatch 0).
Definition t_reduce_keyed := BReduceKeyed (vn2 (fun a v => (a * 3 + v) mod 1009)) (BBatch 0).
Definition t_defer := BDefer (BBatch 0).
Definition t_defer_chain :=
  BChain (BMap (vn1 (fun x => x * 2)) (BBatch 0)) (BDefer (BDefer (BBatch 1))).
Definition t_defer_count :=
  BFold (VN 0) c_count (BDefer (BFilter (fun v => negb (n_of v =? 0)) (BBatch 0))).
Definition t_sort_enumerate_fold :=
  BFold (VN 0) c_plus
    (BMap (fun p => VN ((kf p + 1) * vf p)) (BEnumerate (BSort (BUnique (BBatch 0))))).
(* a left TotalOrder stream joined with a bounded NoOrder right side: typed TotalOrder by
   `PreserveOrderIfBounded` (the flow compiles with embedded_output, which demands TotalOrder) *)
Definition t_join_half_unord := BJoin (BBatch 0) (BWeaken (BBatch 1)).

(* tick cycle: carry.chain(batch).unique().sort(), completed for the next tick *)
Definition t_cycle_body (carry : list val) (e : env) : list val := vsort (uniq (carry ++ e 0%nat)).
Definition t_cycle_emit : list string :=
  ["for_each"; "chain"; "defer_tick_lazy"; "sort"; "source_stream"; "unique<'tick>"]%string.
Definition chk_toks (expected observed : list string) : N :=
  if toks_eqb expected observed then 0 else 1.

Close Scope N_scope.

(* ------------------------------------------------------------------ trusted-assumption flows (C32) *)
Open Scope N_scope.
(* get_max_key: `if new.0 > curr.0 { *curr = new }` for K: Ord *)
Definition c_maxkey (curr new : val) : val := if vgtb (vfst new) (vfst curr) then new else curr.
Definition u_max := BReduce c_max (BWeaken (BBatch 0)).
Definition u_min := BReduce c_min (BWeaken (BBatch 0)).
Definition u_count := BFold (VN 0) c_count (BWeaken (BBatch 0)).
Definition u_first := BReduce c_first (BGen VU g_first (BBatch 0)).
Definition u_last := BReduce c_last (BBatch 0).
Definition u_value_counts := BFoldKeyed (VN 0) c_count (BWeaken (BBatch 0)).
Definition u_get_max_key :=
  BReduce c_maxkey (BReduceKeyed (vn2 (fun a v => (a * 3 + v) mod 1009)) (BBatch 0)).
(* is_empty = first().is_none(): a longer pipeline, specified directly per batch *)
Definition u_is_empty_fun (xs : list val) : list val := [VN (match xs with [] => 1 | _ => 0 end)].
Definition u_is_empty_emit : list string :=
  ["for_each"; "source_stream"; "scan<'tick>"; "flat_map"; "reduce<'tick>"; "map"; "map"; "map";
   "chain_first_n"; "source_iter"; "persist<'static>"]%string.
Close Scope N_scope.

(* generic per-batch function check (actual arrival order vs base input) *)
Definition chk_fun (F : list val -> list val) (ticks base : list (list (list val)))
  (impl : list (list val)) : N :=
  verdict (ticks_agree true impl (map (fun t => F (nth 0 t [])) ticks))
          (ticks_agree true impl (map (fun t => F (nth 0 t [])) base)).

(* ------------------------------------------------------------------ C33 flows *)
Definition m_value_counts := FA (AFoldKeyed (VN 0) c_count (SSrc 0)).
(* KeyedStream::first = fold_early_stop(..).map(unwrap): per key the first value, never changed *)
Definition m_keyed_first := FA (AReduceKeyed c_first (SSrc 0)).

(* entries() of the BoundedValue keyed singleton `first()`: per tick the entries of the keys first
   seen in that tick, with the first value of the key *)
Fixpoint kfirst_run (seen : list val) (xss : list (list val)) : list (list val) :=
  match xss with
  | [] => []
  | xs :: r =>
      let fresh := filter (fun e => negb (memb (vfst e) seen)) (kentries (kreduce_list c_first xs)) in
      fresh :: kfirst_run (seen ++ map vfst fresh) r
  end.
Definition chk33_first (ticks : list (list (list val))) (impl : list (list val)) : N :=
  let xss := map (fun t => nth 0%nat t []) ticks in
  verdict (ticks_agree false impl (kfirst_run [] xss))
          (perm_b (concat impl) (kentries (kreduce_list c_first (concat xss))) &&
           nodup_b (map vfst (concat impl))).
Definition m_keyed_first_emit : list string :=
  ["for_each"; "source_stream"; "scan<'static>"; "flat_map"; "map"]%string.

(* ------------------------------------------------------------------ distinct-keys sites (C32) *)
(* HashMap::insert of an entry *)
Definition ins_entry (m : list (val * val)) (e : val) : list (val * val) :=
  kupd (fun _ => vsnd e) (vfst e) m.
Definition into_map (es : list val) : list (val * val) := fold_left ins_entry es [].
(* cross_product_nested_loop(keys, items).into_keyed() *)
Definition nested (ks items : list val) : list val := flat_map (fun k => map (VP k) items) ks.
Fixpoint list_val (l : list val) : val := match l with [] => VU | x :: r => VP x (list_val r) end.
(* u_into_singleton: keyed reduce, into_singleton, then the map sorted into a Vec *)
Definition u_into_singleton_fun (xs : list val) : list val :=
  [list_val (vsort (kentries (kreduce_list (vn2 (fun a v => (a * 3 + v) mod 1009)%N) xs)))].
(* u_repeat_with_keys: items (input b) repeated for every key of the keyed reduce of input a *)
Definition u_repeat_fun (a b : list val) : list val :=
  nested (map fst (kreduce_list (vn2 (fun a v => (a * 3 + v) mod 1009)%N) a)) b.
Definition chk_fun2 (exact : bool) (F : list val -> list val -> list val)
  (ticks : list (list (list val))) (impl : list (list val)) : N :=
  let m := map (fun t => F (nth 0 t []) (nth 1 t [])) ticks in
  verdict (ticks_agree exact impl m) (ticks_agree exact impl m).

(* ------------------------------------------------------------------ reflection of well-formedness
   The terms translated from the builder's IR dump exist only at run time; their typing side
   conditions ([wf_s]/[wf_a]) are decided by an executable check, sound by [wf_rb_sound] (PFlows):
   stream nodes need only ordering facts; aggregation closures over unordered inputs must be one
   of the vocabulary closures proved commutative. *)
Fixpoint wf_sb (n : snode) : bool :=
  match n with
  | SSrc _ | SIter _ => true
  | SMap _ x | SFilter _ x | SFilterMap _ x | SInspect x | SWeaken x | SUnique x
  | SAntiJoin x _ | SFlatMap _ _ x | SDifference x _ | SPart _ _ x => wf_sb x
  | SEnumerate x | SGen _ _ x => ord x && wf_sb x
  | SUnion x y | SJoin x y | SCross x y => wf_sb x && wf_sb y
  | SJoinHalf x y => bounded_s y && (wf_sb x && wf_sb y)
  end.

(* KPlusMono / KCount are closures the API call annotates `monotone = manual_proof!(..)` *)
Inductive accode : Type := KPlus | KPlusMono | KCount | KOther (f : val -> val -> val).
Definition acc_interp (c : accode) : val -> val -> val :=
  match c with KPlus | KPlusMono => c_plus | KCount => c_count | KOther f => f end.
Definition acc_comm_b (c : accode) : bool := match c with KPlus | KPlusMono | KCount => true | KOther _ => false end.
Definition acc_mono_b (c : accode) : bool := match c with KPlusMono | KCount => true | _ => false end.

Inductive ranode : Type :=
| RFold (init : val) (c : accode) (x : snode)
| RReduce (f : val -> val -> val) (x : snode)
| RFoldKeyed (init : val) (c : accode) (x : snode)
| RReduceKeyed (f : val -> val -> val) (x : snode)
| RMap (f : val -> val) (a : ranode).

Fixpoint interp_a (r : ranode) : anode :=
  match r with
  | RFold init c x => AFold init (acc_interp c) x
  | RReduce f x => AReduce f x
  | RFoldKeyed init c x => AFoldKeyed init (acc_interp c) x
  | RReduceKeyed f x => AReduceKeyed f x
  | RMap f a => AMap f (interp_a a)
  end.

Fixpoint wf_rab (r : ranode) : bool :=
  match r with
  | RFold _ c x => wf_sb x && (ord x || acc_comm_b c)
  | RReduce _ x => wf_sb x && ord x   (* no commutative+associative reduce closure in the vocabulary *)
  | RFoldKeyed _ _ x | RReduceKeyed _ x => wf_sb x && ord x
  | RMap _ a => wf_rab a
  end.

Inductive rflow : Type := RS (n : snode) | RA (r : ranode).
Definition rinterp (f : rflow) : flow := match f with RS n => FS n | RA r => FA (interp_a r) end.
Definition wf_rb (f : rflow) : bool := match f with RS n => wf_sb n | RA r => wf_rab r end.
Definition chk_wf (f : rflow) : N := if wf_rb f then 0%N else 1%N.

(* ---- the bound judgement of singletons / keyed singletons (SingletonBound / KeyedSingletonBound):
   which API keeps and which erases a monotonicity promise.
     fold with a `monotone` proof (count)            -> Monotonic singleton
     keyed fold with a `monotone` proof (value_counts) -> MonotonicValue
     keyed fold without                               -> MonotonicKeys   (KeyedStreamToNonMonotone)
     keyed reduce, fold without proof, reduce         -> Unbounded       (no promise)
     map / map_with_key (any closure)                 -> B::EraseMonotonic:
                                                         MonotonicValue -> MonotonicKeys,
                                                         Monotonic singleton -> Unbounded *)
Inductive abnd := BUnb | BMonoKeys | BMonoValue | BMonoSingle.
Definition erase_mono (b : abnd) : abnd :=
  match b with BMonoValue => BMonoKeys | BMonoSingle => BUnb | _ => b end.
Fixpoint abound (r : ranode) : abnd :=
  match r with
  | RFold _ c _ => if acc_mono_b c then BMonoSingle else BUnb
  | RReduce _ _ => BUnb
  | RFoldKeyed _ c _ => if acc_mono_b c then BMonoValue else BMonoKeys
  | RReduceKeyed _ _ => BUnb
  | RMap _ a => erase_mono (abound a)
  end.
Definition abnd_eqb (a b : abnd) : bool :=
  match a, b with
  | BUnb, BUnb | BMonoKeys, BMonoKeys | BMonoValue, BMonoValue | BMonoSingle, BMonoSingle => true
  | _, _ => false
  end.
(* the model's bound of every translated aggregate node against the bound the builder recorded *)
Definition chk_abounds (l : list (ranode * abnd)) : N :=
  if forallb (fun e => abnd_eqb (abound (fst e)) (snd e)) l then 0%N else 1%N.
(* the promise a recorded bound makes about consecutive snapshots *)
Definition promise_of (b : abnd) : mono_kind :=
  match b with BUnb => NoPromise | BMonoKeys => MonoKeys | BMonoValue => MonoValue | BMonoSingle => MonoSingle end.
