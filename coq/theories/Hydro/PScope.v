(* E8 Hydro engine -- C30: tick-scoped collections behave like finite batches *)
From Coq Require Import Arith PeanoNat.
From HV Require Import Hydro.Model Hydro.ModelTick Hydro.PBase Hydro.PTick.

(* a 'tick operator over a sequence of ticks is the per-tick map of its single-tick function:
   its state at the start of every tick is the initial state (no leak) *)
Lemma op_run_tick : forall (St I O : Type) (init : St) (step : St -> I -> O * St) xss,
  op_run LTick init step xss = map (fun xs => fst (step init xs)) xss.
Proof. intros. apply stateful_tick. Qed.

(* defer_tick_lazy: the output is the input shifted by exactly one tick *)
Lemma defer_shift_gen : forall xss i0 buf,
  stateful LStatic i0 defer_step buf xss =
  match xss with [] => [] | _ => buf :: removelast xss end.
Proof.
  induction xss as [|xs r IH]; intros i0 buf; [reflexivity|].
  simpl stateful. rewrite IH. destruct r; reflexivity.
Qed.

Lemma defer_shift : forall xss, op_run LStatic [] defer_step xss = shift xss.
Proof. intros. unfold op_run, shift. apply defer_shift_gen. Qed.

Lemma map_combine_ext : forall (A B C : Type) (f g : A * B -> C) l,
  (forall p, f p = g p) -> map f l = map g l.
Proof. intros. apply map_ext. assumption. Qed.

Lemma wm_payloads : forall f xs m,
  fold_left (wm_acc f) (map inl xs) (m, None) = (fold_left (kreduce_upd f) xs m, None).
Proof. induction xs as [|x r IH]; intros m; simpl; [reflexivity | apply IH]. Qed.

(* the watermark fold = keyed reduce of the batch, then everything below the watermark removed *)
Lemma wm_fold_spec : forall f xs ws, wm_fold f xs ws = wm_spec f xs ws.
Proof.
  intros f xs ws. destruct ws as [|w [|w2 r]]; try reflexivity; unfold wm_fold, wm_spec;
    rewrite fold_left_app, wm_payloads; reflexivity.
Qed.

(* source_iter([v]) -> persist::<'static>(): the value is present in every tick *)
Lemma persist_const_gen : forall (v : val) (r : list env) i0,
  stateful LStatic i0 persist_step [v] (map (fun _ => []) r) = map (fun _ => [v]) r.
Proof. induction r as [|e r IH]; intros i0; simpl; [reflexivity|]. rewrite IH. reflexivity. Qed.

Lemma persist_const : forall (v : val) (bs : list env),
  op_run LStatic [] persist_step (first_tick [v] bs) = map (fun _ => [v]) bs.
Proof. intros v [|e r]; [reflexivity|]. unfold op_run. simpl. rewrite persist_const_gen. reflexivity. Qed.

(* C30 (i): inside a tick every bounded operator equals its list function on the batch *)
Theorem brun_bspec : forall n bs, brun n bs = bspec n bs.
Proof.
  induction n; intros bs; simpl; rewrite ?op_run_tick, ?IHn, ?IHn1, ?IHn2; try reflexivity.
  - (* BEnumerate *) apply map_ext. intros xs. apply enum_items.
  - (* BUnique *) apply map_ext. intros xs. apply uniq_items.
  - (* BGen *) apply map_ext. intros xs. apply gen_init.
  - (* BDefer *) apply defer_shift.
  - (* BReduceKeyedWm *) apply map_ext. intros [xs ws]. apply wm_fold_spec.
  - (* BConst *) apply persist_const.
Qed.

Lemma nth_removelast : forall (A : Type) (l : list A) t d,
  S t < length l -> nth t (removelast l) d = nth t l d.
Proof.
  induction l as [|x r IH]; intros t d H; simpl in H; [lia|].
  destruct r as [|y r']; [simpl in H; lia|].
  destruct t; [reflexivity|]. simpl removelast. simpl nth. apply IH. simpl. simpl in H. lia.
Qed.

(* C30 (iii): what is deferred in tick t arrives in tick t+1, nothing arrives in tick 0 *)
Theorem defer_one_tick_later : forall x bs t, S t < length (brun x bs) ->
  nth (S t) (brun (BDefer x) bs) [] = nth t (brun x bs) [] /\ nth 0 (brun (BDefer x) bs) [] = [].
Proof.
  intros x bs t H. simpl. rewrite defer_shift. unfold shift.
  destruct (brun x bs) as [|xs r] eqn:E; [simpl in H; lia|]. split; [|reflexivity].
  change (nth (S t) ([] :: removelast (xs :: r)) []) with (nth t (removelast (xs :: r)) []).
  apply nth_removelast. exact H.
Qed.

(* tick cycle: the value read in tick t+1 is exactly the value completed in tick t *)
Theorem loop_carry : forall body bs prev t e, nth_error bs (S t) = Some e ->
  nth_error (loop_run body prev bs) (S t) =
  Some (body (nth t (loop_run body prev bs) []) e).
Proof.
  intros body bs. induction bs as [|e0 r IH]; intros prev t e H; [discriminate|].
  simpl in H |- *. destruct t.
  - destruct r as [|e1 r']; [discriminate|]. simpl in H. injection H as ->. reflexivity.
  - rewrite (IH _ t e H). reflexivity.
Qed.

Lemma brun_length : forall n bs, length (brun n bs) = length bs.
Proof.
  induction n; intros bs; simpl; unfold op_run;
    rewrite ?map_length, ?stateful_length, ?combine_length, ?first_tick_length, ?IHn, ?IHn1, ?IHn2;
    try reflexivity; try apply Nat.min_id.
Qed.
