(* E8 Hydro engine -- the corpus flows satisfy the typing / algebraic side conditions
   (non-vacuity of the C28/C29 theorems on the flows that are actually run). *)
From HV Require Import Hydro.Model Hydro.ModelFlows Hydro.PBase Hydro.PTick.

Definition corpus : list flow :=
  [f_map; f_filter; f_flat_map; f_filter_map; f_enumerate; f_unique; f_union; f_join; f_cross;
   f_anti_join; f_fold; f_fold_comm; f_count; f_max; f_min; f_last; f_reduce; f_fold_keyed;
   f_reduce_keyed; f_map_filter_unique; f_flat_map_enumerate; f_join_fold; f_union_unique_count;
   f_cross_filter; f_unique_join; f_count_map; f_anti_join_unique; f_keyed_max].

Lemma c_plus_comm : fold_comm c_plus.
Proof. intros s a b. unfold c_plus, vn2. simpl. f_equal. lia. Qed.

Lemma c_count_comm : fold_comm c_count.
Proof. intros s a b. reflexivity. Qed.

Lemma corpus_wf : Forall flow_wf corpus.
Proof.
  unfold corpus.
  repeat (apply Forall_cons; [ simpl; repeat split; auto; try discriminate;
                               try (intros _; first [exact c_plus_comm | exact c_count_comm]) | ]).
  apply Forall_nil.
Qed.

(* ------------------------------------------------------------------ soundness of the reflected check *)
Lemma wf_sb_sound : forall n, wf_sb n = true -> wf_s n.
Proof.
  induction n; simpl; intros H; auto;
    try (apply andb_true_iff in H; destruct H as [H1 H2]; split; auto).
  apply andb_true_iff in H2. destruct H2; split; auto.
Qed.

Lemma acc_comm_sound : forall c, acc_comm_b c = true -> fold_comm (acc_interp c).
Proof. intros [| | |f] H; simpl in *; [exact c_plus_comm | exact c_plus_comm | exact c_count_comm | discriminate]. Qed.

Lemma wf_rab_sound : forall r, wf_rab r = true -> wf_a (interp_a r).
Proof.
  induction r; simpl; intros H; auto; apply andb_true_iff in H; destruct H as [H1 H2].
  - split; [apply wf_sb_sound; exact H1|]. intros O. rewrite O in H2. simpl in H2.
    apply acc_comm_sound. exact H2.
  - split; [apply wf_sb_sound; exact H1|]. intros O. congruence.
  - split; [apply wf_sb_sound; exact H1 | exact H2].
  - split; [apply wf_sb_sound; exact H1 | exact H2].
Qed.

Theorem wf_rb_sound : forall f, wf_rb f = true -> flow_wf (rinterp f).
Proof. intros [n|r] H; simpl; [apply wf_sb_sound | apply wf_rab_sound]; exact H. Qed.
