(* E8 Hydro engine -- HydroNode::Network as a channel.
   A one-to-one network link (TCP: ordered, lossless, no duplication) delivers the sequence the
   sender emitted, after an arbitrary delay and in arbitrary batches: the receiver's ticks are SOME
   partition of the sender's whole output.  Because tick-partition invariance holds for every
   partition on both sides, a two-location program is invariant under the sender's partition, the
   link's delays / re-batching, and the receiver's partition. *)
From HV Require Import Hydro.Model Hydro.PBase Hydro.PTick.

(* FIFO link: what the receiver got on its network input [port] over its ticks [bsB] is exactly,
   in order, what the sender program [s] emitted over its ticks [bsA] *)
Definition fifo_delivered (s : snode) (bsA bsB : list env) (port : nat) : Prop :=
  flat bsB port = concat (run_s s bsA).

Definition with_port (port : nat) (l : list val) (e : env) : env :=
  fun i => if Nat.eqb i port then l else e i.

Theorem network_o2o_tickinv : forall (s r : snode) (bsA bsB : list env) (port : nat),
  wf_s s -> wf_s r -> ord s = true -> bsA <> [] -> bsB <> [] ->
  fifo_delivered s bsA bsB port ->
  equiv (ord r) (concat (run_s r bsB))
        (den_s r (with_port port (den_s s (flat bsA)) (flat bsB))).
Proof.
  intros s r bsA bsB port Ws Wr Os NA NB D.
  eapply equiv_trans; [apply run_s_den; assumption|].
  rewrite (den_s_ext r (flat bsB) (with_port port (den_s s (flat bsA)) (flat bsB))); [apply equiv_refl|].
  intros i. unfold with_port. destruct (Nat.eqb i port) eqn:E; [|reflexivity].
  apply PeanoNat.Nat.eqb_eq in E. subst i. unfold fifo_delivered in D. rewrite D.
  pose proof (run_s_den s bsA Ws NA) as H. rewrite Os in H. exact H.
Qed.

(* two runs that differ in the sender's partition, in the link's delays and in the receiver's
   partition end with the same contents *)
Corollary network_o2o_deterministic : forall (s r : snode) bsA bsA' bsB bsB' port,
  wf_s s -> wf_s r -> ord s = true -> bsA <> [] -> bsA' <> [] -> bsB <> [] -> bsB' <> [] ->
  (forall i, flat bsA i = flat bsA' i) ->
  (forall i, i <> port -> flat bsB i = flat bsB' i) ->
  fifo_delivered s bsA bsB port -> fifo_delivered s bsA' bsB' port ->
  equiv (ord r) (concat (run_s r bsB)) (concat (run_s r bsB')).
Proof.
  intros s r bsA bsA' bsB bsB' port Ws Wr Os N1 N2 N3 N4 EA EB D D'.
  pose proof (network_o2o_tickinv s r bsA bsB port Ws Wr Os N1 N3 D) as H1.
  pose proof (network_o2o_tickinv s r bsA' bsB' port Ws Wr Os N2 N4 D') as H2.
  rewrite (den_s_ext s (flat bsA') (flat bsA)) in H2 by (intros; symmetry; apply EA).
  rewrite (den_s_ext r (with_port port (den_s s (flat bsA)) (flat bsB'))
                       (with_port port (den_s s (flat bsA)) (flat bsB))) in H2.
  - apply (equiv_trans _ _ _ _ H1). apply equiv_sym. exact H2.
  - intros i. unfold with_port. destruct (Nat.eqb i port) eqn:E; [reflexivity|].
    apply PeanoNat.Nat.eqb_neq in E. symmetry. apply EB. exact E.
Qed.
