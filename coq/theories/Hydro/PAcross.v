(* E8 Hydro engine -- across_ticks (C30): operators applied to the batches through
   `across_ticks` are the top-level ('static) fragments, and they are causal: after the batches of
   ticks 0..t they have produced / hold exactly the denotation of those batches. *)
From Coq Require Import Arith PeanoNat.
From HV Require Import Hydro.Model Hydro.PBase Hydro.PTick.

Lemma stateful_firstn : forall (St I O : Type) lf (init : St) (step : St -> I -> O * St) k xss s,
  stateful lf init step s (firstn k xss) = firstn k (stateful lf init step s xss).
Proof.
  induction k as [|k IH]; intros xss s; [reflexivity|].
  destruct xss as [|xs r]; [reflexivity|]. simpl. destruct (step s xs) as [o s']. simpl.
  rewrite IH. reflexivity.
Qed.

Lemma op_run_firstn : forall (St I O : Type) lf (init : St) (step : St -> I -> O * St) k xss,
  op_run lf init step (firstn k xss) = firstn k (op_run lf init step xss).
Proof. intros. apply stateful_firstn. Qed.

Lemma first_tick_firstn : forall l k (bs : list env),
  first_tick l (firstn k bs) = firstn k (first_tick l bs).
Proof.
  intros l [|k] [|e r]; simpl; try reflexivity. rewrite firstn_map. reflexivity.
Qed.

(* causality of the emitted top-level semantics *)
Lemma run_s_prefix : forall n k bs, run_s n (firstn k bs) = firstn k (run_s n bs).
Proof.
  induction n; intros k bs; simpl; unfold static_pairs;
    rewrite ?IHn, ?IHn1, ?IHn2;
    repeat (rewrite <- op_run_firstn || rewrite firstn_map || rewrite combine_firstn
            || rewrite <- first_tick_firstn);
    reflexivity.
Qed.

Lemma run_a_prefix : forall a k bs, run_a a (firstn k bs) = firstn k (run_a a bs).
Proof.
  induction a; intros k bs; simpl; rewrite ?IHa, ?run_s_prefix;
    repeat (rewrite <- op_run_firstn || rewrite firstn_map); reflexivity.
Qed.

Lemma firstn_nonempty : forall (A : Type) k (l : list A), 0 < k -> l <> [] -> firstn k l <> [].
Proof. intros A [|k] [|x r] H N; simpl; try lia; congruence. Qed.

(* a stream-valued `across_ticks` body: everything emitted up to tick t is the denotation of the
   batches of ticks 0..t *)
Theorem across_stream_prefix : forall n bs k, wf_s n -> 0 < k -> bs <> [] ->
  equiv (ord n) (concat (firstn k (run_s n bs))) (den_s n (flat (firstn k bs))).
Proof.
  intros n bs k W K NE. rewrite <- run_s_prefix. apply run_s_den; [exact W|].
  apply firstn_nonempty; assumption.
Qed.

Lemma last_firstn : forall (A : Type) (l : list A) t d, t < length l -> last (firstn (S t) l) d = nth t l d.
Proof.
  induction l as [|x r IH]; intros t d H; simpl in H; [lia|].
  destruct t; [destruct r; reflexivity|].
  destruct r as [|y r']; [simpl in H; lia|].
  change (firstn (S (S t)) (x :: y :: r')) with (x :: firstn (S t) (y :: r')).
  rewrite last_cons_ne by (simpl; discriminate). apply IH. simpl in *. lia.
Qed.

(* a singleton / optional / keyed-singleton valued body (count, fold, ...): in tick t it holds the
   aggregate of the batches of ticks 0..t *)
Theorem across_aggregate_at_tick : forall a bs t, wf_a a -> t < length bs ->
  equiv (aexact a) (nth t (run_a a bs) []) (den_a a (flat (firstn (S t) bs))).
Proof.
  intros a bs t W H.
  rewrite <- (last_firstn _ (run_a a bs) t []) by (rewrite run_a_length; exact H).
  rewrite <- run_a_prefix. apply run_a_den; [exact W|].
  apply firstn_nonempty; [lia | destruct bs; [simpl in H; lia | discriminate]].
Qed.
