(* E8 Hydro engine -- list / multiset lemmas used by the tick-partition proofs *)
From Coq Require Import Arith PeanoNat.
From HV Require Import Hydro.Model.

Lemma memb_In : forall x l, memb x l = true <-> In x l.
Proof.
  induction l as [|y r IH]; simpl.
  - split; [discriminate | tauto].
  - destruct (val_eq_dec x y) as [->|ne].
    + split; auto.
    + rewrite IH. split; [auto | intros [e|i]; [congruence | exact i]].
Qed.

Lemma memb_false_In : forall x l, memb x l = false <-> ~ In x l.
Proof.
  intros x l. rewrite <- memb_In. destruct (memb x l); split; congruence.
Qed.

Lemma remove1_perm : forall x l, In x l -> Permutation l (x :: remove1 x l).
Proof.
  induction l as [|y r IH]; simpl; [tauto|].
  intros H. destruct (val_eq_dec x y) as [->|ne]; [reflexivity|].
  destruct H as [e|i]; [congruence|].
  rewrite (IH i) at 1. apply perm_swap.
Qed.

(* multiset_delta emits exactly what is new w.r.t. the previous tick *)
Lemma mdelta_perm : forall cur prev extra,
  Permutation cur (prev ++ extra) -> Permutation (mdelta prev cur) extra.
Proof.
  induction cur as [|x r IH]; intros prev extra H; simpl.
  - apply Permutation_nil in H. destruct prev; [simpl in H; subst; constructor | discriminate].
  - destruct (memb x prev) eqn:M.
    + apply memb_In in M. apply IH.
      pose proof (remove1_perm _ _ M) as P.
      apply Permutation_cons_inv with (a := x).
      rewrite H. rewrite P at 1. reflexivity.
    + apply memb_false_In in M.
      assert (I : In x (prev ++ extra)) by (eapply Permutation_in; [exact H | left; reflexivity]).
      apply in_app_or in I. destruct I as [I|I]; [contradiction|].
      apply in_split in I. destruct I as (e1 & e2 & ->).
      rewrite <- Permutation_middle. constructor. apply IH.
      apply Permutation_cons_inv with (a := x).
      rewrite H. rewrite app_assoc. rewrite <- Permutation_middle. rewrite app_assoc. reflexivity.
Qed.

Lemma mdelta_nil : forall cur, mdelta [] cur = cur.
Proof. induction cur; simpl; congruence. Qed.

(* ---- join / cross product as a double flat_map *)

Lemma flat_map_perm_inner : forall (A B : Type) (f g : A -> list B) l,
  (forall x, Permutation (f x) (g x)) -> Permutation (flat_map f l) (flat_map g l).
Proof.
  induction l as [|x r IH]; intros H; simpl; [constructor|].
  apply Permutation_app; auto.
Qed.

Lemma pairs_app_l : forall m a b c,
  pairs_with m (a ++ b) c = pairs_with m a c ++ pairs_with m b c.
Proof. intros. unfold pairs_with. apply flat_map_app. Qed.

Lemma pairs_app_r : forall m a b c,
  Permutation (pairs_with m a (b ++ c)) (pairs_with m a b ++ pairs_with m a c).
Proof.
  induction a as [|x r IH]; intros b c; simpl; [constructor|].
  rewrite flat_map_app. rewrite (IH b c).
  rewrite <- !app_assoc. apply Permutation_app_head.
  rewrite !app_assoc. apply Permutation_app_tail. apply Permutation_app_comm.
Qed.

Lemma pairs_perm : forall m a a' b b',
  Permutation a a' -> Permutation b b' -> Permutation (pairs_with m a b) (pairs_with m a' b').
Proof.
  intros m a a' b b' Pa Pb. unfold pairs_with.
  transitivity (flat_map (fun l => flat_map (m l) b') a).
  - apply flat_map_perm_inner. intros x. apply Permutation_flat_map. exact Pb.
  - apply Permutation_flat_map. exact Pa.
Qed.

(* the full join after more input contains the previous full join *)
Lemma pairs_grow : forall m L R xs ys,
  exists E, Permutation (pairs_with m (L ++ xs) (R ++ ys)) (pairs_with m L R ++ E).
Proof.
  intros. exists (pairs_with m L ys ++ pairs_with m xs (R ++ ys)).
  rewrite pairs_app_l. rewrite (pairs_app_r m L R ys). rewrite app_assoc. reflexivity.
Qed.

(* ---- filter as flat_map, permutations *)

Lemma filter_flat_map : forall (p : val -> bool) l,
  filter p l = flat_map (fun x => if p x then [x] else []) l.
Proof. induction l as [|x r IH]; simpl; [reflexivity|]. destruct (p x); simpl; congruence. Qed.

Lemma filter_perm : forall (p : val -> bool) a b,
  Permutation a b -> Permutation (filter p a) (filter p b).
Proof. intros. rewrite !filter_flat_map. apply Permutation_flat_map. assumption. Qed.

Lemma concat_map_map : forall (f : val -> val) xss,
  concat (map (map f) xss) = map f (concat xss).
Proof. intros. symmetry. apply concat_map. Qed.

Lemma concat_map_filter : forall (p : val -> bool) xss,
  concat (map (filter p) xss) = filter p (concat xss).
Proof.
  induction xss as [|xs r IH]; simpl; [reflexivity|]. rewrite IH, filter_app. reflexivity.
Qed.

Lemma concat_map_flat_map : forall (g : val -> list val) xss,
  concat (map (flat_map g) xss) = flat_map g (concat xss).
Proof.
  induction xss as [|xs r IH]; simpl; [reflexivity|]. rewrite IH, flat_map_app. reflexivity.
Qed.

Lemma concat_empties : forall (A B : Type) (r : list A),
  concat (map (fun _ => @nil B) r) = [].
Proof. induction r; simpl; auto. Qed.

Lemma concat_zip_app : forall xss yss : list (list val),
  length xss = length yss ->
  Permutation (concat (map (fun p => fst p ++ snd p) (combine xss yss)))
              (concat xss ++ concat yss).
Proof.
  induction xss as [|xs r IH]; intros [|ys s] H; simpl in *; try discriminate; [constructor|].
  injection H as H. rewrite (IH s H).
  rewrite <- !app_assoc. apply Permutation_app_head.
  rewrite !app_assoc. apply Permutation_app_tail. apply Permutation_app_comm.
Qed.

(* ---- unique *)

Lemma uniq_from_spec : forall l seen,
  NoDup (uniq_from seen l) /\
  (forall x, In x (uniq_from seen l) <-> In x l /\ ~ In x seen).
Proof.
  induction l as [|y r IH]; intros seen; simpl.
  - split; [constructor | intros; tauto].
  - destruct (memb y seen) eqn:M.
    + apply memb_In in M. destruct (IH seen) as [ND EQ]. split; [exact ND|].
      intros x. rewrite EQ. split; [tauto|]. intros [[e|i] ns]; [subst; contradiction | tauto].
    + apply memb_false_In in M. destruct (IH (seen ++ [y])) as [ND EQ]. split.
      * constructor; [|exact ND]. rewrite EQ. intros [_ n]. apply n. apply in_or_app. right. left. reflexivity.
      * intros x. simpl. rewrite EQ. rewrite in_app_iff. simpl.
        destruct (val_eq_dec y x) as [->|ne]; [tauto|]. tauto.
Qed.

Lemma uniq_perm : forall a b, Permutation a b -> Permutation (uniq a) (uniq b).
Proof.
  intros a b P. unfold uniq.
  destruct (uniq_from_spec a []) as [Na Ea]. destruct (uniq_from_spec b []) as [Nb Eb].
  apply NoDup_Permutation; auto.
  intros x. rewrite Ea, Eb. split; intros [i n]; split; auto.
  - eapply Permutation_in; eauto.
  - eapply Permutation_in; [symmetry|]; eauto.
Qed.

(* ---- folds over multisets *)

Lemma fold_left_perm : forall acc, fold_comm acc ->
  forall a b, Permutation a b -> forall s, fold_left acc a s = fold_left acc b s.
Proof.
  intros acc C a b P. induction P; intros s; simpl; auto.
  - rewrite C. reflexivity.
  - rewrite IHP1. apply IHP2.
Qed.

Lemma comm_assoc_fold_comm : forall f, comm_assoc f -> fold_comm f.
Proof.
  intros f [C A] s a b. rewrite !A. f_equal. apply C.
Qed.

Lemma reduce_fold : forall f l a,
  fold_left (reduce_opt f) l (Some a) = Some (fold_left f l a).
Proof. induction l as [|x r IH]; intros a; simpl; auto. Qed.

Lemma fold_left_comm_head : forall f, comm_assoc f ->
  forall l a x, fold_left f l (f a x) = f (fold_left f l a) x.
Proof.
  intros f CA. pose proof (comm_assoc_fold_comm f CA) as FC.
  induction l as [|y r IH]; intros a x; simpl; auto.
  rewrite <- IH. f_equal. apply FC.
Qed.

Lemma reduce_perm : forall f, comm_assoc f ->
  forall a b, Permutation a b -> reduce_list f a = reduce_list f b.
Proof.
  intros f CA a b P. unfold reduce_list.
  pose proof (comm_assoc_fold_comm f CA) as FC. destruct CA as [C A].
  induction P; simpl; auto.
  - rewrite !reduce_fold. f_equal. apply fold_left_perm; auto.
  - rewrite !reduce_fold. f_equal. f_equal. apply C.
  - congruence.
Qed.

(* ---- executable comparisons *)

Lemma veqb_eq : forall a b, veqb a b = true <-> a = b.
Proof. intros. unfold veqb. destruct (val_eq_dec a b); split; congruence. Qed.

Lemma list_eqb_eq : forall a b, list_eqb a b = true <-> a = b.
Proof.
  induction a as [|x r IH]; intros [|y s]; simpl; split; try congruence; try discriminate.
  - rewrite andb_true_iff, veqb_eq, IH. intros [-> ->]. reflexivity.
  - intros H. injection H as -> ->. rewrite andb_true_iff, veqb_eq, IH. auto.
Qed.

Lemma vcount_count_occ : forall x l, vcount x l = count_occ val_eq_dec l x.
Proof. induction l as [|y r IH]; simpl; auto. destruct (val_eq_dec y x); congruence. Qed.

Lemma vcount_remove1 : forall x y l, In y l ->
  vcount x l = (if val_eq_dec y x then 1 else 0) + vcount x (remove1 y l).
Proof.
  intros x y l I. rewrite !vcount_count_occ.
  rewrite (proj1 (Permutation_count_occ val_eq_dec l (y :: remove1 y l)) (remove1_perm _ _ I) x).
  simpl. destruct (val_eq_dec y x); reflexivity.
Qed.

(* same length + counts agree on the elements of a  =>  permutation *)
Lemma perm_b_sound : forall a b, perm_b a b = true -> Permutation a b.
Proof.
  induction a as [|x r IH]; intros b H; unfold perm_b in H; apply andb_true_iff in H; destruct H as [HL HC].
  - apply Nat.eqb_eq in HL. destruct b; [constructor | discriminate].
  - simpl in HC. apply andb_true_iff in HC. destruct HC as [Hx Hr].
    apply Nat.eqb_eq in Hx. apply Nat.eqb_eq in HL.
    assert (I : In x b).
    { destruct (in_dec val_eq_dec x b) as [i|n]; [exact i|].
      rewrite (vcount_count_occ x b) in Hx.
      rewrite (proj1 (count_occ_not_In val_eq_dec b x) n) in Hx.
      simpl in Hx. destruct (val_eq_dec x x); [discriminate | congruence]. }
    rewrite (remove1_perm _ _ I). constructor. apply IH.
    unfold perm_b. apply andb_true_iff. split.
    + apply Nat.eqb_eq. pose proof (Permutation_length (remove1_perm _ _ I)) as PL.
      simpl in PL, HL. lia.
    + rewrite forallb_forall in Hr |- *. intros y Hy. specialize (Hr y Hy).
      apply Nat.eqb_eq in Hr. apply Nat.eqb_eq.
      rewrite (vcount_remove1 y x b I) in Hr. simpl in Hr.
      destruct (val_eq_dec x y); simpl in Hr; lia.
Qed.

Lemma perm_b_complete : forall a b, Permutation a b -> perm_b a b = true.
Proof.
  intros a b P. unfold perm_b. apply andb_true_iff. split.
  - apply Nat.eqb_eq. apply Permutation_length. exact P.
  - apply forallb_forall. intros x _. apply Nat.eqb_eq. rewrite !vcount_count_occ.
    apply (proj1 (Permutation_count_occ val_eq_dec a b) P).
Qed.

Lemma equiv_b_spec : forall o a b, equiv_b o a b = true <-> equiv o a b.
Proof.
  intros [|] a b; simpl.
  - apply list_eqb_eq.
  - split; [apply perm_b_sound | apply perm_b_complete].
Qed.

(* ---- equiv *)

Lemma equiv_perm : forall o a b, equiv o a b -> Permutation a b.
Proof. intros [|] a b H; simpl in H; [subst; reflexivity | exact H]. Qed.

Lemma equiv_refl : forall o a, equiv o a a.
Proof. intros [|] a; simpl; reflexivity. Qed.

Lemma equiv_weaken : forall o1 o2 a b, (o2 = true -> o1 = true) -> equiv o1 a b -> equiv o2 a b.
Proof.
  intros o1 [|] a b H E.
  - rewrite (H eq_refl) in E. exact E.
  - apply equiv_perm in E. exact E.
Qed.

Lemma equiv_congr : forall (F : list val -> list val) o a b,
  (forall x y, Permutation x y -> Permutation (F x) (F y)) ->
  equiv o a b -> equiv o (F a) (F b).
Proof. intros F [|] a b H E; simpl in *; [subst; reflexivity | auto]. Qed.

Lemma equiv_trans_eq : forall o a b c, a = b -> equiv o b c -> equiv o a c.
Proof. intros; subst; assumption. Qed.
