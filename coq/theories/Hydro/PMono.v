(* E8 Hydro engine -- C33: monotone / bounded-value annotations are truthful on the emitted
   semantics: consecutive per-tick snapshots are related as the type promises, for every input
   history and every partition into ticks. *)
From Coq Require Import Arith PeanoNat.
From HV Require Import Hydro.Model Hydro.ModelFlows Hydro.PBase Hydro.PTick.

(* adjacent elements of a list are related *)
Inductive Adj (R : list val -> list val -> Prop) : list (list val) -> Prop :=
| adj_nil : Adj R []
| adj_one : forall a, Adj R [a]
| adj_cons : forall a b r, R a b -> Adj R (b :: r) -> Adj R (a :: b :: r).

Section MonoFold.
  Variable le : val -> val -> Prop.
  Hypothesis le_refl : forall a, le a a.
  Hypothesis le_trans : forall a b c, le a b -> le b c -> le a c.
  Variable acc : val -> val -> val.
  Hypothesis acc_mono : forall s a, le s (acc s a).       (* the `monotone = ...` obligation *)

  Lemma fold_left_mono : forall xs s, le s (fold_left acc xs s).
  Proof. induction xs as [|x r IH]; intros s; simpl; auto. eapply le_trans; [apply acc_mono | apply IH]. Qed.

  Definition single_le (a b : list val) : Prop :=
    match a, b with [x], [y] => le x y | _, _ => False end.

  Lemma fold_snapshots_gen : forall xss i0 s,
    Adj single_le ([s] :: stateful LStatic i0 (fold_step acc) s xss).
  Proof.
    induction xss as [|xs r IH]; intros i0 s; simpl; [constructor|].
    constructor; [apply fold_left_mono | apply IH].
  Qed.

  Lemma Adj_tail : forall R a l, Adj R (a :: l) -> Adj R l.
  Proof. intros R a l H. inversion H; subst; [constructor | assumption]. Qed.

  (* a top-level fold with a monotone closure: every snapshot is >= the previous one *)
  Theorem fold_snapshots_monotone : forall init x bs,
    Adj single_le (run_a (AFold init acc x) bs).
  Proof. intros. simpl. unfold op_run. eapply Adj_tail. apply fold_snapshots_gen. Qed.
End MonoFold.

(* keyed aggregates: a generic "entries only evolve along R" invariant *)
Section KeyedEvolve.
  Variable R : val -> val -> Prop.
  Hypothesis R_refl : forall a, R a a.
  Hypothesis R_trans : forall a b c, R a b -> R b c -> R a c.
  Variable upd : list (val * val) -> val -> list (val * val).
  Variable g : val -> option val -> val.      (* new value of key (vfst kv) *)
  Hypothesis upd_lookup : forall m kv k,
    klookup k (upd m kv) = if val_eq_dec k (vfst kv) then Some (g kv (klookup (vfst kv) m)) else klookup k m.
  Hypothesis g_evolves : forall kv v, R v (g kv (Some v)).

  Definition evolves (m m' : list (val * val)) : Prop :=
    forall k v, klookup k m = Some v -> exists v', klookup k m' = Some v' /\ R v v'.

  Lemma evolves_refl : forall m, evolves m m.
  Proof. intros m k v H. exists v. auto. Qed.

  Lemma evolves_step : forall m kv, evolves m (upd m kv).
  Proof.
    intros m kv k v H. rewrite upd_lookup. destruct (val_eq_dec k (vfst kv)) as [->|ne].
    - rewrite H. eexists. split; [reflexivity | apply g_evolves].
    - exists v. auto.
  Qed.

  Lemma evolves_trans : forall a b c, evolves a b -> evolves b c -> evolves a c.
  Proof.
    intros a b c H1 H2 k v H. destruct (H1 k v H) as (v' & L1 & R1).
    destruct (H2 k v' L1) as (v'' & L2 & R2). exists v''. split; [exact L2 | eapply R_trans; eauto].
  Qed.

  Lemma evolves_fold : forall xs m, evolves m (fold_left upd xs m).
  Proof.
    induction xs as [|x r IH]; intros m; simpl; [apply evolves_refl|].
    eapply evolves_trans; [apply evolves_step | apply IH].
  Qed.

  Definition snap_evolves (a b : list val) : Prop := evolves (entries_map a) (entries_map b).

  Lemma entries_map_kentries : forall m, entries_map (kentries m) = m.
  Proof.
    induction m as [|[k v] r IH]; simpl; [reflexivity|]. unfold entries_map, kentries in *.
    simpl. rewrite IH. reflexivity.
  Qed.

  Lemma keyed_snapshots_gen : forall xss i0 m,
    Adj snap_evolves
      (kentries m :: stateful LStatic i0
         (fun m xs => let m' := fold_left upd xs m in (kentries m', m')) m xss).
  Proof.
    induction xss as [|xs r IH]; intros i0 m; simpl; [constructor|].
    constructor; [|apply IH].
    unfold snap_evolves. rewrite !entries_map_kentries. apply evolves_fold.
  Qed.
End KeyedEvolve.

Lemma kfold_upd_lookup : forall init acc m kv k,
  klookup k (kfold_upd init acc m kv) =
  if val_eq_dec k (vfst kv)
  then Some (acc (match klookup (vfst kv) m with None => init | Some a => a end) (vsnd kv))
  else klookup k m.
Proof. intros. unfold kfold_upd. apply klookup_kupd. Qed.

Lemma kreduce_upd_lookup : forall f m kv k,
  klookup k (kreduce_upd f m kv) =
  if val_eq_dec k (vfst kv)
  then Some (match klookup (vfst kv) m with None => vsnd kv | Some a => f a (vsnd kv) end)
  else klookup k m.
Proof. intros. unfold kreduce_upd. apply klookup_kupd. Qed.

(* MonotonicKeys / MonotonicValue / BoundedValue for the emitted keyed fold and keyed reduce:
   with R = "anything" keys never disappear; with R = le and a monotone closure values never
   decrease; with R = eq and a closure that keeps its accumulator the value never changes *)
Theorem keyed_fold_snapshots : forall (R : val -> val -> Prop),
  (forall a, R a a) -> (forall a b c, R a b -> R b c -> R a c) ->
  forall init acc, (forall s a, R s (acc s a)) ->
  forall x bs, Adj (snap_evolves R) (run_a (AFoldKeyed init acc x) bs).
Proof.
  intros R Rr Rt init acc Hm x bs. simpl. unfold op_run.
  eapply Adj_tail.
  apply (keyed_snapshots_gen R Rr Rt (kfold_upd init acc)
           (fun kv o => acc (match o with None => init | Some a => a end) (vsnd kv))).
  - intros. apply kfold_upd_lookup.
  - intros kv v. apply Hm.
Qed.

Theorem keyed_reduce_snapshots : forall (R : val -> val -> Prop),
  (forall a, R a a) -> (forall a b c, R a b -> R b c -> R a c) ->
  forall f, (forall s a, R s (f s a)) ->
  forall x bs, Adj (snap_evolves R) (run_a (AReduceKeyed f x) bs).
Proof.
  intros R Rr Rt f Hm x bs. simpl. unfold op_run.
  eapply Adj_tail.
  apply (keyed_snapshots_gen R Rr Rt (kreduce_upd f)
           (fun kv o => match o with None => vsnd kv | Some a => f a (vsnd kv) end)).
  - intros. apply kreduce_upd_lookup.
  - intros kv v. apply Hm.
Qed.

(* the concrete order on numbers used by count / value_counts *)
Definition nle (a b : val) : Prop := (n_of a <= n_of b)%N.
Lemma nle_refl : forall a, nle a a.
Proof. intros a. unfold nle. lia. Qed.
Lemma nle_trans : forall a b c, nle a b -> nle b c -> nle a c.
Proof. unfold nle. intros. lia. Qed.
Lemma c_count_mono : forall s a, nle s (c_count s a).
Proof. intros s a. unfold nle, c_count. simpl. lia. Qed.

(* Stream::count: Singleton<usize, _, Monotonic> *)
Theorem count_snapshots_monotone : forall x bs,
  Adj (single_le nle) (run_a (AFold (VN 0) c_count x) bs).
Proof. intros. apply (fold_snapshots_monotone nle nle_refl nle_trans c_count c_count_mono). Qed.

(* KeyedStream::value_counts: MonotonicValue *)
Theorem value_counts_snapshots_monotone : forall x bs,
  Adj (snap_evolves nle) (run_a (AFoldKeyed (VN 0) c_count x) bs).
Proof.
  intros. apply keyed_fold_snapshots; [apply nle_refl | apply nle_trans | apply c_count_mono].
Qed.

(* any keyed fold / reduce: MonotonicKeys (keys are only added) *)
Theorem keyed_fold_keys_monotone : forall init acc x bs,
  Adj (snap_evolves (fun _ _ => True)) (run_a (AFoldKeyed init acc x) bs).
Proof. intros. apply keyed_fold_snapshots; auto. Qed.

Theorem keyed_reduce_keys_monotone : forall f x bs,
  Adj (snap_evolves (fun _ _ => True)) (run_a (AReduceKeyed f x) bs).
Proof. intros. apply keyed_reduce_snapshots; auto. Qed.

(* KeyedStream::first (specified as keyed reduce keeping the accumulator): BoundedValue *)
Theorem keyed_first_value_never_changes : forall x bs,
  Adj (snap_evolves eq) (run_a (AReduceKeyed c_first x) bs).
Proof.
  intros. apply keyed_reduce_snapshots; auto. intros; congruence.
Qed.

(* ------------------------------------------------------------------ the bound judgement is truthful *)
Lemma acc_mono_sound : forall c, acc_mono_b c = true -> forall s a, nle s (acc_interp c s a).
Proof.
  intros [| | |f] H s a; simpl in H; try discriminate; simpl.
  - unfold nle, c_plus, vn2. simpl. lia.
  - apply c_count_mono.
Qed.

(* every promise [abound] derives for a fold / keyed fold / keyed reduce node holds on the emitted
   semantics, for every input history and tick partition (map / map_with_key nodes only ERASE
   promises; that the remaining MonotonicKeys promise survives them rests on the API's wrapper
   `(k, v) -> (k, f ..)` keeping the key, which is not proved here) *)
Theorem abound_sound : forall r bs,
  match r with
  | RMap _ _ => True
  | _ =>
    match abound r with
    | BMonoSingle => Adj (single_le nle) (run_a (interp_a r) bs)
    | BMonoValue => Adj (snap_evolves nle) (run_a (interp_a r) bs)
    | BMonoKeys => Adj (snap_evolves (fun _ _ => True)) (run_a (interp_a r) bs)
    | BUnb => True
    end
  end.
Proof.
  intros [init c x|f x|init c x|f x|f a] bs; simpl; auto.
  - destruct (acc_mono_b c) eqn:M; [|exact I].
    apply (fold_snapshots_monotone nle nle_refl nle_trans (acc_interp c) (acc_mono_sound c M)).
  - destruct (acc_mono_b c) eqn:M.
    + apply keyed_fold_snapshots; [apply nle_refl | apply nle_trans | apply acc_mono_sound; exact M].
    + apply keyed_fold_snapshots; auto.
Qed.
